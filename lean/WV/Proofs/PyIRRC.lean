import WV.Proofs.PyIR_Client
import WV.Gen.PyIRRC

/-!
Translation validation of the `RendezvousConnector` glue (`_tx`, `stop`, `ws_open`, `ws_close`,
`_initial_connection_failed`, `_response_handle_nameplates`) and of the Input helpers against the control model
`WV.Client` (what C08 / C09 / C14 / C18 share): definitions and lemmas.  Theorems are in `WV.Props.PyIRRC_C14`.

The connector is not an Automat machine: its methods are the *glue arms* of `WV.Client.exec` (`.tx cmd`, `.rcStop`)
and of `WV.Client.step` (`.wsOpen`, `.wsClose`, `.wsFail`, `.failInitial`, `.nameplates`).  The heap relation `RelRC`
ties the three attributes the model reads (`_ws`, `_have_made_a_successful_connection`, `_stopping`) to the flags
`wsOpen`, `everConnected`, `stopping`; the remaining connection flags of the model (`halfOpen`, `wsClosing`,
`stopPending`) are state of the *environment* (ClientService / autobahn) and appear on the interpreter side as
`Env.raises` (autobahn's `sendMessage` raising `Disconnected`) and as the Deferred that `stopService()` returns.

Deliberate narrowing: `d = defer.maybeDeferred(self._connector.stopService)` is the recorded call `_connector.stopService()`
whose value is the Deferred.  A synchronous exception of that call propagates in the IR, whereas `maybeDeferred` would
turn it into a failed Deferred; `Env.raises` on it is used only as an observation device (`rc_stop_flag_before_call`:
what has already been done when the call is made), no agreement theorem with the model contains such an outcome.
-/
set_option linter.unusedSimpArgs false
set_option linter.unusedVariables false

namespace WV.Proofs.PyIRRC
open WV WV.Gen WV.PyIR WV.Client WV.Gen.PyIRRC WV.Proofs.PyIRC03 WV.Proofs.PyIRClient
open WV.C03 (dset dget)

/-- the Deferred a recorded call returns (`defer.maybeDeferred(self._connector.stopService)`): one object per call -/
def deferredOf (k : Nat) : Val := .obj "Deferred" [.int k]

/-- uninterpreted environment whose recorded calls return Deferreds -/
abbrev envRC (raises : Nat → Option String) : Env := envU noBad raises deferredOf

/-- only the call with index `k` raises `cls` -/
def raiseAt (k : Nat) (cls : String) : Nat → Option String := fun i => if i = k then some cls else none

/-- heap ⟷ control flags of the connector -/
structure RelRC (h : Store) (c : Ctl) : Prop where
  ws : ∃ v, h.get "_ws" = some v ∧
    ((v = .none ∧ c.wsOpen = false) ∨ (∃ cls fs, v = .obj cls fs ∧ c.wsOpen = true))
  ever : h.get "_have_made_a_successful_connection" = some (.bool c.everConnected)
  stopping : h.get "_stopping" = some (.bool c.stopping)
  trace : ∃ v, h.get "_trace" = some v
  url : ∃ v, h.get "_url" = some v
  side : ∃ v, h.get "_side" = some v
  appid : ∃ v, h.get "_appid" = some v
  version : ∃ v, h.get "_client_version" = some v
  wTiming : ∃ v, h.get "_timing" = some v
  wStatus : ∃ v, h.get "_evolve_status" = some v
  wConnector : ∃ v, h.get "_connector" = some v
  wB : ∃ v, h.get "_B" = some v
  wN : ∃ v, h.get "_N" = some v
  wM : ∃ v, h.get "_M" = some v
  wL : ∃ v, h.get "_L" = some v
  wA : ∃ v, h.get "_A" = some v
  wT : ∃ v, h.get "_T" = some v

set_option hygiene false in
macro "openRC" R:ident : tactic =>
  `(tactic| obtain ⟨⟨wsv, hws, hwsc⟩, hever, hstopping, ⟨tr, htr⟩, ⟨vUrl, hUrl⟩, ⟨vSide, hSide⟩, ⟨vAppid, hAppid⟩,
      ⟨vVer, hVer⟩, ⟨vTm, hTm⟩, ⟨vSt, hSt⟩, ⟨vCn, hCn⟩, ⟨vB, hB⟩, ⟨vN, hN⟩, ⟨vM, hM⟩, ⟨vL, hL⟩, ⟨vA, hA⟩, ⟨vT, hT⟩⟩ := $R)

/-- calls that are not control calls of the connector: the debug trace, the timing log, the status callback -/
def ignorableRC (c : Call) : Bool :=
  match c.obj with
  | "_trace" | "_timing" | "_evolve_status" => true
  | _ => false

/-- the control calls of a run, in order -/
def ctlCalls (o : WV.PyIR.Outcome) : List Call := o.calls.filter (fun c => !ignorableRC c)

/-- the name the control model gives a call of the connector: `self._tx("bind", appid=…, side=…, client_version=…)`
    is the item `.tx .bind` (`_RC.tx_bind`), everything else as in `WV.Proofs.PyIRClient.callName` -/
def rcCallName (c : Call) : String :=
  match c.obj, c.meth, c.args with
  | "self", "_tx[appid,side,client_version]", (.str m) :: _ => "_RC.tx_" ++ m
  | _, _, _ => callName c

def RcCallsAre : List Call → Agenda → Prop
  | [], [] => True
  | c :: cs, p :: ps => itemName p.1 = some (rcCallName c) ∧ RcCallsAre cs ps
  | _, _ => False

/-! ## `**kwargs` as a dict value -/

/-- the dict a `**kwargs` parameter holds: `str` keys in call order -/
def encKw (kw : List (String × Val)) : List (Val × Val) := encDict Val.str (fun v : Val => v) kw

theorem kwSet (kw : List (String × Val)) (k : String) (v : Val) :
    dictSet (.str k) v (encKw kw) = .ok (encKw (dset kw k v)) := by
  have := dictSet_enc keyEnc_str (fun v : Val => v) kw k v
  simpa [encKw] using this

/-- the random message id `bytes_to_hexstr(os.urandom(2))` (uninterpreted) -/
def msgId : Val := .obj "bytes_to_hexstr" [.obj "os.urandom" [.int 2]]

/-- the frame `_tx(mtype, **kw)` writes: `dict_to_bytes` of the keyword arguments plus `id` and `type = mtype` -/
def frameOf (mtype : String) (kw : List (String × Val)) : Val :=
  .obj "dict_to_bytes" [.dict (encKw (dset (dset kw "id" msgId) "type" (.str mtype)))]

/-! ## the Deferred chains -/

/-- `d = maybeDeferred(self._connector.stopService); d.addErrback(log.err); d.add<how>(<then>)` starting at call
    index `k` -/
def stopChain (k : Nat) (how : String) (cont : Val) : List Call :=
  [⟨"_connector", "stopService", []⟩,
   ⟨"$v", "addErrback", [deferredOf k, .obj "function" [.str "log.err"]]⟩,
   ⟨"$v", how, [deferredOf k, cont]⟩]

/-- the continuation `lambda _: self._B.error(sce)` -/
def errorCallback (sce : Val) : Val := .obj "callback" [.str "_B", .str "error", sce]

/-- the continuation `self._stopped` -/
def stoppedMethod : Val := .obj "method" [.str "_stopped"]

/-- running a continuation when its Deferred fires: `callback(_X, meth, args…)` is the collaborator call, a bound
    method is interpreted from the table -/
def fire (fuel : Nat) (env : Env) (h : Store) : Val → WV.PyIR.Outcome
  | .obj "callback" (.str obj :: .str meth :: args) => { heap := h, calls := [⟨obj, meth, args⟩], exc := none }
  | .obj "method" [.str m] => PyIR.exec fuel env tbl_RendezvousConnector m [.none] h
  | _ => { heap := h, calls := [], exc := some "Unsupported" }

/-- symbolic evaluation for the connector theorems -/
macro "rc_eval" "[" ts:Lean.Parser.Tactic.simpLemma,* "]" : tactic =>
  `(tactic| ctl_eval [tbl_RendezvousConnector, tbl_Input, envRC, deferredOf, raiseAt, ctlCalls, ignorableRC, rcCallName, RcCallsAre, doEmitR, runReenter,
      reraiseAs, stopChain, errorCallback, stoppedMethod, fire, kwSet, $ts,*])

/-- a relation goal after a run that touched (at most) the three modelled attributes -/
theorem relRC_frame {h h' : Store} {c c' : Ctl} (R : RelRC h c)
    (hws : ∃ v, h'.get "_ws" = some v ∧
      ((v = .none ∧ c'.wsOpen = false) ∨ (∃ cls fs, v = .obj cls fs ∧ c'.wsOpen = true)))
    (hever : h'.get "_have_made_a_successful_connection" = some (.bool c'.everConnected))
    (hstop : h'.get "_stopping" = some (.bool c'.stopping))
    (hrest : ∀ a, a ≠ "_ws" → a ≠ "_have_made_a_successful_connection" → a ≠ "_stopping" → h'.get a = h.get a) :
    RelRC h' c' := by
  obtain ⟨_, _, _, ⟨tr, htr⟩, ⟨vUrl, hUrl⟩, ⟨vSide, hSide⟩, ⟨vAppid, hAppid⟩,
      ⟨vVer, hVer⟩, ⟨vTm, hTm⟩, ⟨vSt, hSt⟩, ⟨vCn, hCn⟩, ⟨vB, hB⟩, ⟨vN, hN⟩, ⟨vM, hM⟩, ⟨vL, hL⟩, ⟨vA, hA⟩, ⟨vT, hT⟩⟩ := R
  exact ⟨hws, hever, hstop, ⟨tr, by rw [hrest _ (by decide) (by decide) (by decide)]; exact htr⟩,
    ⟨vUrl, by rw [hrest _ (by decide) (by decide) (by decide)]; exact hUrl⟩,
    ⟨vSide, by rw [hrest _ (by decide) (by decide) (by decide)]; exact hSide⟩,
    ⟨vAppid, by rw [hrest _ (by decide) (by decide) (by decide)]; exact hAppid⟩,
    ⟨vVer, by rw [hrest _ (by decide) (by decide) (by decide)]; exact hVer⟩,
    ⟨vTm, by rw [hrest _ (by decide) (by decide) (by decide)]; exact hTm⟩,
    ⟨vSt, by rw [hrest _ (by decide) (by decide) (by decide)]; exact hSt⟩,
    ⟨vCn, by rw [hrest _ (by decide) (by decide) (by decide)]; exact hCn⟩,
    ⟨vB, by rw [hrest _ (by decide) (by decide) (by decide)]; exact hB⟩,
    ⟨vN, by rw [hrest _ (by decide) (by decide) (by decide)]; exact hN⟩,
    ⟨vM, by rw [hrest _ (by decide) (by decide) (by decide)]; exact hM⟩,
    ⟨vL, by rw [hrest _ (by decide) (by decide) (by decide)]; exact hL⟩,
    ⟨vA, by rw [hrest _ (by decide) (by decide) (by decide)]; exact hA⟩,
    ⟨vT, by rw [hrest _ (by decide) (by decide) (by decide)]; exact hT⟩⟩

/-- discharges the frame condition of `relRC_frame` for a heap built by `Store.set`s -/
macro "rc_frame" : tactic =>
  `(tactic| (intro a h1 h2 h3; simp [get_set, Ne.symm h1, Ne.symm h2, Ne.symm h3]))

/-- the four `lost()` notifications of `ws_close` -/
def lostCalls : List Call := [⟨"_N", "lost", []⟩, ⟨"_M", "lost", []⟩, ⟨"_L", "lost", []⟩, ⟨"_A", "lost", []⟩]

/-- the five control calls of `ws_open`'s guarded block -/
def wsOpenCalls (ap sd ver : Val) : List Call :=
  [⟨"self", "_tx[appid,side,client_version]", [.str "bind", ap, sd, ver]⟩, ⟨"_N", "connected", []⟩,
   ⟨"_M", "connected", []⟩, ⟨"_L", "connected", []⟩, ⟨"_A", "connected", []⟩]

/-! ## `_response_handle_nameplates`: a set of strings built in a loop over a local list -/

/-- `s.add(i)` on a set kept in insertion order -/
def addNew (acc : List String) (i : String) : List String := if i ∈ acc then acc else acc ++ [i]

/-- the set `nids` after the loop: the ids, first occurrences, in order -/
def nidsOf (ids : List String) : List String := ids.foldl addNew []

theorem addNew_map (acc : List String) (i : String) :
    (addNew acc i).map Val.str = if i ∈ acc then acc.map Val.str else acc.map Val.str ++ [Val.str i] := by
  by_cases h : i ∈ acc <;> simp [addNew, h]

theorem memKeys_str (acc : List String) (i : String) : memKeys (.str i) (acc.map Val.str) = .ok (decide (i ∈ acc)) :=
  memKeys_enc keyEnc_str acc i

theorem mem_nidsOf (ids : List String) (i : String) : i ∈ nidsOf ids ↔ i ∈ ids := by
  suffices h : ∀ acc, i ∈ ids.foldl addNew acc ↔ (i ∈ acc ∨ i ∈ ids) by simpa [nidsOf] using h []
  induction ids with
  | nil => intro acc; simp
  | cons j r ih =>
    intro acc
    simp only [List.foldl_cons, ih, List.mem_cons]
    by_cases hj : j ∈ acc
    · simp only [addNew, hj, if_true]
      constructor
      · rintro (h | h); exact Or.inl h; exact Or.inr (Or.inr h)
      · rintro (h | rfl | h); exact Or.inl h; exact Or.inl hj; exact Or.inr h
    · simp only [addNew, hj, if_false, List.mem_append, List.mem_singleton]
      constructor
      · rintro ((h | rfl) | h); exact Or.inl h; exact Or.inr (Or.inl rfl); exact Or.inr (Or.inr h)
      · rintro (h | rfl | h); exact Or.inl (Or.inl h); exact Or.inl (Or.inr rfl); exact Or.inr h

/-- a `for x in <list of entries>` loop that adds one string per entry to the set held in the local `nv` and touches
    neither the heap nor the calls, all lengths.  `hstep` is discharged by symbolic evaluation of the generated body. -/
theorem forLoop_nids {x nv : String} {body : St → St × Flow} (entry : String → Val) (h : Store) (cs : List Call)
    (hstep : ∀ (L : Store) (acc : List String) (i : String), L.get nv = some (.set (acc.map Val.str)) →
      ∃ L', body ⟨h, L.set x (entry i), cs⟩ = (⟨h, L', cs⟩, .norm) ∧
        L'.get nv = some (.set ((addNew acc i).map Val.str)))
    (ids : List String) : ∀ (L : Store) (acc : List String), L.get nv = some (.set (acc.map Val.str)) →
      ∃ L', forLoop (.one x) body (ids.map entry) ⟨h, L, cs⟩ = (⟨h, L', cs⟩, .norm) ∧
        L'.get nv = some (.set ((ids.foldl addNew acc).map Val.str)) := by
  induction ids with
  | nil => intro L acc hL; exact ⟨L, by simp [forLoop], by simpa using hL⟩
  | cons i r ih =>
    intro L acc hL
    obtain ⟨L1, hb, hn⟩ := hstep L acc i hL
    obtain ⟨L2, hl, hn2⟩ := ih L1 (addNew acc i) hn
    refine ⟨L2, ?_, by simpa using hn2⟩
    simp [forLoop, bindPat, withVal, andThen, St.setLocal, hb, hl]

/-- the same loop when the entry at position `pre.length` is malformed: the iteration raises `c`, the loop stops -/
theorem forLoop_nids_abort {x nv : String} {body : St → St × Flow} (entry : String → Val) (h : Store) (cs : List Call)
    (c : String) (bad : Val) (post : List Val)
    (hstep : ∀ (L : Store) (acc : List String) (i : String), L.get nv = some (.set (acc.map Val.str)) →
      ∃ L', body ⟨h, L.set x (entry i), cs⟩ = (⟨h, L', cs⟩, .norm) ∧
        L'.get nv = some (.set ((addNew acc i).map Val.str)))
    (hbad : ∀ (L : Store), ∃ L', body ⟨h, L.set x bad, cs⟩ = (⟨h, L', cs⟩, .exc c))
    (pre : List String) : ∀ (L : Store) (acc : List String), L.get nv = some (.set (acc.map Val.str)) →
      ∃ L', forLoop (.one x) body (pre.map entry ++ bad :: post) ⟨h, L, cs⟩ = (⟨h, L', cs⟩, .exc c) := by
  induction pre with
  | nil =>
    intro L acc hL
    obtain ⟨L1, hb⟩ := hbad L
    exact ⟨L1, by simp [forLoop, bindPat, withVal, andThen, St.setLocal, hb]⟩
  | cons i r ih =>
    intro L acc hL
    obtain ⟨L1, hb, hn⟩ := hstep L acc i hL
    obtain ⟨L2, hl⟩ := ih L1 (addNew acc i) hn
    exact ⟨L2, by simp [forLoop, bindPat, withVal, andThen, St.setLocal, hb, hl]⟩

/-- continuation-passing forms, so that `refine` can take the loop from the goal (`generalize hw : forLoop _ _ _ _ = w`) -/
theorem forLoop_nids_k {G : Prop} {x nv : String} {body : St → St × Flow} {vs : List Val} {σ : St} {w : St × Flow}
    (hw : forLoop (.one x) body vs σ = w) (entry : String → Val) (ids : List String) (hvs : vs = ids.map entry)
    (acc : List String) (hL : σ.locals.get nv = some (.set (acc.map Val.str)))
    (hstep : ∀ (L : Store) (acc : List String) (i : String), L.get nv = some (.set (acc.map Val.str)) →
      ∃ L', body ⟨σ.heap, L.set x (entry i), σ.calls⟩ = (⟨σ.heap, L', σ.calls⟩, .norm) ∧
        L'.get nv = some (.set ((addNew acc i).map Val.str)))
    (cont : ∀ L', w = (⟨σ.heap, L', σ.calls⟩, .norm) →
      L'.get nv = some (.set ((ids.foldl addNew acc).map Val.str)) → G) : G := by
  subst hvs
  obtain ⟨L', hl, hn⟩ := forLoop_nids entry σ.heap σ.calls hstep ids σ.locals acc hL
  exact cont L' (by rw [← hw]; exact hl) hn

theorem forLoop_nids_abort_k {G : Prop} {x nv : String} {body : St → St × Flow} {vs : List Val} {σ : St} {w : St × Flow}
    (hw : forLoop (.one x) body vs σ = w) (entry : String → Val) (pre : List String) (bad : Val) (post : List Val)
    (hvs : vs = pre.map entry ++ bad :: post) (c : String)
    (acc : List String) (hL : σ.locals.get nv = some (.set (acc.map Val.str)))
    (hstep : ∀ (L : Store) (acc : List String) (i : String), L.get nv = some (.set (acc.map Val.str)) →
      ∃ L', body ⟨σ.heap, L.set x (entry i), σ.calls⟩ = (⟨σ.heap, L', σ.calls⟩, .norm) ∧
        L'.get nv = some (.set ((addNew acc i).map Val.str)))
    (hbad : ∀ (L : Store), ∃ L', body ⟨σ.heap, L.set x bad, σ.calls⟩ = (⟨σ.heap, L', σ.calls⟩, .exc c))
    (cont : ∀ L', w = (⟨σ.heap, L', σ.calls⟩, .exc c) → G) : G := by
  subst hvs
  obtain ⟨L', hl⟩ := forLoop_nids_abort entry σ.heap σ.calls c bad post hstep hbad pre σ.locals acc hL
  exact cont L' (by rw [← hw]; exact hl)

/-! ## Input: a filtered set built in a loop over a set; the waiters loop -/

/-- a `for x in <strings>` loop that updates the set of strings held in the local `nv` by `f` and touches neither the
    heap nor the calls, all lengths (the generalisation of `forLoop_nids` to any update) -/
theorem forLoop_acc {x nv : String} {body : St → St × Flow} (P : Store → Prop) (f : List String → String → List String)
    (h : Store) (cs : List Call)
    (hstep : ∀ (L : Store) (acc : List String) (i : String), P L → L.get nv = some (.set (acc.map Val.str)) →
      ∃ L', body ⟨h, L.set x (.str i), cs⟩ = (⟨h, L', cs⟩, .norm) ∧ L'.get nv = some (.set ((f acc i).map Val.str)) ∧ P L')
    (ids : List String) : ∀ (L : Store) (acc : List String), P L → L.get nv = some (.set (acc.map Val.str)) →
      ∃ L', forLoop (.one x) body (ids.map Val.str) ⟨h, L, cs⟩ = (⟨h, L', cs⟩, .norm) ∧
        L'.get nv = some (.set ((ids.foldl f acc).map Val.str)) := by
  induction ids with
  | nil => intro L acc _ hL; exact ⟨L, by simp [forLoop], by simpa using hL⟩
  | cons i r ih =>
    intro L acc hP hL
    obtain ⟨L1, hb, hn, hP1⟩ := hstep L acc i hP hL
    obtain ⟨L2, hl, hn2⟩ := ih L1 (f acc i) hP1 hn
    refine ⟨L2, ?_, by simpa using hn2⟩
    simp [forLoop, bindPat, withVal, andThen, St.setLocal, hb, hl]

/-- `P` is an invariant of the other locals the body reads (e.g. a parameter) -/
theorem forLoop_acc_k {G : Prop} {x nv : String} {body : St → St × Flow} {vs : List Val} {σ : St} {w : St × Flow}
    (hw : forLoop (.one x) body vs σ = w) (P : Store → Prop) (f : List String → String → List String) (ids : List String)
    (hvs : vs = ids.map Val.str) (acc : List String) (hP : P σ.locals)
    (hL : σ.locals.get nv = some (.set (acc.map Val.str)))
    (hstep : ∀ (L : Store) (acc : List String) (i : String), P L → L.get nv = some (.set (acc.map Val.str)) →
      ∃ L', body ⟨σ.heap, L.set x (.str i), σ.calls⟩ = (⟨σ.heap, L', σ.calls⟩, .norm) ∧
        L'.get nv = some (.set ((f acc i).map Val.str)) ∧ P L')
    (cont : ∀ L', w = (⟨σ.heap, L', σ.calls⟩, .norm) →
      L'.get nv = some (.set ((ids.foldl f acc).map Val.str)) → G) : G := by
  subst hvs
  obtain ⟨L', hl, hn⟩ := forLoop_acc P f σ.heap σ.calls hstep ids σ.locals acc hP hL
  exact cont L' (by rw [← hw]; exact hl) hn

/-- `_get_nameplate_completions`: one step of the loop -/
def complStep (p : String) (acc : List String) (n : String) : List String :=
  if p.toList.isPrefixOf n.toList then addNew acc (n ++ "-") else acc

/-- the completions of prefix `p` among the nameplates `nps` -/
def complOf (p : String) (nps : List String) : List String := nps.foldl (complStep p) []

theorem complStep_map (p : String) (acc : List String) (n : String) :
    (complStep p acc n).map Val.str =
      if p.toList.isPrefixOf n.toList then (if (n ++ "-") ∈ acc then acc.map Val.str else acc.map Val.str ++ [Val.str (n ++ "-")])
      else acc.map Val.str := by
  by_cases h : p.toList.isPrefixOf n.toList <;> simp [complStep, h, addNew_map]

/-- `while self.<a>: d = self.<a>.pop(); d.callback(None)`: every waiter is called back once, last first, and the list
    is empty afterwards; any number of waiters, fuel `≥ length + 1`.  `hcond` / `hbody` are discharged by symbolic
    evaluation of the generated condition and body. -/
theorem whileLoop_waiters {cond : St → Res Val} {body : St → St × Flow} (Q : Val → Prop) (mk : Val → Call) (a : String)
    (hcond : ∀ (h : Store) (L : Store) (cs : List Call) (ws : List Val), h.get a = some (.list ws) →
      cond ⟨h, L, cs⟩ = .ok (.list ws))
    (hbody : ∀ (h : Store) (L : Store) (cs : List Call) (ws : List Val) (w : Val), Q w →
      h.get a = some (.list (ws ++ [w])) →
      ∃ L', body ⟨h, L, cs⟩ = (⟨h.set a (.list ws), L', cs ++ [mk w]⟩, .norm)) :
    ∀ (n : Nat) (ws : List Val), ws.length = n → (∀ w ∈ ws, Q w) → ∀ (F : Nat) (h : Store) (L : Store) (cs : List Call),
      n + 1 ≤ F → h.get a = some (.list ws) →
      ∃ h' L', whileLoop cond body F ⟨h, L, cs⟩ = (⟨h', L', cs ++ ws.reverse.map mk⟩, .norm) ∧
        h'.get a = some (.list []) ∧ ∀ b, b ≠ a → h'.get b = h.get b := by
  intro n
  induction n with
  | zero =>
    intro ws hn _ F h L cs hF hh
    have : ws = [] := List.length_eq_zero_iff.mp hn
    subst this
    obtain ⟨F', rfl⟩ : ∃ F', F = F' + 1 := ⟨F - 1, by omega⟩
    exact ⟨h, L, by simp [whileLoop, withVal, hcond h L cs [] hh, truthy_list], hh, fun _ _ => rfl⟩
  | succ n ih =>
    intro ws hn hQ F h L cs hF hh
    obtain ⟨F', rfl⟩ : ∃ F', F = F' + 1 := ⟨F - 1, by omega⟩
    rcases List.eq_nil_or_concat ws with rfl | ⟨init, w, rfl⟩
    · simp at hn
    · rw [List.concat_eq_append] at hh hn hQ ⊢
      have hlen : init.length = n := by simp at hn; omega
      obtain ⟨L1, hb⟩ := hbody h L cs init w (hQ w (by simp)) hh
      obtain ⟨h', L', hl, hg, hfr⟩ := ih init hlen (fun v hv => hQ v (by simp [hv])) F' (h.set a (.list init)) L1
        (cs ++ [mk w]) (by omega) (get_set_same _ _ _)
      refine ⟨h', L', ?_, hg, fun b hb' => by rw [hfr b hb', get_set_ne _ _ _ _ (Ne.symm hb')]⟩
      simp [whileLoop, withVal, andThen, hcond h L cs _ hh, truthy_list, hb, hl]

theorem whileLoop_waiters_k {G : Prop} {cond : St → Res Val} {body : St → St × Flow} {F : Nat} {σ : St} {w : St × Flow}
    (hw : whileLoop cond body F σ = w) (Q : Val → Prop) (mk : Val → Call) (a : String) (ws : List Val)
    (hQ : ∀ w ∈ ws, Q w)
    (hcond : ∀ (h : Store) (L : Store) (cs : List Call) (ws : List Val), h.get a = some (.list ws) →
      cond ⟨h, L, cs⟩ = .ok (.list ws))
    (hbody : ∀ (h : Store) (L : Store) (cs : List Call) (ws : List Val) (w : Val), Q w →
      h.get a = some (.list (ws ++ [w])) →
      ∃ L', body ⟨h, L, cs⟩ = (⟨h.set a (.list ws), L', cs ++ [mk w]⟩, .norm))
    (hF : ws.length + 1 ≤ F) (hh : σ.heap.get a = some (.list ws))
    (cont : ∀ h' L', w = (⟨h', L', σ.calls ++ ws.reverse.map mk⟩, .norm) → h'.get a = some (.list []) →
      (∀ b, b ≠ a → h'.get b = σ.heap.get b) → G) : G := by
  obtain ⟨h', L', hl, hg, hfr⟩ :=
    whileLoop_waiters Q mk a hcond hbody ws.length ws rfl hQ F σ.heap σ.locals σ.calls hF hh
  exact cont h' L' (by rw [← hw]; exact hl) hg hfr

/-- a `nameplates` frame entry: `{"id": i, …more attributes…}` -/
def npEntry (extra : String → List (Val × Val)) (i : String) : Val := .dict ((.str "id", .str i) :: extra i)

/-! ## the glue arms of `WV.Client.step`, named (each is `rfl` against the model) -/

def wsOpenAgenda : Agenda :=
  [(.tx .bind, {}), (.N .connected, {}), (.M .connected, {}), (.L .connected, {}), (.A .connected, {})]

def wsLostAgenda : Agenda := [(.N .lost, {}), (.M .lost, {}), (.L .lost, {}), (.A .lost, {})]

def connErrorAgenda : Agenda := [(.B .k_error, { verdict := .connectionError })]

end WV.Proofs.PyIRRC
