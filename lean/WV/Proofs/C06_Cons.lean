import WV.Model.C06
import WV.Proofs.C06_App

/-! Consumer mode with a passive consumer callback: what the consumer is given and when its Deferred
    fires. -/
namespace WV.C06
open WV

theorem runAgenda_nil (f : Nat) (a : App) : runAgenda f a [] = (a, []) := by
  cases f <;> rfl

theorem settle_nil (a : App) : settle a [] = a := by
  simp [settle, runAgenda_nil]

theorem settle_script_nil (a : App) : settle a [.script []] = a := by
  have hp : potential a [.script []] = (potential a [.script []] - 1) + 1 := by
    simp [potential, agendaWeight, Frame.weight, szList]
  unfold settle
  rw [hp, runAgenda]
  simp [appStep, runAgenda_nil]

theorem settle_deliver_idle (a : App) (h : a.waiting = []) : settle a [.deliver] = a := by
  have hp : potential a [.deliver] = (potential a [.deliver] - 1) + 1 := by
    simp [potential, agendaWeight, Frame.weight]
  unfold settle
  rw [hp, runAgenda]
  have : appStep a .deliver = (a, []) := by
    simp only [appStep]
    split
    · rename_i hw; rw [h] at hw; simp at hw
    · rfl
  rw [this]
  simp [runAgenda_nil]

/-- no consumer, no reader: the record is queued -/
theorem recordReceived_idle (a : App) (r : Bytes) (hc : a.consumer = none) (hw : a.waiting = []) :
    recordReceived a r = { a with inbound := a.inbound ++ [r] } := by
  simp only [recordReceived, hc]
  exact settle_deliver_idle _ hw

theorem foldl_idle : ∀ (rs : List Bytes) (a : App), a.consumer = none → a.waiting = [] →
    (rs.foldl recordReceived a).consumer = none ∧ (rs.foldl recordReceived a).consumerWrites = a.consumerWrites ∧
    (rs.foldl recordReceived a).dones = a.dones ∧ (rs.foldl recordReceived a).inbound = a.inbound ++ rs := by
  intro rs
  induction rs with
  | nil => intro a h _; simp [h]
  | cons r rs ih =>
    intro a hc hw
    simp only [List.foldl_cons]
    rw [recordReceived_idle a r hc hw]
    obtain ⟨i1, i2, i3, i4⟩ := ih { a with inbound := a.inbound ++ [r] } hc hw
    refine ⟨i1, i2, i3, ?_⟩
    rw [i4]; simp

/-- `_writeToConsumer` below / at the threshold, consumer callback attached and passive -/
theorem recordReceived_consumer (a : App) (cid w N : Nat) (r : Bytes)
    (h : a.consumer = some ⟨cid, w, some N, some []⟩) :
    (recordReceived a r).consumerWrites = a.consumerWrites ++ [r] ∧
    (recordReceived a r).inbound = a.inbound ∧ (recordReceived a r).waiting = a.waiting ∧
    (w + r.length < N → (recordReceived a r).consumer = some ⟨cid, w + r.length, some N, some []⟩ ∧
        (recordReceived a r).dones = a.dones) ∧
    (N ≤ w + r.length → (recordReceived a r).consumer = none ∧
        (recordReceived a r).dones = a.dones ++ [w + r.length]) := by
  simp only [recordReceived, h, writeToConsumer]
  by_cases hlt : w + r.length ≥ N
  · rw [if_pos hlt]
    simp only [consumerDone, settle_script_nil]
    refine ⟨?_, by first | rfl | trivial, by first | rfl | trivial, fun h' => by omega, fun _ => ⟨by first | rfl | trivial, ?_⟩⟩
    · simp [App.consumerWrites, App.emit, disconnectConsumer, List.filterMap_append, Ev.cw, writeEvents_cw]
    · simp [App.dones, App.emit, disconnectConsumer, List.filterMap_append, writeEvents_done]
      rfl
  · rw [if_neg hlt]
    simp only [settle_nil]
    refine ⟨?_, by first | rfl | trivial, by first | rfl | trivial, fun _ => ⟨by first | rfl | trivial, ?_⟩, fun h' => by omega⟩
    · simp [App.consumerWrites, List.filterMap_append, writeEvents_cw]
    · simp [App.dones, List.filterMap_append, writeEvents_done]

theorem consumer_fold (N cid : Nat) : ∀ (rs : List Bytes) (a : App) (w : Nat),
    a.consumer = some ⟨cid, w, some N, some []⟩ → a.waiting = [] → w < N →
    ∃ k, k ≤ rs.length ∧
      (rs.foldl recordReceived a).consumerWrites = a.consumerWrites ++ rs.take k ∧
      (rs.foldl recordReceived a).inbound = a.inbound ++ rs.drop k ∧
      (((rs.foldl recordReceived a).consumer = some ⟨cid, w + (rs.take k).flatten.length, some N, some []⟩ ∧
          k = rs.length ∧ w + rs.flatten.length < N ∧ (rs.foldl recordReceived a).dones = a.dones) ∨
       ((rs.foldl recordReceived a).consumer = none ∧ 0 < k ∧
          w + (rs.take (k - 1)).flatten.length < N ∧ N ≤ w + (rs.take k).flatten.length ∧
          (rs.foldl recordReceived a).dones = a.dones ++ [w + (rs.take k).flatten.length])) := by
  intro rs
  induction rs with
  | nil =>
    intro a w h _ hw
    exact ⟨0, Nat.le_refl _, by simp, by simp, .inl ⟨by simpa using h, rfl, by simpa using hw, rfl⟩⟩
  | cons r rs ih =>
    intro a w h hwt hw
    obtain ⟨c1, c2, c2', c3, c4⟩ := recordReceived_consumer a cid w N r h
    simp only [List.foldl_cons]
    have key : ∀ l : List Bytes, (r :: l).flatten.length = r.length + l.flatten.length := by
      intro l; simp
    by_cases hlt : w + r.length < N
    · obtain ⟨d1, d2⟩ := c3 hlt
      obtain ⟨k, hk, e1, e1', e2⟩ := ih (recordReceived a r) (w + r.length) d1 (c2'.trans hwt) hlt
      refine ⟨k + 1, by simp; omega, ?_, ?_, ?_⟩
      · rw [e1, c1]; simp
      · rw [e1', c2]; simp
      · rcases e2 with ⟨f1, f2, f3, f4⟩ | ⟨f1, f2, f3, f4, f5⟩
        · refine .inl ⟨?_, by simp [f2], ?_, f4.trans d2⟩
          · rw [f1, List.take_succ_cons, key, Nat.add_assoc]
          · rw [key]; omega
        · refine .inr ⟨f1, by omega, ?_, ?_, ?_⟩
          · obtain ⟨k', rfl⟩ : ∃ k', k = k' + 1 := ⟨k - 1, by omega⟩
            rw [Nat.add_sub_cancel] at f3 ⊢
            rw [List.take_succ_cons, key]; omega
          · rw [List.take_succ_cons, key]; omega
          · rw [f5, d2, List.take_succ_cons, key, Nat.add_assoc]
    · have hge : N ≤ w + r.length := by omega
      obtain ⟨d1, d2⟩ := c4 hge
      obtain ⟨g1, g2, g3, g4⟩ := foldl_idle rs (recordReceived a r) d1 (c2'.trans hwt)
      refine ⟨1, by simp, ?_, ?_, .inr ⟨g1, by omega, ?_, ?_, ?_⟩⟩
      · rw [g2, c1]; simp
      · rw [g4, c2]; simp
      · simpa using hw
      · simpa using hge
      · rw [g3, d2]; simp

end WV.C06
