import WV.Proofs.C13_Open

/-! C13: two honest sides.  Exact effect of SubChannel rows, the per-direction link invariant, and
    its preservation along honest world runs (`data_before_close`). -/
namespace WV.C13
open WV WV.Gen

/-! ## exact effect of a row's outputs on a connected SubChannel -/

/-- what one output appends to the log when it succeeds -/
def outEff (c : SC) (seq : Nat) (arg : Bytes) : SubChannel.Output → List Eff
  | .send_data => [.txData seq c.scid arg]
  | .send_close => [.txClose seq c.scid]
  | .signal_dataReceived => match c.proto with
    | some (p, _) => [.data p arg]
    | none => []
  | .signal_connectionLost => match c.proto with
    | some (p, _) => [.lost p]
    | none => []
  | .signal_readConnectionLost => match c.proto with
    | some (p, _) => [.readLost p]
    | none => []
  | .signal_writeConnectionLost => match c.proto with
    | some (p, _) => [.writeLost p]
    | none => []
  | _ => []

def isSend (o : SubChannel.Output) : Bool := o == .send_data || o == .send_close

def outsEff (c : SC) (arg : Bytes) : Nat → List SubChannel.Output → List Eff
  | _, [] => []
  | seq, o :: os => outEff c seq arg o ++ outsEff c arg (if isSend o then seq + 1 else seq) os

def sendCount : List SubChannel.Output → Nat
  | [] => 0
  | o :: os => (if isSend o then 1 else 0) + sendCount os

/-- an output that cannot fail on a SubChannel with protocol kind `k`, registered or not -/
def outSafe (k : PKind) (registered : Bool) : SubChannel.Output → Bool
  | .send_data | .send_close | .signal_dataReceived | .signal_connectionLost => true
  | .signal_readConnectionLost | .signal_writeConnectionLost => k == .half
  | .close_subchannel => registered
  | _ => false

theorem runOut_exact (uid : Nat) (arg : Bytes) (o : SubChannel.Output) (s : Side) (c : SC) (p : Nat) (k : PKind)
    (hc : s.subs[uid]? = some c) (hp : c.proto = some (p, k))
    (hsafe : outSafe k (lookup c.scid s.open_ == some uid) o = true) :
    ∃ s' : Side, runOut uid arg o s = (s', none) ∧ s'.log = s.log ++ outEff c s.nextSeq arg o ∧
      s'.nextSeq = (if isSend o then s.nextSeq + 1 else s.nextSeq) ∧ s'.subs = s.subs ∧
      s'.open_ = (if o = .close_subchannel then eraseKey c.scid s.open_ else s.open_) ∧ Same s s' ∧
      s'.protoCount = s.protoCount ∧ s'.parked = s.parked := by
  cases o <;> simp [outSafe] at hsafe
  case send_data =>
    exact ⟨sendRec (fun q => .txData q c.scid arg) s, by simp only [runOut, hc], rfl, rfl, rfl, rfl,
      ⟨rfl, rfl, rfl, rfl, rfl, rfl, rfl⟩, rfl, rfl⟩
  case send_close =>
    exact ⟨sendRec (fun q => .txClose q c.scid) s, by simp only [runOut, hc], rfl, rfl, rfl, rfl,
      ⟨rfl, rfl, rfl, rfl, rfl, rfl, rfl⟩, rfl, rfl⟩
  case signal_dataReceived =>
    exact ⟨emit (.data p arg) s, by simp only [runOut, hc, hp], by simp [emit, outEff, hp], rfl, rfl, rfl,
      ⟨rfl, rfl, rfl, rfl, rfl, rfl, rfl⟩, rfl, rfl⟩
  case signal_connectionLost =>
    exact ⟨emit (.lost p) s, by simp only [runOut, hc, hp], by simp [emit, outEff, hp], rfl, rfl, rfl,
      ⟨rfl, rfl, rfl, rfl, rfl, rfl, rfl⟩, rfl, rfl⟩
  case signal_readConnectionLost =>
    subst hsafe
    exact ⟨emit (.readLost p) s, by simp only [runOut, hc, hp], by simp [emit, outEff, hp], rfl, rfl, rfl,
      ⟨rfl, rfl, rfl, rfl, rfl, rfl, rfl⟩, rfl, rfl⟩
  case signal_writeConnectionLost =>
    subst hsafe
    exact ⟨emit (.writeLost p) s, by simp only [runOut, hc, hp], by simp [emit, outEff, hp], rfl, rfl, rfl,
      ⟨rfl, rfl, rfl, rfl, rfl, rfl, rfl⟩, rfl, rfl⟩
  case close_subchannel =>
    refine ⟨{ s with open_ := eraseKey c.scid s.open_ }, ?_, by simp [outEff], rfl, rfl, by simp,
      ⟨rfl, rfl, rfl, rfl, rfl, rfl, rfl⟩, rfl, rfl⟩
    simp only [runOut, hc, hsafe, if_true]

def outsSafe (k : PKind) : Bool → List SubChannel.Output → Bool
  | _, [] => true
  | reg, o :: os => outSafe k reg o && outsSafe k (if o = .close_subchannel then false else reg) os

theorem outSafe_mono (k : PKind) (o : SubChannel.Output) (h : outSafe k false o = true) (b : Bool) : outSafe k b o = true := by
  cases o <;> simp [outSafe] at h ⊢ <;> exact h

theorem outsSafe_mono (k : PKind) : ∀ (os : List SubChannel.Output), outsSafe k false os = true → ∀ b, outsSafe k b os = true
  | [], _, _ => rfl
  | o :: os, h, b => by
    simp only [outsSafe, Bool.and_eq_true] at h ⊢
    refine ⟨outSafe_mono k o h.1 b, ?_⟩
    by_cases ho : o = .close_subchannel
    · simp only [ho, if_true] at h ⊢; exact h.2
    · simp only [ho, if_false] at h ⊢; exact outsSafe_mono k os h.2 b

theorem runOuts_exact (uid : Nat) (arg : Bytes) (p : Nat) (k : PKind) : ∀ (outs : List SubChannel.Output) (s : Side) (c : SC),
    s.subs[uid]? = some c → c.proto = some (p, k) →
    outsSafe k (lookup c.scid s.open_ == some uid) outs = true →
    ∃ s' : Side, runOuts uid arg outs s = (s', none) ∧ s'.log = s.log ++ outsEff c arg s.nextSeq outs ∧
      s'.nextSeq = s.nextSeq + sendCount outs ∧ s'.subs = s.subs ∧
      s'.open_ = (if .close_subchannel ∈ outs then eraseKey c.scid s.open_ else s.open_) ∧ Same s s' ∧
      s'.protoCount = s.protoCount ∧ s'.parked = s.parked
  | [], s, c, _, _, _ => ⟨s, rfl, by simp [outsEff], by simp [sendCount], rfl, by simp, Same.rfl', rfl, rfl⟩
  | o :: os, s, c, hc, hp, hs => by
    simp only [outsSafe, Bool.and_eq_true] at hs
    obtain ⟨s1, h1, l1, n1, sb1, o1, sm1, pc1, pk1⟩ := runOut_exact uid arg o s c p k hc hp hs.1
    have hc1 : s1.subs[uid]? = some c := by rw [sb1]; exact hc
    have hs1 : outsSafe k (lookup c.scid s1.open_ == some uid) os = true := by
      by_cases ho : o = .close_subchannel
      · simp only [ho, if_true] at hs
        exact outsSafe_mono k os hs.2 _
      · simp only [ho, if_false] at hs o1
        rw [o1]; exact hs.2
    obtain ⟨s2, h2, l2, n2, sb2, o2, sm2, pc2, pk2⟩ := runOuts_exact uid arg p k os s1 c hc1 hp hs1
    refine ⟨s2, by simp only [runOuts, h1, andThen_none]; exact h2, ?_, ?_, sb2.trans sb1, ?_, sm1.trans sm2,
      pc2.trans pc1, pk2.trans pk1⟩
    · rw [l2, l1, n1]; simp [outsEff, List.append_assoc]
    · rw [n2, n1]; simp only [sendCount]; split <;> omega
    · rw [o2, o1]
      by_cases ho : o = .close_subchannel
      · subst ho
        simp only [if_true, List.mem_cons, true_or]
        -- a second close_subchannel would have been unsafe
        have : SubChannel.Output.close_subchannel ∉ os := by
          intro hm
          have hh : outsSafe k false os = true := by simpa using hs.2
          have : ∀ (l : List SubChannel.Output), SubChannel.Output.close_subchannel ∈ l → outsSafe k false l = false := by
            intro l
            induction l with
            | nil => intro h; simp at h
            | cons x xs ih =>
              intro hm
              by_cases hx : x = .close_subchannel
              · subst hx; simp [outsSafe, outSafe]
              · have hm' : SubChannel.Output.close_subchannel ∈ xs := by
                  rcases List.mem_cons.mp hm with h | h
                  · exact absurd h.symm hx
                  · exact h
                simp [outsSafe, hx, ih hm']
          rw [this os hm] at hh; cases hh
        simp [this]
      · have hne : ¬ SubChannel.Output.close_subchannel = o := fun h => ho h.symm
        simp [ho, hne]

theorem outEff_congr (c c' : SC) (h1 : c'.scid = c.scid) (h2 : c'.proto = c.proto) (seq : Nat) (arg : Bytes)
    (o : SubChannel.Output) : outEff c' seq arg o = outEff c seq arg o := by
  cases o <;> simp [outEff, h1, h2]

theorem outsEff_congr (c c' : SC) (h1 : c'.scid = c.scid) (h2 : c'.proto = c.proto) (arg : Bytes) :
    ∀ (os : List SubChannel.Output) (seq : Nat), outsEff c' arg seq os = outsEff c arg seq os
  | [], _ => rfl
  | o :: os, seq => by simp [outsEff, outEff_congr c c' h1 h2, outsEff_congr c c' h1 h2 arg os]

/-- one Automat input on a connected SubChannel whose row cannot fail -/
theorem scInput_exact (uid : Nat) (i : SubChannel.Input) (arg : Bytes) (s : Side) (c : SC) (p : Nat) (k : PKind)
    (st' : SubChannel.State) (outs : List SubChannel.Output)
    (hc : s.subs[uid]? = some c) (hp : c.proto = some (p, k)) (ht : SubChannel.table c.st i = some (st', outs))
    (hs : outsSafe k (lookup c.scid s.open_ == some uid) outs = true) :
    ∃ s' : Side, scInput uid i arg s = (s', none) ∧ s'.log = s.log ++ outsEff c arg s.nextSeq outs ∧
      s'.nextSeq = s.nextSeq + sendCount outs ∧
      s'.subs = modifyAt (fun c0 => { c0 with st := st' }) uid s.subs ∧
      s'.open_ = (if .close_subchannel ∈ outs then eraseKey c.scid s.open_ else s.open_) ∧ Same s s' ∧
      s'.protoCount = s.protoCount ∧ s'.parked = s.parked := by
  rw [scInput_eq_row arg hc ht]
  have hc1 : (updSC uid (fun c => { c with st := st' }) s).subs[uid]? = some { c with st := st' } := by
    simp [updSC, getElem?_modifyAt, hc]
  obtain ⟨s', h, l, n, sb, o, sm, pc, pk⟩ := runOuts_exact uid arg p k outs _ _ hc1 hp hs
  refine ⟨s', h, ?_, n, sb, o, ⟨sm.1, sm.2, sm.3, sm.4, sm.5, sm.6, sm.7⟩, pc, pk⟩
  rw [l, outsEff_congr c { c with st := st' } rfl rfl]
  rfl

/-! ## what travels on a subchannel, what its protocol reads -/

inductive Item where
  | data (d : Bytes)
  | close
  deriving DecidableEq, Repr

/-- the DATA/CLOSE a side has put on the wire for subchannel `σ`, those with seqnum below `n` -/
def txItemBelow (σ n : Nat) : Eff → Option Item
  | .txData q c d => if c = σ ∧ q < n then some (.data d) else none
  | .txClose q c => if c = σ ∧ q < n then some .close else none
  | _ => none

def sentTo (σ n : Nat) (log : List Eff) : List Item := log.filterMap (txItemBelow σ n)

/-- everything sent for `σ` -/
def txItem (σ : Nat) : Eff → Option Item
  | .txData _ c d => if c = σ then some (.data d) else none
  | .txClose _ c => if c = σ then some .close else none
  | _ => none

def txItems (σ : Nat) (log : List Eff) : List Item := log.filterMap (txItem σ)

/-- what protocol `p` has read: data, then the close signal (`connectionLost` / `readConnectionLost`) -/
def rdItem (p : Nat) : Eff → Option Item
  | .data q d => if q = p then some (.data d) else none
  | .lost q => if q = p then some .close else none
  | .readLost q => if q = p then some .close else none
  | _ => none

def rdItems (p : Nat) (log : List Eff) : List Item := log.filterMap (rdItem p)

def queued (c : SC) : List Item :=
  (match c.pendingData with
    | some l => l.map Item.data
    | none => []) ++ (if c.pendingClose then [Item.close] else [])

/-- what has reached the application side of SubChannel `c` (or waits on it) -/
def seen (c : SC) (log : List Eff) : List Item :=
  match c.proto with
  | some (p, _) => rdItems p log
  | none => queued c

/-- a CLOSE, if any, is the last item -/
def closeLast (l : List Item) : Prop := ∀ pre post, l = pre ++ Item.close :: post → post = []

def txSeq : Eff → Option Nat
  | .txOpen q _ _ => some q
  | .txData q _ _ => some q
  | .txClose q _ => some q
  | _ => none

/-- the sequenced records a side has sent carry seqnums 0, 1, 2, … in order -/
def SeqOK (s : Side) : Prop := s.log.filterMap txSeq = List.range' 0 s.nextSeq

/-- how many of the peer's records this side has processed (its ack watermark + 1) -/
def proc (s : Side) : Nat :=
  match s.highestAcked with
  | none => 0
  | some h => h + 1

@[simp] theorem sentTo_append (σ n : Nat) (a b : List Eff) : sentTo σ n (a ++ b) = sentTo σ n a ++ sentTo σ n b := by
  simp [sentTo]
@[simp] theorem txItems_append (σ : Nat) (a b : List Eff) : txItems σ (a ++ b) = txItems σ a ++ txItems σ b := by
  simp [txItems]
@[simp] theorem rdItems_append (p : Nat) (a b : List Eff) : rdItems p (a ++ b) = rdItems p a ++ rdItems p b := by
  simp [rdItems]

/-! ## the link invariant, per direction -/

/-- a SubChannel object the side can still reach: it has a protocol, or it is registered (pending) -/
def live (s : Side) (u : Nat) (c : SC) : Prop := c.proto ≠ none ∨ lookup c.scid s.open_ = some u

/-- `X` as a sender towards `Y` -/
structure Snd (X Y : Side) : Prop where
  seq : SeqOK X
  /-- nothing is sent on a subchannel after its CLOSE -/
  ndac : ∀ σ, closeLast (txItems σ X.log)
  /-- DATA/CLOSE on an id only after its OPEN went out, or on an id the peer allocated -/
  obu : ∀ (pre post : List Eff) (e : Eff) (σ : Nat), X.log = pre ++ e :: post → (txItem σ e).isSome = true →
    σ ∈ openIds pre ∨ σ ∈ openIds Y.log
  /-- once CLOSE went out for a live SubChannel its write side is closed -/
  a7 : ∀ (u : Nat) (c : SC), X.subs[u]? = some c → live X u c → Item.close ∈ txItems c.scid X.log → Wst c.st = true
  /-- every SubChannel object was created by a local `connect()` or by an OPEN of the peer already processed -/
  org : ∀ (u : Nat) (c : SC), X.subs[u]? = some c →
    c.scid ∈ openIds X.log ∨ ∃ q nm, q < proc X ∧ Eff.txOpen q c.scid nm ∈ Y.log
  /-- whatever was sent on an id was sent for a SubChannel object of that id: by one with a protocol
      (DATA/CLOSE of the application) or for one that was refused (`expected_subprotocols`: the CLOSE
      that `handle_open` sends) -/
  ts : ∀ σ, txItems σ X.log ≠ [] → ∃ (u : Nat) (c : SC), X.subs[u]? = some c ∧ c.scid = σ

/-- `Y` as the receiver of `X`'s records, `d` of which have been handed to it (processed or parked) -/
structure Rcv (X Y : Side) (d : Nat) : Prop where
  le1 : proc Y ≤ d
  le2 : d ≤ X.nextSeq
  /-- the parked records that are still new are exactly the delivered-but-unprocessed ones, in order -/
  parked : Y.parked.filter (fun r => decide (proc Y ≤ r.seq)) = ((wireR X.log).drop (proc Y)).take (d - proc Y)
  /-- every live SubChannel has seen exactly what the peer sent on its id, as far as processed -/
  m : ∀ (u : Nat) (c : SC), Y.subs[u]? = some c → live Y u c → seen c Y.log = sentTo c.scid (proc Y) X.log
  uniq : ∀ (u u' : Nat) (c c' : SC), Y.subs[u]? = some c → Y.subs[u']? = some c' → live Y u c → live Y u' c' →
    c.scid = c'.scid → u = u'
  regd : ∀ (u : Nat) (c : SC) (x : Nat × PKind), Y.subs[u]? = some c → c.proto = some x → c.st ≠ .closed →
    lookup c.scid Y.open_ = some u
  clsd : ∀ (u : Nat) (c : SC) (p : Nat) (k : PKind), Y.subs[u]? = some c → c.proto = some (p, k) →
    (c.st = .closed ∨ c.st = .read_closed) → Item.close ∈ rdItems p Y.log
  conn : ∀ (u : Nat) (c : SC) (x : Nat × PKind), Y.subs[u]? = some c → c.proto = some x → c.st ≠ .unconnected
  kind : ∀ (u : Nat) (c : SC) (p : Nat) (k : PKind), Y.subs[u]? = some c → c.proto = some (p, k) →
    ((c.st = .open_full ∨ c.st = .closing) → k = .full) ∧
    ((c.st = .open_half ∨ c.st = .write_closed ∨ c.st = .read_closed) → k = .half)
  /-- protocols that do not exist yet have read nothing -/
  fresh : ∀ p : Nat, Y.protoCount ≤ p → rdItems p Y.log = []

structure HInv (w : World) : Prop where
  sa : SInv w.a
  sb : SInv w.b
  ia : IdsOK w.a
  ib : IdsOK w.b
  roles : w.a.leader = !w.b.leader
  sndA : Snd w.a w.b
  sndB : Snd w.b w.a
  rcvB : Rcv w.a w.b w.dAB
  rcvA : Rcv w.b w.a w.dBA

theorem mem_openIds (x : Nat) : ∀ (log : List Eff), x ∈ openIds log ↔ ∃ q nm, Eff.txOpen q x nm ∈ log
  | [] => by simp [openIds]
  | e :: r => by
    have ih := mem_openIds x r
    cases e <;> simp [openIds, ih]
    case txOpen q c nm =>
      constructor
      · rintro (h | ⟨q', nm', h⟩)
        · exact ⟨q, nm, Or.inl ⟨rfl, h, rfl⟩⟩
        · exact ⟨q', nm', Or.inr h⟩
      · rintro ⟨q', nm', h | h⟩
        · exact Or.inl h.2.1
        · exact Or.inr ⟨q', nm', h⟩

theorem org_openIds {c : Nat} {n : Nat} {log : List Eff} (h : ∃ q nm, q < n ∧ Eff.txOpen q c nm ∈ log) : c ∈ openIds log := by
  obtain ⟨q, nm, _, hm⟩ := h
  exact (mem_openIds c log).mpr ⟨q, nm, hm⟩

/-! ## generic update lemmas: one SubChannel object changes (or is created) -/

theorem rcv_update {X Y Y' : Side} {d d' : Nat} (h : Rcv X Y d) (uid : Nat) (c' : SC) (l : List Eff)
    (hlog : Y'.log = Y.log ++ l)
    (hquiet : ∀ (u : Nat) (c : SC) (p : Nat) (k : PKind), u ≠ uid → Y.subs[u]? = some c → c.proto = some (p, k) →
      rdItems p l = [])
    (hoth : ∀ u : Nat, u ≠ uid → Y'.subs[u]? = Y.subs[u]?)
    (hself : Y'.subs[uid]? = some c')
    (hlive : ∀ (u : Nat) (c : SC), u ≠ uid → Y.subs[u]? = some c → (live Y' u c ↔ live Y u c))
    (hlk : ∀ (u : Nat) (c : SC), u ≠ uid → Y.subs[u]? = some c → live Y u c → lookup c.scid Y'.open_ = lookup c.scid Y.open_)
    (hle1 : proc Y' ≤ d') (hle2 : d' ≤ X.nextSeq)
    (hpark : Y'.parked.filter (fun r => decide (proc Y' ≤ r.seq)) = ((wireR X.log).drop (proc Y')).take (d' - proc Y'))
    (hsent : ∀ (u : Nat) (c : SC), u ≠ uid → Y.subs[u]? = some c → live Y u c →
      sentTo c.scid (proc Y') X.log = sentTo c.scid (proc Y) X.log)
    (hm : live Y' uid c' → seen c' Y'.log = sentTo c'.scid (proc Y') X.log)
    (huniq : live Y' uid c' → ∀ (u : Nat) (c : SC), u ≠ uid → Y.subs[u]? = some c → live Y u c → c.scid ≠ c'.scid)
    (hregd : ∀ x, c'.proto = some x → c'.st ≠ .closed → lookup c'.scid Y'.open_ = some uid)
    (hclsd : ∀ p k, c'.proto = some (p, k) → (c'.st = .closed ∨ c'.st = .read_closed) → Item.close ∈ rdItems p Y'.log)
    (hconn : ∀ x, c'.proto = some x → c'.st ≠ .unconnected)
    (hkind : ∀ p k, c'.proto = some (p, k) →
      ((c'.st = .open_full ∨ c'.st = .closing) → k = .full) ∧
      ((c'.st = .open_half ∨ c'.st = .write_closed ∨ c'.st = .read_closed) → k = .half))
    (hpc : Y.protoCount ≤ Y'.protoCount) (hfresh : ∀ p : Nat, Y'.protoCount ≤ p → rdItems p l = []) :
    Rcv X Y' d' := by
  have back : ∀ (u : Nat) (c : SC), Y'.subs[u]? = some c → u ≠ uid → Y.subs[u]? = some c :=
    fun u c hu hne => by rw [← hoth u hne]; exact hu
  refine ⟨hle1, hle2, hpark, ?_, ?_, ?_, ?_, ?_, ?_, ?_⟩
  rotate_right
  · intro p hp'
    rw [hlog, rdItems_append, h.fresh p (by omega), hfresh p hp']; rfl
  · intro u c hu hl
    by_cases hne : u = uid
    · subst hne; rw [hself] at hu; cases hu; exact hm hl
    · have hu0 := back u c hu hne
      have hl0 := (hlive u c hne hu0).mp hl
      rw [hsent u c hne hu0 hl0, ← h.m u c hu0 hl0]
      unfold seen
      cases hp : c.proto with
      | none => rfl
      | some x =>
        obtain ⟨p, k⟩ := x
        simp only []
        rw [hlog, rdItems_append, hquiet u c p k hne hu0 hp, List.append_nil]
  · intro u u' c c2 hu hu' hl hl' hsc
    by_cases h1 : u = uid
    · by_cases h2 : u' = uid
      · rw [h1, h2]
      · subst h1; rw [hself] at hu; cases hu
        have hu0 := back u' c2 hu' h2
        exact absurd hsc.symm (huniq hl u' c2 h2 hu0 ((hlive u' c2 h2 hu0).mp hl'))
    · have hu0 := back u c hu h1
      by_cases h2 : u' = uid
      · subst h2; rw [hself] at hu'; cases hu'
        exact absurd hsc (huniq hl' u c h1 hu0 ((hlive u c h1 hu0).mp hl))
      · have hu0' := back u' c2 hu' h2
        exact h.uniq u u' c c2 hu0 hu0' ((hlive u c h1 hu0).mp hl) ((hlive u' c2 h2 hu0').mp hl') hsc
  · intro u c x hu hp hst
    by_cases hne : u = uid
    · subst hne; rw [hself] at hu; cases hu; exact hregd x hp hst
    · have hu0 := back u c hu hne
      rw [hlk u c hne hu0 (Or.inl (by rw [hp]; simp))]
      exact h.regd u c x hu0 hp hst
  · intro u c p k hu hp hst
    by_cases hne : u = uid
    · subst hne; rw [hself] at hu; cases hu; exact hclsd p k hp hst
    · have := h.clsd u c p k (back u c hu hne) hp hst
      rw [hlog, rdItems_append]; exact List.mem_append_left _ this
  · intro u c x hu hp
    by_cases hne : u = uid
    · subst hne; rw [hself] at hu; cases hu; exact hconn x hp
    · exact h.conn u c x (back u c hu hne) hp
  · intro u c p k hu hp
    by_cases hne : u = uid
    · subst hne; rw [hself] at hu; cases hu; exact hkind p k hp
    · exact h.kind u c p k (back u c hu hne) hp

theorem closeLast_nil : closeLast [] := by
  intro pre post h
  cases pre <;> cases h

theorem closeLast_append {a b : List Item} (ha : Item.close ∉ a) (hb : closeLast b) : closeLast (a ++ b) := by
  intro pre post h
  rcases List.append_eq_append_iff.mp h with ⟨as, h1, h2⟩ | ⟨bs, h1, h2⟩
  · -- pre = a ++ as, b = as ++ close :: post
    exact hb as post h2
  · -- a = pre ++ bs, close :: post = bs ++ b
    cases bs with
    | nil => simp at h2; exact hb [] post h2.symm
    | cons x xs =>
      simp at h2
      exact absurd (by rw [h1, ← h2.1]; simp) ha

theorem closeLast_prefix {a b : List Item} (h : closeLast (a ++ b)) : closeLast a := by
  intro pre post ha
  have := h pre (post ++ b) (by rw [ha]; simp)
  simp at this
  exact this.1

theorem snd_update {Y Y' X : Side} (h : Snd Y X) (uid : Nat) (c' : SC) (l : List Eff)
    (hlog : Y'.log = Y.log ++ l)
    (hseq : l.filterMap txSeq = List.range' Y.nextSeq (Y'.nextSeq - Y.nextSeq)) (hns : Y.nextSeq ≤ Y'.nextSeq)
    (htx : ∀ σ, σ ≠ c'.scid → txItems σ l = [])
    (hown : txItems c'.scid l ≠ [] → Item.close ∉ txItems c'.scid Y.log ∧ closeLast (txItems c'.scid l))
    (hobu : txItems c'.scid l ≠ [] → c'.scid ∈ openIds Y.log ∨ c'.scid ∈ openIds X.log)
    (hoth : ∀ u : Nat, u ≠ uid → Y'.subs[u]? = Y.subs[u]?)
    (hself : Y'.subs[uid]? = some c')
    (hlive : ∀ (u : Nat) (c : SC), u ≠ uid → Y.subs[u]? = some c → (live Y' u c ↔ live Y u c))
    (hdist : txItems c'.scid l ≠ [] → ∀ (u : Nat) (c : SC), u ≠ uid → Y.subs[u]? = some c → live Y u c → c.scid ≠ c'.scid)
    (ha7 : live Y' uid c' → Item.close ∈ txItems c'.scid Y'.log → Wst c'.st = true)
    (horg : c'.scid ∈ openIds Y'.log ∨ ∃ q nm, q < proc Y' ∧ Eff.txOpen q c'.scid nm ∈ X.log) (hpm : proc Y ≤ proc Y')
    (_hexp : Y'.expected = Y.expected)
    (hkeep : ∀ c0 : SC, Y.subs[uid]? = some c0 → c0.scid = c'.scid) : Snd Y' X := by
  have back : ∀ (u : Nat) (c : SC), Y'.subs[u]? = some c → u ≠ uid → Y.subs[u]? = some c :=
    fun u c hu hne => by rw [← hoth u hne]; exact hu
  have hmono : ∀ x, x ∈ openIds Y.log → x ∈ openIds Y'.log := by
    intro x hx; rw [hlog, openIds_append]; exact List.mem_append_left _ hx
  refine ⟨?_, ?_, ?_, ?_, ?_, ?_⟩
  rotate_right
  · intro σ hne
    rw [hlog, txItems_append] at hne
    by_cases hold : txItems σ Y.log = []
    · rw [hold, List.nil_append] at hne
      have hσ : σ = c'.scid := by
        by_cases hσ : σ = c'.scid
        · exact hσ
        · exact absurd (htx σ hσ) hne
      subst hσ
      exact ⟨uid, c', hself, rfl⟩
    · obtain ⟨u, c0, hu, hsc⟩ := h.ts σ hold
      by_cases hu' : u = uid
      · subst hu'
        have h1 := hkeep c0 hu
        exact ⟨u, c', hself, by rw [← h1]; exact hsc⟩
      · exact ⟨u, c0, by rw [hoth u hu']; exact hu, hsc⟩
  · unfold SeqOK
    rw [hlog, List.filterMap_append, h.seq, hseq]
    generalize hk : Y'.nextSeq - Y.nextSeq = k
    have : Y'.nextSeq = Y.nextSeq + k := by omega
    rw [this]
    have := @List.range'_append 0 Y.nextSeq k 1
    simpa using this
  · intro σ
    rw [hlog, txItems_append]
    by_cases hσ : σ = c'.scid
    · subst hσ
      by_cases hne : txItems c'.scid l = []
      · rw [hne, List.append_nil]; exact h.ndac _
      · exact closeLast_append (hown hne).1 (hown hne).2
    · rw [htx σ hσ, List.append_nil]; exact h.ndac σ
  · intro pre post e σ heq hit
    rw [hlog] at heq
    rcases List.append_eq_append_iff.mp heq with ⟨as, h1, h2⟩ | ⟨bs, h1, h2⟩
    · -- pre = Y.log ++ as : the event is one of the new ones
      have hel : e ∈ l := by rw [h2]; simp
      have hσ : σ = c'.scid := by
        by_cases hσ : σ = c'.scid
        · exact hσ
        · have := htx σ hσ
          have hm : ∀ x ∈ l, txItem σ x = none := by
            intro x hx
            have : (l.filterMap (txItem σ)) = [] := this
            cases hx' : txItem σ x with
            | none => rfl
            | some it =>
              have : it ∈ l.filterMap (txItem σ) := List.mem_filterMap.mpr ⟨x, hx, hx'⟩
              rw [‹l.filterMap (txItem σ) = []›] at this; cases this
          rw [hm e hel] at hit; cases hit
      subst hσ
      have hne : txItems c'.scid l ≠ [] := by
        intro hnil
        cases hx' : txItem c'.scid e with
        | none => rw [hx'] at hit; cases hit
        | some it =>
          have : it ∈ l.filterMap (txItem c'.scid) := List.mem_filterMap.mpr ⟨e, hel, hx'⟩
          have hnil' : l.filterMap (txItem c'.scid) = [] := hnil
          rw [hnil'] at this; cases this
      rcases hobu hne with g | g
      · left; rw [h1, openIds_append]; exact List.mem_append_left _ g
      · exact Or.inr g
    · -- Y.log = pre ++ bs, e :: post = bs ++ l
      cases bs with
      | nil =>
        simp at h2
        -- e is the first new event
        have hel : e ∈ l := by rw [← h2]; simp
        have hσ : σ = c'.scid := by
          by_cases hσ : σ = c'.scid
          · exact hσ
          · have hnil : l.filterMap (txItem σ) = [] := htx σ hσ
            cases hx' : txItem σ e with
            | none => rw [hx'] at hit; cases hit
            | some it =>
              have : it ∈ l.filterMap (txItem σ) := List.mem_filterMap.mpr ⟨e, hel, hx'⟩
              rw [hnil] at this; cases this
        subst hσ
        have hne : txItems c'.scid l ≠ [] := by
          intro hnil
          cases hx' : txItem c'.scid e with
          | none => rw [hx'] at hit; cases hit
          | some it =>
            have : it ∈ l.filterMap (txItem c'.scid) := List.mem_filterMap.mpr ⟨e, hel, hx'⟩
            have hnil' : l.filterMap (txItem c'.scid) = [] := hnil
            rw [hnil'] at this; cases this
        simp at h1
        rcases hobu hne with g | g
        · left; rw [← h1]; exact g
        · exact Or.inr g
      | cons x xs =>
        simp at h2
        have : Y.log = pre ++ e :: xs := by rw [h1, h2.1]
        exact h.obu pre xs e σ this hit
  · intro u c hu hl hcl
    by_cases hne : u = uid
    · subst hne; rw [hself] at hu; cases hu; exact ha7 hl hcl
    · have hu0 := back u c hu hne
      have hl0 := (hlive u c hne hu0).mp hl
      refine h.a7 u c hu0 hl0 ?_
      rw [hlog, txItems_append] at hcl
      by_cases hnil : txItems c'.scid l = []
      · by_cases hσ : c.scid = c'.scid
        · rw [hσ, hnil, List.append_nil] at hcl; rw [hσ]; exact hcl
        · rw [htx c.scid hσ, List.append_nil] at hcl; exact hcl
      · have hσ := hdist hnil u c hne hu0 hl0
        rw [htx c.scid hσ, List.append_nil] at hcl; exact hcl
  · intro u c hu
    by_cases hne : u = uid
    · subst hne; rw [hself] at hu; cases hu; exact horg
    · rcases h.org u c (back u c hu hne) with g | ⟨q, nm, hq, g⟩
      · exact Or.inl (hmono _ g)
      · exact Or.inr ⟨q, nm, Nat.lt_of_lt_of_le hq hpm, g⟩

/-! ## frames -/

theorem Snd_mono_right {X Y Y' : Side} (h : Snd X Y) (hm : ∀ e, e ∈ Y.log → e ∈ Y'.log) : Snd X Y' := by
  have hop : ∀ x, x ∈ openIds Y.log → x ∈ openIds Y'.log := by
    intro x hx
    obtain ⟨q, nm, hq⟩ := (mem_openIds x _).mp hx
    exact (mem_openIds x _).mpr ⟨q, nm, hm _ hq⟩
  exact ⟨h.seq, h.ndac, fun pre post e σ heq hit => (h.obu pre post e σ heq hit).imp id (hop σ), h.a7,
    fun u c hu => (h.org u c hu).imp id (fun ⟨q, nm, hq, g⟩ => ⟨q, nm, hq, hm _ g⟩), h.ts⟩

/-- the log grows by events that are neither records nor OPENs (acks, log.err); nothing else changes
    that a sender cares about -/
theorem Snd_quiet {Y Y' X : Side} (h : Snd Y X) (l : List Eff) (hlog : Y'.log = Y.log ++ l)
    (h1 : l.filterMap txSeq = []) (hsubs : Y'.subs = Y.subs) (hopen : Y'.open_ = Y.open_)
    (hns : Y'.nextSeq = Y.nextSeq) (_hexp : Y'.expected = Y.expected) (hpm : proc Y ≤ proc Y') : Snd Y' X := by
  have notx : ∀ σ, txItems σ l = [] := by
    intro σ
    unfold txItems
    apply List.filterMap_eq_nil_iff.mpr
    intro e he
    have : txSeq e = none := by
      have := List.filterMap_eq_nil_iff.mp h1 e he
      exact this
    cases e <;> simp [txSeq] at this <;> rfl
  have hop : openIds Y'.log = openIds Y.log ++ openIds l := by rw [hlog, openIds_append]
  have hlive : ∀ u c, live Y' u c ↔ live Y u c := by intro u c; unfold live; rw [hopen]
  refine ⟨?_, ?_, ?_, ?_, ?_, ?_⟩
  rotate_right
  · intro σ hne
    rw [hlog, txItems_append, notx, List.append_nil] at hne
    obtain ⟨u, c0, hu, hsc⟩ := h.ts σ hne
    exact ⟨u, c0, by rw [hsubs]; exact hu, hsc⟩
  · unfold SeqOK; rw [hlog, List.filterMap_append, h1, List.append_nil, hns]; exact h.seq
  · intro σ; rw [hlog, txItems_append, notx σ, List.append_nil]; exact h.ndac σ
  · intro pre post e σ heq hit
    rw [hlog] at heq
    rcases List.append_eq_append_iff.mp heq with ⟨as, h1', h2⟩ | ⟨bs, h1', h2⟩
    · have hel : e ∈ l := by rw [h2]; simp
      have hnil : l.filterMap (txItem σ) = [] := notx σ
      have := List.filterMap_eq_nil_iff.mp hnil e hel
      rw [this] at hit; cases hit
    · cases bs with
      | nil =>
        simp at h2
        have hel : e ∈ l := by rw [← h2]; simp
        have hnil : l.filterMap (txItem σ) = [] := notx σ
        have := List.filterMap_eq_nil_iff.mp hnil e hel
        rw [this] at hit; cases hit
      | cons x xs =>
        simp at h2
        exact h.obu pre xs e σ (by rw [h1', h2.1]) hit
  · intro u c hu hl hcl
    rw [hsubs] at hu
    rw [hlog, txItems_append, notx, List.append_nil] at hcl
    exact h.a7 u c hu ((hlive u c).mp hl) hcl
  · intro u c hu
    rw [hsubs] at hu
    rcases h.org u c hu with g | ⟨q, nm, hq, g⟩
    · exact Or.inl (by rw [hop]; exact List.mem_append_left _ g)
    · exact Or.inr ⟨q, nm, Nat.lt_of_lt_of_le hq hpm, g⟩

theorem Rcv_quiet {X Y Y' : Side} {d d' : Nat} (h : Rcv X Y d) (l : List Eff) (hlog : Y'.log = Y.log ++ l)
    (h1 : ∀ p, rdItems p l = []) (hsubs : Y'.subs = Y.subs) (hopen : Y'.open_ = Y.open_)
    (hack : Y'.highestAcked = Y.highestAcked) (hle1 : proc Y ≤ d') (hle2 : d' ≤ X.nextSeq)
    (hpark : Y'.parked.filter (fun r => decide (proc Y ≤ r.seq)) = ((wireR X.log).drop (proc Y)).take (d' - proc Y))
    (hpc : Y'.protoCount = Y.protoCount) :
    Rcv X Y' d' := by
  have hp : proc Y' = proc Y := by unfold proc; rw [hack]
  have hlive : ∀ u c, live Y' u c ↔ live Y u c := by intro u c; unfold live; rw [hopen]
  refine ⟨by rw [hp]; exact hle1, hle2, by rw [hp]; exact hpark, ?_, ?_, ?_, ?_, ?_, ?_,
    fun p hp' => by rw [hlog, rdItems_append, h1, List.append_nil]; exact h.fresh p (by rw [← hpc]; exact hp')⟩
  · intro u c hu hl
    rw [hsubs] at hu
    rw [hp, ← h.m u c hu ((hlive u c).mp hl)]
    unfold seen
    cases hpr : c.proto with
    | none => rfl
    | some x => obtain ⟨p, k⟩ := x; simp only []; rw [hlog, rdItems_append, h1, List.append_nil]
  · intro u u' c c' hu hu' hl hl'
    rw [hsubs] at hu hu'
    exact h.uniq u u' c c' hu hu' ((hlive u c).mp hl) ((hlive u' c').mp hl')
  · intro u c x hu; rw [hsubs] at hu; rw [hopen]; exact h.regd u c x hu
  · intro u c p k hu hpr hst
    rw [hsubs] at hu
    rw [hlog, rdItems_append]; exact List.mem_append_left _ (h.clsd u c p k hu hpr hst)
  · intro u c x hu; rw [hsubs] at hu; exact h.conn u c x hu
  · intro u c p k hu; rw [hsubs] at hu; exact h.kind u c p k hu

theorem seq_tail {X X' : Side} (l : List Eff) (hs : SeqOK X) (hs' : SeqOK X') (hlog : X'.log = X.log ++ l)
    (hle : X.nextSeq ≤ X'.nextSeq) : l.filterMap txSeq = List.range' X.nextSeq (X'.nextSeq - X.nextSeq) := by
  unfold SeqOK at hs hs'
  rw [hlog, List.filterMap_append, hs] at hs'
  generalize hk : X'.nextSeq - X.nextSeq = k
  have : X'.nextSeq = X.nextSeq + k := by omega
  rw [this] at hs'
  have h2 := @List.range'_append 0 X.nextSeq k 1
  simp at h2
  rw [← h2] at hs'
  exact List.append_cancel_left hs'

theorem tail_seq_ge {l : List Eff} {n k : Nat} (h : l.filterMap txSeq = List.range' n k) :
    ∀ e ∈ l, ∀ q, txSeq e = some q → n ≤ q := by
  intro e he q hq
  have : q ∈ l.filterMap txSeq := List.mem_filterMap.mpr ⟨e, he, hq⟩
  rw [h] at this
  exact (List.mem_range'_1.mp this).1

theorem sentTo_tail_nil {l : List Eff} {n k m : Nat} (h : l.filterMap txSeq = List.range' n k) (hm : m ≤ n) (σ : Nat) :
    sentTo σ m l = [] := by
  unfold sentTo
  apply List.filterMap_eq_nil_iff.mpr
  intro e he
  cases e <;> simp [txItemBelow]
  all_goals
    intro _
    have := tail_seq_ge h _ he _ rfl
    omega

theorem length_wireR (log : List Eff) : (wireR log).length = (log.filterMap txSeq).length := by
  induction log with
  | nil => rfl
  | cons e r ih => cases e <;> simp [wireR, wireRx, txSeq, List.filterMap_cons] at ih ⊢ <;> exact ih

theorem wireR_append (a b : List Eff) : wireR (a ++ b) = wireR a ++ wireR b := by simp [wireR]

theorem Rcv_mono_sender {X X' Y : Side} {d : Nat} (h : Rcv X Y d) (l : List Eff) (hlog : X'.log = X.log ++ l)
    (hs : SeqOK X) (hs' : SeqOK X') (hle : X.nextSeq ≤ X'.nextSeq) : Rcv X' Y d := by
  have ht := seq_tail l hs hs' hlog hle
  have hlen : (wireR X.log).length = X.nextSeq := by
    rw [length_wireR, hs]; simp
  refine ⟨h.le1, Nat.le_trans h.le2 hle, ?_, ?_, h.uniq, h.regd, h.clsd, h.conn, h.kind, h.fresh⟩
  · rw [h.parked, hlog, wireR_append]
    have h1 := h.le1
    have h2 := h.le2
    rw [List.drop_append_of_le_length (by omega), List.take_append_of_le_length (by simp; omega)]
  · intro u c hu hl
    rw [h.m u c hu hl, hlog, sentTo_append, sentTo_tail_nil ht (Nat.le_trans h.le1 h.le2), List.append_nil]

/-! ## what a row's outputs mean for the reader and for the wire -/

def rdOf (arg : Bytes) : SubChannel.Output → Option Item
  | .signal_dataReceived => some (.data arg)
  | .signal_connectionLost => some .close
  | .signal_readConnectionLost => some .close
  | _ => none

def sndOf (arg : Bytes) : SubChannel.Output → Option Item
  | .send_data => some (.data arg)
  | .send_close => some .close
  | _ => none

theorem rdItems_outsEff (c : SC) (p : Nat) (k : PKind) (hp : c.proto = some (p, k)) (arg : Bytes) (q : Nat) :
    ∀ (outs : List SubChannel.Output) (seq : Nat),
      rdItems q (outsEff c arg seq outs) = if q = p then outs.filterMap (rdOf arg) else []
  | [], _ => by simp [outsEff, rdItems]
  | o :: os, seq => by
    have ih := rdItems_outsEff c p k hp arg q os
    simp only [outsEff, rdItems_append, ih]
    by_cases hq : q = p
    · subst hq; cases o <;> simp [outEff, hp, rdItems, rdItem, rdOf, List.filterMap_cons]
    · have hq' : ¬ p = q := fun h => hq h.symm
      cases o <;> simp [outEff, hp, rdItems, rdItem, hq, hq']

theorem txItems_outsEff (c : SC) (arg : Bytes) (σ : Nat) :
    ∀ (outs : List SubChannel.Output) (seq : Nat),
      txItems σ (outsEff c arg seq outs) = if σ = c.scid then outs.filterMap (sndOf arg) else []
  | [], _ => by simp [outsEff, txItems]
  | o :: os, seq => by
    have ih := txItems_outsEff c arg σ os
    simp only [outsEff, txItems_append, ih]
    by_cases hq : σ = c.scid
    · subst hq
      cases hpr : c.proto <;> cases o <;> simp [outEff, txItems, txItem, sndOf, hpr, List.filterMap_cons]
    · have hq' : ¬ c.scid = σ := fun h => hq h.symm
      cases hpr : c.proto <;> cases o <;> simp [outEff, txItems, txItem, hq, hq', hpr]

theorem txSeq_outsEff (c : SC) (arg : Bytes) :
    ∀ (outs : List SubChannel.Output) (seq : Nat),
      (outsEff c arg seq outs).filterMap txSeq = List.range' seq (sendCount outs)
  | [], _ => by simp [outsEff, sendCount]
  | o :: os, seq => by
    have ih := txSeq_outsEff c arg os
    simp only [outsEff, List.filterMap_append, ih, sendCount]
    cases hpr : c.proto <;> cases o <;> simp [outEff, isSend, txSeq, hpr, Nat.add_comm 1, List.range'_succ]

theorem openIds_outsEff (c : SC) (arg : Bytes) :
    ∀ (outs : List SubChannel.Output) (seq : Nat), openIds (outsEff c arg seq outs) = []
  | [], _ => rfl
  | o :: os, seq => by
    have ih := openIds_outsEff c arg os
    simp only [outsEff, openIds_append, ih]
    cases hpr : c.proto <;> cases o <;> simp [outEff, openIds, hpr]

/-! ## one row on a connected SubChannel -/

structure Ctx (X Y : Side) (d : Nat) : Prop where
  wf : WF Y
  keys : (Y.open_.map Prod.fst).Nodup
  openOK : ∀ (scid u : Nat), lookup scid Y.open_ = some u → ∃ c : SC, Y.subs[u]? = some c ∧ c.scid = scid
  unconn : ∀ (u : Nat) (c : SC), Y.subs[u]? = some c → c.proto = none → c.st = .unconnected ∧ c.pendingData.isSome = true
  snd : Snd Y X
  rcv : Rcv X Y d
  sndX : Snd X Y
  idsX : IdsOK X
  idsY : IdsOK Y
  roles : X.leader = !Y.leader

/-- what the generic step needs to know about the row -/
structure RowOK (st st' : SubChannel.State) (outs : List SubChannel.Output) (arg : Bytes) : Prop where
  snd : outs.filterMap (sndOf arg) = [] ∨
    ((outs.filterMap (sndOf arg) = [Item.data arg] ∨ outs.filterMap (sndOf arg) = [Item.close]) ∧ Wst st = false)
  sndClose : Item.close ∈ outs.filterMap (sndOf arg) → Wst st' = true
  wst : Wst st = true → Wst st' = true
  erase : SubChannel.Output.close_subchannel ∈ outs → st' = .closed
  closedStays : st = .closed → st' = .closed
  conn : st ≠ .unconnected → st' ≠ .unconnected
  full : (st' = .open_full ∨ st' = .closing) → (st = .open_full ∨ st = .closing)
  half : (st' = .open_half ∨ st' = .write_closed ∨ st' = .read_closed) → (st = .open_half ∨ st = .write_closed ∨ st = .read_closed)
  rclosed : (st' = .closed ∨ st' = .read_closed) → (st = .closed ∨ st = .read_closed) ∨ Item.close ∈ outs.filterMap (rdOf arg)

theorem modifyAt_getElem? {α : Type} (f : α → α) (n : Nat) (l : List α) (m : Nat) :
    (modifyAt f n l)[m]? = if m = n then (l[m]?).map f else l[m]? := getElem?_modifyAt f n l m

theorem row_step {X Y Y1 Y' : Side} {d d' : Nat} (ctx : Ctx X Y d) (uid : Nat) (c : SC) (p : Nat) (k : PKind)
    (arg : Bytes) (st' : SubChannel.State) (outs : List SubChannel.Output) (al : List Eff)
    (hc : Y.subs[uid]? = some c) (hp : c.proto = some (p, k)) (row : RowOK c.st st' outs arg)
    -- the state the row runs on: Y with the ack logged / the watermark moved
    (h1subs : Y1.subs = Y.subs) (h1open : Y1.open_ = Y.open_) (h1seq : Y1.nextSeq = Y.nextSeq)
    (h1log : Y1.log = Y.log ++ al) (h1q : al.filterMap txSeq = []) (h1r : ∀ q, rdItems q al = [])
    (h1exp : Y1.expected = Y.expected) (h1o : openIds al = [])
    -- the result of the row
    (hlog : Y'.log = Y1.log ++ outsEff c arg Y1.nextSeq outs) (hseq : Y'.nextSeq = Y1.nextSeq + sendCount outs)
    (hsubs : Y'.subs = modifyAt (fun c0 => { c0 with st := st' }) uid Y1.subs)
    (hopen : Y'.open_ = if SubChannel.Output.close_subchannel ∈ outs then eraseKey c.scid Y1.open_ else Y1.open_)
    (hreg : SubChannel.Output.close_subchannel ∈ outs → lookup c.scid Y.open_ = some uid)
    (hexp : Y'.expected = Y1.expected) (hpcs : Y'.protoCount = Y.protoCount)
    -- the peer's records processed so far, after this step
    (hle1 : proc Y' ≤ d') (hle2 : d' ≤ X.nextSeq) (hmono : proc Y ≤ proc Y')
    (hpark : Y'.parked.filter (fun r => decide (proc Y' ≤ r.seq)) = ((wireR X.log).drop (proc Y')).take (d' - proc Y'))
    (hsentO : ∀ σ, σ ≠ c.scid → sentTo σ (proc Y') X.log = sentTo σ (proc Y) X.log)
    (hsentS : sentTo c.scid (proc Y') X.log = sentTo c.scid (proc Y) X.log ++ outs.filterMap (rdOf arg)) :
    Snd Y' X ∧ Rcv X Y' d' := by
  have hlive0 : live Y uid c := Or.inl (by rw [hp]; simp)
  have hl : Y'.log = Y.log ++ (al ++ outsEff c arg Y.nextSeq outs) := by
    rw [hlog, h1log, h1seq, List.append_assoc]
  have hget : ∀ u : Nat, Y'.subs[u]? = if u = uid then (Y.subs[u]?).map (fun c0 => { c0 with st := st' }) else Y.subs[u]? := by
    intro u; rw [hsubs, h1subs]; exact getElem?_modifyAt _ _ _ _
  have hself : Y'.subs[uid]? = some { c with st := st' } := by rw [hget]; simp [hc]
  have hoth : ∀ u : Nat, u ≠ uid → Y'.subs[u]? = Y.subs[u]? := by intro u hu; rw [hget]; simp [hu]
  have hdist : ∀ (u : Nat) (c2 : SC), u ≠ uid → Y.subs[u]? = some c2 → live Y u c2 → c2.scid ≠ c.scid :=
    fun u c2 hu hc2 hl2 hsc => hu (ctx.rcv.uniq u uid c2 c hc2 hc hl2 hlive0 hsc)
  have hlk : ∀ σ, σ ≠ c.scid → lookup σ Y'.open_ = lookup σ Y.open_ := by
    intro σ hσ
    rw [hopen, h1open]
    split
    · exact lookup_eraseKey_ne _ _ hσ _
    · rfl
  have hliveO : ∀ (u : Nat) (c2 : SC), u ≠ uid → Y.subs[u]? = some c2 → (live Y' u c2 ↔ live Y u c2) := by
    intro u c2 hu hc2
    unfold live
    by_cases hsc : c2.scid = c.scid
    · -- same id: then `c2` is registered neither before nor after
      have hno : lookup c2.scid Y.open_ ≠ some u := by
        intro hlu
        exact hdist u c2 hu hc2 (Or.inr hlu) hsc
      have hno' : lookup c2.scid Y'.open_ ≠ some u := by
        rw [hopen, h1open]
        split
        · rw [hsc, lookup_eraseKey_self _ _ ctx.keys]; simp
        · exact hno
      constructor
      · rintro (h | h)
        · exact Or.inl h
        · exact absurd h hno'
      · rintro (h | h)
        · exact Or.inl h
        · exact absurd h hno
    · rw [hlk _ hsc]
  have hpne : ∀ (u : Nat) (c2 : SC) (p2 : Nat) (k2 : PKind), u ≠ uid → Y.subs[u]? = some c2 → c2.proto = some (p2, k2) → p2 ≠ p :=
    fun u c2 p2 k2 hu hc2 hp2 hpp => hu (ctx.wf.uniq u uid c2 c p k2 k hc2 hc (by rw [hp2, hpp]) hp)
  have hrdO : ∀ q, q ≠ p → rdItems q (al ++ outsEff c arg Y.nextSeq outs) = [] := by
    intro q hq
    rw [rdItems_append, h1r, rdItems_outsEff c p k hp arg q outs, if_neg hq]; rfl
  have hrdS : rdItems p (al ++ outsEff c arg Y.nextSeq outs) = outs.filterMap (rdOf arg) := by
    rw [rdItems_append, h1r, rdItems_outsEff c p k hp arg p outs, if_pos rfl]; rfl
  have htxO : ∀ σ, σ ≠ c.scid → txItems σ (al ++ outsEff c arg Y.nextSeq outs) = [] := by
    intro σ hσ
    have hal : txItems σ al = [] := by
      unfold txItems
      apply List.filterMap_eq_nil_iff.mpr
      intro e he
      have := List.filterMap_eq_nil_iff.mp h1q e he
      cases e <;> simp [txSeq] at this <;> rfl
    rw [txItems_append, hal, txItems_outsEff, if_neg hσ]; rfl
  have htxS : txItems c.scid (al ++ outsEff c arg Y.nextSeq outs) = outs.filterMap (sndOf arg) := by
    have hal : txItems c.scid al = [] := by
      unfold txItems
      apply List.filterMap_eq_nil_iff.mpr
      intro e he
      have := List.filterMap_eq_nil_iff.mp h1q e he
      cases e <;> simp [txSeq] at this <;> rfl
    rw [txItems_append, hal, txItems_outsEff, if_pos rfl]; rfl
  constructor
  · -- sender side
    refine snd_update ctx.snd uid { c with st := st' } _ hl ?_ (by rw [hseq, h1seq]; omega) htxO ?_ ?_ hoth hself hliveO
      ?_ ?_ ?_ ?_ (by rw [hexp, h1exp])
      (fun c0 hc0 => by rw [hc] at hc0; cases hc0; rfl)
    · rw [List.filterMap_append, h1q, txSeq_outsEff, hseq, h1seq]; simp
    · intro hne
      rw [htxS] at hne ⊢
      rcases row.snd with h0 | ⟨h0, hW⟩
      · exact absurd h0 hne
      · constructor
        · intro hcl
          have := ctx.snd.a7 uid c hc hlive0 hcl
          rw [hW] at this; cases this
        · rcases h0 with h0 | h0 <;> rw [h0] <;> intro pre post heq
          · cases pre with
            | nil => cases heq
            | cons x xs => cases xs <;> simp at heq
          · cases pre with
            | nil => simp at heq; exact heq
            | cons x xs => cases xs <;> simp at heq
    · intro _
      exact (ctx.snd.org uid c hc).imp id org_openIds
    · intro _ u c2 hu hc2 hl2; exact hdist u c2 hu hc2 hl2
    · intro _ hcl
      show Wst st' = true
      rw [hl, txItems_append, htxS] at hcl
      rcases List.mem_append.mp hcl with h0 | h0
      · exact row.wst (ctx.snd.a7 uid c hc hlive0 h0)
      · exact row.sndClose h0
    · rcases ctx.snd.org uid c hc with g | ⟨q, nm, hq, g⟩
      · left; rw [hl, openIds_append]; exact List.mem_append_left _ g
      · exact Or.inr ⟨q, nm, Nat.lt_of_lt_of_le hq hmono, g⟩
    · exact hmono
  · -- receiver side
    refine rcv_update ctx.rcv uid { c with st := st' } _ hl ?_ hoth hself hliveO ?_ hle1 hle2 hpark ?_ ?_ ?_ ?_ ?_ ?_ ?_ ?_ ?_
    · intro u c2 p2 k2 hu hc2 hp2
      exact hrdO p2 (hpne u c2 p2 k2 hu hc2 hp2)
    · intro u c2 hu hc2 hl2
      exact hlk _ (hdist u c2 hu hc2 hl2)
    · intro u c2 hu hc2 hl2
      exact hsentO _ (hdist u c2 hu hc2 hl2)
    · intro _
      show seen { c with st := st' } Y'.log = sentTo c.scid (proc Y') X.log
      have hm0 := ctx.rcv.m uid c hc hlive0
      unfold seen at hm0 ⊢
      simp only [hp] at hm0 ⊢
      rw [hl, rdItems_append, hrdS, hm0, hsentS]
    · intro _ u c2 hu hc2 hl2; exact hdist u c2 hu hc2 hl2
    · intro x _ hst
      show lookup c.scid Y'.open_ = some uid
      have hnc : SubChannel.Output.close_subchannel ∉ outs := fun hm => hst (row.erase hm)
      rw [hopen, h1open, if_neg hnc]
      exact ctx.rcv.regd uid c (p, k) hc hp (fun hcl => hst (row.closedStays hcl))
    · intro p2 k2 hp2 hst
      have hp2' : some (p2, k2) = some (p, k) := by rw [← hp2]; exact hp
      cases hp2'
      rw [hl, rdItems_append, hrdS]
      rcases row.rclosed hst with h0 | h0
      · exact List.mem_append_left _ (ctx.rcv.clsd uid c p k hc hp h0)
      · exact List.mem_append_right _ h0
    · intro x _
      exact row.conn (ctx.rcv.conn uid c (p, k) hc hp)
    · intro p2 k2 hp2
      have hp2' : some (p2, k2) = some (p, k) := by rw [← hp2]; exact hp
      cases hp2'
      have hk := ctx.rcv.kind uid c p k hc hp
      exact ⟨fun h => hk.1 (row.full h), fun h => hk.2 (row.half h)⟩
    · rw [hpcs]; exact Nat.le_refl _
    · intro q hq
      have hlt := ctx.wf.bound uid c p k hc hp
      exact hrdO q (by rw [hpcs] at hq; omega)

theorem rowOK_of_table (arg : Bytes) {st st' : SubChannel.State} {i : SubChannel.Input} {outs : List SubChannel.Output}
    (h : SubChannel.table st i = some (st', outs)) (hi : isConnect i = false) : RowOK st st' outs arg := by
  cases st <;> cases i <;> simp [SubChannel.table] at h <;> simp [isConnect] at hi <;> obtain ⟨rfl, rfl⟩ := h <;>
    constructor <;> simp [sndOf, rdOf, Wst, List.filterMap_cons]

theorem updSC_id {Y : Side} {uid : Nat} {c : SC} (hc : Y.subs[uid]? = some c) :
    updSC uid (fun c0 => { c0 with st := c.st }) Y = Y := by
  have : modifyAt (fun c0 : SC => { c0 with st := c.st }) uid Y.subs = Y.subs := by
    apply List.ext_getElem?
    intro m
    rw [getElem?_modifyAt]
    by_cases hm : m = uid
    · subst hm; simp [hc]
    · simp [hm]
  unfold updSC
  rw [this]

/-- rows of the application's own inputs (`write`, `loseConnection`): no row, the error row, or a
    row that cannot fail on a registered SubChannel of the right kind -/
theorem local_rows (st : SubChannel.State) (i : SubChannel.Input) (hi : i = .local_data ∨ i = .local_close) :
    SubChannel.table st i = none ∨
    (∃ e, (e = SubChannel.Output.error_closed_write ∨ e = SubChannel.Output.error_closed_close) ∧
      SubChannel.table st i = some (st, [e])) ∨
    (∃ st' outs, SubChannel.table st i = some (st', outs) ∧
      (SubChannel.Output.close_subchannel ∈ outs → st = .read_closed) ∧
      (∀ k reg, (SubChannel.Output.close_subchannel ∈ outs → reg = true) →
        ((st = .open_half ∨ st = .read_closed) → k = PKind.half) → outsSafe k reg outs = true)) := by
  rcases hi with rfl | rfl <;> cases st <;>
    first
    | (left; rfl)
    | (right; left; exact ⟨_, Or.inl rfl, rfl⟩)
    | (right; left; exact ⟨_, Or.inr rfl, rfl⟩)
    | (right; right; refine ⟨_, _, rfl, ?_, ?_⟩
       · simp
       · intro k reg h1 h2
         simp [outsSafe, outSafe] at h1 h2 ⊢
         first | done | (simp [h1, h2]))

theorem local_input_step {X Y : Side} {d : Nat} (ctx : Ctx X Y d) (uid : Nat) (c : SC) (p : Nat) (k : PKind)
    (i : SubChannel.Input) (arg : Bytes) (hi : i = .local_data ∨ i = .local_close)
    (hc : Y.subs[uid]? = some c) (hp : c.proto = some (p, k)) :
    Snd (scInput uid i arg Y).1 X ∧ Rcv X (scInput uid i arg Y).1 d := by
  have hic : isConnect i = false := by rcases hi with rfl | rfl <;> rfl
  rcases local_rows c.st i hi with ht | ⟨e, he, ht⟩ | ⟨st', outs, ht, hcs, hsafe⟩
  · rw [scInput_eq_norow arg hc ht]; exact ⟨ctx.snd, ctx.rcv⟩
  · rw [scInput_eq_row arg hc ht]
    have hc1 : (updSC uid (fun c0 => { c0 with st := c.st }) Y).subs[uid]? = some c := by rw [updSC_id hc]; exact hc
    have : (runOuts uid arg [e] (updSC uid (fun c0 => { c0 with st := c.st }) Y)).1 = Y := by
      rw [updSC_id hc]
      rcases he with rfl | rfl <;> simp [runOuts, runOut, hc, andThen]
    rw [this]; exact ⟨ctx.snd, ctx.rcv⟩
  · have hk := ctx.rcv.kind uid c p k hc hp
    have hreg : SubChannel.Output.close_subchannel ∈ outs → lookup c.scid Y.open_ = some uid := by
      intro hm
      exact ctx.rcv.regd uid c (p, k) hc hp (by rw [hcs hm]; simp)
    have hs : outsSafe k (lookup c.scid Y.open_ == some uid) outs = true :=
      hsafe k _ (fun hm => by rw [hreg hm]; simp) (fun h => hk.2 (by rcases h with h | h <;> simp [h]))
    obtain ⟨Y', he, hl, hn, hsb, hop, hsm, hpcs, hpk⟩ := scInput_exact uid i arg Y c p k st' outs hc hp ht hs
    rw [he]
    have row := rowOK_of_table arg ht hic
    have hrd : outs.filterMap (rdOf arg) = [] := by
      rcases hi with rfl | rfl <;> cases hst : c.st <;> rw [hst] at ht <;> simp [SubChannel.table] at ht <;>
        obtain ⟨_, rfl⟩ := ht <;> simp [rdOf, List.filterMap_cons]
    have hproc : proc Y' = proc Y := by unfold proc; rw [hsm.highestAcked]
    refine row_step (Y1 := Y) ctx uid c p k arg st' outs [] hc hp row rfl rfl rfl (by simp) rfl (fun _ => rfl) rfl rfl
      hl hn hsb hop hreg hsm.expected hpcs (by rw [hproc]; exact ctx.rcv.le1) ctx.rcv.le2 (by rw [hproc]; exact Nat.le_refl _)
      (by rw [hproc, hpk]; exact ctx.rcv.parked) (fun σ _ => by rw [hproc]) (by rw [hproc, hrd, List.append_nil])

/-! ## connecting a registered, unconnected SubChannel (`_connect`) -/

theorem rdItems_map_data (q p : Nat) (ds : List Bytes) :
    rdItems q (ds.map (fun d => Eff.data p d)) = if q = p then ds.map Item.data else [] := by
  induction ds with
  | nil => simp [rdItems]
  | cons d r ih =>
    simp only [List.map_cons, rdItems, List.filterMap_cons] at ih ⊢
    by_cases h : q = p
    · subst h; simp [rdItem] at ih ⊢; exact ih
    · have h' : ¬ p = q := fun hh => h hh.symm
      simp [rdItem, h, h'] at ih ⊢

theorem rdItems_pendEffs (q : Nat) (k : PKind) (pc seq : Nat) (c : SC) (ds : List Bytes) (b : Bool) :
    rdItems q (pendEffs k pc seq c ds b) =
      if q = pc then ds.map Item.data ++ (if b then [Item.close] else []) else [] := by
  unfold pendEffs
  rw [rdItems_append, rdItems_append, rdItems_map_data]
  by_cases h : q = pc
  · subst h
    cases b <;> cases k <;> simp [rdItems, rdItem, closeEffs, List.filterMap_cons]
  · have h' : ¬ pc = q := fun hh => h hh.symm
    cases b <;> cases k <;> simp [rdItems, rdItem, closeEffs, h, h', List.filterMap_cons]

theorem txItems_pendEffs (σ : Nat) (k : PKind) (pc seq : Nat) (c : SC) (ds : List Bytes) (b : Bool) :
    txItems σ (pendEffs k pc seq c ds b) = if (b && k == .full) = true ∧ σ = c.scid then [Item.close] else [] := by
  unfold pendEffs
  have h2 : txItems σ (ds.map (fun d => Eff.data pc d)) = [] := by
    induction ds with
    | nil => rfl
    | cons d r ih => simpa [txItems, txItem] using ih
  rw [txItems_append, txItems_append, h2]
  by_cases h : σ = c.scid
  · subst h; cases b <;> cases k <;> simp [txItems, txItem, closeEffs, List.filterMap_cons]
  · have h' : ¬ c.scid = σ := fun hh => h hh.symm
    cases b <;> cases k <;> simp [txItems, txItem, closeEffs, h, h', List.filterMap_cons]

theorem txSeq_pendEffs (k : PKind) (pc seq : Nat) (c : SC) (ds : List Bytes) (b : Bool) :
    (pendEffs k pc seq c ds b).filterMap txSeq = List.range' seq (if b && k == .full then 1 else 0) := by
  unfold pendEffs
  have h2 : (ds.map (fun d => Eff.data pc d)).filterMap txSeq = [] := by
    induction ds with
    | nil => rfl
    | cons d r ih => simpa [txSeq] using ih
  rw [List.filterMap_append, List.filterMap_append, h2]
  cases b <;> cases k <;> simp [txSeq, closeEffs, List.filterMap_cons]

theorem connres_step {X Y Y' : Side} {d : Nat} (ctx : Ctx X Y d) (uid : Nat) (c : SC) (k : PKind)
    (ds : List Bytes) (b : Bool) (hc : Y.subs[uid]? = some c) (hst : c.st = .unconnected) (hp : c.proto = none)
    (hd : c.pendingData = some ds) (hb : c.pendingClose = b) (hreg : lookup c.scid Y.open_ = some uid)
    (r : ConnRes Y Y' uid c k ds b) : Snd Y' X ∧ Rcv X Y' d := by
  have hlive0 : live Y uid c := Or.inr hreg
  obtain ⟨c', hc', hp', hsc', _, hstn, _⟩ := r.self
  have hst' := r.st c' hc'
  have hproc : proc Y' = proc Y := by unfold proc; rw [r.same.highestAcked]
  have hdist : ∀ (u : Nat) (c2 : SC), u ≠ uid → Y.subs[u]? = some c2 → live Y u c2 → c2.scid ≠ c.scid :=
    fun u c2 hu hc2 hl2 hsc => hu (ctx.rcv.uniq u uid c2 c hc2 hc hl2 hlive0 hsc)
  have hlk : ∀ σ, σ ≠ c.scid → lookup σ Y'.open_ = lookup σ Y.open_ := by
    intro σ hσ
    rw [r.open_]
    split
    · exact lookup_eraseKey_ne _ _ hσ _
    · rfl
  have hliveO : ∀ (u : Nat) (c2 : SC), u ≠ uid → Y.subs[u]? = some c2 → (live Y' u c2 ↔ live Y u c2) := by
    intro u c2 hu hc2
    unfold live
    by_cases hsc : c2.scid = c.scid
    · have hno : lookup c2.scid Y.open_ ≠ some u := by
        intro hlu; exact hdist u c2 hu hc2 (Or.inr hlu) hsc
      have hno' : lookup c2.scid Y'.open_ ≠ some u := by
        rw [r.open_]
        split
        · rw [hsc, lookup_eraseKey_self _ _ ctx.keys]; simp
        · exact hno
      constructor
      · rintro (h | h)
        · exact Or.inl h
        · exact absurd h hno'
      · rintro (h | h)
        · exact Or.inl h
        · exact absurd h hno
    · rw [hlk _ hsc]
  have hm0 := ctx.rcv.m uid c hc hlive0
  have hq0 : seen c Y.log = ds.map Item.data ++ (if b then [Item.close] else []) := by
    unfold seen queued; simp [hp, hd, hb]
  constructor
  · refine snd_update ctx.snd uid c' _ r.log ?_ (by rw [r.seq]; omega) ?_ ?_ ?_ r.others hc' hliveO ?_ ?_ ?_ ?_ r.same.expected
      (fun c0 hc0 => by rw [hc] at hc0; cases hc0; exact hsc'.symm)
    · rw [txSeq_pendEffs, r.seq]; congr 1; omega
    · intro σ hσ; rw [txItems_pendEffs, hsc'] at *; simp [hσ]
    · intro hne
      rw [hsc', txItems_pendEffs] at *
      constructor
      · intro hcl
        have := ctx.snd.a7 uid c hc hlive0 hcl
        rw [hst] at this; simp [Wst] at this
      · split
        · intro pre post heq
          cases pre with
          | nil => simp at heq; exact heq
          | cons x xs => cases xs <;> simp at heq
        · exact closeLast_nil
    · intro _; rw [hsc']; exact (ctx.snd.org uid c hc).imp id org_openIds
    · intro _ u c2 hu hc2 hl2; rw [hsc']; exact hdist u c2 hu hc2 hl2
    · intro _ hcl
      rw [hsc', r.log, txItems_append, txItems_pendEffs] at hcl
      rcases List.mem_append.mp hcl with h0 | h0
      · have := ctx.snd.a7 uid c hc hlive0 h0
        rw [hst] at this; simp [Wst] at this
      · split at h0
        · rename_i hbk
          rw [hst']
          have hb' : b = true := by cases b <;> simp at hbk ⊢
          have hk' : k = .full := by cases k <;> simp at hbk ⊢ <;> (cases b <;> simp at hbk)
          subst hb' hk'; rfl
        · cases h0
    · rw [hsc']
      rcases ctx.snd.org uid c hc with g | ⟨q, nm, hq, g⟩
      · left; rw [r.log, openIds_append]; exact List.mem_append_left _ g
      · exact Or.inr ⟨q, nm, by rw [hproc]; exact hq, g⟩
    · rw [hproc]; exact Nat.le_refl _
  · refine rcv_update ctx.rcv uid c' _ r.log ?_ r.others hc' hliveO ?_ (by rw [hproc]; exact ctx.rcv.le1) ctx.rcv.le2
      (by rw [hproc, r.same.parked]; exact ctx.rcv.parked) ?_ ?_ ?_ ?_ ?_ ?_ ?_ (by rw [r.pc]; omega) ?_
    · intro u c2 p2 k2 hu hc2 hp2
      have hlt := ctx.wf.bound u c2 p2 k2 hc2 hp2
      rw [rdItems_pendEffs, if_neg (by omega)]
    · intro u c2 hu hc2 hl2; exact hlk _ (hdist u c2 hu hc2 hl2)
    · intro u c2 hu hc2 hl2; rw [hproc]
    · intro _
      unfold seen
      simp only [hp']
      rw [r.log, rdItems_append, ctx.rcv.fresh _ (Nat.le_refl _), rdItems_pendEffs, if_pos rfl, List.nil_append, hproc,
        hsc', ← hm0, hq0]
    · intro _ u c2 hu hc2 hl2; rw [hsc']; exact hdist u c2 hu hc2 hl2
    · intro x _ hstc
      rw [hsc', r.open_]
      have : ¬ ((b && k == .full) = true) := by
        intro hbk
        apply hstc
        rw [hst']
        have hb' : b = true := by cases b <;> simp at hbk ⊢
        have hk' : k = .full := by cases k <;> simp at hbk ⊢ <;> (cases b <;> simp at hbk)
        subst hb' hk'; rfl
      rw [if_neg this]; exact hreg
    · intro p2 k2 hp2 hcl
      rw [hp'] at hp2; cases hp2
      rw [r.log, rdItems_append, rdItems_pendEffs, if_pos rfl]
      apply List.mem_append_right
      apply List.mem_append_right
      have hb' : b = true := by
        rw [hst'] at hcl
        cases b
        · cases k <;> simp at hcl
        · rfl
      simp [hb']
    · intro x _; exact hstn
    · intro p2 k2 hp2
      rw [hp'] at hp2; cases hp2
      rw [hst']
      cases b <;> cases k <;> simp
    · intro q hq
      rw [rdItems_pendEffs, if_neg (by rw [r.pc] at hq; omega)]

/-! ## a new SubChannel object is created and registered -/

theorem lookup_push_other {σ u v : Nat} {l : List (Nat × Nat)} (k : Nat) (hv : v ≠ u) :
    lookup k (l ++ [(σ, v)]) = some u ↔ lookup k l = some u := by
  cases hk : lookup k l with
  | some w => rw [lookup_append_left k w _ _ hk]
  | none =>
    rw [lookup_append_none k _ _ hk]
    by_cases hks : σ = k
    · simp [lookup, hks]; exact hv
    · simp [lookup, hks]


theorem push_step {X Y Y' : Side} {d d' : Nat} (ctx : Ctx X Y d) (σ : Nat) (name : String) (al : List Eff)
    (hsubs : Y'.subs = Y.subs ++ [SC.new σ name]) (hopen : Y'.open_ = Y.open_ ++ [(σ, Y.subs.length)])
    (hlog : Y'.log = Y.log ++ al) (hrd : ∀ q, rdItems q al = []) (htx : ∀ q, txItems q al = [])
    (hseq : al.filterMap txSeq = List.range' Y.nextSeq (Y'.nextSeq - Y.nextSeq)) (hns : Y.nextSeq ≤ Y'.nextSeq)
    (hexp : Y'.expected = Y.expected) (hpc : Y'.protoCount = Y.protoCount)
    (hle1 : proc Y' ≤ d') (hle2 : d' ≤ X.nextSeq)
    (hpark : Y'.parked.filter (fun r => decide (proc Y' ≤ r.seq)) = ((wireR X.log).drop (proc Y')).take (d' - proc Y'))
    (hsent0 : sentTo σ (proc Y') X.log = [])
    (hsentO : ∀ σ', σ' ≠ σ → sentTo σ' (proc Y') X.log = sentTo σ' (proc Y) X.log)
    (horg : σ ∈ openIds Y'.log ∨ ∃ q nm, q < proc Y' ∧ Eff.txOpen q σ nm ∈ X.log) (hpm : proc Y ≤ proc Y')
    (hnoSC : ∀ (u : Nat) (c2 : SC), Y.subs[u]? = some c2 → c2.scid ≠ σ) :
    Snd Y' X ∧ Rcv X Y' d' := by
  have hnoLive : ∀ (u : Nat) (c2 : SC), Y.subs[u]? = some c2 → live Y u c2 → c2.scid ≠ σ :=
    fun u c2 hc2 _ => hnoSC u c2 hc2
  have hget : ∀ u : Nat, Y'.subs[u]? =
      if u < Y.subs.length then Y.subs[u]? else if u = Y.subs.length then some (SC.new σ name) else none := by
    intro u; rw [hsubs]; exact getElem?_push _ _ u
  have hself : Y'.subs[Y.subs.length]? = some (SC.new σ name) := by rw [hget]; simp
  have hnone : Y.subs[Y.subs.length]? = none := List.getElem?_eq_none (Nat.le_refl _)
  have hoth : ∀ u : Nat, u ≠ Y.subs.length → Y'.subs[u]? = Y.subs[u]? := by
    intro u hu
    rw [hget]
    by_cases h : u < Y.subs.length
    · simp [h]
    · simp [h, hu]
  have hliveO : ∀ (u : Nat) (c2 : SC), u ≠ Y.subs.length → Y.subs[u]? = some c2 → (live Y' u c2 ↔ live Y u c2) := by
    intro u c2 hu _
    unfold live
    rw [hopen, lookup_push_other _ (fun h => hu h.symm)]
  have hnotx : txItems σ Y.log = [] := by
    cases hx : txItems σ Y.log with
    | nil => rfl
    | cons a r =>
      obtain ⟨u, c0, hu, hsc⟩ := ctx.snd.ts σ (by rw [hx]; simp)
      exact absurd hsc (hnoSC u c0 hu)
  constructor
  · refine snd_update ctx.snd Y.subs.length (SC.new σ name) al hlog hseq hns (fun q _ => htx q)
      (fun h => absurd (htx _) h) (fun h => absurd (htx _) h) hoth hself hliveO (fun h => absurd (htx _) h) ?_ horg hpm hexp
      (fun c0 hc0 => by rw [hnone] at hc0; cases hc0)
    intro _ hcl
    rw [hlog, txItems_append, htx, List.append_nil] at hcl
    have : (SC.new σ name).scid = σ := rfl
    rw [this, hnotx] at hcl; cases hcl
  · refine rcv_update ctx.rcv Y.subs.length (SC.new σ name) al hlog (fun _ _ _ _ _ _ _ => hrd _) hoth hself hliveO ?_
      hle1 hle2 hpark ?_ ?_ ?_ ?_ ?_ ?_ ?_ (by omega) (fun q _ => hrd q)
    · intro u c2 hu hc2 _
      rw [hopen]
      cases hk : lookup c2.scid Y.open_ with
      | some w => exact lookup_append_left _ _ _ _ hk
      | none =>
        rw [lookup_append_none _ _ _ hk]
        by_cases hks : σ = c2.scid
        · exact absurd hks.symm (hnoLive u c2 hc2 ‹_›)
        · simp [lookup, hks]
    · intro u c2 hu hc2 hl2; exact hsentO _ (hnoLive u c2 hc2 hl2)
    · intro _
      show seen (SC.new σ name) Y'.log = sentTo σ (proc Y') X.log
      rw [hsent0]; rfl
    · intro _ u c2 hu hc2 hl2; exact hnoLive u c2 hc2 hl2
    · intro x hx; cases hx
    · intro p k hx; cases hx
    · intro x hx; cases hx
    · intro p k hx; cases hx

/-! ## seqnums and positions in a sender's log -/

theorem range'_split (q n : Nat) (h : q < n) : List.range' 0 n = List.range' 0 q ++ q :: List.range' (q + 1) (n - q - 1) := by
  have h1 := @List.range'_append 0 q (n - q) 1
  simp at h1
  have : q + (n - q) = n := by omega
  rw [this] at h1
  rw [← h1]
  congr 1
  obtain ⟨k, hk⟩ : ∃ k, n - q = k + 1 := ⟨n - q - 1, by omega⟩
  rw [hk, List.range'_succ]
  simp

/-- position of a record in the log ↔ its seqnum -/
theorem seq_split {log pre post : List Eff} {e : Eff} {n q : Nat} (hs : log.filterMap txSeq = List.range' 0 n)
    (hl : log = pre ++ e :: post) (hq : txSeq e = some q) :
    q < n ∧ pre.filterMap txSeq = List.range' 0 q ∧ post.filterMap txSeq = List.range' (q + 1) (n - q - 1) := by
  rw [hl, List.filterMap_append, List.filterMap_cons, hq] at hs
  simp only [] at hs
  -- the element right after `pre` is `q`; in `range' 0 n` the element at index i is i
  have hlen : (pre.filterMap txSeq).length < n := by
    have := congrArg List.length hs
    simp at this; omega
  have hidx : (List.range' 0 n)[(pre.filterMap txSeq).length]? = some q := by
    rw [← hs]; simp
  rw [List.getElem?_range' hlen] at hidx
  have hq' : (pre.filterMap txSeq).length = q := by simpa using hidx
  have hqn : q < n := by omega
  rw [range'_split q n hqn] at hs
  have := List.append_inj hs (by simp [hq'])
  refine ⟨hqn, this.1, ?_⟩
  have h2 := this.2
  simp at h2
  exact h2

theorem seq_lt_of_pre {pre : List Eff} {q : Nat} (h : pre.filterMap txSeq = List.range' 0 q) :
    ∀ e ∈ pre, ∀ q', txSeq e = some q' → q' < q := by
  intro e he q' hq'
  have : q' ∈ pre.filterMap txSeq := List.mem_filterMap.mpr ⟨e, he, hq'⟩
  rw [h] at this
  have := (List.mem_range'_1.mp this).2
  omega

theorem seq_gt_of_post {post : List Eff} {q k : Nat} (h : post.filterMap txSeq = List.range' (q + 1) k) :
    ∀ e ∈ post, ∀ q', txSeq e = some q' → q < q' := by
  intro e he q' hq'
  have : q' ∈ post.filterMap txSeq := List.mem_filterMap.mpr ⟨e, he, hq'⟩
  rw [h] at this
  have := (List.mem_range'_1.mp this).1
  omega

theorem sentTo_eq_of_lt {l : List Eff} {q : Nat} (h : ∀ e ∈ l, ∀ q', txSeq e = some q' → q' < q) (σ n : Nat) (hn : q ≤ n) :
    sentTo σ n l = txItems σ l := by
  induction l with
  | nil => rfl
  | cons e r ih =>
    have ih' := ih (fun e' he' => h e' (List.mem_cons_of_mem _ he'))
    have he := h e (by simp)
    unfold sentTo txItems at ih' ⊢
    simp only [List.filterMap_cons]
    rw [ih']
    cases e
    case txData sq sc dd =>
      have hlt : sq < n := by have := he sq rfl; omega
      by_cases hsc : sc = σ <;> simp [txItemBelow, txItem, hsc, hlt]
    case txClose sq sc =>
      have hlt : sq < n := by have := he sq rfl; omega
      by_cases hsc : sc = σ <;> simp [txItemBelow, txItem, hsc, hlt]
    all_goals simp [txItemBelow, txItem]

theorem sentTo_nil_of_gt {l : List Eff} {q : Nat} (h : ∀ e ∈ l, ∀ q', txSeq e = some q' → q < q') (σ n : Nat) (hn : n ≤ q + 1) :
    sentTo σ n l = [] := by
  unfold sentTo
  apply List.filterMap_eq_nil_iff.mpr
  intro e he
  cases e <;> simp [txItemBelow]
  all_goals
    intro _
    have := h _ he _ rfl
    omega

/-- what the record with seqnum `q` adds to the processed stream of subchannel `σ` -/
def itemOn (σ : Nat) (e : Eff) : List Item :=
  match txItem σ e with
  | some it => [it]
  | none => []

theorem sentTo_succ {X : Side} (hs : SeqOK X) {e : Eff} {q : Nat} (he : e ∈ X.log) (hq : txSeq e = some q) (σ : Nat) :
    sentTo σ (q + 1) X.log = sentTo σ q X.log ++ itemOn σ e := by
  obtain ⟨pre, post, hl⟩ := List.append_of_mem he
  obtain ⟨_, h1, h2⟩ := seq_split hs hl hq
  have hp := seq_lt_of_pre h1
  have hg := seq_gt_of_post h2
  rw [hl, sentTo_append, sentTo_append]
  have a1 : sentTo σ (q + 1) pre = sentTo σ q pre := by
    rw [sentTo_eq_of_lt hp σ (q + 1) (by omega), sentTo_eq_of_lt hp σ q (Nat.le_refl _)]
  have a2 : sentTo σ (q + 1) post = [] := sentTo_nil_of_gt hg σ (q + 1) (Nat.le_refl _)
  have a3 : sentTo σ q post = [] := sentTo_nil_of_gt hg σ q (by omega)
  have a4 : sentTo σ (q + 1) [e] = itemOn σ e ∧ sentTo σ q [e] = [] := by
    cases e <;> simp [txSeq] at hq <;> subst hq <;> simp [sentTo, txItemBelow, itemOn, txItem, List.filterMap_cons] <;>
      (split <;> simp_all)
  have : sentTo σ (q + 1) (e :: post) = itemOn σ e := by
    have := sentTo_append σ (q + 1) [e] post
    simp only [List.singleton_append] at this
    rw [this, a4.1, a2, List.append_nil]
  have h' : sentTo σ q (e :: post) = [] := by
    have := sentTo_append σ q [e] post
    simp only [List.singleton_append] at this
    rw [this, a4.2, a3]; rfl
  rw [this, h', a1, List.append_nil]

theorem mem_split_by_seq {log pre post : List Eff} {e e' : Eff} {n q q' : Nat}
    (hs : log.filterMap txSeq = List.range' 0 n) (hl : log = pre ++ e :: post) (hq : txSeq e = some q)
    (he' : e' ∈ log) (hq' : txSeq e' = some q') :
    (q' < q ∧ e' ∈ pre) ∨ (q' = q ∧ e' = e) ∨ (q < q' ∧ e' ∈ post) := by
  obtain ⟨_, h1, h2⟩ := seq_split hs hl hq
  rw [hl] at he'
  rcases List.mem_append.mp he' with h | h
  · exact Or.inl ⟨seq_lt_of_pre h1 e' h q' hq', h⟩
  · rcases List.mem_cons.mp h with h | h
    · subst h; rw [hq] at hq'; cases hq'; exact Or.inr (Or.inl ⟨rfl, rfl⟩)
    · exact Or.inr (Or.inr ⟨seq_gt_of_post h2 e' h q' hq', h⟩)

/-- nothing is sent on a subchannel after its CLOSE (log-level consequence of `ndac` + `seq`) -/
theorem no_item_after_close {X Y : Side} (h : Snd X Y) {σ q1 q2 : Nat} {e2 : Eff} {it : Item}
    (hc : Eff.txClose q1 σ ∈ X.log) (he2 : e2 ∈ X.log) (hit : txItem σ e2 = some it) (hq2 : txSeq e2 = some q2)
    (hlt : q1 < q2) : False := by
  obtain ⟨pre, post, hl⟩ := List.append_of_mem he2
  rcases mem_split_by_seq h.seq hl hq2 hc rfl with ⟨_, hin⟩ | ⟨heq, _⟩ | ⟨hgt, _⟩
  · have hcl : Item.close ∈ txItems σ pre := by
      unfold txItems
      exact List.mem_filterMap.mpr ⟨_, hin, by simp [txItem]⟩
    obtain ⟨a, b, hab⟩ := List.append_of_mem hcl
    have := h.ndac σ a (b ++ it :: txItems σ post) (by
      rw [hl, txItems_append, hab]
      have : txItems σ (e2 :: post) = it :: txItems σ post := by
        simp [txItems, List.filterMap_cons, hit]
      rw [this]; simp)
    simp at this
  · omega
  · omega

theorem openIds_twice_false {a b : List Eff} {σ : Nat} (hp : (openIds (a ++ b)).Pairwise (· < ·))
    (h1 : σ ∈ openIds a) (h2 : σ ∈ openIds b) : False := by
  rw [openIds_append] at hp
  have := (List.pairwise_append.mp hp).2.2 σ h1 σ h2
  omega

/-- on the sender's log, DATA/CLOSE for one of its own ids come after the OPEN for that id -/
theorem no_item_before_open {X Y : Side} (h : Snd X Y) (hids : IdsOK X) {σ q q' : Nat} {nm : String} {e' : Eff} {it : Item}
    (ho : Eff.txOpen q σ nm ∈ X.log) (he' : e' ∈ X.log) (hit : txItem σ e' = some it) (hq' : txSeq e' = some q')
    (hle : q' ≤ q) (hnotY : σ ∉ openIds Y.log) : False := by
  obtain ⟨pre, post, hl⟩ := List.append_of_mem he'
  rcases h.obu pre post e' σ hl (by rw [hit]; rfl) with hin | hin
  · rcases mem_split_by_seq h.seq hl hq' ho rfl with ⟨hlt, _⟩ | ⟨_, heq⟩ | ⟨_, hpost⟩
    · omega
    · rw [← heq] at hit; simp [txItem] at hit
    · have h2 : σ ∈ openIds (e' :: post) := (mem_openIds σ _).mpr ⟨q, nm, List.mem_cons_of_mem _ hpost⟩
      have hp := hids.2.2.2
      rw [hl] at hp
      exact openIds_twice_false hp hin h2
  · exact hnotY hin

/-! ## ids of the two sides never meet -/

theorem ids_disjoint_logs {X Y : Side} (hx : IdsOK X) (hy : IdsOK Y) (hr : X.leader = !Y.leader) (σ : Nat)
    (h1 : σ ∈ openIds X.log) (h2 : σ ∈ openIds Y.log) : False := by
  have a := (hx.2.2.1 σ h1).1
  have b := (hy.2.2.1 σ h2).1
  rw [hr] at a
  cases hl : Y.leader <;> simp [hl] at a b <;> omega

theorem fresh_id_not_opened {X Y : Side} (hx : IdsOK X) (hy : IdsOK Y) (hr : X.leader = !Y.leader) :
    Y.nextScid ∉ openIds X.log ∧ Y.nextScid ∉ openIds Y.log := by
  constructor
  · intro h
    have a := (hx.2.2.1 _ h).1
    have b := hy.1
    rw [hr] at a
    cases hl : Y.leader <;> simp [hl] at a b <;> omega
  · intro h
    have := (hy.2.2.1 _ h).2.2
    omega

theorem two_opens_false {X : Side} {Y : Side} (h : Snd X Y) (hids : IdsOK X) {σ q q' : Nat} {nm nm' : String}
    (h1 : Eff.txOpen q σ nm ∈ X.log) (h2 : Eff.txOpen q' σ nm' ∈ X.log) (hne : q ≠ q') : False := by
  obtain ⟨pre, post, hl⟩ := List.append_of_mem h1
  have hp := hids.2.2.2
  rw [hl] at hp
  rcases mem_split_by_seq h.seq hl rfl h2 rfl with ⟨_, hin⟩ | ⟨heq, _⟩ | ⟨_, hin⟩
  · exact openIds_twice_false hp ((mem_openIds σ _).mpr ⟨q', nm', hin⟩) ((mem_openIds σ _).mpr ⟨q, nm, by simp⟩)
  · exact hne heq.symm
  · have hp' : (openIds ((pre ++ [Eff.txOpen q σ nm]) ++ post)).Pairwise (· < ·) := by simpa using hp
    exact openIds_twice_false hp' ((mem_openIds σ _).mpr ⟨q, nm, by simp⟩) ((mem_openIds σ _).mpr ⟨q', nm', hin⟩)

theorem mem_sentTo_close {σ n : Nat} {log : List Eff} (h : Item.close ∈ sentTo σ n log) :
    ∃ q, q < n ∧ Eff.txClose q σ ∈ log := by
  unfold sentTo at h
  obtain ⟨e, he, hit⟩ := List.mem_filterMap.mp h
  cases e <;> simp [txItemBelow] at hit
  case txClose q c =>
    obtain ⟨rfl, hq⟩ := hit
    exact ⟨q, hq, he⟩

theorem txItems_nil_of_fresh {X Y : Side} (h : Snd X Y) (hx : IdsOK X) (σ : Nat)
    (h1 : σ ∉ openIds X.log) (h2 : σ ∉ openIds Y.log) : txItems σ X.log = [] := by
  unfold txItems
  apply List.filterMap_eq_nil_iff.mpr
  intro e he
  cases hit : txItem σ e with
  | none => rfl
  | some it =>
    obtain ⟨pre, post, hl⟩ := List.append_of_mem he
    rcases h.obu pre post e σ hl (by rw [hit]; rfl) with g | g
    · exact absurd (by rw [hl, openIds_append]; exact List.mem_append_left _ g) h1
    · exact absurd g h2

theorem sentTo_nil_of_txItems_nil {σ n : Nat} {log : List Eff} (h : txItems σ log = []) : sentTo σ n log = [] := by
  unfold sentTo
  apply List.filterMap_eq_nil_iff.mpr
  intro e he
  have := List.filterMap_eq_nil_iff.mp h e he
  cases e <;> simp [txItem, txItemBelow] at this ⊢ <;> intro h1 <;> exact absurd h1 this

/-! ## `connect()` -/

/-- the Ctx facts that only concern the side's own store survive registering a new object -/
theorem store_push {Y P : Side} (σ : Nat) (name : String)
    (wf : WF Y) (keys : (Y.open_.map Prod.fst).Nodup)
    (openOK : ∀ (scid u : Nat), lookup scid Y.open_ = some u → ∃ c : SC, Y.subs[u]? = some c ∧ c.scid = scid)
    (unconn : ∀ (u : Nat) (c : SC), Y.subs[u]? = some c → c.proto = none → c.st = .unconnected ∧ c.pendingData.isSome = true)
    (hnew : lookup σ Y.open_ = none)
    (hsubs : P.subs = Y.subs ++ [SC.new σ name]) (hopen : P.open_ = Y.open_ ++ [(σ, Y.subs.length)])
    (hpc : P.protoCount = Y.protoCount) :
    WF P ∧ (P.open_.map Prod.fst).Nodup ∧
    (∀ (scid u : Nat), lookup scid P.open_ = some u → ∃ c : SC, P.subs[u]? = some c ∧ c.scid = scid) ∧
    (∀ (u : Nat) (c : SC), P.subs[u]? = some c → c.proto = none → c.st = .unconnected ∧ c.pendingData.isSome = true) := by
  have hget : ∀ u : Nat, P.subs[u]? =
      if u < Y.subs.length then Y.subs[u]? else if u = Y.subs.length then some (SC.new σ name) else none := by
    intro u; rw [hsubs]; exact getElem?_push _ _ u
  have old : ∀ (u : Nat) (c : SC), Y.subs[u]? = some c → P.subs[u]? = some c := by
    intro u c hu; rw [hget, if_pos (sub_lt_of_some hu)]; exact hu
  refine ⟨wf_push wf σ name hsubs hpc, ?_, ?_, ?_⟩
  · rw [hopen, List.map_append]
    refine List.nodup_append.mpr ⟨keys, by simp, ?_⟩
    intro a ha b hb
    simp at hb; subst hb
    intro hab; subst hab
    exact lookup_none_not_mem _ _ hnew ha
  · intro k v hl
    rw [hopen] at hl
    cases hk : lookup k Y.open_ with
    | some v0 =>
      rw [lookup_append_left k v0 _ _ hk] at hl
      have hv : v0 = v := Option.some.inj hl
      obtain ⟨c, hc, hs⟩ := openOK k v0 hk
      exact ⟨c, by rw [← hv]; exact old _ c hc, hs⟩
    | none =>
      rw [lookup_append_none k _ _ hk] at hl
      by_cases hks : σ = k
      · simp [lookup, hks] at hl
        subst hl; subst hks
        exact ⟨SC.new σ name, by rw [hget]; simp, rfl⟩
      · simp [lookup, hks] at hl
  · intro u c hu hp
    rw [hget] at hu
    by_cases h1 : u < Y.subs.length
    · rw [if_pos h1] at hu; exact unconn u c hu hp
    · rw [if_neg h1] at hu
      by_cases h2 : u = Y.subs.length
      · rw [if_pos h2] at hu; cases hu; exact ⟨rfl, rfl⟩
      · rw [if_neg h2] at hu; cases hu

theorem connect_step {X Y : Side} {d : Nat} (ctx : Ctx X Y d) (name : String) (k : PKind) :
    Snd (connect name k Y).1 X ∧ Rcv X (connect name k Y).1 d := by
  unfold connect
  split
  · exact ⟨ctx.snd, ctx.rcv⟩
  · simp only []
    obtain ⟨hf1, hf2⟩ := fresh_id_not_opened ctx.idsX ctx.idsY ctx.roles
    have hnoSC : ∀ (u : Nat) (c2 : SC), Y.subs[u]? = some c2 → c2.scid ≠ Y.nextScid := by
      intro u c2 hc2 hsc
      rcases ctx.snd.org u c2 hc2 with g | g
      · rw [hsc] at g; exact hf2 g
      · rw [hsc] at g; exact hf1 (org_openIds g)
    have hnew : lookup Y.nextScid Y.open_ = none := by
      cases hl : lookup Y.nextScid Y.open_ with
      | none => rfl
      | some u =>
        obtain ⟨c2, hc2, hsc⟩ := ctx.openOK _ _ hl
        exact absurd hsc (hnoSC u c2 hc2)
    have hnew' : ¬ ((lookup Y.nextScid Y.open_).isSome = true) := by rw [hnew]; simp
    split
    · rename_i hyes; exact absurd hyes hnew'
    · -- the registered, still unconnected object
      generalize hP : ({ ({ sendRec (fun q => Eff.txOpen q Y.nextScid name) { Y with nextScid := Y.nextScid + 2 } with
          subs := (sendRec (fun q => Eff.txOpen q Y.nextScid name) { Y with nextScid := Y.nextScid + 2 }).subs ++
            [SC.new Y.nextScid name] } : Side) with
          open_ := (sendRec (fun q => Eff.txOpen q Y.nextScid name) { Y with nextScid := Y.nextScid + 2 }).open_ ++
            [(Y.nextScid, (sendRec (fun q => Eff.txOpen q Y.nextScid name) { Y with nextScid := Y.nextScid + 2 }).subs.length)] } : Side) = P
      have e1 : P.subs = Y.subs ++ [SC.new Y.nextScid name] := by rw [← hP]; rfl
      have e2 : P.open_ = Y.open_ ++ [(Y.nextScid, Y.subs.length)] := by rw [← hP]; rfl
      have e3 : P.log = Y.log ++ [.txOpen Y.nextSeq Y.nextScid name] := by rw [← hP]; rfl
      have e4 : P.nextSeq = Y.nextSeq + 1 := by rw [← hP]; rfl
      have e5 : P.protoCount = Y.protoCount := by rw [← hP]; rfl
      have e6 : P.highestAcked = Y.highestAcked := by rw [← hP]; rfl
      have e7 : P.parked = Y.parked := by rw [← hP]; rfl
      have e8 : P.expected = Y.expected := by rw [← hP]; rfl
      have e9 : P.leader = Y.leader := by rw [← hP]; rfl
      have e10 : P.nextScid = Y.nextScid + 2 := by rw [← hP]; rfl
      have hproc : proc P = proc Y := by unfold proc; rw [e6]
      have hnotx : txItems Y.nextScid X.log = [] := txItems_nil_of_fresh ctx.sndX ctx.idsX _ hf1 hf2
      obtain ⟨sP, rP⟩ := push_step (Y' := P) ctx Y.nextScid name [.txOpen Y.nextSeq Y.nextScid name] e1 e2 e3
        (fun _ => rfl) (fun _ => rfl) (by rw [e4]; simp [txSeq]) (by omega) e8 e5 (by rw [hproc]; exact ctx.rcv.le1) ctx.rcv.le2
        (by rw [hproc, e7]; exact ctx.rcv.parked) (sentTo_nil_of_txItems_nil hnotx) (fun _ _ => by rw [hproc])
        (Or.inl (by rw [e3, openIds_append]; simp [openIds])) (by rw [hproc]; exact Nat.le_refl _)
        hnoSC
      obtain ⟨w1, w2, w3, w4⟩ := store_push Y.nextScid name ctx.wf ctx.keys ctx.openOK ctx.unconn hnew e1 e2 e5
      have ctxP : Ctx X P d :=
        ⟨w1, w2, w3, w4, sP, rP, Snd_mono_right ctx.sndX (fun e he => by rw [e3]; exact List.mem_append_left _ he), ctx.idsX,
          IdsOK_open Y.nextSeq name e9 e10 e3 ctx.idsY, by rw [e9]; exact ctx.roles⟩
      have hcP : P.subs[Y.subs.length]? = some (SC.new Y.nextScid name) := by rw [e1]; simp
      obtain ⟨Y', hY', r⟩ := connectTail_spec P Y.subs.length (SC.new Y.nextScid name) name k hcP rfl rfl rfl
      have hlen : (sendRec (fun q => Eff.txOpen q Y.nextScid name) { Y with nextScid := Y.nextScid + 2 }).subs.length = Y.subs.length := rfl
      rw [hlen, hY']
      exact connres_step ctxP Y.subs.length (SC.new Y.nextScid name) k [] false hcP rfl rfl rfl rfl
        (by rw [e2]; exact lookup_append_new' _ _ _ hnew) r

/-! ## `listen()`: every pending OPEN for the name is connected -/

theorem Ctx.of_sinvx {X Y : Side} {d : Nat} {Xs : List Nat} (h : SInvX Xs Y) (snd : Snd Y X) (rcv : Rcv X Y d)
    (sndX : Snd X Y) (idsX : IdsOK X) (idsY : IdsOK Y) (roles : X.leader = !Y.leader) : Ctx X Y d :=
  ⟨h.wf, h.openKeys, h.openOK, h.unconn, snd, rcv, sndX, idsX, idsY, roles⟩

theorem connectSC_link {X Y : Side} {d : Nat} {Xs : List Nat} (h : SInvX Xs Y) (ctx : Ctx X Y d) (uid : Nat)
    (huid : uid ∈ Xs) (k : PKind) :
    ∃ Y' : Side, connectSC k uid Y = (Y', none) ∧ SInvX (Xs.filter (fun v => v != uid)) Y' ∧ Ctx X Y' d := by
  obtain ⟨c, hc, hp, hl⟩ := h.inflight uid huid
  obtain ⟨hst, hpd⟩ := h.unconn uid c hc hp
  cases hd : c.pendingData with
  | none => rw [hd] at hpd; cases hpd
  | some ds =>
    obtain ⟨Y', hs', r⟩ := connectSC_spec Y uid c k ds c.pendingClose hc hst hp hd rfl (fun _ _ => hl)
    have hev := connectSC_evo h.wf k uid
    rw [hs'] at hev
    have hsinv := sinv_of_connRes h uid huid c k ds _ hc hp r hev.wf
    obtain ⟨sn, rc⟩ := connres_step ctx uid c k ds c.pendingClose hc hst hp hd rfl hl r
    refine ⟨Y', hs', hsinv, Ctx.of_sinvx hsinv sn rc ?_ ctx.idsX (hev.ids ctx.idsY) (by rw [r.same.leader]; exact ctx.roles)⟩
    exact Snd_mono_right ctx.sndX (fun e he => by rw [r.log]; exact List.mem_append_left _ he)

theorem connectAll_link (k : PKind) {X : Side} {d : Nat} : ∀ (us : List Nat) (Xs : List Nat) (Y : Side),
    SInvX Xs Y → Ctx X Y d → us.Nodup → (∀ u ∈ us, u ∈ Xs) →
    ∃ Y' : Side, connectAll k us Y = (Y', none) ∧ Ctx X Y' d
  | [], _, Y, _, ctx, _, _ => ⟨Y, rfl, ctx⟩
  | u :: us, Xs, Y, h, ctx, hnd, hsub => by
    have hnd' : u ∉ us ∧ us.Nodup := by simpa using hnd
    obtain ⟨Y1, hs1, h1, ctx1⟩ := connectSC_link h ctx u (hsub u (by simp)) k
    have hsub1 : ∀ v ∈ us, v ∈ Xs.filter (fun v => v != u) := by
      intro v hv
      have hne : v ≠ u := fun hh => hnd'.1 (hh ▸ hv)
      simp [hsub v (by simp [hv]), hne]
    obtain ⟨Y', hs', ctx'⟩ := connectAll_link k us _ Y1 h1 ctx1 hnd'.2 hsub1
    exact ⟨Y', by simp only [connectAll, hs1, andThen_none]; exact hs', ctx'⟩

theorem regStart_sinvx {s : Side} (h : SInv s) (name : String) (k : PKind) (us : List Nat)
    (hsome : ∀ us', lookup name s.pendingOpens = some us' → us = us')
    (hnone : lookup name s.pendingOpens = none → us = []) : SInvX us (regStart name k s) ∧ us.Nodup := by
  have hmem : ∀ u ∈ us, lookup name s.pendingOpens = some us := by
    intro u hu
    cases hl : lookup name s.pendingOpens with
    | none => rw [hnone hl] at hu; simp at hu
    | some us' => rw [hsome us' hl]
  have hnd : us.Nodup := by
    cases hl : lookup name s.pendingOpens with
    | none => rw [hnone hl]; simp
    | some us' => rw [hsome us' hl]; exact (h.pendOK name us' hl).2.1
  refine ⟨?_, hnd⟩
  refine ⟨⟨h.wf.bound, h.wf.uniq⟩, h.openKeys, h.openOK,
    keys_nodup_of_sublist (eraseKey_sublist _ _) h.pendKeys, ?_, h.unconn, ?_, ?_, h.built, h.buildOnce⟩
  · intro name' us' hl
    have hne : name' ≠ name := by
      intro heq; subst heq
      have hl0 : lookup name' (eraseKey name' s.pendingOpens) = none := lookup_eraseKey_self name' _ h.pendKeys
      have hl1 : lookup name' (eraseKey name' s.pendingOpens) = some us' := hl
      rw [hl0] at hl1; cases hl1
    have hl' : lookup name' s.pendingOpens = some us' := by
      have hl0 : lookup name' (eraseKey name s.pendingOpens) = some us' := hl
      rw [lookup_eraseKey_ne _ _ hne] at hl0; exact hl0
    obtain ⟨g1, g2, g3⟩ := h.pendOK name' us' hl'
    refine ⟨?_, g2, ?_⟩
    · show lookup name' (s.factories ++ [(name, k)]) = none
      rw [lookup_append_none _ _ _ g1]
      have : ¬ name = name' := fun hh => hne hh.symm
      simp [lookup, this]
    · intro u hu
      obtain ⟨_, c, hc, hn, hp, hlk⟩ := g3 u hu
      refine ⟨?_, c, hc, hn, hp, hlk⟩
      intro hux
      obtain ⟨_, _, g3'⟩ := h.pendOK name us (hmem u hux)
      obtain ⟨_, c2, hc2, hn2, _⟩ := g3' u hux
      rw [hc] at hc2; cases hc2
      exact hne (hn.symm.trans hn2)
  · intro u c hu hp
    rcases h.fate u c hu hp with g | g | g
    · simp at g
    · by_cases hcn : c.name = name
      · left
        obtain ⟨us', hl', hm⟩ := mem_pendingFor g
        rw [hcn] at hl'
        rw [hsome us' hl']; exact hm
      · right; left
        show u ∈ pendingFor c.name (eraseKey name s.pendingOpens)
        unfold pendingFor at g ⊢
        rw [lookup_eraseKey_ne _ _ hcn]; exact g
    · exact Or.inr (Or.inr g)
  · intro u hu
    obtain ⟨_, _, g3⟩ := h.pendOK name us (hmem u hu)
    obtain ⟨_, c, hc, _, hp, hlk⟩ := g3 u hu
    exact ⟨c, hc, hp, hlk⟩

theorem listen_step {X Y : Side} {d : Nat} (hs : SInv Y) (ctx : Ctx X Y d) (name : String) (k : PKind) :
    Snd (register name k Y).1 X ∧ Rcv X (register name k Y).1 d := by
  unfold register
  split
  · exact ⟨ctx.snd, ctx.rcv⟩
  · have key : ∀ us : List Nat, (∀ us', lookup name Y.pendingOpens = some us' → us = us') →
        (lookup name Y.pendingOpens = none → us = []) →
        Snd (connectAll k us (regStart name k Y)).1 X ∧ Rcv X (connectAll k us (regStart name k Y)).1 d := by
      intro us hsome hnone
      obtain ⟨h0, hnd⟩ := regStart_sinvx hs name k us hsome hnone
      have sn : Snd (regStart name k Y) X :=
        Snd_quiet ctx.snd [] (by simp [regStart]) rfl rfl rfl rfl rfl (Nat.le_refl _)
      have rc : Rcv X (regStart name k Y) d :=
        Rcv_quiet ctx.rcv [] (by simp [regStart]) (fun _ => rfl) rfl rfl rfl ctx.rcv.le1 ctx.rcv.le2 ctx.rcv.parked rfl
      have ctxR : Ctx X (regStart name k Y) d :=
        Ctx.of_sinvx h0 sn rc (Snd_mono_right ctx.sndX (fun e he => he)) ctx.idsX (IdsOK_frame rfl rfl rfl ctx.idsY) ctx.roles
      obtain ⟨Y', hY', ctx'⟩ := connectAll_link k us us _ h0 ctxR hnd (fun _ hu => hu)
      rw [hY']; exact ⟨ctx'.snd, ctx'.rcv⟩
    simp only []
    cases hl : lookup name Y.pendingOpens with
    | none => exact key [] (fun us' h' => by rw [hl] at h'; cases h') (fun _ => rfl)
    | some us => exact key us (fun us' h' => by rw [hl] at h'; exact Option.some.inj h') (fun h' => by rw [hl] at h'; cases h')

/-! ## the next record of the peer is processed -/

/-- the state a handler runs on: watermark moved to `q`, the ack (if any) logged -/
def bumped (Y : Side) (q : Nat) (al : List Eff) : Side := { Y with log := Y.log ++ al, highestAcked := some q }

theorem proc_bumped (Y : Side) (q : Nat) (al : List Eff) : proc (bumped Y q al) = q + 1 := rfl

theorem sinv_bumped {Y : Side} (hs : SInv Y) (q : Nat) (al : List Eff) (hal : al = [] ∨ al = [.ack q]) :
    SInv (bumped Y q al) := by
  refine sinv_quiet hs rfl rfl rfl rfl rfl rfl al rfl ?_
  intro p; rcases hal with rfl | rfl <;> rfl

theorem itemOn_open (σ' q σ : Nat) (nm : String) : itemOn σ' (Eff.txOpen q σ nm) = [] := rfl

/-- `handle_open` refuses an OPEN (`expected_subprotocols` is declared and excludes the name): the
    SubChannel object is created, CLOSE goes out on its id at once, and the object is registered
    nowhere — it never gets a protocol and is not `live`, so the per-object clauses do not concern it -/
theorem refuse_step {X Y Y' : Side} {d d' : Nat} (ctx : Ctx X Y d) (σ : Nat) (name : String) (al : List Eff)
    (hsubs : Y'.subs = Y.subs ++ [SC.new σ name]) (hopen : Y'.open_ = Y.open_)
    (hlog : Y'.log = Y.log ++ al ++ [.txClose Y.nextSeq σ]) (hrd : ∀ q, rdItems q al = []) (htx : ∀ q, txItems q al = [])
    (hseq0 : al.filterMap txSeq = []) (hns : Y'.nextSeq = Y.nextSeq + 1)
    (hexp : Y'.expected = Y.expected) (hpc : Y'.protoCount = Y.protoCount)
    (hle1 : proc Y' ≤ d') (hle2 : d' ≤ X.nextSeq)
    (hpark : Y'.parked.filter (fun r => decide (proc Y' ≤ r.seq)) = ((wireR X.log).drop (proc Y')).take (d' - proc Y'))
    (hsentO : ∀ σ', σ' ≠ σ → sentTo σ' (proc Y') X.log = sentTo σ' (proc Y) X.log)
    (hσX : σ ∈ openIds X.log)
    (horg : ∃ q nm, q < proc Y' ∧ Eff.txOpen q σ nm ∈ X.log) (hpm : proc Y ≤ proc Y')
    (hnew : lookup σ Y.open_ = none)
    (hnoSC : ∀ (u : Nat) (c2 : SC), Y.subs[u]? = some c2 → c2.scid ≠ σ) :
    Snd Y' X ∧ Rcv X Y' d' := by
  have hlog' : Y'.log = Y.log ++ (al ++ [.txClose Y.nextSeq σ]) := by rw [hlog, List.append_assoc]
  have hget : ∀ u : Nat, Y'.subs[u]? =
      if u < Y.subs.length then Y.subs[u]? else if u = Y.subs.length then some (SC.new σ name) else none := by
    intro u; rw [hsubs]; exact getElem?_push _ _ u
  have hself : Y'.subs[Y.subs.length]? = some (SC.new σ name) := by rw [hget]; simp
  have hnone : Y.subs[Y.subs.length]? = none := List.getElem?_eq_none (Nat.le_refl _)
  have hoth : ∀ u : Nat, u ≠ Y.subs.length → Y'.subs[u]? = Y.subs[u]? := by
    intro u hu
    rw [hget]
    by_cases h : u < Y.subs.length
    · simp [h]
    · simp [h, hu]
  have hliveO : ∀ (u : Nat) (c2 : SC), u ≠ Y.subs.length → Y.subs[u]? = some c2 → (live Y' u c2 ↔ live Y u c2) := by
    intro u c2 _ _
    unfold live
    rw [hopen]
  have hnotlive : ¬ live Y' Y.subs.length (SC.new σ name) := by
    unfold live
    rintro (h | h)
    · exact h rfl
    · rw [hopen] at h
      have : (SC.new σ name).scid = σ := rfl
      rw [this, hnew] at h; cases h
  have hnotx : txItems σ Y.log = [] := by
    cases hx : txItems σ Y.log with
    | nil => rfl
    | cons a r =>
      obtain ⟨u, c0, hu, hsc⟩ := ctx.snd.ts σ (by rw [hx]; simp)
      exact absurd hsc (hnoSC u c0 hu)
  have htxl : ∀ σ', txItems σ' (al ++ [Eff.txClose Y.nextSeq σ]) = if σ = σ' then [Item.close] else [] := by
    intro σ'
    rw [txItems_append, htx]
    by_cases hσ : σ = σ' <;> simp [txItems, txItem, List.filterMap_cons, hσ]
  have hrdl : ∀ p, rdItems p (al ++ [Eff.txClose Y.nextSeq σ]) = [] := by
    intro p; rw [rdItems_append, hrd]; rfl
  constructor
  · refine snd_update ctx.snd Y.subs.length (SC.new σ name) _ hlog' ?_ (by omega) ?_ ?_ (fun _ => Or.inr hσX) hoth hself hliveO
      (fun _ u c2 _ hc2 _ => hnoSC u c2 hc2) (fun hl => absurd hl hnotlive) (Or.inr horg) hpm hexp
      (fun c0 hc0 => by rw [hnone] at hc0; cases hc0)
    · rw [List.filterMap_append, hseq0, hns]
      have : Y.nextSeq + 1 - Y.nextSeq = 1 := by omega
      rw [this]; rfl
    · intro σ' hσ'
      rw [htxl, if_neg (fun h => hσ' h.symm)]
    · intro _
      constructor
      · show Item.close ∉ txItems σ Y.log
        rw [hnotx]; simp
      · show closeLast (txItems σ (al ++ [Eff.txClose Y.nextSeq σ]))
        rw [htxl, if_pos rfl]
        intro pre post heq
        cases pre with
        | nil => simp at heq; exact heq
        | cons x xs => cases xs <;> simp at heq
  · refine rcv_update ctx.rcv Y.subs.length (SC.new σ name) _ hlog' (fun _ _ _ _ _ _ _ => hrdl _) hoth hself hliveO
      (fun _ _ _ _ _ => by rw [hopen]) hle1 hle2 hpark (fun u c2 _ hc2 _ => hsentO _ (hnoSC u c2 hc2))
      (fun hl => absurd hl hnotlive) (fun hl => absurd hl hnotlive) ?_ ?_ ?_ ?_ (by omega) (fun p _ => hrdl p)
    · intro x hx; cases hx
    · intro p k hx; cases hx
    · intro x hx; cases hx
    · intro p k hx; cases hx

theorem rx_open_step {X Y : Side} {d d' : Nat} (hs : SInv Y) (ctx : Ctx X Y d) (q σ : Nat) (nm : String) (al : List Eff)
    (he : Eff.txOpen q σ nm ∈ X.log) (hproc : proc Y = q) (hal : al = [] ∨ al = [.ack q])
    (hd1 : q + 1 ≤ d') (hd2 : d' ≤ X.nextSeq)
    (hpark : Y.parked.filter (fun r => decide (q + 1 ≤ r.seq)) = ((wireR X.log).drop (q + 1)).take (d' - (q + 1))) :
    Snd (handleOpen σ nm (bumped Y q al)).1 X ∧ Rcv X (handleOpen σ nm (bumped Y q al)).1 d' ∧
    (handleOpen σ nm (bumped Y q al)).1.parked = Y.parked ∧ (handleOpen σ nm (bumped Y q al)).1.highestAcked = some q := by
  have hσX : σ ∈ openIds X.log := (mem_openIds σ _).mpr ⟨q, nm, he⟩
  have hσY : σ ∉ openIds Y.log := fun h => ids_disjoint_logs ctx.idsX ctx.idsY ctx.roles σ hσX h
  have hnoSC : ∀ (u : Nat) (c2 : SC), Y.subs[u]? = some c2 → c2.scid ≠ σ := by
    intro u c2 hc2 hsc
    rcases ctx.snd.org u c2 hc2 with g | ⟨q0, nm0, hq0, g⟩
    · rw [hsc] at g; exact hσY g
    · rw [hsc] at g
      exact two_opens_false ctx.sndX ctx.idsX g he (by omega)
  have hnew : lookup σ Y.open_ = none := by
    cases hl : lookup σ Y.open_ with
    | none => rfl
    | some u =>
      obtain ⟨c2, hc2, hsc⟩ := ctx.openOK _ _ hl
      exact absurd hsc (hnoSC u c2 hc2)
  have halq : al.filterMap txSeq = [] := by rcases hal with rfl | rfl <;> rfl
  have halr : ∀ p, rdItems p al = [] := by intro p; rcases hal with rfl | rfl <;> rfl
  have halt : ∀ p, txItems p al = [] := by intro p; rcases hal with rfl | rfl <;> rfl
  -- nothing was sent on σ before its OPEN
  have hsent0 : sentTo σ (q + 1) X.log = [] := by
    rw [sentTo_succ ctx.sndX.seq he rfl σ, itemOn_open, List.append_nil]
    unfold sentTo
    apply List.filterMap_eq_nil_iff.mpr
    intro e' he'
    cases hit : txItemBelow σ q e' with
    | none => rfl
    | some it =>
      exfalso
      cases e' <;> simp [txItemBelow] at hit
      case txData q' c dd =>
        obtain ⟨⟨rfl, hlt⟩, _⟩ := hit
        exact no_item_before_open ctx.sndX ctx.idsX he he' (it := .data dd) (by simp [txItem]) rfl (by omega) hσY
      case txClose q' c =>
        obtain ⟨⟨rfl, hlt⟩, _⟩ := hit
        exact no_item_before_open ctx.sndX ctx.idsX he he' (it := .close) (by simp [txItem]) rfl (by omega) hσY
  have hsentO : ∀ σ', σ' ≠ σ → sentTo σ' (proc (bumped Y q al) ) X.log = sentTo σ' (proc Y) X.log := by
    intro σ' _
    rw [proc_bumped, hproc, sentTo_succ ctx.sndX.seq he rfl σ', itemOn_open, List.append_nil]
  have hs1 : SInv (bumped Y q al) := sinv_bumped hs q al hal
  -- the registered, unconnected object
  have hpush := push_step (Y' := pushOpen σ nm (bumped Y q al)) (d' := d') ctx σ nm al rfl rfl rfl halr halt
    (by rw [halq]; show [] = List.range' Y.nextSeq (Y.nextSeq - Y.nextSeq); simp) (Nat.le_refl _) rfl rfl
    (by show q + 1 ≤ d'; exact hd1) hd2 (by exact hpark) hsent0 hsentO
    (Or.inr ⟨q, nm, by show q < q + 1; omega, he⟩) (by rw [hproc]; show q ≤ q + 1; omega)
    hnoSC
  obtain ⟨sP, rP⟩ := hpush
  have hnew1 : lookup σ (bumped Y q al).open_ = none := hnew
  have h1x := pushOpen_sinv hs1 σ nm hnew1
  have ctxP : Ctx X (pushOpen σ nm (bumped Y q al)) d' :=
    Ctx.of_sinvx h1x sP rP (Snd_mono_right ctx.sndX (fun e he => List.mem_append_left _ he)) ctx.idsX
      (IdsOK_frame (s := Y) rfl rfl (by show openIds (Y.log ++ al) = _; rw [openIds_append]; rcases hal with rfl | rfl <;> simp [openIds]) ctx.idsY)
      ctx.roles
  cases hfac : lookup nm Y.factories with
  | some k =>
    obtain ⟨Y', hY', _, ctx'⟩ := connectSC_link h1x ctxP Y.subs.length (List.mem_singleton.mpr rfl) k
    have hgo : gotOpen (bumped Y q al).subs.length nm (pushOpen σ nm (bumped Y q al)) = (Y', none) := by
      unfold gotOpen
      have : (pushOpen σ nm (bumped Y q al)).factories = Y.factories := rfl
      rw [this, hfac]; exact hY'
    rw [handleOpen_of_gotOpen_ok (bumped Y q al) Y' σ nm hnew1 hgo]
    refine ⟨ctx'.snd, ctx'.rcv, ?_⟩
    -- connectSC leaves `parked` alone
    obtain ⟨c, hc, hp, hl⟩ := h1x.inflight Y.subs.length (List.mem_singleton.mpr rfl)
    obtain ⟨hst, hpd⟩ := h1x.unconn _ c hc hp
    cases hd : c.pendingData with
    | none => rw [hd] at hpd; cases hpd
    | some ds =>
      obtain ⟨Y2, hY2, r⟩ := connectSC_spec _ _ c k ds c.pendingClose hc hst hp hd rfl (fun _ _ => hl)
      rw [hY'] at hY2
      cases hY2
      exact ⟨r.same.parked, r.same.highestAcked⟩
  | none =>
    have hfac1 : lookup nm (pushOpen σ nm (bumped Y q al)).factories = none := hfac
    have hexp1 : (pushOpen σ nm (bumped Y q al)).expected = Y.expected := rfl
    by_cases hall : ∀ ex, wired Y.expected = some ex → ex.contains nm = true
    · -- no declared set, or the name is in it: held pending
      have hgo : gotOpen (bumped Y q al).subs.length nm (pushOpen σ nm (bumped Y q al)) =
          ({ pushOpen σ nm (bumped Y q al) with
              pendingOpens := appendAt nm (bumped Y q al).subs.length (pushOpen σ nm (bumped Y q al)).pendingOpens }, none) := by
        unfold gotOpen
        rw [hfac1]
        simp only [Side.demuxExpected]
        rw [hexp1]
        cases hw : wired Y.expected with
        | none => rfl
        | some ex => simp only [hall ex hw, if_true]
      rw [handleOpen_of_gotOpen_ok (bumped Y q al) _ σ nm hnew1 hgo]
      exact ⟨Snd_quiet sP [] (by simp) rfl rfl rfl rfl rfl (Nat.le_refl _),
        Rcv_quiet rP [] (by simp) (fun _ => rfl) rfl rfl rfl rP.le1 rP.le2 rP.parked rfl, rfl, rfl⟩
    · -- the application declared a set that excludes the name: refused with CLOSE, dropped
      have hex : ∃ ex, wired Y.expected = some ex ∧ ex.contains nm = false := by
        cases hw : wired Y.expected with
        | none => exact absurd (fun ex hh => by rw [hw] at hh; cases hh) hall
        | some ex =>
          refine ⟨ex, rfl, ?_⟩
          cases hcn : ex.contains nm with
          | false => rfl
          | true => exact absurd (fun ex' hh => by rw [hw] at hh; cases hh; exact hcn) hall
      obtain ⟨ex, hw, hcn⟩ := hex
      have hgo : gotOpen (bumped Y q al).subs.length nm (pushOpen σ nm (bumped Y q al)) =
          (pushOpen σ nm (bumped Y q al), some .unexpectedSubprotocol) := by
        unfold gotOpen
        rw [hfac1]
        simp only [Side.demuxExpected]
        rw [hexp1, hw]
        simp only [hcn, Bool.false_eq_true, if_false]
      rw [handleOpen_refused (bumped Y q al) _ σ nm hnew1 hgo]
      have hlk : (lookup σ (sendRec (fun q' => Eff.txClose q' σ) (pushOpen σ nm (bumped Y q al))).open_).isSome = true :=
        lookup_append_new σ Y.subs.length Y.open_
      simp only [hlk, if_true]
      have hop : eraseKey σ (sendRec (fun q' => Eff.txClose q' σ) (pushOpen σ nm (bumped Y q al))).open_ = Y.open_ :=
        eraseKey_append_new σ Y.subs.length Y.open_ hnew
      obtain ⟨sn, rc⟩ := refuse_step
        (Y' := { sendRec (fun q' => Eff.txClose q' σ) (pushOpen σ nm (bumped Y q al)) with
                 open_ := eraseKey σ (sendRec (fun q' => Eff.txClose q' σ) (pushOpen σ nm (bumped Y q al))).open_ })
        (d' := d') ctx σ nm al rfl hop rfl halr halt halq rfl rfl rfl (by show q + 1 ≤ d'; exact hd1) hd2 (by exact hpark)
        hsentO hσX ⟨q, nm, by show q < q + 1; omega, he⟩ (by rw [hproc]; show q ≤ q + 1; omega) hnew hnoSC
      exact ⟨sn, rc, rfl, rfl⟩

theorem Rcv_quiet' {X Y Y' : Side} {d d' : Nat} (h : Rcv X Y d) (l : List Eff) (hlog : Y'.log = Y.log ++ l)
    (h1 : ∀ p, rdItems p l = []) (hsubs : Y'.subs = Y.subs) (hopen : Y'.open_ = Y.open_)
    (hle1 : proc Y' ≤ d') (hle2 : d' ≤ X.nextSeq)
    (hpark : Y'.parked.filter (fun r => decide (proc Y' ≤ r.seq)) = ((wireR X.log).drop (proc Y')).take (d' - proc Y'))
    (hpc : Y'.protoCount = Y.protoCount)
    (hsent : ∀ (u : Nat) (c : SC), Y.subs[u]? = some c → live Y u c →
      sentTo c.scid (proc Y') X.log = sentTo c.scid (proc Y) X.log) :
    Rcv X Y' d' := by
  have hlive : ∀ u c, live Y' u c ↔ live Y u c := by intro u c; unfold live; rw [hopen]
  refine ⟨hle1, hle2, hpark, ?_, ?_, ?_, ?_, ?_, ?_,
    fun p hp' => by rw [hlog, rdItems_append, h1, List.append_nil]; exact h.fresh p (by rw [← hpc]; exact hp')⟩
  · intro u c hu hl
    rw [hsubs] at hu
    have hl0 := (hlive u c).mp hl
    rw [hsent u c hu hl0, ← h.m u c hu hl0]
    unfold seen
    cases hpr : c.proto with
    | none => rfl
    | some x => obtain ⟨p, k⟩ := x; simp only []; rw [hlog, rdItems_append, h1, List.append_nil]
  · intro u u' c c' hu hu' hl hl'
    rw [hsubs] at hu hu'
    exact h.uniq u u' c c' hu hu' ((hlive u c).mp hl) ((hlive u' c').mp hl')
  · intro u c x hu; rw [hsubs] at hu; rw [hopen]; exact h.regd u c x hu
  · intro u c p k hu hpr hst
    rw [hsubs] at hu
    rw [hlog, rdItems_append]; exact List.mem_append_left _ (h.clsd u c p k hu hpr hst)
  · intro u c x hu; rw [hsubs] at hu; exact h.conn u c x hu
  · intro u c p k hu; rw [hsubs] at hu; exact h.kind u c p k hu

/-- after the peer's CLOSE for `σ` was processed nothing more can arrive on `σ` -/
theorem closed_no_more {X Y : Side} (h : Snd X Y) {σ q : Nat} {e : Eff} {it : Item}
    (hcl : Item.close ∈ sentTo σ q X.log) (he : e ∈ X.log) (hit : txItem σ e = some it) (hq : txSeq e = some q) : False := by
  obtain ⟨q1, hlt, hc⟩ := mem_sentTo_close hcl
  exact no_item_after_close h hc he hit hq hlt

theorem handleClose_queued (s : Side) (scid uid : Nat) (c : SC)
    (hl : lookup scid s.open_ = some uid) (hc : s.subs[uid]? = some c) (hst : c.st = .unconnected) :
    ∃ s' : Side, handleClose scid s = (s', none) ∧ s'.log = s.log ∧ s'.open_ = s.open_ ∧
      s'.subs[uid]? = some { c with pendingClose := true } ∧ (∀ u : Nat, u ≠ uid → s'.subs[u]? = s.subs[u]?) ∧
      Same s s' ∧ s'.nextSeq = s.nextSeq ∧ s'.protoCount = s.protoCount := by
  have ht : SubChannel.table c.st .remote_close = some (.unconnected, [.queue_remote_close]) := by rw [hst]; rfl
  have hc1 : (updSC uid (fun c0 => { c0 with st := .unconnected }) s).subs[uid]? = some { c with st := .unconnected } := by
    simp [updSC, getElem?_modifyAt, hc]
  have hstep : scInput uid .remote_close [] s =
      (updSC uid (fun c0 => { c0 with pendingClose := true }) (updSC uid (fun c0 => { c0 with st := .unconnected }) s), none) := by
    rw [scInput_eq_row [] hc ht]
    simp only [runOuts]
    have : runOut uid [] .queue_remote_close (updSC uid (fun c0 => { c0 with st := .unconnected }) s) =
        (updSC uid (fun c0 => { c0 with pendingClose := true }) (updSC uid (fun c0 => { c0 with st := .unconnected }) s), none) := by
      unfold runOut; rw [hc1]
    rw [this]; rfl
  refine ⟨updSC uid (fun c0 => { c0 with pendingClose := true }) (updSC uid (fun c0 => { c0 with st := .unconnected }) s),
    by unfold handleClose; rw [hl]; exact hstep, rfl, rfl, ?_, ?_, ⟨rfl, rfl, rfl, rfl, rfl, rfl, rfl⟩, rfl, rfl⟩
  · simp [updSC, getElem?_modifyAt, hc, ← hst]
  · intro u hu; simp [updSC, getElem?_modifyAt, hu]

/-- a DATA or CLOSE record (the peer's record number `q`, the next one) is handled -/
theorem rx_item_step {X Y : Side} {d d' : Nat} (ctx : Ctx X Y d) (q σ : Nat) (al : List Eff) (e : Eff) (it : Item)
    (i : SubChannel.Input) (arg : Bytes) (handler : Side → Res) (cls : String)
    (he : e ∈ X.log) (hit : txItem σ e = some it) (hq : txSeq e = some q)
    (hproc : proc Y = q) (hal : al = [] ∨ al = [.ack q]) (hd1 : q + 1 ≤ d') (hd2 : d' ≤ X.nextSeq)
    (hpark : Y.parked.filter (fun r => decide (q + 1 ≤ r.seq)) = ((wireR X.log).drop (q + 1)).take (d' - (q + 1)))
    (hic : isConnect i = false)
    (Hmissing : lookup σ Y.open_ = none → handler (bumped Y q al) = (emit (.logErr cls) (bumped Y q al), none))
    (Hqueued : ∀ (uid : Nat) (c : SC), lookup σ Y.open_ = some uid → Y.subs[uid]? = some c → c.proto = none →
      c.st = .unconnected → c.pendingClose = false →
      ∃ f : SC → SC, handler (bumped Y q al) = (updSC uid f (bumped Y q al), none) ∧
        (f c).proto = none ∧ (f c).scid = c.scid ∧ (f c).st = c.st ∧ queued (f c) = queued c ++ [it])
    (Hconn : ∀ (uid : Nat) (c : SC) (x : Nat × PKind), lookup σ Y.open_ = some uid → Y.subs[uid]? = some c →
      c.proto = some x → handler (bumped Y q al) = scInput uid i arg (bumped Y q al))
    (Hrow : ∀ st, reading st = true → ∃ st' outs, SubChannel.table st i = some (st', outs) ∧
      outs.filterMap (rdOf arg) = [it] ∧
      (∀ k, ((st = .open_half ∨ st = .write_closed) → k = PKind.half) → outsSafe k true outs = true)) :
    Snd (handler (bumped Y q al)).1 X ∧ Rcv X (handler (bumped Y q al)).1 d' ∧
    (handler (bumped Y q al)).1.parked = Y.parked ∧ (handler (bumped Y q al)).1.highestAcked = some q := by
  have halq : al.filterMap txSeq = [] := by rcases hal with rfl | rfl <;> rfl
  have halr : ∀ p, rdItems p al = [] := by intro p; rcases hal with rfl | rfl <;> rfl
  have halo : openIds al = [] := by rcases hal with rfl | rfl <;> rfl
  have hsucc : ∀ σ', sentTo σ' (q + 1) X.log = sentTo σ' q X.log ++ itemOn σ' e := fun σ' => sentTo_succ ctx.sndX.seq he hq σ'
  have hitem : itemOn σ e = [it] := by simp [itemOn, hit]
  have hother : ∀ σ', σ' ≠ σ → itemOn σ' e = [] := by
    intro σ' hne
    unfold itemOn
    cases e
    case txData q0 c0 d0 =>
      simp [txItem] at hit ⊢
      have : ¬ c0 = σ' := fun h => hne (h.symm.trans hit.1)
      simp [this]
    case txClose q0 c0 =>
      simp [txItem] at hit ⊢
      have : ¬ c0 = σ' := fun h => hne (h.symm.trans hit.1)
      simp [this]
    all_goals simp [txItem] at hit
  -- a live object for σ whose reader is already closed cannot exist: the peer sent this record after its CLOSE
  have hnotclosed : ∀ (u : Nat) (c : SC), Y.subs[u]? = some c → live Y u c → c.scid = σ → Item.close ∉ seen c Y.log := by
    intro u c hc hl hsc hcl
    rw [ctx.rcv.m u c hc hl, hsc, hproc] at hcl
    exact closed_no_more ctx.sndX hcl he hit hq
  cases hlk : lookup σ Y.open_ with
  | none =>
    rw [Hmissing hlk]
    have hnoLive : ∀ (u : Nat) (c : SC), Y.subs[u]? = some c → live Y u c → c.scid ≠ σ := by
      intro u c hc hl hsc
      rcases hl with hp | hreg
      · -- connected and not registered: closed
        cases hpr : c.proto with
        | none => exact hp hpr
        | some x =>
          obtain ⟨p, k⟩ := x
          by_cases hst : c.st = .closed
          · have := ctx.rcv.clsd u c p k hc hpr (Or.inl hst)
            exact hnotclosed u c hc (Or.inl hp) hsc (by unfold seen; simp only [hpr]; exact this)
          · have := ctx.rcv.regd u c (p, k) hc hpr hst
            rw [hsc, hlk] at this; cases this
      · rw [hsc, hlk] at hreg; cases hreg
    refine ⟨Snd_quiet ctx.snd (al ++ [.logErr cls]) (by simp [emit, bumped]) (by simp [halq, txSeq]) rfl rfl rfl rfl
        (by rw [hproc]; show q ≤ q + 1; omega),
      Rcv_quiet' ctx.rcv (al ++ [.logErr cls]) (by simp [emit, bumped]) (fun p => by rw [rdItems_append, halr]; rfl) rfl rfl
        (by show q + 1 ≤ d'; exact hd1) hd2 hpark rfl ?_, rfl, rfl⟩
    intro u c hc hl
    show sentTo c.scid (q + 1) X.log = _
    rw [hsucc, hother _ (hnoLive u c hc hl), List.append_nil, hproc]
  | some uid =>
    obtain ⟨c, hc, hsc⟩ := ctx.openOK σ uid hlk
    have hlive : live Y uid c := Or.inr (by rw [hsc]; exact hlk)
    have hdist : ∀ (u : Nat) (c2 : SC), u ≠ uid → Y.subs[u]? = some c2 → live Y u c2 → c2.scid ≠ σ :=
      fun u c2 hu hc2 hl2 hsc2 => hu (ctx.rcv.uniq u uid c2 c hc2 hc hl2 hlive (hsc2.trans hsc.symm))
    cases hpr : c.proto with
    | none =>
      obtain ⟨hst, hpd⟩ := ctx.unconn uid c hc hpr
      have hpcl : c.pendingClose = false := by
        cases hb : c.pendingClose with
        | false => rfl
        | true =>
          exfalso
          apply hnotclosed uid c hc hlive hsc
          unfold seen queued; simp [hpr, hb]
      obtain ⟨f, hf, f1, f2, f3, f4⟩ := Hqueued uid c hlk hc hpr hst hpcl
      rw [hf]
      have hself : (updSC uid f (bumped Y q al)).subs[uid]? = some (f c) := by
        simp [updSC, bumped, getElem?_modifyAt, hc]
      have hoth : ∀ u : Nat, u ≠ uid → (updSC uid f (bumped Y q al)).subs[u]? = Y.subs[u]? := by
        intro u hu; simp [updSC, bumped, getElem?_modifyAt, hu]
      have hliveO : ∀ (u : Nat) (c2 : SC), u ≠ uid → Y.subs[u]? = some c2 →
          (live (updSC uid f (bumped Y q al)) u c2 ↔ live Y u c2) := fun _ _ _ _ => Iff.rfl
      refine ⟨?_, ?_, rfl, rfl⟩
      · refine snd_update ctx.snd uid (f c) al rfl (by rw [halq]; show [] = List.range' Y.nextSeq (Y.nextSeq - Y.nextSeq); simp)
          (Nat.le_refl _) ?_ ?_ ?_ hoth hself hliveO ?_ ?_ ?_ (by rw [hproc]; show q ≤ q + 1; omega) rfl ?_
        · intro σ' _; rcases hal with rfl | rfl <;> rfl
        · intro hne; exfalso; apply hne; rcases hal with rfl | rfl <;> rfl
        · intro hne; exfalso; apply hne; rcases hal with rfl | rfl <;> rfl
        · intro hne; exfalso; apply hne; rcases hal with rfl | rfl <;> rfl
        · intro _ hcl
          rw [f3]
          refine ctx.snd.a7 uid c hc hlive ?_
          have : (updSC uid f (bumped Y q al)).log = Y.log ++ al := rfl
          rw [this, txItems_append, f2] at hcl
          have hnil : txItems c.scid al = [] := by rcases hal with rfl | rfl <;> rfl
          rw [hnil, List.append_nil] at hcl; exact hcl
        · rw [f2]
          rcases ctx.snd.org uid c hc with g | ⟨q0, nm, hq0, g⟩
          · left; show c.scid ∈ openIds (Y.log ++ al); rw [openIds_append]; exact List.mem_append_left _ g
          · exact Or.inr ⟨q0, nm, by show q0 < q + 1; omega, g⟩
        · intro c0 hc0; rw [hc] at hc0; cases hc0; exact f2.symm
      · refine rcv_update ctx.rcv uid (f c) al rfl (fun _ _ _ _ _ _ _ => halr _) hoth hself hliveO (fun _ _ _ _ _ => rfl)
          (by show q + 1 ≤ d'; exact hd1) hd2 hpark ?_ ?_ ?_ ?_ ?_ ?_ ?_ (Nat.le_refl _) (fun p _ => halr p)
        · intro u c2 hu hc2 hl2
          show sentTo c2.scid (q + 1) X.log = _
          rw [hsucc, hother _ (hdist u c2 hu hc2 hl2), List.append_nil, hproc]
        · intro _
          show seen (f c) _ = sentTo (f c).scid (q + 1) X.log
          have hm0 := ctx.rcv.m uid c hc hlive
          unfold seen at hm0 ⊢
          simp only [hpr, f1] at hm0 ⊢
          rw [f4, hm0, f2, hsc, hsucc, hitem, hproc]
        · intro _ u c2 hu hc2 hl2; rw [f2, hsc]; exact hdist u c2 hu hc2 hl2
        · intro x hx; rw [f1] at hx; cases hx
        · intro p k hx; rw [f1] at hx; cases hx
        · intro x hx; rw [f1] at hx; cases hx
        · intro p k hx; rw [f1] at hx; cases hx
    | some x =>
      obtain ⟨p, k⟩ := x
      rw [Hconn uid c (p, k) hlk hc hpr]
      have hrd : reading c.st = true := by
        cases hst : c.st <;> simp [reading]
        · -- closed
          exact hnotclosed uid c hc hlive hsc (by unfold seen; simp only [hpr]; exact ctx.rcv.clsd uid c p k hc hpr (Or.inl hst))
        · -- read_closed
          exact hnotclosed uid c hc hlive hsc (by unfold seen; simp only [hpr]; exact ctx.rcv.clsd uid c p k hc hpr (Or.inr hst))
        · exact ctx.rcv.conn uid c (p, k) hc hpr hst
      obtain ⟨st', outs, ht, hrdo, hsafe⟩ := Hrow c.st hrd
      have hk := ctx.rcv.kind uid c p k hc hpr
      have hc1 : (bumped Y q al).subs[uid]? = some c := hc
      have hreg1 : lookup c.scid (bumped Y q al).open_ = some uid := by rw [hsc]; exact hlk
      have hs : outsSafe k (lookup c.scid (bumped Y q al).open_ == some uid) outs = true := by
        rw [hreg1]; simp
        exact hsafe k (fun h => hk.2 (by rcases h with h | h <;> simp [h]))
      obtain ⟨Y', hY', hl, hn, hsb, hop, hsm, hpcs, hpk⟩ := scInput_exact uid i arg (bumped Y q al) c p k st' outs hc1 hpr ht hs
      rw [hY']
      have row := rowOK_of_table arg ht hic
      have hproc' : proc Y' = q + 1 := by unfold proc; rw [hsm.highestAcked]; rfl
      obtain ⟨sn, rc⟩ := row_step (Y1 := bumped Y q al) (d' := d') ctx uid c p k arg st' outs al hc hpr row rfl rfl rfl rfl halq halr rfl halo
        hl hn hsb hop (fun _ => by rw [hsc]; exact hlk) hsm.expected hpcs (by rw [hproc']; exact hd1) hd2
        (by rw [hproc', hproc]; omega) (by rw [hproc', hpk]; exact hpark)
        (fun σ' hne => by rw [hproc', hsucc, hother σ' (by rw [← hsc]; exact hne), List.append_nil, hproc])
        (by rw [hproc', hsc, hsucc, hitem, hrdo, hproc])
      exact ⟨sn, rc, hpk, hsm.highestAcked⟩

theorem modifyAt_comp {α : Type} (f g : α → α) : ∀ (n : Nat) (l : List α),
    modifyAt g n (modifyAt f n l) = modifyAt (fun x => g (f x)) n l
  | _, [] => by simp [modifyAt]
  | 0, x :: r => by simp [modifyAt]
  | n + 1, x :: r => by simp [modifyAt, modifyAt_comp f g n r]

theorem updSC_comp (uid : Nat) (f g : SC → SC) (s : Side) : updSC uid g (updSC uid f s) = updSC uid (fun c => g (f c)) s := by
  unfold updSC
  simp [modifyAt_comp]

theorem rx_new_step {X Y : Side} {d d' : Nat} (hs : SInv Y) (ctx : Ctx X Y d) (r : Rx) (e : Eff) (q : Nat) (al : List Eff)
    (he : e ∈ X.log) (hr : wireRx e = some r) (hq : r.seq = q) (hproc : proc Y = q) (hal : al = [] ∨ al = [.ack q])
    (hd1 : q + 1 ≤ d') (hd2 : d' ≤ X.nextSeq)
    (hpark : Y.parked.filter (fun r => decide (q + 1 ≤ r.seq)) = ((wireR X.log).drop (q + 1)).take (d' - (q + 1))) :
    Snd (r.handler (bumped Y q al)).1 X ∧ Rcv X (r.handler (bumped Y q al)).1 d' ∧
    (r.handler (bumped Y q al)).1.parked = Y.parked ∧ (r.handler (bumped Y q al)).1.highestAcked = some q := by
  cases e <;> simp [wireRx] at hr
  case txOpen q0 σ nm =>
    subst hr
    have : q0 = q := hq
    subst this
    exact rx_open_step hs ctx q0 σ nm al he hproc hal hd1 hd2 hpark
  case txData q0 σ dd =>
    subst hr
    have : q0 = q := hq
    subst this
    refine rx_item_step ctx q0 σ al _ (.data dd) .remote_data dd (handleData σ dd) "DataForMissingSubchannelError"
      he (by simp [txItem]) rfl hproc hal hd1 hd2 hpark rfl ?_ ?_ ?_ ?_
    · intro hlk
      unfold handleData
      have : lookup σ (bumped Y q0 al).open_ = none := hlk
      rw [this]
    · intro uid c hlk hc hp hst hpcl
      obtain ⟨hst', hpd⟩ := ctx.unconn uid c hc hp
      cases hd : c.pendingData with
      | none => rw [hd] at hpd; cases hpd
      | some l =>
        refine ⟨fun c0 => { ({ c0 with st := .unconnected } : SC) with pendingData := some (l ++ [dd]) }, ?_, hp, rfl, hst.symm, ?_⟩
        · obtain ⟨s', hs', _⟩ := handleData_queued (bumped Y q0 al) σ uid dd c l hlk hc hst hd
          -- the explicit state
          have ht : SubChannel.table c.st .remote_data = some (.unconnected, [.queue_remote_data]) := by rw [hst]; rfl
          have hc1 : (updSC uid (fun c0 => { c0 with st := .unconnected }) (bumped Y q0 al)).subs[uid]? =
              some { c with st := .unconnected } := by
            simp [updSC, bumped, getElem?_modifyAt, hc]
          unfold handleData
          have hl1 : lookup σ (bumped Y q0 al).open_ = some uid := hlk
          rw [hl1]
          simp only []
          have hc0 : (bumped Y q0 al).subs[uid]? = some c := hc
          rw [scInput_eq_row dd hc0 ht]
          simp only [runOuts]
          have : runOut uid dd .queue_remote_data (updSC uid (fun c0 => { c0 with st := .unconnected }) (bumped Y q0 al)) =
              (updSC uid (fun c0 => { c0 with pendingData := some (l ++ [dd]) })
                (updSC uid (fun c0 => { c0 with st := .unconnected }) (bumped Y q0 al)), none) := by
            unfold runOut; rw [hc1]; simp only [hd]
          rw [this, andThen_none, updSC_comp]
        · unfold queued; simp [hd, hpcl]
    · intro uid c x hlk hc hp
      unfold handleData
      have hl1 : lookup σ (bumped Y q0 al).open_ = some uid := hlk
      rw [hl1]
    · intro st hrd
      refine ⟨st, [.signal_dataReceived], ?_, by simp [rdOf, List.filterMap_cons], fun k _ => by simp [outsSafe, outSafe]⟩
      cases st <;> simp [reading] at hrd <;> rfl
  case txClose q0 σ =>
    subst hr
    have : q0 = q := hq
    subst this
    refine rx_item_step ctx q0 σ al _ .close .remote_close [] (handleClose σ) "CloseForMissingSubchannelError"
      he (by simp [txItem]) rfl hproc hal hd1 hd2 hpark rfl ?_ ?_ ?_ ?_
    · intro hlk
      unfold handleClose
      have : lookup σ (bumped Y q0 al).open_ = none := hlk
      rw [this]
    · intro uid c hlk hc hp hst hpcl
      refine ⟨fun c0 => { ({ c0 with st := .unconnected } : SC) with pendingClose := true }, ?_, hp, rfl, hst.symm, ?_⟩
      · have ht : SubChannel.table c.st .remote_close = some (.unconnected, [.queue_remote_close]) := by rw [hst]; rfl
        have hc1 : (updSC uid (fun c0 => { c0 with st := .unconnected }) (bumped Y q0 al)).subs[uid]? =
            some { c with st := .unconnected } := by
          simp [updSC, bumped, getElem?_modifyAt, hc]
        unfold handleClose
        have hl1 : lookup σ (bumped Y q0 al).open_ = some uid := hlk
        rw [hl1]
        simp only []
        have hc0 : (bumped Y q0 al).subs[uid]? = some c := hc
        rw [scInput_eq_row [] hc0 ht]
        simp only [runOuts]
        have : runOut uid [] .queue_remote_close (updSC uid (fun c0 => { c0 with st := .unconnected }) (bumped Y q0 al)) =
            (updSC uid (fun c0 => { c0 with pendingClose := true })
              (updSC uid (fun c0 => { c0 with st := .unconnected }) (bumped Y q0 al)), none) := by
          unfold runOut; rw [hc1]
        rw [this, andThen_none, updSC_comp]
      · unfold queued; simp [hpcl]
    · intro uid c x hlk hc hp
      unfold handleClose
      have hl1 : lookup σ (bumped Y q0 al).open_ = some uid := hlk
      rw [hl1]
    · intro st hrd
      cases st <;> simp [reading] at hrd
      · exact ⟨_, _, rfl, by simp [rdOf, List.filterMap_cons], fun k _ => by simp [outsSafe, outSafe]⟩
      · exact ⟨_, _, rfl, by simp [rdOf, List.filterMap_cons], fun k _ => by simp [outsSafe, outSafe]⟩
      · exact ⟨_, _, rfl, by simp [rdOf, List.filterMap_cons], fun k hk => by simp [outsSafe, outSafe, hk]⟩
      · exact ⟨_, _, rfl, by simp [rdOf, List.filterMap_cons], fun k hk => by simp [outsSafe, outSafe, hk]⟩

/-! ## records on the wire: index = seqnum -/

def Rx.toOp : Rx → Op
  | .opn q c n => .rxOpen q c n
  | .data q c d => .rxData q c d
  | .close q c => .rxClose q c

theorem wire_eq_map (log : List Eff) : wire log = (wireR log).map Rx.toOp := by
  induction log with
  | nil => rfl
  | cons e r ih =>
    cases e <;> simp [wire, wireR, wireOp, wireRx, List.filterMap_cons, Rx.toOp] at ih ⊢ <;> exact ih

theorem wireRx_seq {e : Eff} {r : Rx} (h : wireRx e = some r) : txSeq e = some r.seq := by
  cases e <;> simp [wireRx] at h <;> subst h <;> rfl

theorem wireR_index (log : List Eff) (n : Nat) : ∀ (k : Nat) (r : Rx),
    log.filterMap txSeq = List.range' k n → (wireR log)[0]? = some r → r.seq = k ∧ ∃ e ∈ log, wireRx e = some r := by
  induction log generalizing n with
  | nil => intro k r _ h; simp [wireR] at h
  | cons e rest ih =>
    intro k r hs h
    cases hw : wireRx e with
    | some r0 =>
      have : wireR (e :: rest) = r0 :: wireR rest := by simp [wireR, List.filterMap_cons, hw]
      rw [this] at h
      simp at h; subst h
      have hq := wireRx_seq hw
      rw [List.filterMap_cons, hq] at hs
      simp only [] at hs
      cases n with
      | zero => simp at hs
      | succ n =>
        rw [List.range'_succ] at hs
        simp at hs
        exact ⟨hs.1, e, by simp, hw⟩
    | none =>
      have h1 : wireR (e :: rest) = wireR rest := by simp [wireR, List.filterMap_cons, hw]
      have h2 : (e :: rest).filterMap txSeq = rest.filterMap txSeq := by
        cases e <;> simp [wireRx] at hw <;> simp [txSeq, List.filterMap_cons]
      rw [h1] at h
      rw [h2] at hs
      obtain ⟨g1, e', he', g2⟩ := ih n k r hs h
      exact ⟨g1, e', List.mem_cons_of_mem _ he', g2⟩

/-- the `n`-th record on a sender's wire carries seqnum `n` and is in its log -/
theorem wireR_getElem {X : Side} (hs : SeqOK X) {n : Nat} {r : Rx} (h : (wireR X.log)[n]? = some r) :
    r.seq = n ∧ ∃ e ∈ X.log, wireRx e = some r := by
  -- split the log at the n-th record
  have key : ∀ (log : List Eff) (k m : Nat), log.filterMap txSeq = List.range' k m → ∀ n r, (wireR log)[n]? = some r →
      r.seq = k + n ∧ ∃ e ∈ log, wireRx e = some r := by
    intro log
    induction log with
    | nil => intro k m _ n r h; simp [wireR] at h
    | cons e rest ih =>
      intro k m hs n r h
      cases hw : wireRx e with
      | some r0 =>
        have h1 : wireR (e :: rest) = r0 :: wireR rest := by simp [wireR, List.filterMap_cons, hw]
        have hq := wireRx_seq hw
        rw [List.filterMap_cons, hq] at hs
        simp only [] at hs
        cases m with
        | zero => simp at hs
        | succ m =>
          rw [List.range'_succ] at hs
          simp at hs
          rw [h1] at h
          cases n with
          | zero => simp at h; subst h; exact ⟨by omega, e, by simp, hw⟩
          | succ n =>
            simp at h
            obtain ⟨g1, e', he', g2⟩ := ih (k + 1) m hs.2 n r h
            exact ⟨by omega, e', List.mem_cons_of_mem _ he', g2⟩
      | none =>
        have h1 : wireR (e :: rest) = wireR rest := by simp [wireR, List.filterMap_cons, hw]
        have h2 : (e :: rest).filterMap txSeq = rest.filterMap txSeq := by
          cases e <;> simp [wireRx] at hw <;> simp [txSeq, List.filterMap_cons]
        rw [h1] at h
        rw [h2] at hs
        obtain ⟨g1, e', he', g2⟩ := ih k m hs n r h
        exact ⟨g1, e', List.mem_cons_of_mem _ he', g2⟩
  have := key X.log 0 X.nextSeq hs n r h
  simpa using this

/-! ## `select()`: the parked burst is drained -/

theorem bumped_nil (Y : Side) (q : Nat) : bumped Y q [] = { Y with highestAcked := some q } := by
  simp [bumped]

theorem seq_ge_of_mem_drop {X : Side} (hs : SeqOK X) {n m : Nat} {r : Rx}
    (h : r ∈ ((wireR X.log).drop n).take m) : n ≤ r.seq := by
  obtain ⟨i, hi⟩ := List.mem_iff_getElem?.mp (List.mem_of_mem_take h)
  rw [List.getElem?_drop] at hi
  have := (wireR_getElem hs hi).1
  omega


theorem proc_of_some {Y : Side} {h : Nat} (hh : Y.highestAcked = some h) : proc Y = h + 1 := by unfold proc; rw [hh]
theorem proc_of_none {Y : Side} (hh : Y.highestAcked = none) : proc Y = 0 := by unfold proc; rw [hh]

theorem select_loop {X : Side} : ∀ (rs : List Rx) (Y : Side) (D : Nat), SInv Y → Ctx X Y (proc Y) → Y.parked = [] →
    proc Y ≤ D → D ≤ X.nextSeq →
    rs.filter (fun r => decide (proc Y ≤ r.seq)) = ((wireR X.log).drop (proc Y)).take (D - proc Y) →
    Snd (selectRun rs Y).1 X ∧ Rcv X (selectRun rs Y).1 D
  | [], Y, D, _, ctx, hpk, hle, hD, hf => by
    simp only [selectRun]
    exact ⟨ctx.snd, Rcv_quiet' ctx.rcv [] (by simp) (fun _ => rfl) rfl rfl hle hD (by rw [hpk]; simpa using hf) rfl
      (fun _ _ _ _ => rfl)⟩
  | r :: rs, Y, D, hs, ctx, hpk, hle, hD, hf => by
    by_cases hold : r.seq < proc Y
    · -- a re-sent record: dropped
      have hw : ∃ h, Y.highestAcked = some h ∧ r.seq ≤ h := by
        cases hh : Y.highestAcked with
        | none => rw [proc_of_none hh] at hold; omega
        | some h => rw [proc_of_some hh] at hold; exact ⟨h, rfl, by omega⟩
      obtain ⟨h, hw1, hw2⟩ := hw
      simp only [selectRun, gotRecordNoAck_old Y r.seq h r.handler hw1 hw2]
      refine select_loop rs Y D hs ctx hpk hle hD ?_
      rw [← hf, List.filter_cons]
      have : decide (proc Y ≤ r.seq) = false := by simp; omega
      simp [this]
    · -- the next new record
      have hnew : proc Y ≤ r.seq := by omega
      have hf' : r :: rs.filter (fun r => decide (proc Y ≤ r.seq)) = ((wireR X.log).drop (proc Y)).take (D - proc Y) := by
        rw [← hf, List.filter_cons]; simp [hnew]
      have hpos : 0 < D - proc Y := by
        cases hz : D - proc Y with
        | zero => rw [hz] at hf'; simp at hf'
        | succ k => omega
      have hidx : (wireR X.log)[proc Y]? = some r := by
        have h0 : (((wireR X.log).drop (proc Y)).take (D - proc Y))[0]? = some r := by rw [← hf']; rfl
        rw [List.getElem?_take_of_lt hpos, List.getElem?_drop] at h0
        simpa using h0
      obtain ⟨hseq, e, he, hwr⟩ := wireR_getElem ctx.sndX.seq hidx
      have hfresh : ∀ h, Y.highestAcked = some h → h < r.seq := by
        intro h hh
        rw [proc_of_some hh] at hseq; omega
      have hlt : proc Y < X.nextSeq := by
        have hlen : (wireR X.log).length = X.nextSeq := by rw [length_wireR, ctx.sndX.seq]; simp
        rcases Nat.lt_or_ge (proc Y) (wireR X.log).length with h | h
        · omega
        · rw [List.getElem?_eq_none h] at hidx; cases hidx
      have hstep := rx_new_step (d' := proc Y + 1) hs ctx r e (proc Y) [] he hwr hseq rfl (Or.inl rfl) (Nat.le_refl _)
        (by omega) (by rw [hpk]; simp)
      rw [bumped_nil] at hstep
      have hs' : SInv (r.handler { Y with highestAcked := some (proc Y) }).1 :=
        r.handler_sinv (sinv_quiet hs rfl rfl rfl rfl rfl rfl [] (by simp) (fun _ => rfl))
      have hev : Evo Y (r.handler { Y with highestAcked := some (proc Y) }).1 := by
        have h1 : Evo Y { Y with highestAcked := some (proc Y) } :=
          evo_same hs.wf rfl rfl rfl rfl [] (by simp) (fun _ => rfl) rfl
        exact h1.trans (r.handler_evo h1.wf)
      rw [selectRun, gotRecordNoAck_fresh' Y r.seq r.handler hfresh, hseq]
      generalize r.handler { Y with highestAcked := some (proc Y) } = res at hstep hs' hev
      obtain ⟨Y1, err⟩ := res
      obtain ⟨sn, rc, hpk', hack'⟩ := hstep
      simp only [] at sn rc hpk' hack' hs' hev
      have hproc1 : proc Y1 = proc Y + 1 := proc_of_some hack'
      -- what is still parked after this record
      have hrest : rs.filter (fun r => decide (proc Y1 ≤ r.seq)) = ((wireR X.log).drop (proc Y1)).take (D - proc Y1) := by
        have htail : rs.filter (fun r => decide (proc Y ≤ r.seq)) = ((wireR X.log).drop (proc Y + 1)).take (D - proc Y - 1) := by
          have h2 := congrArg List.tail hf'
          simp only [List.tail_cons] at h2
          rw [h2]
          obtain ⟨k, hk⟩ : ∃ k, D - proc Y = k + 1 := ⟨D - proc Y - 1, by omega⟩
          rw [hk]
          have : ((wireR X.log).drop (proc Y)) = r :: (wireR X.log).drop (proc Y + 1) := by
            rw [List.drop_eq_getElem?_toList_append, hidx]; rfl
          rw [this]
          simp
        rw [hproc1]
        have hsub : rs.filter (fun r => decide (proc Y + 1 ≤ r.seq)) =
            (rs.filter (fun r => decide (proc Y ≤ r.seq))).filter (fun r => decide (proc Y + 1 ≤ r.seq)) := by
          rw [List.filter_filter]
          congr 1
          funext x
          by_cases hx : proc Y + 1 ≤ x.seq
          · have : proc Y ≤ x.seq := by omega
            simp [hx, this]
          · simp [hx]
        rw [hsub, htail]
        have hall : ∀ x ∈ ((wireR X.log).drop (proc Y + 1)).take (D - proc Y - 1), decide (proc Y + 1 ≤ x.seq) = true := by
          intro x hx
          have := seq_ge_of_mem_drop ctx.sndX.seq hx
          simpa using this
        rw [List.filter_eq_self.mpr hall]
        congr 1
      have ctx1 : Ctx X Y1 (proc Y1) :=
        ⟨hs'.wf, hs'.openKeys, hs'.openOK, hs'.unconn, sn, by rw [hproc1]; exact rc,
          Snd_mono_right ctx.sndX (fun e he => by obtain ⟨l, hl, _⟩ := hev.log; rw [hl]; exact List.mem_append_left _ he),
          ctx.idsX, hev.ids ctx.idsY, by rw [hev.leader]; exact ctx.roles⟩
      have hpk1 : Y1.parked = [] := by rw [hpk', hpk]
      cases err with
      | none =>
        simp only []
        exact select_loop rs Y1 D hs' ctx1 hpk1 (by rw [hproc1]; omega) hD hrest
      | some er =>
        simp only []
        exact ⟨Snd_quiet sn [] (by simp) rfl rfl rfl rfl rfl (Nat.le_refl _),
          Rcv_quiet' rc [] (by simp) (fun _ => rfl) rfl rfl (by show proc Y1 ≤ D; rw [hproc1]; omega) hD
            (by show rs.filter _ = _; exact hrest) rfl (fun _ _ _ _ => rfl)⟩

/-! ## honest worlds -/

/-- what an application may call (and the Connector's `select()` turn) -/
def apiOp : Op → Bool
  | .connect .. | .listen .. | .write .. | .lose .. | .loseWrite .. | .select => true
  | _ => false

/-- the steps of a world whose two sides talk only to each other over L4: application calls; the
    next new record of the peer arrives (`deliver`, when nothing is parked unprocessed) or is
    parked with a KCM (`park`); a record already processed arrives again (re-sent after a loss:
    directly or parked); the connection is lost — at any moment (`dropA/dropB`, the world operation
    `lostA/lostB`: records parked and not yet handed over by `select()` go with the connection and
    the peer's cursor falls back to the first record not processed, i.e. the peer's `Outbound` sends
    them again), or as the bare side operation when nothing unprocessed is parked (`lostA/lostB`) -/
inductive Honest (w : World) : WOp → Prop
  | apiA {o : Op} (h : apiOp o = true) : Honest w (.onA o)
  | apiB {o : Op} (h : apiOp o = true) : Honest w (.onB o)
  | deliverAB (h : proc w.b = w.dAB) : Honest w .deliverAB
  | deliverBA (h : proc w.a = w.dBA) : Honest w .deliverBA
  | parkAB : Honest w .parkAB
  | parkBA : Honest w .parkBA
  | resendAB {r : Rx} (h1 : r ∈ wireR w.a.log) (h2 : r.seq < proc w.b) : Honest w (.onB r.toOp)
  | resendBA {r : Rx} (h1 : r ∈ wireR w.b.log) (h2 : r.seq < proc w.a) : Honest w (.onA r.toOp)
  | reparkAB {r : Rx} (h1 : r ∈ wireR w.a.log) (h2 : r.seq < proc w.b) : Honest w (.onB (.park r))
  | reparkBA {r : Rx} (h1 : r ∈ wireR w.b.log) (h2 : r.seq < proc w.a) : Honest w (.onA (.park r))
  | lostA (h : proc w.a = w.dBA) : Honest w (.onA .lost)
  | lostB (h : proc w.b = w.dAB) : Honest w (.onB .lost)
  /-- the connection is lost at any moment, also while records are parked on it and not yet handed over
      by `select()`: they are dropped and come again on the next connection (`WOp.lostA/lostB`) -/
  | dropA : Honest w .lostA
  | dropB : Honest w .lostB

def HonestRun : World → List WOp → Prop
  | _, [] => True
  | w, o :: os => Honest w o ∧ HonestRun (wstep w o).1 os

theorem step_toOp (Y : Side) (r : Rx) : step Y r.toOp = gotRecord r.seq r.handler Y := by
  cases r <;> rfl

theorem gotRecord_fresh_exact (Y : Side) (q : Nat) (handle : Side → Res) (hf : ∀ h, Y.highestAcked = some h → h < q) :
    gotRecord q handle Y = handle (bumped Y q [.ack q]) := by
  cases hh : Y.highestAcked with
  | none => simp [gotRecord, emit, hh, bumped]
  | some h =>
    have hlt := hf h hh
    have h1 : ¬ q ≤ h := by omega
    have h2 : max h q = q := Nat.max_eq_right (by omega)
    simp [gotRecord, emit, hh, h1, h2, bumped]

theorem nextSeq_mono {Y Y' : Side} (l : List Eff) (hlog : Y'.log = Y.log ++ l) (h1 : SeqOK Y) (h2 : SeqOK Y') :
    Y.nextSeq ≤ Y'.nextSeq := by
  unfold SeqOK at h1 h2
  have a := congrArg List.length h1
  have b := congrArg List.length h2
  rw [hlog, List.filterMap_append] at b
  simp at a b
  omega

/-- re-assemble the world invariant after a step of side B -/
theorem hinv_stepB {w : World} (h : HInv w) (b' : Side) (d' : Nat) (hev : Evo w.b b') (hs : SInv b')
    (sn : Snd b' w.a) (rc : Rcv w.a b' d') : HInv { w with b := b', dAB := d' } := by
  obtain ⟨l, hl, _⟩ := hev.log
  refine ⟨h.sa, hs, h.ia, hev.ids h.ib, by show w.a.leader = !b'.leader; rw [hev.leader]; exact h.roles,
    Snd_mono_right h.sndA (fun e he => by rw [hl]; exact List.mem_append_left _ he), sn, rc,
    Rcv_mono_sender h.rcvA l hl h.sndB.seq sn.seq (nextSeq_mono l hl h.sndB.seq sn.seq)⟩

theorem hinv_ctxB {w : World} (h : HInv w) : Ctx w.a w.b w.dAB :=
  Ctx.of_sinvx h.sb h.sndB h.rcvB h.sndA h.ia h.ib h.roles

theorem hinv_ctxA {w : World} (h : HInv w) : Ctx w.b w.a w.dBA :=
  Ctx.of_sinvx h.sa h.sndA h.rcvA h.sndB h.ib h.ia (by rw [h.roles]; simp)

theorem hinv_stepA {w : World} (h : HInv w) (a' : Side) (d' : Nat) (hev : Evo w.a a') (hs : SInv a')
    (sn : Snd a' w.b) (rc : Rcv w.b a' d') : HInv { w with a := a', dBA := d' } := by
  obtain ⟨l, hl, _⟩ := hev.log
  refine ⟨hs, h.sb, hev.ids h.ia, h.ib, by show a'.leader = !w.b.leader; rw [hev.leader]; exact h.roles,
    sn, Snd_mono_right h.sndB (fun e he => by rw [hl]; exact List.mem_append_left _ he),
    Rcv_mono_sender h.rcvB l hl h.sndA.seq sn.seq (nextSeq_mono l hl h.sndA.seq sn.seq), rc⟩

/-! ### what one side does in one honest step -/

theorem side_api {X Y : Side} {d : Nat} (hs : SInv Y) (ctx : Ctx X Y d) (o : Op) (ho : apiOp o = true) :
    Snd (step Y o).1 X ∧ Rcv X (step Y o).1 d := by
  cases o <;> simp [apiOp] at ho
  case connect name k => exact connect_step ctx name k
  case listen name k => exact listen_step hs ctx name k
  case write pid dd =>
    simp only [step]
    cases hf : findProto pid Y.subs 0 with
    | none => exact ⟨ctx.snd, ctx.rcv⟩
    | some x =>
      obtain ⟨uid, k⟩ := x
      obtain ⟨c, _, hc, hp⟩ := findProto_sound pid Y.subs 0 uid k hf
      simp only [Nat.sub_zero] at hc
      exact local_input_step ctx uid c pid k .local_data dd (Or.inl rfl) hc hp
  case lose pid =>
    simp only [step]
    cases hf : findProto pid Y.subs 0 with
    | none => exact ⟨ctx.snd, ctx.rcv⟩
    | some x =>
      obtain ⟨uid, k⟩ := x
      obtain ⟨c, _, hc, hp⟩ := findProto_sound pid Y.subs 0 uid k hf
      simp only [Nat.sub_zero] at hc
      simp only []
      split
      · exact ⟨ctx.snd, ctx.rcv⟩
      · exact local_input_step ctx uid c pid k .local_close [] (Or.inr rfl) hc hp
  case loseWrite pid =>
    simp only [step]
    cases hf : findProto pid Y.subs 0 with
    | none => exact ⟨ctx.snd, ctx.rcv⟩
    | some x =>
      obtain ⟨uid, k⟩ := x
      obtain ⟨c, _, hc, hp⟩ := findProto_sound pid Y.subs 0 uid k hf
      simp only [Nat.sub_zero] at hc
      simp only []
      split
      · exact local_input_step ctx uid c pid k .local_close [] (Or.inr rfl) hc hp
      · exact ⟨ctx.snd, ctx.rcv⟩
  case select =>
    simp only [step]
    have hY0 : SInv ({ Y with parked := [] } : Side) := sinv_quiet hs rfl rfl rfl rfl rfl rfl [] (by simp) (fun _ => rfl)
    have rc0 : Rcv X ({ Y with parked := [] } : Side) (proc Y) :=
      Rcv_quiet' ctx.rcv [] (by simp) (fun _ => rfl) rfl rfl (Nat.le_refl _) (Nat.le_trans ctx.rcv.le1 ctx.rcv.le2)
        (by show ([] : List Rx).filter _ = ((wireR X.log).drop (proc Y)).take (proc Y - proc Y); simp) rfl (fun _ _ _ _ => rfl)
    have sn0 : Snd ({ Y with parked := [] } : Side) X := Snd_quiet ctx.snd [] (by simp) rfl rfl rfl rfl rfl (Nat.le_refl _)
    have ctx0 : Ctx X ({ Y with parked := [] } : Side) (proc ({ Y with parked := [] } : Side)) :=
      ⟨hY0.wf, hY0.openKeys, hY0.openOK, hY0.unconn, sn0, rc0,
        Snd_mono_right ctx.sndX (fun e he => he), ctx.idsX, IdsOK_frame (s := Y) rfl rfl rfl ctx.idsY, ctx.roles⟩
    exact select_loop Y.parked _ d hY0 ctx0 rfl ctx.rcv.le1 ctx.rcv.le2 ctx.rcv.parked

theorem side_deliver {X Y : Side} {d : Nat} (hs : SInv Y) (ctx : Ctx X Y d) (hproc : proc Y = d) (r : Rx)
    (hr : (wireR X.log)[d]? = some r) : Snd (step Y r.toOp).1 X ∧ Rcv X (step Y r.toOp).1 (d + 1) := by
  obtain ⟨hseq, e, he, hwr⟩ := wireR_getElem ctx.sndX.seq hr
  have hfresh : ∀ h, Y.highestAcked = some h → h < r.seq := by
    intro h hh
    rw [proc_of_some hh] at hproc; omega
  have hlt : d < X.nextSeq := by
    have hlen : (wireR X.log).length = X.nextSeq := by rw [length_wireR, ctx.sndX.seq]; simp
    rcases Nat.lt_or_ge d (wireR X.log).length with h | h
    · omega
    · rw [List.getElem?_eq_none h] at hr; cases hr
  rw [step_toOp, gotRecord_fresh_exact Y r.seq r.handler hfresh, hseq]
  have hpark : Y.parked.filter (fun r => decide (d + 1 ≤ r.seq)) = ((wireR X.log).drop (d + 1)).take (d + 1 - (d + 1)) := by
    have h0 := ctx.rcv.parked
    rw [hproc] at h0
    simp at h0 ⊢
    intro x hx
    have := h0 x hx
    omega
  obtain ⟨sn, rc, _⟩ := rx_new_step (d' := d + 1) hs ctx r e d [.ack d] he hwr hseq hproc (Or.inr rfl) (Nat.le_refl _) (by omega) hpark
  exact ⟨sn, rc⟩

theorem side_park {X Y : Side} {d : Nat} (ctx : Ctx X Y d) (r : Rx) (hr : (wireR X.log)[d]? = some r) :
    Snd (step Y (.park r)).1 X ∧ Rcv X (step Y (.park r)).1 (d + 1) := by
  obtain ⟨hseq, _⟩ := wireR_getElem ctx.sndX.seq hr
  have hlt : d < X.nextSeq := by
    have hlen : (wireR X.log).length = X.nextSeq := by rw [length_wireR, ctx.sndX.seq]; simp
    rcases Nat.lt_or_ge d (wireR X.log).length with h | h
    · omega
    · rw [List.getElem?_eq_none h] at hr; cases hr
  refine ⟨Snd_quiet ctx.snd [] (by simp [step]) rfl rfl rfl rfl rfl (Nat.le_refl _),
    Rcv_quiet' ctx.rcv [] (by simp [step]) (fun _ => rfl) rfl rfl (Nat.le_trans ctx.rcv.le1 (Nat.le_succ _)) (by omega) ?_ rfl
      (fun _ _ _ _ => rfl)⟩
  show (Y.parked ++ [r]).filter (fun r => decide (proc Y ≤ r.seq)) = ((wireR X.log).drop (proc Y)).take (d + 1 - proc Y)
  have hle := ctx.rcv.le1
  rw [List.filter_append, ctx.rcv.parked]
  have hin : decide (proc Y ≤ r.seq) = true := by simp; omega
  simp only [List.filter_cons, hin, if_true, List.filter_nil]
  have : d + 1 - proc Y = (d - proc Y) + 1 := by omega
  rw [this, List.take_succ]
  congr 1
  rw [List.getElem?_drop]
  have : proc Y + (d - proc Y) = d := by omega
  rw [this, hr]; rfl

theorem side_resend {X Y : Side} {d : Nat} (ctx : Ctx X Y d) (r : Rx) (hold : r.seq < proc Y) :
    Snd (step Y r.toOp).1 X ∧ Rcv X (step Y r.toOp).1 d := by
  obtain ⟨h, hw1, hw2⟩ : ∃ h, Y.highestAcked = some h ∧ r.seq ≤ h := by
    cases hh : Y.highestAcked with
    | none => rw [proc_of_none hh] at hold; omega
    | some h => rw [proc_of_some hh] at hold; exact ⟨h, rfl, by omega⟩
  rw [step_toOp, gotRecord_old Y r.seq h r.handler hw1 hw2]
  exact ⟨Snd_quiet ctx.snd [.ack r.seq] rfl rfl rfl rfl rfl rfl (Nat.le_refl _),
    Rcv_quiet ctx.rcv [.ack r.seq] rfl (fun _ => rfl) rfl rfl rfl ctx.rcv.le1 ctx.rcv.le2 ctx.rcv.parked rfl⟩

theorem side_repark {X Y : Side} {d : Nat} (ctx : Ctx X Y d) (r : Rx) (hold : r.seq < proc Y) :
    Snd (step Y (.park r)).1 X ∧ Rcv X (step Y (.park r)).1 d := by
  refine ⟨Snd_quiet ctx.snd [] (by simp [step]) rfl rfl rfl rfl rfl (Nat.le_refl _),
    Rcv_quiet ctx.rcv [] (by simp [step]) (fun _ => rfl) rfl rfl rfl ctx.rcv.le1 ctx.rcv.le2 ?_ rfl⟩
  show (Y.parked ++ [r]).filter (fun r => decide (proc Y ≤ r.seq)) = _
  have hout : decide (proc Y ≤ r.seq) = false := by simp; omega
  rw [List.filter_append]
  simp only [List.filter_cons, hout, List.filter_nil]
  simp
  exact ctx.rcv.parked

theorem processed_eq_proc (s : Side) : s.processed = proc s := rfl

/-- a loss at any moment: whatever was parked is gone, and the delivery cursor is back at the first
    record not processed -/
theorem side_drop {X Y : Side} {d : Nat} (ctx : Ctx X Y d) :
    Snd (step Y .lost).1 X ∧ Rcv X (step Y .lost).1 (min d (step Y .lost).1.processed) := by
  have hp : (step Y .lost).1.processed = proc Y := rfl
  have hmin : min d (proc Y) = proc Y := Nat.min_eq_right ctx.rcv.le1
  rw [hp, hmin]
  refine ⟨Snd_quiet ctx.snd [] (by simp [step]) rfl rfl rfl rfl rfl (Nat.le_refl _),
    Rcv_quiet ctx.rcv [] (by simp [step]) (fun _ => rfl) rfl rfl rfl (Nat.le_refl _) (Nat.le_trans ctx.rcv.le1 ctx.rcv.le2) ?_ rfl⟩
  show ([] : List Rx).filter _ = _
  simp

theorem side_lost {X Y : Side} {d : Nat} (ctx : Ctx X Y d) (hproc : proc Y = d) :
    Snd (step Y .lost).1 X ∧ Rcv X (step Y .lost).1 d := by
  refine ⟨Snd_quiet ctx.snd [] (by simp [step]) rfl rfl rfl rfl rfl (Nat.le_refl _),
    Rcv_quiet ctx.rcv [] (by simp [step]) (fun _ => rfl) rfl rfl rfl ctx.rcv.le1 ctx.rcv.le2 ?_ rfl⟩
  show ([] : List Rx).filter _ = _
  rw [hproc]; simp

/-- **the world invariant is preserved by every honest step** -/
theorem honest_step {w : World} (h : HInv w) {o : WOp} (ho : Honest w o) : HInv (wstep w o).1 := by
  cases ho with
  | apiA hap =>
    rename_i op
    obtain ⟨sn, rc⟩ := side_api h.sa (hinv_ctxA h) op hap
    exact hinv_stepA h _ _ (step_evo h.sa.wf op) (step_sinv h.sa op) sn rc
  | apiB hap =>
    rename_i op
    obtain ⟨sn, rc⟩ := side_api h.sb (hinv_ctxB h) op hap
    exact hinv_stepB h _ _ (step_evo h.sb.wf op) (step_sinv h.sb op) sn rc
  | deliverAB hp =>
    simp only [wstep]
    cases hw : (wire w.a.log)[w.dAB]? with
    | none => exact h
    | some op =>
      rw [wire_eq_map, List.getElem?_map] at hw
      cases hr : (wireR w.a.log)[w.dAB]? with
      | none => rw [hr] at hw; cases hw
      | some r =>
        rw [hr] at hw
        have : op = r.toOp := by simpa using hw.symm
        subst this
        obtain ⟨sn, rc⟩ := side_deliver h.sb (hinv_ctxB h) hp r hr
        exact hinv_stepB h _ _ (step_evo h.sb.wf _) (step_sinv h.sb _) sn rc
  | deliverBA hp =>
    simp only [wstep]
    cases hw : (wire w.b.log)[w.dBA]? with
    | none => exact h
    | some op =>
      rw [wire_eq_map, List.getElem?_map] at hw
      cases hr : (wireR w.b.log)[w.dBA]? with
      | none => rw [hr] at hw; cases hw
      | some r =>
        rw [hr] at hw
        have : op = r.toOp := by simpa using hw.symm
        subst this
        obtain ⟨sn, rc⟩ := side_deliver h.sa (hinv_ctxA h) hp r hr
        exact hinv_stepA h _ _ (step_evo h.sa.wf _) (step_sinv h.sa _) sn rc
  | parkAB =>
    simp only [wstep]
    cases hr : (wireR w.a.log)[w.dAB]? with
    | none => exact h
    | some r =>
      obtain ⟨sn, rc⟩ := side_park (hinv_ctxB h) r hr
      exact hinv_stepB h _ _ (step_evo h.sb.wf _) (step_sinv h.sb _) sn rc
  | parkBA =>
    simp only [wstep]
    cases hr : (wireR w.b.log)[w.dBA]? with
    | none => exact h
    | some r =>
      obtain ⟨sn, rc⟩ := side_park (hinv_ctxA h) r hr
      exact hinv_stepA h _ _ (step_evo h.sa.wf _) (step_sinv h.sa _) sn rc
  | @resendAB r _ h2 =>
    obtain ⟨sn, rc⟩ := side_resend (hinv_ctxB h) r h2
    exact hinv_stepB h _ _ (step_evo h.sb.wf _) (step_sinv h.sb _) sn rc
  | @resendBA r _ h2 =>
    obtain ⟨sn, rc⟩ := side_resend (hinv_ctxA h) r h2
    exact hinv_stepA h _ _ (step_evo h.sa.wf _) (step_sinv h.sa _) sn rc
  | @reparkAB r _ h2 =>
    obtain ⟨sn, rc⟩ := side_repark (hinv_ctxB h) r h2
    exact hinv_stepB h _ _ (step_evo h.sb.wf _) (step_sinv h.sb _) sn rc
  | @reparkBA r _ h2 =>
    obtain ⟨sn, rc⟩ := side_repark (hinv_ctxA h) r h2
    exact hinv_stepA h _ _ (step_evo h.sa.wf _) (step_sinv h.sa _) sn rc
  | lostA hp =>
    obtain ⟨sn, rc⟩ := side_lost (hinv_ctxA h) hp
    exact hinv_stepA h _ _ (step_evo h.sa.wf _) (step_sinv h.sa _) sn rc
  | lostB hp =>
    obtain ⟨sn, rc⟩ := side_lost (hinv_ctxB h) hp
    exact hinv_stepB h _ _ (step_evo h.sb.wf _) (step_sinv h.sb _) sn rc
  | dropA =>
    obtain ⟨sn, rc⟩ := side_drop (hinv_ctxA h)
    exact hinv_stepA h _ _ (step_evo h.sa.wf _) (step_sinv h.sa _) sn rc
  | dropB =>
    obtain ⟨sn, rc⟩ := side_drop (hinv_ctxB h)
    exact hinv_stepB h _ _ (step_evo h.sb.wf _) (step_sinv h.sb _) sn rc

theorem honest_run : ∀ (ops : List WOp) (w : World), HInv w → HonestRun w ops → HInv (wrun w ops)
  | [], _, h, _ => h
  | o :: os, w, h, hr => honest_run os _ (honest_step h hr.1) hr.2

/-! ## from the invariant to the property -/

theorem closeLast_sentTo {X Y : Side} (h : Snd X Y) (σ n : Nat) : closeLast (sentTo σ n X.log) := by
  intro pre post heq
  unfold sentTo at heq
  obtain ⟨l1, l2, hl, _, h2⟩ := List.filterMap_eq_append_iff.mp heq
  obtain ⟨m1, e, m2, hl2, _, he, h3⟩ := List.filterMap_eq_cons_iff.mp h2
  cases post with
  | nil => rfl
  | cons x xs =>
    exfalso
    obtain ⟨k1, e2, k2, hm2, _, he2, _⟩ := List.filterMap_eq_cons_iff.mp h3
    -- e is a CLOSE on σ, e2 a later item on σ
    have hlog : X.log = (l1 ++ m1) ++ e :: (k1 ++ e2 :: k2) := by rw [hl, hl2, hm2]; simp
    cases e <;> simp [txItemBelow] at he
    case txClose q c =>
      obtain ⟨rfl, _⟩ := he
      have hmem : Eff.txClose q c ∈ X.log := by rw [hlog]; simp
      have hmem2 : e2 ∈ X.log := by rw [hlog]; simp
      obtain ⟨_, _, hpost⟩ := seq_split h.seq hlog (q := q) rfl
      have hit2 : ∃ it q2, txItem c e2 = some it ∧ txSeq e2 = some q2 := by
        cases e2 <;> simp [txItemBelow] at he2
        case txData q2 c2 d2 => exact ⟨.data d2, q2, by simp [txItem, he2.1.1], rfl⟩
        case txClose q2 c2 => exact ⟨.close, q2, by simp [txItem, he2.1.1], rfl⟩
      obtain ⟨it, q2, hi2, hq2⟩ := hit2
      have hgt := seq_gt_of_post hpost e2 (by simp) q2 hq2
      exact no_item_after_close h hmem hmem2 hi2 hq2 hgt

theorem rd_event {p : Nat} {e : Eff} {d : Bytes} (h : rdItem p e = some (Item.data d)) : e = Eff.data p d := by
  cases e <;> simp [rdItem] at h
  case data q d' => obtain ⟨rfl, rfl⟩ := h; rfl

/-- **the core of data_before_close**: whenever the world invariant holds, a protocol that got its
    close signal had before that read everything the peer ever sent on its subchannel -/
theorem dbc_core {X Y : Side} {dd : Nat} (sx : Snd X Y) (ry : Rcv X Y dd)
    {q1 σ : Nat} {d : Bytes} (hd : Eff.txData q1 σ d ∈ X.log)
    {uid : Nat} {c : SC} {pb : Nat} {k : PKind} (hc : Y.subs[uid]? = some c) (hs : c.scid = σ) (hp : c.proto = some (pb, k))
    {i : Nat} {ec : Eff} (hi : Y.log[i]? = some ec) (hec : ec = Eff.lost pb ∨ ec = Eff.readLost pb) :
    ∃ j, j < i ∧ Y.log[j]? = some (Eff.data pb d) := by
  have hm := ry.m uid c hc (Or.inl (by rw [hp]; simp))
  unfold seen at hm
  simp only [hp] at hm
  rw [hs] at hm
  have hcl : closeLast (rdItems pb Y.log) := by rw [hm]; exact closeLast_sentTo sx σ (proc Y)
  have hrc : rdItem pb ec = some Item.close := by rcases hec with rfl | rfl <;> simp [rdItem]
  have hmemc : ec ∈ Y.log := List.mem_of_getElem? hi
  have hclose : Item.close ∈ rdItems pb Y.log := List.mem_filterMap.mpr ⟨ec, hmemc, hrc⟩
  rw [hm] at hclose
  obtain ⟨q2, hq2, hc2⟩ := mem_sentTo_close hclose
  -- the DATA was sent before the CLOSE
  have hlt : q1 < q2 := by
    rcases Nat.lt_or_ge q1 q2 with h | h
    · exact h
    · exfalso
      rcases Nat.lt_or_ge q2 q1 with h' | h'
      · exact no_item_after_close sx hc2 hd (it := .data d) (by simp [txItem]) rfl h'
      · have : q1 = q2 := by omega
        subst this
        obtain ⟨pre, post, hl⟩ := List.append_of_mem hd
        rcases mem_split_by_seq sx.seq hl (q := q1) rfl hc2 rfl with ⟨h1, _⟩ | ⟨_, h2⟩ | ⟨h1, _⟩
        · omega
        · cases h2
        · omega
  have hdin : Item.data d ∈ sentTo σ (proc Y) X.log := by
    unfold sentTo
    exact List.mem_filterMap.mpr ⟨_, hd, by simp [txItemBelow]; omega⟩
  rw [← hm] at hdin
  obtain ⟨e', he', hr'⟩ := List.mem_filterMap.mp hdin
  have := rd_event hr'
  subst this
  obtain ⟨j, hj⟩ := List.mem_iff_getElem?.mp he'
  refine ⟨j, ?_, hj⟩
  -- order: the close signal is the last thing the protocol reads
  rcases Nat.lt_trichotomy j i with h | h | h
  · exact h
  · subst h; rw [hi] at hj; cases hj; rcases hec with h | h <;> cases h
  · exfalso
    -- split the log at i: the data event lies behind the close signal
    have hsplit : Y.log = Y.log.take i ++ ec :: Y.log.drop (i + 1) := by
      have := List.getElem?_eq_some_iff.mp hi
      obtain ⟨hlt', hget⟩ := this
      rw [← hget]
      exact (List.take_append_drop i Y.log).symm.trans (by rw [List.drop_eq_getElem_cons hlt'])
    have hin2 : Eff.data pb d ∈ Y.log.drop (i + 1) := by
      apply List.mem_iff_getElem?.mpr
      refine ⟨j - (i + 1), ?_⟩
      rw [List.getElem?_drop]
      have : i + 1 + (j - (i + 1)) = j := by omega
      rw [this]; exact hj
    have hrd : rdItems pb Y.log = rdItems pb (Y.log.take i) ++ Item.close :: rdItems pb (Y.log.drop (i + 1)) := by
      conv => lhs; rw [hsplit]
      rw [rdItems_append]
      congr 1
      simp [rdItems, List.filterMap_cons, hrc]
    have hne : rdItems pb (Y.log.drop (i + 1)) ≠ [] := by
      intro hnil
      have : Item.data d ∈ rdItems pb (Y.log.drop (i + 1)) := List.mem_filterMap.mpr ⟨_, hin2, by simp [rdItem]⟩
      rw [hnil] at this; cases this
    exact hne (hcl _ _ hrd)

/-- once every record of the sender has been processed, "as far as processed" is "everything" -/
theorem sentTo_all {X : Side} (hs : SeqOK X) (σ n : Nat) (hn : X.nextSeq ≤ n) : sentTo σ n X.log = txItems σ X.log := by
  refine sentTo_eq_of_lt (q := X.nextSeq) ?_ σ n hn
  intro e he q' hq'
  have : q' ∈ X.log.filterMap txSeq := List.mem_filterMap.mpr ⟨e, he, hq'⟩
  rw [hs] at this
  have := (List.mem_range'_1.mp this).2
  omega

theorem Snd_init (l : Bool) (f : Nat) (ex : Option (List String)) (Y : Side) : Snd (Side.init l f ex) Y := by
  refine ⟨rfl, fun σ => closeLast_nil, ?_, ?_, ?_, ?_⟩
  · intro pre post e σ heq; cases pre <;> simp [Side.init] at heq
  · intro u c hu; simp [Side.init] at hu
  · intro u c hu; simp [Side.init] at hu
  · intro σ h; exact absurd rfl h

theorem Rcv_init (X : Side) (l : Bool) (f : Nat) (ex : Option (List String)) : Rcv X (Side.init l f ex) 0 := by
  have hno : ∀ (u : Nat) (c : SC), (Side.init l f ex).subs[u]? = some c → False := by
    intro u c hu; simp [Side.init] at hu
  exact ⟨Nat.le_refl _, Nat.zero_le _, by simp [Side.init, proc],
    fun u c hu _ => (hno u c hu).elim, fun u _ c _ hu _ _ _ _ => (hno u c hu).elim,
    fun u c _ hu _ _ => (hno u c hu).elim, fun u c _ _ hu _ _ => (hno u c hu).elim,
    fun u c _ hu _ => (hno u c hu).elim, fun u c _ _ hu _ => (hno u c hu).elim, fun _ _ => rfl⟩

theorem HInv_init {sa sb : String} {ea eb : Option (List String)} {w : World}
    (hw : World.init sa sb ea eb = some w) : HInv w := by
  unfold World.init at hw
  cases ha : chooseRole sa sb with
  | none => simp [ha] at hw
  | some ra =>
    cases hb : chooseRole sb sa with
    | none => simp [ha, hb] at hw
    | some rb =>
      obtain ⟨la, fa⟩ := ra
      obtain ⟨lb, fb⟩ := rb
      simp [ha, hb] at hw
      subst hw
      have hroles : la = !lb := by
        unfold chooseRole at ha hb
        by_cases h1 : sb < sa
        · have h2 : ¬ sa < sb := String.lt_asymm h1
          simp [h1, h2] at ha hb
          rw [ha.1, hb.1]; rfl
        · by_cases h2 : sa < sb
          · simp [h1, h2] at ha hb
            rw [ha.1, hb.1]; rfl
          · simp [h1, h2] at ha
      exact ⟨SInv_init la fa ea, SInv_init lb fb eb, idsOK_start ha ea, idsOK_start hb eb, hroles,
        Snd_init la fa ea _, Snd_init lb fb eb _, Rcv_init _ lb fb eb, Rcv_init _ la fa ea⟩

theorem wrun_side_b : ∀ (ops : List WOp) (w : World), ∃ opsB : List Op, (wrun w ops).b = run w.b opsB
  | [], w => ⟨[], rfl⟩
  | o :: os, w => by
    obtain ⟨r, hr⟩ := wrun_side_b os (wstep w o).1
    cases o with
    | onB o => exact ⟨o :: r, by simpa [wrun, run, wstep] using hr⟩
    | onA o => exact ⟨r, by simpa [wrun, wstep] using hr⟩
    | deliverBA =>
      refine ⟨r, ?_⟩
      simp only [wrun]
      rw [hr]
      simp only [wstep]
      split <;> rfl
    | deliverAB =>
      simp only [wrun]
      rw [hr]
      simp only [wstep]
      split
      · exact ⟨r, rfl⟩
      · rename_i o _
        exact ⟨o :: r, rfl⟩
    | parkBA =>
      refine ⟨r, ?_⟩
      simp only [wrun]
      rw [hr]
      simp only [wstep]
      split <;> rfl
    | parkAB =>
      simp only [wrun]
      rw [hr]
      simp only [wstep]
      split
      · exact ⟨r, rfl⟩
      · rename_i x _
        exact ⟨.park x :: r, rfl⟩
    | lostB => exact ⟨.lost :: r, by simpa [wrun, run, wstep] using hr⟩
    | lostA => exact ⟨r, by simpa [wrun, wstep] using hr⟩

end WV.C13
