import WV.Proofs.C04
import WV.Props.C06

/-!
C04 over C06: the Xfer sender and receiver on the two ends of the transit record layer *as C06
models it*, with an arbitrary network / adversary in between.

* Receiving end = C06's `Conn` (`is_sender = False`).  The adversary chooses every byte that
  arrives, in whatever chunks (`NetOp.data`), and when the loss of the connection is reported
  (`NetOp.lost`); the application chooses when `_transfer_data` attaches its consumer
  (`NetOp.attach onDone` = C06's script `consume (some xfersize) onDone`, for any callback script).  The records the C06 connection accepts off the wire and hands to
  `recordReceived` — `App.surfaced`, which C06 proves to be append-only and equal to the argument
  list of `recordReceived` (`recordReceived_spec`) — are the `record` events of the Xfer receiver
  (`rxTrace`); `attach` is its `connect`, `lost` its `lost`.
* Sending end for the ack = C06's `Conn` (`is_sender = True`) under *any* C06 operation sequence
  (`C06.Op`: bytes, top-level calls of arbitrary re-entrant `Act` scripts — the sender's is a `read` —, loss).  What `yield record_pipe.receive_record()`
  gives the sender is the first record that connection hands to the application, parsed
  (`senderAck`); nothing handed over = the Deferred never fires or errbacks.

The only assumptions are C06's own: `IdealFor E.box key history` for the two directions (only the
peer's sealings open under the receive key) and the code's `2^192` record-count limit, plus the
json codec of the ack as an interface (`AckCodec.Ideal`).
-/
namespace WV.C04Net
open WV WV.C04

/-! ## surfaced is append-only under `dataReceived` (not stated in C06; proved here from its lemmas) -/

theorem dataReceived_mono (E : C06.Env) (c : C06.Conn) (d : Bytes) (h : C06.ConsInv c.app) :
    c.app.surfaced <+: (C06.dataReceived E c d).1.app.surfaced ∧ C06.ConsInv (C06.dataReceived E c d).1.app := by
  refine C06.dataReceived_appInv E (fun a => c.app.surfaced <+: a.surfaced ∧ C06.ConsInv a) ?_ ?_ c d
    ⟨List.prefix_refl _, h⟩
  · intro a r hP
    obtain ⟨s1, s2⟩ := C06.recordReceived_spec a r hP.2
    exact ⟨by rw [s1]; exact hP.1.trans (List.prefix_append _ _), s2⟩
  · intro a hP
    refine ⟨by rw [C06.emit_lose_surfaced]; exact hP.1, ?_⟩
    intro hh; exact hP.2 hh

theorem prefix_append_drop {α : Type} {l m : List α} (h : l <+: m) : l ++ m.drop l.length = m := by
  obtain ⟨t, rfl⟩ := h
  simp

/-! ## the composed receiving end -/

/-- what the network and the application do at the receiving end -/
inductive NetOp where
  | data (b : Bytes)     -- these bytes arrive (any bytes: honest, altered, replayed, invented; any chunking)
  /-- `_transfer_data` calls `record_pipe.writeToFile(f, xfersize, …)`; `onDone` = whatever the callback on
      its Deferred goes on to do with the connection (for the real receiver: `close()` after a good transfer,
      nothing after a failed one — the theorems hold for every script) -/
  | attach (onDone : List C06.Act)
  | lost                 -- `connectionLost` is reported

def toC06 (x : Nat) : NetOp → C06.Op
  | .data b => .data b
  | .attach s => .call [.consume (some x) s]
  | .lost => .lost

/-- the C06 connection under the schedule -/
def connRun (E : C06.Env) (x : Nat) (c : C06.Conn) (ops : List NetOp) : C06.Conn :=
  C06.run E c (ops.map (toC06 x))

/-- the records one `dataReceived` call handed to `recordReceived` -/
def newRecords (c c' : C06.Conn) : List Bytes := c'.app.surfaced.drop c.app.surfaced.length

/-- the events of the Xfer receiver that the schedule produces on top of the C06 connection `c` -/
def rxTrace (E : C06.Env) (x : Nat) : C06.Conn → List NetOp → List Ev
  | _, [] => []
  | c, .data b :: ops =>
    (newRecords c (C06.step E c (.data b))).map Ev.record ++ rxTrace E x (C06.step E c (.data b)) ops
  | c, .attach s :: ops => Ev.connect :: rxTrace E x (C06.step E c (.call [.consume (some x) s])) ops
  | c, .lost :: ops => Ev.lost :: rxTrace E x (C06.step E c .lost) ops

/-- the Xfer receiver (file consumer, hashing, rename, ack) on the receiving C06 connection, which
    `_negotiationSuccessful` left with `leftover` bytes in its buffer -/
def netRx {τ : Type} (E : C06.Env) (H : Hash) (Z : Zip τ) (x : Nat) (dirMode : Bool) (stale : Option Bytes)
    (leftover : Bytes) (ops : List NetOp) : Rx τ :=
  runRx H Z x dirMode stale (rxTrace E x (C06.Conn.init false leftover) ops)

def hasAttach : List NetOp → Bool
  | [] => false
  | .attach _ :: _ => true
  | _ :: ops => hasAttach ops

def hasLost : List NetOp → Bool
  | [] => false
  | .lost :: _ => true
  | _ :: ops => hasLost ops

theorem records_map_append (l : List Bytes) (evs : List Ev) : records (l.map Ev.record ++ evs) = l ++ records evs := by
  induction l with
  | nil => rfl
  | cons a t ih => simp [records, ih]

theorem sawConnect_map_append (l : List Bytes) (evs : List Ev) :
    Proofs.C04.sawConnect (l.map Ev.record ++ evs) = Proofs.C04.sawConnect evs := by
  induction l with
  | nil => rfl
  | cons a t ih => simp [Proofs.C04.sawConnect, ih]

theorem sawLost_map_append (l : List Bytes) (evs : List Ev) :
    Proofs.C04.sawLost (l.map Ev.record ++ evs) = Proofs.C04.sawLost evs := by
  induction l with
  | nil => rfl
  | cons a t ih => simp [Proofs.C04.sawLost, ih]

/-- the receiver's `record` events are exactly what the C06 connection surfaced -/
theorem trace_records (E : C06.Env) (x : Nat) : ∀ (ops : List NetOp) (c : C06.Conn), C06.ConsInv c.app →
    c.app.surfaced ++ records (rxTrace E x c ops) = (connRun E x c ops).app.surfaced := by
  intro ops
  induction ops with
  | nil => intro c _; simp [rxTrace, records, connRun, C06.run]
  | cons op ops ih =>
    intro c h
    cases op with
    | data b =>
      obtain ⟨m1, m2⟩ := dataReceived_mono E c b h
      have hstep : C06.step E c (.data b) = (C06.dataReceived E c b).1 := rfl
      have := ih (C06.step E c (.data b)) (by rw [hstep]; exact m2)
      simp only [rxTrace, records_map_append]
      rw [← List.append_assoc]
      have hnew : c.app.surfaced ++ newRecords c (C06.step E c (.data b)) = (C06.step E c (.data b)).app.surfaced := by
        unfold newRecords
        rw [hstep]
        exact prefix_append_drop m1
      rw [hnew, this]
      simp [connRun, C06.run, toC06]
    | attach sc =>
      obtain ⟨s1, s2⟩ := C06.appCall_spec c.app [.consume (some x) sc] h
      have := ih (C06.step E c (.call [.consume (some x) sc])) (by simpa [C06.step] using s2)
      simp only [rxTrace, records]
      have hs : (C06.step E c (.call [.consume (some x) sc])).app.surfaced = c.app.surfaced := by simpa [C06.step] using s1
      rw [← hs, this]
      simp [connRun, C06.run, toC06]
    | lost =>
      obtain ⟨s1, s2, _⟩ := C06.connectionLost_spec c.app h
      have := ih (C06.step E c .lost) (by simpa [C06.step] using s2)
      simp only [rxTrace, records]
      have hs : (C06.step E c .lost).app.surfaced = c.app.surfaced := by simpa [C06.step] using s1
      rw [← hs, this]
      simp [connRun, C06.run, toC06]

theorem trace_sawConnect (E : C06.Env) (x : Nat) : ∀ (ops : List NetOp) (c : C06.Conn),
    Proofs.C04.sawConnect (rxTrace E x c ops) = hasAttach ops := by
  intro ops
  induction ops with
  | nil => intro c; rfl
  | cons op ops ih =>
    intro c
    cases op with
    | data b => simp only [rxTrace, sawConnect_map_append, hasAttach]; exact ih _
    | attach sc => rfl
    | lost => simp only [rxTrace, Proofs.C04.sawConnect, hasAttach]; exact ih _

theorem trace_sawLost (E : C06.Env) (x : Nat) : ∀ (ops : List NetOp) (c : C06.Conn),
    Proofs.C04.sawLost (rxTrace E x c ops) = hasLost ops := by
  intro ops
  induction ops with
  | nil => intro c; rfl
  | cons op ops ih =>
    intro c
    cases op with
    | data b => simp only [rxTrace, sawLost_map_append, hasLost]; exact ih _
    | attach sc => simp only [rxTrace, Proofs.C04.sawLost, hasLost]; exact ih _
    | lost => rfl

theorem init_consInv (b : Bool) (left : Bytes) : C06.ConsInv (C06.Conn.init b left).app := by
  intro h; simp [C06.Conn.init, C06.App.init] at h

theorem init_surfaced (b : Bool) (left : Bytes) : (C06.Conn.init b left).app.surfaced = [] := by
  simp [C06.Conn.init, C06.App.init, C06.App.surfaced, C06.App.delivered]

/-- the records reaching the Xfer receiver = the records the C06 connection accepted -/
theorem net_records (E : C06.Env) (x : Nat) (leftover : Bytes) (ops : List NetOp) :
    records (rxTrace E x (C06.Conn.init false leftover) ops) =
      (connRun E x (C06.Conn.init false leftover) ops).app.surfaced := by
  have := trace_records E x ops (C06.Conn.init false leftover) (init_consInv false leftover)
  rw [init_surfaced] at this
  simpa using this

/-- **the channel hypothesis of the C04 theorems, discharged from C06**: whatever the adversary
    feeds the receiving connection, the records that reach the Xfer receiver are a prefix of the
    records the sender sealed -/
theorem net_channel (E : C06.Env) (x : Nat) (rs : List Bytes) (hcount : rs.length ≤ 256 ^ 24)
    (hid : C06.IdealFor E.box (C06.receiverRecordKey E false) rs) (leftover : Bytes) (ops : List NetOp) :
    records (rxTrace E x (C06.Conn.init false leftover) ops) <+: rs := by
  rw [net_records]
  exact Props.C06.tamper_prefix E false rs hcount hid leftover (ops.map (toC06 x))

/-! ## the ack direction -/

/-- `dict_to_bytes` on the receiver, `bytes_to_dict` + the two lookups on the sender; whatever is
    not a JSON object decodes to `garbage` -/
structure AckCodec where
  enc : AckMsg → Bytes
  dec : Bytes → AckMsg

/-- the codec round-trips the acks an honest receiver sends (`{"ack": "ok", "sha256": <hex>}`) -/
def AckCodec.Ideal (C : AckCodec) : Prop :=
  ∀ d, C.dec (C.enc (.dict (some "ok") (.digest d))) = .dict (some "ok") (.digest d)

/-- the records the receiver's connection is asked to `send_record`: its acks, encoded -/
def ackRecords {τ : Type} (C : AckCodec) (s : Rx τ) : List Bytes := s.acks.map C.enc

/-- what `ack_bytes = yield record_pipe.receive_record()` hands the sender: the first record its
    connection delivers to the application, decoded; `none` = the Deferred never fires, or
    errbacks with ConnectionClosed -/
def senderAck (C : AckCodec) (cs : C06.Conn) : Option AckMsg := cs.app.delivered.head?.map C.dec

theorem head?_of_prefix {α : Type} {l m : List α} (h : l <+: m) : l.head? = none ∨ l.head? = m.head? := by
  obtain ⟨t, rfl⟩ := h
  cases l with
  | nil => exact Or.inl rfl
  | cons a l' => exact Or.inr rfl

/-- whatever happens on the way back and at the sender's connection (any C06 operation sequence),
    the sender sees the receiver's first ack or nothing -/
theorem senderAck_cases {τ : Type} (E : C06.Env) (C : AckCodec) (s : Rx τ) (hC : ∀ a ∈ s.acks, C.dec (C.enc a) = a)
    (hcount : (ackRecords C s).length ≤ 256 ^ 24)
    (hid : C06.IdealFor E.box (C06.receiverRecordKey E true) (ackRecords C s))
    (leftover : Bytes) (ops : List C06.Op) :
    ∃ delivered : Bool, senderAck C (C06.run E (C06.Conn.init true leftover) ops) = ackSeen s delivered := by
  have hpre := Props.C06.tamper_prefix E true (ackRecords C s) hcount hid leftover ops
  have hdel : (C06.run E (C06.Conn.init true leftover) ops).app.delivered <+: ackRecords C s :=
    (List.prefix_append _ _).trans hpre
  rcases head?_of_prefix hdel with h | h
  · exact ⟨false, by simp [senderAck, h, ackSeen]⟩
  · refine ⟨true, ?_⟩
    simp only [senderAck, h, ackSeen, ackRecords, if_true]
    cases hs : s.acks with
    | nil => simp
    | cons a t => simp [hC a (by simp [hs])]

theorem acks_length_le_one {τ : Type} (H : Hash) (Z : Zip τ) (x : Nat) (dm : Bool) (stale : Option Bytes) (evs : List Ev) :
    (runRx H Z x dm stale evs).acks.length ≤ 1 := by
  have hinv := Proofs.C04.inv_run H Z x dm stale evs
  by_cases hp : (runRx H Z x dm stale evs).result = .pending
  · rw [(Proofs.C04.inv_pending hinv hp).2.1]; simp
  · have hd := Proofs.C04.inv_done hinv hp
    cases hr : (runRx H Z x dm stale evs).result with
    | pending => exact absurd hr hp
    | success => rw [(hd.ok hr).2.2.2.2.1]; simp
    | failed e => rw [(hd.bad e hr).2.1]; simp

theorem run_append (E : C06.Env) (c : C06.Conn) (ops ops' : List C06.Op) :
    C06.run E c (ops ++ ops') = C06.run E (C06.run E c ops) ops' := by
  simp [C06.run, List.foldl_append]

theorem trace_append_lost (E : C06.Env) (x : Nat) : ∀ (ops : List NetOp) (c : C06.Conn),
    rxTrace E x c (ops ++ [.lost]) = rxTrace E x c ops ++ [Ev.lost] := by
  intro ops
  induction ops with
  | nil => intro c; rfl
  | cons op ops ih =>
    intro c
    cases op with
    | data b => simp only [List.cons_append, rxTrace, ih, List.append_assoc]
    | attach sc => simp only [List.cons_append, rxTrace, ih]
    | lost => simp only [List.cons_append, rxTrace, ih]

theorem hasLost_map_data (cs : List Bytes) : hasLost (cs.map NetOp.data) = false := by
  induction cs with
  | nil => rfl
  | cons a t ih => simpa [hasLost] using ih

theorem hasAttach_map_data (cs : List Bytes) : hasAttach (cs.map NetOp.data) = false := by
  induction cs with
  | nil => rfl
  | cons a t ih => simpa [hasAttach] using ih

/-- the schedule "attach, then these chunks" on the C06 side is C06's `feed` after its `consume` step -/
theorem connRun_attach_feed (E : C06.Env) (x : Nat) (c : C06.Conn) (sc : List C06.Act) (cs : List Bytes) :
    connRun E x c (.attach sc :: cs.map NetOp.data) = C06.feed E (C06.step E c (.call [.consume (some x) sc])) cs := by
  simp [connRun, C06.run, C06.feed, toC06, List.map_map, Function.comp_def]

/-- the application state right after `writeToFile(f, x)` on a fresh connection -/
theorem attach_fresh (E : C06.Env) (x : Nat) (b : Bool) (sc : List C06.Act) :
    C06.step E (C06.Conn.init b) (.call [.consume (some x) sc]) =
      { C06.Conn.init b with app := C06.appCall C06.App.init [.consume (some x) sc] } := by
  simp [C06.step, C06.Conn.init]

theorem attach_fresh_facts (x : Nat) (sc : List C06.Act) :
    (C06.appCall C06.App.init [.consume (some x) sc]).surfaced = [] ∧
    C06.ConsInv (C06.appCall C06.App.init [.consume (some x) sc]) := by
  have hi : C06.ConsInv C06.App.init := by intro h; simp [C06.App.init] at h
  obtain ⟨s1, s2⟩ := C06.appCall_spec C06.App.init [.consume (some x) sc] hi
  refine ⟨?_, s2⟩
  rw [s1]; simp [C06.App.init, C06.App.surfaced, C06.App.delivered]

theorem acks_roundtrip {τ : Type} (H : Hash) (Z : Zip τ) (C : AckCodec) (hC : C.Ideal) (x : Nat) (dm : Bool)
    (stale : Option Bytes) (evs : List Ev) : ∀ a ∈ (runRx H Z x dm stale evs).acks, C.dec (C.enc a) = a := by
  have hinv := Proofs.C04.inv_run H Z x dm stale evs
  intro a ha
  by_cases hp : (runRx H Z x dm stale evs).result = .pending
  · rw [(Proofs.C04.inv_pending hinv hp).2.1] at ha; simp at ha
  · have hd := Proofs.C04.inv_done hinv hp
    cases hr : (runRx H Z x dm stale evs).result with
    | pending => exact absurd hr hp
    | success =>
      rw [(hd.ok hr).2.2.2.2.1] at ha
      simp at ha
      rw [ha]; exact hC _
    | failed e => rw [(hd.bad e hr).2.1] at ha; simp at ha

/-! ## chunk sizes (for the honest run over C06's `roundtrip`) -/

theorem chunksOf_length_le (k : Nat) : ∀ (fuel : Nat) (m : Bytes), ∀ r ∈ chunksOf k fuel m, r.length ≤ k := by
  intro fuel
  induction fuel with
  | zero => intro m r hr; simp [chunksOf] at hr
  | succ n ih =>
    intro m r hr
    unfold chunksOf at hr
    by_cases he : (m.take k).isEmpty = true
    · simp [he] at hr
    · rw [if_neg he] at hr
      rcases List.mem_cons.mp hr with h | h
      · rw [h]; simp [List.length_take]; omega
      · exact ih _ r h

theorem sendFile_sizes (k : Nat) (src : Bytes) : ∀ r ∈ (sendFile k src).records, r.length ≤ k := by
  unfold sendFile
  by_cases h : src.length = 0
  · simp [h]
  · simp only [h, if_false]
    exact chunksOf_length_le k _ _

end WV.C04Net
