import WV.Proofs.C07_Sel
import WV.Proofs.C07_Cancel

/-! Two-sided world: links between a Sender world and a Receiver world (model `WV.C07.Duo`). -/
namespace WV.Proofs.C07
open WV WV.C07

/-! ### a connection only ever appends to what it has written -/

def flowCtx : Flow → Ctx
  | .next x => x
  | .ret x => x
  | .raise _ x => x

theorem negSucc_out (x : Ctx) : (flowCtx (negotiationSuccessful x)).c.out = x.c.out := by
  unfold negotiationSuccessful
  simp only []
  split <;> rfl

theorem runArm_out (cfg : Cfg) (i : Nat) (a : Arm) (x : Ctx) :
    x.c.out <+: (flowCtx (runArm cfg i a x)).c.out := by
  cases a <;> simp only [runArm]
  all_goals
    repeat' split
    all_goals first
      | exact List.prefix_refl _
      | (simp only [flowCtx]; exact List.prefix_append _ _)
      | (rw [negSucc_out]; first | exact List.prefix_refl _ | exact List.prefix_append _ _)

theorem runArms_out (cfg : Cfg) (i : Nat) (l : List (Option Arm)) : ∀ (x : Ctx),
    x.c.out <+: (flowCtx (runArms cfg i l x)).c.out := by
  induction l with
  | nil => intro x; simp [runArms, flowCtx]
  | cons a rest ih =>
    intro x
    cases a with
    | none => simp [runArms, flowCtx]
    | some a =>
      rw [runArms_cons]
      have h1 := runArm_out cfg i a x
      cases hr : runArm cfg i a x with
      | next y => rw [hr] at h1; simp only [flowCtx] at h1; exact h1.trans (ih y)
      | ret y => rw [hr] at h1; simpa [flowCtx] using h1
      | raise e y => rw [hr] at h1; simpa [flowCtx] using h1

theorem wrap_out (f : Flow) : (wrap f).1.c.out = (flowCtx f).c.out := by
  cases f <;> rfl

theorem dataRecv_out (cfg : Cfg) (w : Option Nat) (i : Nat) (c : Conn) (d : Bytes) :
    c.out <+: (dataRecv cfg w i c d).1.c.out := by
  rw [dataRecv_eq, wrap_out]
  split
  · exact List.prefix_refl _
  · exact runArms_out cfg i WV.C07.arms ⟨w, { c with buf := c.buf ++ d, rx := c.rx ++ d }, none⟩


/-! ### what one step of one side does to an existing connection -/

/-- the bytes connection `j` receives in event `e` -/
def recvOf : Event → Nat → Bytes
  | .data i d, j => if i = j then d else []
  | _, _ => []

def Keep (w w' : World) : Prop :=
  ∀ j c, w.conns j = some c →
    ∃ c', w'.conns j = some c' ∧ c'.out = c.out ∧ c'.relayHs = c.relayHs ∧ c'.rx = c.rx

theorem Keep.of_quiet {w w' : World} (q : Quiet w w') : Keep w w' := by
  intro j c hc
  rcases q.conns j with ⟨hn, _⟩ | ⟨a, b, ha, hb, hab⟩
  · rw [hn] at hc; cases hc
  · rw [ha] at hc; cases hc
    exact ⟨b, hb, hab.keeps.1, hab.keeps.2.2.1, hab.keeps.2.1⟩

/-- after `applyCtx w i x`: connection `i` is `x.c` up to benign updates, the others are kept -/
theorem applyCtx_conns (w : World) (i : Nat) (x : Ctx) :
    (∃ c', (applyCtx w i x).conns i = some c' ∧ c'.out = x.c.out ∧ c'.relayHs = x.c.relayHs ∧ c'.rx = x.c.rx) ∧
    (∀ j c, j ≠ i → w.conns j = some c →
      ∃ c', (applyCtx w i x).conns j = some c' ∧ c'.out = c.out ∧ c'.relayHs = c.relayHs ∧ c'.rx = c.rx) ∧
    (applyCtx w i x).n = w.n := by
  have hk : Keep { (w.setConn i x.c) with winner := x.winner } (applyCtx w i x) ∧
      (applyCtx w i x).n = w.n := by
    unfold applyCtx
    simp only []
    split
    · exact ⟨Keep.of_quiet (negFired_quiet _ _ _), (negFired_quiet _ _ _).n⟩
    · exact ⟨Keep.of_quiet (Quiet.refl _), rfl⟩
  refine ⟨hk.1 i x.c (by simp [World.setConn]), ?_, hk.2⟩
  intro j c hj hc
  exact hk.1 j c (by simp [World.setConn, hj, hc])

theorem addConn_keep {w : World} (hI : WInv w) (rh : Option Bytes) (ow : Option Nat) :
    Keep w (addConn w rh ow).1 := by
  intro j' c' hc'
  have hj' : j' ≠ w.n := by
    intro e'; subst e'; rw [hI.bound w.n (Nat.le_refl _)] at hc'; cases hc'
  unfold addConn
  simp only []
  cases ow <;> exact (applyCtx_conns _ _ _).2.1 j' c' hj' hc'

theorem evInbound_keep {w : World} (hI : WInv w) {p : World × Option Err} (hE : evInbound w = some p) :
    Keep w p.1 := by
  unfold evInbound at hE
  split at hE
  · split at hE
    · cases hE; exact addConn_keep hI _ _
    · cases hE
      intro j c hc
      have hj : j ≠ w.n := by
        intro e; subst e; rw [hI.bound w.n (Nat.le_refl _)] at hc; cases hc
      exact ⟨c, by simp [addOrphan, World.setConn, hj, hc], rfl, rfl, rfl⟩
  · cases hE

theorem evConnected_keep {w : World} (hI : WInv w) {k : Nat} {p : World × Option Err}
    (hE : evConnected w k = some p) : Keep w p.1 := by
  unfold evConnected at hE
  split at hE
  · split at hE
    · cases hE; exact addConn_keep hI _ _
    · cases hE
  · cases hE

theorem step_conn {w : World} (hI : WInv w) (e : Event) (j : Nat) (c : Conn) (hc : w.conns j = some c) :
    ∃ c', (step w e).conns j = some c' ∧ c.out <+: c'.out ∧ c'.relayHs = c.relayHs ∧
      c'.rx = c.rx ++ recvOf e j := by
  have hj : j < w.n := by
    apply Nat.lt_of_not_le; intro hh; rw [hI.bound j hh] at hc; cases hc
  have fromKeep : ∀ w', Keep w w' → recvOf e j = [] →
      ∃ c', w'.conns j = some c' ∧ c.out <+: c'.out ∧ c'.relayHs = c.relayHs ∧ c'.rx = c.rx ++ recvOf e j := by
    intro w' hk hr
    obtain ⟨c', h1, h2, h3, h4⟩ := hk j c hc
    exact ⟨c', h1, by rw [h2]; exact List.prefix_refl _, h3, by rw [h4, hr]; simp⟩
  cases e with
  | inbound =>
    simp only [step]
    cases hE : evInbound w with
    | none => exact fromKeep w (Keep.of_quiet (Quiet.refl w)) rfl
    | some p => exact fromKeep _ (evInbound_keep hI hE) rfl
  | connect =>
    simp only [step]
    split
    · cases hE : evConnect w with
      | none => exact fromKeep w (Keep.of_quiet (Quiet.refl w)) rfl
      | some w' => exact fromKeep _ (Keep.of_quiet (evConnect_quiet hE)) rfl
    · exact fromKeep w (Keep.of_quiet (Quiet.refl w)) rfl
  | connected k =>
    simp only [step]
    cases hE : evConnected w k with
    | none => exact fromKeep w (Keep.of_quiet (Quiet.refl w)) rfl
    | some p => exact fromKeep _ (evConnected_keep hI hE) rfl
  | connFail k e =>
    simp only [step]
    cases hE : evConnFail w k e with
    | none => exact fromKeep w (Keep.of_quiet (Quiet.refl w)) rfl
    | some w' => exact fromKeep _ (Keep.of_quiet (evConnFail_quiet hE)) rfl
  | lost i => exact fromKeep _ (Keep.of_quiet (evLost_quiet w i)) rfl
  | advance dt => exact fromKeep _ (Keep.of_quiet (evAdvance_quiet w dt)) rfl
  | setKey => exact fromKeep _ (Keep.of_quiet (Quiet.of_eq rfl rfl rfl rfl)) rfl
  | data i d =>
    simp only [step, evData]
    cases hci : w.conns i with
    | none =>
      simp only []
      have : i ≠ j := by intro e'; subst e'; rw [hci] at hc; cases hc
      exact ⟨c, hc, List.prefix_refl _, rfl, by simp [recvOf, this]⟩
    | some ci =>
      simp only []
      obtain ⟨hself, hothers, _⟩ := applyCtx_conns w i (dataRecv w.cfg w.winner i ci d).1
      by_cases hij : i = j
      · subst hij
        rw [hci] at hc; cases hc
        obtain ⟨c', h1, h2, h3, h4⟩ := hself
        have ht := dataRecv_ok (cfg := w.cfg) (w0 := w.winner) (i := i) d (hI.conns i c hci)
        refine ⟨c', h1, by rw [h2]; exact dataRecv_out _ _ _ _ _, by rw [h3]; exact ht.rel, ?_⟩
        rw [h4, ht.rx]; simp [recvOf]
      · obtain ⟨c', h1, h2, h3, h4⟩ := hothers j c (fun e' => hij e'.symm) hc
        exact ⟨c', h1, by rw [h2]; exact List.prefix_refl _, h3, by rw [h4]; simp [recvOf, hij]⟩


/-! ### a new connection -/

theorem startNeg_rx {cfg : Cfg} {w0 : Option Nat} {i : Nat} (rh : Option Bytes) (ow : Option Nat) (t : Timer)
    (hw : w0 ≠ some i) : (startNegotiation cfg w0 i (newConn rh ow t)).1.c.rx = [] := by
  unfold startNegotiation
  cases rh with
  | some y =>
    have hc : CInv cfg w0 i { newConn (some y) ow t with out := (newConn (some y) ow t).out ++ [y], state := CState.relay } :=
      CInv_Y (by simp [hsOut, newConn]) hw (by simp [newConn]) (by simp)
        (by intro _; simp [relay_ok_len, newConn])
    have ht := dataRecv_ok (cfg := cfg) (w0 := w0) (i := i) [] hc
    exact ht.rx.trans (by simp [newConn])
  | none =>
    have ht := dataRecv_start (cfg := cfg) (w0 := w0) (i := i)
      (c := { newConn none ow t with state := CState.start }) []
      rfl (by simp [hsOut, newConn]) hw (by simp [pre, newConn]) (by simp [newConn])
    exact ht.rx.trans (by simp [newConn])

theorem addConn_new {w : World} (hI : WInv w) (rh : Option Bytes) (ow : Option Nat) :
    ∃ c', (addConn w rh ow).1.conns w.n = some c' ∧ c'.rx = [] ∧ c'.relayHs = rh ∧
      (addConn w rh ow).1.n = w.n + 1 := by
  have hw : w.winner ≠ some w.n := by
    intro hh; have := hI.winner _ hh; omega
  have h1 := startNeg_rx (cfg := w.cfg) (w0 := w.winner) (i := w.n) rh ow (w.now + Gen.Transit.TIMEOUT_s, w.seq) hw
  have h2 := (startNeg_ok (cfg := w.cfg) (w0 := w.winner) (i := w.n) rh ow (w.now + Gen.Transit.TIMEOUT_s, w.seq) hw).2.2
  unfold addConn
  simp only []
  cases ow with
  | none =>
    simp only []
    obtain ⟨⟨c', e1, _, e3, e4⟩, _, en⟩ := applyCtx_conns
      { w with n := w.n + 1, seq := w.seq + 1, fPending := w.fPending ++ [w.n] } w.n
      (startNegotiation w.cfg w.winner w.n (newConn rh none (w.now + Gen.Transit.TIMEOUT_s, w.seq))).1
    exact ⟨c', e1, by rw [e4, h1], by rw [e3, h2], en⟩
  | some k =>
    simp only []
    obtain ⟨⟨c', e1, _, e3, e4⟩, _, en⟩ := applyCtx_conns
      { w with n := w.n + 1, seq := w.seq + 1, cont := setPhase w.cont k (.negotiating w.n) } w.n
      (startNegotiation w.cfg w.winner w.n (newConn rh (some k) (w.now + Gen.Transit.TIMEOUT_s, w.seq))).1
    exact ⟨c', e1, by rw [e4, h1], by rw [e3, h2], en⟩

/-! ### streams -/

theorem streamOf_mono (relay : Bool) {out out' : List Bytes} (h : out <+: out')
    (hne : relay = true → out ≠ []) : streamOf relay out <+: streamOf relay out' := by
  obtain ⟨t, rfl⟩ := h
  unfold streamOf
  cases relay with
  | false => simp
  | true =>
    simp only [if_true]
    have : (out ++ t).drop 1 = out.drop 1 ++ t := by
      cases out with
      | nil => exact absurd rfl (hne rfl)
      | cons a rest => simp
    rw [this]
    simp

theorem prefix_take_drop {l s : Bytes} (h : l <+: s) (n : Nat) : l ++ (s.drop l.length).take n <+: s := by
  obtain ⟨t, rfl⟩ := h
  simp
  exact List.take_prefix _ _


/-! ### the link invariant -/

structure LinkOK (d : Duo) (L : Link) : Prop where
  ex : ∃ a b, d.s.conns L.sEnd = some a ∧ d.r.conns L.rEnd = some b ∧
        b.rx <+: streamOf L.relay a.out ∧ a.rx <+: streamOf L.relay b.out ∧
        a.relayHs.isSome = L.relay ∧ b.relayHs.isSome = L.relay

structure LInv (d : Duo) : Prop where
  ws : WInv d.s
  wr : WInv d.r
  ok : ∀ L, L ∈ d.links → LinkOK d L
  injS : ∀ L L', L ∈ d.links → L' ∈ d.links → L.sEnd = L'.sEnd → L = L'
  injR : ∀ L L', L ∈ d.links → L' ∈ d.links → L.rEnd = L'.rEnd → L = L'

theorem out_ne_of_relay {cfg : Cfg} {w : Option Nat} {i : Nat} {c : Conn} (h : CInv cfg w i c)
    (hr : c.relayHs.isSome = true) : c.out ≠ [] := by
  cases hrh : c.relayHs with
  | none => rw [hrh] at hr; cases hr
  | some r =>
    have hh : hsOut c = [r] := by simp [hsOut, hrh]
    rcases h.shape with e | e | e | e <;> (rw [e, hh]; simp)

/-- the Sender's world makes a step; what its link ends receive in it stays within what the peer
    ends have written -/
theorem LInv_sideS {d : Duo} (h : LInv d) (e : Event)
    (hrx : ∀ L, L ∈ d.links → ∀ a b, d.s.conns L.sEnd = some a → d.r.conns L.rEnd = some b →
      a.rx ++ recvOf e L.sEnd <+: streamOf L.relay b.out) :
    LInv { d with s := step d.s e } := by
  refine ⟨WInv_step h.ws e, h.wr, ?_, h.injS, h.injR⟩
  intro L hL
  obtain ⟨a, b, ha, hb, h1, h2, h3, h4⟩ := (h.ok L hL).ex
  obtain ⟨a', ha', ho, hr, hx⟩ := step_conn h.ws e L.sEnd a ha
  refine ⟨a', b, ha', hb, ?_, ?_, by rw [hr]; exact h3, h4⟩
  · refine h1.trans (streamOf_mono L.relay ho ?_)
    intro hrel
    exact out_ne_of_relay (h.ws.conns L.sEnd a ha) (by rw [h3]; exact hrel)
  · rw [hx]; exact hrx L hL a b ha hb

theorem LInv_sideR {d : Duo} (h : LInv d) (e : Event)
    (hrx : ∀ L, L ∈ d.links → ∀ a b, d.s.conns L.sEnd = some a → d.r.conns L.rEnd = some b →
      b.rx ++ recvOf e L.rEnd <+: streamOf L.relay a.out) :
    LInv { d with r := step d.r e } := by
  refine ⟨h.ws, WInv_step h.wr e, ?_, h.injS, h.injR⟩
  intro L hL
  obtain ⟨a, b, ha, hb, h1, h2, h3, h4⟩ := (h.ok L hL).ex
  obtain ⟨b', hb', ho, hr, hx⟩ := step_conn h.wr e L.rEnd b hb
  refine ⟨a, b', ha, hb', ?_, ?_, h3, by rw [hr]; exact h4⟩
  · rw [hx]; exact hrx L hL a b ha hb
  · refine h2.trans (streamOf_mono L.relay ho ?_)
    intro hrel
    exact out_ne_of_relay (h.wr.conns L.rEnd b hb) (by rw [h4]; exact hrel)

theorem sLinked_iff (d : Duo) (i : Nat) : sLinked d i = true ↔ ∃ L, L ∈ d.links ∧ L.sEnd = i := by
  unfold sLinked; simp [List.any_eq_true]
theorem rLinked_iff (d : Duo) (i : Nat) : rLinked d i = true ↔ ∃ L, L ∈ d.links ∧ L.rEnd = i := by
  unfold rLinked; simp [List.any_eq_true]

/-- a new pair of connections, one on each side, becomes a link -/
theorem LInv_mkLink {d : Duo} (h : LInv d) {ps pr : Option (World × Option Err)} (relay : Bool)
    (hs : ∀ p, ps = some p → WInv p.1 ∧ Keep d.s p.1 ∧
      ∃ c', p.1.conns d.s.n = some c' ∧ c'.rx = [] ∧ c'.relayHs.isSome = relay)
    (hr : ∀ p, pr = some p → WInv p.1 ∧ Keep d.r p.1 ∧
      ∃ c', p.1.conns d.r.n = some c' ∧ c'.rx = [] ∧ c'.relayHs.isSome = relay) :
    LInv (mkLink d ps pr relay) := by
  unfold mkLink
  cases hps : ps with
  | none => exact h
  | some p =>
    cases hpr : pr with
    | none => exact h
    | some q =>
      obtain ⟨s', es⟩ := p
      obtain ⟨r', er⟩ := q
      simp only []
      obtain ⟨ws', ks, a0, ha0, hrx0, hrel0⟩ := hs _ hps
      obtain ⟨wr', kr, b0, hb0, hrxb0, hrelb0⟩ := hr _ hpr
      have oldS : ∀ L, L ∈ d.links → L.sEnd < d.s.n := by
        intro L hL
        obtain ⟨a, _, ha, _⟩ := (h.ok L hL).ex
        apply Nat.lt_of_not_le; intro hh; rw [h.ws.bound _ hh] at ha; cases ha
      have oldR : ∀ L, L ∈ d.links → L.rEnd < d.r.n := by
        intro L hL
        obtain ⟨_, b, _, hb, _⟩ := (h.ok L hL).ex
        apply Nat.lt_of_not_le; intro hh; rw [h.wr.bound _ hh] at hb; cases hb
      refine ⟨ws', wr', ?_, ?_, ?_⟩
      · intro L hL
        rcases List.mem_append.mp hL with hL | hL
        · obtain ⟨a, b, ha, hb, h1, h2, h3, h4⟩ := (h.ok L hL).ex
          obtain ⟨a', ha', o1, r1, x1⟩ := ks L.sEnd a ha
          obtain ⟨b', hb', o2, r2, x2⟩ := kr L.rEnd b hb
          exact ⟨a', b', ha', hb', by rw [x2, o1]; exact h1, by rw [x1, o2]; exact h2,
            by rw [r1]; exact h3, by rw [r2]; exact h4⟩
        · simp at hL; subst hL
          exact ⟨a0, b0, ha0, hb0, by rw [hrxb0]; exact List.nil_prefix, by rw [hrx0]; exact List.nil_prefix,
            hrel0, hrelb0⟩
      · intro L L' hL hL' he
        rcases List.mem_append.mp hL with hL | hL <;> rcases List.mem_append.mp hL' with hL' | hL'
        · exact h.injS L L' hL hL' he
        · simp at hL'; subst hL'; have := oldS L hL; simp at he; omega
        · simp at hL; subst hL; have := oldS L' hL'; simp at he; omega
        · simp at hL hL'; rw [hL, hL']
      · intro L L' hL hL' he
        rcases List.mem_append.mp hL with hL | hL <;> rcases List.mem_append.mp hL' with hL' | hL'
        · exact h.injR L L' hL hL' he
        · simp at hL'; subst hL'; have := oldR L hL; simp at he; omega
        · simp at hL; subst hL; have := oldR L' hL'; simp at he; omega
        · simp at hL hL'; rw [hL, hL']

theorem evInbound_new {w : World} (hI : WInv w) {p : World × Option Err} (hE : evInbound w = some p) :
    WInv p.1 ∧ Keep w p.1 ∧ ∃ c', p.1.conns w.n = some c' ∧ c'.rx = [] ∧ c'.relayHs.isSome = false := by
  refine ⟨WInv_evInbound hI hE, evInbound_keep hI hE, ?_⟩
  unfold evInbound at hE
  split at hE
  · split at hE
    · cases hE
      obtain ⟨c', h1, h2, h3, _⟩ := addConn_new hI none none
      exact ⟨c', h1, h2, by rw [h3]; rfl⟩
    · cases hE
      refine ⟨{ newConn none none (w.now + Gen.Transit.TIMEOUT_s, w.seq) with
          state := .hungUp, timer := none, err := some .assertion, lost := 1, negD := .fail .assertion }, ?_, rfl, rfl⟩
      simp [addOrphan, World.setConn]
      decide
  · cases hE

theorem evConnected_new {w : World} (hI : WInv w) {k : Nat} {p : World × Option Err}
    (hE : evConnected w k = some p) :
    WInv p.1 ∧ Keep w p.1 ∧ ∃ c', p.1.conns w.n = some c' ∧ c'.rx = [] ∧
      c'.relayHs.isSome = isRelayKind (kindAt w k) := by
  refine ⟨WInv_evConnected hI hE, evConnected_keep hI hE, ?_⟩
  unfold evConnected at hE
  split at hE
  · rename_i c hc
    split at hE
    · cases hE
      obtain ⟨c', h1, h2, h3, _⟩ := addConn_new hI
        (match c.kind with | .relay _ => some w.cfg.relayHs | _ => none) (some k)
      refine ⟨c', h1, h2, ?_⟩
      rw [h3]
      unfold kindAt; rw [hc]
      cases hk : c.kind <;> simp [isRelayKind, hk]
    · cases hE
  · cases hE

theorem LInv_dstep {d : Duo} (h : LInv d) (ev : DEvent) : LInv (dstep d ev) := by
  have nilS : ∀ (e : Event), (∀ L, L ∈ d.links → recvOf e L.sEnd = []) →
      LInv { d with s := step d.s e } := by
    intro e he
    apply LInv_sideS h e
    intro L hL a b ha hb
    rw [he L hL]; simp
    obtain ⟨a', b', ha', hb', _, h2, _⟩ := (h.ok L hL).ex
    rw [ha] at ha'; cases ha'; rw [hb] at hb'; cases hb'; exact h2
  have nilR : ∀ (e : Event), (∀ L, L ∈ d.links → recvOf e L.rEnd = []) →
      LInv { d with r := step d.r e } := by
    intro e he
    apply LInv_sideR h e
    intro L hL a b ha hb
    rw [he L hL]; simp
    obtain ⟨a', b', ha', hb', h1, _⟩ := (h.ok L hL).ex
    rw [ha] at ha'; cases ha'; rw [hb] at hb'; cases hb'; exact h1
  cases ev with
  | s e =>
    cases e with
    | data i b =>
      simp only [dstep]
      split
      · exact h
      · rename_i hl
        apply nilS
        intro L hL
        simp only [recvOf]
        have : i ≠ L.sEnd := by
          intro e'; apply hl; exact (sLinked_iff d i).mpr ⟨L, hL, e'.symm⟩
        simp [this]
    | inbound => exact nilS _ (fun _ _ => rfl)
    | connect => exact nilS _ (fun _ _ => rfl)
    | connected k => exact nilS _ (fun _ _ => rfl)
    | connFail k e => exact nilS _ (fun _ _ => rfl)
    | lost i => exact nilS _ (fun _ _ => rfl)
    | advance dt => exact nilS _ (fun _ _ => rfl)
    | setKey => exact nilS _ (fun _ _ => rfl)
  | r e =>
    cases e with
    | data i b =>
      simp only [dstep]
      split
      · exact h
      · rename_i hl
        apply nilR
        intro L hL
        simp only [recvOf]
        have : i ≠ L.rEnd := by
          intro e'; apply hl; exact (rLinked_iff d i).mpr ⟨L, hL, e'.symm⟩
        simp [this]
    | inbound => exact nilR _ (fun _ _ => rfl)
    | connect => exact nilR _ (fun _ _ => rfl)
    | connected k => exact nilR _ (fun _ _ => rfl)
    | connFail k e => exact nilR _ (fun _ _ => rfl)
    | lost i => exact nilR _ (fun _ _ => rfl)
    | advance dt => exact nilR _ (fun _ _ => rfl)
    | setKey => exact nilR _ (fun _ _ => rfl)
  | link how =>
    cases how with
    | sListens k =>
      simp only [dstep]
      split
      · rename_i hk
        apply LInv_mkLink h false
        · intro p hp; exact evInbound_new h.ws hp
        · intro p hp
          obtain ⟨h1, h2, c', h3, h4, h5⟩ := evConnected_new h.wr hp
          exact ⟨h1, h2, c', h3, h4, by rw [h5, hk]; rfl⟩
      · exact h
    | rListens k =>
      simp only [dstep]
      split
      · rename_i hk
        apply LInv_mkLink h false
        · intro p hp
          obtain ⟨h1, h2, c', h3, h4, h5⟩ := evConnected_new h.ws hp
          exact ⟨h1, h2, c', h3, h4, by rw [h5, hk]; rfl⟩
        · intro p hp; exact evInbound_new h.wr hp
      · exact h
    | viaRelay ks kr =>
      simp only [dstep]
      split
      · rename_i hk
        simp only [Bool.and_eq_true] at hk
        apply LInv_mkLink h true
        · intro p hp
          obtain ⟨h1, h2, c', h3, h4, h5⟩ := evConnected_new h.ws hp
          exact ⟨h1, h2, c', h3, h4, by rw [h5, hk.1]⟩
        · intro p hp
          obtain ⟨h1, h2, c', h3, h4, h5⟩ := evConnected_new h.wr hp
          exact ⟨h1, h2, c', h3, h4, by rw [h5, hk.2]⟩
      · exact h
  | fwdSR l n =>
    simp only [dstep]
    split
    · rename_i L0 hL0
      have hmem : L0 ∈ d.links := List.mem_of_getElem? hL0
      split
      · rename_i a0 b0 ha0 hb0
        apply LInv_sideR h
        intro L hL a b ha hb
        simp only [recvOf]
        by_cases he : L0.rEnd = L.rEnd
        · have := h.injR L0 L hmem hL he
          subst this
          rw [ha0] at ha; cases ha; rw [hb0] at hb; cases hb
          simp only [if_true]
          obtain ⟨a', b', ha', hb', h1, _⟩ := (h.ok L0 hmem).ex
          rw [ha0] at ha'; cases ha'; rw [hb0] at hb'; cases hb'
          exact prefix_take_drop h1 n
        · simp only [he, if_false, List.append_nil]
          obtain ⟨a', b', ha', hb', h1, _⟩ := (h.ok L hL).ex
          rw [ha] at ha'; cases ha'; rw [hb] at hb'; cases hb'; exact h1
      · exact h
    · exact h
  | fwdRS l n =>
    simp only [dstep]
    split
    · rename_i L0 hL0
      have hmem : L0 ∈ d.links := List.mem_of_getElem? hL0
      split
      · rename_i a0 b0 ha0 hb0
        apply LInv_sideS h
        intro L hL a b ha hb
        simp only [recvOf]
        by_cases he : L0.sEnd = L.sEnd
        · have := h.injS L0 L hmem hL he
          subst this
          rw [ha0] at ha; cases ha; rw [hb0] at hb; cases hb
          simp only [if_true]
          obtain ⟨a', b', ha', hb', _, h2, _⟩ := (h.ok L0 hmem).ex
          rw [ha0] at ha'; cases ha'; rw [hb0] at hb'; cases hb'
          exact prefix_take_drop h2 n
        · simp only [he, if_false, List.append_nil]
          obtain ⟨a', b', ha', hb', _, h2, _⟩ := (h.ok L hL).ex
          rw [ha] at ha'; cases ha'; rw [hb] at hb'; cases hb'; exact h2
      · exact h
    · exact h

theorem LInv_init (cfgS cfgR : Cfg) (ls : Bool) (ds : Nat) (rs : List Nat) (lr : Bool) (dr : Nat) (rr : List Nat) :
    LInv (initDuo cfgS cfgR ls ds rs lr dr rr) :=
  ⟨WInv_init _ _ _ _, WInv_init _ _ _ _, by intro L h; simp [initDuo] at h,
   by intro L L' h; simp [initDuo] at h, by intro L L' h; simp [initDuo] at h⟩

theorem LInv_drun {d : Duo} (h : LInv d) (evs : List DEvent) : LInv (drun d evs) := by
  induction evs generalizing d with
  | nil => exact h
  | cons e rest ih => exact ih (LInv_dstep h e)


/-! ### each side of a two-sided run is a one-sided run -/

theorem run_append (w : World) (a b : List Event) : run (run w a) b = run w (a ++ b) := by
  unfold run; rw [List.foldl_append]

theorem mkLink_sides (d : Duo) (es er : Event) (relay : Bool)
    (ps pr : Option (World × Option Err))
    (hs : ∀ p, ps = some p → p.1 = step d.s es) (hr : ∀ p, pr = some p → p.1 = step d.r er) :
    (∃ l, (mkLink d ps pr relay).s = run d.s l) ∧ (∃ l, (mkLink d ps pr relay).r = run d.r l) := by
  unfold mkLink
  cases hps : ps with
  | none => exact ⟨⟨[], rfl⟩, ⟨[], rfl⟩⟩
  | some p =>
    cases hpr : pr with
    | none => exact ⟨⟨[], rfl⟩, ⟨[], rfl⟩⟩
    | some q =>
      obtain ⟨s', x⟩ := p
      obtain ⟨r', y⟩ := q
      exact ⟨⟨[es], by simp only []; exact hs _ hps⟩, ⟨[er], by simp only []; exact hr _ hpr⟩⟩

theorem step_inbound_eq {w : World} {p : World × Option Err} (h : evInbound w = some p) :
    p.1 = step w .inbound := by
  simp only [step, h]

theorem step_connected_eq {w : World} {k : Nat} {p : World × Option Err} (h : evConnected w k = some p) :
    p.1 = step w (.connected k) := by
  simp only [step, h]

theorem dstep_sides (d : Duo) (ev : DEvent) :
    (∃ l, (dstep d ev).s = run d.s l) ∧ (∃ l, (dstep d ev).r = run d.r l) := by
  cases ev with
  | s e =>
    cases e with
    | data i b =>
      simp only [dstep]
      split
      · exact ⟨⟨[], rfl⟩, ⟨[], rfl⟩⟩
      · exact ⟨⟨[.data i b], rfl⟩, ⟨[], rfl⟩⟩
    | inbound => exact ⟨⟨[.inbound], rfl⟩, ⟨[], rfl⟩⟩
    | connect => exact ⟨⟨[.connect], rfl⟩, ⟨[], rfl⟩⟩
    | connected k => exact ⟨⟨[.connected k], rfl⟩, ⟨[], rfl⟩⟩
    | connFail k e => exact ⟨⟨[.connFail k e], rfl⟩, ⟨[], rfl⟩⟩
    | lost i => exact ⟨⟨[.lost i], rfl⟩, ⟨[], rfl⟩⟩
    | advance dt => exact ⟨⟨[.advance dt], rfl⟩, ⟨[], rfl⟩⟩
    | setKey => exact ⟨⟨[.setKey], rfl⟩, ⟨[], rfl⟩⟩
  | r e =>
    cases e with
    | data i b =>
      simp only [dstep]
      split
      · exact ⟨⟨[], rfl⟩, ⟨[], rfl⟩⟩
      · exact ⟨⟨[], rfl⟩, ⟨[.data i b], rfl⟩⟩
    | inbound => exact ⟨⟨[], rfl⟩, ⟨[.inbound], rfl⟩⟩
    | connect => exact ⟨⟨[], rfl⟩, ⟨[.connect], rfl⟩⟩
    | connected k => exact ⟨⟨[], rfl⟩, ⟨[.connected k], rfl⟩⟩
    | connFail k e => exact ⟨⟨[], rfl⟩, ⟨[.connFail k e], rfl⟩⟩
    | lost i => exact ⟨⟨[], rfl⟩, ⟨[.lost i], rfl⟩⟩
    | advance dt => exact ⟨⟨[], rfl⟩, ⟨[.advance dt], rfl⟩⟩
    | setKey => exact ⟨⟨[], rfl⟩, ⟨[.setKey], rfl⟩⟩
  | link how =>
    cases how with
    | sListens k =>
      simp only [dstep]
      split
      · exact mkLink_sides d .inbound (.connected k) false _ _ (fun _ h => step_inbound_eq h)
          (fun _ h => step_connected_eq h)
      · exact ⟨⟨[], rfl⟩, ⟨[], rfl⟩⟩
    | rListens k =>
      simp only [dstep]
      split
      · exact mkLink_sides d (.connected k) .inbound false _ _ (fun _ h => step_connected_eq h)
          (fun _ h => step_inbound_eq h)
      · exact ⟨⟨[], rfl⟩, ⟨[], rfl⟩⟩
    | viaRelay ks kr =>
      simp only [dstep]
      split
      · exact mkLink_sides d (.connected ks) (.connected kr) true _ _ (fun _ h => step_connected_eq h)
          (fun _ h => step_connected_eq h)
      · exact ⟨⟨[], rfl⟩, ⟨[], rfl⟩⟩
  | fwdSR l n =>
    simp only [dstep]
    repeat' split
    all_goals first
      | exact ⟨⟨[], rfl⟩, ⟨[], rfl⟩⟩
      | exact ⟨⟨[], rfl⟩, ⟨[.data _ _], rfl⟩⟩
  | fwdRS l n =>
    simp only [dstep]
    repeat' split
    all_goals first
      | exact ⟨⟨[], rfl⟩, ⟨[], rfl⟩⟩
      | exact ⟨⟨[.data _ _], rfl⟩, ⟨[], rfl⟩⟩

theorem drun_sides (d : Duo) (evs : List DEvent) :
    (∃ l, (drun d evs).s = run d.s l) ∧ (∃ l, (drun d evs).r = run d.r l) := by
  induction evs generalizing d with
  | nil => exact ⟨⟨[], rfl⟩, ⟨[], rfl⟩⟩
  | cons e rest ih =>
    obtain ⟨⟨l1, h1⟩, ⟨l2, h2⟩⟩ := dstep_sides d e
    obtain ⟨⟨l3, h3⟩, ⟨l4, h4⟩⟩ := ih (dstep d e)
    refine ⟨⟨l1 ++ l3, ?_⟩, ⟨l2 ++ l4, ?_⟩⟩
    · show (drun (dstep d e) rest).s = _
      rw [h3, h1, run_append]
    · show (drun (dstep d e) rest).r = _
      rw [h4, h2, run_append]


/-! ### same link -/

/-- both sides hold the same transit key: what one sends is what the other expects -/
structure SharedKey (cfgS cfgR : Cfg) : Prop where
  sender : cfgS.isSender = true
  receiver : cfgR.isSender = false
  sr : cfgS.sendThis = cfgR.expectThis
  rs : cfgR.sendThis = cfgS.expectThis

/-- a party without the key cannot produce the handshake: no connection that is not an end of a
    link (a stranger's, or a peer's with a different key) has delivered the expected key-derived
    string.  (Monotone: if it holds at the end of a run it held all along.) -/
structure Keyless (d : Duo) : Prop where
  s : ∀ i c, d.s.conns i = some c → sLinked d i = false → ¬ (pre c ++ d.s.cfg.expectThis) <+: c.rx
  r : ∀ i c, d.r.conns i = some c → rLinked d i = false → ¬ (pre c ++ d.r.cfg.expectThis) <+: c.rx

theorem goexp_not_prefix_nm : ¬ Gen.Transit.GO_EXPECTED <+: Gen.Transit.NEVERMIND := by
  rw [← List.isPrefixOf_iff_prefix]; decide

theorem goexp_len : Gen.Transit.GO_EXPECTED.length = 3 := by decide

/-- a Receiver connection whose negotiation succeeded is the Receiver's end of a link whose
    Sender's end is the connection the Sender wrote `go` on -/
theorem recv_ok_link {d : Duo} (h : LInv d) (hk : SharedKey d.s.cfg d.r.cfg) (hkl : Keyless d)
    (j : Nat) (cb : Conn) (hcb : d.r.conns j = some cb) (hok : cb.negD = .ok) :
    ∃ L, L ∈ d.links ∧ L.rEnd = j ∧ d.s.winner = some L.sEnd ∧
      ∃ a, d.s.conns L.sEnd = some a ∧ a.out = hsOut a ++ [d.s.cfg.sendThis, Gen.Transit.GO] := by
  have hcib := h.wr.conns j cb hcb
  have hpre := hcib.okR hok hk.receiver
  have hlinked : rLinked d j = true := by
    cases hl : rLinked d j with
    | true => rfl
    | false =>
      exfalso
      apply hkl.r j cb hcb hl
      exact (List.prefix_append _ _).trans hpre
  obtain ⟨L, hL, hLj⟩ := (rLinked_iff d j).mp hlinked
  obtain ⟨a, b, ha, hb, h1, _, h3, h4⟩ := (h.ok L hL).ex
  rw [hLj, hcb] at hb; cases hb
  have hcia := h.ws.conns L.sEnd a ha
  -- the stream the Receiver's end can have seen
  have hstream : ∀ tail, a.out = hsOut a ++ tail → streamOf L.relay a.out = pre cb ++ tail.flatten := by
    intro tail ht
    unfold streamOf pre hsOut at *
    cases hrel : L.relay with
    | true =>
      rw [hrel] at h3 h4
      cases hra : a.relayHs with
      | none => rw [hra] at h3; cases h3
      | some r =>
        cases hrb : cb.relayHs with
        | none => rw [hrb] at h4; cases h4
        | some r' =>
          rw [hra] at ht
          simp [ht]
    | false =>
      rw [hrel] at h3 h4
      cases hra : a.relayHs with
      | some r => rw [hra] at h3; cases h3
      | none =>
        cases hrb : cb.relayHs with
        | some r' => rw [hrb] at h4; cases h4
        | none =>
          rw [hra] at ht
          simp [ht]
  have hcut : ∀ tail, a.out = hsOut a ++ tail →
      (d.r.cfg.expectThis ++ Gen.Transit.GO_EXPECTED) <+: tail.flatten := by
    intro tail ht
    have := hpre.trans h1
    rw [hstream tail ht, List.append_assoc] at this
    exact (List.prefix_append_right_inj _).mp this
  have hgo : a.out = hsOut a ++ [d.s.cfg.sendThis, Gen.Transit.GO] := by
    rcases hcia.shape with e | e | e | e
    · have := (hcut [] (by simpa using e)).length_le
      simp [goexp_len] at this
    · have := (hcut [d.s.cfg.sendThis] e).length_le
      simp [goexp_len, hk.sr] at this
      omega
    · exact e
    · have := hcut [d.s.cfg.sendThis, Gen.Transit.NEVERMIND] e
      simp only [List.flatten_cons, List.flatten_nil, List.append_nil, hk.sr] at this
      exact absurd ((List.prefix_append_right_inj _).mp this) goexp_not_prefix_nm
  exact ⟨L, hL, hLj, (hcia.go hgo).2.1, a, ha, hgo⟩

/-- the Sender's selected connection is an end of a link -/
theorem send_ok_link {d : Duo} (h : LInv d) (hk : SharedKey d.s.cfg d.r.cfg) (hkl : Keyless d)
    (i : Nat) (ca : Conn) (hca : d.s.conns i = some ca) (hok : ca.negD = .ok) :
    d.s.winner = some i ∧ ca.out = hsOut ca ++ [d.s.cfg.sendThis, Gen.Transit.GO] ∧
    ∃ L, L ∈ d.links ∧ L.sEnd = i := by
  have hci := h.ws.conns i ca hca
  have hout := hci.okS hok hk.sender
  obtain ⟨_, hw, hpre⟩ := hci.go hout
  refine ⟨hw, hout, ?_⟩
  cases hl : sLinked d i with
  | true => exact (sLinked_iff d i).mp hl
  | false => exact absurd hpre (hkl.s i ca hca hl)

end WV.Proofs.C07
