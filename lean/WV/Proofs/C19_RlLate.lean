import WV.Proofs.C19_RlStr
namespace WV.Proofs.C19
open WV WV.C19 WV.Gen

/-- a predicate on the model state that only looks at Input's state and stored nameplate -/
structure FramedIN (P : St → Prop) : Prop where
  code : ∀ s st, P s → P { s with code := st }
  alloc : ∀ s st, P s → P { s with alloc := st }
  out : ∀ s o, P s → P { s with out := o }
  ret : ∀ s r, P s → P { s with ret := r }
  nps : ∀ s r, P s → P { s with allNameplates := r }
  wl : ∀ s r, P s → P { s with wordlist := r }
  wt : ∀ s r, P s → P { s with waiters := r }
  len : ∀ s r, P s → P { s with length := r }
  latch : ∀ s r, P s → P { s with latch := r }

theorem runOuts_preserves_mem {O : Type} (P : St → Prop) (f : O → St → R) :
    ∀ (outs : List O), (∀ o ∈ outs, ∀ s, P s → P (f o s).1) → ∀ s, P s → P (runOuts f outs s).1
  | [], _, _, h => h
  | o :: os, hf, s, h => by
    have := hf o (by simp) s h
    unfold runOuts
    split
    · next s' heq =>
      rw [heq] at this
      exact runOuts_preserves_mem P f os (fun o ho => hf o (by simp [ho])) s' this
    · exact this

section
variable {P : St → Prop} (F : FramedIN P)
include F

theorem emit_in (c : Cmd) (s : St) (h : P s) : P (emit c s) := F.out _ _ h

theorem codeOut1_in (arg : Str) (o : Code.Output) (s : St) (h : P s) : P (codeOut1 arg o s).1 := by
  cases o <;> simp only [codeOut1] <;> first | exact h | (repeat apply emit_in F) <;> exact h

theorem codeOutAllocated_in (np code : Str) (o : Code.Output) (s : St) (h : P s) :
    P (codeOutAllocated np code o s).1 := by
  cases o <;> simp only [codeOutAllocated] <;> try exact h
  split
  · (repeat apply emit_in F); exact h
  · exact h

theorem codeAllocated_in (np code : Str) (s : St) (h : P s) : P (codeAllocated np code s).1 :=
  fireCode_preserves P _ _ F.code (codeOutAllocated_in F np code) s h

theorem codeGotNameplate_in (np : Str) (s : St) (h : P s) : P (codeGotNameplate np s).1 :=
  fireCode_preserves P _ _ F.code (codeOut1_in F np) s h

theorem codeFinishedInput_in (c : Str) (s : St) (h : P s) : P (codeFinishedInput c s).1 :=
  fireCode_preserves P _ _ F.code (codeOut1_in F c) s h

theorem allocOut0_in (o : Allocator.Output) (s : St) (h : P s) : P (allocOut0 o s).1 := by
  cases o <;> simp only [allocOut0] <;> first | exact h | exact emit_in F _ _ h

theorem allocOutRx_in (np : Str) (rand : List Nat) (o : Allocator.Output) (s : St) (h : P s) :
    P (allocOutRx np rand o s).1 := by
  cases o <;> simp only [allocOutRx] <;> try exact h
  split
  · exact h
  · split
    · exact h
    · exact codeAllocated_in F _ _ _ h

theorem allocOutAllocate_in (n : Nat) (o : Allocator.Output) (s : St) (h : P s) : P (allocOutAllocate n o s).1 := by
  cases o <;> simp only [allocOutAllocate] <;> try exact h
  · exact F.len _ _ h
  · exact emit_in F _ _ (F.len _ _ h)

theorem codeOutAllocateCode_in (n : Nat) (o : Code.Output) (s : St) (h : P s) : P (codeOutAllocateCode n o s).1 := by
  cases o <;> simp only [codeOutAllocateCode] <;> try exact h
  exact fireAlloc_preserves P _ _ F.alloc (allocOutAllocate_in F n) s h

theorem codeSetCode_in (isD : Nat → Bool) (c : Str) (s : St) (h : P s) : P (codeSetCode isD c s).1 := by
  unfold codeSetCode
  split
  · exact h
  · exact fireCode_preserves P _ _ F.code (codeOut1_in F c) s h

theorem inputOut0_in (o : Input.Output) (s : St) (h : P s) : P (inputOut0 o s).1 := by
  cases o <;> simp only [inputOut0] <;> first | exact h | exact emit_in F _ _ h

theorem inputOutGotNameplates_in (l : List Str) (o : Input.Output) (s : St) (h : P s) :
    P (inputOutGotNameplates l o s).1 := by
  cases o <;> simp only [inputOutGotNameplates] <;> first | exact h | exact F.nps _ _ h

theorem inputOutGotWordlist_in (o : Input.Output) (s : St) (h : P s) : P (inputOutGotWordlist o s).1 := by
  cases o <;> simp only [inputOutGotWordlist] <;> try exact h
  · split
    · exact h
    · exact emit_in F _ _ (F.wt _ _ h)
  · exact F.wl _ _ h

/-- every Input output with a string argument except `record_all_nameplates` leaves Input's state and
    stored nameplate alone -/
theorem inputOut1_in (arg : Str) (o : Input.Output) (ho : o ≠ .record_all_nameplates) (s : St) (h : P s) :
    P (inputOut1 arg o s).1 := by
  cases o <;> simp only [inputOut1] <;> try exact h
  · exact F.ret _ _ h
  · split
    · exact F.ret _ _ h
    · exact h
  · split
    · exact h
    · exact codeFinishedInput_in F _ _ h
  · exact F.ret _ _ h
  · exact absurd rfl ho

end

/-- Input has left "typing the nameplate" -/
def late : Input.State → Bool
  | .S2_typing_code_no_wordlist | .S3_typing_code_yes_wordlist | .S4_done => true
  | _ => false

/-- table fact: once the nameplate is chosen, no row leads back and no row records a nameplate again -/
theorem late_closed (st : Input.State) (i : Input.Input) (h : late st = true) :
    match Input.table st i with
    | some (st', outs) => late st' = true ∧ Input.Output.record_all_nameplates ∉ outs
    | none => True := by
  cases st <;> cases i <;> simp [late, Input.table] at h ⊢

theorem framedIN_K (X : Input.State) (Y : Option Str) : FramedIN (fun s => s.inp = X ∧ s.nameplate = Y) :=
  ⟨fun _ _ h => h, fun _ _ h => h, fun _ _ h => h, fun _ _ h => h, fun _ _ h => h, fun _ _ h => h,
   fun _ _ h => h, fun _ _ h => h, fun _ _ h => h⟩

theorem framedIN_late (Y : Option Str) : FramedIN (fun s => late s.inp = true ∧ s.nameplate = Y) :=
  ⟨fun _ _ h => h, fun _ _ h => h, fun _ _ h => h, fun _ _ h => h, fun _ _ h => h, fun _ _ h => h,
   fun _ _ h => h, fun _ _ h => h, fun _ _ h => h⟩

theorem fireInput_late (i : Input.Input) (f : Input.Output → St → R)
    (hf : ∀ (X : Input.State) (Y : Option Str) (o : Input.Output), o ≠ .record_all_nameplates →
      ∀ s, (s.inp = X ∧ s.nameplate = Y) → ((f o s).1.inp = X ∧ (f o s).1.nameplate = Y))
    (s : St) (h : late s.inp = true) :
    late (fireInput i f s).1.inp = true ∧ (fireInput i f s).1.nameplate = s.nameplate := by
  have T := late_closed s.inp i h
  unfold fireInput
  split
  · exact ⟨h, rfl⟩
  · next st' outs heq =>
    rw [heq] at T
    simp only at T
    have := runOuts_preserves_mem (fun x => x.inp = st' ∧ x.nameplate = s.nameplate) f outs
      (fun o ho x hx => hf st' s.nameplate o (fun e => T.2 (e ▸ ho)) x hx) { s with inp := st' } ⟨rfl, rfl⟩
    exact ⟨by rw [this.1]; exact T.1, this.2⟩

/-- **once the nameplate is chosen it is never changed again**, whatever happens -/
theorem step_late (isD : Nat → Bool) (s : St) (e : Ev) (h : late s.inp = true) :
    late (step isD s e).1.inp = true ∧ (step isD s e).1.nameplate = s.nameplate := by
  have F := framedIN_late s.nameplate
  have h0 : late ({ s with ret := none } : St).inp = true ∧ ({ s with ret := none } : St).nameplate = s.nameplate := ⟨h, rfl⟩
  have hstart : ∀ x : St, (late x.inp = true ∧ x.nameplate = s.nameplate) →
      (late (inputStart x).1.inp = true ∧ (inputStart x).1.nameplate = s.nameplate) := by
    intro x hx
    have := fireInput_late .start inputOut0 (fun X Y o _ s hs => inputOut0_in (framedIN_K X Y) o s hs) x hx.1
    exact ⟨this.1, this.2.trans hx.2⟩
  cases e with
  | allocate n =>
    simp only [step]
    split
    · exact h0
    · exact fireCode_preserves _ _ _ F.code (codeOutAllocateCode_in F n) _ (F.latch _ true h0)
  | setCode c =>
    simp only [step]
    split
    · exact h0
    · split
      · exact h0
      · exact codeSetCode_in F isD c _ (F.latch _ true h0)
  | inputCode =>
    simp only [step]
    split
    · exact h0
    · refine fireCode_preserves _ _ _ F.code ?_ _ (F.latch _ true h0)
      intro o x hx
      cases o <;> simp only [codeOutInputCode] <;> first | exact hx | exact hstart x hx
  | connected => exact fireAlloc_preserves _ _ _ F.alloc (allocOut0_in F) _ h0
  | lost => exact fireAlloc_preserves _ _ _ F.alloc (allocOut0_in F) _ h0
  | rxAllocated np rand => exact fireAlloc_preserves _ _ _ F.alloc (allocOutRx_in F np rand) _ h0
  | gotNameplates l =>
    exact fireInput_late _ _ (fun X Y o _ s hs => inputOutGotNameplates_in (framedIN_K X Y) l o s hs) _ h
  | gotWordlist =>
    exact fireInput_late _ _ (fun X Y o _ s hs => inputOutGotWordlist_in (framedIN_K X Y) o s hs) _ h
  | hRefresh =>
    exact fireInput_late _ _ (fun X Y o _ s hs => inputOut0_in (framedIN_K X Y) o s hs) _ h
  | hNpCompl p =>
    exact fireInput_late _ _ (fun X Y o ho s hs => inputOut1_in (framedIN_K X Y) p o ho s hs) _ h
  | hChooseNp np =>
    simp only [step]
    split
    · exact h0
    · exact fireInput_late _ _ (fun X Y o ho s hs => inputOut1_in (framedIN_K X Y) np o ho s hs) _ h
  | hWordCompl p =>
    exact fireInput_late _ _ (fun X Y o ho s hs => inputOut1_in (framedIN_K X Y) p o ho s hs) _ h
  | hChooseWords w =>
    exact fireInput_late _ _ (fun X Y o ho s hs => inputOut1_in (framedIN_K X Y) w o ho s hs) _ h
  | hWhenWordlist =>
    simp only [step]
    split <;> exact h0

end WV.Proofs.C19
