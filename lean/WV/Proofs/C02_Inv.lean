import WV.Proofs.C02

/-!
The delivery invariant of the C02 model and its preservation by every function of the receive path.

`PK F r0 s`: the session key slot of Receive is `r0`; every payload event handed upward so far, every
entry waiting in Boss' two reorder buffers is `Good` (opened under the session key from a frame in
`F` whose label has exactly that phase class and whose side is not ours); every frame in Order's
queue is in `F` and not ours; Receive has a key as soon as it left `S0_unknown_key`.
-/
namespace WV.Proofs.C02
open WV WV.C02 WV.Gen

def payload : AppEv → Option (PhaseClass × Bytes)
  | .gotVersions pt => some (.version, pt)
  | .received n pt => some (.num n, pt)
  | .dilate n pt => some (.dilate n, pt)
  | _ => none

def recvIdx (e : AppEv) : Option Nat := match payload e with | some (.num n, _) => some n | _ => none
def dilIdx (e : AppEv) : Option Nat := match payload e with | some (.dilate n, _) => some n | _ => none

/-- frame `f` opens under (the phase key derived from) session key `K` to `pt` -/
def Opens (C : Crypto) (K : Bytes) (f : Frame) (pt : Bytes) : Prop :=
  ∃ dk, phaseKey? C K f.side f.phase = some dk ∧ C.boxOpen dk f.body = some pt

def Good (C : Crypto) (own : String) (F : List Frame) (K : Bytes) (cls : PhaseClass) (pt : Bytes) : Prop :=
  ∃ f ∈ F, f.side ≠ own ∧ classify f.phase = cls ∧ Opens C K f pt

def GoodR (C : Crypto) (own : String) (F : List Frame) (r0 : Option Bytes) (cls : PhaseClass) (pt : Bytes) : Prop :=
  ∃ K, r0 = some K ∧ Good C own F K cls pt

structure PK (C : Crypto) (own : String) (F : List Frame) (r0 : Option Bytes) (s : St) : Prop where
  app : ∀ e ∈ s.app, ∀ cls pt, payload e = some (cls, pt) → GoodR C own F r0 cls pt
  rxp : ∀ p ∈ s.rxPhases, GoodR C own F r0 (.num p.1) p.2
  rxd : ∀ p ∈ s.rxDil, GoodR C own F r0 (.dilate p.1) p.2
  oq : ∀ f ∈ s.oq, f ∈ F ∧ f.side ≠ own
  rk : s.rkey = r0
  key0 : s.rcv = .S0_unknown_key → r0 = none
  rxo : s.app.filterMap recvIdx = List.range s.nextRx
  dlo : s.app.filterMap dilIdx = List.range s.nextDil

variable {C : Crypto} {own : String} {F : List Frame} {r0 : Option Bytes}

theorem GoodR_mono {F' : List Frame} (hF : ∀ f ∈ F, f ∈ F') {cls pt} (h : GoodR C own F r0 cls pt) :
    GoodR C own F' r0 cls pt := by
  obtain ⟨K, hk, f, hf, h⟩ := h
  exact ⟨K, hk, f, hF f hf, h⟩

theorem PK_mono {F' : List Frame} (hF : ∀ f ∈ F, f ∈ F') {s : St} (h : PK C own F r0 s) : PK C own F' r0 s :=
  ⟨fun e he cls pt hp => GoodR_mono hF (h.app e he cls pt hp), fun p hp => GoodR_mono hF (h.rxp p hp),
   fun p hp => GoodR_mono hF (h.rxd p hp), fun f hf => ⟨hF f (h.oq f hf).1, (h.oq f hf).2⟩, h.rk, h.key0, h.rxo, h.dlo⟩

theorem PK_congr {s s' : St} (h : PK C own F r0 s) (h1 : s'.app = s.app) (h2 : s'.rxPhases = s.rxPhases)
    (h3 : s'.rxDil = s.rxDil) (h4 : s'.oq = s.oq) (h5 : s'.rkey = s.rkey) (h6 : s'.rcv = s.rcv)
    (h7 : s'.nextRx = s.nextRx := by rfl) (h8 : s'.nextDil = s.nextDil := by rfl) : PK C own F r0 s' :=
  ⟨(by rw [h1]; exact h.app), (by rw [h2]; exact h.rxp), (by rw [h3]; exact h.rxd), (by rw [h4]; exact h.oq),
   (by rw [h5]; exact h.rk), (by rw [h6]; exact h.key0), (by rw [h1, h7]; exact h.rxo), (by rw [h1, h8]; exact h.dlo)⟩

theorem PK_app_np {s : St} (h : PK C own F r0 s) (e : AppEv) (he : payload e = none) :
    PK C own F r0 { s with app := s.app ++ [e] } :=
  ⟨(by
    intro e' he' cls pt hp
    rcases List.mem_append.mp he' with h' | h'
    · exact h.app e' h' cls pt hp
    · simp at h'; subst h'; rw [he] at hp; cases hp),
   h.rxp, h.rxd, h.oq, h.rk, h.key0,
   (by simp only [List.filterMap_append, List.filterMap_cons, List.filterMap_nil, recvIdx, he, List.append_nil]; exact h.rxo),
   (by simp only [List.filterMap_append, List.filterMap_cons, List.filterMap_nil, dilIdx, he, List.append_nil]; exact h.dlo)⟩

theorem app_p {s : St} (h : PK C own F r0 s) (e : AppEv) {cls pt} (he : payload e = some (cls, pt))
    (hg : GoodR C own F r0 cls pt) :
    ∀ e' ∈ s.app ++ [e], ∀ cls' pt', payload e' = some (cls', pt') → GoodR C own F r0 cls' pt' := by
  intro e' he' cls' pt' hp
  rcases List.mem_append.mp he' with h' | h'
  · exact h.app e' h' cls' pt' hp
  · simp at h'; subst h'; rw [he] at hp; injection hp with hp; injection hp with h1 h2; subst h1; subst h2; exact hg

theorem PK_app_p {s : St} (h : PK C own F r0 s) (e : AppEv) {pt} (he : payload e = some (.version, pt))
    (hg : GoodR C own F r0 .version pt) : PK C own F r0 { s with app := s.app ++ [e] } :=
  ⟨(by
    intro e' he' cls' pt' hp
    rcases List.mem_append.mp he' with h' | h'
    · exact h.app e' h' cls' pt' hp
    · simp at h'; subst h'; rw [he] at hp; injection hp with hp; injection hp with h1 h2; subst h1; subst h2; exact hg),
   h.rxp, h.rxd, h.oq, h.rk, h.key0,
   (by simp only [List.filterMap_append, List.filterMap_cons, List.filterMap_nil, recvIdx, he, List.append_nil]; exact h.rxo),
   (by simp only [List.filterMap_append, List.filterMap_cons, List.filterMap_nil, dilIdx, he, List.append_nil]; exact h.dlo)⟩

/-! ## generic: running outputs -/

theorem runOuts_inv {σ ο : Type} (sem : ο → σ → σ × Option Err) (P : σ → Prop) :
    ∀ (outs : List ο) (s : σ), (∀ o ∈ outs, ∀ s, P s → P (sem o s).1) → P s → P (runOuts sem outs s).1
  | [], s, _, hs => hs
  | o :: os, s, h, hs => by
    have h1 := h o (List.mem_cons_self) s hs
    unfold runOuts
    split
    · rename_i s' heq
      rw [heq] at h1
      exact runOuts_inv sem P os s' (fun o' ho' => h o' (List.mem_cons_of_mem _ ho')) h1
    · rename_i s' e heq
      rw [heq] at h1
      exact h1

theorem liftLo_PK (f : Lo → RLo) {s : St} (h : PK C own F r0 s) : PK C own F r0 (liftLo f s).1 := by
  unfold liftLo
  split
  exact PK_congr h rfl rfl rfl rfl rfl rfl

/-! ## Boss -/

theorem mem_natDictSet {d : List (Nat × Bytes)} {k : Nat} {v : Bytes} {p : Nat × Bytes} (h : p ∈ natDictSet d k v) :
    p ∈ d ∨ p = (k, v) := by
  unfold natDictSet at h
  split at h
  · rcases List.mem_map.mp h with ⟨q, hq, hqp⟩
    split at hqp
    · exact Or.inr hqp.symm
    · exact Or.inl (hqp ▸ hq)
  · rcases List.mem_append.mp h with h | h
    · exact Or.inl h
    · simp at h; exact Or.inr h

theorem lookup_mem : ∀ {d : List (Nat × Bytes)} {k : Nat} {v : Bytes}, d.lookup k = some v → (k, v) ∈ d
  | [], _, _, h => by simp [List.lookup] at h
  | (a, b) :: r, k, v, h => by
    simp only [List.lookup] at h
    split at h
    · rename_i heq
      injection h with h
      have : k = a := by simpa using heq
      subst this; subst h
      exact List.mem_cons_self
    · exact List.mem_cons_of_mem _ (lookup_mem h)

theorem recvLoop_PK : ∀ (fuel : Nat) {s : St}, PK C own F r0 s → PK C own F r0 (recvLoop fuel s)
  | 0, _, h => h
  | fuel + 1, s, h => by
    unfold recvLoop
    split
    · exact h
    · rename_i pt hl
      apply recvLoop_PK fuel
      have hg := h.rxp _ (lookup_mem hl)
      exact ⟨app_p h (.received s.nextRx pt) rfl hg, fun p hp => h.rxp p (List.mem_filter.mp hp).1, h.rxd, h.oq, h.rk,
        h.key0,
        (by simp only [List.filterMap_append, List.filterMap_cons, List.filterMap_nil, recvIdx, payload, List.range_succ]
            rw [h.rxo]),
        (by simp only [List.filterMap_append, List.filterMap_cons, List.filterMap_nil, dilIdx, payload, List.append_nil]
            exact h.dlo)⟩

theorem dilLoop_PK : ∀ (fuel : Nat) {s : St}, PK C own F r0 s → PK C own F r0 (dilLoop fuel s)
  | 0, _, h => h
  | fuel + 1, s, h => by
    unfold dilLoop
    split
    · exact h
    · rename_i pt hl
      apply dilLoop_PK fuel
      have hg := h.rxd _ (lookup_mem hl)
      exact ⟨app_p h (.dilate s.nextDil pt) rfl hg, h.rxp, fun p hp => h.rxd p (List.mem_filter.mp hp).1, h.oq, h.rk,
        h.key0,
        (by simp only [List.filterMap_append, List.filterMap_cons, List.filterMap_nil, recvIdx, payload, List.append_nil]
            exact h.rxo),
        (by simp only [List.filterMap_append, List.filterMap_cons, List.filterMap_nil, dilIdx, payload, List.range_succ]
            rw [h.dlo])⟩

/-- what an output needs to know about its argument -/
def OutGood (C : Crypto) (own : String) (F : List Frame) (r0 : Option Bytes) : Boss.Output → BArg → Prop
  | .process_version, .bytes pt => GoodR C own F r0 .version pt
  | .W_received, .num n pt => GoodR C own F r0 (.num n) pt
  | .D_received_dilate, .num n pt => GoodR C own F r0 (.dilate n) pt
  | _, _ => True

theorem bossOut_PK (cfg : Cfg) (a : BArg) (o : Boss.Output) {s : St} (h : PK C own F r0 s)
    (hg : OutGood C own F r0 o a) : PK C own F r0 (bossOut C cfg a o s).1 := by
  unfold bossOut
  split
  · exact PK_app_np h _ rfl
  · split
    · exact PK_app_p h _ rfl hg
    · exact h
  · exact h
  · exact h
  · exact h
  · exact liftLo_PK _ (PK_congr h rfl rfl rfl rfl rfl rfl)
  · exact liftLo_PK _ (PK_congr h rfl rfl rfl rfl rfl rfl)
  · exact liftLo_PK _ (PK_congr h rfl rfl rfl rfl rfl rfl)
  · exact liftLo_PK _ (PK_congr h rfl rfl rfl rfl rfl rfl)
  · exact PK_app_np h _ rfl
  · exact h
  · exact PK_app_np h _ rfl
  · rename_i n pt
    apply recvLoop_PK
    exact ⟨h.app, (fun p hp => by
      rcases mem_natDictSet hp with h' | h'
      · exact h.rxp p h'
      · subst h'; exact hg), h.rxd, h.oq, h.rk, h.key0, h.rxo, h.dlo⟩
  · rename_i n pt
    apply dilLoop_PK
    exact ⟨h.app, h.rxp, (fun p hp => by
      rcases mem_natDictSet hp with h' | h'
      · exact h.rxd p h'
      · subst h'; exact hg), h.oq, h.rk, h.key0, h.rxo, h.dlo⟩
  · exact PK_congr (PK_app_np h _ rfl) rfl rfl rfl rfl rfl rfl
  · exact PK_app_np h _ rfl
  · exact h

/-- which input an argument-consuming output belongs to (a fact about the generated table) -/
def bossRowOK (st : Boss.State) (i : Boss.Input) : Bool :=
  match Boss.table st i with
  | none => true
  | some (_, outs) =>
    (!outs.contains .process_version || i == .u_got_version) && (!outs.contains .W_received || i == .u_got_phase) &&
    (!outs.contains .D_received_dilate || i == .u_got_dilate)

theorem boss_rows_ok : ∀ st ∈ Boss.State.all, ∀ i ∈ Boss.Input.all, bossRowOK st i = true := by decide

theorem boss_table_outputs :
    ∀ st ∈ Boss.State.all, ∀ i ∈ Boss.Input.all, ∀ st' outs, Boss.table st i = some (st', outs) →
      (.process_version ∈ outs → i = .u_got_version) ∧ (.W_received ∈ outs → i = .u_got_phase) ∧
      (.D_received_dilate ∈ outs → i = .u_got_dilate) := by
  intro st hst i hi st' outs heq
  have := boss_rows_ok st hst i hi
  unfold bossRowOK at this
  rw [heq] at this
  simp only [Bool.and_eq_true, Bool.or_eq_true, Bool.not_eq_true', beq_iff_eq] at this
  refine ⟨fun h => ?_, fun h => ?_, fun h => ?_⟩
  · rcases this.1.1 with h' | h'
    · rw [List.contains_eq_mem] at h'; simp [h] at h'
    · exact h'
  · rcases this.1.2 with h' | h'
    · rw [List.contains_eq_mem] at h'; simp [h] at h'
    · exact h'
  · rcases this.2 with h' | h'
    · rw [List.contains_eq_mem] at h'; simp [h] at h'
    · exact h'

theorem boss_state_all (st : Boss.State) : st ∈ Boss.State.all := by cases st <;> decide
theorem boss_input_all (i : Boss.Input) : i ∈ Boss.Input.all := by cases i <;> decide

/-- what an input needs to know about its argument -/
def InGood (C : Crypto) (own : String) (F : List Frame) (r0 : Option Bytes) : Boss.Input → BArg → Prop
  | .u_got_version, .bytes pt => GoodR C own F r0 .version pt
  | .u_got_version, _ => False
  | .u_got_phase, .num n pt => GoodR C own F r0 (.num n) pt
  | .u_got_phase, _ => False
  | .u_got_dilate, .num n pt => GoodR C own F r0 (.dilate n) pt
  | .u_got_dilate, _ => False
  | _, _ => True

theorem bossInput_PK (cfg : Cfg) (i : Boss.Input) (a : BArg) {s : St} (h : PK C own F r0 s)
    (hg : InGood C own F r0 i a) : PK C own F r0 (bossInput C cfg i a s).1 := by
  unfold bossInput
  split
  · exact h
  · rename_i st' outs heq
    have ht := boss_table_outputs s.boss (boss_state_all _) i (boss_input_all _) st' outs heq
    apply runOuts_inv _ (PK C own F r0)
    · intro o ho s1 h1
      apply bossOut_PK cfg a o h1
      cases o <;> try trivial
      · have := ht.2.2 ho; subst this
        cases a <;> first | exact hg | (exact False.elim hg) | trivial
      · have := ht.2.1 ho; subst this
        cases a <;> first | exact hg | (exact False.elim hg) | trivial
      · have := ht.1 ho; subst this
        cases a <;> first | exact hg | (exact False.elim hg) | trivial
    · exact PK_congr h rfl rfl rfl rfl rfl rfl

theorem bGotMessage_PK (cfg : Cfg) (phase : String) (pt : Bytes) {s : St} (h : PK C own F r0 s)
    (hg : GoodR C own F r0 (classify phase) pt) : PK C own F r0 (bGotMessage C cfg phase pt s).1 := by
  unfold bGotMessage
  split
  · rename_i hc; rw [hc] at hg; exact bossInput_PK cfg _ _ h hg
  · rename_i n hc; rw [hc] at hg; exact bossInput_PK cfg _ _ h hg
  · rename_i n hc; rw [hc] at hg; exact bossInput_PK cfg _ _ h hg
  · exact PK_app_np h _ rfl

/-! ## Receive -/

def RGood (C : Crypto) (own : String) (F : List Frame) (r0 : Option Bytes) : RArg → Prop
  | .good phase pt => GoodR C own F r0 (classify phase) pt
  | .bad => True
  | .key _ => False

theorem rOut_PK (cfg : Cfg) (a : RArg) (o : Receive.Output) {s : St} (h : PK C own F r0 s)
    (hg : RGood C own F r0 a) : PK C own F r0 (rOut C cfg a o s).1 := by
  unfold rOut
  split
  · exact False.elim hg
  · split
    · exact h
    · exact liftLo_PK _ h
  · exact bossInput_PK cfg _ _ h trivial
  · split
    · exact h
    · exact bossInput_PK cfg _ _ h trivial
  · exact bGotMessage_PK cfg _ _ h hg
  · exact bossInput_PK cfg _ _ h trivial
  · exact h

def receiveRowOK (st : Receive.State) (i : Receive.Input) : Bool :=
  match Receive.table st i with
  | none => true
  | some (st', _) => st' != .S0_unknown_key

theorem receive_rows_ok : ∀ st ∈ Receive.State.all, ∀ i ∈ Receive.Input.all, receiveRowOK st i = true := by decide

theorem receive_never_back_to_S0 :
    ∀ st ∈ Receive.State.all, ∀ i ∈ Receive.Input.all, ∀ st' outs, Receive.table st i = some (st', outs) →
      st' ≠ .S0_unknown_key := by
  intro st hst i hi st' outs heq
  have := receive_rows_ok st hst i hi
  unfold receiveRowOK at this
  rw [heq] at this
  simpa using this

theorem receive_state_all (st : Receive.State) : st ∈ Receive.State.all := by cases st <;> decide
theorem receive_input_all (i : Receive.Input) : i ∈ Receive.Input.all := by cases i <;> decide

theorem rInput_PK (cfg : Cfg) (i : Receive.Input) (a : RArg) {s : St} (h : PK C own F r0 s)
    (hg : RGood C own F r0 a) : PK C own F r0 (rInput C cfg i a s).1 := by
  unfold rInput
  split
  · exact h
  · rename_i st' outs heq
    have hn := receive_never_back_to_S0 s.rcv (receive_state_all _) i (receive_input_all _) st' outs heq
    apply runOuts_inv _ (PK C own F r0)
    · intro o _ s1 h1
      exact rOut_PK cfg a o h1 hg
    · exact ⟨h.app, h.rxp, h.rxd, h.oq, h.rk, fun h0 => absurd h0 hn, h.rxo, h.dlo⟩

/-- `R.got_key(key)`: the key slot is written only on the way out of `S0_unknown_key`, where it is empty -/
theorem rInput_key_PK (cfg : Cfg) (k : Bytes) {s : St} (h : PK C own F s.rkey s) :
    PK C own F (rInput C cfg .got_key (.key k) s).1.rkey (rInput C cfg .got_key (.key k) s).1 := by
  unfold rInput
  split
  · exact h
  · rename_i st' outs heq
    cases hs : s.rcv <;> rw [hs] at heq <;> simp [Receive.table] at heq
    case S3_scared =>
      -- `S3_scared.upon(got_key, enter=S3_scared, outputs=[])`: nothing is recorded
      obtain ⟨h1, h2⟩ := heq
      subst h1; subst h2
      simp only [runOuts]
      exact ⟨h.app, h.rxp, h.rxd, h.oq, h.rk, (fun h0 => by cases h0), h.rxo, h.dlo⟩
    obtain ⟨h1, h2⟩ := heq
    subst h1; subst h2
    have hnone := h.key0 hs
    simp only [runOuts, rOut]
    refine ⟨?_, ?_, ?_, h.oq, rfl, (fun h0 => by cases h0), h.rxo, h.dlo⟩
    · intro e he cls pt hp
      obtain ⟨K, hK, _⟩ := h.app e he cls pt hp
      rw [hnone] at hK; cases hK
    · intro p hp
      obtain ⟨K, hK, _⟩ := h.rxp p hp
      rw [hnone] at hK; cases hK
    · intro p hp
      obtain ⟨K, hK, _⟩ := h.rxd p hp
      rw [hnone] at hK; cases hK

theorem rGotMessage_PK (cfg : Cfg) (f : Frame) {s : St} (h : PK C own F r0 s) (hf : f ∈ F) (hs : f.side ≠ own) :
    PK C own F r0 (rGotMessage C cfg f s).1 := by
  unfold rGotMessage
  split
  · exact rInput_PK cfg _ _ h trivial
  · rename_i K hK
    split
    · exact h
    · rename_i dk hdk
      split
      · exact rInput_PK cfg _ _ h trivial
      · rename_i pt hpt
        apply rInput_PK cfg _ _ h
        exact ⟨K, h.rk ▸ hK, f, hf, hs, rfl, dk, hdk, hpt⟩

/-- a version of the invariant that lets the key slot change: `PK` at the current key -/
abbrev Inv (C : Crypto) (own : String) (F : List Frame) (s : St) : Prop := PK C own F s.rkey s

theorem PK_rkey {s s' : St} (h : PK C own F s.rkey s') : Inv C own F s' := by
  have := h.rk
  rw [← this] at h
  exact h

theorem rGotMessage_Inv (cfg : Cfg) (f : Frame) {s : St} (h : Inv C own F s) (hf : f ∈ F) (hs : f.side ≠ own) :
    Inv C own F (rGotMessage C cfg f s).1 := PK_rkey (rGotMessage_PK cfg f h hf hs)

theorem bossInput_Inv (cfg : Cfg) (i : Boss.Input) (a : BArg) {s : St} (h : Inv C own F s)
    (hg : InGood C own F s.rkey i a) : Inv C own F (bossInput C cfg i a s).1 := PK_rkey (bossInput_PK cfg i a h hg)

theorem liftLo_Inv (f : Lo → RLo) {s : St} (h : Inv C own F s) : Inv C own F (liftLo f s).1 := PK_rkey (liftLo_PK f h)

theorem liftLo_Inv_eq {f : Lo → RLo} {s s2 : St} {e : Option Err} (heq : liftLo f s = (s2, e)) (h : Inv C own F s) :
    Inv C own F s2 := by
  have := liftLo_Inv (C := C) (own := own) (F := F) f h
  rw [heq] at this
  exact this

/-! ## _SortedKey, Key -/

theorem skOut_Inv (cfg : Cfg) (a : KArg) (o : SortedKey.Output) {s : St} (h : Inv C own F s) :
    Inv C own F (skOut C cfg a o s).1 := by
  unfold skOut
  split
  · exact liftLo_Inv _ (PK_congr h rfl rfl rfl rfl rfl rfl)
  · exact bossInput_Inv cfg _ _ h trivial
  · split
    · exact h
    · split
      · exact bossInput_Inv cfg _ _ h trivial
      · rename_i k _
        have h1 := bossInput_Inv (C := C) cfg .got_key (.bytes k) h trivial
        split
        · rename_i s1 e heq
          rw [heq] at h1
          exact h1
        · rename_i s1 heq
          rw [heq] at h1
          split
          · exact h1
          · split
            · rename_i s2 e heq2
              exact liftLo_Inv_eq heq2 (PK_congr h1 rfl rfl rfl rfl rfl rfl)
            · rename_i s2 heq2
              exact rInput_key_PK cfg k (liftLo_Inv_eq heq2 (PK_congr h1 rfl rfl rfl rfl rfl rfl))
  · exact h

theorem skInput_Inv (cfg : Cfg) (i : SortedKey.Input) (a : KArg) {s : St} (h : Inv C own F s) :
    Inv C own F (skInput C cfg i a s).1 := by
  unfold skInput
  split
  · exact h
  · apply runOuts_inv _ (Inv C own F)
    · intro o _ s1 h1
      exact skOut_Inv cfg a o h1
    · exact PK_congr h rfl rfl rfl rfl rfl rfl

theorem skGotPake_Inv (cfg : Cfg) (body : Bytes) {s : St} (h : Inv C own F s) :
    Inv C own F (skGotPake C cfg body s).1 := by
  unfold skGotPake
  split
  · exact skInput_Inv cfg _ _ h
  · exact skInput_Inv cfg _ _ h
  · exact skInput_Inv cfg _ _ h

theorem kOut_Inv (cfg : Cfg) (a : KeyArg) (o : Key.Output) {s : St} (h : Inv C own F s) :
    Inv C own F (kOut C cfg a o s).1 := by
  unfold kOut
  split
  · exact PK_congr h rfl rfl rfl rfl rfl rfl
  · exact skInput_Inv cfg _ _ h
  · exact skGotPake_Inv cfg _ h
  · rename_i pw
    have h1 := skInput_Inv (C := C) cfg .got_code (.code pw) h
    split
    · rename_i s1 e heq
      rw [heq] at h1
      exact h1
    · rename_i s1 heq
      rw [heq] at h1
      split
      · exact h1
      · exact skGotPake_Inv cfg _ h1
  · exact h

theorem kInput_Inv (cfg : Cfg) (i : Key.Input) (a : KeyArg) {s : St} (h : Inv C own F s) :
    Inv C own F (kInput C cfg i a s).1 := by
  unfold kInput
  split
  · exact h
  · apply runOuts_inv _ (Inv C own F)
    · intro o _ s1 h1
      exact kOut_Inv cfg a o h1
    · exact PK_congr h rfl rfl rfl rfl rfl rfl

/-! ## Order, Mailbox, ws_message -/

theorem deliverAll_Inv (cfg : Cfg) : ∀ (q : List Frame) {s : St}, Inv C own F s → (∀ f ∈ q, f ∈ F ∧ f.side ≠ own) →
    Inv C own F (deliverAll C cfg q s).1
  | [], _, h, _ => h
  | f :: r, s, h, hq => by
    have h1 := rGotMessage_Inv (C := C) cfg f h (hq f List.mem_cons_self).1 (hq f List.mem_cons_self).2
    unfold deliverAll
    split
    · rename_i s' heq
      rw [heq] at h1
      exact deliverAll_Inv cfg r h1 (fun g hg => hq g (List.mem_cons_of_mem _ hg))
    · rename_i s' e heq
      rw [heq] at h1
      exact h1

theorem oOut_Inv (cfg : Cfg) (f : Frame) (o : Order.Output) {s : St} (h : Inv C own F s) (hf : f ∈ F) (hs : f.side ≠ own) :
    Inv C own F (oOut C cfg f o s).1 := by
  unfold oOut
  split
  · exact ⟨h.app, h.rxp, h.rxd, (fun g hg => by
      rcases List.mem_append.mp hg with h' | h'
      · exact h.oq g h'
      · simp at h'; subst h'; exact ⟨hf, hs⟩), h.rk, h.key0, h.rxo, h.dlo⟩
  · exact kInput_Inv cfg _ _ h
  · have h1 := deliverAll_Inv (C := C) cfg s.oq h h.oq
    split
    · rename_i s' heq
      rw [heq] at h1
      exact ⟨h1.app, h1.rxp, h1.rxd, (fun g hg => by cases hg), h1.rk, h1.key0, h1.rxo, h1.dlo⟩
    · rename_i s' e heq
      rw [heq] at h1
      exact h1
  · exact rGotMessage_Inv cfg f h hf hs

theorem oGotMessage_Inv (cfg : Cfg) (f : Frame) {s : St} (h : Inv C own F s) (hf : f ∈ F) (hs : f.side ≠ own) :
    Inv C own F (oGotMessage C cfg f s).1 := by
  unfold oGotMessage
  simp only
  split
  · exact h
  · apply runOuts_inv _ (Inv C own F)
    · intro o _ s1 h1
      exact oOut_Inv cfg f o h1 hf hs
    · exact PK_congr h rfl rfl rfl rfl rfl rfl

/-- an echo never reaches `N_release_and_accept` (a fact about the generated Mailbox table) -/
def mailboxOursOK (st : Mailbox.State) : Bool :=
  match Mailbox.table st .rx_message_ours with
  | none => true
  | some (_, outs) => !outs.contains .N_release_and_accept

theorem mailbox_ours_ok : ∀ st ∈ Mailbox.State.all, mailboxOursOK st = true := by decide

theorem mailbox_ours_never_accepts :
    ∀ st ∈ Mailbox.State.all, ∀ st' outs, Mailbox.table st .rx_message_ours = some (st', outs) →
      Mailbox.Output.N_release_and_accept ∉ outs := by
  intro st hst st' outs heq hmem
  have := mailbox_ours_ok st hst
  unfold mailboxOursOK at this
  rw [heq] at this
  simp [hmem] at this

theorem mailbox_state_all (st : Mailbox.State) : st ∈ Mailbox.State.all := by cases st <;> decide

theorem mRxOut_Inv (cfg : Cfg) (f : Frame) (o : Mailbox.Output) {s : St} (h : Inv C own F s) (hf : f ∈ F)
    (hs : o = .N_release_and_accept → f.side ≠ own) : Inv C own F (mRxOut C cfg f o s).1 := by
  unfold mRxOut
  split
  · split
    · exact h
    · exact oGotMessage_Inv cfg f (PK_congr h rfl rfl rfl rfl rfl rfl) hf (hs rfl)
  · exact liftLo_Inv _ h

theorem mRxMessage_Inv (cfg : Cfg) (f : Frame) {s : St} (h : Inv C cfg.side F s) (hf : f ∈ F) :
    Inv C cfg.side F (mRxMessage C cfg f s).1 := by
  unfold mRxMessage
  simp only
  split
  · exact h
  · rename_i st' outs heq
    apply runOuts_inv _ (Inv C cfg.side F)
    · intro o ho s1 h1
      apply mRxOut_Inv cfg f o h1 hf
      intro hoe
      subst hoe
      intro hside
      rw [if_pos hside] at heq
      exact mailbox_ours_never_accepts _ (mailbox_state_all _) _ _ heq ho
    · exact PK_congr h rfl rfl rfl rfl rfl rfl

theorem wsMessage_Inv (cfg : Cfg) (f : Frame) {s : St} (h : Inv C cfg.side F s) (hf : f ∈ F) :
    Inv C cfg.side F (wsMessage C cfg f s).1 := by
  have h1 := mRxMessage_Inv (C := C) cfg f h hf
  unfold wsMessage
  split
  · rename_i s1 heq; rw [heq] at h1; exact h1
  · rename_i s1 e heq
    rw [heq] at h1
    have h2 := bossInput_Inv (C := C) cfg .k_error (.err e) h1 trivial
    split
    · rename_i s2 heq2; rw [heq2] at h2; exact h2
    · rename_i s2 e2 heq2; rw [heq2] at h2; exact h2

/-! ## events -/

theorem frames_append (a b : List Ev) : frames (a ++ b) = frames a ++ frames b := by
  induction a with
  | nil => rfl
  | cons e r ih => cases e <;> simp [frames, ih]

theorem step_Inv (cfg : Cfg) (e : Ev) {s : St} (h : Inv C cfg.side F s) :
    Inv C cfg.side (F ++ frames [e]) (step C cfg s e).1 := by
  have hm : ∀ f ∈ F, f ∈ F ++ frames [e] := fun f hf => List.mem_append_left _ hf
  cases e with
  | rx f =>
    have h' : Inv C cfg.side (F ++ frames [Ev.rx f]) s := PK_mono hm h
    exact wsMessage_Inv cfg f h' (by simp [frames])
  | connected => exact PK_mono hm (liftLo_Inv _ h)
  | lost => exact PK_mono hm (liftLo_Inv _ h)
  | claimed => exact PK_mono hm (liftLo_Inv _ h)
  | mclosed => exact PK_mono hm (liftLo_Inv _ h)
  | send pt => exact PK_mono hm (bossInput_Inv cfg _ _ h trivial)
  | close => exact PK_mono hm (bossInput_Inv cfg _ _ h trivial)
  | tclosed => exact PK_mono hm (bossInput_Inv cfg _ _ h trivial)
  | code pw =>
    apply PK_mono hm
    have h1 := bossInput_Inv (C := C) cfg .got_code .none h trivial
    simp only [step]
    split
    · rename_i s1 e heq; rw [heq] at h1; exact h1
    · rename_i s1 heq; rw [heq] at h1; exact kInput_Inv cfg _ _ h1

theorem run_Inv (cfg : Cfg) : ∀ (evs : List Ev) {s : St} {F : List Frame}, Inv C cfg.side F s →
    Inv C cfg.side (F ++ frames evs) (run C cfg s evs)
  | [], s, F, h => by simpa [frames, run] using h
  | e :: r, s, F, h => by
    have h1 := step_Inv (C := C) cfg e h
    have h2 := run_Inv cfg r h1
    have : frames (e :: r) = frames [e] ++ frames r := frames_append [e] r
    rw [this, ← List.append_assoc]
    simpa [run] using h2

theorem init_Inv (own : String) : Inv C own [] ({} : St) :=
  ⟨(fun e he => by cases he), (fun p hp => by cases hp), (fun p hp => by cases hp), (fun f hf => by cases hf), rfl, (fun _ => rfl), rfl, rfl⟩

end WV.Proofs.C02
