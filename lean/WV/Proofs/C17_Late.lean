import WV.Proofs.C17_Frame
import WV.Proofs.C17_Keep

/-!
C17 helper lemmas, part 11: after STOPPED.  With the Manager in STOPPED and no Connector left in
`connecting`, no event whatsoever — late `accept` / `add_candidate` / `listener_ready`, stray
`connector_connection_lost`, further messages, API calls — moves the Manager, changes a
Connector, opens a listener or an outbound attempt, or sends anything.
-/
namespace WV.Proofs.C17
open WV WV.Gen WV.C17

def Halted (w : World) : Prop := w.ms = .STOPPED ∧ ∀ g : Nat, w.ctors[g]? ≠ some Connector.State.connecting

structure Quiet (w w' : World) : Prop where
  ms : w'.ms = w.ms
  ctors : w'.ctors = w.ctors
  listeners : w'.listeners.length = w.listeners.length
  attempts : w'.attempts.length = w.attempts.length
  nextGen : w'.nextGen = w.nextGen
  fired : w'.fired = w.fired

macro "quiet_rfl" : tactic => `(tactic| exact ⟨rfl, rfl, rfl, rfl, rfl, rfl⟩)

theorem Quiet.refl (w : World) : Quiet w w := ⟨rfl, rfl, rfl, rfl, rfl, rfl⟩

theorem Quiet.trans {a b c : World} (h1 : Quiet a b) (h2 : Quiet b c) : Quiet a c :=
  ⟨h2.ms.trans h1.ms, h2.ctors.trans h1.ctors, h2.listeners.trans h1.listeners, h2.attempts.trans h1.attempts,
   h2.nextGen.trans h1.nextGen, h2.fired.trans h1.fired⟩

theorem Quiet.halted {w w' : World} (q : Quiet w w') (h : Halted w) : Halted w' :=
  ⟨q.ms.trans h.1, by rw [q.ctors]; exact h.2⟩

/-- STOPPED has no rows at all -/
theorem mInput_halted {w : World} (h : w.ms = .STOPPED) (i : Manager.Input) (s : String) (n : Nat) :
    mInput i s n w = (w, some .noTransition) := by
  unfold mInput
  rw [h]
  cases i <;> rfl

/-- a Connector that is `connected`, `stopped` or absent ignores or refuses everything but `stop` -/
theorem cInput_halted {w : World} (h : Halted w) (made : Nat → World → Res) (g : Nat) (i : Connector.Input)
    (hi : i ≠ .k_stop) (a : Nat) : (cInput made g i a w).1 = w := by
  unfold cInput
  cases hg : w.ctors[g]? with
  | none => rfl
  | some st =>
    cases st
    · cases i <;> simp_all [Connector.table, cOuts, set_self _ _ _ hg]
    · exact absurd hg (h.2 g)
    · cases i <;> simp [Connector.table]

theorem quiet_logged {w : World} {r : Res} (h : Quiet w r.1) : Quiet w (logged r) := by
  obtain ⟨v, e⟩ := r
  cases e
  · exact h
  · exact h.trans ⟨rfl, rfl, rfl, rfl, rfl, rfl⟩

theorem quiet_connectionLost {w : World} (h : Halted w) : Quiet w (connectionLost w).1 := by
  unfold connectionLost
  dsimp only
  obtain ⟨t, e⟩ := cancelTimer_same Flags.stop_using_checks_active
    { w with tt := w.tt.map fun _ => TrafficTimer.State.no_connection }
  rcases hr : cancelTimer Flags.stop_using_checks_active
    { w with tt := w.tt.map fun _ => TrafficTimer.State.no_connection } with ⟨u, er⟩
  rw [hr] at e
  simp only at e
  subst e
  cases er with
  | some er => simp only [andThen]; quiet_rfl
  | none =>
    simp only [andThen]
    split
    · quiet_rfl
    · generalize hW : ({ w with tt := w.tt.map fun _ => TrafficTimer.State.no_connection, timer := t, conn := none } : World) = W
      have hWq : Quiet w W := by rw [← hW]; quiet_rfl
      obtain ⟨op, prs, e2⟩ := pauseAll_same W
      rcases hp : pauseAll W with ⟨x, er2⟩
      rw [hp] at e2
      simp only at e2
      subst e2
      have hx : Quiet w ({ W with outPaused := op, prods := prs } : World) := hWq.trans ⟨rfl, rfl, rfl, rfl, rfl, rfl⟩
      cases er2 with
      | some er2 => exact hx
      | none =>
        dsimp only
        have hms : ({ W with outPaused := op, prods := prs } : World).ms = .STOPPED := hx.ms.trans h.1
        split
        · rw [mInput_halted hms]; exact hx
        · rw [mInput_halted hms]; exact hx

theorem quiet_tOuts (k : Terminator.Output → World → Res) (hk : ∀ o v, Halted v → Quiet v (k o v).1)
    (os : List Terminator.Output) : ∀ v : World, Halted v → Quiet v (tOuts k os v).1 := by
  induction os with
  | nil => intro v _; exact Quiet.refl _
  | cons o os ih =>
    intro v hv
    simp only [tOuts]
    have q1 := hk o v hv
    rcases hr : k o v with ⟨u, e⟩
    rw [hr] at q1
    cases e with
    | none => simp only [andThen]; exact q1.trans (ih u (q1.halted hv))
    | some e => exact q1

theorem quiet_tInput (fuel : Nat) : ∀ (i : Terminator.Input) (v : World), Halted v → Quiet v (tInput fuel i v).1 := by
  induction fuel with
  | zero => intro i v _; exact Quiet.refl _
  | succ f ih =>
    intro i v hv
    simp only [tInput]
    split
    · exact Quiet.refl _
    · refine Quiet.trans ?_ (quiet_tOuts _ ?hk _ _ ?hh)
      case hk =>
        intro o u hu
        cases o
        · quiet_rfl
        · quiet_rfl
        · quiet_rfl
        · quiet_rfl
        · quiet_rfl
        · show Quiet u (if (stopCoop u).hasMgr = true then andThen (mInput .k_stop "" 0 (stopCoop u)) (fun w1 => (whenStopped w1, none))
                  else tInput f .stoppedD (stopCoop u)).1
          obtain ⟨b, eb⟩ := stopCoop_same u
          rw [eb]
          have hq : Quiet u ({ u with coopStopped := b } : World) := ⟨rfl, rfl, rfl, rfl, rfl, rfl⟩
          have hu' : Halted ({ u with coopStopped := b } : World) := hq.halted hu
          refine hq.trans ?_
          split
          · rw [mInput_halted hu'.1]; exact Quiet.refl _
          · exact ih _ _ hu'
      case hh => exact ⟨hv.1, hv.2⟩
      quiet_rfl

theorem quiet_runThunk (t : Thunk) {v : World} (hv : Halted v) : Quiet v (runThunk t v) := by
  cases t with
  | accept g c =>
    apply quiet_logged
    rw [cInput_halted hv _ _ _ (by simp)]
    exact Quiet.refl _
  | discard c => quiet_rfl
  | mgrLost => exact quiet_connectionLost hv
  | stoppedD => exact quiet_tInput _ _ _ hv
  | waiter i ok =>
    obtain ⟨ws, rg, e⟩ := resolveWaiter_same i ok v
    show Quiet v (resolveWaiter i ok v)
    rw [e]; quiet_rfl

theorem quiet_runThunks (l : List Thunk) : ∀ v : World, Halted v → Quiet v (runThunks l v) := by
  induction l with
  | nil => intro v _; exact Quiet.refl _
  | cons t rest ih =>
    intro v hv
    have q := quiet_runThunk t hv
    exact q.trans (ih _ (q.halted hv))

theorem quiet_receivedMsg (m : Msg) {v : World} (hv : Halted v) : Quiet v (receivedMsg m v).1 := by
  cases m <;> simp only [receivedMsg]
  · rw [mInput_halted hv.1]; exact Quiet.refl _
  · rw [mInput_halted hv.1]; exact Quiet.refl _
  · rw [mInput_halted hv.1]; exact Quiet.refl _
  · rw [mInput_halted hv.1]; exact Quiet.refl _
  · quiet_rfl

theorem quiet_mgrGotVersions (vv : Vers) {v : World} (hv : Halted v) : Quiet v (mgrGotVersions vv v).1 := by
  unfold mgrGotVersions
  split
  · exact Quiet.refl _
  rename_i dv _
  unfold mgrGotVersionsWith
  dsimp only
  split
  · rw [mInput_halted (w := mainError { v with dver := dv }) hv.1]; quiet_rfl
  · rw [mInput_halted (w := { v with dver := dv }) hv.1]; quiet_rfl

theorem quiet_drainMsgs (l : List Msg) : ∀ x : World, Halted x → Quiet x (drainMsgs l x).1 := by
  induction l with
  | nil => intro x _; quiet_rfl
  | cons m rest ih =>
    intro x hx
    simp only [drainMsgs]
    have hx' : Halted { x with pMsgs := rest } := hx
    have q1 : Quiet x (receivedMsg m { x with pMsgs := rest }).1 :=
      Quiet.trans (b := { x with pMsgs := rest }) ⟨rfl, rfl, rfl, rfl, rfl, rfl⟩ (quiet_receivedMsg m hx')
    rcases hr : receivedMsg m { x with pMsgs := rest } with ⟨u, e⟩
    rw [hr] at q1
    cases e with
    | none => simp only [andThen]; exact q1.trans (ih u (q1.halted hx))
    | some e => exact q1

theorem quiet_connectAs (nm : Option String) (v : World) : Quiet v (connectAs nm v) := by
  obtain ⟨ws, wn, q, mo, e, _⟩ := connectAs_same nm v
  rw [e]; quiet_rfl

theorem quiet_ttOuts (os : List TrafficTimer.Output) : ∀ v : World, Quiet v (ttOuts os v).1 := by
  induction os with
  | nil => intro v; exact Quiet.refl _
  | cons o os ih =>
    intro v
    cases o
    · simp only [ttOuts]
      obtain ⟨t, e⟩ := beginTiming_same v
      rcases hr : beginTiming v with ⟨u, er⟩
      rw [hr] at e
      simp only at e
      subst e
      cases er with
      | none =>
        simp only [andThen]
        refine Quiet.trans ?_ (ih _)
        quiet_rfl
      | some er => quiet_rfl
    · simp only [ttOuts]
      refine Quiet.trans ?_ (ih _)
      unfold signalReconnect
      split <;> quiet_rfl

/-- no event moves a halted Manager, re-opens anything or sends anything -/
theorem quiet_step {v : World} (hv : Halted v) (e : Ev) : Quiet v (step v e).1 := by
  have ofres : ∀ r : Res, (ofRes r).1 = r.1 := by
    intro r; obtain ⟨a, b⟩ := r; cases b <;> rfl
  cases e with
  | dilate =>
    simp only [step, ofres, dilate]
    split
    · exact Quiet.refl _
    · split
      · quiet_rfl
      · have h1 : Quiet v (replayKey { v with called := true, hasMgr := true }) := by
          unfold replayKey; split <;> quiet_rfl
        generalize replayKey { v with called := true, hasMgr := true } = u at h1
        have hu := h1.halted hv
        have h2 : Quiet u (replayVersions u).1 := by
          unfold replayVersions
          split
          · exact quiet_mgrGotVersions _ hu
          · exact Quiet.refl _
        rcases hr : replayVersions u with ⟨u', e⟩
        rw [hr] at h2
        cases e with
        | some e => exact h1.trans h2
        | none =>
          simp only [andThen]
          exact (h1.trans h2).trans (quiet_drainMsgs _ _ (h2.halted hu))
  | key => simp only [step, gotKey]; split <;> quiet_rfl
  | versions vv =>
    simp only [step, ofres, gotVersions]
    split
    · exact quiet_mgrGotVersions vv hv
    · quiet_rfl
  | msg m =>
    simp only [step, ofres, receivedDilate]
    split
    · exact quiet_receivedMsg m hv
    · quiet_rfl
  | connect =>
    simp only [step]
    split
    · exact quiet_connectAs none v
    · exact Quiet.refl _
  | ep l name => simp only [step]; split <;> quiet_rfl
  | econnect k =>
    simp only [step]
    split
    · quiet_rfl
    · split
      · quiet_rfl
      · exact quiet_connectAs none v
  | elisten k =>
    simp only [step]
    split
    · quiet_rfl
    · split
      · exact quiet_connectAs _ v
      · quiet_rfl
  | producer pull i =>
    simp only [step]
    split
    · split
      · quiet_rfl
      · rw [ofres]
        unfold registerProducer
        dsimp only
        split
        · split <;> quiet_rfl
        · quiet_rfl
    · quiet_rfl
  | term i => simp only [step, ofres]; exact quiet_tInput _ _ _ hv
  | turn =>
    simp only [step, turn]
    exact Quiet.trans (b := { v with queue := [] }) ⟨rfl, rfl, rfl, rfl, rfl, rfl⟩ (quiet_runThunks _ _ hv)
  | expire =>
    simp only [step]
    split
    · quiet_rfl
    · split
      · quiet_rfl
      · split
        · quiet_rfl
        · rw [ofres]
          refine Quiet.trans ?_ (quiet_ttOuts _ _)
          quiet_rfl
  | lready k =>
    simp only [step]
    split
    · exact Quiet.refl _
    · split
      · exact Quiet.refl _
      · rename_i l _ _
        have hv' : Halted { v with listeners := v.listeners.modify k fun x => { x with ready := true, tracked := true } } := hv
        apply quiet_logged
        rw [cInput_halted hv' _ _ _ (by simp)]
        exact ⟨rfl, rfl, by simp, rfl, rfl, rfl⟩
  | inbound k => simp only [step]; split <;> (try split) <;> quiet_rfl
  | dial j =>
    simp only [step]
    split
    · quiet_rfl
    · split
      · quiet_rfl
      · exact ⟨rfl, rfl, rfl, by simp, rfl, rfl⟩
  | dialok j =>
    simp only [step]
    split
    · quiet_rfl
    · split
      · quiet_rfl
      · exact ⟨rfl, rfl, rfl, by simp, rfl, rfl⟩
  | dialfail j =>
    simp only [step]
    split
    · quiet_rfl
    · split
      · quiet_rfl
      · exact ⟨rfl, rfl, rfl, by simp, rfl, rfl⟩
  | kcm c =>
    simp only [step]
    split
    · quiet_rfl
    · split
      · quiet_rfl
      · split
        · quiet_rfl
        · split
          · quiet_rfl
          · split
            · rename_i x _ _ _ _ st' outs _ _
              have hv' : Halted { v with conns := v.conns.modify c fun y => { y with st := st' } } := hv
              rw [ofres, cInput_halted hv' _ _ _ (by simp)]
              quiet_rfl
            · quiet_rfl
  | lost c => simp only [step]; split <;> (try split) <;> quiet_rfl

theorem quiet_run (es : List Ev) : ∀ v : World, Halted v → Quiet v (run v es) := by
  induction es with
  | nil => intro v _; exact Quiet.refl _
  | cons e es ih =>
    intro v hv
    have q := quiet_step hv e
    exact q.trans (ih _ (q.halted hv))

end WV.Proofs.C17
