import WV.Model.C12
import WV.Proofs.C12_Pump
import WV.Gen.PyIRL2
import WV.Proofs.PyIR_Dil

set_option linter.unusedSimpArgs false
set_option linter.unusedVariables false

/-!
Translation validation of the L2 connection layer (PyIR, `WV.Gen.PyIRL2`) against the C12 model: lemmas.
-/
namespace WV.Proofs.PyIRL2
open WV WV.PyIR WV.C12 WV.Gen WV.Gen.PyIRL2 WV.Proofs.PyIRC03 WV.Proofs.PyIRDil WV.Proofs.C12

/-! ## evaluation -/

macro "l2_eval" "[" ts:Lean.Parser.Tactic.simpLemma,* "]" : tactic =>
  `(tactic| simp [exec, callM, execB, execS, andThen, withVal, evalE, evalEs, readAttr, readVar, bindParams, doEmit,
      forLoop, bindPat, iterElems, valIn, valAdd, valLen, valIndex, valItems, isInstance, pyEq, scalarEq,
      Val.hashable, truthy_none, truthy_bool, truthy_int, truthy_str, truthy_bytes, truthy_tuple, truthy_list,
      truthy_dict, truthy_set, truthy_obj, truthy_ref, truthy_nint, St.setAttr, St.setLocal, St.bindOpt, Store.get,
      Store.set, Store.del, get_set, bind, Res.bind, pure, unsupported,
      valLe, valMax, valField, isInstanceAny, setElems, valGetD, starElems, doEmitR, runReenter, Val.toInt?, Val.ofInt,
      valSlice, valStartsWith, valByteIn,
      $ts,*])

/-! ## environment -/

/-- the environment of the framer's methods: `from_be4`/`to_be4` are the model's; the text of a log message is irrelevant;
    `rz k` = the k-th recorded call (a `yield` to the consumer, a `transport.write`) raises -/
def envF (rz : Nat → Option String) : Env where
  fmtD := fun n => toString n
  raises := rz
  ext := fun f args =>
    match f, args with
    | "from_be4", [.bytes b] => (match fromBe4 b with | some n => .ok (.int n) | Option.none => .exc "ValueError")
    | "to_be4", [.int n] => (match toBe4 n with | some b => .ok (.bytes b) | Option.none => .exc "ValueError")
    | "fstring", _ => .ok (.str "")
    | _, _ => unsupported

def noRz : Nat → Option String := fun _ => Option.none

theorem take4_of_length {b : Bytes} (h : ¬ b.length < 4) : ∃ a0 a1 a2 a3 r, b = a0 :: a1 :: a2 :: a3 :: r := by
  match b, h with
  | a0 :: a1 :: a2 :: a3 :: r, _ => exact ⟨a0, a1, a2, a3, r, rfl⟩
  | [], h => simp at h
  | [_], h => simp at h
  | [_, _], h => simp at h
  | [_, _, _], h => simp at h

theorem fromBe4_take4 {b : Bytes} (h : ¬ b.length < 4) : ∃ n, fromBe4 (b.take 4) = some n := by
  obtain ⟨a0, a1, a2, a3, r, rfl⟩ := take4_of_length h
  exact ⟨_, rfl⟩

theorem drop_take_add (k n : Nat) (b : Bytes) : (b.take (k + n)).drop k = (b.drop k).take n := by
  rw [List.drop_take]; simp

/-! ## tokens -/

def encTok : Token → Val
  | .relayOK => .obj "RelayOK" []
  | .prologue => .obj "Prologue" []
  | .frame f => .obj "Frame" [.bytes f]

def decTok : Val → Option Token
  | .obj "RelayOK" [] => some .relayOK
  | .obj "Prologue" [] => some .prologue
  | .obj "Frame" [.bytes f] => some (.frame f)
  | _ => Option.none

theorem decTok_encTok (t : Token) : decTok (encTok t) = some t := by cases t <;> rfl

/-- a `yield` of the generator, as the token handed to the consumer -/
def absYield : Call → Option Token
  | ⟨"$gen", "yield", [v]⟩ => decTok v
  | _ => Option.none

def yields (cs : List Call) : List Token := cs.filterMap absYield

/-- the calls of a framer run that are not yields -/
def nonYields (cs : List Call) : List Call := cs.filter fun c => (absYield c).isNone

/-! ## Automat dispatch, built from the generated tables -/

/-- is the input wired with `collector=first` (and nowhere with the default collector)?  From the working tree. -/
def isFirst (machine input : String) : Bool :=
  match firstCollectors.lookup machine with
  | some (f, o) => f.contains input && !o.contains input
  | Option.none => false

/-- the outputs of a row, called in order with the input's arguments; the first one's value is kept (`collector=first`) -/
def outsCalls (args : List Expr) : List String → List Stmt
  | [] => []
  | o :: r => .callSelf (some "$first") o args :: r.map (fun o' => .callSelf Option.none o' args)

/-- one row: Automat sets the new state FIRST, then runs the outputs in order -/
def rowBody (first : Bool) (args : List Expr) (st' : String) (outs : List String) : List Stmt :=
  .setAttr "$state" (.str st') :: (outsCalls args outs ++ (if first then [.ret (some (.var "$first"))] else []))

/-- `input(args…)`: look the row up by the current state; no row = `NoTransition` (nothing changed) -/
def dispatch (first : Bool) (args : List Expr) : List (String × Option (String × List String)) → List Stmt
  | [] => [.raise "NoTransition" []]
  | (st, row) :: r =>
    [.ite (.eq (.attr "$state") (.str st))
      (match row with
        | Option.none => [.raise "NoTransition" []]
        | some (st', outs) => rowBody first args st' outs)
      (dispatch first args r)]

def framerRows (i : Framer.Input) : List (String × Option (String × List String)) :=
  Framer.State.all.map fun s =>
    (s.name, (Framer.table s i).map fun r => (r.1.name, r.2.map Framer.Output.name))

/-- the method table of a `_Framer`: the translated outputs and helpers, plus the zero-argument inputs as dispatchers
    over the GENERATED transition table -/
def tblFramer : MethodTable := fun m =>
  match tbl_Framer m with
  | some b => some b
  | Option.none =>
    match Framer.Input.ofName? m with
    | some i => some ([], dispatch (isFirst "Framer" m) [] (framerRows i))
    | Option.none => Option.none

theorem isFirst_parse : isFirst "Framer" "parse" = true := by decide
theorem isFirst_got_relay_ok : isFirst "Framer" "got_relay_ok" = false := by decide
theorem isFirst_got_prologue : isFirst "Framer" "got_prologue" = false := by decide

/-! ## the framer's heap -/

def wantFrame : Framer.State → Bool
  | .want_frame => true
  | _ => false

structure RelFr (cfg : FramerCfg) (op : Bytes) (h : Store) (s : FramerSt) : Prop where
  st : h.get "$state" = some (.str s.st.name)
  buf : h.get "_buffer" = some (.bytes s.buf)
  pro : h.get "_inbound_prologue" = some (.bytes cfg.inboundPrologue)
  opro : h.get "_outbound_prologue" = some (.bytes op)
  relay : s.st = .want_relay → h.get "_expected_relay_handshake" = some (.bytes cfg.relayExpected)
  tr : h.get "_transport" = some (.ref "transport" 0)
  csf : h.get "_can_send_frames" = some (.bool (wantFrame s.st))

theorem relFr_iff (cfg : FramerCfg) (op : Bytes) (h : Store) (s : FramerSt) :
    RelFr cfg op h s ↔
      (h.get "$state" = some (.str s.st.name) ∧ h.get "_buffer" = some (.bytes s.buf) ∧
       h.get "_inbound_prologue" = some (.bytes cfg.inboundPrologue) ∧ h.get "_outbound_prologue" = some (.bytes op) ∧
       (s.st = .want_relay → h.get "_expected_relay_handshake" = some (.bytes cfg.relayExpected)) ∧
       h.get "_transport" = some (.ref "transport" 0) ∧
       h.get "_can_send_frames" = some (.bool (wantFrame s.st))) :=
  ⟨fun ⟨a, b, c, d, e, f, g⟩ => ⟨a, b, c, d, e, f, g⟩, fun ⟨a, b, c, d, e, f, g⟩ => ⟨a, b, c, d, e, f, g⟩⟩

/-- symbolic evaluation of a `_Framer` method including the Automat dispatch through the generated table -/
macro "fr_eval" "[" ts:Lean.Parser.Tactic.simpLemma,* "]" : tactic =>
  `(tactic| l2_eval [tblFramer, tbl_Framer, dispatch, framerRows, Framer.table, Framer.State.all, Framer.State.name,
      Framer.Output.name, Framer.Input.ofName?, rowBody, outsCalls, isFirst_parse, isFirst_got_relay_ok,
      isFirst_got_prologue, envF, noRz, wantFrame, yields, absYield, decTok, encTok, relFr_iff, Err.name, $ts,*])

def flowOf : Option Err → Flow
  | Option.none => .norm
  | some e => .exc e.name

theorem errName_not_bc (e : Err) : e.name ≠ "$break" ∧ e.name ≠ "$continue" := by cases e <;> decide

theorem yields_append (a b : List Call) : yields (a ++ b) = yields a ++ yields b := by simp [yields]

/-- the `while True:` loop of `add_and_parse` against the model's loop run to completion (`run` = `pump` with enough
    fuel), for every buffer: `hbody` — one turn of the interpreted body is one `parseTurn` — is discharged by symbolic
    evaluation of the generated loop body; the induction is on the model's termination measure `mu`. -/
theorem whileLoopBC_run (cfg : FramerCfg) (Inv : Store → FramerSt → Prop)
    {cond : St → Res Val} {body : St → St × Flow}
    (hcond : ∀ σ, cond σ = .ok (.bool true))
    (hbody : ∀ h L cs fr, Inv h fr →
      match parseTurn cfg fr with
      | .error e => (body ⟨h, L, cs⟩).2 = .exc e.name ∧ Inv (body ⟨h, L, cs⟩).1.heap fr ∧
          yields (body ⟨h, L, cs⟩).1.calls = yields cs
      | .ok Option.none => (body ⟨h, L, cs⟩).2 = .exc "$break" ∧ Inv (body ⟨h, L, cs⟩).1.heap fr ∧
          yields (body ⟨h, L, cs⟩).1.calls = yields cs
      | .ok (some (fr', Option.none)) => (body ⟨h, L, cs⟩).2 = .norm ∧ Inv (body ⟨h, L, cs⟩).1.heap fr' ∧
          yields (body ⟨h, L, cs⟩).1.calls = yields cs
      | .ok (some (fr', some t)) => (body ⟨h, L, cs⟩).2 = .norm ∧ Inv (body ⟨h, L, cs⟩).1.heap fr' ∧
          yields (body ⟨h, L, cs⟩).1.calls = yields cs ++ [t]) :
    ∀ (n : Nat) (fr : FramerSt) (h L : Store) (cs : List Call) (F : Nat), mu fr < n → n ≤ F → Inv h fr →
      ∃ h' L' cs', whileLoopBC cond body F ⟨h, L, cs⟩ = (⟨h', L', cs'⟩, flowOf (run cfg collect fr (yields cs)).2.2) ∧
        Inv h' (run cfg collect fr (yields cs)).1 ∧ yields cs' = (run cfg collect fr (yields cs)).2.1 := by
  intro n
  induction n with
  | zero => intro fr h L cs F hm; omega
  | succ n ih =>
    intro fr h L cs F hm hF hI
    obtain ⟨F, rfl⟩ : ∃ F', F = F' + 1 := ⟨F - 1, by omega⟩
    have hb := hbody h L cs fr hI
    rcases hbd : body ⟨h, L, cs⟩ with ⟨⟨h1, L1, cs1⟩, fl⟩
    rw [hbd] at hb
    rw [run_unfold]
    cases hp : parseTurn cfg fr with
    | error e =>
      simp only [hp] at hb
      obtain ⟨hfl, hI1, hy⟩ := hb
      subst hfl
      refine ⟨h1, L1, cs1, ?_, by simpa using hI1, by simpa using hy⟩
      have hne := errName_not_bc e
      simp [whileLoopBC, hcond, withVal, truthy_bool, hbd, hne.1, hne.2, flowOf]
    | ok o =>
      cases o with
      | none =>
        simp only [hp] at hb
        obtain ⟨hfl, hI1, hy⟩ := hb
        subst hfl
        refine ⟨h1, L1, cs1, ?_, by simpa using hI1, by simpa using hy⟩
        simp [whileLoopBC, hcond, withVal, truthy_bool, hbd, flowOf]
      | some p =>
        obtain ⟨fr', t⟩ := p
        have hd := parseTurn_decreases hp
        cases t with
        | none =>
          simp only [hp] at hb
          obtain ⟨hfl, hI1, hy⟩ := hb
          subst hfl
          obtain ⟨h2, L2, cs2, e2, hI2, hy2⟩ := ih fr' h1 L1 cs1 F (by omega) (by omega) hI1
          rw [hy] at e2 hI2 hy2
          refine ⟨h2, L2, cs2, ?_, by simpa using hI2, by simpa using hy2⟩
          simp [whileLoopBC, hcond, withVal, truthy_bool, hbd, e2]
        | some t =>
          simp only [hp] at hb
          obtain ⟨hfl, hI1, hy⟩ := hb
          subst hfl
          obtain ⟨h2, L2, cs2, e2, hI2, hy2⟩ := ih fr' h1 L1 cs1 F (by omega) (by omega) hI1
          rw [hy] at e2 hI2 hy2
          refine ⟨h2, L2, cs2, ?_, by simpa [collect] using hI2, by simpa [collect] using hy2⟩
          simp [whileLoopBC, hcond, withVal, truthy_bool, hbd, e2, collect]

/-- the same in continuation form, so that `cond`/`body` are read off the goal -/
theorem whileLoopBC_run' {G : Prop} (cfg : FramerCfg) (Inv : Store → FramerSt → Prop)
    {cond : St → Res Val} {body : St → St × Flow} {F : Nat} {σ : St} {w : St × Flow}
    (hw : whileLoopBC cond body F σ = w) (fr : FramerSt)
    (hcond : ∀ σ, cond σ = .ok (.bool true))
    (hbody : ∀ h L cs fr, Inv h fr →
      match parseTurn cfg fr with
      | .error e => (body ⟨h, L, cs⟩).2 = .exc e.name ∧ Inv (body ⟨h, L, cs⟩).1.heap fr ∧
          yields (body ⟨h, L, cs⟩).1.calls = yields cs
      | .ok Option.none => (body ⟨h, L, cs⟩).2 = .exc "$break" ∧ Inv (body ⟨h, L, cs⟩).1.heap fr ∧
          yields (body ⟨h, L, cs⟩).1.calls = yields cs
      | .ok (some (fr', Option.none)) => (body ⟨h, L, cs⟩).2 = .norm ∧ Inv (body ⟨h, L, cs⟩).1.heap fr' ∧
          yields (body ⟨h, L, cs⟩).1.calls = yields cs
      | .ok (some (fr', some t)) => (body ⟨h, L, cs⟩).2 = .norm ∧ Inv (body ⟨h, L, cs⟩).1.heap fr' ∧
          yields (body ⟨h, L, cs⟩).1.calls = yields cs ++ [t])
    (hI : Inv σ.heap fr) (hF : mu fr < F)
    (cont : ∀ h' L' cs', Inv h' (run cfg collect fr (yields σ.calls)).1 →
      yields cs' = (run cfg collect fr (yields σ.calls)).2.1 →
      w = (⟨h', L', cs'⟩, flowOf (run cfg collect fr (yields σ.calls)).2.2) → G) : G := by
  obtain ⟨h', L', cs', e, hI', hy⟩ :=
    whileLoopBC_run cfg Inv hcond hbody (mu fr + 1) fr σ.heap σ.locals σ.calls F (by omega) (by omega) hI
  exact cont h' L' cs' hI' hy (hw ▸ e)

/-! ## records and the codec's environment -/

/-- a record namedtuple of connection.py; the subprotocol of `Open` is a Python `str`, here the string `d8 sub` that the
    (abstract) UTF-8 decoder makes of the model's bytes -/
def encRecV (d8 : Bytes → String) : Rec → Val
  | .kcm => .obj "KCM" []
  | .ping id => .obj "Ping" [.bytes id]
  | .pong id => .obj "Pong" [.bytes id]
  | .opn s c sub => .obj "Open" [.int s, .int c, .str (d8 sub)]
  | .data s c d => .obj "Data" [.int s, .int c, .bytes d]
  | .close s c => .obj "Close" [.int s, .int c]
  | .ack r => .obj "Ack" [.int r]

/-- the codec's environment: `to_be4`/`from_be4` are the model's; `str(b, "utf8")` is the abstract decoder `d8` guarded by
    the abstract validity predicate `vu`, `s.encode("utf8")` the abstract encoder `e8` -/
def envCodec (vu : Bytes → Bool) (d8 : Bytes → String) (e8 : String → Bytes) : Env where
  fmtD := fun n => toString n
  raises := fun _ => Option.none
  ext := fun f args =>
    match f, args with
    | "from_be4", [.bytes b] => (match fromBe4 b with | some n => .ok (.int n) | Option.none => .exc "ValueError")
    | "to_be4", [.int n] => (match toBe4 n with | some b => .ok (.bytes b) | Option.none => .exc "ValueError")
    | "str", [.bytes b, .str "utf8"] => if vu b then .ok (.str (d8 b)) else .exc "UnicodeDecodeError"
    | "str.encode", [.str t, .str "utf8"] => .ok (.bytes (e8 t))
    | "fstring", _ => .ok (.str "")
    | _, _ => unsupported

theorem drop_take_lit (l hh : Nat) (b : Bytes) : (b.take hh).drop l = (b.drop l).take (hh - l) := List.drop_take

/-! ## `_Record`: the chunking loops -/

/-- pieces processed with successive nonces and concatenated; `none` = one of them failed (shape of `decChunks`) -/
def procChunks (op : Nat → Bytes → Option Bytes) : Nat → List Bytes → Option (Bytes × Nat)
  | n, [] => some ([], n)
  | n, c :: cs =>
    match op n c with
    | Option.none => Option.none
    | some p =>
      match procChunks op (n + 1) cs with
      | Option.none => Option.none
      | some (r, n') => some (p ++ r, n')

theorem procChunks_dec (N : Noise) : ∀ (cs : List Bytes) (n : Nat), procChunks N.dec n cs = decChunks N n cs := by
  intro cs
  induction cs with
  | nil => intro n; rfl
  | cons c cs ih =>
    intro n
    simp only [procChunks, decChunks, ih]
    cases N.dec n c with
    | none => rfl
    | some p =>
      cases decChunks N (n + 1) cs with
      | none => rfl
      | some q => rfl

theorem procChunks_enc (N : Noise) : ∀ (cs : List Bytes) (n : Nat),
    procChunks (fun n c => some (N.enc n c)) n cs = some (encChunks N n cs) := by
  intro cs
  induction cs with
  | nil => intro n; rfl
  | cons c cs ih => intro n; simp [procChunks, encChunks, ih]

/-- `while start < len(M): piece = M[start:start+K]; x = op(piece); acc += x; start += K` — for every length of `M`:
    the calls are `mk piece` for the model's `chunksOf K`, the accumulator is the model's concatenation, the k-th call is
    answered with nonce `n0 + (its position)`; when `op` fails the loop ends with that exception.  `LInv L s acc` = the
    locals hold `start = s` and the accumulator `acc`; `hcond`/`hbody` are discharged by symbolic evaluation of the
    generated loop. -/
theorem whileLoop_chunks (K : Nat) (hK : 0 < K) (M : Bytes) (op : Nat → Bytes → Option Bytes) (n0 : Nat)
    (mk : Bytes → Call) (xc : String) (LInv : Store → Nat → Bytes → Prop) (h : Store)
    {cond : St → Res Val} {body : St → St × Flow}
    (hcond : ∀ L cs s acc, LInv L s acc → cond ⟨h, L, cs⟩ = .ok (.bool (decide (s < M.length))))
    (hbody : ∀ L cs s acc, LInv L s acc → s < M.length →
      match op (n0 + cs.length) ((M.drop s).take K) with
      | some p => ∃ L', body ⟨h, L, cs⟩ = (⟨h, L', cs ++ [mk ((M.drop s).take K)]⟩, .norm) ∧ LInv L' (s + K) (acc ++ p)
      | Option.none => ∃ L', body ⟨h, L, cs⟩ = (⟨h, L', cs ++ [mk ((M.drop s).take K)]⟩, .exc xc)) :
    ∀ (f s : Nat) (acc : Bytes) (L : Store) (cs : List Call) (F : Nat), LInv L s acc → (M.drop s).length ≤ f → f < F →
      match procChunks op (n0 + cs.length) (chunksOf K f (M.drop s)) with
      | some (r, _) => ∃ L' s', whileLoop cond body F ⟨h, L, cs⟩ =
            (⟨h, L', cs ++ (chunksOf K f (M.drop s)).map mk⟩, .norm) ∧ LInv L' s' (acc ++ r)
      | Option.none => ∃ L' cs', whileLoop cond body F ⟨h, L, cs⟩ = (⟨h, L', cs'⟩, .exc xc) := by
  intro f
  induction f with
  | zero =>
    intro s acc L cs F hL hlen hF
    obtain ⟨F, rfl⟩ : ∃ F', F = F' + 1 := ⟨F - 1, by omega⟩
    have hs : ¬ s < M.length := by simp at hlen; omega
    simp only [chunksOf, procChunks]
    exact ⟨L, s, by simp [whileLoop, hcond L cs s acc hL, withVal, truthy_bool, hs], by simpa using hL⟩
  | succ f ih =>
    intro s acc L cs F hL hlen hF
    obtain ⟨F, rfl⟩ : ∃ F', F = F' + 1 := ⟨F - 1, by omega⟩
    by_cases hs : s < M.length
    · have hne : (M.drop s).isEmpty = false := by
        cases hd : M.drop s with
        | nil => have := congrArg List.length hd; simp at this; omega
        | cons a r => rfl
      have hb := hbody L cs s acc hL hs
      have hdrop : (M.drop s).drop K = M.drop (s + K) := by simp [List.drop_drop, Nat.add_comm]
      have hch : chunksOf K (f + 1) (M.drop s) = (M.drop s).take K :: chunksOf K f (M.drop (s + K)) := by
        simp [chunksOf, hne, hdrop]
      rw [hch]
      simp only [procChunks, List.map_cons]
      cases hop : op (n0 + cs.length) ((M.drop s).take K) with
      | none =>
        rw [hop] at hb
        simp only
        obtain ⟨L', hb⟩ := hb
        exact ⟨L', cs ++ [mk ((M.drop s).take K)], by simp [whileLoop, hcond L cs s acc hL, withVal, truthy_bool, hs, hb, andThen]⟩
      | some p =>
        rw [hop] at hb
        obtain ⟨L', hb, hL'⟩ := hb
        have hlen' : (M.drop (s + K)).length ≤ f := by simp at hlen ⊢; omega
        have := ih (s + K) (acc ++ p) L' (cs ++ [mk ((M.drop s).take K)]) F hL' hlen' (by omega)
        simp only [List.length_append, List.length_singleton, ← Nat.add_assoc] at this
        cases hpc : procChunks op (n0 + cs.length + 1) (chunksOf K f (M.drop (s + K))) with
        | none =>
          rw [hpc] at this
          simp only
          obtain ⟨L2, cs2, e2⟩ := this
          exact ⟨L2, cs2, by simp [whileLoop, hcond L cs s acc hL, withVal, truthy_bool, hs, hb, andThen, e2]⟩
        | some q =>
          obtain ⟨r, n'⟩ := q
          rw [hpc] at this
          simp only
          obtain ⟨L2, s2, e2, hL2⟩ := this
          refine ⟨L2, s2, ?_, by simpa [List.append_assoc] using hL2⟩
          simp [whileLoop, hcond L cs s acc hL, withVal, truthy_bool, hs, hb, andThen, e2]
    · have hemp : M.drop s = [] := by simp; omega
      simp only [hemp, chunksOf, List.isEmpty_nil, if_true, procChunks, List.map_nil, List.append_nil]
      exact ⟨L, s, by simp [whileLoop, hcond L cs s acc hL, withVal, truthy_bool, hs], by simpa using hL⟩

/-- the same in continuation form, from the start of the loop -/
theorem whileLoop_chunks' {G : Prop} (K : Nat) (hK : 0 < K) (M : Bytes) (op : Nat → Bytes → Option Bytes) (n0 : Nat)
    (mk : Bytes → Call) (xc : String) (LInv : Store → Nat → Bytes → Prop)
    {cond : St → Res Val} {body : St → St × Flow} {F : Nat} {σ : St} {w : St × Flow}
    (hw : whileLoop cond body F σ = w) (acc0 : Bytes)
    (hcond : ∀ L cs s acc, LInv L s acc → cond ⟨σ.heap, L, cs⟩ = .ok (.bool (decide (s < M.length))))
    (hbody : ∀ L cs s acc, LInv L s acc → s < M.length →
      match op (n0 + cs.length) ((M.drop s).take K) with
      | some p => ∃ L', body ⟨σ.heap, L, cs⟩ = (⟨σ.heap, L', cs ++ [mk ((M.drop s).take K)]⟩, .norm) ∧ LInv L' (s + K) (acc ++ p)
      | Option.none => ∃ L', body ⟨σ.heap, L, cs⟩ = (⟨σ.heap, L', cs ++ [mk ((M.drop s).take K)]⟩, .exc xc))
    (hL : LInv σ.locals 0 acc0) (hF : M.length < F)
    (cont : (match procChunks op (n0 + σ.calls.length) (chunksOf K M.length M) with
      | some (r, _) => ∃ L' s', w = (⟨σ.heap, L', σ.calls ++ (chunksOf K M.length M).map mk⟩, .norm) ∧ LInv L' s' (acc0 ++ r)
      | Option.none => ∃ L' cs', w = (⟨σ.heap, L', cs'⟩, .exc xc)) → G) : G := by
  have key := whileLoop_chunks K hK M op n0 mk xc LInv σ.heap hcond hbody M.length 0 acc0 σ.locals σ.calls F hL
    (by simp) hF
  simp only [List.drop_zero] at key
  apply cont
  rw [← hw]
  exact key

theorem encChunks_snd (N : Noise) : ∀ (cs : List Bytes) (n : Nat), (encChunks N n cs).2 = n + cs.length := by
  intro cs
  induction cs with
  | nil => intro n; rfl
  | cons c cs ih => intro n; simp [encChunks, ih]; omega

/-- the environment of `_Record`'s methods.  The ideal Noise answers the k-th recorded call with nonce `n0 + k` (a
    `_Record` method makes no other calls before its Noise calls): `encrypt` = `N.enc`, `decrypt` = `N.dec`
    (`NoiseInvalidMessage` when it does not verify), `read_message` verifies the handshake with `hsOK`, `write_message`
    returns the handshake bytes `hs`.  The codec functions are parameters (`er`, `pr`): the theorems assume of them
    what `codec_encode_record` / `codec_parse_record` prove of the real bodies. -/
def envR (N : Noise) (n0 : Nat) (hsOK : Bytes → Bool) (hs : Bytes) (er : Val → Res Val) (pr : Bytes → Res Val) : Env where
  fmtD := fun n => toString n
  raises := fun _ => Option.none
  ext := fun f args =>
    match f, args with
    | "encode_record", [v] => er v
    | "parse_record", [.bytes m] => pr m
    | _, _ => unsupported
  retf := fun k obj meth args =>
    match obj, meth, args with
    | "_noise", "encrypt", [.bytes m] => .ok (.bytes (N.enc (n0 + k) m))
    | "_noise", "decrypt", [.bytes c] =>
      (match N.dec (n0 + k) c with | some p => .ok (.bytes p) | Option.none => .exc "NoiseInvalidMessage")
    | "_noise", "read_message", [.bytes f] => if hsOK f then .ok (.bytes []) else .exc "NoiseInvalidMessage"
    | "_noise", "write_message", [] => .ok (.bytes hs)
    | _, _, _ => .ok .none

def encCall (m : Bytes) : Call := ⟨"_noise", "encrypt", [.bytes m]⟩
def decCall (m : Bytes) : Call := ⟨"_noise", "decrypt", [.bytes m]⟩

/-- the Noise calls `send_record` makes for an encoded message: one `encrypt` per piece of at most NOISE_MAX_PAYLOAD -/
def sealCalls (msg : Bytes) : List Call :=
  if msg.length ≤ Consts.NOISE_MAX_PAYLOAD then [encCall msg]
  else (chunksOf Consts.NOISE_MAX_PAYLOAD msg.length msg).map encCall

theorem decChunks_snd (N : Noise) : ∀ (cs : List Bytes) (n : Nat) (p : Bytes) (n' : Nat),
    decChunks N n cs = some (p, n') → n' = n + cs.length := by
  intro cs
  induction cs with
  | nil => intro n p n' h; simp [decChunks] at h; simp [h.2]
  | cons c cs ih =>
    intro n p n' h
    simp only [decChunks] at h
    cases h1 : N.dec n c with
    | none => simp [h1] at h
    | some q =>
      cases h2 : decChunks N (n + 1) cs with
      | none => simp [h1, h2] at h
      | some r =>
        obtain ⟨r1, r2⟩ := r
        simp [h1, h2] at h
        have := ih (n + 1) r1 r2 h2
        simp; omega

/-- the Noise calls `decrypt_message` makes for a frame: one `decrypt` per piece of at most NOISE_MAX_CIPHERTEXT -/
def openCalls (f : Bytes) : List Call :=
  if f.length ≤ Consts.NOISE_MAX_CIPHERTEXT then [decCall f]
  else (chunksOf Consts.NOISE_MAX_CIPHERTEXT f.length f).map decCall

/-! ## `DilatedConnectionProtocol` -/

def dcpRows (i : DCP.Input) : List (String × Option (String × List String)) :=
  DCP.State.all.map fun s =>
    (s.name, (DCP.table s i).map fun r => (r.1.name, r.2.map DCP.Output.name))

/-- the method table of a `DilatedConnectionProtocol`: the translated outputs and methods, plus the inputs `got_kcm()` and
    `got_record(record)` as dispatchers over the GENERATED transition table (`select` is not offered: its first output
    `set_manager` is outside the subset) -/
def tblDCP : MethodTable := fun m =>
  match tbl_DCP m with
  | some b => some b
  | Option.none =>
    if m = "got_kcm" then some ([], dispatch (isFirst "DCP" m) [] (dcpRows .got_kcm))
    else if m = "got_record" then some (["$a0"], dispatch (isFirst "DCP" m) [.var "$a0"] (dcpRows .got_record))
    else Option.none

theorem isFirst_dcp_got_kcm : isFirst "DCP" "got_kcm" = false := by decide
theorem isFirst_dcp_got_record : isFirst "DCP" "got_record" = false := by decide

def envDCP (rz : Nat → Option String) : Env where
  fmtD := fun n => toString n
  raises := rz
  ext := fun _ _ => unsupported

/-- heap of a `DilatedConnectionProtocol` ⟷ the DCP part of the model's `UpSt` -/
structure RelDCP (d8 : Bytes → String) (h : Store) (dcp : DCP.State) (queued : List Rec) : Prop where
  st : h.get "$state" = some (.str dcp.name)
  q : h.get "_inbound_record_queue" = some (.list (queued.map (encRecV d8)))
  conn : h.get "_connector" = some (.ref "connector" 0)
  mgr : dcp = .selected → h.get "_manager" = some (.ref "manager" 0)

theorem relDCP_iff (d8 : Bytes → String) (h : Store) (dcp : DCP.State) (queued : List Rec) :
    RelDCP d8 h dcp queued ↔
      (h.get "$state" = some (.str dcp.name) ∧ h.get "_inbound_record_queue" = some (.list (queued.map (encRecV d8))) ∧
       h.get "_connector" = some (.ref "connector" 0) ∧ (dcp = .selected → h.get "_manager" = some (.ref "manager" 0))) :=
  ⟨fun ⟨a, b, c, d⟩ => ⟨a, b, c, d⟩, fun ⟨a, b, c, d⟩ => ⟨a, b, c, d⟩⟩

macro "dcp_eval" "[" ts:Lean.Parser.Tactic.simpLemma,* "]" : tactic =>
  `(tactic| l2_eval [tblDCP, tbl_DCP, dispatch, dcpRows, DCP.table, DCP.State.all, DCP.State.name, DCP.Output.name,
      rowBody, outsCalls, isFirst_dcp_got_kcm, isFirst_dcp_got_record, envDCP, noRz, relDCP_iff, Err.name, $ts,*])

theorem encRecV_truthy (d8 : Bytes → String) (r : Rec) : (encRecV d8 r).truthy = true := by cases r <;> rfl

def mgrCall (d8 : Bytes → String) (r : Rec) : Call := ⟨"_manager", "got_record", [encRecV d8 r]⟩

/-- `while self._inbound_record_queue: r = self._inbound_record_queue.pop(0); self._manager.got_record(r)` for every queue
    length: each record handed over once, oldest first, the queue ends empty -/
theorem whileLoop_flush (d8 : Bytes → String) {cond : St → Res Val} {body : St → St × Flow}
    (Inv : Store → List Rec → Prop)
    (hcond : ∀ h L cs q, Inv h q → ∃ v, cond ⟨h, L, cs⟩ = .ok v ∧ v.truthy = !q.isEmpty)
    (hbody : ∀ h L cs r q, Inv h (r :: q) → ∃ h' L', body ⟨h, L, cs⟩ = (⟨h', L', cs ++ [mgrCall d8 r]⟩, .norm) ∧ Inv h' q) :
    ∀ (q : List Rec) (h L : Store) (cs : List Call) (F : Nat), Inv h q → q.length < F →
      ∃ h' L', whileLoop cond body F ⟨h, L, cs⟩ = (⟨h', L', cs ++ q.map (mgrCall d8)⟩, .norm) ∧ Inv h' [] := by
  intro q
  induction q with
  | nil =>
    intro h L cs F hI hF
    obtain ⟨F, rfl⟩ : ∃ F', F = F' + 1 := ⟨F - 1, by omega⟩
    obtain ⟨v, hc, hv⟩ := hcond h L cs [] hI
    exact ⟨h, L, by simp [whileLoop, hc, withVal, hv], hI⟩
  | cons r q ih =>
    intro h L cs F hI hF
    obtain ⟨F, rfl⟩ : ∃ F', F = F' + 1 := ⟨F - 1, by omega⟩
    obtain ⟨v, hc, hv⟩ := hcond h L cs (r :: q) hI
    obtain ⟨h1, L1, hb, hI1⟩ := hbody h L cs r q hI
    obtain ⟨h2, L2, e2, hI2⟩ := ih h1 L1 (cs ++ [mgrCall d8 r]) F hI1 (by simp at hF; omega)
    exact ⟨h2, L2, by simp [whileLoop, hc, withVal, hv, hb, andThen, e2], hI2⟩

theorem whileLoop_flush' {G : Prop} (d8 : Bytes → String) {cond : St → Res Val} {body : St → St × Flow} {F : Nat} {σ : St}
    {w : St × Flow} (hw : whileLoop cond body F σ = w) (Inv : Store → List Rec → Prop) (q : List Rec)
    (hcond : ∀ h L cs q, Inv h q → ∃ v, cond ⟨h, L, cs⟩ = .ok v ∧ v.truthy = !q.isEmpty)
    (hbody : ∀ h L cs r q, Inv h (r :: q) → ∃ h' L', body ⟨h, L, cs⟩ = (⟨h', L', cs ++ [mgrCall d8 r]⟩, .norm) ∧ Inv h' q)
    (hI : Inv σ.heap q) (hF : q.length < F)
    (cont : ∀ h' L', Inv h' [] → w = (⟨h', L', σ.calls ++ q.map (mgrCall d8)⟩, .norm) → G) : G := by
  obtain ⟨h', L', e, hI'⟩ := whileLoop_flush d8 Inv hcond hbody q σ.heap σ.locals σ.calls F hI hF
  exact cont h' L' hI' (hw ▸ e)

/-! ## `_Record` as a machine -/

def recordRows (i : Record.Input) : List (String × Option (String × List String)) :=
  Record.State.all.map fun s =>
    (s.name, (Record.table s i).map fun r => (r.1.name, r.2.map Record.Output.name))

/-- the method table of a `_Record`: the translated outputs and methods, plus the inputs `got_frame(frame)` and
    `got_prologue()` as dispatchers over the GENERATED transition table -/
def tblRecord : MethodTable := fun m =>
  match tbl_Record m with
  | some b => some b
  | Option.none =>
    if m = "got_frame" then some (["$a0"], dispatch (isFirst "Record" m) [.var "$a0"] (recordRows .got_frame))
    else if m = "got_prologue" then some ([], dispatch (isFirst "Record" m) [] (recordRows .got_prologue))
    else Option.none

theorem isFirst_record_got_frame : isFirst "Record" "got_frame" = true := by decide
theorem isFirst_record_got_prologue : isFirst "Record" "got_prologue" = false := by decide

/-- a run of `callM` from an empty call list, read off the `Outcome` of `exec` -/
theorem callM_of_exec (env : Env) (tbl : MethodTable) (fuel : Nat) (m : String) (args : List Val) (h : Store) :
    callM env tbl fuel m args h [] =
      ((exec fuel env tbl m args h).heap, (exec fuel env tbl m args h).calls,
        match (exec fuel env tbl m args h).exc with
        | Option.none => .ok (exec fuel env tbl m args h).ret
        | some c => .exc c) := by
  unfold exec
  rcases callM env tbl fuel m args h [] with ⟨h', cs, r⟩
  cases r <;> rfl

def encUp (d8 : Bytes → String) : Up → Val
  | .handshake => .obj "Handshake" []
  | .record r => encRecV d8 r

/-- the `framer.send_frame` calls of a run, by their argument -/
def sentFrames (cs : List Call) : List Val :=
  cs.filterMap fun c => match c with
    | ⟨"_framer", "send_frame", [v]⟩ => some v
    | _ => Option.none

macro "rec_eval" "[" ts:Lean.Parser.Tactic.simpLemma,* "]" : tactic =>
  `(tactic| l2_eval [tblRecord, tbl_Record, dispatch, recordRows, Record.table, Record.State.all, Record.State.name,
      Record.Output.name, rowBody, outsCalls, isFirst_record_got_frame, isFirst_record_got_prologue, envR, Err.name,
      sentFrames, encUp, $ts,*])

theorem sentFrames_openCalls (f : Bytes) : sentFrames (openCalls f) = [] := by
  unfold openCalls
  split
  · rfl
  · simp [sentFrames, List.filterMap_map, decCall, List.filterMap_eq_nil_iff]

end WV.Proofs.PyIRL2
