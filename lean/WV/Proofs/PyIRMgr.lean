import WV.Model.C17
import WV.Model.C16
import WV.Gen.PyIRMgr
import WV.Proofs.PyIR_Dil

set_option linter.unusedSimpArgs false
set_option linter.unusedVariables false

/-!
Translation validation of the Dilation Manager and its TrafficTimer (PyIR, `WV.Gen.PyIRMgr`) against the C17 and C16
models: encoders, heap ⟷ model relations, the environment, lemmas.

* a DelayedCall / connection / Connector is an object with identity (`Val.ref cls id`); whether a DelayedCall has already
  fired is NOT in the heap: it is the collaborator's state, visible only through `.cancel()` / `.delay()` raising
  `AlreadyCalled` (`Env.raises`), exactly as the C17 model has it (`Timer.fired`);
* `MCall`: the collaborator calls of the Manager that the models give a meaning to; `netApply` is that meaning on the
  network part of the C17 world (`disconnect c` = `closing := true`);
* `envM`: the external functions of the translated bodies (`closure`, `os.urandom`, `dict.get`, `"dilate-%d" %`,
  `dict_to_bytes`, `_find_shared_versions` = the model's `findShared`, `Connector(…)`, `Ping(…)`, `is` on the two roles).
-/
namespace WV.Proofs.PyIRMgr
open WV WV.PyIR WV.Gen WV.Gen.PyIRMgr WV.Proofs.PyIRC03 WV.Proofs.PyIRDil

/-! ## evaluation -/

macro "mgr_eval" "[" ts:Lean.Parser.Tactic.simpLemma,* "]" : tactic =>
  `(tactic| simp [exec, callM, execB, execS, andThen, withVal, evalE, evalEs, readAttr, readVar, bindParams, doEmit,
      forLoop, bindPat, iterElems, valIn, valAdd, valLen, valIndex, valItems, isInstance, pyEq, scalarEq,
      Val.hashable, truthy_none, truthy_bool, truthy_int, truthy_str, truthy_bytes, truthy_tuple, truthy_list,
      truthy_dict, truthy_set, truthy_obj, truthy_ref, truthy_nint, St.setAttr, St.setLocal, St.bindOpt, Store.get,
      Store.set, Store.del, get_set, bind, Res.bind, pure, unsupported,
      valLe, valMax, valField, isInstanceAny, setElems, valGetD, starElems, doEmitR, runReenter, Val.toInt?, Val.ofInt,
      valGt, mkDictLit, dictGet, dictSet,
      $ts,*])

/-! ## encoders -/

def encConn : Option Nat → Val
  | none => .none
  | some c => .ref "Connection" c

def encOptStr : Option String → Val
  | none => .none
  | some s => .str s

/-- `_timer` ⟷ `C17.Timer`: `None` ⟷ `.none`; a DelayedCall object otherwise (pending or fired: not visible in the heap) -/
def TimerRel (v : Val) (t : C17.Timer) : Prop :=
  (t = .none ∧ v = .none) ∨ (t ≠ .none ∧ ∃ id, v = .ref "DelayedCall" id)

/-- `_timer` and `_connection` of the Manager ⟷ `World.timer`, `World.conn` -/
def RelTC (h : Store) (w : C17.World) : Prop :=
  (∃ tv, h.get "_timer" = some tv ∧ TimerRel tv w.timer) ∧ h.get "_connection" = some (encConn w.conn)

/-- the collaborator of the timer handle: `.cancel()` / `.delay()` — always the first recorded call of the bodies that
    touch it — raise AlreadyCalled iff the DelayedCall has fired -/
def raisesT (t : C17.Timer) : Nat → Option String :=
  fun k => if k = 0 ∧ t = .fired then some "AlreadyCalled" else none

/-! ## the collaborator calls the models give a meaning to -/

inductive MCall where
  | timerCancel
  | timerDelay
  | disconnect (c : Nat)
  | connectorStop (g : Nat)
  | connectorStart (g : Nat)
  | stoppedFire
  | mainError (cls : String)
  | inboundStop
  | outboundStop
  | inputStart
  | onReconnect
  | startTimer
  | send (phase : String) (fields : List (String × String))    -- `self._S.send(phase, dict_to_bytes(fields))`
  | intervalElapsed                                            -- `self._traffic.interval_elapsed()`
  | trafficSeen                                                -- `self._traffic.traffic_seen()`
  | seconds                                                    -- `self._reactor.seconds()`
  | sendPing (id : List Nat)                                   -- `self._outbound.send_if_connected(Ping(id))`
  | callLater (cb : String)                                    -- `self._reactor.callLater(self._ping_interval, <closure cb>)`
  | trafficLost                                                -- `self._traffic.lost_connection()`
  | trafficGot                                                 -- `self._traffic.got_connection()`
  | input (i : Manager.Input)                                  -- an Automat input on `self` (without its argument)
  | inboundUse (c : Nat)                                       -- `self._inbound.use_connection(c)`
  | outboundUse (c : Nat)                                      -- `self._outbound.use_connection(c)`
  | mainFire                                                   -- `self._main_channel.fire(None)`
  | logErr (cls : String)                                      -- `log.err(<cls>(…))`
  deriving DecidableEq, Repr

/-- a dict of str → str (what `send_dilation_generation` serialises for the messages the model names) -/
def decFields : List (Val × Val) → Option (List (String × String))
  | [] => some []
  | (.str k, .str v) :: r => (decFields r).map ((k, v) :: ·)
  | _ => none

def mcall : Call → Option MCall
  | ⟨"_timer", "cancel", []⟩ => some .timerCancel
  | ⟨"_connection", "disconnect", []⟩ => none      -- needs the receiver: see `mcallW`
  | ⟨"_stopped", "fire", [.none]⟩ => some .stoppedFire
  | ⟨"_main_channel", "error", [.obj "Failure" [.obj cls []]]⟩ => some (.mainError cls)
  | ⟨"_inbound", "stop_using_connection", []⟩ => some .inboundStop
  | ⟨"_outbound", "stop_using_connection", []⟩ => some .outboundStop
  | ⟨"self", "start", []⟩ => some .inputStart
  | ⟨"on_reconnect", "__call__", []⟩ => some .onReconnect
  | ⟨"start_timer", "__call__", []⟩ => some .startTimer
  | ⟨"_S", "send", [.str p, .obj "dict_to_bytes" [.dict kvs]]⟩ => (decFields kvs).map (.send p)
  | ⟨"_traffic", "interval_elapsed", []⟩ => some .intervalElapsed
  | ⟨"_traffic", "lost_connection", []⟩ => some .trafficLost
  | ⟨"_traffic", "got_connection", []⟩ => some .trafficGot
  | ⟨"self", "connection_lost_leader", []⟩ => some (.input .connection_lost_leader)
  | ⟨"self", "connection_lost_follower", []⟩ => some (.input .connection_lost_follower)
  | ⟨"self", "connection_made", []⟩ => some (.input .connection_made)
  | ⟨"self", "rx_PLEASE", [_]⟩ => some (.input .rx_PLEASE)
  | ⟨"self", "rx_HINTS", [_]⟩ => some (.input .rx_HINTS)
  | ⟨"self", "rx_RECONNECT", []⟩ => some (.input .rx_RECONNECT)
  | ⟨"self", "rx_RECONNECTING", []⟩ => some (.input .rx_RECONNECTING)
  | ⟨"_inbound", "use_connection", [.ref "Connection" c]⟩ => some (.inboundUse c)
  | ⟨"_outbound", "use_connection", [.ref "Connection" c]⟩ => some (.outboundUse c)
  | ⟨"_main_channel", "fire", [.none]⟩ => some .mainFire
  | ⟨"log", "err", [.obj cls _]⟩ => some (.logErr cls)
  | ⟨"_traffic", "traffic_seen", []⟩ => some .trafficSeen
  | ⟨"_reactor", "seconds", []⟩ => some .seconds
  | ⟨"_outbound", "send_if_connected", [.obj "Ping" [.bytes b]]⟩ => some (.sendPing b)
  | ⟨"_reactor", "callLater", [.obj "interval" [], .obj "closure" [.str cb]]⟩ => some (.callLater cb)
  | ⟨"_timer", "delay", [.obj "interval" []]⟩ => some .timerDelay
  | _ => none

/-- the same, with the receivers resolved in the heap the call was made on (`_connection`, `_connector` are read
    from the heap BEFORE the method ran: no translated body changes them before the call) -/
def mcallW (w : C17.World) : Call → Option MCall
  | ⟨"_connection", "disconnect", []⟩ => w.conn.map .disconnect
  | ⟨"_connector", "stop", []⟩ => (match w.ctors.length with
      | 0 => none
      | g + 1 => some (.connectorStop g))
  | ⟨"_connector", "start", []⟩ => (match w.ctors.length with
      | 0 => none
      | g + 1 => some (.connectorStart g))
  | c => mcall c

/-- what a call means for the network part of the C17 world -/
def netApply (conns : List C17.Conn) : MCall → List C17.Conn
  | .disconnect c => conns.modify c fun x => { x with closing := true }
  | _ => conns

theorem TimerRel.none_iff {v : Val} {t : C17.Timer} (R : TimerRel v t) : v = .none ↔ t = .none := by
  rcases R with ⟨h1, h2⟩ | ⟨h1, id, h2⟩
  · simp [h1, h2]
  · subst h2; simp [h1]

theorem RelTC.mk' {h : Store} {w : C17.World} (tv : Val) (h1 : h.get "_timer" = some tv) (h2 : TimerRel tv w.timer)
    (h3 : h.get "_connection" = some (encConn w.conn)) : RelTC h w := ⟨⟨tv, h1, h2⟩, h3⟩

theorem TimerRel.of_none {v : Val} (R : TimerRel v .none) : v = .none := by
  rcases R with ⟨_, h2⟩ | ⟨h1, _⟩
  · exact h2
  · exact absurd rfl h1

theorem TimerRel.of_pending {v : Val} (R : TimerRel v .pending) : ∃ id, v = .ref "DelayedCall" id := by
  rcases R with ⟨h1, _⟩ | ⟨_, h2⟩
  · cases h1
  · exact h2

theorem TimerRel.of_fired {v : Val} (R : TimerRel v .fired) : ∃ id, v = .ref "DelayedCall" id := by
  rcases R with ⟨h1, _⟩ | ⟨_, h2⟩
  · cases h1
  · exact h2

theorem TimerRel.none : TimerRel .none .none := Or.inl ⟨rfl, rfl⟩
theorem TimerRel.pending (id : Nat) : TimerRel (.ref "DelayedCall" id) .pending := Or.inr ⟨by simp, id, rfl⟩
theorem TimerRel.fired (id : Nat) : TimerRel (.ref "DelayedCall" id) .fired := Or.inr ⟨by simp, id, rfl⟩

/-! ## the environment -/

mutual
/-- a JSON value as Python holds it after `json.loads` (numbers only as zero / non-zero, like the model) -/
def encJ : C17.J → Val
  | .null => .none
  | .bool b => .bool b
  | .num z => .int (if z then 0 else 1)
  | .str s => .str s
  | .arr xs => .list (encJs xs)
  | .obj kvs => .dict (encKVs kvs)
def encJs : List C17.J → List Val
  | [] => []
  | x :: r => encJ x :: encJs r
def encKVs : List (String × C17.J) → List (Val × Val)
  | [] => []
  | (k, v) :: r => (.str k, encJ v) :: encKVs r
end

mutual
def decJ : Val → Option C17.J
  | .none => some .null
  | .bool b => some (.bool b)
  | .int n => some (.num (n == 0))
  | .str s => some (.str s)
  | .list vs => (decJs vs).map .arr
  | .dict kvs => (decKVs kvs).map .obj
  | _ => none
def decJs : List Val → Option (List C17.J)
  | [] => some []
  | v :: r => match decJ v, decJs r with
    | some x, some xs => some (x :: xs)
    | _, _ => none
def decKVs : List (Val × Val) → Option (List (String × C17.J))
  | [] => some []
  | (k, v) :: r => match k, decJ v, decKVs r with
    | .str ks, some x, some xs => some ((ks, x) :: xs)
    | _, _, _ => none
end

/-- what `_find_shared_versions` returns, as a Python value / exception -/
def encShared : Except C17.Err (Option String) → Res Val
  | .ok (some s) => .ok (.str s)
  | .ok none => .ok .none
  | .error e => .exc e.name

/-- the external functions of the translated bodies.  `g` = the index the next `Connector(…)` gets in `World.ctors`,
    `rnd` = the 4 bytes the next `os.urandom(4)` returns. -/
def extM (g : Nat) (rnd : List Nat) : String → List Val → Res Val
  | "closure", [.str m] => .ok (.obj "closure" [.str m])
  | "str%", [.str "dilate-%d", .int n] => .ok (.str ("dilate-" ++ toString n))
  | "dict_to_bytes", [.dict kvs] => .ok (.obj "dict_to_bytes" [.dict kvs])     -- an injective serialisation, kept symbolic
  | "Connector", args => .ok (.obj "Connector" (.int g :: args))
  | "os.urandom", [.int 4] => .ok (.bytes rnd)
  | "Ping", [.bytes b] => .ok (.obj "Ping" [.bytes b])
  | "dict.get", [.dict kvs, k, dflt] => valGetD (.dict kvs) k dflt
  | "dict.get", [.none, _, _] | "dict.get", [.bool _, _, _] | "dict.get", [.int _, _, _] | "dict.get", [.str _, _, _]
  | "dict.get", [.list _, _, _] => .exc "AttributeError"
  | "is", [.obj "_Role" [.str a], .obj "_Role" [.str b]] => .ok (.bool (a == b))    -- the two module-level role objects
  | "is", [.none, .obj "_Role" _] => .ok (.bool false)
  | "TrafficTimer", [.obj "closure" [.str a], .obj "closure" [.str b]] => .ok (.obj "TrafficTimer" [.str a, .str b])
  | "bytes_to_dict", [.obj "json" [.dict d]] => .ok (.dict d)                         -- the payload, already parsed
  | "_find_shared_versions", [_, t] =>
    (match decJ t with
     | some c => encShared (C17.findShared Consts.DILATION_VERSIONS c)
     | none => unsupported)
  | _, _ => unsupported

def envM (raises : Nat → Option String) (rets : Nat → Val := fun _ => .none) (g : Nat := 0) (rnd : List Nat := []) : Env :=
  { ext := extM g rnd, fmtD := fun n => toString n, raises := raises, rets := rets }

def noRaise : Nat → Option String := fun _ => none

/-! ## model fragments -/

/-- the part of `C17.connectionLost` that is `Manager._stop_using_connection` as far as the Manager's own attributes go
    (what `Outbound.stop_using_connection` then does is Outbound's: `connectionLost_factors`) -/
def modelStopUsing (w : C17.World) : C17.Res :=
  C17.andThen (C17.cancelTimer Flags.stop_using_checks_active w) fun w1 => ({ w1 with conn := none }, none)

/-- `_connector` ⟷ `World.ctors` (the attribute does not exist before the first Connector is built) -/
def RelCtor (h : Store) (w : C17.World) : Prop :=
  match w.ctors.length with
  | 0 => h.get "_connector" = none
  | g + 1 => ∃ args, h.get "_connector" = some (.obj "Connector" (.int g :: args))

/-- `_next_dilation_generation`, `_S` -/
def RelGen (h : Store) (w : C17.World) : Prop :=
  h.get "_next_dilation_generation" = some (.int w.nextGen) ∧ ∃ i, h.get "_S" = some (.ref "Send" i)

/-- `_my_side`, `_dilation_version` -/
def RelSide (h : Store) (w : C17.World) : Prop :=
  h.get "_my_side" = some (.str w.mySide) ∧ h.get "_dilation_version" = some (encOptStr w.dver)

def lookupS (k : String) : List (String × String) → Option String
  | [] => none
  | (k', v) :: r => if k' = k then some v else lookupS k r

/-- how the C17 driver names a dilation message: its type, for a PLEASE followed by the version asked for -/
def tyOf (f : List (String × String)) : String :=
  match lookupS "type" f with
  | some t => if t = "please" then "please:" ++ (match lookupS "use-version" f with
      | some v => v
      | none => "-") else t
  | none => "?"

/-- the log line of `C17.sendGen` -/
def sendLine (n : Nat) (f : List (String × String)) : String := s!"send {n} {tyOf f}"

/-! ## JSON -/

mutual
theorem decJ_encJ : ∀ c, decJ (encJ c) = some c
  | .null => by simp [encJ, decJ]
  | .bool b => by simp [encJ, decJ]
  | .num z => by cases z <;> simp [encJ, decJ]
  | .str s => by simp [encJ, decJ]
  | .arr xs => by simp [encJ, decJ, decJs_encJs xs]
  | .obj kvs => by simp [encJ, decJ, decKVs_encKVs kvs]
theorem decJs_encJs : ∀ xs, decJs (encJs xs) = some xs
  | [] => by simp [encJs, decJs]
  | x :: r => by simp [encJs, decJs, decJ_encJ x, decJs_encJs r]
theorem decKVs_encKVs : ∀ kvs, decKVs (encKVs kvs) = some kvs
  | [] => by simp [encKVs, decKVs]
  | (k, v) :: r => by simp [encKVs, decKVs, decJ_encJ v, decKVs_encKVs r]
end

theorem lookupKey_none_of_not_mem (k : String) : ∀ kvs : List (String × C17.J), k ∉ kvs.map (·.1) → C17.lookupKey k kvs = none
  | [], _ => rfl
  | (k', v) :: r, hn => by
    have h1 : ¬ k' = k := fun e => hn (by simp [e])
    have h2 : k ∉ r.map (·.1) := fun m => hn (by simp [m])
    simp [C17.lookupKey, lookupKey_none_of_not_mem k r h2, h1]

/-- `d.get(k)` on the dict of a JSON object with distinct keys (what `json.loads` delivers) is the model's `lookupKey` -/
theorem dictGet_encKVs (k : String) : ∀ kvs : List (String × C17.J), (kvs.map (·.1)).Nodup →
    dictGet (.str k) (encKVs kvs) = .ok ((C17.lookupKey k kvs).map encJ)
  | [], _ => by simp [encKVs, dictGet, C17.lookupKey]
  | (k', v) :: r, hd => by
    have hd' : (r.map (·.1)).Nodup := (List.nodup_cons.mp (by simpa using hd)).2
    have hnm : k' ∉ r.map (·.1) := (List.nodup_cons.mp (by simpa using hd)).1
    by_cases hk : k' = k
    · subst hk
      simp [encKVs, dictGet, C17.lookupKey, pyEq, scalarEq, bind, Res.bind, pure, lookupKey_none_of_not_mem k' r hnm]
    · simp [encKVs, dictGet, C17.lookupKey, pyEq, scalarEq, bind, Res.bind, pure, hk, dictGet_encKVs k r hd']
      cases C17.lookupKey k r <;> simp

/-- the top level of the peer's versions message is a JSON object with distinct keys, or not an object at all -/
def TopOk : C17.J → Prop
  | .obj kvs => (kvs.map (·.1)).Nodup
  | _ => True

/-! ## roles, key -/

def encRole : Option Bool → Val
  | none => .none
  | some true => .obj "_Role" [.str "LEADER"]
  | some false => .obj "_Role" [.str "FOLLOWER"]

/-- `_dilation_key` ⟷ `World.key` -/
def KeyRel (v : Val) (b : Bool) : Prop := (b = false ∧ v = .none) ∨ (b = true ∧ ∃ k, v = .bytes k)

/-- `_traffic` ⟷ `World.tt` -/
def TTRel (v : Val) (tt : Option TrafficTimer.State) : Prop :=
  (tt = none ∧ v = .none) ∨ (tt ≠ none ∧ ∃ a b, v = .obj "TrafficTimer" [.str a, .str b])

theorem pauseLoop_role : ∀ (rest done : List C17.Prod) (w : C17.World), (C17.pauseLoop done rest w).1.role = w.role
  | [], done, w => by simp [C17.pauseLoop]
  | p :: rest, done, w => by
    simp only [C17.pauseLoop]
    split
    · exact pauseLoop_role rest _ w
    · split
      · rfl
      · exact pauseLoop_role rest _ w

theorem pauseAll_role (w : C17.World) : (C17.pauseAll w).1.role = w.role := by
  unfold C17.pauseAll
  split
  · rfl
  · rw [pauseLoop_role]

/-! ## `_pings_outstanding`: a dict keyed by the 4-byte ping ids -/

theorem keyEnc_bytes : KeyEnc Val.bytes :=
  ⟨fun a b => by by_cases h : a = b <;> simp [pyEq, scalarEq, h], fun _ => rfl⟩

def encPings (d : List (List Nat × Val)) : List (Val × Val) := d.map fun e => (.bytes e.1, e.2)

theorem dictGet_pings (d : List (List Nat × Val)) (k : List Nat) :
    dictGet (.bytes k) (encPings d) = .ok (C03.dget d k) := by
  have := dictGet_enc keyEnc_bytes (fun x : Val => x) d k
  simpa [encPings, encDict] using this

theorem dictSet_pings (d : List (List Nat × Val)) (k : List Nat) (v : Val) :
    dictSet (.bytes k) v (encPings d) = .ok (encPings (C03.dset d k v)) := by
  have := dictSet_enc keyEnc_bytes (fun x : Val => x) d k v
  simpa [encPings, encDict] using this

end WV.Proofs.PyIRMgr
