import WV.Proofs.C09_Client

/-! C09 — data half of the liveness clause: the per-client accounting invariant, the two-client system in a
    legal environment, and the quiescence theorem `Drained → received = sent`. -/
set_option linter.unusedSimpArgs false
set_option linter.unusedVariables false

namespace WV.Proofs.C09
open WV WV.C03 WV.Gen WV.Proofs.C03

/-! ## the accounting invariant of one client -/

/-- every `send_message` accepted so far waits in `Send._queue`, waits in `Mailbox._pending_outbound`, or has
    been stored by the server (`E`) — as long as the mailbox has not been told to close -/
def SendAcc (c : Client) (E : String → Prop) : Prop :=
  isOpen c.mbox.st = true → ∀ i, i < c.boss.nextTx → Qk c (showPhase i) ∨ Pk c (showPhase i) ∨ E (showPhase i)

structure CAcc (c : Client) (E : String → Prop) : Prop where
  k : KInv c
  ll : Lossless c
  clean : Clean c
  sacc : SendAcc c E
  plog : PendLogged c
  known : MboxKnown c

theorem CAcc.of_dsub {c c' : Client} {E : String → Prop} (h : CAcc c E) (d : DSub c c') (k' : KInv c')
    (l' : Lossless c') : CAcc c' E := by
  refine ⟨k', l', d.clean h.clean, ?_, d.plog h.plog, ?_⟩
  · intro ho i hi
    have ho0 : isOpen c.mbox.st = true := by rw [← d.mst]; exact ho
    rw [d.ntx] at hi
    rcases h.sacc ho0 i hi with hq | hp | he
    · rcases d.cover ho0 _ (Or.inl hq) with h1 | h1
      · exact Or.inl h1
      · exact Or.inr (Or.inl h1)
    · rcases d.cover ho0 _ (Or.inr hp) with h1 | h1
      · exact Or.inl h1
      · exact Or.inr (Or.inl h1)
    · exact Or.inr (Or.inr he)
  · unfold MboxKnown; rw [d.mst, d.mbk]; exact h.known

theorem CAcc.mono {c : Client} {E E' : String → Prop} (h : CAcc c E) (hE : ∀ p, E p → E' p) : CAcc c E' :=
  ⟨h.k, h.ll, h.clean, fun ho i hi => (h.sacc ho i hi).imp id (fun x => x.imp id (hE _)), h.plog, h.known⟩

theorem lossless_of_rsub {c c' : Client} (r : RSub c c') (h : Lossless c) : Lossless c' := by
  rcases h with hd | hg
  · exact Or.inl (r.dead hd)
  · right
    intro i hi
    rw [r.proc] at hi
    rcases hg i hi with hx | hx | hx
    · cases hx
    · obtain ⟨e, he, hp⟩ := hx
      exact Or.inr (Or.inl ⟨e, by rw [r.order]; exact he, hp⟩)
    · exact Or.inr (Or.inr (r.arr i hx))

theorem CAcc.of_sub {c c' : Client} {E : String → Prop} (h : CAcc c E) (s : Sub c c') (k' : KInv c') : CAcc c' E :=
  h.of_dsub s.toR.toD k' (lossless_of_rsub s.toR h.ll)

/-! ## the operations of a legal environment -/

/-- what the collaborators that are not inside `Client` (Key, Code, Terminator, RendezvousConnector, the
    application) can do, read off their code:
    * `Boss.happy` is called by `Receive` only (`_receive.py: W_happy`), never from outside;
    * `Send.got_verified_key` is called by `Receive` only (`S_got_verified_key`);
    * `Receive.got_key` is called by `Key.compute_key` after `Boss.got_key` returned, i.e. after `Boss.got_code`;
    * the Mailbox inputs are called with arguments of their own signature. -/
def legalOp (c : Client) : COp → Bool
  | .boss i _ => decide (i ≠ .happy)
  | .verified => false
  | .key => decide (c.boss.st ≠ .S0_empty)
  | .mbox i a => mboxArgOK i a
  | _ => true

theorem bossNext_K (st : Boss.State) (i : Boss.Input) (hi : i ≠ .happy) :
    (st ≠ .S2_happy → bossNext st i ≠ .S2_happy) ∧ (st ≠ .S0_empty → bossNext st i ≠ .S0_empty) ∧
    (st ≠ .S0_empty → st ≠ .S1_lonely → bossNext st i ≠ .S1_lonely) := by
  cases st <;> cases i <;> simp_all [bossNext, Boss.table]

theorem acc_boss (C : Crypto) (c : Client) (E : String → Prop) (i : Boss.Input) (a : CtlArg) (hi : i ≠ .happy)
    (h : CAcc c E) : CAcc (cBoss C c i a.toB).1 E := by
  obtain ⟨hsub, hsend, hboss⟩ := cBoss_ctl_sub C c i a
  apply h.of_sub hsub
  have hst : (cBoss C c i a.toB).1.boss.st = bossNext c.boss.st i := by rw [hboss]
  obtain ⟨b1, b2, b3⟩ := bossNext_K c.boss.st i hi
  refine ⟨?_, ?_, ?_, ?_, ?_, ?_, ?_⟩
  · rw [hsub.recv, hsend, hst]; intro hr; obtain ⟨x1, x2, x3⟩ := h.k.r0 hr; exact ⟨x1, x2, b1 x3⟩
  · rw [hsub.recv, hsend, hst]; intro hr; obtain ⟨x1, x2, x3, x4⟩ := h.k.r1 hr; exact ⟨x1, x2, b2 x3, b1 x4⟩
  · rw [hsub.recv, hsend, hst]; intro hr; obtain ⟨x1, x2, x3, x4⟩ := h.k.r2 hr; exact ⟨x1, x2, b2 x3, b3 x3 x4⟩
  · rw [hsend]; exact h.k.sk
  · rw [hsub.recv, hsub.order]; exact h.k.o0
  · rw [hsub.order]; exact h.k.o1
  · rw [hsub.mst, hsub.order]; exact h.k.m0


/-! ### `send_message` -/

theorem sendMsg_facts (C : Crypto) (c : Client) (ph : String) (pt : Bytes) :
    (sendMsg C c ph pt).1.boss = c.boss ∧ (sendMsg C c ph pt).1.send.st = c.send.st ∧
    (c.send.st = .S1_verified_key → (sendMsg C c ph pt).1.send = c.send) ∧
    ((c.send.st = .S1_verified_key → c.send.key = true) → isOpen c.mbox.st = true →
      Qk (sendMsg C c ph pt).1 ph ∨ Pk (sendMsg C c ph pt).1 ph) := by
  rcases c with ⟨sd, boss, ⟨st, key, queue⟩, mbox, order, recv, obs, log⟩
  cases st
  · refine ⟨rfl, rfl, ?_, ?_⟩
    · intro h; cases h
    · intro _ _; left; exact ⟨pt, by simp [sendMsg]⟩
  · cases key
    · refine ⟨rfl, rfl, fun _ => rfl, ?_⟩
      intro h; have := h rfl; cases this
    · refine ⟨addMsg_boss _ _ _, ?_, fun _ => addMsg_send _ _ _, fun _ ho => Or.inr (addMsg_pk _ _ _ ho)⟩
      show (addMsg _ _ _).send.st = _
      rw [addMsg_send]

theorem acc_send (C : Crypto) (c : Client) (E : String → Prop) (pt : Bytes) (h : CAcc c E) :
    CAcc (cBoss C c .send (.pt pt)).1 E := by
  rw [cBoss_send]
  unfold bossSend
  by_cases hl : bossLive c.boss.st = true
  · simp only [hl, if_true]
    generalize hc1 : ({ c with boss := { c.boss with nextTx := c.boss.nextTx + 1 } } : Client) = c1
    have hs := sub_sendMsg C c1 (showPhase c.boss.nextTx) pt
    obtain ⟨f1, f2, f3, f4⟩ := sendMsg_facts C c1 (showPhase c.boss.nextTx) pt
    have c1send : c1.send = c.send := by rw [← hc1]
    have c1recv : c1.recv = c.recv := by rw [← hc1]
    have c1order : c1.order = c.order := by rw [← hc1]
    have c1mbox : c1.mbox = c.mbox := by rw [← hc1]
    have c1bst : c1.boss.st = c.boss.st := by rw [← hc1]
    have k1 : KInv c1 := h.k.transfer c1recv c1send c1bst c1order (by rw [c1mbox])
    have k' : KInv (sendMsg C c1 (showPhase c.boss.nextTx) pt).1 := by
      refine ⟨?_, ?_, ?_, ?_, ?_, ?_, ?_⟩
      · rw [hs.recv, f2, f1]; exact k1.r0
      · rw [hs.recv, f2, f1]; exact k1.r1
      · rw [hs.recv, f2, f1]; exact k1.r2
      · rw [f2]; intro hx; rw [f3 hx]; exact k1.sk hx
      · rw [hs.recv, hs.order]; exact k1.o0
      · rw [hs.order]; exact k1.o1
      · rw [hs.mst, hs.order]; exact k1.m0
    have l1 : Lossless c1 := by rw [← hc1]; exact h.ll
    refine ⟨k', lossless_of_rsub hs.toR l1, hs.clean (by rw [← hc1]; exact h.clean), ?_, hs.plog (by rw [← hc1]; exact h.plog), ?_⟩
    · intro ho i hi
      have ho1 : isOpen c1.mbox.st = true := by rw [← hs.mst]; exact ho
      have ho0 : isOpen c.mbox.st = true := by rw [← c1mbox]; exact ho1
      rw [f1] at hi
      have hi' : i < c.boss.nextTx + 1 := by rw [← hc1] at hi; exact hi
      by_cases hlt : i < c.boss.nextTx
      · rcases h.sacc ho0 i hlt with hq | hp | he
        · rcases hs.cover ho1 _ (Or.inl (by rw [← hc1]; exact hq)) with h1 | h1
          · exact Or.inl h1
          · exact Or.inr (Or.inl h1)
        · rcases hs.cover ho1 _ (Or.inr (by rw [← hc1]; exact hp)) with h1 | h1
          · exact Or.inl h1
          · exact Or.inr (Or.inl h1)
        · exact Or.inr (Or.inr he)
      · have : i = c.boss.nextTx := by omega
        subst this
        rcases f4 (fun hx => (k1.sk hx).1) ho1 with h1 | h1
        · exact Or.inl h1
        · exact Or.inr (Or.inl h1)
    · unfold MboxKnown; rw [hs.mst, hs.mbk, c1mbox]; exact h.known
  · simp only [hl]
    exact h

/-! ### `Receive.got_key` -/

def recvKey (r : RecvD) : RecvD :=
  match r.st with
  | .S0_unknown_key => { st := .S1_unverified_key, key := true }
  | _ => r

theorem key_closed (C : Crypto) (c : Client) :
    (cRecvRes C c (recvStep c.recv .got_key .key)).1 = { c with recv := recvKey c.recv } := by
  rcases c with ⟨sd, boss, send, mbox, order, ⟨rst, rkey⟩, obs, log⟩
  cases rst <;> rfl

theorem acc_key (C : Crypto) (c : Client) (E : String → Prop) (hb : c.boss.st ≠ .S0_empty) (h : CAcc c E) :
    CAcc (cRecvRes C c (recvStep c.recv .got_key .key)).1 E := by
  rw [key_closed]
  have hr : RSub c { c with recv := recvKey c.recv } := by
    apply rsub_setRecv
    intro hs; unfold recvKey; rw [hs]; exact hs
  apply h.of_dsub hr.toD _ (lossless_of_rsub hr h.ll)
  cases hst : c.recv.st with
  | S0_unknown_key =>
    obtain ⟨x1, x2, x3⟩ := h.k.r0 hst
    have e : recvKey c.recv = { st := .S1_unverified_key, key := true } := by unfold recvKey; rw [hst]
    rw [e]
    refine ⟨?_, fun _ => ⟨rfl, x2, hb, x3⟩, ?_, h.k.sk, fun _ => Or.inr rfl, h.k.o1, h.k.m0⟩
    · intro hx; cases hx
    · intro hx; cases hx
  | S1_unverified_key =>
    have e : recvKey c.recv = c.recv := by unfold recvKey; rw [hst]
    rw [e]; exact h.k
  | S2_verified_key =>
    have e : recvKey c.recv = c.recv := by unfold recvKey; rw [hst]
    rw [e]; exact h.k
  | S3_scared =>
    have e : recvKey c.recv = c.recv := by unfold recvKey; rw [hst]
    rw [e]; exact h.k


/-! ### Mailbox inputs without a message -/

theorem cMbox_ctl_closed (c : Client) (i : Mailbox.Input) (a : MCtl) (h : mboxArgOK i a = true) :
    (cMbox c i a.toM).1 =
      { c with mbox := (mboxStep c.mbox i a.toM).1, log := c.log ++ (mboxStep c.mbox i a.toM).2.1.map mEv } := by
  have hno := (mboxStep_ctl c.mbox i a h []).1
  unfold cMbox
  rcases hres : mboxStep c.mbox i a.toM with ⟨m', effs, err⟩
  rw [hres] at hno
  simp only [thenErr_fst]
  rw [runEffs_simple effs _ hno]

theorem acc_mbox (c : Client) (E : String → Prop) (i : Mailbox.Input) (a : MCtl) (hl : mboxArgOK i a = true)
    (h : CAcc c E) : CAcc (cMbox c i a.toM).1 E := by
  rw [cMbox_ctl_closed c i a hl]
  obtain ⟨_, f2, f3, f4, f5, f6, f7⟩ := mboxStep_ctl c.mbox i a hl c.log
  generalize (mboxStep c.mbox i a.toM).1 = m' at *
  generalize (mboxStep c.mbox i a.toM).2.1 = effs at *
  refine ⟨⟨h.k.r0, h.k.r1, h.k.r2, h.k.sk, h.k.o0, h.k.o1, fun he => h.k.m0 (f5 he)⟩, ?_, h.clean, ?_, ?_, f6 h.known⟩
  · rcases h.ll with hd | hg
    · exact Or.inl hd
    · right
      intro i hi
      have hi' : showPhase i ∈ c.mbox.processed := by rw [← f3]; exact hi
      exact hg i hi'
  · intro ho i hi
    rcases h.sacc (f4 ho) i hi with hq | hp | he
    · exact Or.inl hq
    · right; left; show dget m'.pending _ ≠ none; rw [f2]; exact hp
    · exact Or.inr (Or.inr he)
  · intro hst e he
    have he' : e ∈ c.mbox.pending := by rw [← f2]; exact he
    exact f7 h.known h.plog hst e he'

/-! ### `Key`'s own messages, `get_message()`, eventual turns -/

theorem acc_addMsg (c : Client) (E : String → Prop) (p : String) (b : Bytes) (h : CAcc c E) : CAcc (addMsg c p b) E := by
  have hs := sub_addMsg c p b
  exact h.of_sub hs (h.k.transfer hs.recv (addMsg_send c p b) (by rw [addMsg_boss]) hs.order hs.mst)

theorem sub_turn (c : Client) (o : Obs) (l : List Ev) (hl : ∀ x ∈ l, x ≠ .txOpen) :
    Sub c { c with obs := o, log := c.log ++ l } :=
  ⟨rfl, rfl, rfl, rfl, rfl, rfl, rfl, fun _ _ h => h, fun _ h => h, fun h => h, fun h => h,
   fun x h => List.mem_append_left _ h,
   fun h hst e he => by
     show Ev.txAdd e.1 e.2 ∈ afterOpen (c.log ++ l)
     rw [afterOpen_append _ _ hl]
     exact List.mem_append_left _ (h hst e he)⟩

theorem clientOp_acc (C : Crypto) (c : Client) (E : String → Prop) (o : COp) (hl : legalOp c o = true)
    (h : CAcc c E) : CAcc (clientOp C c o) E := by
  cases o with
  | send pt => exact acc_send C c E pt h
  | boss i a => exact acc_boss C c E i a (by simpa [legalOp] using hl) h
  | key => exact acc_key C c E (by simpa [legalOp] using hl) h
  | verified => simp [legalOp] at hl
  | mbox i a => exact acc_mbox c E i a (by simpa [legalOp] using hl) h
  | addRaw p b =>
    simp only [clientOp]
    split
    · exact h
    · rw [cMbox_add]; exact acc_addMsg c E p b h
  | getMessage => exact h.of_sub (sub_obs c _) (h.k.transfer rfl rfl rfl rfl rfl)
  | turn =>
    refine h.of_sub (sub_turn c _ _ ?_) (h.k.transfer rfl rfl rfl rfl rfl)
    intro x hx
    obtain ⟨e, _, rfl⟩ := List.mem_map.mp hx
    intro h; cases h


/-! ## the two-client system in a legal environment -/

/-- the server has stored a message of `side` under phase `p` -/
def stored (side : String) (bag : List (String × String × Bytes)) (p : String) : Prop := ∃ b, (side, p, b) ∈ bag

structure SysAcc (sa sb : String) (s : Sys) : Prop where
  a : CAcc s.a (stored sa s.bag)
  b : CAcc s.b (stored sb s.bag)

def sysLegal (s : Sys) : SAct → Bool
  | .op false o => legalOp s.a o
  | .op true o => legalOp s.b o
  | _ => true

/-- every operation of the run is one a legal environment can perform in the state where it happens -/
def legalRun (C : Crypto) (s : Sys) : List SAct → Bool
  | [] => true
  | a :: r => sysLegal s a && legalRun C (Sys.step C s a) r

theorem clientInit_acc (side : String) (E : String → Prop) : CAcc (clientInit side) E := by
  refine ⟨⟨?_, ?_, ?_, ?_, ?_, ?_, ?_⟩, ?_, ?_, ?_, ?_, ?_⟩
  · intro _; exact ⟨rfl, rfl, by simp [clientInit, bossInit, Boss.init]⟩
  · intro h; cases h
  · intro h; cases h
  · intro h; cases h
  · intro _; exact Or.inl rfl
  · intro h; cases h
  · intro _; exact ⟨rfl, rfl⟩
  · right; intro i hi; simp [clientInit, mboxInit] at hi
  · rfl
  · intro _ i hi; simp [clientInit, bossInit] at hi
  · intro h; cases h
  · intro h; rcases h with h | h | h <;> cases h

theorem sysInit_acc (sa sb : String) : SysAcc sa sb (sysInit sa sb) := ⟨clientInit_acc sa _, clientInit_acc sb _⟩

theorem deliverTo_acc (C : Crypto) (hC : C.Ideal) (me ps : String) (peer mine : List Bytes) (c : Client) (k : Nat)
    (bag : List (String × String × Bytes)) (hinv : Inv C me ps peer mine c) (h : CAcc c (stored me bag))
    (hb : ∀ e ∈ bag, MsgOK C me mine e ∨ MsgOK C ps peer e) :
    CAcc (deliverTo C c k bag) (stored me bag) := by
  unfold deliverTo
  cases hk : bag[k]? with
  | none => exact h
  | some e =>
    obtain ⟨sd, p, b⟩ := e
    simp only []
    have hmem : (sd, p, b) ∈ bag := List.mem_of_getElem? hk
    by_cases hs : sd = c.side
    · -- an echo of our own message
      subst hs
      obtain ⟨e1, e2, e3, e4, e5, e6, e7, e8, e9, e10, e11⟩ := cMboxRx_ours_spec C c p b
      refine ⟨h.k.transfer e5 e3 (by rw [e2]) e4 e7, ?_, ?_, ?_, ?_, ?_⟩
      · rcases h.ll with hd | hg
        · left; unfold Dead; rw [e5, e2]; exact hd
        · right
          intro i hi
          rw [e9] at hi
          rcases hg i hi with hx | hx | hx
          · cases hx
          · right; left; unfold InQ; rw [e4]; exact hx
          · right; right; unfold Arrived; rw [e2]; exact hx
      · unfold Clean; rw [e2]; exact h.clean
      · intro ho i hi
        rw [e7] at ho
        rw [e2] at hi
        rcases h.sacc ho i hi with hq | hp | he
        · left; unfold Qk; rw [e3]; exact hq
        · rcases e11 _ hp with hx | hx
          · right; right; rw [hx]; exact ⟨b, by rw [← hinv.rest.side_eq]; exact hmem⟩
          · exact Or.inr (Or.inl hx)
        · exact Or.inr (Or.inr he)
      · intro hst x hx
        rw [e7] at hst
        rw [e6]
        exact h.plog hst x (e10 x hx)
      · unfold MboxKnown; rw [e7, e8]; exact h.known
    · have hmsg : MsgOK C ps peer (sd, p, b) := by
        rcases hb _ hmem with hx | hx
        · exact absurd (hx.1.trans hinv.rest.side_eq.symm) hs
        · exact hx
      obtain ⟨f1, f2, f3, _⟩ := cMboxRx_theirs_spec C hC ps peer c sd p b hs hinv.rest.oq hmsg h.k h.ll
      exact h.of_dsub f2 f1 f3

theorem storeFrom_sub (c : Client) (j : Nat) (bag : List (String × String × Bytes)) :
    ∀ e ∈ bag, e ∈ storeFrom c j bag := by
  intro e he
  unfold storeFrom
  split
  · exact List.mem_append_left _ he
  · exact he

theorem sysStep_acc (C : Crypto) (hC : C.Ideal) (sa sb : String) (s : Sys) (act : SAct)
    (hinv : SysInv C sa sb s) (h : SysAcc sa sb s) (hl : sysLegal s act = true) : SysAcc sa sb (Sys.step C s act) := by
  obtain ⟨ha, hb⟩ := h
  cases act with
  | op who o =>
    cases who with
    | false => exact ⟨clientOp_acc C s.a _ o hl ha, hb⟩
    | true => exact ⟨ha, clientOp_acc C s.b _ o hl hb⟩
  | store who j =>
    cases who with
    | false =>
      exact ⟨ha.mono (fun p ⟨b, hb⟩ => ⟨b, storeFrom_sub _ _ _ _ hb⟩), hb.mono (fun p ⟨b, hb⟩ => ⟨b, storeFrom_sub _ _ _ _ hb⟩)⟩
    | true =>
      exact ⟨ha.mono (fun p ⟨b, hb⟩ => ⟨b, storeFrom_sub _ _ _ _ hb⟩), hb.mono (fun p ⟨b, hb⟩ => ⟨b, storeFrom_sub _ _ _ _ hb⟩)⟩
  | deliver who k =>
    cases who with
    | false => exact ⟨deliverTo_acc C hC sa sb s.sentB s.sentA s.a k s.bag hinv.a ha hinv.bag, hb⟩
    | true =>
      exact ⟨ha, deliverTo_acc C hC sb sa s.sentA s.sentB s.b k s.bag hinv.b hb (fun e he => (hinv.bag e he).symm)⟩

theorem sysRun_acc (C : Crypto) (hC : C.Ideal) (sa sb : String) (acts : List SAct) (s : Sys)
    (hinv : SysInv C sa sb s) (h : SysAcc sa sb s) (hl : legalRun C s acts = true) :
    SysAcc sa sb (Sys.run C s acts) := by
  induction acts generalizing s with
  | nil => exact h
  | cons x xs ih =>
    simp only [legalRun, Bool.and_eq_true] at hl
    exact ih _ (sysStep_inv C hC sa sb s x hinv) (sysStep_acc C hC sa sb s x hinv h hl.1) hl.2

/-! ## quiescence: nothing unsent, nothing undelivered -/

def isNumeric (p : String) : Bool :=
  match classifyPhase p with
  | .numeric _ => true
  | _ => false

/-- direction `x → y`: `x` has not closed and holds nothing the server has not stored; `y` can still deliver and has
    been handed every numbered message of `x` that the server stores -/
def DrainedDir (x y : Client) (bag : List (String × String × Bytes)) : Prop :=
  bossLive x.boss.st = true ∧ isOpen x.mbox.st = true ∧ x.send.queue = [] ∧
  (∀ e ∈ x.mbox.pending, (x.side, e.1, e.2) ∈ bag) ∧
  bossLive y.boss.st = true ∧ y.recv.st ≠ .S3_scared ∧ y.order.queue = [] ∧
  (∀ e ∈ bag, e.1 = x.side → isNumeric e.2.1 = true → e.2.1 ∈ y.mbox.processed)

instance (x y : Client) (bag : List (String × String × Bytes)) : Decidable (DrainedDir x y bag) := by
  unfold DrainedDir; infer_instance

/-- **Drained**: both Mailbox machines are connected with their mailbox open, and in both directions nothing is
    unsent and nothing stored is undelivered -/
def Drained (s : Sys) : Prop :=
  DrainedDir s.a s.b s.bag ∧ DrainedDir s.b s.a s.bag ∧ s.a.mbox.st = .S2B ∧ s.b.mbox.st = .S2B

instance (s : Sys) : Decidable (Drained s) := by unfold Drained; infer_instance

theorem drained_complete (C : Crypto) (me ps : String) (peer mine : List Bytes) (x y : Client)
    (bag : List (String × String × Bytes))
    (hx : Inv C me ps peer mine x) (hy : Inv C ps me mine peer y)
    (ax : CAcc x (stored me bag)) (ay : CAcc y (stored ps bag)) (hd : DrainedDir x y bag) :
    receivedOf y.log = mine := by
  obtain ⟨d1, d2, d3, d4, d5, d6, d7, d8⟩ := hd
  have hntx : x.boss.nextTx = mine.length := by
    rcases hx.boss.tx with ⟨_, h⟩ | ⟨h, _⟩
    · exact h
    · rw [d1] at h; cases h
  have hloop := hy.loop
  have hnd : ¬ Dead y := by
    intro h; rcases h with h | h
    · exact d6 h
    · rw [d5] at h; cases h
  have harr : ∀ i, i < mine.length → Arrived y i := by
    intro i hi
    have hst : ∃ b, (x.side, showPhase i, b) ∈ bag := by
      rcases ax.sacc d2 i (by rw [hntx]; exact hi) with ⟨pt, hq⟩ | hp | ⟨b, hb⟩
      · rw [d3] at hq; cases hq
      · cases hg : dget x.mbox.pending (showPhase i) with
        | none => exact absurd hg hp
        | some b => exact ⟨b, d4 _ (mem_of_dget _ _ _ hg)⟩
      · exact ⟨b, by rw [hx.rest.side_eq]; exact hb⟩
    obtain ⟨b, hb⟩ := hst
    have hproc := d8 _ hb rfl (by simp [isNumeric, classify_showPhase])
    rcases ay.ll with h | h
    · exact absurd h hnd
    · rcases h i hproc with h1 | h1 | h1
      · cases h1
      · obtain ⟨e, he, _⟩ := h1; rw [d7] at he; cases he
      · exact h1
  have hnext : y.boss.rx.next = mine.length := by
    by_cases hlt : y.boss.rx.next < mine.length
    · rcases harr _ hlt with h | h
      · omega
      · exact absurd ay.clean h
    · have := hloop.le; omega
  rw [hloop.recv, hnext, List.take_length]


theorem legalRun_append (C : Crypto) (s : Sys) (a b : List SAct) :
    legalRun C s (a ++ b) = (legalRun C s a && legalRun C (Sys.run C s a) b) := by
  induction a generalizing s with
  | nil => simp [legalRun, Sys.run]
  | cons x r ih =>
    simp only [List.cons_append, legalRun, ih, Bool.and_assoc]
    rfl

end WV.Proofs.C09
