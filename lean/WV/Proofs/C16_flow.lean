import WV.Proofs.C16_time

/-! C16: inbound flow control — the connection in use is read-paused exactly while a consumer is paused. -/
namespace WV.Proofs.C16
open WV WV.Gen WV.C16

def FlowInv (s : St) : Prop :=
  (s.conn ≠ none → s.readPaused = !s.inPaused.isEmpty) ∧ (s.conn = none → s.readPaused = false)

@[simp] theorem mgrOutputs_flow (b : Bool) (outs : List Manager.Output) (s : St) :
    (mgrOutputs b outs s).1.conn = s.conn ∧ (mgrOutputs b outs s).1.readPaused = s.readPaused ∧
      (mgrOutputs b outs s).1.inPaused = s.inPaused := by
  induction outs generalizing s with
  | nil => exact ⟨rfl, rfl, rfl⟩
  | cons o r ih =>
    simp only [mgrOutputs]
    cases o <;> simp [mgrOutput, ih]
    case abandon_connection =>
      cases hc : s.conn <;> simp [ih, hc]

theorem mgrInput_flow (b : Bool) (i : Manager.Input) (s : St) :
    (mgrInput b i s).1.conn = s.conn ∧ (mgrInput b i s).1.readPaused = s.readPaused ∧
      (mgrInput b i s).1.inPaused = s.inPaused := by
  simp only [mgrInput]
  split
  · exact ⟨rfl, rfl, rfl⟩
  · simpa using mgrOutputs_flow _ _ _

theorem flow_of_eq {s s' : St} (hf : FlowInv s) (hc : s'.conn = s.conn) (hr : s'.readPaused = s.readPaused)
    (hp : s'.inPaused = s.inPaused) : FlowInv s' := by
  unfold FlowInv at *
  rw [hc, hr, hp]; exact hf

theorem insertNat_isEmpty (k : Nat) (l : List Nat) : (insertNat k l).isEmpty = false := by
  cases l with
  | nil => rfl
  | cons x xs =>
    simp only [insertNat]
    split
    · rfl
    · split <;> rfl

theorem sendPingResetTimer_flow (cfg : Cfg) (s : St) :
    (sendPingResetTimer cfg s).1.conn = s.conn ∧ (sendPingResetTimer cfg s).1.readPaused = s.readPaused ∧
      (sendPingResetTimer cfg s).1.inPaused = s.inPaused := by
  simp only [sendPingResetTimer, sendPing_eq]
  split
  · simp only [andThen_ok]
    split
    · exact ⟨rfl, rfl, rfl⟩
    · split
      · exact ⟨rfl, rfl, rfl⟩
      · split <;> exact ⟨rfl, rfl, rfl⟩
  · exact ⟨rfl, rfl, rfl⟩

theorem signalReconnect_flow (s : St) :
    (signalReconnect s).conn = s.conn ∧ (signalReconnect s).readPaused = s.readPaused ∧
      (signalReconnect s).inPaused = s.inPaused := by
  simp only [signalReconnect]; split <;> exact ⟨rfl, rfl, rfl⟩

theorem ttOutputs_flow (cfg : Cfg) (outs : List TrafficTimer.Output) (s : St) :
    (ttOutputs cfg outs s).1.conn = s.conn ∧ (ttOutputs cfg outs s).1.readPaused = s.readPaused ∧
      (ttOutputs cfg outs s).1.inPaused = s.inPaused := by
  induction outs generalizing s with
  | nil => exact ⟨rfl, rfl, rfl⟩
  | cons o r ih =>
    cases o
    · simp only [ttOutputs]
      have b := sendPingResetTimer_flow cfg s
      generalize sendPingResetTimer cfg s = r1 at b
      obtain ⟨s1, e⟩ := r1
      cases e with
      | none =>
        simp only [andThen_ok]
        have a := ih s1
        exact ⟨a.1.trans b.1, a.2.1.trans b.2.1, a.2.2.trans b.2.2⟩
      | some e => exact b
    · have a := ih (signalReconnect s); have b := signalReconnect_flow s
      exact ⟨a.1.trans b.1, a.2.1.trans b.2.1, a.2.2.trans b.2.2⟩

theorem ttInput_flow (cfg : Cfg) (i : TrafficTimer.Input) (s : St) :
    (ttInput cfg i s).1.conn = s.conn ∧ (ttInput cfg i s).1.readPaused = s.readPaused ∧
      (ttInput cfg i s).1.inPaused = s.inPaused := by
  simp only [ttInput]
  split
  · exact ⟨rfl, rfl, rfl⟩
  · split
    · exact ⟨rfl, rfl, rfl⟩
    · exact ttOutputs_flow _ _ _

theorem flow_stall {T n : Nat} {s s' : St} (hf : FlowInv s)
    (h : step (Cfg.real T) s (.stall n) = (s', none)) : FlowInv s' := by
  simp only [step, stall] at h
  split at h
  · split at h
    · have := ttInput_flow (Cfg.real T) .interval_elapsed { s with now := s.now + n, timer := none }
      simp only [timerExpired] at h
      rw [h] at this
      exact flow_of_eq hf this.1 this.2.1 this.2.2
    · simp at h; subst h; exact hf
  · simp at h; subst h; exact hf

theorem flow_pong {T id : Nat} {s s' : St} (hf : FlowInv s)
    (h : step (Cfg.real T) s (.pong id) = (s', none)) : FlowInv s' := by
  simp only [step, gotPong] at h
  split at h
  · have := ttInput_flow (Cfg.real T) .traffic_seen { s with pings := s.pings.filter (fun p => p.id != id) }
    rw [h] at this
    exact flow_of_eq hf this.1 this.2.1 this.2.2
  · simp at h; subst h; exact hf

theorem flow_made {T : Nat} {s s' : St} (hi : Inv T s)
    (h : step (Cfg.real T) s .made = (s', none)) : FlowInv s' := by
  by_cases hl : s.role = some true
  · obtain ⟨_, _, _, he, _⟩ := made_leader hi hl h
    subst he
    exact ⟨fun _ => rfl, fun hc => by simp at hc⟩
  · simp only [step, connMade, hl, if_false, andThen_ok] at h
    have := mgrInput_flow false .connection_made { s with nextConn := s.nextConn + 1 }
    generalize mgrInput false .connection_made { s with nextConn := s.nextConn + 1 } = r at h this
    obtain ⟨s3, e3⟩ := r
    cases e3 with
    | some e => simp at h
    | none =>
      simp at h this
      subst h
      exact ⟨fun _ => rfl, fun hc => by simp at hc⟩

theorem flow_lost {T : Nat} {s s' : St} (h : step (Cfg.real T) s .lost = (s', none)) : FlowInv s' := by
  simp only [step, connLost] at h
  generalize (if s.traffic.isSome = true then ttInput (Cfg.real T) .lost_connection s else (s, none) : Res) = r at h
  obtain ⟨s1, e⟩ := r
  cases e with
  | some e => simp at h
  | none =>
    simp only [andThen_ok] at h
    cases ho : s1.outConn with
    | none => simp [ho] at h
    | some c =>
      simp only [ho] at h
      have key : ∀ i (s0 : St), s0.conn = none → s0.readPaused = false → mgrInput false i s0 = (s', none) →
          FlowInv s' := by
        intro i s0 h1 h2 he
        have := mgrInput_flow false i s0
        rw [he] at this
        exact ⟨fun hc => absurd (this.1.trans h1) hc, fun _ => this.2.1.trans h2⟩
      split at h
      · exact key _ _ rfl rfl h
      · exact key _ _ rfl rfl h

theorem flow_step {T : Nat} {s s' : St} {o : Op} (hi : Inv T s) (hf : FlowInv s)
    (h : step (Cfg.real T) s o = (s', none)) : FlowInv s' := by
  have viaMgr : ∀ b i (s0 : St), s0.conn = s.conn → s0.readPaused = s.readPaused → s0.inPaused = s.inPaused →
      mgrInput b i s0 = (s', none) → FlowInv s' := by
    intro b i s0 h1 h2 h3 he
    have := mgrInput_flow b i s0
    rw [he] at this
    exact flow_of_eq hf (this.1.trans h1) (this.2.1.trans h2) (this.2.2.trans h3)
  cases o with
  | start => exact viaMgr _ _ s rfl rfl rfl h
  | please b => exact viaMgr _ _ s rfl rfl rfl h
  | reconnecting => exact viaMgr _ _ s rfl rfl rfl h
  | reconnect => exact viaMgr _ _ s rfl rfl rfl h
  | stop => exact viaMgr _ _ { s with stopCalled := true } rfl rfl rfl h
  | pause => simp only [step, Prod.mk.injEq, and_true] at h; subst h; exact hf
  | resume => simp only [step, Prod.mk.injEq, and_true] at h; subst h; exact hf
  | rnd ids => simp only [step, Prod.mk.injEq, and_true] at h; subst h; exact hf
  | cpause k =>
    simp only [step, Prod.mk.injEq, and_true] at h; subst h
    obtain ⟨h1, h2⟩ := hf
    unfold FlowInv subPause
    cases hc : s.conn with
    | none => simp [hc, h2 hc]
    | some c =>
      have := h1 (by simp [hc])
      cases he : s.inPaused.isEmpty <;> simp_all [insertNat_isEmpty]
  | cresume k =>
    simp only [step, Prod.mk.injEq, and_true] at h; subst h
    obtain ⟨h1, h2⟩ := hf
    cases hc : s.conn with
    | none =>
      have := h2 hc
      unfold FlowInv subResume
      simp [hc, this]
    | some c =>
      have hrp := h1 (by simp [hc])
      unfold FlowInv subResume
      simp only [hc, Option.isSome_some, Bool.true_and]
      split
      · rename_i hcond
        simp only [Bool.and_eq_true] at hcond
        refine ⟨fun _ => ?_, fun h0 => by simp at h0⟩
        simp [hcond.2]
      · rename_i hcond
        refine ⟨fun _ => ?_, fun h0 => by simp at h0⟩
        show s.readPaused = !(s.inPaused.filter (fun x => x != k)).isEmpty
        rw [hrp]
        cases hw : s.inPaused.isEmpty
        · cases h2' : (s.inPaused.filter (fun x => x != k)).isEmpty
          · rfl
          · simp [hw, h2'] at hcond
        · have : s.inPaused = [] := List.isEmpty_iff.mp hw
          simp [this]
  | tick =>
    have h' : step (Cfg.real T) s (.stall 1) = (s', none) := by rw [← tick_eq_stall]; exact h
    exact flow_stall hf h'
  | stall n => exact flow_stall hf h
  | pong id => exact flow_pong hf h
  | made => exact flow_made hi h
  | lost => exact flow_lost h

theorem reach_flow {T : Nat} {s : St} (hT : 1 ≤ T) (hr : Reach (Cfg.real T) s) : FlowInv s := by
  induction hr with
  | init => exact ⟨fun h => absurd rfl h, fun _ => rfl⟩
  | step hr' h ih => exact flow_step (reach_inv hT hr') ih h

end WV.Proofs.C16
