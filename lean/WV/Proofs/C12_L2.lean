import WV.Proofs.C12_Pump
import WV.Proofs.C12_Noise

/-! C12 helper lemmas: `_Record` + `DilatedConnectionProtocol.dataReceived` on top of the framer. -/
namespace WV.Proofs.C12
open WV WV.C12 WV.Gen

/-! ### single tokens -/

theorem l2Token_prologue_init (cfg : L2Cfg) (ld : Bool) :
    l2Token cfg (upInit ld) .prologue =
      .ok { upInit ld with rcd := if ld then .want_handshake_leader else .want_handshake_follower,
                           handshakeSent := ld } := by
  cases ld <;> simp [l2Token, upInit, Record.table]

theorem l2Token_handshake (cfg : L2Cfg) (ld : Bool) (u : UpSt) (hs : Bytes)
    (hr : u.rcd = if ld then .want_handshake_leader else .want_handshake_follower)
    (hok : cfg.handshakeOK hs = true) :
    ∃ u', l2Token cfg u (.frame hs) = .ok u' ∧ u'.rcd = .want_message ∧ u'.dcp = u.dcp ∧
      u'.rxNonce = u.rxNonce ∧ u'.queued = u.queued ∧ u'.toManager = u.toManager ∧ u'.candidate = u.candidate := by
  cases ld <;> cases hl : cfg.leader <;>
    simp [l2Token, recordGotFrame, hr, Record.table, hok, hl]

theorem recordGotFrame_message (cfg : L2Cfg) (u : UpSt) (f : Bytes) (hr : u.rcd = .want_message) :
    recordGotFrame cfg u f =
      match openMessage cfg.noise u.rxNonce f with
      | none => .error (.disconnect, { u with rcd := .want_message })
      | some (pt, n') =>
        match parseRecord cfg.validUtf8 pt with
        | .error e => .error (e, { u with rcd := .want_message, rxNonce := n' })
        | .ok r => .ok ({ u with rcd := .want_message, rxNonce := n' }, .record r) := by
  simp [recordGotFrame, hr, Record.table]
  cases openMessage cfg.noise u.rxNonce f with
  | none => rfl
  | some p =>
    obtain ⟨pt, n'⟩ := p
    simp only
    cases parseRecord cfg.validUtf8 pt <;> rfl

/-- a frame that opens to record `r`, by DCP state -/
theorem l2Token_record (cfg : L2Cfg) (u : UpSt) (f pt : Bytes) (n' : Nat) (r : Rec)
    (hr : u.rcd = .want_message) (ho : openMessage cfg.noise u.rxNonce f = some (pt, n'))
    (hp : parseRecord cfg.validUtf8 pt = .ok r) :
    l2Token cfg u (.frame f) =
      match r with
      | .kcm =>
        match DCP.table u.dcp .got_kcm with
        | some (d', outs) => .ok { u with rcd := .want_message, rxNonce := n', dcp := d',
                                          candidate := u.candidate || outs.contains .add_candidate }
        | none => .error (.noTransition, { u with rcd := .want_message, rxNonce := n' })
      | r =>
        match DCP.table u.dcp .got_record with
        | some (d', [.queue_inbound_record]) =>
          .ok { u with rcd := .want_message, rxNonce := n', dcp := d', queued := u.queued ++ [r] }
        | some (d', [.deliver_record]) =>
          .ok { u with rcd := .want_message, rxNonce := n', dcp := d', toManager := u.toManager ++ [r] }
        | _ => .error (.noTransition, { u with rcd := .want_message, rxNonce := n' }) := by
  simp only [l2Token, recordGotFrame_message cfg u f hr, ho, hp]
  cases r <;> rfl

theorem l2Token_record_selecting (cfg : L2Cfg) (u : UpSt) (f pt : Bytes) (n' : Nat) (r : Rec)
    (hr : u.rcd = .want_message) (hd : u.dcp = .selecting) (hk : r ≠ .kcm)
    (ho : openMessage cfg.noise u.rxNonce f = some (pt, n'))
    (hp : parseRecord cfg.validUtf8 pt = .ok r) :
    l2Token cfg u (.frame f) = .ok { u with rxNonce := n', queued := u.queued ++ [r] } := by
  rw [l2Token_record cfg u f pt n' r hr ho hp]
  obtain ⟨rcd, dcp, rx, hsS, kS, q, tm, cand⟩ := u
  simp only at hr hd; subst hr hd
  cases r <;> first | exact absurd rfl hk | simp [DCP.table]

theorem l2Token_kcm_unselected (cfg : L2Cfg) (u : UpSt) (f pt : Bytes) (n' : Nat)
    (hr : u.rcd = .want_message) (hd : u.dcp = .unselected)
    (ho : openMessage cfg.noise u.rxNonce f = some (pt, n'))
    (hp : parseRecord cfg.validUtf8 pt = .ok .kcm) :
    l2Token cfg u (.frame f) = .ok { u with rxNonce := n', dcp := .selecting, candidate := true } := by
  rw [l2Token_record cfg u f pt n' .kcm hr ho hp]
  obtain ⟨rcd, dcp, rx, hsS, kS, q, tm, cand⟩ := u
  simp only at hr hd; subst hr hd
  simp [DCP.table]

/-! ### the honest sender's bytes, one record at a time -/

theorem sendRecord_some {N : Noise} {n n1 : Nat} {r : Rec} {b : Bytes} (h : sendRecord N n r = some (b, n1)) :
    ∃ msg, encodeRecord r = some msg ∧ frameBytes (sealMessage N n msg).1 = some b ∧
      (sealMessage N n msg).2 = n1 := by
  unfold sendRecord at h
  cases he : encodeRecord r with
  | none => simp [he] at h
  | some msg =>
    simp only [he, Option.bind_eq_bind, Option.bind_some] at h
    cases hf : frameBytes (sealMessage N n msg).1 with
    | none => simp [hf] at h
    | some fr =>
      simp [hf] at h
      exact ⟨msg, rfl, by rw [hf, h.1], h.2⟩

/-- one honest record frame at the head of the buffer: the framer cuts out exactly its body,
    the body opens under the receiver's nonce to the encoded record, which parses back to `r` -/
theorem honest_frame (cfg : L2Cfg) (hN : cfg.noise.Ideal) {n n1 : Nat} {r : Rec} {b : Bytes} (rest : Bytes)
    (hwf : r.wf cfg.validUtf8) (h : sendRecord cfg.noise n r = some (b, n1)) :
    ∃ body pt, parseTurn cfg.framer ⟨.want_frame, b ++ rest⟩ = .ok (some (⟨.want_frame, rest⟩, some (.frame body))) ∧
      openMessage cfg.noise n body = some (pt, n1) ∧ parseRecord cfg.validUtf8 pt = .ok r := by
  obtain ⟨msg, he, hf, hn⟩ := sendRecord_some h
  obtain ⟨msg', he', hp⟩ := parse_encode cfg.validUtf8 r hwf
  rw [he] at he'; cases he'
  refine ⟨(sealMessage cfg.noise n msg).1, msg, ?_, ?_, hp⟩
  · rw [parseTurn_frame, parseFrame_frame hf]
  · rw [open_seal cfg.noise hN, hn]

theorem sendRecords_cons {N : Noise} {n n2 : Nat} {r : Rec} {rs : List Rec} {bytes : Bytes}
    (h : sendRecords N n (r :: rs) = some (bytes, n2)) :
    ∃ b n1 bs, sendRecord N n r = some (b, n1) ∧ sendRecords N n1 rs = some (bs, n2) ∧ bytes = b ++ bs := by
  simp only [sendRecords] at h
  cases h1 : sendRecord N n r with
  | none => simp [h1] at h
  | some p =>
    obtain ⟨b, n1⟩ := p
    simp only [h1, Option.bind_eq_bind, Option.bind_some] at h
    cases h2 : sendRecords N n1 rs with
    | none => simp [h2] at h
    | some q =>
      obtain ⟨bs, n2'⟩ := q
      simp [h2] at h
      exact ⟨b, n1, bs, rfl, by rw [← h.2]; exact h2, h.1.symm⟩

/-- the receiver in `selecting` consumes a run of honest record frames and queues exactly the
    records, in order -/
theorem run_records (cfg : L2Cfg) (hN : cfg.noise.Ideal) :
    ∀ (recs : List Rec) (u : UpSt) (body : Bytes) (n' : Nat),
      u.rcd = .want_message → u.dcp = .selecting →
      (∀ r ∈ recs, r.wf cfg.validUtf8 ∧ r ≠ .kcm) →
      sendRecords cfg.noise u.rxNonce recs = some (body, n') →
      run cfg.framer (l2Token cfg) ⟨.want_frame, body⟩ u =
        (⟨.want_frame, []⟩, { u with rxNonce := n', queued := u.queued ++ recs }, none) := by
  intro recs
  induction recs with
  | nil =>
    intro u body n' _ _ _ hs
    simp [sendRecords] at hs
    obtain ⟨rfl, rfl⟩ := hs
    rw [run_unfold, parseTurn_frame]
    simp [parseFrame]
  | cons r rs ih =>
    intro u body n' hr hd hwf hs
    obtain ⟨b, n1, bs, h1, h2, rfl⟩ := sendRecords_cons hs
    have hwr := hwf r (by simp)
    obtain ⟨fb, pt, ht, ho, hp⟩ := honest_frame cfg hN bs hwr.1 h1
    rw [run_unfold, ht]
    simp only
    rw [l2Token_record_selecting cfg u fb pt n1 r hr hd hwr.2 ho hp]
    simp only
    rw [ih { u with rxNonce := n1, queued := u.queued ++ [r] } bs n' hr hd
      (fun r' hr' => hwf r' (by simp [hr'])) h2]
    simp

/-! ### invariants of the receive side -/

theorem openMessage_none_of_dec0 (N : Noise) (n : Nat) (h : ∀ c, N.dec n c = none) (f : Bytes) :
    openMessage N n f = none := by
  unfold openMessage
  by_cases hle : f.length ≤ Consts.NOISE_MAX_CIPHERTEXT
  · simp [hle, h]
  · simp only [hle, if_false]
    have hfne : f ≠ [] := by intro h0; subst h0; simp at hle
    have hpos : 0 < f.length := List.length_pos_iff.mpr hfne
    obtain ⟨k, hk⟩ : ∃ k, f.length = k + 1 := ⟨f.length - 1, by omega⟩
    rw [hk, chunksOf_succ_ne _ _ _ hfne, decChunks_cons, h]

/-- generic: a predicate on the consumer state preserved by every handled token (also by the
    partial update a failing token leaves behind) is preserved by the loop and by feeding -/
theorem pump_inv {U : Type} (cfg : FramerCfg) (h : U → Token → Except (Err × U) U) (P : U → Prop)
    (hP : ∀ u t u', P u → h u t = .ok u' → P u')
    (hPe : ∀ u t e u', P u → h u t = .error (e, u') → P u') :
    ∀ f fr u, P u → P (pump cfg h f fr u).2.1 := by
  intro f
  induction f with
  | zero => intro fr u hu; exact hu
  | succ f ih =>
    intro fr u hu
    rw [pump_succ]
    cases parseTurn cfg fr with
    | error e => exact hu
    | ok o =>
      cases o with
      | none => exact hu
      | some p =>
        obtain ⟨fr', t⟩ := p
        cases t with
        | none => exact ih fr' u hu
        | some t =>
          simp only
          cases hh : h u t with
          | error e => obtain ⟨e, u1⟩ := e; exact hPe u t e u1 hu hh
          | ok u' => exact ih fr' u' (hP u t u' hu hh)

theorem feed_inv {U : Type} (cfg : FramerCfg) (h : U → Token → Except (Err × U) U) (P : U → Prop)
    (hP : ∀ u t u', P u → h u t = .ok u' → P u')
    (hPe : ∀ u t e u', P u → h u t = .error (e, u') → P u') :
    ∀ cs fr u, P u → P (feed cfg h fr u cs).2.1 := by
  intro cs
  induction cs with
  | nil => intro fr u hu; exact hu
  | cons c cs ih =>
    intro fr u hu
    simp only [feed]
    have hpi := pump_inv cfg h P hP hPe ((addBuf fr c).buf.length + 3) (addBuf fr c) u hu
    have hpd : pumpData cfg h fr u c = pump cfg h ((addBuf fr c).buf.length + 3) (addBuf fr c) u := rfl
    rw [← hpd] at hpi
    rcases hr : pumpData cfg h fr u c with ⟨fr1, u1, e⟩
    rw [hr] at hpi
    have h1 : P u1 := hpi
    cases e with
    | none => exact ih fr1 u1 h1
    | some e => exact h1

end WV.Proofs.C12
