import WV.Model.C19
namespace WV.Proofs.C19
open WV WV.C19 WV.Gen

theorem joinHy_cons_cons (w v : Str) (ws : List Str) : joinHy (w :: v :: ws) = w ++ 45 :: joinHy (v :: ws) := rfl

theorem joinHy_cons_of_ne_nil (w : Str) {ws : List Str} (h : ws ≠ []) : joinHy (w :: ws) = w ++ 45 :: joinHy ws := by
  cases ws with
  | nil => exact absurd rfl h
  | cons v vs => rfl

theorem joinHy_splitHy (s : Str) : joinHy (splitHy s) = s := by
  induction s with
  | nil => rfl
  | cons c cs ih =>
    unfold splitHy
    split
    · next h => rw [joinHy_cons_of_ne_nil _ (splitHy_ne_nil cs), ih]; simp [h]
    · split
      · next w ws hw =>
        rw [hw] at ih
        cases ws with
        | nil => simp [joinHy] at ih ⊢; exact ih
        | cons v vs => rw [joinHy_cons_cons] at ih ⊢; simp [ih]
      · next hw => exact absurd hw (splitHy_ne_nil cs)

theorem splitHy_noHy (s : Str) : ∀ w ∈ splitHy s, 45 ∉ w := by
  induction s with
  | nil => simp [splitHy]
  | cons c cs ih =>
    unfold splitHy
    split
    · intro w hw
      simp at hw
      rcases hw with rfl | hw
      · simp
      · exact ih w hw
    · next hc =>
      split
      · next w ws hw =>
        rw [hw] at ih
        intro x hx
        simp at hx
        rcases hx with rfl | hx
        · have := ih w (by simp)
          simp; exact ⟨fun h => hc h.symm, this⟩
        · exact ih x (by simp [hx])
      · next hw => exact absurd hw (splitHy_ne_nil cs)

theorem length_splitHy (s : Str) : (splitHy s).length = s.count 45 + 1 := by
  induction s with
  | nil => rfl
  | cons c cs ih =>
    unfold splitHy
    split
    · next h => subst h; simp [ih]
    · next hc =>
      split
      · next w ws hw =>
        rw [hw] at ih
        simp at ih ⊢
        rw [List.count_cons_of_ne (by intro h; exact hc h)]
        omega
      · next hw => exact absurd hw (splitHy_ne_nil cs)

theorem splitHy_of_noHy {w : Str} (h : 45 ∉ w) : splitHy w = [w] := by
  induction w with
  | nil => rfl
  | cons c cs ih =>
    simp at h
    unfold splitHy
    rw [if_neg (fun e => h.1 e.symm), ih h.2]

theorem splitHy_append_hy {w : Str} (h : 45 ∉ w) (r : Str) : splitHy (w ++ 45 :: r) = w :: splitHy r := by
  induction w with
  | nil => simp [splitHy]
  | cons c cs ih =>
    simp at h
    have := ih h.2
    simp only [List.cons_append]
    rw [splitHy, if_neg (fun e => h.1 e.symm), this]

theorem splitHy_joinHy : ∀ (ws : List Str), ws ≠ [] → (∀ w ∈ ws, 45 ∉ w) → splitHy (joinHy ws) = ws
  | [], h, _ => absurd rfl h
  | [w], _, hw => by simpa [joinHy] using splitHy_of_noHy (hw w (by simp))
  | w :: v :: vs, _, hw => by
    rw [joinHy_cons_cons, splitHy_append_hy (hw w (by simp)),
      splitHy_joinHy (v :: vs) (by simp) (fun x hx => hw x (by simp [hx]))]

end WV.Proofs.C19
