import WV.Proofs.C19_Compl
namespace WV.Proofs.C19
open WV WV.C19 WV.Gen

/-- the working tree uses the `\Z` regex (this is the statement a revert of d96e219 falsifies) -/
theorem npRegex_eq : npRegex = .bigZ := by decide

theorem rejects_space : Consts.validate_code_rejects_space = true := by decide

theorem allDigits_iff {isD : Nat → Bool} {s : Str} : allDigits isD s = true ↔ s ≠ [] ∧ ∀ x ∈ s, isD x = true := by
  unfold allDigits
  cases s <;> simp

theorem validateNameplate_ok_iff {isD : Nat → Bool} {s : Str} :
    validateNameplate isD s = .ok () ↔ s ≠ [] ∧ ∀ x ∈ s, isD x = true := by
  unfold validateNameplate validateNameplateWith
  rw [npRegex_eq]
  simp only [npMatch]
  rw [← allDigits_iff]
  cases allDigits isD s <;> simp

theorem validateNameplate_cases (isD : Nat → Bool) (s : Str) :
    validateNameplate isD s = .ok () ∨ validateNameplate isD s = .error .keyFormat := by
  unfold validateNameplate validateNameplateWith
  rw [npRegex_eq]
  simp only [npMatch]
  cases allDigits isD s <;> simp

theorem validateCode_ok_iff {isD : Nat → Bool} {c : Str} :
    validateCode isD c = .ok () ↔ 32 ∉ c ∧ firstPart c ≠ [] ∧ ∀ x ∈ firstPart c, isD x = true := by
  unfold validateCode validateCodeWith
  rw [rejects_space]
  by_cases h : 32 ∈ c
  · simp [h]
  · simp only [Bool.true_and, List.contains_iff_mem, h]
    simpa [validateNameplate] using validateNameplate_ok_iff (isD := isD) (s := firstPart c)

theorem validateCode_cases (isD : Nat → Bool) (c : Str) :
    validateCode isD c = .ok () ∨ validateCode isD c = .error .keyFormat := by
  unfold validateCode validateCodeWith
  rw [rejects_space]
  by_cases h : 32 ∈ c
  · simp [h]
  · simp only [Bool.true_and, List.contains_iff_mem, h]
    simpa [validateNameplate] using validateNameplate_cases isD (firstPart c)

theorem firstPart_eq_takeWhile (s : Str) : firstPart s = s.takeWhile (· != 45) := by
  unfold firstPart
  induction s with
  | nil => simp [splitHy]
  | cons c cs ih =>
    by_cases hc : c = 45
    · subst hc; simp [splitHy]
    · have : splitHy (c :: cs) = (c :: (splitHy cs).head (splitHy_ne_nil cs)) :: (splitHy cs).tail := by
        rw [splitHy, if_neg hc]
        split
        · next w ws hw => simp [hw]
        · next hw => exact absurd hw (splitHy_ne_nil cs)
      simp only [this, List.head_cons, ih]
      simp [hc]

/-! `\d` of the interpreter, on ASCII -/
theorem isNd_ascii : ∀ c, c < 128 → (isNd c = true ↔ 48 ≤ c ∧ c ≤ 57) := by decide +kernel

end WV.Proofs.C19
