import WV.Model.C12

/-! C12 helper lemmas: be4, record codec, framing of one frame. -/
namespace WV.Proofs.C12
open WV WV.C12 WV.Gen

theorem fromBe4_toBe4 (n : Nat) (h : n < 4294967296) :
    ∃ b, toBe4 n = some b ∧ fromBe4 b = some n ∧ b.length = 4 := by
  refine ⟨[n / 16777216 % 256, n / 65536 % 256, n / 256 % 256, n % 256], by simp [toBe4, h], ?_, by simp⟩
  simp [fromBe4]; omega

theorem toBe4_eq_some {n : Nat} {b : Bytes} (h : toBe4 n = some b) :
    n < 4294967296 ∧ b = [n / 16777216 % 256, n / 65536 % 256, n / 256 % 256, n % 256] := by
  unfold toBe4 at h
  split at h
  · simp at h; exact ⟨by assumption, h.symm⟩
  · simp at h

theorem be4_value (n : Nat) (h : n < 4294967296) :
    n / 16777216 % 256 * 16777216 + n / 65536 % 256 * 65536 + n / 256 % 256 * 256 + n % 256 = n := by
  omega

/-- `parse_record (encode_record r) = r` on every well-formed record -/
theorem parse_encode (v : Bytes → Bool) (r : Rec) (hwf : r.wf v) :
    ∃ b, encodeRecord r = some b ∧ parseRecord v b = .ok r := by
  cases r with
  | kcm => exact ⟨_, rfl, by simp [parseRecord, Consts.T_KCM]⟩
  | ping id =>
    refine ⟨_, rfl, ?_⟩
    have : id.length = 4 := hwf
    simp [parseRecord, Consts.T_KCM, Consts.T_PING, List.take_of_length_le, this]
  | pong id =>
    refine ⟨_, rfl, ?_⟩
    have : id.length = 4 := hwf
    simp [parseRecord, Consts.T_KCM, Consts.T_PING, Consts.T_PONG, List.take_of_length_le, this]
  | opn s c sub =>
    obtain ⟨hs, hc, hv⟩ := hwf
    refine ⟨_, by simp [encodeRecord, toBe4, hs, hc]; rfl, ?_⟩
    simp [parseRecord, Consts.T_KCM, Consts.T_PING, Consts.T_PONG, Consts.T_OPEN, be4At, fromBe4, hv,
      be4_value s hs, be4_value c hc, bind, Except.bind]
  | data s c d =>
    obtain ⟨hs, hc⟩ := hwf
    refine ⟨_, by simp [encodeRecord, toBe4, hs, hc]; rfl, ?_⟩
    simp [parseRecord, Consts.T_KCM, Consts.T_PING, Consts.T_PONG, Consts.T_OPEN, Consts.T_DATA, be4At, fromBe4,
      be4_value s hs, be4_value c hc, bind, Except.bind]
  | close s c =>
    obtain ⟨hs, hc⟩ := hwf
    refine ⟨_, by simp [encodeRecord, toBe4, hs, hc]; rfl, ?_⟩
    simp [parseRecord, Consts.T_KCM, Consts.T_PING, Consts.T_PONG, Consts.T_OPEN, Consts.T_DATA, Consts.T_CLOSE,
      be4At, fromBe4, be4_value s hs, be4_value c hc, bind, Except.bind]
  | ack r =>
    have hr : r < 4294967296 := hwf
    refine ⟨_, by simp [encodeRecord, toBe4, hr]; rfl, ?_⟩
    simp [parseRecord, Consts.T_KCM, Consts.T_PING, Consts.T_PONG, Consts.T_OPEN, Consts.T_DATA, Consts.T_CLOSE,
      Consts.T_ACK, be4At, fromBe4, be4_value r hr, bind, Except.bind]

end WV.Proofs.C12
