import WV.Proofs.C17_Accept

/-!
C17 helper lemmas, part 7: the Terminator (with `Dilator.stop`) preserves the control invariant.
-/
namespace WV.Proofs.C17
open WV WV.Gen WV.C17

variable {ps : String} {pend : List Thunk} {w : World}

theorem InvC.stopNoMgr {k : Core} (h : InvC ps pend k) (hm : k.hasMgr = false) (hts : k.ts = .S_stoppingRC) :
    InvC ps pend { k with ts := .S_stopped, closed := k.closed + 1 } := by
  refine { h with tsA := ?_, tsB := ?_, tsC := ?_ }
  · intro _ hh; simp at hh
  · intro hh; simp at hh
  · have := h.tsC
    simp [hts] at this
    simp [this]

theorem stopConnecting_core' (h : Inv ps pend w) (hms : w.ms = .CONNECTING)
    (v : World) (hvc : v.ctors = w.ctors) (hvn : v.conns = w.conns) :
    ∃ g cs, w.ctors.length = g + 1 ∧ ConnsLe w.conns cs ∧
      (withConnector v fun g => cInput noMade g .k_stop 0 v).2 = none ∧
      core (withConnector v fun g => cInput noMade g .k_stop 0 v).1 = { core v with ctors := w.ctors.set g .stopped, conns := cs } := by
  obtain ⟨g, st, hlen, hst, hne⟩ := h.ctor (by simp [core, hms])
  have hlen' : v.ctors.length = g + 1 := by rw [hvc]; exact hlen
  have hst' : v.ctors[g]? = some st := by rw [hvc]; exact hst
  obtain ⟨h1, cs, h2, h3⟩ := stop_core g v st hst' hne
  refine ⟨g, cs, hlen, by rw [← hvn]; exact h2, ?_, ?_⟩
  · simp only [withConnector, hlen']; exact h1
  · simp only [withConnector, hlen']; rw [h3, hvc]

/-- `notify_stopped` (+ status) followed by Dilator.stop's `when_stopped().addCallback(...)` -/
theorem notifyTail_core (v : World) (hf : v.fired = false) (rest : List Manager.Output)
    (hrest : ∀ u, (mOuts "" 0 rest u) = (u, none)) :
    (andThen (mOuts "" 0 (.notify_stopped :: rest) v) fun w1 => (whenStopped w1, none)).2 = none ∧
    core (andThen (mOuts "" 0 (.notify_stopped :: rest) v) fun w1 => (whenStopped w1, none)).1 =
      { core v with fired := true, queue := v.queue ++ List.replicate v.stoppedObs .stoppedD ++ [.stoppedD], stoppedObs := 0 } := by
  simp only [mOuts, mOut, notifyStopped, hf, Bool.false_eq_true, ↓reduceIte, andThen, hrest, whenStopped]
  exact ⟨trivial, rfl⟩

/-- `Dilator.stop()` with a Manager: `manager.stop()` then `when_stopped().addCallback(T.stoppedD)` -/
theorem stopRow_inv (h : Inv ps pend w) (hts : w.ts = .S_stoppingRC) (hm : w.hasMgr = true) (htm : TimerOk w) :
    (andThen (mInput .k_stop "" 0 { w with ts := .S_stoppingD }) fun w1 => (whenStopped w1, none)).2 = none ∧
    Inv ps pend (andThen (mInput .k_stop "" 0 { w with ts := .S_stoppingD }) fun w1 => (whenStopped w1, none)).1 := by
  have hnot := h.tsA (by simp [core, hts]) (by simp [core, hts])
  have hf : w.fired = false := InvC.firedFalse (k := core w) h hnot.2
  have hnc : w.ms ≠ .CONNECTING → ∀ g : Nat, w.ctors[g]? ≠ some Connector.State.connecting := by
    intro hne g hg
    exact hne (h.ctorB g hg).2
  have hmem : ∀ (q : List Thunk) (n : Nat), Thunk.stoppedD ∈ q ++ List.replicate n Thunk.stoppedD ++ [Thunk.stoppedD] := by
    intro q n; simp
  -- the rows that stop at once without a Connector
  have simple : ∀ (rest : List Manager.Output), (∀ u, (mOuts "" 0 rest u) = (u, none)) → w.ms ≠ .CONNECTING →
      (andThen (mOuts "" 0 (.notify_stopped :: rest) { w with ms := .STOPPED, ts := .S_stoppingD })
        fun w1 => (whenStopped w1, none)).2 = none ∧
      Inv ps pend (andThen (mOuts "" 0 (.notify_stopped :: rest) { w with ms := .STOPPED, ts := .S_stoppingD })
        fun w1 => (whenStopped w1, none)).1 := by
    intro rest hrest hne
    obtain ⟨e1, e2⟩ := notifyTail_core { w with ms := .STOPPED, ts := .S_stoppingD } hf rest hrest
    refine ⟨e1, inv_core_eq ?_ e2⟩
    exact InvC.stopNow (k := core w) h hm hnot.2 hts w.ctors (hnc hne) w.conns _ (hmem _ _) 0 w.conn
  unfold mInput
  cases hms : w.ms <;> simp only [Manager.table]
  · -- ABANDONING → STOPPING
    simp only [mOuts, andThen, whenStopped, hf, Bool.false_eq_true, ↓reduceIte, true_and]
    exact inv_core_eq (InvC.stopLater (k := core w) h hm (Or.inr hms) hts w.conns (ConnsLe.refl _) (by intro e; simp [core, hms] at e))
      (by simp [core, hf])
  · -- CONNECTED → STOPPING [abandon_connection]
    obtain ⟨c, x, hc, hx, _, _⟩ := h.armed (by simp [core, hms, inConn])
    have hc' : w.conn = some c := hc
    obtain ⟨hle, _⟩ := disconnect_core c w
    obtain ⟨y, hy, hyc, _, _⟩ := disconnect_closing c w x hx
    simp only [mOuts]
    rw [abandon_eval "" 0 { w with ms := .STOPPING, ts := .S_stoppingD } htm c hc']
    simp only [andThen, whenStopped, disconnect, hf, Bool.false_eq_true, ↓reduceIte, true_and]
    exact inv_core_eq (InvC.stopLater (k := core w) h hm (Or.inl hms) hts (disconnect c w).conns hle
      (by intro _ c' hc''; rw [hc] at hc''; cases hc''; exact ⟨y, hy, hyc⟩))
      (by simp [core, hf, disconnect, hc'])
  · -- CONNECTING → STOPPED [stop_connecting, notify_stopped, send_status_stopped]
    obtain ⟨g, cs, hlen, hle, h1, h2⟩ := stopConnecting_core' h hms { w with ms := .STOPPED, ts := .S_stoppingD } rfl rfl
    have hct := set_none_connecting h g hlen .stopped (by simp)
    simp only [mOuts, mOut] at h1 h2 ⊢
    rw [andThen_ok h1]
    have hf2 := congrArg Core.fired h2
    simp only [core] at hf2
    obtain ⟨e1, e2⟩ := notifyTail_core _ (hf2.trans hf) [.send_status_stopped] (fun u => rfl)
    simp only [mOuts, mOut] at e1 e2
    refine ⟨e1, inv_core_eq ?_ e2⟩
    rw [h2]
    exact InvC.stopNow (k := core w) h hm hnot.2 hts _ hct cs _ (hmem _ _) 0 w.conn
  · exact simple [.send_status_stopped] (fun u => rfl) (by simp [hms])
  · exact simple [.send_status_stopped] (fun u => rfl) (by simp [hms])
  · exact absurd hms hnot.2
  · exact absurd hms hnot.1
  · exact simple [] (fun u => rfl) (by simp [hms])
  · exact simple [] (fun u => rfl) (by simp [hms])

end WV.Proofs.C17
