import WV.Model.C07
import WV.Proofs.C07_Connect

/-! The listening port's lifetime: `stopListening()` is tied to `_listener_d` (generated flags say
whether by callback and by errback); invariant: while the port is open, `_listener_d` has not fired. -/
namespace WV.Proofs.C07
open WV WV.C07

def phC (cont : List Contender) (k : Nat) : Option Phase := (cont[k]?).map (·.phase)
def attC (cont : List Contender) (k : Nat) : Option Bool := (cont[k]?).map (·.attached)
def isDone : Phase → Bool
  | .done _ _ => true
  | _ => false
def pend (w : World) (i : Nat) : Prop := ∃ c, w.conns i = some c ∧ c.negD = .pending

theorem phC_setPhase (cont : List Contender) (k : Nat) (p : Phase) (j : Nat) :
    phC (setPhase cont k p) j = if k = j then (cont[j]?).map (fun _ => p) else phC cont j := by
  unfold phC setPhase
  rw [List.getElem?_modify]
  by_cases h : k = j <;> cases cont[j]? <;> simp [h]

theorem attC_setPhase (cont : List Contender) (k : Nat) (p : Phase) (j : Nat) :
    attC (setPhase cont k p) j = attC cont j := by
  unfold attC setPhase
  rw [List.getElem?_modify]
  by_cases h : k = j <;> cases cont[j]? <;> simp [h]

theorem length_setPhase (cont : List Contender) (k : Nat) (p : Phase) :
    (setPhase cont k p).length = cont.length := by
  unfold setPhase; simp

theorem attC_attach (cont : List Contender) (k j : Nat) :
    attC (cont.modify k fun c => { c with attached := true }) j =
      if k = j then (cont[j]?).map (fun _ => true) else attC cont j := by
  unfold attC
  rw [List.getElem?_modify]
  by_cases h : k = j <;> cases cont[j]? <;> simp [h]

theorem phC_attach (cont : List Contender) (k j : Nat) :
    phC (cont.modify k fun c => { c with attached := true }) j = phC cont j := by
  unfold phC
  rw [List.getElem?_modify]
  by_cases h : k = j <;> cases cont[j]? <;> simp [h]

theorem startContenders_phC (now : Nat) (hd : Bool) (all : List Contender) :
    ∀ (l : List Contender) (seq j : Nat) (q : Phase), phC l j = some q → q ≠ .idle →
      phC (startContenders now seq hd all l).1 j = some q := by
  intro l
  induction l with
  | nil => intro seq j q h; simp [phC] at h
  | cons c rest ih =>
    intro seq j q h hq
    unfold startContenders
    cases j with
    | zero =>
      have hcq : c.phase = q := by simpa [phC] using h
      split
      · rename_i hph; rw [hph] at hcq; exact absurd hcq.symm hq
      · rename_i hph; rw [hph] at hcq; exact absurd hcq.symm hq
      · simp [phC, hcq]
    | succ j =>
      have h' : phC rest j = some q := by simpa [phC] using h
      split
      · have := ih seq j q h' hq
        simpa [phC] using this
      · have := ih (seq + 1) j q h' hq
        simpa [phC] using this
      · have := ih seq j q h' hq
        simpa [phC] using this


structure PortInv (w : World) : Prop where
  /-- while the port is open, `_listener_d` (contender 0) has not fired -/
  pl : w.portOpen = true → phC w.cont 0 = some .listening
  /-- only the listener's Deferred is ever in phase `listening` -/
  pk : ∀ (k : Nat) (c : Contender), w.cont[k]? = some c → c.phase = Phase.listening → c.kind = Kind.listener

theorem PortInv.of_eq {w w' : World} (h : PortInv w) (e1 : w'.cont = w.cont) (e2 : w'.portOpen = w.portOpen) :
    PortInv w' := ⟨by rw [e1, e2]; exact h.pl, by rw [e1]; exact h.pk⟩

theorem foldl_Port {α : Type} (f : World → α → World) (hf : ∀ w a, PortInv w → PortInv (f w a)) (l : List α)
    (w : World) (h : PortInv w) : PortInv (l.foldl f w) := by
  induction l generalizing w with
  | nil => exact h
  | cons a rest ih => exact ih _ (hf w a h)

/-- contender `k` moves to a phase other than `listening`; the port may stay open only if `k` is
    not the listener's slot -/
theorem PortInv_setPhase {w : World} (k : Nat) {p : Phase} (po : Bool) (h : PortInv w) (hp : p ≠ .listening)
    (hpo : po = true → w.portOpen = true ∧ k ≠ 0) :
    PortInv { w with cont := setPhase w.cont k p, portOpen := po } := by
  refine ⟨?_, ?_⟩
  · intro hpo'
    obtain ⟨h1, h2⟩ := hpo hpo'
    simp only [phC_setPhase, h2, if_false]
    exact h.pl h1
  · intro j c hc hph
    simp only [setPhase, List.getElem?_modify] at hc
    cases hj : w.cont[j]? with
    | none => rw [hj] at hc; simp at hc
    | some c0 =>
      rw [hj] at hc
      simp at hc
      by_cases hkj : k = j
      · simp [hkj] at hc; subst hc; exact absurd hph hp
      · simp [hkj] at hc; subst hc; exact h.pk j c0 hj hph

theorem flags_both : Gen.Transit.listener_stop_on_callback = true ∧ Gen.Transit.listener_stop_on_errback = true := by
  decide

/-- `_listener_d` firing stops the port: the `portOpen` update of `fireOk`/`fireFail` -/
theorem stop_update {w : World} (k : Nat) (flag : Bool) (hflag : flag = true) (h : PortInv w) :
    (w.portOpen && !(isListener w.cont k && flag)) = true → w.portOpen = true ∧ k ≠ 0 := by
  intro hh
  simp only [Bool.and_eq_true, Bool.not_eq_true', hflag, Bool.and_true] at hh
  refine ⟨hh.1, ?_⟩
  intro hk
  subst hk
  have := h.pl hh.1
  unfold phC at this
  cases hc : w.cont[0]? with
  | none => rw [hc] at this; cases this
  | some c =>
    rw [hc] at this
    simp at this
    have hkind := h.pk 0 c hc this
    have : isListener w.cont 0 = true := by unfold isListener; rw [hc]; simp [hkind]
    rw [this] at hh; cases hh.2

theorem maybeDone_Port (w : World) (h : PortInv w) : PortInv (maybeDone w) := by
  unfold maybeDone
  repeat' split
  all_goals first
    | exact h
    | exact h.of_eq rfl rfl

theorem failCallbacks_Port (w : World) (k : Nat) (e : Err) (h : PortInv w) : PortInv (failCallbacks w k e) := by
  unfold failCallbacks
  exact maybeDone_Port _ (h.of_eq rfl rfl)

theorem fireFail_Port (w : World) (k : Nat) (e : Err) (h : PortInv w) : PortInv (fireFail w k e) := by
  unfold fireFail
  simp only []
  have h1 := PortInv_setPhase k (p := .done (some e) 0)
    (w.portOpen && !(isListener w.cont k && Gen.Transit.listener_stop_on_errback)) h (by simp)
    (stop_update k _ flags_both.2 h)
  repeat' split
  all_goals first
    | exact failCallbacks_Port _ k e h1
    | exact h1

theorem cancelConnAt_Port (w : World) (i : Nat) (h : PortInv w) : PortInv (cancelConnAt w i) := by
  unfold cancelConnAt
  repeat' split
  all_goals first
    | exact h
    | exact h.of_eq rfl rfl

theorem shutdown_Port (w : World) (h : PortInv w) : PortInv (shutdown w) := by
  unfold shutdown
  exact (foldl_Port cancelConnAt cancelConnAt_Port _ w h).of_eq rfl rfl

theorem cancelContender_Port (w : World) (k : Nat) (h : PortInv w) : PortInv (cancelContender w k) := by
  unfold cancelContender
  split
  · exact fireFail_Port _ k _ (shutdown_Port w h)
  · exact fireFail_Port _ k _ h
  · exact fireFail_Port _ k _ h
  · exact fireFail_Port _ k _ (cancelConnAt_Port w _ h)
  · exact h

theorem okCallbacks_Port (w : World) (k i : Nat) (h : PortInv w) : PortInv (okCallbacks w k i) := by
  unfold okCallbacks
  exact maybeDone_Port _ (foldl_Port cancelContender cancelContender_Port _ _ (h.of_eq rfl rfl))

theorem fireOk_Port (w : World) (k i : Nat) (h : PortInv w) : PortInv (fireOk w k i) := by
  unfold fireOk
  simp only []
  have h1 := PortInv_setPhase k (p := .done none i)
    (w.portOpen && !(isListener w.cont k && Gen.Transit.listener_stop_on_callback)) h (by simp)
    (stop_update k _ flags_both.1 h)
  repeat' split
  all_goals first
    | exact okCallbacks_Port _ k i h1
    | exact h1

theorem negFired_Port (w : World) (i : Nat) (r : Option Err) (h : PortInv w) : PortInv (negFired w i r) := by
  unfold negFired
  split
  · exact h
  · split
    · split
      · exact h.of_eq rfl rfl
      · simp only []
        have h1 : PortInv (shutdown { w with fPending := w.fPending.erase i }) := shutdown_Port _ (h.of_eq rfl rfl)
        split
        · split
          · exact fireOk_Port _ _ _ h1
          · exact h1
        · exact h1
    · split
      · exact fireOk_Port _ _ _ h
      · exact fireFail_Port _ _ _ h

theorem applyCtx_Port (w : World) (i : Nat) (x : Ctx) (h : PortInv w) : PortInv (applyCtx w i x) := by
  unfold applyCtx
  simp only []
  split
  · exact negFired_Port _ _ _ (h.of_eq rfl rfl)
  · exact h.of_eq rfl rfl

theorem addConn_Port_in (w : World) (rh : Option Bytes) (h : PortInv w) : PortInv (addConn w rh none).1 := by
  unfold addConn
  simp only []
  exact applyCtx_Port _ _ _ (h.of_eq rfl rfl)

theorem addConn_Port_out (w : World) (rh : Option Bytes) (k : Nat) (h : PortInv w)
    (hk : phC w.cont k ≠ some .listening) : PortInv (addConn w rh (some k)).1 := by
  unfold addConn
  simp only []
  apply applyCtx_Port
  have := PortInv_setPhase k (p := .negotiating w.n) w.portOpen h (by simp) (by
    intro hp
    refine ⟨hp, ?_⟩
    intro hk0; subst hk0; exact hk (h.pl hp))
  exact this.of_eq rfl rfl

theorem evInbound_Port {w : World} {p : World × Option Err} (h : PortInv w) (hE : evInbound w = some p) :
    PortInv p.1 := by
  unfold evInbound at hE
  split at hE
  · split at hE
    · cases hE; exact addConn_Port_in _ _ h
    · cases hE; exact h.of_eq rfl rfl
  · cases hE

theorem evConnected_Port {w : World} {k : Nat} {p : World × Option Err} (h : PortInv w)
    (hE : evConnected w k = some p) : PortInv p.1 := by
  unfold evConnected at hE
  split at hE
  · rename_i c hc
    split at hE
    · rename_i hph
      cases hE
      apply addConn_Port_out _ _ _ h
      unfold phC; rw [hc]; simp [hph]
    · cases hE
  · cases hE

theorem evConnFail_Port {w w' : World} {k : Nat} (h : PortInv w) (he : evConnFail w k e = some w') : PortInv w' := by
  unfold evConnFail at he
  split at he
  · cases he; exact fireFail_Port _ _ _ h
  · cases he

theorem attach_Port (w : World) (k : Nat) (h : PortInv w) : PortInv (attach w k) := by
  unfold attach
  split
  · exact h
  · have h1 : PortInv { w with cont := w.cont.modify k fun c => { c with attached := true } } := by
      refine ⟨by simpa only [phC_attach] using h.pl, ?_⟩
      intro j c hc hph
      simp only [List.getElem?_modify] at hc
      cases hj : w.cont[j]? with
      | none => rw [hj] at hc; simp at hc
      | some c0 =>
        rw [hj] at hc
        simp at hc
        by_cases hkj : k = j
        · simp [hkj] at hc; subst hc; exact h.pk j c0 hj hph
        · simp [hkj] at hc; subst hc; exact h.pk j c0 hj hph
    simp only []
    split
    · exact okCallbacks_Port _ _ _ h1
    · exact failCallbacks_Port _ _ _ h1
    · exact h1

/-- `_connect` turns idle contenders into connecting / delayed ones and nothing else -/
theorem startContenders_get (now : Nat) (hd : Bool) (all : List Contender) :
    ∀ (l : List Contender) (seq j : Nat) (c' : Contender), (startContenders now seq hd all l).1[j]? = some c' →
      ∃ c, l[j]? = some c ∧ c'.kind = c.kind ∧ (c'.phase = c.phase ∨ c'.phase ≠ .listening) := by
  intro l
  induction l with
  | nil => intro seq j c' h; simp [startContenders] at h
  | cons c rest ih =>
    intro seq j c' h
    unfold startContenders at h
    cases j with
    | zero =>
      split at h
      · simp at h; subst h; exact ⟨c, rfl, rfl, Or.inr (by simp)⟩
      · simp at h; subst h; exact ⟨c, rfl, rfl, Or.inr (by simp)⟩
      · simp at h; subst h; exact ⟨c, rfl, rfl, Or.inl rfl⟩
    | succ j =>
      split at h
      · simp at h; simpa using ih seq j c' h
      · simp at h; simpa using ih (seq + 1) j c' h
      · simp at h; simpa using ih seq j c' h

theorem evConnect_Port {w w' : World} (h : PortInv w) (he : evConnect w = some w') : PortInv w' := by
  rw [evConnect_eq] at he
  unfold evConnectHead at he
  split at he
  · cases he
  · simp only [] at he
    have hbase : ∀ (w2 : World),
        w2.cont = (startContenders w.now w.seq (w.cont.any fun c => decide (c.kind = Kind.direct)) w.cont w.cont).1 →
        w2.portOpen = w.portOpen → PortInv w2 := by
      intro w2 e1 e2
      refine ⟨?_, ?_⟩
      · rw [e1, e2]; intro hp
        exact startContenders_phC _ _ _ _ _ 0 _ (h.pl hp) (by simp)
      · rw [e1]; intro j c' hc' hph
        obtain ⟨c, hc, hk, hp⟩ := startContenders_get _ _ _ _ _ j c' hc'
        rcases hp with hp | hp
        · rw [hk]; exact h.pk j c hc (by rw [← hp]; exact hph)
        · exact absurd hph hp
    split at he
    · cases he; exact hbase _ rfl rfl
    · split at he <;> cases he
      all_goals
        refine PortInv.of_eq (w := List.foldl attach _ _) ?_ rfl rfl
        exact foldl_Port attach attach_Port _ _ (hbase _ rfl rfl)

theorem fireDeadline_Port (w : World) (h : PortInv w) : PortInv (fireDeadline w) := by
  unfold fireDeadline
  simp only []
  split
  · exact h.of_eq rfl rfl
  · have h1 := foldl_Port cancelContender cancelContender_Port w.remaining { w with deadline := none } (h.of_eq rfl rfl)
    split
    · exact h1
    · exact h1.of_eq rfl rfl

theorem fireTimer_Port (w : World) (t : Timer × TimerId) (h : PortInv w) : PortInv (fireTimer w t) := by
  unfold fireTimer
  split
  · repeat' split
    all_goals first
      | exact h
      | exact h.of_eq rfl rfl
  · rename_i k _
    split
    · rename_i hph
      have := PortInv_setPhase k (p := .connecting) w.portOpen h (by simp) (by
        intro hp
        refine ⟨hp, ?_⟩
        intro hk0; subst hk0
        have := h.pl hp
        unfold phaseOf at hph; unfold phC at this
        rw [hph] at this; cases this)
      exact this.of_eq rfl rfl
    · exact h
  · split
    · exact fireDeadline_Port w h
    · exact h

theorem step_Port (w : World) (e : Event) (h : PortInv w) : PortInv (step w e) := by
  cases e with
  | inbound =>
    simp only [step]
    cases hE : evInbound w with
    | none => exact h
    | some p => exact evInbound_Port h hE
  | connect =>
    simp only [step]
    split
    · cases hE : evConnect w with
      | none => exact h
      | some w' => exact evConnect_Port h hE
    · exact h
  | connected k =>
    simp only [step]
    cases hE : evConnected w k with
    | none => exact h
    | some p => exact evConnected_Port h hE
  | connFail k e =>
    simp only [step]
    cases hE : evConnFail w k e with
    | none => exact h
    | some w' => exact evConnFail_Port h hE
  | data i d =>
    simp only [step, evData]
    split
    · exact h
    · exact applyCtx_Port _ _ _ h
  | lost i =>
    simp only [step, evLost]
    split
    · exact h
    · split
      · exact negFired_Port _ _ _ (h.of_eq rfl rfl)
      · exact h.of_eq rfl rfl
  | advance dt =>
    simp only [step, evAdvance]
    exact foldl_Port fireTimer fireTimer_Port _ _ (h.of_eq rfl rfl)
  | setKey => exact h.of_eq rfl rfl

theorem Port_init (cfg : Cfg) (l : Bool) (d : Nat) (r : List Nat) : PortInv (initWorld cfg l d r) := by
  refine ⟨?_, ?_⟩
  · intro hp
    simp only [initWorld] at hp
    subst hp
    simp [initWorld, phC]
  · intro k c hc hph
    have hm := List.mem_of_getElem? hc
    simp only [initWorld, List.mem_append, List.mem_replicate, List.mem_map] at hm
    rcases hm with (hm | ⟨_, hm⟩) | ⟨p, _, hm⟩
    · cases l <;> simp at hm; subst hm; rfl
    · subst hm; simp at hph
    · subst hm; simp at hph

theorem run_Port (w : World) (evs : List Event) (h : PortInv w) : PortInv (run w evs) := by
  induction evs generalizing w with
  | nil => exact h
  | cons e rest ih => exact ih _ (step_Port w e h)

end WV.Proofs.C07
