import WV.Proofs.C19_RlInv
namespace WV.Proofs.C19
open WV WV.C19 WV.Gen

theorem rlNameplates_ok (isD : Nat → Bool) (r r' : Rl) (t : Str) (l : List Str)
    (h : rlNameplates isD r t = (r', .ok l)) : ∀ c ∈ l, t <+: c := by
  unfold rlNameplates at h
  split at h
  · simp at h
  · next s1 _ =>
    split at h
    · simp at h
    · next s2 heq2 =>
      split at h
      · simp at h
      · next l0 hret =>
        simp only [Prod.mk.injEq, Except.ok.injEq] at h
        obtain ⟨_, rfl⟩ := h
        intro c hc
        exact npCompl_ret isD s1 s2 t l0 heq2 hret c (mem_sortStrs.mp hc)

theorem rlWords_ok (isD : Nat → Bool) (r r' : Rl) (np w : Str) (l : List Str)
    (h : rlWords isD r np w = (r', .ok l)) : ∀ c ∈ l, (np ++ 45 :: w) <+: c := by
  unfold rlWords at h
  split at h
  · simp at h
  · next s3 heq =>
    split at h
    · simp at h
    · next l0 hret =>
      simp only [Prod.mk.injEq, Except.ok.injEq] at h
      obtain ⟨_, rfl⟩ := h
      intro c hc
      obtain ⟨c0, hc0, rfl⟩ := List.mem_map.mp (mem_sortStrs.mp hc)
      obtain ⟨t, ht⟩ := wordCompl_ret isD r.s s3 w l0 heq hret c0 hc0
      exact ⟨t, by simp [← ht]⟩

theorem rlTab_extends (isD : Nat → Bool) (r r' : Rl) (t : Str) (l : List Str)
    (h : rlTab isD r t = (r', .ok l)) : ∀ c ∈ l, t <+: c := by
  unfold rlTab rlBuild at h
  split at h
  · simp at h
  · split at h
    · exact rlNameplates_ok isD _ r' t l h
    · next np words hp =>
      split at h
      · simp at h
      · next r1 _ =>
        have := rlWords_ok isD r1 r' np words l h
        rw [(parseText_some hp).1]
        exact this

/-! ### rollback -/

theorem rlTab_rollback (isD : Nat → Bool) (r : Rl) (c t : Str) (hc : committedNp r = some c)
    (hne : ∀ w, parseText t ≠ some (c, w)) :
    rlTab isD r t = ({ r with used := true }, .error .alreadyInputNameplate) := by
  have hc' : committedNp ({ r with used := true } : Rl) = some c := hc
  unfold rlTab rlBuild
  have : rolledBackTab { r with used := true } (parseText t) = true := by
    unfold rolledBackTab
    rw [hc']
    cases hp : parseText t with
    | none => rfl
    | some q =>
      obtain ⟨np, w⟩ := q
      simp only [bne_iff_ne, ne_eq]
      intro e
      subst e
      exact hne w hp
  rw [if_pos this]

theorem rlFinish_rollback (isD : Nat → Bool) (r : Rl) (c t np w : Str) (hc : committedNp r = some c)
    (hp : parseText t = some (np, w)) (hne : np ≠ c) :
    rlFinish isD r t = (r, some .alreadyInputNameplate) := by
  unfold rlFinish
  rw [hp]
  have : rolledBackFinish r np = true := by
    unfold rolledBackFinish
    rw [hc]
    simpa using hne
  simp only [this, if_true]

theorem rlFinish_nohyphen (isD : Nat → Bool) (r : Rl) (t : Str) (hp : parseText t = none) :
    rlFinish isD r t = (r, some .keyFormat) := by
  unfold rlFinish
  rw [hp]

/-! ### the commitment is never revised -/

theorem rlNameplates_committed (isD : Nat → Bool) (r : Rl) (t : Str) : (rlNameplates isD r t).1.committed = r.committed := by
  unfold rlNameplates
  split
  · rfl
  · split
    · rfl
    · split <;> rfl

theorem rlWords_committed (isD : Nat → Bool) (r : Rl) (np w : Str) : (rlWords isD r np w).1.committed = r.committed := by
  unfold rlWords
  split
  · rfl
  · split <;> rfl

theorem committedNp_congr {a b : Rl} (h : a.committed = b.committed) : committedNp a = committedNp b := by
  unfold committedNp; rw [h]

theorem rlCommitTab_committed (isD : Nat → Bool) (r : Rl) (np c : Str) (hc : committedNp r = some c) :
    rlCommitTab isD r np = (r, none) := by
  unfold rlCommitTab
  simp [hc]

theorem rlTab_sticky (isD : Nat → Bool) (r : Rl) (t c : Str) (hc : committedNp r = some c) :
    committedNp (rlTab isD r t).1 = some c := by
  have hc' : committedNp ({ r with used := true } : Rl) = some c := hc
  unfold rlTab rlBuild
  split
  · exact hc'
  · split
    · rw [committedNp_congr (rlNameplates_committed isD _ t)]; exact hc'
    · next np words _ =>
      rw [rlCommitTab_committed isD _ np c hc']
      simp only
      rw [committedNp_congr (rlWords_committed isD _ np words)]; exact hc'

theorem rlFinish_committed (isD : Nat → Bool) (r : Rl) (t : Str) : (rlFinish isD r t).1.committed = r.committed := by
  unfold rlFinish
  split
  · rfl
  · next np words _ =>
    split
    · rfl
    · rcases rlCommitFinish_spec isD r np with ⟨_, he⟩ | ⟨_, he⟩
      · rw [he]
      · rw [he]
        split
        · next r1 e heq => simp only [Prod.mk.injEq] at heq; obtain ⟨rfl, _⟩ := heq; rfl
        · next r1 heq => simp only [Prod.mk.injEq] at heq; obtain ⟨rfl, _⟩ := heq; rfl

theorem rlStep_sticky (isD : Nat → Bool) (r : Rl) (e : RlEv) (c : Str) (hc : committedNp r = some c) :
    committedNp (rlStep isD r e) = some c := by
  cases e with
  | tab t => exact rlTab_sticky isD r t c hc
  | finish t => simp only [rlStep]; rw [committedNp_congr (rlFinish_committed isD r t)]; exact hc
  | env e => exact hc

theorem rlRun_sticky (isD : Nat → Bool) (c : Str) : ∀ (es : List RlEv) (r : Rl), committedNp r = some c →
    committedNp (rlRun isD r es) = some c
  | [], _, h => h
  | e :: es, r, h => rlRun_sticky isD c es _ (rlStep_sticky isD r e c h)

/-! ### Return delivers the typed text -/

theorem rlFinish_delivers (isD : Nat → Bool) (r r' : Rl) (t : Str) (hJ : J r) (h : rlFinish isD r t = (r', none)) :
    r'.s.out = r.s.out ++ [.bGotCode t, .kGotCode t] ∨
    ∃ np w, parseText t = some (np, w) ∧ r'.s.out = r.s.out ++ [.nSetNameplate np, .bGotCode t, .kGotCode t] := by
  unfold rlFinish at h
  split at h
  · simp at h
  · next np words hp =>
    have ht := (parseText_some hp).1
    split at h
    · simp at h
    · next hrb =>
      rcases rlCommitFinish_spec isD r np with ⟨hc, he⟩ | ⟨hc, he⟩
      · rw [he] at h
        simp only [Prod.mk.injEq] at h
        obtain ⟨hr, he2⟩ := h
        obtain ⟨c, hcc⟩ := Option.isSome_iff_exists.mp hc
        have hnp : np = c := by
          unfold rolledBackFinish at hrb
          rw [hcc] at hrb
          simpa using hrb
        obtain ⟨hn, _⟩ := hJ c hcc
        obtain ⟨np', hn', ho⟩ := chooseWords_ok isD r.s _ words (Prod.ext rfl he2)
        rw [hn] at hn'
        cases hn'
        left
        rw [← hr]
        simp only
        rw [ho, ht, hnp]
      · rw [he] at h
        cases he1 : (step isD r.s (.hChooseNp np)).2 with
        | some e => simp [he1] at h
        | none =>
          simp only [he1, Prod.mk.injEq] at h
          obtain ⟨hr, he2⟩ := h
          obtain ⟨_, hn1, _, ho1⟩ := chooseNp_ok isD r.s _ np (Prod.ext rfl he1)
          obtain ⟨np', hn', ho⟩ := chooseWords_ok isD _ _ words (Prod.ext rfl he2)
          rw [hn1] at hn'
          cases hn'
          right
          refine ⟨np, words, hp, ?_⟩
          rw [← hr]
          simp only
          rw [ho, ho1, ht]
          simp

/-! ### what TAB offers is a function of the line (sessions that go back and edit) -/

theorem sortStrs_nil : sortStrs [] = [] := rfl

theorem rlWords_exact (isD : Nat → Bool) (r r' : Rl) (np w : Str) (l : List Str)
    (h : rlWords isD r np w = (r', .ok l)) :
    l = [] ∨ l = sortStrs ((getCompletions w 2).map fun c => np ++ 45 :: c) := by
  unfold rlWords at h
  split at h
  · simp at h
  · next s3 heq =>
    split at h
    · simp at h
    · next l0 hret =>
      simp only [Prod.mk.injEq, Except.ok.injEq] at h
      obtain ⟨_, rfl⟩ := h
      rcases wordCompl_exact isD r.s s3 w l0 heq hret with ⟨_, rfl⟩ | ⟨_, rfl⟩
      · exact Or.inl rfl
      · exact Or.inr rfl

theorem rlTab_exact (isD : Nat → Bool) (r r' : Rl) (t np w : Str) (l : List Str)
    (hp : parseText t = some (np, w)) (h : rlTab isD r t = (r', .ok l)) :
    l = [] ∨ l = sortStrs ((getCompletions w 2).map fun c => np ++ 45 :: c) := by
  unfold rlTab rlBuild at h
  split at h
  · simp at h
  · rw [hp] at h
    simp only at h
    split at h
    · simp at h
    · next r1 _ => exact rlWords_exact isD r1 r' np w l h

end WV.Proofs.C19
