import WV.Proofs.C03_Sys

/-! C09 — data half of the liveness clause: helper lemmas about ONE client (closed forms of the leaf calls of
    `WV.C03.Client`, what each call may change, the control invariant in a legal environment, and the accounting
    of accepted phases through Mailbox → Order → Receive → Boss). -/
set_option linter.unusedSimpArgs false
set_option linter.unusedVariables false

namespace WV.Proofs.C09
open WV WV.C03 WV.Gen WV.Proofs.C03

/-! ## leaf calls in closed form -/

/-- `M.add_message(p, b)`: queued in every state that can still send it (and written at once when
    connected-and-open); dropped once the mailbox is closing.  Never raises. -/
def addMsg (c : Client) (p : String) (b : Bytes) : Client :=
  match c.mbox.st with
  | .S2B => { c with mbox := { c.mbox with pending := dset c.mbox.pending p b }, log := c.log ++ [.txAdd p b] }
  | .S0A | .S0B | .S1A | .S2A => { c with mbox := { c.mbox with pending := dset c.mbox.pending p b } }
  | _ => c

theorem cMbox_add (c : Client) (p : String) (b : Bytes) :
    cMbox c .add_message (.add p b) = (addMsg c p b, none) := by
  rcases c with ⟨side, boss, send, ⟨st, mb, mood, pend, proc⟩, order, recv, obs, log⟩
  cases st <;> rfl


theorem runEffs_single {ε : Type} (f : Client → ε → CRes) (c : Client) (e : ε) : runEffs f c [e] = f c e := by
  unfold runEffs
  rcases h : f c e with ⟨c', err⟩
  cases err <;> simp [runEffs]

@[simp] theorem thenErr_none (r : CRes) : thenErr r none = r := by
  obtain ⟨c, x⟩ := r; cases x <;> rfl

/-- `Send.send(ph, pt)` -/
def sendMsg (C : Crypto) (c : Client) (ph : String) (pt : Bytes) : CRes :=
  match c.send.st with
  | .S0_no_key => ({ c with send := { c.send with queue := c.send.queue ++ [(ph, pt)] } }, none)
  | .S1_verified_key => if c.send.key then (addMsg c ph (C.enc c.side ph pt), none) else (c, some .assertion)

theorem cSend_send (C : Crypto) (c : Client) (ph : String) (pt : Bytes) :
    cSend C c .send (.send ph pt) = sendMsg C c ph pt := by
  rcases c with ⟨side, boss, ⟨st, key, queue⟩, mbox, order, recv, obs, log⟩
  cases st <;> cases key <;>
    simp [cSend, sendMsg, sendStep, Send.table, sendOuts, sendOut, encryptAndSend, runEffs, cMbox_add]

def addAll (c : Client) : List SEff → Client
  | [] => c
  | e :: r => addAll (addMsg c e.1 e.2) r

theorem runEffs_add (c : Client) (effs : List SEff) :
    runEffs (fun c (e : SEff) => cMbox c .add_message (.add e.1 e.2)) c effs = (addAll c effs, none) := by
  have hf : (fun c (e : SEff) => cMbox c .add_message (.add e.1 e.2)) = (fun c e => (addMsg c e.1 e.2, none)) := by
    funext c e; exact cMbox_add c e.1 e.2
  rw [hf]
  induction effs generalizing c with
  | nil => rfl
  | cons e r ih => simp [runEffs, addAll, ih]

/-- `Send.got_verified_key(key)` -/
def verifiedKey (C : Crypto) (c : Client) : CRes :=
  match c.send.st with
  | .S0_no_key =>
    (addAll { c with send := { st := .S1_verified_key, key := true, queue := [] } } (sealAll C c.side c.send.queue), none)
  | .S1_verified_key => (c, some .noTransition)

theorem cSend_verified (C : Crypto) (c : Client) : cSend C c .got_verified_key .key = verifiedKey C c := by
  rcases c with ⟨side, boss, ⟨st, key, queue⟩, mbox, order, recv, obs, log⟩
  cases st
  · simp [cSend, verifiedKey, sendStep, Send.table, sendOuts, sendOut, sendDrainLoop_key, runEffs_add]
  · simp [cSend, verifiedKey, sendStep, Send.table, runEffs]

/-- `Boss.send(pt)` = `w.send_message(pt)` -/
def bossSend (C : Crypto) (c : Client) (pt : Bytes) : CRes :=
  if bossLive c.boss.st then
    sendMsg C { c with boss := { c.boss with nextTx := c.boss.nextTx + 1 } } (showPhase c.boss.nextTx) pt
  else (c, none)

theorem cBoss_send (C : Crypto) (c : Client) (pt : Bytes) : cBoss C c .send (.pt pt) = bossSend C c pt := by
  rcases c with ⟨side, ⟨st, ntx, rx, drx⟩, send, mbox, order, recv, obs, log⟩
  cases st <;>
    simp [cBoss, cBossRes, bossSend, bossStep, Boss.table, bossOuts, bossOut, takeTxPhase, bossLive, runEffs_single,
      bEff, cSend_send, runEffs]


/-! ## the reorder buffer: what has arrived stays arrived; the next phase is never parked -/

def ArrivedRx (b : RxBuf) (i : Nat) : Prop := i < b.next ∨ dget b.phases i ≠ none

theorem rxLoop_arr (fuel : Nat) (b : RxBuf) (acc : List Bytes) (i : Nat) (h : ArrivedRx b i) :
    ArrivedRx (rxLoop fuel b acc).1 i := by
  induction fuel generalizing b acc with
  | zero => exact h
  | succ n ih =>
    unfold rxLoop
    cases hg : dget b.phases b.next with
    | none => exact h
    | some v =>
      simp only []
      apply ih
      rcases h with h | h
      · exact Or.inl (by simp; omega)
      · by_cases hi : b.next = i
        · exact Or.inl (by simp; omega)
        · right; simp only [dget_dpop, hi, if_false]; exact h

theorem wReceived_arr (b : RxBuf) (n : Nat) (pt : Bytes) (i : Nat) (h : ArrivedRx b i ∨ i = n) :
    ArrivedRx (wReceived b n pt).1 i := by
  unfold wReceived
  apply rxLoop_arr
  rcases h with (h | h) | h
  · exact Or.inl h
  · right; simp only [dget_dset]; split <;> simp [h]
  · right; simp [dget_dset, h]

theorem rxLoop_clean (fuel : Nat) (b : RxBuf) (acc : List Bytes) (hf : b.phases.length ≤ fuel) :
    dget (rxLoop fuel b acc).1.phases (rxLoop fuel b acc).1.next = none := by
  induction fuel generalizing b acc with
  | zero => simp only [rxLoop]; exact dget_nil_of_length_zero _ _ (by omega)
  | succ n ih =>
    unfold rxLoop
    cases hg : dget b.phases b.next with
    | none => exact hg
    | some v =>
      simp only []
      apply ih
      have := dpop_length_lt b.phases b.next v hg
      simp; omega

theorem wReceived_clean (b : RxBuf) (n : Nat) (pt : Bytes) :
    dget (wReceived b n pt).1.phases (wReceived b n pt).1.next = none := by
  unfold wReceived; exact rxLoop_clean _ _ _ (Nat.le_refl _)


/-! ## state predicates -/

/-- the client can no longer deliver: Receive is scared or the Boss is closing / closed (both absorbing) -/
def Dead (c : Client) : Prop := c.recv.st = .S3_scared ∨ bossLive c.boss.st = false
/-- numbered phase `i` of the peer has reached the Boss's reorder buffer (delivered already, or parked) -/
def Arrived (c : Client) (i : Nat) : Prop := ArrivedRx c.boss.rx i
/-- `_next_rx_phase not in _rx_phases` (the `while` loop ran to its end) -/
def Clean (c : Client) : Prop := dget c.boss.rx.phases c.boss.rx.next = none
/-- phase `p` waits in `Send._queue` -/
def Qk (c : Client) (p : String) : Prop := ∃ pt, (p, pt) ∈ c.send.queue
/-- phase `p` is in `Mailbox._pending_outbound` -/
def Pk (c : Client) (p : String) : Prop := dget c.mbox.pending p ≠ none
/-- the part of the log written on the current connection: everything after the last `open` frame -/
def afterOpen (l : List Ev) : List Ev := l.foldl (fun acc e => if e = .txOpen then [] else acc ++ [e]) []

theorem afterOpen_fold (m : List Ev) (acc : List Ev) (h : ∀ x ∈ m, x ≠ .txOpen) :
    m.foldl (fun acc e => if e = Ev.txOpen then [] else acc ++ [e]) acc = acc ++ m := by
  induction m generalizing acc with
  | nil => simp
  | cons e r ih =>
    have he : e ≠ .txOpen := h e (by simp)
    simp only [List.foldl_cons, he, if_false]
    rw [ih _ (fun x hx => h x (by simp [hx]))]
    simp

theorem afterOpen_append (l m : List Ev) (h : ∀ x ∈ m, x ≠ .txOpen) : afterOpen (l ++ m) = afterOpen l ++ m := by
  unfold afterOpen
  rw [List.foldl_append, afterOpen_fold m _ h]

theorem afterOpen_open (l m : List Ev) : afterOpen (l ++ .txOpen :: m) = afterOpen m := by
  unfold afterOpen
  rw [List.foldl_append]
  simp

theorem afterOpen_clean (m : List Ev) (h : ∀ x ∈ m, x ≠ .txOpen) : afterOpen m = m := by
  have := afterOpen_append [] m h
  simpa [afterOpen] using this

theorem afterOpen_suffix (l : List Ev) : afterOpen l <:+ l := by
  suffices ∀ (m acc pre : List Ev), acc <:+ pre →
      m.foldl (fun acc e => if e = Ev.txOpen then [] else acc ++ [e]) acc <:+ pre ++ m from by
    have h := this l [] [] (List.suffix_refl _)
    simpa [afterOpen] using h
  intro m
  induction m with
  | nil => intro acc pre h; simpa using h
  | cons e r ih =>
    intro acc pre h
    simp only [List.foldl_cons]
    have : pre ++ e :: r = (pre ++ [e]) ++ r := by simp
    rw [this]
    apply ih
    by_cases he : e = .txOpen
    · simp only [he, if_true]; exact List.nil_suffix
    · simp only [he, if_false]
      obtain ⟨t, ht⟩ := h
      exact ⟨t, by rw [← ht]; simp⟩

/-- while connected-and-open, everything pending has been written to the wire ON THE CURRENT CONNECTION -/
def PendLogged (c : Client) : Prop :=
  c.mbox.st = .S2B → ∀ e ∈ c.mbox.pending, Ev.txAdd e.1 e.2 ∈ afterOpen c.log
/-- the mailbox id is known in every state that will (re-)open it -/
def MboxKnown (c : Client) : Prop := (c.mbox.st = .S1A ∨ c.mbox.st = .S2A ∨ c.mbox.st = .S2B) → c.mbox.mailbox = true

/-- what the calls below `Receive` (Send, `Mailbox.add_message`, Boss) may do to a client -/
structure Sub (c c' : Client) : Prop where
  side : c'.side = c.side
  order : c'.order = c.order
  recv : c'.recv = c.recv
  mst : c'.mbox.st = c.mbox.st
  mbk : c'.mbox.mailbox = c.mbox.mailbox
  proc : c'.mbox.processed = c.mbox.processed
  ntx : c'.boss.nextTx = c.boss.nextTx
  cover : isOpen c.mbox.st = true → ∀ q, Qk c q ∨ Pk c q → Qk c' q ∨ Pk c' q
  arr : ∀ i, Arrived c i → Arrived c' i
  bdead : bossLive c.boss.st = false → bossLive c'.boss.st = false
  clean : Clean c → Clean c'
  log : ∀ x ∈ c.log, x ∈ c'.log
  plog : PendLogged c → PendLogged c'

theorem Sub.refl (c : Client) : Sub c c :=
  ⟨rfl, rfl, rfl, rfl, rfl, rfl, rfl, fun _ _ h => h, fun _ h => h, fun h => h, fun h => h, fun _ h => h, fun h => h⟩

theorem Sub.trans {a b c : Client} (h1 : Sub a b) (h2 : Sub b c) : Sub a c where
  side := h2.side.trans h1.side
  order := h2.order.trans h1.order
  recv := h2.recv.trans h1.recv
  mst := h2.mst.trans h1.mst
  mbk := h2.mbk.trans h1.mbk
  proc := h2.proc.trans h1.proc
  ntx := h2.ntx.trans h1.ntx
  cover := fun ho q hq => h2.cover (h1.mst ▸ ho) q (h1.cover ho q hq)
  arr := fun i h => h2.arr i (h1.arr i h)
  bdead := fun h => h2.bdead (h1.bdead h)
  clean := fun h => h2.clean (h1.clean h)
  log := fun x h => h2.log x (h1.log x h)
  plog := fun h => h2.plog (h1.plog h)

theorem dget_dset_ne_none {κ β : Type} [DecidableEq κ] (d : List (κ × β)) (k k' : κ) (v : β)
    (h : dget d k' ≠ none) : dget (dset d k v) k' ≠ none := by
  rw [dget_dset]; split <;> simp [h]

theorem dget_dset_self {κ β : Type} [DecidableEq κ] (d : List (κ × β)) (k : κ) (v : β) :
    dget (dset d k v) k ≠ none := by
  rw [dget_dset]; simp

theorem sub_addMsg (c : Client) (p : String) (b : Bytes) : Sub c (addMsg c p b) := by
  rcases c with ⟨side, boss, send, ⟨st, mb, mood, pend, proc⟩, order, recv, obs, log⟩
  cases st <;> simp only [addMsg] <;> (try exact Sub.refl _)
  all_goals
    refine ⟨rfl, rfl, rfl, rfl, rfl, rfl, rfl, ?_, fun _ h => h, fun h => h, fun h => h, ?_, ?_⟩
  all_goals first
    | (intro _ q hq
       rcases hq with hq | hq
       · exact Or.inl hq
       · exact Or.inr (dget_dset_ne_none _ _ _ _ hq))
    | (intro x hx; first | exact hx | exact List.mem_append_left _ hx)
    | (intro h hst; exact Mailbox.State.noConfusion hst)
    | skip
  · -- S2B: the new entry is written at once
    intro h _ e he
    show Ev.txAdd e.1 e.2 ∈ afterOpen (log ++ [Ev.txAdd p b])
    rw [afterOpen_append _ _ (by intro x hx; simp at hx; subst hx; intro h; cases h)]
    rcases mem_dset _ _ _ _ he with he | he
    · subst he; simp
    · exact List.mem_append_left _ (h rfl e he)


theorem sub_addAll (c : Client) (effs : List SEff) : Sub c (addAll c effs) := by
  induction effs generalizing c with
  | nil => exact Sub.refl c
  | cons e r ih => exact (sub_addMsg c e.1 e.2).trans (ih _)

theorem addMsg_mst (c : Client) (p : String) (b : Bytes) : (addMsg c p b).mbox.st = c.mbox.st := (sub_addMsg c p b).mst
theorem addMsg_send (c : Client) (p : String) (b : Bytes) : (addMsg c p b).send = c.send := by
  unfold addMsg; split <;> rfl
theorem addMsg_boss (c : Client) (p : String) (b : Bytes) : (addMsg c p b).boss = c.boss := by
  unfold addMsg; split <;> rfl
theorem addMsg_pk (c : Client) (p : String) (b : Bytes) (ho : isOpen c.mbox.st = true) : Pk (addMsg c p b) p := by
  rcases c with ⟨side, boss, send, ⟨st, mb, mood, pend, proc⟩, order, recv, obs, log⟩
  cases st <;> simp [isOpen] at ho <;> simp only [addMsg, Pk] <;> exact dget_dset_self _ _ _

theorem addAll_send (c : Client) (effs : List SEff) : (addAll c effs).send = c.send := by
  induction effs generalizing c with
  | nil => rfl
  | cons e r ih => simp only [addAll]; rw [ih, addMsg_send]
theorem addAll_boss (c : Client) (effs : List SEff) : (addAll c effs).boss = c.boss := by
  induction effs generalizing c with
  | nil => rfl
  | cons e r ih => simp only [addAll]; rw [ih, addMsg_boss]

theorem addMsg_pk_mono (c : Client) (p : String) (b : Bytes) (q : String) (h : Pk c q) : Pk (addMsg c p b) q := by
  rcases c with ⟨side, boss, send, ⟨st, mb, mood, pend, proc⟩, order, recv, obs, log⟩
  cases st <;> simp only [addMsg, Pk] <;> first | exact h | exact dget_dset_ne_none _ _ _ _ h

theorem addAll_pk_mono (c : Client) (effs : List SEff) (q : String) (h : Pk c q) : Pk (addAll c effs) q := by
  induction effs generalizing c with
  | nil => exact h
  | cons e r ih => exact ih _ (addMsg_pk_mono c e.1 e.2 q h)

theorem addAll_pk (c : Client) (effs : List SEff) (ho : isOpen c.mbox.st = true) :
    ∀ e ∈ effs, Pk (addAll c effs) e.1 := by
  induction effs generalizing c with
  | nil => intro e he; cases he
  | cons x r ih =>
    intro e he
    simp only [addAll]
    have ho' : isOpen (addMsg c x.1 x.2).mbox.st = true := by rw [addMsg_mst]; exact ho
    rcases List.mem_cons.mp he with he | he
    · subst he
      exact addAll_pk_mono _ r _ (addMsg_pk c e.1 e.2 ho)
    · exact ih _ ho' e he

theorem sub_queue (c : Client) (x : String × Bytes) :
    Sub c { c with send := { c.send with queue := c.send.queue ++ [x] } } := by
  refine ⟨rfl, rfl, rfl, rfl, rfl, rfl, rfl, ?_, fun _ h => h, fun h => h, fun h => h, fun _ h => h, fun h => h⟩
  intro _ q hq
  rcases hq with ⟨pt, hq⟩ | hq
  · exact Or.inl ⟨pt, List.mem_append_left _ hq⟩
  · exact Or.inr hq

theorem sub_sendMsg (C : Crypto) (c : Client) (ph : String) (pt : Bytes) : Sub c (sendMsg C c ph pt).1 := by
  unfold sendMsg
  split
  · exact sub_queue c _
  · split
    · exact sub_addMsg c _ _
    · exact Sub.refl c

/-- `Send.got_verified_key` in `S0_no_key`: the whole queue goes to the Mailbox, in order -/
theorem sub_verifiedKey (C : Crypto) (c : Client) (h : c.send.st = .S0_no_key) :
    (verifiedKey C c).2 = none ∧ Sub c (verifiedKey C c).1 ∧ (verifiedKey C c).1.boss = c.boss ∧
      (verifiedKey C c).1.send = { st := .S1_verified_key, key := true, queue := [] } := by
  unfold verifiedKey
  rw [h]
  simp only []
  refine ⟨trivial, ?_, by rw [addAll_boss], by rw [addAll_send]⟩
  have h0 := sub_addAll { c with send := { st := .S1_verified_key, key := true, queue := [] } } (sealAll C c.side c.send.queue)
  refine ⟨h0.side, h0.order, h0.recv, h0.mst, h0.mbk, h0.proc, h0.ntx, ?_, h0.arr, h0.bdead, h0.clean, h0.log, h0.plog⟩
  intro ho q hq
  right
  rcases hq with ⟨pt, hq⟩ | hq
  · have := addAll_pk { c with send := { st := .S1_verified_key, key := true, queue := [] } }
      (sealAll C c.side c.send.queue) ho (q, C.enc c.side q pt)
      (by unfold sealAll; exact List.mem_map.mpr ⟨(q, pt), hq, rfl⟩)
    exact this
  · exact addAll_pk_mono _ _ _ hq


/-! ## Boss -/

def nosend : BEff → Bool
  | .sSend _ _ => false
  | _ => true

theorem sub_emit (c : Client) (ev : Ev) (hev : ev ≠ .txOpen) : Sub c (c.emit ev) :=
  ⟨rfl, rfl, rfl, rfl, rfl, rfl, rfl, fun _ _ h => h, fun _ h => h, fun h => h, fun h => h,
   fun x h => List.mem_append_left _ h,
   fun h hst e he => by
     show Ev.txAdd e.1 e.2 ∈ afterOpen (c.log ++ [ev])
     rw [afterOpen_append _ _ (by intro x hx; simp at hx; subst hx; exact hev)]
     exact List.mem_append_left _ (h hst e he)⟩

theorem sub_obs (c : Client) (o : Obs) : Sub c { c with obs := o } :=
  ⟨rfl, rfl, rfl, rfl, rfl, rfl, rfl, fun _ _ h => h, fun _ h => h, fun h => h, fun h => h, fun _ h => h, fun h => h⟩

theorem bEff_nosend (C : Crypto) (c : Client) (e : BEff) (h : nosend e = true) :
    (bEff C c e).2 = none ∧ Sub c (bEff C c e).1 ∧ (bEff C c e).1.boss = c.boss ∧ (bEff C c e).1.send = c.send := by
  cases e <;> simp [nosend] at h <;>
    first
    | exact ⟨rfl, sub_emit c _ (by intro h; cases h), rfl, rfl⟩
    | exact ⟨rfl, (sub_emit c _ (by intro h; cases h)).trans (sub_obs _ _), rfl, rfl⟩

theorem runEffs_nosend (C : Crypto) (effs : List BEff) (c : Client) (h : ∀ e ∈ effs, nosend e = true) :
    (runEffs (bEff C) c effs).2 = none ∧ Sub c (runEffs (bEff C) c effs).1 ∧
      (runEffs (bEff C) c effs).1.boss = c.boss ∧ (runEffs (bEff C) c effs).1.send = c.send := by
  induction effs generalizing c with
  | nil => exact ⟨rfl, Sub.refl c, rfl, rfl⟩
  | cons e r ih =>
    have h1 := bEff_nosend C c e (h e (by simp))
    unfold runEffs
    rcases hres : bEff C c e with ⟨c', err⟩
    rw [hres] at h1
    simp only at h1
    obtain ⟨he, hs, hb, hsd⟩ := h1
    subst he
    simp only []
    have h2 := ih c' (fun e he => h e (by simp [he]))
    exact ⟨h2.1, hs.trans h2.2.1, h2.2.2.1.trans hb, h2.2.2.2.trans hsd⟩

/-- replacing the Boss by one that differs only in its control state -/
theorem sub_bossSt (c : Client) (st' : Boss.State) (h : bossLive c.boss.st = false → bossLive st' = false) :
    Sub c { c with boss := { c.boss with st := st' } } :=
  ⟨rfl, rfl, rfl, rfl, rfl, rfl, rfl, fun _ _ h => h, fun _ h => h, h, fun h => h, fun _ h => h, fun h => h⟩

theorem bossOut_ctl (o : Boss.Output) (a : CtlArg) (b : BossD) :
    (bossOut o a.toB b).1 = b ∧ ∀ e ∈ (bossOut o a.toB b).2.1, nosend e = true := by
  cases o <;> cases a <;> simp [bossOut, CtlArg.toB, nosend]

theorem bossOuts_ctl (os : List Boss.Output) (a : CtlArg) (b : BossD) (acc : List BEff)
    (hacc : ∀ e ∈ acc, nosend e = true) :
    (bossOuts os a.toB b acc).1 = b ∧ ∀ e ∈ (bossOuts os a.toB b acc).2.1, nosend e = true := by
  induction os generalizing acc with
  | nil => exact ⟨rfl, hacc⟩
  | cons o os ih =>
    unfold bossOuts
    have h := bossOut_ctl o a b
    rcases hres : bossOut o a.toB b with ⟨b', effs, err⟩
    rw [hres] at h
    simp only at h
    obtain ⟨hb, he⟩ := h
    subst hb
    have hacc' : ∀ e ∈ acc ++ effs, nosend e = true := by
      intro e hm
      rcases List.mem_append.mp hm with hm | hm
      · exact hacc e hm
      · exact he e hm
    cases err with
    | none => exact ih _ hacc'
    | some x => exact ⟨rfl, hacc'⟩

/-- the control state after a Boss input -/
def bossNext (st : Boss.State) (i : Boss.Input) : Boss.State :=
  match Boss.table st i with
  | some x => x.1
  | none => st

theorem bossLive_absorbing (st : Boss.State) (i : Boss.Input) (h : bossLive st = false) : bossLive (bossNext st i) = false := by
  cases st <;> simp [bossLive] at h <;> cases i <;> simp [bossNext, Boss.table, bossLive]

/-- any Boss input that carries no plaintext: only the control state moves, events are emitted -/
theorem cBoss_ctl_sub (C : Crypto) (c : Client) (i : Boss.Input) (a : CtlArg) :
    Sub c (cBoss C c i a.toB).1 ∧ (cBoss C c i a.toB).1.send = c.send ∧
      (cBoss C c i a.toB).1.boss = { c.boss with st := bossNext c.boss.st i } := by
  unfold cBoss bossStep bossNext
  cases ht : Boss.table c.boss.st i with
  | none =>
    simp [cBossRes, runEffs]
    exact Sub.refl c
  | some x =>
    obtain ⟨st', outs⟩ := x
    simp only []
    have h := bossOuts_ctl outs a { c.boss with st := st' } [] (by simp)
    rcases hres : bossOuts outs a.toB { c.boss with st := st' } [] with ⟨b', effs, err⟩
    rw [hres] at h
    simp only at h
    obtain ⟨hb, he⟩ := h
    subst hb
    simp only [cBossRes, thenErr_fst]
    have hr := runEffs_nosend C effs { c with boss := { c.boss with st := st' } } he
    refine ⟨?_, hr.2.2.2, hr.2.2.1⟩
    refine (sub_bossSt c st' ?_).trans hr.2.1
    intro hd
    have := bossLive_absorbing c.boss.st i hd
    simpa [bossNext, ht] using this


theorem cBossRes_nosend (C : Crypto) (c : Client) (b' : BossD) (effs : List BEff) (err : Option Err)
    (h : ∀ e ∈ effs, nosend e = true) :
    (cBossRes C c (b', effs, err)).2 = err ∧ Sub { c with boss := b' } (cBossRes C c (b', effs, err)).1 ∧
      (cBossRes C c (b', effs, err)).1.boss = b' ∧ (cBossRes C c (b', effs, err)).1.send = c.send := by
  have hr := runEffs_nosend C effs { c with boss := b' } h
  simp only [cBossRes]
  rcases hres : runEffs (bEff C) { c with boss := b' } effs with ⟨c', e2⟩
  rw [hres] at hr
  simp only at hr
  obtain ⟨h1, h2, h3, h4⟩ := hr
  subst h1
  exact ⟨rfl, h2, h3, h4⟩

theorem sub_bossRx (c : Client) (rx' : RxBuf) (harr : ∀ i, ArrivedRx c.boss.rx i → ArrivedRx rx' i)
    (hclean : dget rx'.phases rx'.next = none) : Sub c { c with boss := { c.boss with rx := rx' } } :=
  ⟨rfl, rfl, rfl, rfl, rfl, rfl, rfl, fun _ _ h => h, harr, fun h => h, fun _ => hclean, fun _ h => h, fun h => h⟩

theorem sub_bossDrx (c : Client) (rx' : RxBuf) : Sub c { c with boss := { c.boss with drx := rx' } } :=
  ⟨rfl, rfl, rfl, rfl, rfl, rfl, rfl, fun _ _ h => h, fun _ h => h, fun h => h, fun h => h, fun _ h => h, fun h => h⟩

theorem nosend_map_wReceived (ds : List Bytes) : ∀ e ∈ ds.map BEff.wReceived, nosend e = true := by
  intro e he; obtain ⟨d, _, rfl⟩ := List.mem_map.mp he; rfl
theorem nosend_map_dReceived (ds : List Bytes) : ∀ e ∈ ds.map BEff.dReceived, nosend e = true := by
  intro e he; obtain ⟨d, _, rfl⟩ := List.mem_map.mp he; rfl

theorem cBossRes_same (C : Crypto) (c : Client) (effs : List BEff) (h : ∀ e ∈ effs, nosend e = true) :
    (cBossRes C c (c.boss, effs, none)).2 = none ∧ Sub c (cBossRes C c (c.boss, effs, none)).1 ∧
      (cBossRes C c (c.boss, effs, none)).1.send = c.send ∧ (cBossRes C c (c.boss, effs, none)).1.boss = c.boss := by
  have hr := cBossRes_nosend C c c.boss effs none h
  exact ⟨hr.1, hr.2.1, hr.2.2.2, hr.2.2.1⟩

/-- `Boss.got_message(phase, plaintext)` once the Boss is happy (or closing / closed): never raises;
    a numbered phase reaches the reorder buffer -/
theorem cBossGotMessage_spec (C : Crypto) (c : Client) (ph : String) (pt : Bytes)
    (h : c.boss.st = .S2_happy ∨ c.boss.st = .S3_closing ∨ c.boss.st = .S4_closed) :
    (cBossGotMessage C c ph pt).2 = none ∧ Sub c (cBossGotMessage C c ph pt).1 ∧
      (cBossGotMessage C c ph pt).1.send = c.send ∧ (cBossGotMessage C c ph pt).1.boss.st = c.boss.st ∧
      (∀ i, classifyPhase ph = .numeric i → c.boss.st = .S2_happy → Arrived (cBossGotMessage C c ph pt).1 i) := by
  rcases c with ⟨side, ⟨st, ntx, rx, drx⟩, send, mbox, order, recv, obs, log⟩
  simp only at h
  unfold cBossGotMessage bossGotMessage
  cases hc : classifyPhase ph with
  | unknown =>
    simp only []
    exact ⟨by trivial, sub_emit _ _ (by intro h; cases h), by trivial, by trivial, fun i hi => by cases hi⟩
  | version =>
    simp only []
    rcases h with h | h | h <;> subst h <;>
      simp only [bossStep, Boss.table, bossOuts, bossOut, List.nil_append, List.append_nil]
    · have hr := cBossRes_same C ⟨side, ⟨.S2_happy, ntx, rx, drx⟩, send, mbox, order, recv, obs, log⟩
        [BEff.dVersions, BEff.wVersions] (by simp [nosend])
      exact ⟨hr.1, hr.2.1, hr.2.2.1, by rw [hr.2.2.2], fun i hi => by cases hi⟩
    · have hr := cBossRes_same C ⟨side, ⟨.S3_closing, ntx, rx, drx⟩, send, mbox, order, recv, obs, log⟩ [] (by simp)
      exact ⟨hr.1, hr.2.1, hr.2.2.1, by rw [hr.2.2.2], fun i hi => by cases hi⟩
    · have hr := cBossRes_same C ⟨side, ⟨.S4_closed, ntx, rx, drx⟩, send, mbox, order, recv, obs, log⟩ [] (by simp)
      exact ⟨hr.1, hr.2.1, hr.2.2.1, by rw [hr.2.2.2], fun i hi => by cases hi⟩
  | dilate n =>
    simp only []
    rcases h with h | h | h <;> subst h <;>
      simp only [bossStep, Boss.table, bossOuts, bossOut, List.nil_append, List.append_nil]
    · have hr := cBossRes_nosend C ⟨side, ⟨.S2_happy, ntx, rx, drx⟩, send, mbox, order, recv, obs, log⟩
        ⟨.S2_happy, ntx, rx, (wReceived drx n pt).1⟩ ((wReceived drx n pt).2.map .dReceived) none (nosend_map_dReceived _)
      exact ⟨hr.1, (sub_bossDrx _ _).trans hr.2.1, hr.2.2.2, by rw [hr.2.2.1], fun i hi => by cases hi⟩
    · have hr := cBossRes_same C ⟨side, ⟨.S3_closing, ntx, rx, drx⟩, send, mbox, order, recv, obs, log⟩ [] (by simp)
      exact ⟨hr.1, hr.2.1, hr.2.2.1, by rw [hr.2.2.2], fun i hi => by cases hi⟩
    · have hr := cBossRes_same C ⟨side, ⟨.S4_closed, ntx, rx, drx⟩, send, mbox, order, recv, obs, log⟩ [] (by simp)
      exact ⟨hr.1, hr.2.1, hr.2.2.1, by rw [hr.2.2.2], fun i hi => by cases hi⟩
  | numeric n =>
    simp only []
    rcases h with h | h | h <;> subst h <;>
      simp only [bossStep, Boss.table, bossOuts, bossOut, List.nil_append, List.append_nil]
    · have hr := cBossRes_nosend C ⟨side, ⟨.S2_happy, ntx, rx, drx⟩, send, mbox, order, recv, obs, log⟩
        ⟨.S2_happy, ntx, (wReceived rx n pt).1, drx⟩ ((wReceived rx n pt).2.map .wReceived) none (nosend_map_wReceived _)
      refine ⟨hr.1, (sub_bossRx _ _ (fun i hi => wReceived_arr rx n pt i (Or.inl hi)) (wReceived_clean rx n pt)).trans hr.2.1,
        hr.2.2.2, by rw [hr.2.2.1], ?_⟩
      intro i hi _
      injection hi with hi
      subst hi
      apply hr.2.1.arr
      exact wReceived_arr rx n pt n (Or.inr rfl)
    · have hr := cBossRes_same C ⟨side, ⟨.S3_closing, ntx, rx, drx⟩, send, mbox, order, recv, obs, log⟩ [] (by simp)
      exact ⟨hr.1, hr.2.1, hr.2.2.1, by rw [hr.2.2.2], fun i hi h2 => by cases h2⟩
    · have hr := cBossRes_same C ⟨side, ⟨.S4_closed, ntx, rx, drx⟩, send, mbox, order, recv, obs, log⟩ [] (by simp)
      exact ⟨hr.1, hr.2.1, hr.2.2.1, by rw [hr.2.2.2], fun i hi h2 => by cases h2⟩


theorem cBoss_scared_err (C : Crypto) (c : Client) : (cBoss C c .scared CtlArg.none.toB).2 = none := by
  rcases c with ⟨side, ⟨st, ntx, rx, drx⟩, send, mbox, order, recv, obs, log⟩
  cases st <;> simp [cBoss, bossStep, Boss.table, bossOuts, bossOut, cBossRes, runEffs, bEff, thenErr, CtlArg.toB]

theorem cBoss_happy_err (C : Crypto) (c : Client)
    (h : c.boss.st ≠ .S0_empty ∧ c.boss.st ≠ .S2_happy) : (cBoss C c .happy CtlArg.none.toB).2 = none := by
  rcases c with ⟨side, ⟨st, ntx, rx, drx⟩, send, mbox, order, recv, obs, log⟩
  cases st <;> simp at h <;>
    simp [cBoss, bossStep, Boss.table, bossOuts, bossOut, cBossRes, runEffs, bEff, thenErr, CtlArg.toB]

theorem cBoss_verifier_err (C : Crypto) (c : Client)
    (h : c.boss.st ≠ .S0_empty ∧ c.boss.st ≠ .S1_lonely) : (cBoss C c .got_verifier CtlArg.one.toB).2 = none := by
  rcases c with ⟨side, ⟨st, ntx, rx, drx⟩, send, mbox, order, recv, obs, log⟩
  cases st <;> simp at h <;>
    simp [cBoss, bossStep, Boss.table, bossOuts, bossOut, cBossRes, runEffs, bEff, thenErr, CtlArg.toB]

theorem runEffs_cons_ok {ε : Type} (f : Client → ε → CRes) (c c' : Client) (e : ε) (es : List ε)
    (h : f c e = (c', none)) : runEffs f c (e :: es) = runEffs f c' es := by
  simp [runEffs, h]

/-! ## the control invariant of a client in a legal environment -/

structure KInv (c : Client) : Prop where
  r0 : c.recv.st = .S0_unknown_key → c.recv.key = false ∧ c.send.st = .S0_no_key ∧ c.boss.st ≠ .S2_happy
  r1 : c.recv.st = .S1_unverified_key →
        c.recv.key = true ∧ c.send.st = .S0_no_key ∧ c.boss.st ≠ .S0_empty ∧ c.boss.st ≠ .S2_happy
  r2 : c.recv.st = .S2_verified_key →
        c.recv.key = true ∧ c.send.st = .S1_verified_key ∧ c.boss.st ≠ .S0_empty ∧ c.boss.st ≠ .S1_lonely
  sk : c.send.st = .S1_verified_key → c.send.key = true ∧ c.send.queue = []
  o0 : c.order.st = .S0_no_pake → c.recv.st = .S0_unknown_key ∨ c.recv.st = .S1_unverified_key
  o1 : c.order.st = .S1_yes_pake → c.order.queue = []
  m0 : (c.mbox.st = .S0A ∨ c.mbox.st = .S0B ∨ c.mbox.st = .S1A) → c.order.st = .S0_no_pake ∧ c.order.queue = []

/-- what one call of `Receive.got_message` may do to a client -/
structure RSub (c c' : Client) : Prop where
  side : c'.side = c.side
  order : c'.order = c.order
  mst : c'.mbox.st = c.mbox.st
  mbk : c'.mbox.mailbox = c.mbox.mailbox
  proc : c'.mbox.processed = c.mbox.processed
  ntx : c'.boss.nextTx = c.boss.nextTx
  cover : isOpen c.mbox.st = true → ∀ q, Qk c q ∨ Pk c q → Qk c' q ∨ Pk c' q
  arr : ∀ i, Arrived c i → Arrived c' i
  dead : Dead c → Dead c'
  clean : Clean c → Clean c'
  log : ∀ x ∈ c.log, x ∈ c'.log
  plog : PendLogged c → PendLogged c'

theorem RSub.refl (c : Client) : RSub c c :=
  ⟨rfl, rfl, rfl, rfl, rfl, rfl, fun _ _ h => h, fun _ h => h, fun h => h, fun h => h, fun _ h => h, fun h => h⟩

theorem RSub.trans {a b c : Client} (h1 : RSub a b) (h2 : RSub b c) : RSub a c where
  side := h2.side.trans h1.side
  order := h2.order.trans h1.order
  mst := h2.mst.trans h1.mst
  mbk := h2.mbk.trans h1.mbk
  proc := h2.proc.trans h1.proc
  ntx := h2.ntx.trans h1.ntx
  cover := fun ho q hq => h2.cover (h1.mst ▸ ho) q (h1.cover ho q hq)
  arr := fun i h => h2.arr i (h1.arr i h)
  dead := fun h => h2.dead (h1.dead h)
  clean := fun h => h2.clean (h1.clean h)
  log := fun x h => h2.log x (h1.log x h)
  plog := fun h => h2.plog (h1.plog h)

theorem Sub.toR {c c' : Client} (h : Sub c c') : RSub c c' :=
  ⟨h.side, h.order, h.mst, h.mbk, h.proc, h.ntx, h.cover, h.arr,
   fun hd => hd.imp (fun x => by rw [h.recv]; exact x) h.bdead, h.clean, h.log, h.plog⟩

theorem rsub_setRecv (c : Client) (r' : RecvD) (h : c.recv.st = .S3_scared → r'.st = .S3_scared) :
    RSub c { c with recv := r' } :=
  ⟨rfl, rfl, rfl, rfl, rfl, rfl, fun _ _ h => h, fun _ h => h, fun hd => hd.imp h id, fun h => h, fun _ h => h, fun h => h⟩


/-- `Receive.got_message(side, phase, body)` as `Order` calls it -/
def recvMsg (C : Crypto) (c : Client) (s p : String) (b : Bytes) : CRes :=
  cRecvRes C c (recvGotMessage C c.recv s p b)

theorem recvBad_spec (C : Crypto) (c : Client) (hk : KInv c) (ho : c.order.st = .S1_yes_pake) :
    (cRecvRes C c (recvStep c.recv .got_message_bad .bad)).2 = none ∧
      KInv (cRecvRes C c (recvStep c.recv .got_message_bad .bad)).1 ∧
      RSub c (cRecvRes C c (recvStep c.recv .got_message_bad .bad)).1 ∧
      Dead (cRecvRes C c (recvStep c.recv .got_message_bad .bad)).1 := by
  have key : ∀ c1 : Client, c1.recv.st = .S3_scared → c1.send = c.send → c1.order = c.order → c1.mbox.st = c.mbox.st →
      RSub c c1 →
      (cBoss C c1 .scared BArg.none).2 = none ∧ KInv (cBoss C c1 .scared BArg.none).1 ∧
        RSub c (cBoss C c1 .scared BArg.none).1 ∧ Dead (cBoss C c1 .scared BArg.none).1 := by
    intro c1 h1 h2 h3 h4 h5
    have hs := cBoss_ctl_sub C c1 .scared .none
    have he := cBoss_scared_err C c1
    simp only [CtlArg.toB] at hs he
    obtain ⟨hsub, hsend, hboss⟩ := hs
    have hrecv : (cBoss C c1 .scared BArg.none).1.recv.st = .S3_scared := by rw [hsub.recv]; exact h1
    refine ⟨he, ?_, h5.trans hsub.toR, Or.inl hrecv⟩
    refine ⟨?_, ?_, ?_, ?_, ?_, ?_, ?_⟩
    · intro h; rw [hrecv] at h; cases h
    · intro h; rw [hrecv] at h; cases h
    · intro h; rw [hrecv] at h; cases h
    · rw [hsend, h2]; exact hk.sk
    · rw [hsub.order, h3, ho]; intro h; cases h
    · rw [hsub.order, h3]; exact hk.o1
    · rw [hsub.mst, h4, hsub.order, h3]; exact hk.m0
  rcases hc : c with ⟨side, boss, send, mbox, order, ⟨rst, rkey⟩, obs, log⟩
  cases rst <;> simp only [recvStep, Receive.table, recvOuts, recvOut, cRecvRes, List.nil_append, thenErr_none,
      runEffs_single, rEff]
  · have := key ⟨side, boss, send, mbox, order, ⟨.S3_scared, rkey⟩, obs, log⟩ rfl (by rw [hc]) (by rw [hc]) (by rw [hc])
      (by rw [hc]; exact rsub_setRecv _ _ (fun _ => rfl))
    rw [hc] at this; exact this
  · have := key ⟨side, boss, send, mbox, order, ⟨.S3_scared, rkey⟩, obs, log⟩ rfl (by rw [hc]) (by rw [hc]) (by rw [hc])
      (by rw [hc]; exact rsub_setRecv _ _ (fun _ => rfl))
    rw [hc] at this; exact this
  · have := key ⟨side, boss, send, mbox, order, ⟨.S3_scared, rkey⟩, obs, log⟩ rfl (by rw [hc]) (by rw [hc]) (by rw [hc])
      (by rw [hc]; exact rsub_setRecv _ _ (fun _ => rfl))
    rw [hc] at this; exact this
  · -- already scared: ignored
    simp only [runEffs]
    rw [← hc]
    refine ⟨trivial, hk, RSub.refl c, Or.inl (by rw [hc])⟩


theorem runEffs_cons_ok' {ε : Type} (f : Client → ε → CRes) (c : Client) (e : ε) (es : List ε)
    (h : (f c e).2 = none) : runEffs f c (e :: es) = runEffs f (f c e).1 es := by
  rcases hres : f c e with ⟨c', err⟩
  rw [hres] at h
  simp only at h
  subst h
  simp [runEffs, hres]

theorem boss_cases (st : Boss.State) (h0 : st ≠ .S0_empty) (h1 : st ≠ .S1_lonely) :
    st = .S2_happy ∨ st = .S3_closing ∨ st = .S4_closed := by
  cases st <;> simp_all

theorem KInv.transfer {c c' : Client} (hk : KInv c) (hr : c'.recv = c.recv) (hs : c'.send = c.send)
    (hb : c'.boss.st = c.boss.st) (ho : c'.order = c.order) (hm : c'.mbox.st = c.mbox.st) : KInv c' := by
  refine ⟨?_, ?_, ?_, ?_, ?_, ?_, ?_⟩
  · rw [hr, hs, hb]; exact hk.r0
  · rw [hr, hs, hb]; exact hk.r1
  · rw [hr, hs, hb]; exact hk.r2
  · rw [hs]; exact hk.sk
  · rw [hr, ho]; exact hk.o0
  · rw [ho]; exact hk.o1
  · rw [hm, ho]; exact hk.m0

theorem recvGood_spec (C : Crypto) (c : Client) (hk : KInv c) (ho : c.order.st = .S1_yes_pake)
    (hkey : c.recv.key = true) (p : String) (pt : Bytes) :
    (cRecvRes C c (recvStep c.recv .got_message_good (.good p pt))).2 = none ∧
      KInv (cRecvRes C c (recvStep c.recv .got_message_good (.good p pt))).1 ∧
      RSub c (cRecvRes C c (recvStep c.recv .got_message_good (.good p pt))).1 ∧
      (∀ i, classifyPhase p = .numeric i →
        Dead (cRecvRes C c (recvStep c.recv .got_message_good (.good p pt))).1 ∨
        Arrived (cRecvRes C c (recvStep c.recv .got_message_good (.good p pt))).1 i) := by
  -- the last output, `W_got_message`, from a client whose Boss has left S0/S1
  have last : ∀ c4 : Client, KInv c4 → (c4.boss.st ≠ .S0_empty ∧ c4.boss.st ≠ .S1_lonely) →
      (cBossGotMessage C c4 p pt).2 = none ∧ KInv (cBossGotMessage C c4 p pt).1 ∧
        Sub c4 (cBossGotMessage C c4 p pt).1 ∧
        (∀ i, classifyPhase p = .numeric i → Dead (cBossGotMessage C c4 p pt).1 ∨ Arrived (cBossGotMessage C c4 p pt).1 i) := by
    intro c4 hk4 hb
    have hcases := boss_cases c4.boss.st hb.1 hb.2
    obtain ⟨h1, h2, h3, h4, h5⟩ := cBossGotMessage_spec C c4 p pt hcases
    refine ⟨h1, hk4.transfer h2.recv h3 h4 h2.order h2.mst, h2, ?_⟩
    intro i hi
    rcases hcases with hc | hc | hc
    · exact Or.inr (h5 i hi hc)
    · exact Or.inl (Or.inr (by rw [h4, hc]; rfl))
    · exact Or.inl (Or.inr (by rw [h4, hc]; rfl))
  cases hst : c.recv.st with
  | S0_unknown_key => have := (hk.r0 hst).1; rw [hkey] at this; cases this
  | S3_scared =>
    simp only [recvStep, hst, Receive.table, recvOuts, cRecvRes, runEffs, thenErr_none]
    have e : ({ c with recv := { c.recv with st := .S3_scared } } : Client) = c := by
      rcases c with ⟨side, boss, send, mbox, order, ⟨rst, rkey⟩, obs, log⟩; simp only at hst; subst hst; rfl
    rw [e]
    exact ⟨trivial, hk, RSub.refl c, fun i _ => Or.inl (Or.inl hst)⟩
  | S2_verified_key =>
    simp only [recvStep, hst, Receive.table, recvOuts, recvOut, cRecvRes, runEffs_single, thenErr_none, List.nil_append, rEff]
    have e : ({ c with recv := { c.recv with st := .S2_verified_key } } : Client) = c := by
      rcases c with ⟨side, boss, send, mbox, order, ⟨rst, rkey⟩, obs, log⟩; simp only at hst; subst hst; rfl
    rw [e]
    obtain ⟨h1, h2, h3, h4⟩ := last c hk ⟨(hk.r2 hst).2.2.1, (hk.r2 hst).2.2.2⟩
    exact ⟨h1, h2, h3.toR, h4⟩
  | S1_unverified_key =>
    obtain ⟨_, hsend, hb0, hb2⟩ := hk.r1 hst
    simp only [recvStep, hst, Receive.table, recvOuts, recvOut, hkey, if_true, cRecvRes, thenErr_none, List.nil_append,
      List.cons_append]
    -- c1: the state is set first
    generalize hc1 : (⟨c.side, c.boss, c.send, c.mbox, c.order, ⟨.S2_verified_key, true⟩, c.obs, c.log⟩ : Client) = c1
    have r1 : RSub c c1 := by rw [← hc1]; exact rsub_setRecv c _ (fun h => by rw [hst] at h; cases h)
    have c1recv : c1.recv = ⟨.S2_verified_key, true⟩ := by rw [← hc1]
    have c1send : c1.send = c.send := by rw [← hc1]
    have c1boss : c1.boss = c.boss := by rw [← hc1]
    have c1order : c1.order = c.order := by rw [← hc1]
    have c1mst : c1.mbox.st = c.mbox.st := by rw [← hc1]
    -- 1. S.got_verified_key
    have s1 := sub_verifiedKey C c1 (by rw [c1send]; exact hsend)
    have e1 : rEff C c1 .sGotVerifiedKey = verifiedKey C c1 := by simp only [rEff]; exact cSend_verified C c1
    rw [runEffs_cons_ok' (rEff C) c1 _ _ (by rw [e1]; exact s1.1), e1]
    generalize hc2 : (verifiedKey C c1).1 = c2 at s1
    obtain ⟨_, s1sub, s1boss, s1send⟩ := s1
    -- 2. B.happy
    have hb2' : c2.boss.st ≠ .S0_empty ∧ c2.boss.st ≠ .S2_happy := by rw [s1boss, c1boss]; exact ⟨hb0, hb2⟩
    have s2 := cBoss_ctl_sub C c2 .happy .none
    have e2 := cBoss_happy_err C c2 hb2'
    simp only [CtlArg.toB] at s2 e2
    rw [runEffs_cons_ok' (rEff C) c2 _ _ (by simp only [rEff]; exact e2)]
    simp only [rEff]
    generalize hc3 : (cBoss C c2 .happy BArg.none).1 = c3 at s2
    obtain ⟨s2sub, s2send, s2boss⟩ := s2
    have hb3 : c3.boss.st ≠ .S0_empty ∧ c3.boss.st ≠ .S1_lonely := by
      rw [s2boss]; simp only
      generalize c2.boss.st = st at hb2'
      cases st <;> simp_all [bossNext, Boss.table]
    -- 3. B.got_verifier
    have s3 := cBoss_ctl_sub C c3 .got_verifier .one
    have e3 := cBoss_verifier_err C c3 hb3
    simp only [CtlArg.toB] at s3 e3
    rw [runEffs_cons_ok' (rEff C) c3 _ _ (by simp only [rEff]; exact e3)]
    simp only [rEff]
    generalize hc4 : (cBoss C c3 .got_verifier BArg.one).1 = c4 at s3
    obtain ⟨s3sub, s3send, s3boss⟩ := s3
    have hb4 : c4.boss.st ≠ .S0_empty ∧ c4.boss.st ≠ .S1_lonely := by
      rw [s3boss]; simp only
      generalize c3.boss.st = st at hb3
      cases st <;> simp_all [bossNext, Boss.table]
    -- the invariant before the last call
    have hk4 : KInv c4 := by
      have hrecv : c4.recv = ⟨.S2_verified_key, true⟩ := by rw [s3sub.recv, s2sub.recv, s1sub.recv, c1recv]
      have hsend4 : c4.send = ⟨.S1_verified_key, true, []⟩ := by rw [s3send, s2send, s1send]
      have horder : c4.order = c.order := by rw [s3sub.order, s2sub.order, s1sub.order, c1order]
      have hmst : c4.mbox.st = c.mbox.st := by rw [s3sub.mst, s2sub.mst, s1sub.mst, c1mst]
      refine ⟨?_, ?_, ?_, ?_, ?_, ?_, ?_⟩
      · intro h; rw [hrecv] at h; cases h
      · intro h; rw [hrecv] at h; cases h
      · intro _; rw [hrecv, hsend4]; exact ⟨rfl, rfl, hb4.1, hb4.2⟩
      · intro _; rw [hsend4]; exact ⟨rfl, rfl⟩
      · intro h; rw [horder, ho] at h; cases h
      · rw [horder]; exact hk.o1
      · rw [hmst, horder]; exact hk.m0
    -- 4. B.got_message
    rw [runEffs_single]
    simp only [rEff]
    obtain ⟨h1, h2, h3, h4⟩ := last c4 hk4 hb4
    exact ⟨h1, h2, r1.trans (s1sub.toR.trans (s2sub.toR.trans (s3sub.toR.trans h3.toR))), h4⟩


theorem recvMsg_spec (C : Crypto) (hC : C.Ideal) (c : Client) (hk : KInv c) (ho : c.order.st = .S1_yes_pake)
    (s p : String) (b : Bytes) :
    (recvMsg C c s p b).2 = none ∧ KInv (recvMsg C c s p b).1 ∧ RSub c (recvMsg C c s p b).1 ∧
      (∀ i pt, p = showPhase i → b = C.enc s p pt → Dead (recvMsg C c s p b).1 ∨ Arrived (recvMsg C c s p b).1 i) := by
  unfold recvMsg recvGotMessage
  by_cases hkey : c.recv.key = true
  · simp only [hkey, Bool.not_true, Bool.false_eq_true, if_false]
    cases hd : C.dec s p b with
    | none =>
      simp only []
      obtain ⟨h1, h2, h3, h4⟩ := recvBad_spec C c hk ho
      exact ⟨h1, h2, h3, fun _ _ _ _ => Or.inl h4⟩
    | some pt =>
      simp only []
      obtain ⟨h1, h2, h3, h4⟩ := recvGood_spec C c hk ho hkey p pt
      refine ⟨h1, h2, h3, ?_⟩
      intro i pt' hp _
      exact h4 i (by rw [hp]; exact classify_showPhase i)
  · have hkey' : c.recv.key = false := by cases h : c.recv.key <;> simp_all
    simp only [hkey', Bool.not_false, if_true]
    obtain ⟨h1, h2, h3, h4⟩ := recvBad_spec C c hk ho
    exact ⟨h1, h2, h3, fun _ _ _ _ => Or.inl h4⟩

/-! ## Order and the accounting of accepted phases -/

/-- phase `p` waits in `Order._queue` -/
def InQ (c : Client) (p : String) : Prop := ∃ e ∈ c.order.queue, e.2.1 = p

/-- every numbered phase the Mailbox has accepted is in flight (`X`), waits in Order's queue, or has reached the
    Boss's reorder buffer — unless the client can no longer deliver at all -/
def Good (c : Client) (X : List String) : Prop :=
  Dead c ∨ ∀ i, showPhase i ∈ c.mbox.processed → showPhase i ∈ X ∨ InQ c (showPhase i) ∨ Arrived c i

/-- nothing the Mailbox accepted was lost inside the client -/
def Lossless (c : Client) : Prop := Good c []

theorem msgok_numeric (C : Crypto) (ps : String) (peer : List Bytes) (e : String × String × Bytes)
    (h : MsgOK C ps peer e) (i : Nat) (hp : e.2.1 = showPhase i) : ∃ pt, e.2.2 = C.enc e.1 e.2.1 pt := by
  obtain ⟨hs, htx⟩ := h
  rcases htx with htx | ⟨j, pt, e1, e2, e3⟩
  · exact absurd (by rw [hp]; exact classify_showPhase i) (htx i)
  · exact ⟨pt, by rw [hs]; exact e3⟩

theorem drain_spec (C : Crypto) (hC : C.Ideal) (ps : String) (peer : List Bytes)
    (msgs : List (String × String × Bytes)) (hm : ∀ e ∈ msgs, MsgOK C ps peer e)
    (c : Client) (hk : KInv c) (ho : c.order.st = .S1_yes_pake) (X : List String) :
    (runEffs (oEff C) c (msgs.map (fun m => OEff.rGotMessage m.1 m.2.1 m.2.2))).2 = none ∧
      KInv (runEffs (oEff C) c (msgs.map (fun m => OEff.rGotMessage m.1 m.2.1 m.2.2))).1 ∧
      RSub c (runEffs (oEff C) c (msgs.map (fun m => OEff.rGotMessage m.1 m.2.1 m.2.2))).1 ∧
      (Good c (msgs.map (·.2.1) ++ X) →
        Good (runEffs (oEff C) c (msgs.map (fun m => OEff.rGotMessage m.1 m.2.1 m.2.2))).1 X) := by
  induction msgs generalizing c with
  | nil => exact ⟨rfl, hk, RSub.refl c, fun h => by simpa [runEffs] using h⟩
  | cons m r ih =>
    obtain ⟨h1, h2, h3, h4⟩ := recvMsg_spec C hC c hk ho m.1 m.2.1 m.2.2
    simp only [List.map_cons]
    rw [runEffs_cons_ok' (oEff C) c _ _ (by simp only [oEff]; exact h1)]
    simp only [oEff]
    change (runEffs (oEff C) (recvMsg C c m.1 m.2.1 m.2.2).1 _).2 = none ∧ _
    have ho' : (recvMsg C c m.1 m.2.1 m.2.2).1.order.st = .S1_yes_pake := by rw [h3.order]; exact ho
    obtain ⟨g1, g2, g3, g4⟩ := ih (fun e he => hm e (by simp [he])) _ h2 ho'
    refine ⟨g1, g2, h3.trans g3, ?_⟩
    intro hg
    apply g4
    rcases hg with hd | hg
    · exact Or.inl (h3.dead hd)
    · by_cases hdead : Dead (recvMsg C c m.1 m.2.1 m.2.2).1
      · exact Or.inl hdead
      · right
        intro i hi
        rw [h3.proc] at hi
        rcases hg i hi with hx | hx | hx
        · simp only [List.cons_append, List.mem_cons] at hx
          rcases hx with hx | hx
          · obtain ⟨pt, hb⟩ := msgok_numeric C ps peer m (hm m (by simp)) i hx.symm
            rcases h4 i pt hx.symm hb with hd | ha
            · exact absurd hd hdead
            · exact Or.inr (Or.inr ha)
          · exact Or.inl hx
        · right; left
          obtain ⟨e, he, hp⟩ := hx
          exact ⟨e, by rw [h3.order]; exact he, hp⟩
        · exact Or.inr (Or.inr (h3.arr i hx))


theorem showPhase_ne_pake (i : Nat) : showPhase i ≠ "pake" := by
  intro h
  have := classify_showPhase i
  rw [h] at this
  have h2 : classifyPhase "pake" = .unknown := by decide
  rw [h2] at this; cases this

/-- what the delivery of one message of the peer may do to a client -/
structure DSub (c c' : Client) : Prop where
  side : c'.side = c.side
  mst : c'.mbox.st = c.mbox.st
  mbk : c'.mbox.mailbox = c.mbox.mailbox
  proc : ∀ p ∈ c.mbox.processed, p ∈ c'.mbox.processed
  ntx : c'.boss.nextTx = c.boss.nextTx
  cover : isOpen c.mbox.st = true → ∀ q, Qk c q ∨ Pk c q → Qk c' q ∨ Pk c' q
  arr : ∀ i, Arrived c i → Arrived c' i
  dead : Dead c → Dead c'
  clean : Clean c → Clean c'
  log : ∀ x ∈ c.log, x ∈ c'.log
  plog : PendLogged c → PendLogged c'

theorem DSub.refl (c : Client) : DSub c c :=
  ⟨rfl, rfl, rfl, fun _ h => h, rfl, fun _ _ h => h, fun _ h => h, fun h => h, fun h => h, fun _ h => h, fun h => h⟩

theorem DSub.trans {a b c : Client} (h1 : DSub a b) (h2 : DSub b c) : DSub a c where
  side := h2.side.trans h1.side
  mst := h2.mst.trans h1.mst
  mbk := h2.mbk.trans h1.mbk
  proc := fun p h => h2.proc p (h1.proc p h)
  ntx := h2.ntx.trans h1.ntx
  cover := fun ho q hq => h2.cover (h1.mst ▸ ho) q (h1.cover ho q hq)
  arr := fun i h => h2.arr i (h1.arr i h)
  dead := fun h => h2.dead (h1.dead h)
  clean := fun h => h2.clean (h1.clean h)
  log := fun x h => h2.log x (h1.log x h)
  plog := fun h => h2.plog (h1.plog h)

theorem RSub.toD {c c' : Client} (h : RSub c c') : DSub c c' :=
  ⟨h.side, h.mst, h.mbk, fun p hp => by rw [h.proc]; exact hp, h.ntx, h.cover, h.arr, h.dead, h.clean, h.log, h.plog⟩

theorem dsub_setOrder (c : Client) (o : OrderD) : DSub c { c with order := o } :=
  ⟨rfl, rfl, rfl, fun _ h => h, rfl, fun _ _ h => h, fun _ h => h, fun h => h, fun h => h, fun _ h => h, fun h => h⟩

/-- `Order.got_message(side, phase, body)` for a well-formed message of the peer, while the mailbox is open -/
theorem cOrder_spec (C : Crypto) (hC : C.Ideal) (ps : String) (peer : List Bytes) (c : Client)
    (side p : String) (body : Bytes)
    (hq : ∀ e ∈ c.order.queue, MsgOK C ps peer e) (hm : MsgOK C ps peer (side, p, body))
    (hk : KInv c) (hmst : c.mbox.st = .S2B) (X : List String) :
    KInv (cOrder C c side p body).1 ∧ DSub c (cOrder C c side p body).1 ∧
      (cOrder C c side p body).1.mbox.processed = c.mbox.processed ∧
      (Good c (p :: X) → Good (cOrder C c side p body).1 X) := by
  have hm0 : ¬ (c.mbox.st = .S0A ∨ c.mbox.st = .S0B ∨ c.mbox.st = .S1A) := by rw [hmst]; simp
  unfold cOrder
  cases hst : c.order.st with
  | S0_no_pake =>
    by_cases hp : p = "pake"
    · -- the PAKE message: notify Key, then drain the queue
      subst hp
      simp only [orderStep, hst, if_true, Order.table, orderOuts, orderOut, List.nil_append, List.cons_append]
      generalize hc1 : ({ c with order := { st := .S1_yes_pake, queue := [] } } : Client) = c1
      have k1 : KInv c1 := by
        rw [← hc1]
        refine ⟨hk.r0, hk.r1, hk.r2, hk.sk, ?_, fun _ => rfl, fun h => absurd h hm0⟩
        intro h; cases h
      have e1 : oEff C c1 (.kGotPake body) = (c1.emit (.pake body), none) := rfl
      rw [runEffs_cons_ok (oEff C) c1 _ _ _ e1]
      have k2 : KInv (c1.emit (.pake body)) := k1.transfer rfl rfl rfl rfl rfl
      have ho2 : (c1.emit (.pake body)).order.st = .S1_yes_pake := by rw [← hc1]; rfl
      obtain ⟨g1, g2, g3, g4⟩ := drain_spec C hC ps peer c.order.queue hq (c1.emit (.pake body)) k2 ho2 X
      rcases hres : runEffs (oEff C) (c1.emit (.pake body)) (c.order.queue.map (fun m => OEff.rGotMessage m.1 m.2.1 m.2.2))
        with ⟨c', err⟩
      rw [hres] at g1 g2 g3 g4
      have g1' : err = none := g1
      subst g1'
      simp only [hres]
      have d1 : DSub c (c1.emit (.pake body)) := by
        rw [← hc1]; exact (dsub_setOrder c _).trans (sub_emit _ _ (by intro h; cases h)).toR.toD
      refine ⟨g2, d1.trans g3.toD, ?_, ?_⟩
      · rw [g3.proc, ← hc1]; rfl
      · intro hg
        apply g4
        rcases hg with hd | hg
        · exact Or.inl (d1.dead hd)
        · right
          intro i hi
          have hi' : showPhase i ∈ c.mbox.processed := by rw [← hc1] at hi; exact hi
          rcases hg i hi' with hx | hx | hx
          · rcases List.mem_cons.mp hx with hx | hx
            · exact absurd hx (showPhase_ne_pake i)
            · exact Or.inl (List.mem_append_right _ hx)
          · obtain ⟨e, he, hpe⟩ := hx
            exact Or.inl (List.mem_append_left _ (List.mem_map.mpr ⟨e, he, hpe⟩))
          · exact Or.inr (Or.inr (d1.arr i hx))
    · -- any other message before the PAKE message: queued
      simp only [orderStep, hst, hp, if_false, Order.table, orderOuts, orderOut, List.nil_append, runEffs]
      refine ⟨⟨hk.r0, hk.r1, hk.r2, hk.sk, fun _ => hk.o0 hst, ?_, fun h => absurd h hm0⟩,
        dsub_setOrder c _, by trivial, ?_⟩
      · intro h; cases h
      intro hg
      rcases hg with hd | hg
      · exact Or.inl hd
      · right
        intro i hi
        rcases hg i hi with hx | hx | hx
        · rcases List.mem_cons.mp hx with hx | hx
          · exact Or.inr (Or.inl ⟨(side, p, body), by simp, hx.symm⟩)
          · exact Or.inl hx
        · obtain ⟨e, he, hpe⟩ := hx
          exact Or.inr (Or.inl ⟨e, List.mem_append_left _ he, hpe⟩)
        · exact Or.inr (Or.inr hx)
  | S1_yes_pake =>
    have e : ({ c with order := { c.order with st := .S1_yes_pake } } : Client) = c := by
      rcases c with ⟨sd, boss, send, mbox, ⟨ost, oq⟩, recv, obs, log⟩; simp only at hst; subst hst; rfl
    by_cases hp : p = "pake"
    · -- a second PAKE message: NoTransition, nothing happens
      subst hp
      simp only [orderStep, hst, if_true, Order.table, runEffs]
      have e2 : ({ c with order := c.order } : Client) = c := rfl
      refine ⟨hk, DSub.refl c, by trivial, ?_⟩
      intro hg
      rcases hg with hd | hg
      · exact Or.inl hd
      · right
        intro i hi
        rcases hg i hi with hx | hx | hx
        · rcases List.mem_cons.mp hx with hx | hx
          · exact absurd hx (showPhase_ne_pake i)
          · exact Or.inl hx
        · exact Or.inr (Or.inl hx)
        · exact Or.inr (Or.inr hx)
    · simp only [orderStep, hst, hp, if_false, Order.table, orderOuts, orderOut, List.nil_append]
      rw [e]
      obtain ⟨g1, g2, g3, g4⟩ := drain_spec C hC ps peer [(side, p, body)] (by intro e he; simp at he; subst he; exact hm)
        c hk hst X
      simp only [List.map_cons, List.map_nil] at g1 g2 g3 g4
      rcases hres : runEffs (oEff C) c [OEff.rGotMessage side p body] with ⟨c', err⟩
      rw [hres] at g1 g2 g3 g4
      simp only at g1 g2 g3 g4
      subst g1
      simp only []
      exact ⟨g2, g3.toD, g3.proc, fun hg => g4 (by simpa using hg)⟩


/-! ## Mailbox.rx_message -/

theorem dsub_accept (c : Client) (p : String) :
    DSub c { c with mbox := { c.mbox with processed := c.mbox.processed ++ [p] } } :=
  ⟨rfl, rfl, rfl, fun _ h => List.mem_append_left _ h, rfl, fun _ _ h => h, fun _ h => h, fun h => h, fun h => h,
   fun _ h => h, fun h => h⟩

/-- a message of the peer handed over by the server -/
theorem cMboxRx_theirs_spec (C : Crypto) (hC : C.Ideal) (ps : String) (peer : List Bytes) (c : Client)
    (side p : String) (body : Bytes) (hne : side ≠ c.side)
    (hq : ∀ e ∈ c.order.queue, MsgOK C ps peer e) (hm : MsgOK C ps peer (side, p, body))
    (hk : KInv c) (hl : Lossless c) :
    KInv (cMboxRx C c side p body).1 ∧ DSub c (cMboxRx C c side p body).1 ∧ Lossless (cMboxRx C c side p body).1 ∧
      (c.mbox.st = .S2B → p ∈ (cMboxRx C c side p body).1.mbox.processed) := by
  unfold cMboxRx mboxRx
  simp only [hne, if_false]
  rcases c with ⟨sd, boss, send, ⟨mst, mb, mood, pend, proc⟩, order, recv, obs, log⟩
  cases mst <;>
    simp only [mboxStep, Mailbox.table, mboxOuts, mboxOut, acceptPhase, runEffs, thenErr_none, List.nil_append] <;>
    (try exact ⟨hk, DSub.refl _, hl, fun h => nomatch h⟩)
  -- S2B: N_release_and_accept
  by_cases hp : p ∈ proc
  · simp only [hp, if_true, List.nil_append]
    have e1 : ∀ c1 : Client, mEffRx C c1 .release = (c1.emit .release, none) := fun _ => rfl
    rw [runEffs_single, e1]
    simp only [thenErr_none]
    refine ⟨hk.transfer rfl rfl rfl rfl rfl, (sub_emit _ _ (by intro h; cases h)).toR.toD, ?_, fun _ => hp⟩
    rcases hl with hd | hg
    · exact Or.inl hd
    · exact Or.inr hg
  · simp only [hp, if_false, List.nil_append]
    have e1 : ∀ c1 : Client, mEffRx C c1 .release = (c1.emit .release, none) := fun _ => rfl
    rw [runEffs_cons_ok (mEffRx C) _ _ _ _ (e1 _), runEffs_single]
    simp only [mEffRx, thenErr_none]
    generalize hc2 : (Client.emit ⟨sd, boss, send, ⟨.S2B, mb, mood, pend, proc ++ [p]⟩, order, recv, obs, log⟩ .release) = c2
    have k2 : KInv c2 := by rw [← hc2]; exact hk.transfer rfl rfl rfl rfl rfl
    have d2 : DSub ⟨sd, boss, send, ⟨.S2B, mb, mood, pend, proc⟩, order, recv, obs, log⟩ c2 := by
      rw [← hc2]; exact (dsub_accept _ p).trans (sub_emit _ _ (by intro h; cases h)).toR.toD
    have g2 : Good c2 [p] := by
      rcases hl with hd | hg
      · exact Or.inl (d2.dead hd)
      · right
        intro i hi
        have hi' : showPhase i ∈ proc ++ [p] := by rw [← hc2] at hi; exact hi
        rcases List.mem_append.mp hi' with hi' | hi'
        · rcases hg i hi' with hx | hx | hx
          · cases hx
          · exact Or.inr (Or.inl (by rw [← hc2]; exact hx))
          · exact Or.inr (Or.inr (d2.arr i hx))
        · exact Or.inl hi'
    obtain ⟨f1, f2, f3, f4⟩ := cOrder_spec C hC ps peer c2 side p body (by rw [← hc2]; exact hq) hm k2 (by rw [← hc2]; rfl) []
    refine ⟨f1, d2.trans f2, f4 g2, fun _ => ?_⟩
    rw [f3, ← hc2]
    exact List.mem_append_right _ (by simp)


/-- an echo of one of our own messages: the Mailbox forgets it (S2B), nothing else happens -/
theorem cMboxRx_ours_spec (C : Crypto) (c : Client) (p : String) (body : Bytes) :
    (cMboxRx C c c.side p body).1.side = c.side ∧ (cMboxRx C c c.side p body).1.boss = c.boss ∧
    (cMboxRx C c c.side p body).1.send = c.send ∧ (cMboxRx C c c.side p body).1.order = c.order ∧
    (cMboxRx C c c.side p body).1.recv = c.recv ∧ (cMboxRx C c c.side p body).1.log = c.log ∧
    (cMboxRx C c c.side p body).1.mbox.st = c.mbox.st ∧ (cMboxRx C c c.side p body).1.mbox.mailbox = c.mbox.mailbox ∧
    (cMboxRx C c c.side p body).1.mbox.processed = c.mbox.processed ∧
    (∀ e ∈ (cMboxRx C c c.side p body).1.mbox.pending, e ∈ c.mbox.pending) ∧
    (∀ q, Pk c q → q = p ∨ Pk (cMboxRx C c c.side p body).1 q) := by
  unfold cMboxRx mboxRx
  simp only [if_true]
  rcases c with ⟨sd, boss, send, ⟨mst, mb, mood, pend, proc⟩, order, recv, obs, log⟩
  cases mst <;>
    refine ⟨rfl, rfl, rfl, rfl, rfl, rfl, rfl, rfl, rfl, ?_, ?_⟩ <;>
    (try exact fun _ h => h) <;> (try exact fun _ h => Or.inr h)
  · exact fun e he => mem_dpop _ _ _ he
  · intro q hq
    by_cases hqp : q = p
    · exact Or.inl hqp
    · right
      show dget (dpop pend p) q ≠ none
      rw [dget_dpop, if_neg (fun h => hqp h.symm)]
      exact hq

/-! ## `connected`, `lost`, `got_mailbox`, `rx_closed`, `close(mood)` -/

def mEv : MEff → Ev
  | .txOpen => .txOpen
  | .txAdd p b => .txAdd p b
  | .txClose md => .txClose md
  | .release => .release
  | .mailboxDone => .mdone
  | .toOrder _ _ _ => .release

def noOrder : MEff → Bool
  | .toOrder _ _ _ => false
  | _ => true

theorem runEffs_simple (effs : List MEff) (c : Client) (h : ∀ e ∈ effs, noOrder e = true) :
    runEffs mEffSimple c effs = ({ c with log := c.log ++ effs.map mEv }, none) := by
  induction effs generalizing c with
  | nil => simp [runEffs]
  | cons e r ih =>
    have he := h e (by simp)
    have e1 : mEffSimple c e = (c.emit (mEv e), none) := by cases e <;> first | rfl | simp [noOrder] at he
    rw [runEffs_cons_ok mEffSimple c _ e r e1, ih _ (fun x hx => h x (by simp [hx]))]
    simp [Client.emit]

/-- well-typed calls of the Mailbox inputs that carry no message -/
def mboxArgOK : Mailbox.Input → MCtl → Bool
  | .connected, .none | .lost, .none | .rx_closed, .none | .got_mailbox, .mailbox | .close, .mood _ => true
  | _, _ => false

def early (st : Mailbox.State) : Prop := st = .S0A ∨ st = .S0B ∨ st = .S1A
def knownM (m : MboxD) : Prop := (m.st = .S1A ∨ m.st = .S2A ∨ m.st = .S2B) → m.mailbox = true

theorem mboxStep_ctl (m : MboxD) (i : Mailbox.Input) (a : MCtl) (h : mboxArgOK i a = true) (log : List Ev) :
    (∀ e ∈ (mboxStep m i a.toM).2.1, noOrder e = true) ∧
    (mboxStep m i a.toM).1.pending = m.pending ∧ (mboxStep m i a.toM).1.processed = m.processed ∧
    (isOpen (mboxStep m i a.toM).1.st = true → isOpen m.st = true) ∧
    (early (mboxStep m i a.toM).1.st → early m.st) ∧
    (knownM m → knownM (mboxStep m i a.toM).1) ∧
    (knownM m → (m.st = .S2B → ∀ e ∈ m.pending, Ev.txAdd e.1 e.2 ∈ afterOpen log) →
      ((mboxStep m i a.toM).1.st = .S2B → ∀ e ∈ m.pending,
        Ev.txAdd e.1 e.2 ∈ afterOpen (log ++ (mboxStep m i a.toM).2.1.map mEv))) := by
  obtain ⟨st, mb, mood, pend, proc⟩ := m
  cases i <;> cases a <;> simp [mboxArgOK] at h <;> cases st <;> cases mb <;> cases mood <;>
    simp [mboxStep, Mailbox.table, mboxOuts, mboxOut, MCtl.toM, noOrder, isOpen, early, knownM, drainEffs, mEv] <;>
    (try (refine ⟨by intro a x y _ h; subst h; rfl, fun a b h => ?_⟩
          rw [afterOpen_open, afterOpen_clean _ (by
            intro x hx
            obtain ⟨e, _, rfl⟩ := List.mem_map.mp hx
            intro h; simp [Function.comp, mEv] at h)]
          exact List.mem_map.mpr ⟨(a, b), h, rfl⟩))

end WV.Proofs.C09
