import WV.Model.C06
import WV.Proofs.C06
import WV.Proofs.C06_App
import WV.Proofs.C06_Order

/-! Invariants of whole runs: what was accepted is a prefix of what was sent, whatever arrives and
    whatever the application does (re-entrantly or not); hung up is final; the wire side does not
    depend on the application side. -/
namespace WV.C06
open WV

/-! ## the prefix invariant (any bytes, any interleaving of application calls) -/

/-- what was accepted so far is a prefix of what was sent, and while the connection is alive the
    receive counter equals the number of records accepted -/
def Inv (rs : List Bytes) (c : Conn) : Prop :=
  c.app.surfaced <+: rs ∧ (c.state = .records → c.app.surfaced.length = c.nextReceiveNonce) ∧ ConsInv c.app

theorem prefix_snoc {l rs : List Bytes} {i : Nat} (h : l <+: rs) (hl : l.length = i) (hi : i < rs.length) :
    l ++ [rs[i]] <+: rs := by
  obtain ⟨t, rfl⟩ := h
  subst hl
  cases t with
  | nil => simp at hi
  | cons x t =>
    refine ⟨t, ?_⟩
    simp

theorem loop_inv (E : Env) (rs : List Bytes) (b : Bool) (hcount : rs.length ≤ 256 ^ 24)
    (honly : OnlyHonest E (receiverRecordKey E b) rs) : ∀ (f : Nat) (c : Conn),
    c.isSender = b → c.state = .records → Inv rs c →
    (dataReceivedRECORDS E f c).1.app.surfaced <+: rs ∧ ConsInv (dataReceivedRECORDS E f c).1.app ∧
    ((dataReceivedRECORDS E f c).2 = none →
      (dataReceivedRECORDS E f c).1.app.surfaced.length = (dataReceivedRECORDS E f c).1.nextReceiveNonce) := by
  intro f
  induction f with
  | zero =>
    intro c _ hst hinv
    simp only [dataReceivedRECORDS]
    exact ⟨hinv.1, hinv.2.2, fun _ => hinv.2.1 hst⟩
  | succ f ih =>
    intro c hb hst hinv
    unfold dataReceivedRECORDS
    cases hp : parseFrame c.buf with
    | none => exact ⟨hinv.1, hinv.2.2, fun _ => hinv.2.1 hst⟩
    | some p =>
      obtain ⟨enc, rest⟩ := p
      simp only
      cases hd : decryptRecord E { c with buf := rest } enc with
      | mk c2 res =>
        cases res with
        | error e =>
          obtain ⟨ha, _, _, _⟩ := decryptRecord_error hd
          simp only at ha ⊢
          rw [ha]
          exact ⟨hinv.1, hinv.2.2, fun h => by simp at h⟩
        | ok r =>
          obtain ⟨hc2, hnonce, _, hdec⟩ := decryptRecord_ok hd
          simp only at hc2 hnonce hdec
          rw [hb] at hdec
          obtain ⟨i, hi, hn, hr⟩ := honly _ _ _ hdec
          have hi' : i < 256 ^ 24 := by omega
          rw [hn, beDecode_beFixed_lt hi'] at hnonce
          have hlen : c.app.surfaced.length = i := by rw [hinv.2.1 hst, hnonce]
          obtain ⟨s1, s2⟩ := recordReceived_spec c.app r hinv.2.2
          simp only
          apply ih
          · rw [hc2]; exact hb
          · rw [hc2]; exact hst
          · subst hc2
            refine ⟨?_, ?_, ?_⟩
            · simp only
              rw [s1, hr]
              exact prefix_snoc hinv.1 hlen hi
            · intro _
              simp only
              rw [s1]
              simp [hlen, hnonce]
            · exact s2

theorem emit_lose_surfaced (a : App) : (a.emit [.lose]).surfaced = a.surfaced := by
  simp [App.surfaced, App.delivered, App.emit, List.filterMap_append, Ev.payload]

theorem rx_fields (E : Env) (c : Conn) :
    (rx E c).1.isSender = c.isSender ∧ (rx E c).1.state = c.state ∧
    (rx E c).1.sendNonce = c.sendNonce ∧ (rx E c).1.error = c.error := loop_fields E _ c

theorem dataReceived_isSender (E : Env) (c : Conn) (d : Bytes) : (dataReceived E c d).1.isSender = c.isSender := by
  cases hs : c.state with
  | hungUp => rw [dataReceived_hung E hs d]
  | records =>
    rw [dataReceived_records E hs d]
    have := (rx_fields E { c with buf := c.buf ++ d }).1
    cases hrx : rx E { c with buf := c.buf ++ d } with
    | mk c2 res =>
      rw [hrx] at this
      cases res with
      | none => exact this
      | some e => exact this

theorem rx_inv (E : Env) (rs : List Bytes) (b : Bool) (hcount : rs.length ≤ 256 ^ 24)
    (honly : OnlyHonest E (receiverRecordKey E b) rs) (c : Conn)
    (hb : c.isSender = b) (hs : c.state = .records) (hinv : Inv rs c) :
    (rx E c).1.app.surfaced <+: rs ∧ ConsInv (rx E c).1.app ∧
    ((rx E c).2 = none → (rx E c).1.app.surfaced.length = (rx E c).1.nextReceiveNonce) :=
  loop_inv E rs b hcount honly _ c hb hs hinv

theorem dataReceived_inv (E : Env) (rs : List Bytes) (b : Bool) (hcount : rs.length ≤ 256 ^ 24)
    (honly : OnlyHonest E (receiverRecordKey E b) rs) (c : Conn) (d : Bytes)
    (hb : c.isSender = b) (hinv : Inv rs c) : Inv rs (dataReceived E c d).1 := by
  cases hs : c.state with
  | hungUp =>
    rw [dataReceived_hung E hs d]
    exact ⟨hinv.1, fun h => by simp [hs] at h, hinv.2.2⟩
  | records =>
    rw [dataReceived_records E hs d]
    have hl := rx_inv E rs b hcount honly { c with buf := c.buf ++ d } hb hs ⟨hinv.1, hinv.2.1, hinv.2.2⟩
    cases hrx : rx E { c with buf := c.buf ++ d } with
    | mk c2 res =>
      rw [hrx] at hl
      cases res with
      | none => exact ⟨hl.1, fun _ => hl.2.2 rfl, hl.2.1⟩
      | some e =>
        refine ⟨?_, fun h => by simp [hangUp] at h, ?_⟩
        · simp only [hangUp]; rw [emit_lose_surfaced]; exact hl.1
        · intro h; exact hl.2.1 h

theorem step_isSender (E : Env) (c : Conn) (op : Op) : (step E c op).isSender = c.isSender := by
  cases op <;> simp [step, dataReceived_isSender]

theorem step_inv (E : Env) (rs : List Bytes) (b : Bool) (hcount : rs.length ≤ 256 ^ 24)
    (honly : OnlyHonest E (receiverRecordKey E b) rs) (c : Conn) (op : Op)
    (hb : c.isSender = b) (hinv : Inv rs c) : Inv rs (step E c op) := by
  cases op with
  | data d => exact dataReceived_inv E rs b hcount honly c d hb hinv
  | call acts =>
    obtain ⟨s1, s2⟩ := appCall_spec c.app acts hinv.2.2
    exact ⟨by simp only [step]; rw [s1]; exact hinv.1, by simp only [step]; rw [s1]; exact hinv.2.1, s2⟩
  | lost =>
    obtain ⟨s1, s2, _⟩ := connectionLost_spec c.app hinv.2.2
    exact ⟨by simp only [step]; rw [s1]; exact hinv.1, by simp only [step]; rw [s1]; exact hinv.2.1, s2⟩

theorem run_inv (E : Env) (rs : List Bytes) (b : Bool) (hcount : rs.length ≤ 256 ^ 24)
    (honly : OnlyHonest E (receiverRecordKey E b) rs) : ∀ (ops : List Op) (c : Conn),
    c.isSender = b → Inv rs c → Inv rs (run E c ops) := by
  intro ops
  induction ops with
  | nil => intro c _ h; exact h
  | cons op ops ih =>
    intro c hb h
    exact ih (step E c op) ((step_isSender E c op).trans hb) (step_inv E rs b hcount honly c op hb h)

theorem init_inv (rs : List Bytes) (b : Bool) (left : Bytes) : Inv rs (Conn.init b left) := by
  refine ⟨?_, ?_, ?_⟩
  · simp [Conn.init, App.init, App.surfaced, App.delivered]
  · intro _; simp [Conn.init, App.init, App.surfaced, App.delivered]
  · intro h; simp [Conn.init, App.init] at h

/-! ## hung up is final -/

theorem step_hung (E : Env) (c : Conn) (op : Op) (h : c.state = .hungUp) (hc : ConsInv c.app) :
    (step E c op).state = .hungUp ∧ (step E c op).app.surfaced = c.app.surfaced ∧ ConsInv (step E c op).app ∧
    (step E c op).nextReceiveNonce = c.nextReceiveNonce ∧ (step E c op).error = c.error := by
  cases op with
  | data d =>
    simp only [step]
    rw [dataReceived_hung E h d]
    exact ⟨h, rfl, hc, rfl, rfl⟩
  | call acts =>
    obtain ⟨s1, s2⟩ := appCall_spec c.app acts hc
    exact ⟨h, s1, s2, rfl, rfl⟩
  | lost =>
    obtain ⟨s1, s2, _⟩ := connectionLost_spec c.app hc
    exact ⟨h, s1, s2, rfl, rfl⟩

theorem run_hung (E : Env) : ∀ (ops : List Op) (c : Conn), c.state = .hungUp → ConsInv c.app →
    (run E c ops).state = .hungUp ∧ (run E c ops).app.surfaced = c.app.surfaced ∧
    (run E c ops).nextReceiveNonce = c.nextReceiveNonce ∧ (run E c ops).error = c.error := by
  intro ops
  induction ops with
  | nil => intro c h _; exact ⟨h, rfl, rfl, rfl⟩
  | cons op ops ih =>
    intro c h hc
    obtain ⟨a1, a2, a3, a4, a5⟩ := step_hung E c op h hc
    obtain ⟨b1, b2, b3, b4⟩ := ih (step E c op) a1 a3
    exact ⟨b1, b2.trans a2, b3.trans a4, b4.trans a5⟩


/-! ## the honest stream, in any chunking, into any application state -/

theorem sender_wire_core (E : Env) (b : Bool) (rs : List Bytes) (hcount : rs.length ≤ 256 ^ 24) (hsz : SizesOK rs)
    (hid : IdealFor E.box (senderRecordKey E b) rs) :
    (sendMany E (Conn.init b) rs).2 = none ∧
    (sendMany E (Conn.init b) rs).1.app.wire = wireOf E (senderRecordKey E b) 0 rs ∧
    (sendMany E (Conn.init b) rs).1.sendNonce = rs.length := by
  obtain ⟨h1, h2, h3, _⟩ := sendMany_wire E rs (Conn.init b) (by simpa [Conn.init] using hcount) hsz
    (fun n m => hid.len_enc n m)
  refine ⟨h1, ?_, ?_⟩
  · simpa [Conn.init, App.init, App.wire] using h2
  · simpa [Conn.init] using h3

theorem roundtrip_core (E : Env) (b : Bool) (rs : List Bytes) (hcount : rs.length ≤ 256 ^ 24) (hsz : SizesOK rs)
    (hid : IdealFor E.box (senderRecordKey E b) rs) (app0 : App)
    (cs : List Bytes) (hcs : cs.flatten = (sendMany E (Conn.init b) rs).1.app.wire) :
    feed E { Conn.init (!b) with app := app0 } cs =
      { Conn.init (!b) with nextReceiveNonce := rs.length, app := rs.foldl recordReceived app0 } := by
  have hkey : receiverRecordKey E ({ Conn.init (!b) with app := app0 } : Conn).isSender = senderRecordKey E b := by
    simp [Conn.init, sendKey_eq_peer_recvKey]
  rw [(sender_wire_core E b rs hcount hsz hid).2.1] at hcs
  have hfinal : (rx E { ({ Conn.init (!b) with app := app0 } : Conn) with
        buf := wireOf E (receiverRecordKey E ({ Conn.init (!b) with app := app0 } : Conn).isSender) 0 rs ++ [] }) =
      ({ Conn.init (!b) with nextReceiveNonce := rs.length, app := rs.foldl recordReceived app0 }, none) := by
    rw [rx_honest E [] rs 0 { Conn.init (!b) with app := app0 } rfl (by omega) hsz
      (by intro n m; rw [hkey]; exact hid.len_enc n m)
      (by intro j hj; rw [hkey]; simpa using hid.opens j hj)]
    rw [rx_unfold]
    simp [parseFrame, Conn.init]
  cases cs with
  | nil =>
    have : rs = [] := by
      cases rs with
      | nil => rfl
      | cons r rs =>
        exfalso
        have hl := congrArg List.length hcs
        simp [wireOf, frame, beFixed_length] at hl
        omega
    subst this
    simp [feed, run, Conn.init]
  | cons x cs =>
    simp only [List.flatten_cons] at hcs
    rw [feed_cons_eq, hcs, dataReceived_records E (by rfl)]
    have : ({ ({ Conn.init (!b) with app := app0 } : Conn) with
          buf := ({ Conn.init (!b) with app := app0 } : Conn).buf ++ wireOf E (senderRecordKey E b) 0 rs } : Conn) =
        { ({ Conn.init (!b) with app := app0 } : Conn) with
          buf := wireOf E (receiverRecordKey E ({ Conn.init (!b) with app := app0 } : Conn).isSender) 0 rs ++ [] } := by
      rw [hkey]; simp [Conn.init]
    rw [this, hfinal]

/-! ## the wire side never looks at the application side -/

theorem decryptRecord_setApp (E : Env) (c : Conn) (enc : Bytes) (a' : App) :
    decryptRecord E { c with app := a' } enc =
      ({ (decryptRecord E c enc).1 with app := a' }, (decryptRecord E c enc).2) := by
  simp only [decryptRecord]
  split
  · rfl
  · split <;> rfl

theorem loop_setApp (E : Env) : ∀ (f : Nat) (c : Conn) (a' : App),
    ∃ a'', dataReceivedRECORDS E f { c with app := a' } =
      ({ (dataReceivedRECORDS E f c).1 with app := a'' }, (dataReceivedRECORDS E f c).2) := by
  intro f
  induction f with
  | zero => intro c a'; exact ⟨a', rfl⟩
  | succ f ih =>
    intro c a'
    unfold dataReceivedRECORDS
    cases hp : parseFrame c.buf with
    | none => exact ⟨a', rfl⟩
    | some p =>
      obtain ⟨enc, rest⟩ := p
      simp only
      have hd := decryptRecord_setApp E { c with buf := rest } enc a'
      simp only at hd
      rw [hd]
      cases hr : decryptRecord E { c with buf := rest } enc with
      | mk c2 res =>
        cases res with
        | error e => exact ⟨a', rfl⟩
        | ok r =>
          simp only
          exact ih { c2 with app := recordReceived c2.app r } (recordReceived a' r)

theorem dataReceived_setApp (E : Env) (c : Conn) (d : Bytes) (a' : App) :
    ∃ a'', (dataReceived E { c with app := a' } d).1 = { (dataReceived E c d).1 with app := a'' } := by
  unfold dataReceived
  simp only
  cases hs : c.state with
  | hungUp => exact ⟨a', rfl⟩
  | records =>
    simp only
    obtain ⟨a2, h2⟩ := loop_setApp E ((c.buf ++ d).length + 1) { c with buf := c.buf ++ d } a'
    simp only [hs] at h2
    rw [h2]
    cases hl : dataReceivedRECORDS E ((c.buf ++ d).length + 1)
        { isSender := c.isSender, state := St.records, buf := c.buf ++ d, sendNonce := c.sendNonce,
          nextReceiveNonce := c.nextReceiveNonce, error := c.error, app := c.app } with
    | mk c2 res =>
      cases res with
      | none => exact ⟨a2, rfl⟩
      | some e => exact ⟨a2.emit [.lose], rfl⟩

/-- the bytes of a run, in order -/
def dataOf : List Op → List Bytes
  | [] => []
  | .data d :: ops => d :: dataOf ops
  | _ :: ops => dataOf ops

/-- buffer, counters, state and `_error` after any run are those of feeding its bytes alone: no
    `receive_record`, consumer, callback or loss report changes what the wire side does -/
theorem run_wire (E : Env) : ∀ (ops : List Op) (c : Conn) (a' : App),
    ∃ a'', run E { c with app := a' } ops = { feed E c (dataOf ops) with app := a'' } := by
  intro ops
  induction ops with
  | nil => intro c a'; exact ⟨a', rfl⟩
  | cons op ops ih =>
    intro c a'
    cases op with
    | data d =>
      obtain ⟨a1, h1⟩ := dataReceived_setApp E c d a'
      obtain ⟨a2, h2⟩ := ih (dataReceived E c d).1 a1
      refine ⟨a2, ?_⟩
      show run E (step E { c with app := a' } (.data d)) ops = _
      simp only [step]
      rw [h1, h2]
      rfl
    | call acts =>
      obtain ⟨a2, h2⟩ := ih c (appCall a' acts)
      exact ⟨a2, h2⟩
    | lost =>
      obtain ⟨a2, h2⟩ := ih c (connectionLost a')
      exact ⟨a2, h2⟩

/-- **delivery, exactly.**  The honest stream of `rs` arrives in any chunks, interleaved in any way
    with any application activity (reads, consumers attached mid-stream / detached / re-attached,
    callbacks that re-enter the API, loss reports): afterwards the connection is alive with an empty
    buffer and what reads and consumers obtained, followed by what is still queued, is exactly `rs`. -/
theorem delivery_exact_core (E : Env) (b : Bool) (rs : List Bytes) (hcount : rs.length ≤ 256 ^ 24) (hsz : SizesOK rs)
    (hid : IdealFor E.box (senderRecordKey E b) rs) (ops : List Op)
    (hdata : (dataOf ops).flatten = (sendMany E (Conn.init b) rs).1.app.wire) :
    (run E (Conn.init (!b)) ops).app.surfaced = rs ∧ (run E (Conn.init (!b)) ops).state = .records ∧
    (run E (Conn.init (!b)) ops).buf = [] ∧ (run E (Conn.init (!b)) ops).nextReceiveNonce = rs.length := by
  have hid' : IdealFor E.box (receiverRecordKey E (!b)) rs := by rw [← sendKey_eq_peer_recvKey]; exact hid
  have hinv := run_inv E rs (!b) hcount hid'.onlyHonest ops (Conn.init (!b)) rfl (init_inv rs (!b) [])
  obtain ⟨a2, hw0⟩ := run_wire E ops (Conn.init (!b)) (Conn.init (!b)).app
  have hw : run E (Conn.init (!b)) ops = { feed E (Conn.init (!b)) (dataOf ops) with app := a2 } := hw0
  have hrt := roundtrip_core E b rs hcount hsz hid App.init (dataOf ops) hdata
  have h0 : ({ Conn.init (!b) with app := App.init } : Conn) = Conn.init (!b) := rfl
  rw [h0] at hrt
  rw [hrt] at hw
  have hst : (run E (Conn.init (!b)) ops).state = .records := by rw [hw]; rfl
  have hrn : (run E (Conn.init (!b)) ops).nextReceiveNonce = rs.length := by rw [hw]
  have hbuf : (run E (Conn.init (!b)) ops).buf = [] := by rw [hw]; rfl
  refine ⟨?_, hst, hbuf, hrn⟩
  have hlen := hinv.2.1 hst
  rw [hrn] at hlen
  exact List.IsPrefix.eq_of_length hinv.1 hlen

/-! ## properties of the application side alone survive whatever arrives -/

theorem loop_appInv (E : Env) (P : App → Prop) (hrec : ∀ a r, P a → P (recordReceived a r)) :
    ∀ (f : Nat) (c : Conn), P c.app → P (dataReceivedRECORDS E f c).1.app := by
  intro f
  induction f with
  | zero => intro c h; exact h
  | succ f ih =>
    intro c h
    unfold dataReceivedRECORDS
    cases hp : parseFrame c.buf with
    | none => exact h
    | some p =>
      obtain ⟨enc, rest⟩ := p
      simp only
      have hf := (decryptRecord_fields E { c with buf := rest } enc).2.2.2.2
      cases hd : decryptRecord E { c with buf := rest } enc with
      | mk c2 res =>
        rw [hd] at hf
        simp only at hf
        cases res with
        | error e => simp only; rw [hf]; exact h
        | ok r =>
          simp only
          apply ih
          simp only
          rw [hf]
          exact hrec _ r h

theorem dataReceived_appInv (E : Env) (P : App → Prop) (hrec : ∀ a r, P a → P (recordReceived a r))
    (hemit : ∀ a, P a → P (a.emit [.lose])) (c : Conn) (d : Bytes) (h : P c.app) :
    P (dataReceived E c d).1.app := by
  unfold dataReceived
  simp only
  cases hs : c.state with
  | hungUp => exact h
  | records =>
    simp only
    have hl := loop_appInv E P hrec ((c.buf ++ d).length + 1) { c with buf := c.buf ++ d } h
    simp only [hs] at hl
    cases hr : dataReceivedRECORDS E ((c.buf ++ d).length + 1)
        { isSender := c.isSender, state := St.records, buf := c.buf ++ d, sendNonce := c.sendNonce,
          nextReceiveNonce := c.nextReceiveNonce, error := c.error, app := c.app } with
    | mk c2 res =>
      rw [hr] at hl
      cases res with
      | none => exact hl
      | some e => exact hemit _ hl

theorem run_order (E : Env) : ∀ (ops : List Op) (c : Conn), OrderInv c.app → OrderInv (run E c ops).app := by
  intro ops
  induction ops with
  | nil => intro c h; exact h
  | cons op ops ih =>
    intro c h
    apply ih
    cases op with
    | data d =>
      exact dataReceived_appInv E OrderInv recordReceived_order
        (fun a ha => (sameIds_emit a _ (by simp [Ev.aid])).inv ha) c d h
    | call acts => exact appCall_order c.app acts h
    | lost => exact connectionLost_order c.app h

end WV.C06
