import WV.Model.C01

/-! C01 — a refused code.  `to_bytes(code)` or `to_bytes(appid)` raised inside `build_pake`: `_sp` was
    never assigned, no PAKE message was published.  From then on, *whatever* arrives (the peer's PAKE,
    any other message, sends, close), and whether or not a step ends in an exception, the client holds
    no key, reports nothing and publishes nothing.  All lemmas are generic in the six generated tables
    (they look only at the output bodies), so they survive any change of a transition row. -/
namespace WV.C01
open WV WV.Gen

/-- events that carry a key, something derived from one, something from the peer, or a message to the peer -/
def Ev.shares : Ev → Bool
  | .wKey _ | .wVerifier _ | .wVersions _ | .wReceived _ | .mAdd _ _ => true
  | _ => false

/-- no SPAKE2 instance, no key anywhere, nothing shared so far -/
def NoSp (s : St) : Prop :=
  s.sp = none ∧ s.rkey = none ∧ s.wkey = none ∧ s.skey = none ∧ ∀ e ∈ s.out, e.shares = false

theorem NoSp.emit {s : St} (h : NoSp s) (e : Ev) (he : e.shares = false) :
    NoSp { s with out := s.out ++ [e] } := by
  obtain ⟨a, b, c, d, q⟩ := h
  refine ⟨a, b, c, d, ?_⟩
  intro x hx
  simp only [List.mem_append, List.mem_singleton] at hx
  rcases hx with hx | hx
  · exact q x hx
  · subst hx; exact he

theorem seqM_pres {α : Type} (P : St → Prop) (f : α → St → Res)
    (hf : ∀ a s, P s → P (f a s).1) : ∀ (l : List α) (s : St), P s → P (seqM f l s).1 := by
  intro l
  induction l with
  | nil => intro s h; exact h
  | cons a rest ih =>
    intro s h
    simp only [seqM]
    have := hf a s h
    rcases hfa : f a s with ⟨s1, _ | e⟩
    · rw [hfa] at this; exact ih s1 this
    · rw [hfa] at this; exact this

theorem andThen_pres (P : St → Prop) (r : Res) (f : St → Res) (hr : P r.1) (hf : ∀ s, P s → P (f s).1) :
    P (andThen r f).1 := by
  rcases r with ⟨s, _ | e⟩
  · exact hf s hr
  · exact hr

/-! ### Send -/

theorem encryptAndSend_noSp (C : Crypto) (cfg : Cfg) (ph : String) (pt : Bytes) (s : St) (h : NoSp s) :
    NoSp (encryptAndSend C cfg ph pt s).1 := by
  have hk : s.skey = none := h.2.2.2.1
  simp [encryptAndSend, hk, raise, h]

theorem sendOut_send_noSp (C : Crypto) (cfg : Cfg) (ph : String) (pt : Bytes) (o : Send.Output) (s : St)
    (h : NoSp s) : NoSp (sendOut C cfg (.send ph pt) o s).1 := by
  cases o
  case deliver => exact encryptAndSend_noSp C cfg ph pt s h
  all_goals first
    | (simp only [sendOut, ok, raise]; exact h)
    | (simp only [sendOut, ok, raise]; exact ⟨h.1, h.2.1, h.2.2.1, h.2.2.2.1, h.2.2.2.2⟩)

theorem sendIn_send_noSp (C : Crypto) (cfg : Cfg) (ph : String) (pt : Bytes) (s : St) (h : NoSp s) :
    NoSp (sendIn C cfg (.send ph pt) s).1 := by
  unfold sendIn
  cases Send.table s.s (SIn.send ph pt).tag with
  | none => exact h
  | some r =>
    obtain ⟨st', outs⟩ := r
    exact seqM_pres NoSp _ (fun o s hs => sendOut_send_noSp C cfg ph pt o s hs) outs _
      ⟨h.1, h.2.1, h.2.2.1, h.2.2.2.1, h.2.2.2.2⟩

/-! ### Boss -/

/-- the Boss inputs that do not carry a key or anything decrypted -/
def BIn.plain : BIn → Bool
  | .gotCode _ | .happy | .scared | .send _ | .close | .closed => true
  | _ => false

theorem bossOut_noSp (C : Crypto) (cfg : Cfg) (i : BIn) (hi : i.plain = true) (o : Boss.Output) (s : St)
    (h : NoSp s) : NoSp (bossOut C cfg i o s).1 := by
  cases i <;> simp only [BIn.plain, Bool.false_eq_true] at hi <;> cases o <;>
    first
    | exact h
    | (simp only [bossOut, ok, raise]; exact h)
    | (simp only [bossOut, emit]; exact NoSp.emit h _ rfl)
    | (simp only [bossOut, emit]
       exact NoSp.emit (s := { s with result := _ }) ⟨h.1, h.2.1, h.2.2.1, h.2.2.2.1, h.2.2.2.2⟩ _ rfl)
    | (simp only [bossOut]
       exact sendIn_send_noSp C cfg _ _ _ ⟨h.1, h.2.1, h.2.2.1, h.2.2.2.1, h.2.2.2.2⟩)

theorem bossIn_noSp (C : Crypto) (cfg : Cfg) (i : BIn) (hi : i.plain = true) (s : St) (h : NoSp s) :
    NoSp (bossIn C cfg i s).1 := by
  unfold bossIn
  cases Boss.table s.b i.tag with
  | none => exact h
  | some r =>
    obtain ⟨st', outs⟩ := r
    exact seqM_pres NoSp _ (fun o s hs => bossOut_noSp C cfg i hi o s hs) outs _
      ⟨h.1, h.2.1, h.2.2.1, h.2.2.2.1, h.2.2.2.2⟩

/-! ### Receive: without a key every message is "bad" -/

theorem receiveOut_bad_noSp (C : Crypto) (cfg : Cfg) (o : Receive.Output) (s : St) (h : NoSp s) :
    NoSp (receiveOut C cfg .bad o s).1 := by
  cases o
  case W_scared => exact bossIn_noSp C cfg .scared rfl s h
  all_goals (simp only [receiveOut, raise]; exact h)

theorem receiveIn_bad_noSp (C : Crypto) (cfg : Cfg) (s : St) (h : NoSp s) :
    NoSp (receiveIn C cfg .bad s).1 := by
  unfold receiveIn
  cases Receive.table s.r RIn.bad.tag with
  | none => exact h
  | some r =>
    obtain ⟨st', outs⟩ := r
    exact seqM_pres NoSp _ (fun o s hs => receiveOut_bad_noSp C cfg o s hs) outs _
      ⟨h.1, h.2.1, h.2.2.1, h.2.2.2.1, h.2.2.2.2⟩

theorem receiveGotMessage_noSp (C : Crypto) (cfg : Cfg) (m : Msg) (s : St) (h : NoSp s) :
    NoSp (receiveGotMessage C cfg m s).1 := by
  have hk : s.rkey = none := h.2.1
  simp only [receiveGotMessage, hk]
  exact receiveIn_bad_noSp C cfg s h

/-! ### _SortedKey -/

theorem sortedKeyOut_pake_noSp (C : Crypto) (cfg : Cfg) (i : SKIn) (hi : ∀ c, i ≠ .gotCode c)
    (o : SortedKey.Output) (s : St) (h : NoSp s) : NoSp (sortedKeyOut C cfg i o s).1 := by
  have hsp : s.sp = none := h.1
  cases i with
  | gotCode c => exact absurd rfl (hi c)
  | pakeGood m =>
    cases o
    case compute_key => simp only [sortedKeyOut, hsp, raise]; exact h
    all_goals (simp only [sortedKeyOut, raise]; exact h)
  | pakeBad =>
    cases o
    case scared => exact bossIn_noSp C cfg .scared rfl s h
    all_goals (simp only [sortedKeyOut, raise]; exact h)

/-- `to_bytes` raises for the code or for the appid -/
def Unenc (C : Crypto) (cfg : Cfg) (code : PyStr) : Prop :=
  toBytes C code = none ∨ toBytes C cfg.appid = none

theorem sortedKeyOut_code_noSp (C : Crypto) (cfg : Cfg) (code : PyStr) (hu : Unenc C cfg code)
    (o : SortedKey.Output) (s : St) (h : NoSp s) : NoSp (sortedKeyOut C cfg (.gotCode code) o s).1 := by
  cases o
  case build_pake =>
    simp only [sortedKeyOut]
    rcases hu with hu | hu
    · rw [hu]; exact h
    · rw [hu]; cases toBytes C code <;> exact h
  all_goals (simp only [sortedKeyOut, raise]; exact h)

theorem sortedKeyIn_noSp (C : Crypto) (cfg : Cfg) (i : SKIn)
    (hi : (∀ c, i ≠ .gotCode c) ∨ ∃ c, i = .gotCode c ∧ Unenc C cfg c) (s : St) (h : NoSp s) :
    NoSp (sortedKeyIn C cfg i s).1 := by
  unfold sortedKeyIn
  cases SortedKey.table s.sk i.tag with
  | none => exact h
  | some r =>
    obtain ⟨st', outs⟩ := r
    refine seqM_pres NoSp _ (fun o s hs => ?_) outs _ ⟨h.1, h.2.1, h.2.2.1, h.2.2.2.1, h.2.2.2.2⟩
    rcases hi with hi | ⟨c, rfl, hu⟩
    · exact sortedKeyOut_pake_noSp C cfg i hi o s hs
    · exact sortedKeyOut_code_noSp C cfg c hu o s hs

theorem sortedKeyGotPake_noSp (C : Crypto) (cfg : Cfg) (body : Bytes) (s : St) (h : NoSp s) :
    NoSp (sortedKeyGotPake C cfg body s).1 := by
  unfold sortedKeyGotPake
  cases parsePake body with
  | none => exact sortedKeyIn_noSp C cfg .pakeBad (Or.inl (fun c hc => by cases hc)) s h
  | some m => exact sortedKeyIn_noSp C cfg (.pakeGood m) (Or.inl (fun c hc => by cases hc)) s h

/-! ### Key -/

theorem keyOut_pake_noSp (C : Crypto) (cfg : Cfg) (body : Bytes) (o : Key.Output) (s : St) (h : NoSp s) :
    NoSp (keyOut C cfg (.gotPake body) o s).1 := by
  cases o
  case deliver_pake => exact sortedKeyGotPake_noSp C cfg body s h
  case stash_pake => simp only [keyOut, ok]; exact ⟨h.1, h.2.1, h.2.2.1, h.2.2.2.1, h.2.2.2.2⟩
  all_goals (simp only [keyOut, raise]; exact h)

theorem keyOut_code_noSp (C : Crypto) (cfg : Cfg) (code : PyStr) (hu : Unenc C cfg code) (o : Key.Output)
    (s : St) (h : NoSp s) : NoSp (keyOut C cfg (.gotCode code) o s).1 := by
  have hsk := fun s hs => sortedKeyIn_noSp C cfg (.gotCode code) (Or.inr ⟨code, rfl, hu⟩) s hs
  cases o
  case deliver_code => exact hsk s h
  case deliver_code_and_stashed_pake =>
    simp only [keyOut]
    refine andThen_pres NoSp _ _ (hsk s h) (fun s1 h1 => ?_)
    cases s1.stash with
    | none => exact h1
    | some body => exact sortedKeyGotPake_noSp C cfg body s1 h1
  all_goals (simp only [keyOut, raise]; exact h)

theorem keyIn_noSp (C : Crypto) (cfg : Cfg) (i : KIn)
    (hi : (∃ b, i = .gotPake b) ∨ ∃ c, i = .gotCode c ∧ Unenc C cfg c) (s : St) (h : NoSp s) :
    NoSp (keyIn C cfg i s).1 := by
  unfold keyIn
  cases Key.table s.k i.tag with
  | none => exact h
  | some r =>
    obtain ⟨st', outs⟩ := r
    refine seqM_pres NoSp _ (fun o s hs => ?_) outs _ ⟨h.1, h.2.1, h.2.2.1, h.2.2.2.1, h.2.2.2.2⟩
    rcases hi with ⟨b, rfl⟩ | ⟨c, rfl, hu⟩
    · exact keyOut_pake_noSp C cfg b o s hs
    · exact keyOut_code_noSp C cfg c hu o s hs

/-! ### Order and the boundary -/

theorem orderOut_noSp (C : Crypto) (cfg : Cfg) (m : Msg) (o : Order.Output) (s : St) (h : NoSp s) :
    NoSp (orderOut C cfg m o s).1 := by
  cases o
  case queue => simp only [orderOut, ok]; exact ⟨h.1, h.2.1, h.2.2.1, h.2.2.2.1, h.2.2.2.2⟩
  case notify_key => exact keyIn_noSp C cfg (.gotPake m.body) (Or.inl ⟨_, rfl⟩) s h
  case drain =>
    simp only [orderOut]
    refine andThen_pres NoSp _ _ (seqM_pres NoSp _ (receiveGotMessage_noSp C cfg) s.oq s h) (fun s1 h1 => ?_)
    exact ⟨h1.1, h1.2.1, h1.2.2.1, h1.2.2.2.1, h1.2.2.2.2⟩
  case deliver => exact receiveGotMessage_noSp C cfg m s h

theorem orderGotMessage_noSp (C : Crypto) (cfg : Cfg) (m : Msg) (s : St) (h : NoSp s) :
    NoSp (orderGotMessage C cfg m s).1 := by
  unfold orderGotMessage
  simp only []
  cases Order.table s.o (if m.phase = "pake" then Order.Input.got_pake else Order.Input.got_non_pake) with
  | none => exact h
  | some r =>
    obtain ⟨st', outs⟩ := r
    exact seqM_pres NoSp _ (fun o s hs => orderOut_noSp C cfg m o s hs) outs _
      ⟨h.1, h.2.1, h.2.2.1, h.2.2.2.1, h.2.2.2.2⟩

theorem gotCode_noSp (C : Crypto) (cfg : Cfg) (code : PyStr) (hu : Unenc C cfg code) (s : St) (h : NoSp s) :
    NoSp (gotCode C cfg code s).1 := by
  unfold gotCode
  exact andThen_pres NoSp _ _ (bossIn_noSp C cfg (.gotCode code) rfl s h)
    (fun s1 h1 => keyIn_noSp C cfg (.gotCode code) (Or.inr ⟨code, rfl, hu⟩) s1 h1)

/-- an environment event that does not bring a usable code: anything but `code`, or a `code` that
    `to_bytes` refuses as well -/
def Env.noGoodCode (C : Crypto) (cfg : Cfg) : Env → Prop
  | .code c => Unenc C cfg c
  | _ => True

theorem envStep_noSp (C : Crypto) (cfg : Cfg) (e : Env) (he : e.noGoodCode C cfg) (s : St) (h : NoSp s) :
    NoSp (envStep C cfg e s).1 := by
  cases e with
  | code c => exact gotCode_noSp C cfg c he s h
  | rx m => exact orderGotMessage_noSp C cfg m s h
  | send pt => exact bossIn_noSp C cfg (.send pt) rfl s h
  | close => exact bossIn_noSp C cfg .close rfl s h
  | closed => exact bossIn_noSp C cfg .closed rfl s h

theorem run_noSp (C : Crypto) (cfg : Cfg) (evs : List Env) (he : ∀ e ∈ evs, e.noGoodCode C cfg) (s : St)
    (h : NoSp s) : NoSp (run C cfg evs s).1 := by
  unfold run
  induction evs generalizing s with
  | nil => exact h
  | cons e rest ih =>
    simp only [seqM]
    have h1 := envStep_noSp C cfg e (he e (by simp)) s h
    rcases hes : envStep C cfg e s with ⟨s1, _ | x⟩
    · rw [hes] at h1; exact ih (fun x hx => he x (by simp [hx])) s1 h1
    · rw [hes] at h1; exact h1

theorem init_noSp : NoSp init := by
  simp [NoSp, init]

end WV.C01
