import WV.Proofs.C02_Inv

/-!
`versions` at most once over whole runs.

One token pays for the single `process_version` of a run.  It is, in this order: "`version` is not yet in Mailbox's
`_processed`", then either a `version` frame waiting in Order's queue (only while Order is `S0_no_pake`; after the
drain the queue is dead) or `k` tokens in the hands of the function currently running (the frame is on its way down
to `Boss.process_version`), and finally the `gotVersions` event in what the application was handed.

`TKn k s`:  #gotVersions(app) + [version ∉ processed] + [ord = S0]·#version(oq) + k ≤ 1.
`TK q0 k s`: the same, and Order's queue is (still) `q0`.

Every function below Order keeps `TK q0 k` for every `k`, except the ones that carry a `version` frame / plaintext
downward: those turn `TK q0 (k+1)` into `TK q0 k`.
-/
namespace WV.Proofs.C02
open WV WV.C02 WV.Gen

def isVer : AppEv → Bool
  | .gotVersions _ => true
  | _ => false

def isVerFrame (f : Frame) : Bool := f.phase == "version"

def pend (s : St) : Nat :=
  (if "version" ∈ s.processed then 0 else 1) + (if s.ord = .S0_no_pake then s.oq.countP isVerFrame else 0)

def TKn (k : Nat) (s : St) : Prop := s.app.countP isVer + pend s + k ≤ 1

def TK (q0 : List Frame) (k : Nat) (s : St) : Prop := s.oq = q0 ∧ TKn k s

variable {q0 : List Frame}

theorem TK_le {j k : Nat} {s : St} (hjk : j ≤ k) (h : TK q0 k s) : TK q0 j s := by
  refine ⟨h.1, ?_⟩
  have := h.2
  unfold TKn at *; omega

theorem TK_weaken {k : Nat} {s : St} (h : TK q0 (k + 1) s) : TK q0 k s := TK_le (by omega) h

theorem TK_congr {k : Nat} {s s' : St} (h : TK q0 k s) (h1 : s'.app.countP isVer = s.app.countP isVer)
    (h2 : s'.processed = s.processed) (h3 : s'.ord = s.ord) (h4 : s'.oq = s.oq) : TK q0 k s' := by
  refine ⟨h4 ▸ h.1, ?_⟩
  have := h.2
  unfold TKn pend at *
  rw [h1, h2, h3, h4]
  exact this

theorem TK_app {k : Nat} {s : St} (h : TK q0 k s) (e : AppEv) (he : isVer e = false) :
    TK q0 k { s with app := s.app ++ [e] } := by
  exact TK_congr h (by simp [List.countP_append, he]) rfl rfl rfl

theorem liftLo_TK {k : Nat} (f : Lo → RLo) {s : St} (h : TK q0 k s) : TK q0 k (liftLo f s).1 := by
  unfold liftLo
  split
  exact TK_congr h rfl rfl rfl rfl

theorem liftLo_TK_eq {k : Nat} {f : Lo → RLo} {s s2 : St} {e : Option Err} (heq : liftLo f s = (s2, e))
    (h : TK q0 k s) : TK q0 k s2 := by
  have := liftLo_TK (q0 := q0) (k := k) f h
  rw [heq] at this
  exact this

/-! ## Boss -/

theorem recvLoop_TK {k : Nat} : ∀ (fuel : Nat) {s : St}, TK q0 k s → TK q0 k (recvLoop fuel s)
  | 0, _, h => h
  | fuel + 1, s, h => by
    unfold recvLoop
    split
    · exact h
    · apply recvLoop_TK fuel
      exact TK_congr h (by simp [List.countP_append, isVer]) rfl rfl rfl

theorem dilLoop_TK {k : Nat} : ∀ (fuel : Nat) {s : St}, TK q0 k s → TK q0 k (dilLoop fuel s)
  | 0, _, h => h
  | fuel + 1, s, h => by
    unfold dilLoop
    split
    · exact h
    · apply dilLoop_TK fuel
      exact TK_congr h (by simp [List.countP_append, isVer]) rfl rfl rfl

/-- every Boss output but `process_version` leaves the accounting alone -/
theorem bossOut_TK {C : Crypto} {k : Nat} (cfg : Cfg) (a : BArg) (o : Boss.Output) (ho : o ≠ .process_version)
    {s : St} (h : TK q0 k s) : TK q0 k (bossOut C cfg a o s).1 := by
  unfold bossOut
  split
  · exact TK_app h _ rfl
  · exact absurd rfl ho
  · exact h
  · exact h
  · exact h
  · exact liftLo_TK _ (TK_congr h rfl rfl rfl rfl)
  · exact liftLo_TK _ (TK_congr h rfl rfl rfl rfl)
  · exact liftLo_TK _ (TK_congr h rfl rfl rfl rfl)
  · exact liftLo_TK _ (TK_congr h rfl rfl rfl rfl)
  · exact TK_app h _ rfl
  · exact h
  · exact TK_app h _ rfl
  · exact recvLoop_TK _ (TK_congr h rfl rfl rfl rfl)
  · exact dilLoop_TK _ (TK_congr h rfl rfl rfl rfl)
  · exact TK_congr (TK_app h _ rfl) rfl rfl rfl rfl
  · exact TK_app h _ rfl
  · exact h

/-- `process_version` spends one token -/
theorem bossOut_pv_TK {C : Crypto} {k : Nat} (cfg : Cfg) (a : BArg) {s : St} (h : TK q0 (k + 1) s) :
    TK q0 k (bossOut C cfg a .process_version s).1 := by
  cases a <;> simp only [bossOut] <;> try (exact TK_weaken h)
  split
  · refine ⟨h.1, ?_⟩
    have h2 := h.2
    unfold TKn pend at *
    simp only [List.countP_append, List.countP_cons, List.countP_nil, isVer]
    simp at h2 ⊢
    omega
  · exact TK_weaken h

theorem bossInput_TK {C : Crypto} {k : Nat} (cfg : Cfg) (i : Boss.Input) (a : BArg) (hi : i ≠ .u_got_version)
    {s : St} (h : TK q0 k s) : TK q0 k (bossInput C cfg i a s).1 := by
  unfold bossInput
  split
  · exact h
  · rename_i st' outs heq
    have ht := boss_table_outputs s.boss (boss_state_all _) i (boss_input_all _) st' outs heq
    apply runOuts_inv _ (TK q0 k)
    · intro o ho s1 h1
      apply bossOut_TK cfg a o _ h1
      intro hpv
      subst hpv
      exact hi (ht.1 ho)
    · exact TK_congr h rfl rfl rfl rfl

/-- `Boss._got_version(plaintext)`: at most one `process_version` -/
theorem bossInput_ver_TK {C : Crypto} {k : Nat} (cfg : Cfg) (a : BArg) {s : St} (h : TK q0 (k + 1) s) :
    TK q0 k (bossInput C cfg .u_got_version a s).1 := by
  unfold bossInput
  cases hb : s.boss <;> simp only [Boss.table, runOuts]
  all_goals first
    | exact TK_weaken h
    | exact TK_weaken (TK_congr h rfl rfl rfl rfl)
    | skip
  -- S2_happy: [process_version, send_status_confirmed_key]
  have h1 := bossOut_pv_TK (C := C) (k := k) cfg a (s := { s with boss := .S2_happy }) (TK_congr h rfl rfl rfl rfl)
  split
  · rename_i s' heq
    rw [heq] at h1
    have h2 := bossOut_TK (C := C) cfg a .send_status_confirmed_key (by decide) h1
    split
    · rename_i s'' heq2; rw [heq2] at h2; exact h2
    · rename_i s'' e heq2; rw [heq2] at h2; exact h2
  · rename_i s' e heq
    rw [heq] at h1
    exact h1

theorem classify_version : classify "version" = .version := by decide

theorem classify_ne_version {phase : String} (h : phase ≠ "version") : classify phase ≠ .version := by
  unfold classify
  rw [if_neg h]
  simp only
  split
  · intro h'; cases h'
  · split
    · intro h'; cases h'
    · intro h'; cases h'

theorem bGotMessage_TK {C : Crypto} {k : Nat} (cfg : Cfg) (phase : String) (pt : Bytes) (hp : phase ≠ "version")
    {s : St} (h : TK q0 k s) : TK q0 k (bGotMessage C cfg phase pt s).1 := by
  unfold bGotMessage
  split
  · rename_i hc; exact absurd hc (classify_ne_version hp)
  · exact bossInput_TK cfg _ _ (by decide) h
  · exact bossInput_TK cfg _ _ (by decide) h
  · exact TK_app h _ rfl

theorem bGotMessage_ver_TK {C : Crypto} {k : Nat} (cfg : Cfg) (pt : Bytes) {s : St} (h : TK q0 (k + 1) s) :
    TK q0 k (bGotMessage C cfg "version" pt s).1 := by
  unfold bGotMessage
  rw [classify_version]
  exact bossInput_ver_TK cfg _ h

/-! ## Receive -/

/-- an argument that does not carry a `version` plaintext -/
def notVerArg : RArg → Prop
  | .good phase _ => phase ≠ "version"
  | _ => True

theorem rOut_TK {C : Crypto} {k : Nat} (cfg : Cfg) (a : RArg) (o : Receive.Output)
    (ha : notVerArg a ∨ o ≠ .W_got_message) {s : St} (h : TK q0 k s) : TK q0 k (rOut C cfg a o s).1 := by
  unfold rOut
  split
  · exact TK_congr h rfl rfl rfl rfl
  · split
    · exact h
    · exact liftLo_TK _ h
  · exact bossInput_TK cfg _ _ (by decide) h
  · split
    · exact h
    · exact bossInput_TK cfg _ _ (by decide) h
  · rcases ha with ha | ha
    · exact bGotMessage_TK cfg _ _ ha h
    · exact absurd rfl ha
  · exact bossInput_TK cfg _ _ (by decide) h
  · exact h

theorem rInput_TK {C : Crypto} {k : Nat} (cfg : Cfg) (i : Receive.Input) (a : RArg) (ha : notVerArg a)
    {s : St} (h : TK q0 k s) : TK q0 k (rInput C cfg i a s).1 := by
  unfold rInput
  split
  · exact h
  · apply runOuts_inv _ (TK q0 k)
    · intro o _ s1 h1
      exact rOut_TK cfg a o (Or.inl ha) h1
    · exact TK_congr h rfl rfl rfl rfl

/-- a good `version` message: whatever Receive's state, `W_got_message` runs at most once -/
theorem rInput_ver_TK {C : Crypto} {k : Nat} (cfg : Cfg) (pt : Bytes) {s : St} (h : TK q0 (k + 1) s) :
    TK q0 k (rInput C cfg .got_message_good (.good "version" pt) s).1 := by
  have step1 : ∀ (o : Receive.Output) (s1 : St), o ≠ .W_got_message → TK q0 (k + 1) s1 →
      TK q0 (k + 1) (rOut C cfg (.good "version" pt) o s1).1 :=
    fun o s1 ho h1 => rOut_TK cfg _ o (Or.inr ho) h1
  have last : ∀ (s1 : St), TK q0 (k + 1) s1 → TK q0 k (rOut C cfg (.good "version" pt) .W_got_message s1).1 := by
    intro s1 h1
    simp only [rOut]
    exact bGotMessage_ver_TK cfg pt h1
  unfold rInput
  cases hr : s.rcv <;> simp only [Receive.table]
  all_goals first
    | exact TK_weaken h
    | exact TK_weaken (TK_congr h rfl rfl rfl rfl)
    | skip
  · -- S1_unverified_key: [S_got_verified_key, W_happy, W_got_verifier, W_got_message]
    have h0 : TK q0 (k + 1) ({ s with rcv := .S2_verified_key } : St) := TK_congr h rfl rfl rfl rfl
    simp only [runOuts]
    have a1 := step1 .S_got_verified_key _ (by decide) h0
    split
    · rename_i s1 e1; rw [e1] at a1
      have a2 := step1 .W_happy _ (by decide) a1
      split
      · rename_i s2 e2; rw [e2] at a2
        have a3 := step1 .W_got_verifier _ (by decide) a2
        split
        · rename_i s3 e3; rw [e3] at a3
          have a4 := last _ a3
          split
          · rename_i s4 e4; rw [e4] at a4; exact a4
          · rename_i s4 x e4; rw [e4] at a4; exact a4
        · rename_i s3 x e3; rw [e3] at a3; exact TK_weaken a3
      · rename_i s2 x e2; rw [e2] at a2; exact TK_weaken a2
    · rename_i s1 x e1; rw [e1] at a1; exact TK_weaken a1
  · -- S2_verified_key: [W_got_message]
    have h0 : TK q0 (k + 1) ({ s with rcv := .S2_verified_key } : St) := TK_congr h rfl rfl rfl rfl
    simp only [runOuts]
    have a4 := last _ h0
    split
    · rename_i s4 e4; rw [e4] at a4; exact a4
    · rename_i s4 x e4; rw [e4] at a4; exact a4

theorem rGotMessage_TK {C : Crypto} {k : Nat} (cfg : Cfg) (f : Frame) (hf : f.phase ≠ "version") {s : St}
    (h : TK q0 k s) : TK q0 k (rGotMessage C cfg f s).1 := by
  unfold rGotMessage
  split
  · exact rInput_TK cfg _ .bad trivial h
  · split
    · exact h
    · split
      · exact rInput_TK cfg _ .bad trivial h
      · exact rInput_TK cfg _ (.good f.phase _) hf h

theorem rGotMessage_ver_TK {C : Crypto} {k : Nat} (cfg : Cfg) (f : Frame) (hf : f.phase = "version") {s : St}
    (h : TK q0 (k + 1) s) : TK q0 k (rGotMessage C cfg f s).1 := by
  unfold rGotMessage
  split
  · exact TK_weaken (rInput_TK cfg _ .bad trivial h)
  · split
    · exact TK_weaken h
    · split
      · exact TK_weaken (rInput_TK cfg _ .bad trivial h)
      · rw [hf]; exact rInput_ver_TK cfg _ h

/-! ## _SortedKey, Key: nothing here hands a version upward -/

theorem skOut_TK {C : Crypto} {k : Nat} (cfg : Cfg) (a : KArg) (o : SortedKey.Output) {s : St} (h : TK q0 k s) :
    TK q0 k (skOut C cfg a o s).1 := by
  unfold skOut
  split
  · exact liftLo_TK _ (TK_congr h rfl rfl rfl rfl)
  · exact bossInput_TK cfg _ _ (by decide) h
  · split
    · exact h
    · split
      · exact bossInput_TK cfg _ _ (by decide) h
      · rename_i kk _
        have h1 := bossInput_TK (C := C) cfg .got_key (.bytes kk) (by decide) h
        split
        · rename_i s1 e heq; rw [heq] at h1; exact h1
        · rename_i s1 heq
          rw [heq] at h1
          split
          · exact h1
          · split
            · rename_i s2 e heq2
              exact liftLo_TK_eq heq2 (TK_congr h1 rfl rfl rfl rfl)
            · rename_i s2 heq2
              exact rInput_TK cfg _ (.key kk) trivial (liftLo_TK_eq heq2 (TK_congr h1 rfl rfl rfl rfl))
  · exact h

theorem skInput_TK {C : Crypto} {k : Nat} (cfg : Cfg) (i : SortedKey.Input) (a : KArg) {s : St} (h : TK q0 k s) :
    TK q0 k (skInput C cfg i a s).1 := by
  unfold skInput
  split
  · exact h
  · apply runOuts_inv _ (TK q0 k)
    · intro o _ s1 h1; exact skOut_TK cfg a o h1
    · exact TK_congr h rfl rfl rfl rfl

theorem skGotPake_TK {C : Crypto} {k : Nat} (cfg : Cfg) (body : Bytes) {s : St} (h : TK q0 k s) :
    TK q0 k (skGotPake C cfg body s).1 := by
  unfold skGotPake
  split <;> exact skInput_TK cfg _ _ h

theorem kOut_TK {C : Crypto} {k : Nat} (cfg : Cfg) (a : KeyArg) (o : Key.Output) {s : St} (h : TK q0 k s) :
    TK q0 k (kOut C cfg a o s).1 := by
  unfold kOut
  split
  · exact TK_congr h rfl rfl rfl rfl
  · exact skInput_TK cfg _ _ h
  · exact skGotPake_TK cfg _ h
  · rename_i pw
    have h1 := skInput_TK (C := C) cfg .got_code (.code pw) h
    split
    · rename_i s1 e heq; rw [heq] at h1; exact h1
    · rename_i s1 heq
      rw [heq] at h1
      split
      · exact h1
      · exact skGotPake_TK cfg _ h1
  · exact h

theorem kInput_TK {C : Crypto} {k : Nat} (cfg : Cfg) (i : Key.Input) (a : KeyArg) {s : St} (h : TK q0 k s) :
    TK q0 k (kInput C cfg i a s).1 := by
  unfold kInput
  split
  · exact h
  · apply runOuts_inv _ (TK q0 k)
    · intro o _ s1 h1; exact kOut_TK cfg a o h1
    · exact TK_congr h rfl rfl rfl rfl

/-! ## Order -/

/-- draining a queue spends one token per `version` frame in it -/
theorem deliverAll_TK {C : Crypto} (cfg : Cfg) : ∀ (q : List Frame) {k : Nat} {s : St},
    TK q0 (k + q.countP isVerFrame) s → TK q0 k (deliverAll C cfg q s).1
  | [], _, _, h => by simpa [deliverAll] using h
  | f :: r, k, s, h => by
    unfold deliverAll
    by_cases hf : f.phase = "version"
    · have hc : (f :: r).countP isVerFrame = r.countP isVerFrame + 1 := by
        simp [List.countP_cons, isVerFrame, hf]
      rw [hc, ← Nat.add_assoc] at h
      have h1 := rGotMessage_ver_TK (C := C) cfg f hf h
      split
      · rename_i s' heq; rw [heq] at h1; exact deliverAll_TK cfg r h1
      · rename_i s' e heq; rw [heq] at h1; exact TK_le (by omega) h1
    · have hc : (f :: r).countP isVerFrame = r.countP isVerFrame := by
        simp [List.countP_cons, isVerFrame, hf]
      rw [hc] at h
      have h1 := rGotMessage_TK (C := C) cfg f hf h
      split
      · rename_i s' heq; rw [heq] at h1; exact deliverAll_TK cfg r h1
      · rename_i s' e heq; rw [heq] at h1; exact TK_le (by omega) h1

theorem TK_self {k : Nat} {s : St} (h : TKn k s) : TK s.oq k s := ⟨rfl, h⟩

/-- `Order.got_message` for a frame that is not a `version` -/
theorem oGotMessage_TK {C : Crypto} (cfg : Cfg) (f : Frame) (hf : f.phase ≠ "version") {s : St} (h : TKn 0 s) :
    TKn 0 (oGotMessage C cfg f s).1 := by
  have hfv : isVerFrame f = false := by simp [isVerFrame, hf]
  unfold oGotMessage
  simp only
  by_cases hp : f.phase = "pake"
  · rw [if_pos hp]
    cases ho : s.ord <;> simp only [Order.table]
    · -- S0_no_pake × got_pake: [notify_key, drain]; Order is S1 from here on, the queued versions become tokens
      have h0 : TK s.oq (0 + s.oq.countP isVerFrame) ({ s with ord := .S1_yes_pake } : St) := by
        refine ⟨rfl, ?_⟩
        unfold TKn pend at *
        simp only [ho] at h
        simp at h ⊢
        omega
      simp only [runOuts, oOut]
      have h1 := kInput_TK (C := C) cfg .got_pake (.body f.body) h0
      split
      · rename_i s1 heq
        rw [heq] at h1
        have h2 : TK s.oq 0 (deliverAll C cfg s.oq s1).1 := deliverAll_TK (C := C) cfg s.oq h1
        have hq : s1.oq = s.oq := h1.1
        rw [hq]
        generalize deliverAll C cfg s.oq s1 = r at h2 ⊢
        rcases r with ⟨s2, _ | e⟩
        · have : TKn 0 s2 := h2.2
          simp only
          unfold TKn pend at this ⊢
          simp only [List.countP_nil, ite_self]
          omega
        · exact h2.2
      · rename_i s1 e heq; rw [heq] at h1
        exact (TK_le (Nat.zero_le _) h1).2
    · exact h
  · rw [if_neg hp]
    cases ho : s.ord <;> simp only [Order.table, runOuts, oOut]
    · -- S0_no_pake × got_non_pake: [queue]
      unfold TKn pend at *
      simp only [ho] at h
      simp [List.countP_append, hfv] at h ⊢
      omega
    · -- S1_yes_pake × got_non_pake: [deliver]
      have h0 : TK s.oq 0 ({ s with ord := .S1_yes_pake } : St) := by
        refine ⟨rfl, ?_⟩
        unfold TKn pend at *; simp only [ho] at h; simpa using h
      have h1 := rGotMessage_TK (C := C) cfg f hf h0
      split
      · rename_i s1 heq; rw [heq] at h1; exact h1.2
      · rename_i s1 e heq; rw [heq] at h1; exact h1.2

/-- `Order.got_message` for a `version` frame: it is queued (a token parked in the queue) or delivered -/
theorem oGotMessage_ver_TK {C : Crypto} (cfg : Cfg) (f : Frame) (hf : f.phase = "version") {s : St} (h : TKn 1 s) :
    TKn 0 (oGotMessage C cfg f s).1 := by
  have hfv : isVerFrame f = true := by simp [isVerFrame, hf]
  have hp : f.phase ≠ "pake" := by rw [hf]; decide
  unfold oGotMessage
  simp only
  rw [if_neg hp]
  cases ho : s.ord <;> simp only [Order.table, runOuts, oOut]
  · have hc : (s.oq ++ [f]).countP isVerFrame = s.oq.countP isVerFrame + 1 := by
      simp [List.countP_append, hfv]
    unfold TKn pend at *
    simp only [ho, ↓reduceIte] at h
    simp only [↓reduceIte, hc]
    omega
  · have h0 : TK s.oq (0 + 1) ({ s with ord := .S1_yes_pake } : St) := by
      refine ⟨rfl, ?_⟩
      unfold TKn pend at *; simp only [ho] at h; simpa using h
    have h1 := rGotMessage_ver_TK (C := C) cfg f hf h0
    split
    · rename_i s1 heq; rw [heq] at h1; exact h1.2
    · rename_i s1 e heq; rw [heq] at h1; exact h1.2

/-! ## Mailbox, ws_message, events -/

theorem liftLo_TKn {k : Nat} (f : Lo → RLo) {s : St} (h : TKn k s) : TKn k (liftLo f s).1 := by
  have := liftLo_TK (q0 := s.oq) f (TK_self h)
  exact this.2

theorem bossInput_TKn {C : Crypto} {k : Nat} (cfg : Cfg) (i : Boss.Input) (a : BArg) (hi : i ≠ .u_got_version)
    {s : St} (h : TKn k s) : TKn k (bossInput C cfg i a s).1 :=
  (bossInput_TK (q0 := s.oq) cfg i a hi (TK_self h)).2

theorem kInput_TKn {C : Crypto} {k : Nat} (cfg : Cfg) (i : Key.Input) (a : KeyArg) {s : St} (h : TKn k s) :
    TKn k (kInput C cfg i a s).1 :=
  (kInput_TK (q0 := s.oq) cfg i a (TK_self h)).2

theorem mRxOut_TK {C : Crypto} (cfg : Cfg) (f : Frame) (o : Mailbox.Output) {s : St} (h : TKn 0 s) :
    TKn 0 (mRxOut C cfg f o s).1 := by
  unfold mRxOut
  split
  · split
    · exact h
    · rename_i hnc
      have hnm : f.phase ∉ s.processed := by simpa using hnc
      by_cases hf : f.phase = "version"
      · apply oGotMessage_ver_TK cfg f hf
        have hv : "version" ∉ s.processed := hf ▸ hnm
        have hm : "version" ∈ s.processed ++ [f.phase] := by simp [hf]
        unfold TKn pend at *
        simp only [hv, ↓reduceIte] at h
        simp only [hm, ↓reduceIte]
        omega
      · apply oGotMessage_TK cfg f hf
        unfold TKn pend at *
        have : ("version" ∈ s.processed ++ [f.phase]) ↔ ("version" ∈ s.processed) := by
          simp only [List.mem_append, List.mem_singleton]
          constructor
          · rintro (h' | h')
            · exact h'
            · exact absurd h'.symm hf
          · exact Or.inl
        simp only [this]
        exact h
  · exact liftLo_TKn _ h

theorem mRxMessage_TK {C : Crypto} (cfg : Cfg) (f : Frame) {s : St} (h : TKn 0 s) :
    TKn 0 (mRxMessage C cfg f s).1 := by
  unfold mRxMessage
  simp only
  split
  · exact h
  · apply runOuts_inv _ (TKn 0)
    · intro o _ s1 h1; exact mRxOut_TK cfg f o h1
    · unfold TKn pend at *; exact h

theorem wsMessage_TK {C : Crypto} (cfg : Cfg) (f : Frame) {s : St} (h : TKn 0 s) :
    TKn 0 (wsMessage C cfg f s).1 := by
  have h1 := mRxMessage_TK (C := C) cfg f h
  unfold wsMessage
  split
  · rename_i s1 heq; rw [heq] at h1; exact h1
  · rename_i s1 e heq
    rw [heq] at h1
    have h2 := bossInput_TKn (C := C) cfg .k_error (.err e) (by decide) h1
    split
    · rename_i s2 heq2; rw [heq2] at h2; exact h2
    · rename_i s2 e2 heq2; rw [heq2] at h2; exact h2

theorem step_TK {C : Crypto} (cfg : Cfg) (e : Ev) {s : St} (h : TKn 0 s) : TKn 0 (step C cfg s e).1 := by
  cases e with
  | rx f => exact wsMessage_TK cfg f h
  | connected => exact liftLo_TKn _ h
  | lost => exact liftLo_TKn _ h
  | claimed => exact liftLo_TKn _ h
  | mclosed => exact liftLo_TKn _ h
  | send pt => exact bossInput_TKn cfg _ _ (by decide) h
  | close => exact bossInput_TKn cfg _ _ (by decide) h
  | tclosed => exact bossInput_TKn cfg _ _ (by decide) h
  | code pw =>
    have h1 := bossInput_TKn (C := C) cfg .got_code .none (by decide) h
    simp only [step]
    split
    · rename_i s1 e heq; rw [heq] at h1; exact h1
    · rename_i s1 heq; rw [heq] at h1; exact kInput_TKn cfg _ _ h1

theorem run_TK {C : Crypto} (cfg : Cfg) : ∀ (evs : List Ev) {s : St}, TKn 0 s → TKn 0 (run C cfg s evs)
  | [], _, h => by simpa [run] using h
  | e :: r, s, h => by
    have := run_TK (C := C) cfg r (step_TK (C := C) cfg e h)
    simpa [run] using this

theorem init_TK : TKn 0 ({} : St) := by simp [TKn, pend]

/-- over a whole run, `process_version` hands at most one version upward -/
theorem versions_at_most_once (C : Crypto) (cfg : Cfg) (evs : List Ev) :
    (run C cfg {} evs).app.countP isVer ≤ 1 := by
  have := run_TK (C := C) cfg evs init_TK
  unfold TKn at this
  omega

end WV.Proofs.C02
