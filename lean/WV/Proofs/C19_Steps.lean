import WV.Proofs.C19_OneCode
namespace WV.Proofs.C19
open WV WV.C19 WV.Gen

theorem mem_joinHy {x : Nat} : ∀ {ws : List Str}, x ∈ joinHy ws → x = 45 ∨ ∃ w ∈ ws, x ∈ w
  | [], h => by simp [joinHy] at h
  | [w], h => Or.inr ⟨w, by simp, by simpa [joinHy] using h⟩
  | w :: v :: vs, h => by
    rw [joinHy_cons_cons] at h
    simp only [List.mem_append, List.mem_cons] at h
    rcases h with h | h | h
    · exact Or.inr ⟨w, by simp, h⟩
    · exact Or.inl h
    · rcases mem_joinHy h with h | ⟨u, hu, hx⟩
      · exact Or.inl h
      · exact Or.inr ⟨u, by simp [List.mem_cons] at hu ⊢; exact Or.inr hu, hx⟩

/-- everything `rx_allocated` can do: nothing visible, or deliver exactly `nameplate-words` -/
theorem rxAllocated_shape (isD : Nat → Bool) (s : St) (np : Str) (rand : List Nat) :
    (step isD s (.rxAllocated np rand)).1.out = s.out ∨
    ∃ n words, s.length = some n ∧ chooseWords n rand = some words ∧
      (step isD s (.rxAllocated np rand)).1.out =
        s.out ++ [.nSetNameplate np, .bGotCode (np ++ 45 :: words), .kGotCode (np ++ 45 :: words)] := by
  simp only [step, allocRxAllocated, fireAlloc]
  cases ha : s.alloc <;> simp [Allocator.table, runOuts, allocOutRx]
  cases hl : s.length <;> simp
  next n =>
  cases hw : chooseWords n rand <;> simp
  next words =>
  cases hc : s.code <;> simp [codeAllocated, fireCode, Code.table, runOuts, codeOutAllocated, emit]

end WV.Proofs.C19

namespace WV.Proofs.C19
open WV WV.C19 WV.Gen

/-- `s` with the return-value slot cleared: what an operation that raises before doing anything leaves -/
abbrev cleared (s : St) : St := { s with ret := none }

theorem setCode_rejected (isD : Nat → Bool) (s : St) (c : Str) (h : validateCode isD c ≠ .ok ()) :
    step isD s (.setCode c) = (cleared s, some .keyFormat) := by
  rcases validateCode_cases isD c with hv | hv
  · exact absurd hv h
  · simp [step, hv]

theorem chooseNp_rejected (isD : Nat → Bool) (s : St) (np : Str) (h : validateNameplate isD np ≠ .ok ()) :
    step isD s (.hChooseNp np) = (cleared s, some .keyFormat) := by
  rcases validateNameplate_cases isD np with hv | hv
  · exact absurd hv h
  · simp [step, hv]

/-- a well-formed `set_code` as the first code-start call delivers exactly that code -/
theorem setCode_fresh (isD : Nat → Bool) (s : St) (c : Str) (hv : validateCode isD c = .ok ())
    (hl : s.latch = false) (hc : s.code = .S0_idle) :
    step isD s (.setCode c) =
      ({ s with ret := none, latch := true, code := .S4_known,
                out := s.out ++ [.nSetNameplate (firstPart c), .bGotCode c, .kGotCode c] }, none) := by
  simp [step, hv, hl, codeSetCode, fireCode, hc, Code.table, runOuts, codeOut1, emit]

/-! the documented errors of the input helper, straight from the generated Input table -/

theorem helper_before_nameplate (isD : Nat → Bool) (s : St) (h : s.inp = .S1_typing_nameplate) (x : Str) :
    step isD s (.hWordCompl x) = (cleared s, some .mustChooseNameplateFirst) ∧
    step isD s (.hChooseWords x) = (cleared s, some .mustChooseNameplateFirst) := by
  cases s; simp only at h; subst h
  constructor <;> simp [step, fireInput, Input.table, runOuts, inputOut1]

theorem helper_after_nameplate (isD : Nat → Bool) (s : St)
    (h : s.inp = .S2_typing_code_no_wordlist ∨ s.inp = .S3_typing_code_yes_wordlist ∨ s.inp = .S4_done) (x : Str) :
    step isD s .hRefresh = (cleared s, some .alreadyChoseNameplate) ∧
    step isD s (.hNpCompl x) = (cleared s, some .alreadyChoseNameplate) ∧
    (validateNameplate isD x = .ok () → step isD s (.hChooseNp x) = (cleared s, some .alreadyChoseNameplate)) := by
  cases s; simp only at h
  rcases h with h | h | h <;> subst h <;>
    refine ⟨?_, ?_, fun hv => ?_⟩ <;>
    simp [step, fireInput, Input.table, runOuts, inputOut1, inputOut0, *]

theorem helper_after_words (isD : Nat → Bool) (s : St) (h : s.inp = .S4_done) (x : Str) :
    step isD s (.hWordCompl x) = (cleared s, some .alreadyChoseWords) ∧
    step isD s (.hChooseWords x) = (cleared s, some .alreadyChoseWords) := by
  cases s; simp only at h; subst h
  constructor <;> simp [step, fireInput, Input.table, runOuts, inputOut1]

/-- while typing the words, with the wordlist known, the helper offers exactly `get_completions(prefix)` -/
theorem helper_word_completions (isD : Nat → Bool) (s : St) (h : s.inp = .S3_typing_code_yes_wordlist)
    (hw : s.wordlist = true) (p : Str) :
    step isD s (.hWordCompl p) = ({ s with ret := some (getCompletions p 2) }, none) := by
  cases s; simp only at h hw; subst h; subst hw
  simp [step, fireInput, Input.table, runOuts, inputOut1]

/-- `choose_words(w)` after `choose_nameplate(np)`: the code is `np-w`, delivered once -/
theorem chooseWords_shape (isD : Nat → Bool) (s : St) (np w : Str)
    (h : s.inp = .S2_typing_code_no_wordlist ∨ s.inp = .S3_typing_code_yes_wordlist)
    (hn : s.nameplate = some np) (hc : s.code = .S2_inputting_words) :
    step isD s (.hChooseWords w) =
      ({ s with ret := none, inp := .S4_done, code := .S4_known,
                out := s.out ++ [.bGotCode (np ++ 45 :: w), .kGotCode (np ++ 45 :: w)] }, none) := by
  rcases h with h | h <;>
    simp [step, fireInput, h, Input.table, runOuts, inputOut1, hn, codeFinishedInput, fireCode, hc, Code.table,
      codeOut1, emit]

/-- `choose_nameplate(np)` while typing the nameplate: validated, recorded, handed to Nameplate -/
theorem chooseNp_shape (isD : Nat → Bool) (s : St) (np : Str) (hv : validateNameplate isD np = .ok ())
    (h : s.inp = .S1_typing_nameplate) (hc : s.code = .S1_inputting_nameplate) :
    step isD s (.hChooseNp np) =
      ({ s with ret := none, inp := .S2_typing_code_no_wordlist, code := .S2_inputting_words,
                nameplate := some np, out := s.out ++ [.nSetNameplate np] }, none) := by
  simp [step, hv, fireInput, h, Input.table, runOuts, inputOut1, codeGotNameplate, fireCode, hc, Code.table,
    codeOut1, emit]

end WV.Proofs.C19
