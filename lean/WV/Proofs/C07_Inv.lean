import WV.Proofs.C07_World

/-! The world invariant of C07 and its preservation by every event. -/
namespace WV.Proofs.C07
open WV WV.C07

structure WInv (w : World) : Prop where
  conns : ∀ i c, w.conns i = some c → CInv w.cfg w.winner i c
  rel : ∀ i c, w.conns i = some c → c.relayHs = none ∨ c.relayHs = some w.cfg.relayHs
  bound : ∀ i, w.n ≤ i → w.conns i = none
  winner : ∀ j, w.winner = some j → j < w.n

theorem WInv_quiet {w w' : World} (h : WInv w) (q : Quiet w w') : WInv w' := by
  refine ⟨?_, ?_, ?_, ?_⟩
  · intro i c' hc'
    rcases q.conns i with ⟨_, hn⟩ | ⟨a, b, ha, hb, hab⟩
    · rw [hn] at hc'; cases hc'
    · rw [hb] at hc'; cases hc'
      rw [q.cfg, q.winner]; exact CInv_benign hab (h.conns i a ha)
  · intro i c' hc'
    rcases q.conns i with ⟨_, hn⟩ | ⟨a, b, ha, hb, hab⟩
    · rw [hn] at hc'; cases hc'
    · rw [hb] at hc'; cases hc'
      rw [q.cfg, hab.keeps.2.2.1]; exact h.rel i a ha
  · intro i hi
    rcases q.conns i with ⟨_, hn⟩ | ⟨a, b, ha, _, _⟩
    · exact hn
    · rw [q.n] at hi; rw [h.bound i hi] at ha; cases ha
  · intro j hj; rw [q.winner] at hj; rw [q.n]; exact h.winner j hj

theorem CInv_winner_mono {cfg : Cfg} {i j : Nat} {c : Conn} (h : CInv cfg none j c) (hij : j ≠ i) :
    CInv cfg (some i) j c := by
  obtain ⟨shape, st_ok, relay, hs, wait, recs, go, nm, win, okS, okR, negOk⟩ := h
  refine ⟨shape, st_ok, relay, hs, wait, recs, ?_, ?_, ?_, okS, okR, negOk⟩
  · intro h'; have := (go h').2.1; cases this
  · intro h'; obtain ⟨_, _, _, _, j', hj', _⟩ := nm h'; cases hj'
  · intro h'; simp at h'; exact absurd h'.symm hij

/-- install the result of a `dataReceived`/`startNegotiation` call on connection `i` -/
theorem WInv_applyCtx {w0 w2 : World} {i : Nat} {x : Ctx} (h : WInv w0)
    (hcfg : w2.cfg = w0.cfg) (hconns : ∀ j, j ≠ i → w2.conns j = w0.conns j) (hwin : w2.winner = w0.winner)
    (hn : w0.n ≤ w2.n) (hi : i < w2.n) (hfree : ∀ j, w2.n ≤ j → w2.conns j = none)
    (hx : CInv w0.cfg x.winner i x.c)
    (hrel : x.c.relayHs = none ∨ x.c.relayHs = some w0.cfg.relayHs)
    (hxw : x.winner = w0.winner ∨ (w0.winner = none ∧ x.winner = some i)) :
    WInv (applyCtx w2 i x) := by
  have h1 : WInv { (w2.setConn i x.c) with winner := x.winner } := by
    refine ⟨?_, ?_, ?_, ?_⟩
    · intro j c hc
      simp only [World.setConn] at hc
      by_cases hj : j = i
      · subst hj; simp at hc; subst hc; simpa [World.setConn, hcfg] using hx
      · simp [hj] at hc
        rw [hconns j hj] at hc
        have := h.conns j c hc
        simp only [World.setConn, hcfg]
        rcases hxw with e | ⟨e1, e2⟩
        · rw [e]; exact this
        · rw [e2]; rw [e1] at this; exact CInv_winner_mono this hj
    · intro j c hc
      simp only [World.setConn] at hc
      by_cases hj : j = i
      · subst hj; simp at hc; subst hc; simpa [World.setConn, hcfg] using hrel
      · simp [hj] at hc
        rw [hconns j hj] at hc
        simpa [World.setConn, hcfg] using h.rel j c hc
    · intro j hj
      simp only [World.setConn] at hj ⊢
      have : j ≠ i := by omega
      simp [this]; exact hfree j hj
    · intro j hj
      simp only [World.setConn] at hj ⊢
      rcases hxw with e | ⟨_, e2⟩
      · rw [e] at hj; have := h.winner j hj; omega
      · rw [e2] at hj; cases hj; exact hi
  unfold applyCtx
  simp only []
  split
  · exact WInv_quiet h1 (negFired_quiet _ _ _)
  · exact h1

theorem WInv_evData {w : World} (h : WInv w) (i : Nat) (d : Bytes) : WInv (evData w i d).1 := by
  unfold evData
  split
  · exact h
  · rename_i c hc
    have ht := dataRecv_ok (cfg := w.cfg) (w0 := w.winner) (i := i) d (h.conns i c hc)
    have hi : i < w.n := by
      apply Nat.lt_of_not_le
      intro hh
      have := h.bound i hh; rw [this] at hc; cases hc
    simp only []
    exact WInv_applyCtx h rfl (fun _ _ => rfl) rfl (Nat.le_refl _) hi h.bound ht.inv
      (by rw [ht.rel]; exact h.rel i c hc) ht.win

theorem startNeg_ok {cfg : Cfg} {w0 : Option Nat} {i : Nat} (rh : Option Bytes) (ow : Option Nat) (t : Timer)
    (hw : w0 ≠ some i) :
    CInv cfg (startNegotiation cfg w0 i (newConn rh ow t)).1.winner i (startNegotiation cfg w0 i (newConn rh ow t)).1.c ∧
    ((startNegotiation cfg w0 i (newConn rh ow t)).1.winner = w0 ∨
      (w0 = none ∧ (startNegotiation cfg w0 i (newConn rh ow t)).1.winner = some i)) ∧
    (startNegotiation cfg w0 i (newConn rh ow t)).1.c.relayHs = rh := by
  unfold startNegotiation
  cases rh with
  | some y =>
    have hc : CInv cfg w0 i { newConn (some y) ow t with out := (newConn (some y) ow t).out ++ [y], state := CState.relay } :=
      CInv_Y (by simp [hsOut, newConn]) hw (by simp [newConn]) (by simp)
        (by intro _; simp [relay_ok_len, newConn])
    have ht := dataRecv_ok (cfg := cfg) (w0 := w0) (i := i) [] hc
    exact ⟨ht.inv, ht.win, ht.rel⟩
  | none =>
    have ht := dataRecv_start (cfg := cfg) (w0 := w0) (i := i)
      (c := { newConn none ow t with state := CState.start }) []
      rfl (by simp [hsOut, newConn]) hw (by simp [pre, newConn]) (by simp [newConn])
    exact ⟨ht.inv, ht.win, ht.rel⟩

theorem WInv_addConn {w : World} (h : WInv w) (rh : Option Bytes) (ow : Option Nat)
    (hrh : rh = none ∨ rh = some w.cfg.relayHs) : WInv (addConn w rh ow).1 := by
  unfold addConn
  simp only []
  have hw : w.winner ≠ some w.n := by
    intro hh; have := h.winner _ hh; omega
  obtain ⟨h1, h2, h3⟩ := startNeg_ok (cfg := w.cfg) (w0 := w.winner) (i := w.n) rh ow
    (w.now + Gen.Transit.TIMEOUT_s, w.seq) hw
  cases ow with
  | none =>
    exact WInv_applyCtx h rfl (fun _ _ => rfl) rfl (Nat.le_succ _) (Nat.lt_succ_self _)
      (fun j hj => h.bound j (by simp at hj; omega)) h1 (by rw [h3]; exact hrh) h2
  | some k =>
    exact WInv_applyCtx h rfl (fun _ _ => rfl) rfl (Nat.le_succ _) (Nat.lt_succ_self _)
      (fun j hj => h.bound j (by simp at hj; omega)) h1 (by rw [h3]; exact hrh) h2

/-- an inbound connection dropped by the `assert self._transit_key` (no key yet) -/
theorem WInv_addOrphan {w : World} (h : WInv w) : WInv (addOrphan w).1 := by
  unfold addOrphan
  have hw : w.winner ≠ some w.n := by
    intro hh; have := h.winner _ hh; omega
  refine ⟨?_, ?_, ?_, ?_⟩
  · intro j c hc
    simp only [World.setConn] at hc
    by_cases hj : j = w.n
    · subst hj; simp at hc; subst hc
      exact CInv_Y (by simp [hsOut, newConn]) hw (by simp [newConn]) (by simp) (by simp)
    · simp [hj] at hc; exact h.conns j c hc
  · intro j c hc
    simp only [World.setConn] at hc
    by_cases hj : j = w.n
    · subst hj; simp at hc; subst hc; left; simp [newConn]
    · simp [hj] at hc; exact h.rel j c hc
  · intro j hj
    simp only [World.setConn] at hj ⊢
    have : j ≠ w.n := by omega
    simp [this]; exact h.bound j (by omega)
  · intro j hj
    simp only [World.setConn] at hj ⊢
    have := h.winner j hj; omega

theorem WInv_evInbound {w : World} (h : WInv w) {p : World × Option Err} (hp : evInbound w = some p) :
    WInv p.1 := by
  unfold evInbound at hp
  split at hp
  · split at hp
    · cases hp; exact WInv_addConn h none none (Or.inl rfl)
    · cases hp; exact WInv_addOrphan h
  · cases hp

theorem WInv_evConnected {w : World} (h : WInv w) {k : Nat} {p : World × Option Err}
    (hp : evConnected w k = some p) : WInv p.1 := by
  unfold evConnected at hp
  split at hp
  · split at hp
    · cases hp
      apply WInv_addConn h
      split <;> simp
    · cases hp
  · cases hp

theorem WInv_step {w : World} (h : WInv w) (e : Event) : WInv (step w e) := by
  cases e with
  | inbound =>
    simp only [step]
    cases hE : evInbound w with
    | none => exact h
    | some p => exact WInv_evInbound h hE
  | connect =>
    simp only [step]
    split
    · cases hE : evConnect w with
      | none => exact h
      | some w' => exact WInv_quiet h (evConnect_quiet hE)
    · exact h
  | connected k =>
    simp only [step]
    cases hE : evConnected w k with
    | none => exact h
    | some p => exact WInv_evConnected h hE
  | connFail k e =>
    simp only [step]
    cases hE : evConnFail w k e with
    | none => exact h
    | some w' => exact WInv_quiet h (evConnFail_quiet hE)
  | data i d => exact WInv_evData h i d
  | lost i => exact WInv_quiet h (evLost_quiet w i)
  | advance dt => exact WInv_quiet h (evAdvance_quiet w dt)
  | setKey => exact WInv_quiet h (Quiet.of_eq rfl rfl rfl rfl)

theorem WInv_init (cfg : Cfg) (l : Bool) (d : Nat) (r : List Nat) : WInv (initWorld cfg l d r) :=
  ⟨by intro i c h; simp [initWorld] at h, by intro i c h; simp [initWorld] at h,
   by intro i _; simp [initWorld], by intro j h; simp [initWorld] at h⟩

theorem WInv_run {w : World} (h : WInv w) (evs : List Event) : WInv (run w evs) := by
  induction evs generalizing w with
  | nil => exact h
  | cons e rest ih => exact ih (WInv_step h e)


/-! ### the configuration never changes -/

theorem applyCtx_cfg (w : World) (i : Nat) (x : Ctx) : (applyCtx w i x).cfg = w.cfg := by
  unfold applyCtx
  simp only []
  split
  · exact (negFired_quiet _ _ _).cfg
  · rfl

theorem addConn_cfg (w : World) (rh : Option Bytes) (ow : Option Nat) : (addConn w rh ow).1.cfg = w.cfg := by
  unfold addConn
  simp only []
  cases ow <;> exact applyCtx_cfg _ _ _

theorem evInbound_cfg {w : World} {p : World × Option Err} (hE : evInbound w = some p) : p.1.cfg = w.cfg := by
  unfold evInbound at hE
  split at hE
  · split at hE
    · cases hE; exact addConn_cfg _ _ _
    · cases hE; rfl
  · cases hE

theorem evConnected_cfg {w : World} {k : Nat} {p : World × Option Err} (hE : evConnected w k = some p) :
    p.1.cfg = w.cfg := by
  unfold evConnected at hE
  split at hE
  · split at hE
    · cases hE; exact addConn_cfg _ _ _
    · cases hE
  · cases hE

theorem step_cfg (w : World) (e : Event) : (step w e).cfg = w.cfg := by
  cases e with
  | inbound =>
    simp only [step]
    cases hE : evInbound w with
    | none => rfl
    | some p => exact evInbound_cfg hE
  | connect =>
    simp only [step]
    split
    · cases hE : evConnect w with
      | none => rfl
      | some w' => exact (evConnect_quiet hE).cfg
    · rfl
  | connected k =>
    simp only [step]
    cases hE : evConnected w k with
    | none => rfl
    | some p => exact evConnected_cfg hE
  | connFail k e =>
    simp only [step]
    cases hE : evConnFail w k e with
    | none => rfl
    | some w' => exact (evConnFail_quiet hE).cfg
  | data i d =>
    simp only [step, evData]
    split
    · rfl
    · exact applyCtx_cfg _ _ _
  | lost i => exact (evLost_quiet w i).cfg
  | advance dt => exact (evAdvance_quiet w dt).cfg
  | setKey => rfl

theorem run_cfg (w : World) (evs : List Event) : (run w evs).cfg = w.cfg := by
  induction evs generalizing w with
  | nil => rfl
  | cons e rest ih =>
    show (run (step w e) rest).cfg = w.cfg
    rw [ih, step_cfg]

/-- everything the invariant says about the world after any event sequence from an initial world -/
theorem reach (cfg : Cfg) (l : Bool) (d : Nat) (r : List Nat) (evs : List Event) :
    WInv (run (initWorld cfg l d r) evs) ∧ (run (initWorld cfg l d r) evs).cfg = cfg :=
  ⟨WInv_run (WInv_init cfg l d r) evs, run_cfg _ _⟩


/-! ### membership in the written chunks -/

/-- what HKDF is trusted for here: the strings we write before the decision are not themselves the
    decision strings -/
structure Distinct (cfg : Cfg) : Prop where
  s_go : cfg.sendThis ≠ Gen.Transit.GO
  s_nm : cfg.sendThis ≠ Gen.Transit.NEVERMIND
  y_go : cfg.relayHs ≠ Gen.Transit.GO
  y_nm : cfg.relayHs ≠ Gen.Transit.NEVERMIND

theorem mem_hsOut {cfg : Cfg} {c : Conn} {x : Bytes}
    (hrel : c.relayHs = none ∨ c.relayHs = some cfg.relayHs) (hx : x ∈ hsOut c) : x = cfg.relayHs := by
  rcases hrel with h | h <;> simp [hsOut, h] at hx
  exact hx

theorem go_mem {cfg : Cfg} {w : Option Nat} {i : Nat} {c : Conn} (hd : Distinct cfg)
    (h : CInv cfg w i c) (hrel : c.relayHs = none ∨ c.relayHs = some cfg.relayHs)
    (hm : Gen.Transit.GO ∈ c.out) : c.out = hsOut c ++ [cfg.sendThis, Gen.Transit.GO] := by
  rcases h.shape with e | e | e | e
  · rw [e] at hm; exact absurd (mem_hsOut hrel hm).symm hd.y_go
  · rw [e] at hm; simp at hm
    rcases hm with hm | hm
    · exact absurd (mem_hsOut hrel hm).symm hd.y_go
    · exact absurd hm.symm hd.s_go
  · exact e
  · rw [e] at hm; simp at hm
    rcases hm with hm | hm | hm
    · exact absurd (mem_hsOut hrel hm).symm hd.y_go
    · exact absurd hm.symm hd.s_go
    · exact absurd hm go_ne_nm

theorem nm_mem {cfg : Cfg} {w : Option Nat} {i : Nat} {c : Conn} (hd : Distinct cfg)
    (h : CInv cfg w i c) (hrel : c.relayHs = none ∨ c.relayHs = some cfg.relayHs)
    (hm : Gen.Transit.NEVERMIND ∈ c.out) : c.out = hsOut c ++ [cfg.sendThis, Gen.Transit.NEVERMIND] := by
  rcases h.shape with e | e | e | e
  · rw [e] at hm; exact absurd (mem_hsOut hrel hm).symm hd.y_nm
  · rw [e] at hm; simp at hm
    rcases hm with hm | hm
    · exact absurd (mem_hsOut hrel hm).symm hd.y_nm
    · exact absurd hm.symm hd.s_nm
  · rw [e] at hm; simp at hm
    rcases hm with hm | hm | hm
    · exact absurd (mem_hsOut hrel hm).symm hd.y_nm
    · exact absurd hm.symm hd.s_nm
    · exact absurd hm.symm go_ne_nm
  · exact e

end WV.Proofs.C07
