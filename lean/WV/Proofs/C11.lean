import WV.Model.C11

/-!
Generic (kernel-checked) part of the C11 certificates, same technique as `WV.Proofs.Cert` /
`WV.Proofs.Closable` but over the two-sided Dilation system `WV.C11`, for any bounded environment
`p : Abs` (`absK`, `absS`):

* `cert_sound`: a list that contains the initial states, is closed under every enabled event and on
  which every enabled step is safe contains every reachable state — induction on the run, no bound;
* `converge_sound`: the backward fixpoint of "a cooperative run reaches CONNECTED/CONNECTED on one
  link" only contains states from which such a run exists.
-/
namespace WV.C11.Cert
open WV.C11

/-- states reachable by ANY finite sequence of events enabled in the bounded environment `p` -/
inductive ReachP (p : Abs) : Sys → Prop
  | init {s} : s ∈ p.inits → ReachP p s
  | step {s} (e : Event) : ReachP p s → enabledP p s e = true → ReachP p (step s e).1

abbrev Reach : Sys → Prop := ReachP absK

def certList (p : Abs) (L : List Sys) : Bool :=
  let H : Std.HashSet Sys := Std.HashSet.ofList L
  p.inits.all (fun s => H.contains s) &&
  L.all (fun s => (allEventsP p).all (fun e =>
    !enabledP p s e || (safeStep s e && H.contains (step s e).1)))

theorem contains_ofList {L : List Sys} {s : Sys} (h : (Std.HashSet.ofList L).contains s = true) : s ∈ L := by
  rw [Std.HashSet.contains_ofList] at h
  simpa using h

theorem mem_link {p : Abs} {l : Nat} (h : l < p.K) {e : Event} (he : e ∈ linkEvents l) : e ∈ allEventsP p := by
  unfold allEventsP
  apply List.mem_append_right
  exact List.mem_flatMap.2 ⟨l, List.mem_range.2 h, he⟩

theorem mem_side {p : Abs} {e : Event} (he : e ∈ sideEvents) : e ∈ allEventsP p := by
  unfold allEventsP
  exact List.mem_append_left _ he

/-- every event that can ever be enabled is in the explored alphabet -/
theorem enabledP_mem_allEvents (p : Abs) (s : Sys) (e : Event) (h : enabledP p s e = true) : e ∈ allEventsP p := by
  cases e with
  | key x => exact mem_side (by cases x <;> decide)
  | vers x => exact mem_side (by cases x <;> decide)
  | dilate x => exact mem_side (by cases x <;> decide)
  | deliver x => exact mem_side (by cases x <;> decide)
  | connect x => exact mem_side (by cases x <;> decide)
  | dial x => exact mem_side (by cases x <;> decide)
  | cut x => simp [enabledP] at h
  | turn1 x => exact mem_side (by cases x <;> decide)
  | sigrec x => exact mem_side (by cases x <;> decide)
  | write x => exact mem_side (by cases x <;> decide)
  | tick x => exact mem_side (by cases x <;> decide)
  | hs l =>
    simp only [enabledP, Bool.and_eq_true, decide_eq_true_eq] at h
    exact mem_link h.2 (by simp [linkEvents])
  | kcmf l =>
    simp only [enabledP, Bool.and_eq_true, decide_eq_true_eq] at h
    exact mem_link h.2 (by simp [linkEvents])
  | kcml l =>
    simp only [enabledP, Bool.and_eq_true, decide_eq_true_eq] at h
    exact mem_link h.2 (by simp [linkEvents])
  | lose x l =>
    simp only [enabledP, Bool.and_eq_true, decide_eq_true_eq] at h
    exact mem_link h.2 (by cases x <;> simp [linkEvents])
  | silence x l =>
    simp only [enabledP, Bool.and_eq_true, decide_eq_true_eq] at h
    exact mem_link h.2.2 (by cases x <;> simp [linkEvents])
  | more x l =>
    simp only [enabledP, Bool.and_eq_true, decide_eq_true_eq] at h
    exact mem_link h.2.2 (by cases x <;> simp [linkEvents])

theorem cert_sound {p : Abs} {L : List Sys} (hc : certList p L = true) :
    ∀ s, ReachP p s → s ∈ L ∧ ∀ e, enabledP p s e = true → safeStep s e = true := by
  unfold certList at hc
  simp only [Bool.and_eq_true, List.all_eq_true] at hc
  obtain ⟨hinit, hclosed⟩ := hc
  have key : ∀ s, s ∈ L → ∀ e, enabledP p s e = true →
      safeStep s e = true ∧ (step s e).1 ∈ L := by
    intro s hs e he
    have hmem := enabledP_mem_allEvents p s e he
    have := hclosed s hs e hmem
    simp only [he, Bool.not_true, Bool.false_or, Bool.and_eq_true] at this
    exact ⟨this.1, contains_ofList this.2⟩
  have inL : ∀ s, ReachP p s → s ∈ L := by
    intro s hr
    induction hr with
    | init hs => exact contains_ofList (hinit _ hs)
    | step e _ he ih => exact (key _ ih e he).2
  intro s hr
  exact ⟨inL s hr, fun e he => (key s (inL s hr) e he).1⟩

/-- there is a finite cooperative run from `s` to CONNECTED/CONNECTED on the two ends of one link -/
inductive CanConvergeP (p : Abs) : Sys → Prop
  | here {s} : goal s = true → CanConvergeP p s
  | step {s} (e : Event) : coop s e = true → enabledP p s e = true → CanConvergeP p (step s e).1 → CanConvergeP p s

abbrev CanConverge : Sys → Prop := CanConvergeP absK

def grow (p : Abs) (L : List Sys) (G : Std.HashSet Sys) : Std.HashSet Sys :=
  L.foldl (fun g s =>
    if g.contains s then g
    else if (allEventsP p).any (fun e => coop s e && enabledP p s e && g.contains (step s e).1) then g.insert s else g) G

def iter (p : Abs) : Nat → List Sys → Std.HashSet Sys → Std.HashSet Sys
  | 0, _, G => G
  | n + 1, L, G =>
    let G' := grow p L G
    if G'.size == G.size then G else iter p n L G'      -- fixpoint reached: stop

def convergeCert (p : Abs) (n : Nat) (L : List Sys) : Bool :=
  let G := iter p n L (Std.HashSet.ofList (L.filter goal))
  L.all (fun s => G.contains s)

def Good (p : Abs) (G : Std.HashSet Sys) : Prop := ∀ s, G.contains s = true → CanConvergeP p s

theorem good_grow (p : Abs) (L : List Sys) (G : Std.HashSet Sys) (hG : Good p G) : Good p (grow p L G) := by
  unfold grow
  suffices h : ∀ (l : List Sys) (g : Std.HashSet Sys), Good p g →
      Good p (l.foldl (fun g s =>
        if g.contains s then g
        else if (allEventsP p).any (fun e => coop s e && enabledP p s e && g.contains (step s e).1) then g.insert s else g) g) from
    h L G hG
  intro l
  induction l with
  | nil => intro g hg; simpa using hg
  | cons a l ih =>
    intro g hg
    simp only [List.foldl_cons]
    apply ih
    split
    · exact hg
    · split
      · rename_i hany
        intro s hs
        rw [Std.HashSet.contains_insert] at hs
        simp only [Bool.or_eq_true, beq_iff_eq] at hs
        rcases hs with rfl | hs
        · simp only [List.any_eq_true, Bool.and_eq_true] at hany
          obtain ⟨e, _, ⟨hco, hen⟩, hin⟩ := hany
          exact CanConvergeP.step e hco hen (hg _ hin)
        · exact hg s hs
      · exact hg

theorem good_iter (p : Abs) (n : Nat) (L : List Sys) (G : Std.HashSet Sys) (hG : Good p G) : Good p (iter p n L G) := by
  induction n generalizing G with
  | zero => simpa [iter] using hG
  | succ n ih =>
    simp only [iter]
    split
    · exact hG
    · exact ih _ (good_grow p L G hG)

theorem good_init (p : Abs) (L : List Sys) : Good p (Std.HashSet.ofList (L.filter goal)) := by
  intro s hs
  have := contains_ofList hs
  simp only [List.mem_filter] at this
  exact CanConvergeP.here this.2

theorem converge_sound {p : Abs} {n : Nat} {L : List Sys} (h : convergeCert p n L = true) :
    ∀ s, s ∈ L → CanConvergeP p s := by
  intro s hs
  unfold convergeCert at h
  simp only [List.all_eq_true] at h
  exact good_iter p n L _ (good_init p L) s (h s hs)

end WV.C11.Cert
