import WV.Model.C11

/-!
Generic (kernel-checked) part of the C11 certificates, same technique as `WV.Proofs.Cert` /
`WV.Proofs.Closable` but over the two-sided Dilation system `WV.C11`:

* `cert_sound`: a list that contains the initial states, is closed under every enabled event and on
  which every enabled step is safe contains every reachable state — induction on the run, no bound;
* `converge_sound`: the backward fixpoint of "a cooperative run reaches CONNECTED/CONNECTED on one
  link" only contains states from which such a run exists.
-/
namespace WV.C11.Cert
open WV.C11

/-- states reachable by ANY finite sequence of enabled events (at most `K` links at a time) -/
inductive Reach : Sys → Prop
  | init {s} : s ∈ inits → Reach s
  | step {s} (e : Event) : Reach s → enabledK s e = true → Reach (step s e).1

def certList (L : List Sys) : Bool :=
  let H : Std.HashSet Sys := Std.HashSet.ofList L
  inits.all (fun s => H.contains s) &&
  L.all (fun s => allEvents.all (fun e =>
    !enabledK s e || (safeStep s e && H.contains (step s e).1)))

theorem contains_ofList {L : List Sys} {s : Sys} (h : (Std.HashSet.ofList L).contains s = true) : s ∈ L := by
  rw [Std.HashSet.contains_ofList] at h
  simpa using h

theorem link_lt_K {l : Nat} (h : l < K) : l = 0 ∨ l = 1 := by
  unfold K at h; omega

/-- every event that can ever be enabled is in the explored alphabet -/
theorem enabledK_mem_allEvents (s : Sys) (e : Event) (h : enabledK s e = true) : e ∈ allEvents := by
  cases e with
  | key x => cases x <;> decide
  | vers x => cases x <;> decide
  | dilate x => cases x <;> decide
  | deliver x => cases x <;> decide
  | connect x => cases x <;> decide
  | turn1 x => cases x <;> decide
  | sigrec x => cases x <;> decide
  | hs l =>
    simp only [enabledK, Bool.and_eq_true, decide_eq_true_eq] at h
    rcases link_lt_K h.2 with rfl | rfl <;> decide
  | kcmf l =>
    simp only [enabledK, Bool.and_eq_true, decide_eq_true_eq] at h
    rcases link_lt_K h.2 with rfl | rfl <;> decide
  | kcml l =>
    simp only [enabledK, Bool.and_eq_true, decide_eq_true_eq] at h
    rcases link_lt_K h.2 with rfl | rfl <;> decide
  | lose x l =>
    simp only [enabledK, Bool.and_eq_true, decide_eq_true_eq] at h
    rcases link_lt_K h.2 with rfl | rfl <;> cases x <;> decide

theorem cert_sound {L : List Sys} (hc : certList L = true) :
    ∀ s, Reach s → s ∈ L ∧ ∀ e, enabledK s e = true → safeStep s e = true := by
  unfold certList at hc
  simp only [Bool.and_eq_true, List.all_eq_true] at hc
  obtain ⟨hinit, hclosed⟩ := hc
  have key : ∀ s, s ∈ L → ∀ e, enabledK s e = true →
      safeStep s e = true ∧ (step s e).1 ∈ L := by
    intro s hs e he
    have hmem := enabledK_mem_allEvents s e he
    have := hclosed s hs e hmem
    simp only [he, Bool.not_true, Bool.false_or, Bool.and_eq_true] at this
    exact ⟨this.1, contains_ofList this.2⟩
  have inL : ∀ s, Reach s → s ∈ L := by
    intro s hr
    induction hr with
    | init hs => exact contains_ofList (hinit _ hs)
    | step e _ he ih => exact (key _ ih e he).2
  intro s hr
  exact ⟨inL s hr, fun e he => (key s (inL s hr) e he).1⟩

/-- there is a finite cooperative run from `s` to CONNECTED/CONNECTED on the two ends of one link -/
inductive CanConverge : Sys → Prop
  | here {s} : goal s = true → CanConverge s
  | step {s} (e : Event) : coop s e = true → enabledK s e = true → CanConverge (step s e).1 → CanConverge s

def grow (L : List Sys) (G : Std.HashSet Sys) : Std.HashSet Sys :=
  L.foldl (fun g s =>
    if g.contains s then g
    else if allEvents.any (fun e => coop s e && enabledK s e && g.contains (step s e).1) then g.insert s else g) G

def iter : Nat → List Sys → Std.HashSet Sys → Std.HashSet Sys
  | 0, _, G => G
  | n + 1, L, G =>
    let G' := grow L G
    if G'.size == G.size then G else iter n L G'      -- fixpoint reached: stop

def convergeCert (n : Nat) (L : List Sys) : Bool :=
  let G := iter n L (Std.HashSet.ofList (L.filter goal))
  L.all (fun s => G.contains s)

def Good (G : Std.HashSet Sys) : Prop := ∀ s, G.contains s = true → CanConverge s

theorem good_grow (L : List Sys) (G : Std.HashSet Sys) (hG : Good G) : Good (grow L G) := by
  unfold grow
  suffices h : ∀ (l : List Sys) (g : Std.HashSet Sys), Good g →
      Good (l.foldl (fun g s =>
        if g.contains s then g
        else if allEvents.any (fun e => coop s e && enabledK s e && g.contains (step s e).1) then g.insert s else g) g) from
    h L G hG
  intro l
  induction l with
  | nil => intro g hg; simpa using hg
  | cons a l ih =>
    intro g hg
    simp only [List.foldl_cons]
    apply ih
    split
    · exact hg
    · split
      · rename_i hany
        intro s hs
        rw [Std.HashSet.contains_insert] at hs
        simp only [Bool.or_eq_true, beq_iff_eq] at hs
        rcases hs with rfl | hs
        · simp only [List.any_eq_true, Bool.and_eq_true] at hany
          obtain ⟨e, _, ⟨hco, hen⟩, hin⟩ := hany
          exact CanConverge.step e hco hen (hg _ hin)
        · exact hg s hs
      · exact hg

theorem good_iter (n : Nat) (L : List Sys) (G : Std.HashSet Sys) (hG : Good G) : Good (iter n L G) := by
  induction n generalizing G with
  | zero => simpa [iter] using hG
  | succ n ih =>
    simp only [iter]
    split
    · exact hG
    · exact ih _ (good_grow L G hG)

theorem good_init (L : List Sys) : Good (Std.HashSet.ofList (L.filter goal)) := by
  intro s hs
  have := contains_ofList hs
  simp only [List.mem_filter] at this
  exact CanConverge.here this.2

theorem converge_sound {n : Nat} {L : List Sys} (h : convergeCert n L = true) :
    ∀ s, s ∈ L → CanConverge s := by
  intro s hs
  unfold convergeCert at h
  simp only [List.all_eq_true] at h
  exact good_iter n L _ (good_init L) s (h s hs)

end WV.C11.Cert
