import WV.Model.C01

/-! Helper lemmas for C01: explicit states of the two PAKE/code arrival orders, and the
    Receive × Boss invariant under undecryptable messages. -/
namespace WV.C01
open WV WV.Gen

attribute [local simp] run seqM envStep gotCode andThen bossIn keyIn init Boss.table Boss.init BIn.tag
  Key.init Key.table KIn.tag bossOut emit keyOut sortedKeyIn SortedKey.init SortedKey.table SKIn.tag
  sortedKeyOut orderGotMessage Order.table Order.init orderOut sortedKeyGotPake parsePake pakeBody
  receiveIn Receive.table Receive.init RIn.tag receiveOut ok raise Send.init Send.table SIn.tag sendIn sendOut

/-- what this client sends as its PAKE message -/
def myPake (C : Crypto) (cfg : Cfg) (pw idS : Bytes) : Bytes :=
  pakeBody (C.pakeStart pw idS cfg.rnd)

/-- state after `set_code` alone -/
def stCode (C : Crypto) (cfg : Cfg) (code : PyStr) (pw idS : Bytes) : St :=
  { init with k := .S10, sk := .S1_know_code, sp := some (pw, idS),
              b := .S1_lonely, out := [.wCode code, .mAdd "pake" (myPake C cfg pw idS)] }

/-- state after code and the peer's PAKE element, key computed -/
def stKey (C : Crypto) (cfg : Cfg) (code : PyStr) (pw idS : Bytes) (key : Bytes) : St :=
  { stCode C cfg code pw idS with
    k := .S11, sk := .S2_know_key, o := .S1_yes_pake, r := .S1_unverified_key, rkey := some key,
    wkey := some key, nonce := 1,
    out := [.wCode code, .mAdd "pake" (myPake C cfg pw idS), .wKey key,
            .mAdd "version" (C.box (phaseKey C key cfg.side "version") (natNonce 0) cfg.versions)] }

theorem gotCode_init (C : Crypto) (cfg : Cfg) (code : PyStr) (pw idS : Bytes)
    (hc : toBytes C code = some pw) (ha : toBytes C cfg.appid = some idS) :
    gotCode C cfg code init = (stCode C cfg code pw idS, none) := by
  simp [stCode, myPake, hc, ha]

theorem rxPake_stCode (C : Crypto) (cfg : Cfg) (code : PyStr) (pw idS : Bytes) (peer : String) (m key : Bytes)
    (h : C.pakeFinish pw idS cfg.rnd m = some key) :
    orderGotMessage C cfg ⟨peer, "pake", pakeBody m⟩ (stCode C cfg code pw idS) = (stKey C cfg code pw idS key, none) := by
  simp [stCode, stKey, h, myPake]


theorem rxPake_init (C : Crypto) (cfg : Cfg) (peer : String) (body : Bytes) :
    orderGotMessage C cfg ⟨peer, "pake", body⟩ init
      = ({ init with k := .S01, stash := some body, o := .S1_yes_pake }, none) := by
  simp

theorem gotCode_stashed (C : Crypto) (cfg : Cfg) (code : PyStr) (pw idS : Bytes) (m key : Bytes)
    (hc : toBytes C code = some pw) (ha : toBytes C cfg.appid = some idS)
    (h : C.pakeFinish pw idS cfg.rnd m = some key) :
    gotCode C cfg code { init with k := .S01, stash := some (pakeBody m), o := .S1_yes_pake }
      = ({ stKey C cfg code pw idS key with stash := some (pakeBody m) }, none) := by
  simp [stKey, stCode, h, myPake, hc, ha]

/-! ## a hostile PAKE message: unusable body, or an element the library refuses -/

/-- state after the code and a hostile PAKE message; `skst` = `S3_scared` (unusable body, via
    `got_pake_bad`) or `S2_know_key` (element refused inside `compute_key`) -/
def stHostile (C : Crypto) (cfg : Cfg) (code : PyStr) (pw idS : Bytes) (skst : SortedKey.State) : St :=
  { stCode C cfg code pw idS with
    k := .S11, sk := skst, o := .S1_yes_pake, b := .S3_closing, result := .wrongPassword,
    out := [.wCode code, .mAdd "pake" (myPake C cfg pw idS), .tClose "scary"] }

theorem rxPake_stCode_refused (C : Crypto) (cfg : Cfg) (code : PyStr) (pw idS : Bytes) (peer : String) (m : Bytes)
    (h : C.pakeFinish pw idS cfg.rnd m = none) :
    orderGotMessage C cfg ⟨peer, "pake", pakeBody m⟩ (stCode C cfg code pw idS)
      = (stHostile C cfg code pw idS .S2_know_key, none) := by
  simp [stCode, stHostile, h, myPake]

theorem gotCode_stashed_refused (C : Crypto) (cfg : Cfg) (code : PyStr) (pw idS : Bytes) (m : Bytes)
    (hc : toBytes C code = some pw) (ha : toBytes C cfg.appid = some idS)
    (h : C.pakeFinish pw idS cfg.rnd m = none) :
    gotCode C cfg code { init with k := .S01, stash := some (pakeBody m), o := .S1_yes_pake }
      = ({ stHostile C cfg code pw idS .S2_know_key with stash := some (pakeBody m) }, none) := by
  simp [stCode, stHostile, h, myPake, hc, ha]

theorem rxPake_stCode_unusable (C : Crypto) (cfg : Cfg) (code : PyStr) (pw idS : Bytes) (peer : String) (body : Bytes)
    (h : parsePake body = none) :
    orderGotMessage C cfg ⟨peer, "pake", body⟩ (stCode C cfg code pw idS)
      = (stHostile C cfg code pw idS .S3_scared, none) := by
  simp [stCode, stHostile, h, myPake, -parsePake]

theorem gotCode_stashed_unusable (C : Crypto) (cfg : Cfg) (code : PyStr) (pw idS : Bytes) (body : Bytes)
    (hc : toBytes C code = some pw) (ha : toBytes C cfg.appid = some idS)
    (h : parsePake body = none) :
    gotCode C cfg code { init with k := .S01, stash := some body, o := .S1_yes_pake }
      = ({ stHostile C cfg code pw idS .S3_scared with stash := some body }, none) := by
  simp [stCode, stHostile, h, myPake, hc, ha, -parsePake]

/-- no key was ever computed and the side is closing with WrongPasswordError -/
structure Refused (s : St) : Prop where
  rkey : s.rkey = none
  wkey : s.wkey = none
  r : s.r = .S0_unknown_key ∨ s.r = .S3_scared
  b : s.b = .S3_closing
  res : s.result = .wrongPassword
  quiet : ∀ e ∈ s.out, e.delivers = false
  noKey : ∀ k, Ev.wKey k ∉ s.out
  hasScary : Ev.tClose "scary" ∈ s.out
  scary : ∀ mood, Ev.tClose mood ∈ s.out → mood = "scary"
  noClosed : ∀ v, Ev.wClosed v ∉ s.out

theorem stHostile_refused (C : Crypto) (cfg : Cfg) (code : PyStr) (pw idS : Bytes) (skst : SortedKey.State) (x : Option Bytes) :
    Refused { stHostile C cfg code pw idS skst with stash := x } := by
  constructor <;> simp [stHostile, stCode, Ev.delivers]

/-- any later message (whatever its body) reaches a Receive without key: judged undecryptable,
    Receive scared, Boss (already closing) ignores it -/
theorem receive_refused (C : Crypto) (cfg : Cfg) (m : Msg) (s : St) (hs : Refused s) :
    receiveGotMessage C cfg m s = ({ s with r := .S3_scared }, none) ∧ Refused { s with r := .S3_scared } := by
  have hk := hs.rkey
  have hb := hs.b
  refine ⟨?_, ⟨hs.rkey, hs.wkey, Or.inr rfl, hs.b, hs.res, hs.quiet, hs.noKey, hs.hasScary, hs.scary, hs.noClosed⟩⟩
  rcases hs.r with hr | hr
  · simp [receiveGotMessage, hk, hr, hb]
  · simp [receiveGotMessage, hk, hr]

def Env.later : Env → Prop
  | .rx m => m.phase ≠ "pake"
  | .send _ => True
  | _ => False

theorem env_step_refused (C : Crypto) (cfg : Cfg) (e : Env) (s : St) (hs : Refused s)
    (ho : s.o = .S1_yes_pake) (he : e.later) :
    ∃ s', envStep C cfg e s = (s', none) ∧ Refused s' ∧ s'.o = .S1_yes_pake := by
  cases e with
  | rx m =>
    have hp : m.phase ≠ "pake" := he
    obtain ⟨e1, r1⟩ := receive_refused C cfg m s hs
    refine ⟨{ s with r := .S3_scared }, ?_, r1, ho⟩
    have hs' : { s with o := Order.State.S1_yes_pake } = s := by cases s; simp_all
    simp [envStep, orderGotMessage, hp, ho, Order.table, seqM, orderOut, hs', e1]
  | send pt =>
    refine ⟨s, ?_, hs, ho⟩
    have hb := hs.b
    simp [envStep, hb]
    cases s; simp_all
  | code c => exact absurd he (by simp [Env.later])
  | close => exact absurd he (by simp [Env.later])
  | closed => exact absurd he (by simp [Env.later])

theorem run_refused (C : Crypto) (cfg : Cfg) (evs : List Env) :
    ∀ (s : St), Refused s → s.o = .S1_yes_pake → (∀ e ∈ evs, e.later) →
    ∃ s', run C cfg evs s = (s', none) ∧ Refused s' := by
  induction evs with
  | nil => intro s hs _ _; exact ⟨s, rfl, hs⟩
  | cons e rest ih =>
    intro s hs ho hall
    obtain ⟨s1, e1, r1, o1⟩ := env_step_refused C cfg e s hs ho (hall e (by simp))
    obtain ⟨s2, e2, r2⟩ := ih s1 r1 o1 (fun x hx => hall x (by simp [hx]))
    refine ⟨s2, ?_, r2⟩
    simp only [run, seqM] at e2 ⊢
    rw [e1]; exact e2

theorem refused_closed (C : Crypto) (cfg : Cfg) (s : St) (hs : Refused s) :
    (run C cfg [.closed] s).2 = none ∧ (run C cfg [.closed] s).1.out = s.out ++ [.wClosed .wrongPassword] ∧
    (run C cfg [.close, .closed] s).2 = none ∧
    (run C cfg [.close, .closed] s).1.out = s.out ++ [.wClosed .wrongPassword] := by
  have hb := hs.b
  have hr := hs.res
  simp [hb, hr]

/-! ## the Receive × Boss invariant under undecryptable messages -/

/-- key computed, nothing from the peer decrypted yet -/
structure Unverified (s : St) (key : Bytes) : Prop where
  r : s.r = .S1_unverified_key
  rkey : s.rkey = some key
  wkey : s.wkey = some key
  b : s.b = .S1_lonely
  snd : s.s = .S0_no_key
  res : s.result = .empty
  quiet : ∀ e ∈ s.out, e.delivers = false
  noClose : ∀ mood, Ev.tClose mood ∉ s.out
  noClosed : ∀ v, Ev.wClosed v ∉ s.out

/-- a peer message failed to decrypt: Receive scared, Boss closing with WrongPasswordError -/
structure Scared (s : St) (key : Bytes) : Prop where
  r : s.r = .S3_scared
  rkey : s.rkey = some key
  wkey : s.wkey = some key
  b : s.b = .S3_closing
  res : s.result = .wrongPassword
  quiet : ∀ e ∈ s.out, e.delivers = false
  hasScary : Ev.tClose "scary" ∈ s.out
  scary : ∀ mood, Ev.tClose mood ∈ s.out → mood = "scary"
  noClosed : ∀ v, Ev.wClosed v ∉ s.out

def Bad (C : Crypto) (key : Bytes) (m : Msg) : Prop :=
  C.unbox (phaseKey C key m.side m.phase) m.body = none

theorem stKey_unverified (C : Crypto) (cfg : Cfg) (code : PyStr) (pw idS : Bytes) (key : Bytes) :
    Unverified (stKey C cfg code pw idS key) key := by
  constructor <;> simp [stKey, stCode, Ev.delivers]

def scare (s : St) : St :=
  { s with r := .S3_scared, b := .S3_closing, result := .wrongPassword, out := s.out ++ [.tClose "scary"] }

theorem receive_bad_unverified (C : Crypto) (cfg : Cfg) (key : Bytes) (m : Msg) (s : St)
    (hs : Unverified s key) (hm : Bad C key m) :
    receiveGotMessage C cfg m s = (scare s, none) := by
  unfold Bad at hm
  simp [receiveGotMessage, hs.rkey, hm, hs.r, hs.b, scare]

theorem scare_scared (s : St) (key : Bytes) (hs : Unverified s key) : Scared (scare s) key := by
  constructor
  · simp [scare]
  · simp [scare, hs.rkey]
  · simp [scare, hs.wkey]
  · simp [scare]
  · simp [scare]
  · intro e he
    simp [scare] at he
    rcases he with he | he
    · exact hs.quiet e he
    · subst he; rfl
  · simp [scare]
  · intro mood h
    simp [scare] at h
    rcases h with h | h
    · exact absurd h (hs.noClose mood)
    · exact h
  · intro v h
    simp [scare] at h
    exact hs.noClosed v h

/-- once scared, every further peer message (decryptable or not) changes nothing -/
theorem receive_scared (C : Crypto) (cfg : Cfg) (key : Bytes) (m : Msg) (s : St) (hs : Scared s key) :
    receiveGotMessage C cfg m s = (s, none) := by
  simp only [receiveGotMessage, hs.rkey]
  have hr := hs.r
  cases h : C.unbox (phaseKey C key m.side m.phase) m.body <;> simp [hr] <;>
    (cases s; simp_all)


def Inv (s : St) (key : Bytes) : Prop := Unverified s key ∨ Scared s key

theorem Inv.quiet {s : St} {key : Bytes} (h : Inv s key) : ∀ e ∈ s.out, e.delivers = false := by
  rcases h with h | h
  · exact h.quiet
  · exact h.quiet

theorem Inv.noClosed {s : St} {key : Bytes} (h : Inv s key) : ∀ v, Ev.wClosed v ∉ s.out := by
  rcases h with h | h
  · exact h.noClosed
  · exact h.noClosed

theorem receive_bad_inv (C : Crypto) (cfg : Cfg) (key : Bytes) (m : Msg) (s : St)
    (hs : Inv s key) (hm : Bad C key m) :
    ∃ s', receiveGotMessage C cfg m s = (s', none) ∧ Scared s' key ∧ s'.o = s.o ∧ s'.oq = s.oq := by
  rcases hs with hs | hs
  · exact ⟨scare s, receive_bad_unverified C cfg key m s hs hm, scare_scared s key hs, rfl, rfl⟩
  · exact ⟨s, receive_scared C cfg key m s hs, hs, rfl, rfl⟩

/-- `Order.drain` / repeated `deliver` of undecryptable messages -/
theorem drain_bad (C : Crypto) (cfg : Cfg) (key : Bytes) (msgs : List Msg) :
    ∀ (s : St), Inv s key → (∀ m ∈ msgs, Bad C key m) →
    ∃ s', seqM (receiveGotMessage C cfg) msgs s = (s', none) ∧ Inv s' key ∧ (msgs ≠ [] → Scared s' key) ∧
      s'.o = s.o ∧ s'.oq = s.oq := by
  induction msgs with
  | nil => intro s hs _; exact ⟨s, rfl, hs, fun h => absurd rfl h, rfl, rfl⟩
  | cons m rest ih =>
    intro s hs hb
    obtain ⟨s1, e1, sc1, o1, q1⟩ := receive_bad_inv C cfg key m s hs (hb m (by simp))
    obtain ⟨s2, e2, i2, _, o2, q2⟩ := ih s1 (Or.inr sc1) (fun x hx => hb x (by simp [hx]))
    refine ⟨s2, ?_, i2, ?_, o2.trans o1, q2.trans q1⟩
    · simp [seqM, e1, e2]
    · intro _
      rcases rest with _ | ⟨x, xs⟩
      · simp [seqM] at e2; subst e2; exact sc1
      · obtain ⟨s2', e2', _, sc2, _, _⟩ := ih s1 (Or.inr sc1) (fun y hy => hb y (by simp [hy]))
        rw [e2] at e2'
        have : s2 = s2' := by simpa using e2'
        exact this ▸ sc2 (by simp)

/-- the schedule alphabet after the key is computed: undecryptable non-PAKE peer messages, and
    `send_message` calls of the application -/
def PeerEv (C : Crypto) (key : Bytes) : Env → Prop
  | .rx m => m.phase ≠ "pake" ∧ Bad C key m
  | .send _ => True
  | _ => False

def Env.isRx : Env → Bool
  | .rx _ => true
  | _ => false

theorem send_unverified (C : Crypto) (cfg : Cfg) (key pt : Bytes) (s : St) (hs : Unverified s key) :
    ∃ s', bossIn C cfg (.send pt) s = (s', none) ∧ Unverified s' key ∧ s'.o = s.o ∧ s'.oq = s.oq := by
  refine ⟨{ s with nextTx := s.nextTx + 1, sq := s.sq ++ [(natToDec s.nextTx, pt)] }, ?_, ?_, rfl, rfl⟩
  · simp [hs.b, hs.snd]
  · constructor <;> simp [hs.r, hs.rkey, hs.wkey, hs.b, hs.snd, hs.res, hs.noClose, hs.noClosed]
    exact hs.quiet

theorem send_scared (C : Crypto) (cfg : Cfg) (key pt : Bytes) (s : St) (hs : Scared s key) :
    bossIn C cfg (.send pt) s = (s, none) := by
  have hb := hs.b
  simp [hb]
  cases s; simp_all

theorem env_step_inv (C : Crypto) (cfg : Cfg) (key : Bytes) (e : Env) (s : St)
    (hs : Inv s key) (ho : s.o = .S1_yes_pake) (he : PeerEv C key e) :
    ∃ s', envStep C cfg e s = (s', none) ∧ Inv s' key ∧ s'.o = .S1_yes_pake ∧ s'.oq = s.oq ∧
      (e.isRx = true → Scared s' key) ∧ (Scared s key → Scared s' key) := by
  cases e with
  | rx m =>
    obtain ⟨hp, hbad⟩ := he
    obtain ⟨s', e1, sc, o1, q1⟩ := receive_bad_inv C cfg key m s hs hbad
    refine ⟨s', ?_, Or.inr sc, o1.trans ho, q1, fun _ => sc, fun _ => sc⟩
    have hs' : { s with o := Order.State.S1_yes_pake } = s := by cases s; simp_all
    simp [envStep, orderGotMessage, hp, ho, Order.table, seqM, orderOut, hs', e1]
  | send pt =>
    rcases hs with hs | hs
    · obtain ⟨s', e1, u, o1, q1⟩ := send_unverified C cfg key pt s hs
      refine ⟨s', by simpa [envStep] using e1, Or.inl u, o1.trans ho, q1, by simp [Env.isRx], ?_⟩
      intro h; exact absurd (hs.b.symm.trans h.b) (by decide)
    · exact ⟨s, by simpa [envStep] using send_scared C cfg key pt s hs, Or.inr hs, ho, rfl, by simp [Env.isRx],
        fun h => h⟩
  | code c => exact absurd he (by simp [PeerEv])
  | close => exact absurd he (by simp [PeerEv])
  | closed => exact absurd he (by simp [PeerEv])

theorem run_inv (C : Crypto) (cfg : Cfg) (key : Bytes) (evs : List Env) :
    ∀ (s : St), Inv s key → s.o = .S1_yes_pake → (∀ e ∈ evs, PeerEv C key e) →
    ∃ s', run C cfg evs s = (s', none) ∧ Inv s' key ∧ s'.o = .S1_yes_pake ∧
      ((∃ e ∈ evs, e.isRx = true) → Scared s' key) ∧ (Scared s key → Scared s' key) := by
  induction evs with
  | nil => intro s hs ho _; exact ⟨s, rfl, hs, ho, by simp, fun h => h⟩
  | cons e rest ih =>
    intro s hs ho hall
    obtain ⟨s1, e1, i1, o1, _, rx1, sc1⟩ := env_step_inv C cfg key e s hs ho (hall e (by simp))
    obtain ⟨s2, e2, i2, o2, rx2, sc2⟩ := ih s1 i1 o1 (fun x hx => hall x (by simp [hx]))
    refine ⟨s2, ?_, i2, o2, ?_, fun h => sc2 (sc1 h)⟩
    · simp only [run, seqM] at e2 ⊢
      rw [e1]; exact e2
    · rintro ⟨x, hx, hrx⟩
      simp at hx
      rcases hx with rfl | hx
      · exact sc2 (rx1 hrx)
      · exact rx2 ⟨x, hx, hrx⟩

/-- after the scare: `close()` is a no-op and Terminator's `closed` reports WrongPasswordError -/
theorem scared_closed (C : Crypto) (cfg : Cfg) (key : Bytes) (s : St) (hs : Scared s key) :
    (run C cfg [.closed] s).2 = none ∧ (run C cfg [.closed] s).1.out = s.out ++ [.wClosed .wrongPassword] ∧
    (run C cfg [.close, .closed] s).2 = none ∧
    (run C cfg [.close, .closed] s).1.out = s.out ++ [.wClosed .wrongPassword] := by
  have hb := hs.b
  have hr := hs.res
  simp [hb, hr]


theorem run_append (C : Crypto) (cfg : Cfg) (xs ys : List Env) :
    ∀ s, run C cfg (xs ++ ys) s =
      (match run C cfg xs s with
       | (s', none) => run C cfg ys s'
       | (s', some e) => (s', some e)) := by
  induction xs with
  | nil => intro s; simp
  | cons x rest ih =>
    intro s
    simp only [run, List.cons_append, seqM]
    rcases h : envStep C cfg x s with ⟨s1, _ | e⟩
    · simpa [run] using ih s1
    · rfl

/-! ## peer messages that arrive before the PAKE message are queued by Order and judged after it -/

def NonPake (m : Msg) : Prop := m.phase ≠ "pake"

theorem queue_early (C : Crypto) (cfg : Cfg) (msgs : List Msg) :
    ∀ (s : St), s.o = .S0_no_pake → (∀ m ∈ msgs, NonPake m) →
    run C cfg (msgs.map .rx) s = ({ s with oq := s.oq ++ msgs }, none) := by
  induction msgs with
  | nil => intro s _ _; cases s; simp
  | cons m rest ih =>
    intro s ho hall
    have hp : m.phase ≠ "pake" := hall m (by simp)
    have h1 : envStep C cfg (.rx m) s = ({ s with oq := s.oq ++ [m] }, none) := by
      simp [hp, ho]
    have := ih { s with oq := s.oq ++ [m] } ho (fun x hx => hall x (by simp [hx]))
    simp only [run, List.map, seqM] at this ⊢
    rw [h1]; simp only []
    rw [this]; simp

theorem rxPake_stCode_queued (C : Crypto) (cfg : Cfg) (code : PyStr) (pw idS : Bytes) (peer : String) (m key : Bytes) (pre : List Msg)
    (h : C.pakeFinish pw idS cfg.rnd m = some key) :
    orderGotMessage C cfg ⟨peer, "pake", pakeBody m⟩ { stCode C cfg code pw idS with oq := pre }
      = andThen (seqM (receiveGotMessage C cfg) pre { stKey C cfg code pw idS key with oq := pre })
          (fun s' => ok { s' with oq := [] }) := by
  simp [stCode, stKey, h, myPake]
  generalize seqM (receiveGotMessage C cfg) pre _ = r
  rcases r with ⟨s, _ | e⟩ <;> rfl

theorem Inv.clear_oq {s : St} {key : Bytes} (h : Inv s key) : Inv { s with oq := [] } key := by
  rcases h with h | h
  · exact Or.inl ⟨h.r, h.rkey, h.wkey, h.b, h.snd, h.res, h.quiet, h.noClose, h.noClosed⟩
  · exact Or.inr ⟨h.r, h.rkey, h.wkey, h.b, h.res, h.quiet, h.hasScary, h.scary, h.noClosed⟩

theorem Scared.clear_oq {s : St} {key : Bytes} (h : Scared s key) : Scared { s with oq := [] } key :=
  ⟨h.r, h.rkey, h.wkey, h.b, h.res, h.quiet, h.hasScary, h.scary, h.noClosed⟩

theorem Unverified.set_stash {s : St} {key : Bytes} (h : Unverified s key) {x : Option Bytes} :
    Unverified { s with stash := x } key :=
  ⟨h.r, h.rkey, h.wkey, h.b, h.snd, h.res, h.quiet, h.noClose, h.noClosed⟩

theorem Unverified.set_oq {s : St} {key : Bytes} (h : Unverified s key) (q : List Msg) :
    Unverified { s with oq := q } key :=
  ⟨h.r, h.rkey, h.wkey, h.b, h.snd, h.res, h.quiet, h.noClose, h.noClosed⟩

/-! ## the first decryptable message -/

/-- state after the peer's `version` message decrypted under our key -/
def stHappy (C : Crypto) (cfg : Cfg) (code : PyStr) (pw idS : Bytes) (key pt : Bytes) : St :=
  { stKey C cfg code pw idS key with
    r := .S2_verified_key, s := .S1_verified_key, skey := some key, b := .S2_happy,
    out := (stKey C cfg code pw idS key).out ++ [.wVerifier (C.hkdf key verifierPurpose 32), .wVersions pt] }

theorem rxVersion_stKey (C : Crypto) (cfg : Cfg) (code : PyStr) (pw idS : Bytes) (peer : String) (key body pt : Bytes)
    (h : C.unbox (phaseKey C key peer "version") body = some pt) :
    orderGotMessage C cfg ⟨peer, "version", body⟩ (stKey C cfg code pw idS key)
      = (stHappy C cfg code pw idS key pt, none) := by
  simp [stKey, stCode, stHappy, receiveGotMessage, h, bossGotMessage, classifyPhase]

theorem rxVersion_stKey_stash (C : Crypto) (cfg : Cfg) (code : PyStr) (pw idS : Bytes) (peer : String) (key body pt : Bytes) (x : Option Bytes)
    (h : C.unbox (phaseKey C key peer "version") body = some pt) :
    orderGotMessage C cfg ⟨peer, "version", body⟩ { stKey C cfg code pw idS key with stash := x }
      = ({ stHappy C cfg code pw idS key pt with stash := x }, none) := by
  simp [stKey, stCode, stHappy, receiveGotMessage, h, bossGotMessage, classifyPhase]

/-! ## consequences of the ideal primitives -/

theorem phaseKey_inj {C : Crypto} (I : C.Ideal) (k k' : Bytes) (side phase : String)
    (h : phaseKey C k side phase = phaseKey C k' side phase) : k = k' :=
  (I.hkdf_inj _ _ _ _ 32 (by decide) h).1

theorem peer_sealed_bad {C : Crypto} (I : C.Ideal) (k k' : Bytes) (hk : k ≠ k') (side phase : String)
    (nn pt : Bytes) : Bad C k ⟨side, phase, C.box (phaseKey C k' side phase) nn pt⟩ := by
  unfold Bad
  apply I.unbox_wrong_key
  intro h
  exact hk (phaseKey_inj I k k' side phase h.symm)

/-! ## strict UTF-8 on code points: defined exactly on the surrogate-free strings, and injective -/

theorem utf8cp_isSome (c : Nat) : (utf8cp c).isSome = cpEncodable c := by
  unfold utf8cp cpEncodable
  by_cases h1 : c < 0x80
  · have : c < 0xD800 := by omega
    simp [h1, this]
  by_cases h2 : c < 0x800
  · have : c < 0xD800 := by omega
    simp [h1, h2, this]
  by_cases h3 : 0xD800 ≤ c ∧ c ≤ 0xDFFF
  · have a : ¬ c < 0xD800 := by omega
    have b : ¬ 0xDFFF < c := by omega
    simp [h1, h2, h3, a, b]
  by_cases h4 : c < 0x10000
  · by_cases a : c < 0xD800
    · simp [h1, h2, h3, h4, a]
    · have b : 0xDFFF < c := by omega
      have d : c < 0x110000 := by omega
      simp [h1, h2, h3, h4, a, b, d]
  by_cases h5 : c < 0x110000
  · have a : ¬ c < 0xD800 := by omega
    have b : 0xDFFF < c := by omega
    simp [h1, h2, h3, h4, h5, a, b]
  · have a : ¬ c < 0xD800 := by omega
    simp [h1, h2, h3, h4, h5, a]

theorem utf8enc_isSome (s : PyStr) : (utf8enc s).isSome = encodable s := by
  induction s with
  | nil => simp [utf8enc, encodable]
  | cons c cs ih =>
    have hc := utf8cp_isSome c
    simp only [encodable, List.all_cons] at ih ⊢
    rw [← hc, ← ih]
    simp only [utf8enc]
    cases utf8cp c <;> cases utf8enc cs <;> simp

theorem utf8enc_of_encodable {s : PyStr} (h : encodable s = true) : ∃ b, utf8enc s = some b := by
  have := utf8enc_isSome s
  rw [h] at this
  exact Option.isSome_iff_exists.mp this

theorem utf8enc_none_of_not_encodable {s : PyStr} (h : encodable s = false) : utf8enc s = none := by
  have := utf8enc_isSome s
  rw [h] at this
  cases hh : utf8enc s with
  | none => rfl
  | some b => rw [hh] at this; simp at this

/-- the encoding of one code point is never empty, and the lead byte fixes how long it is: two
    encodings, each followed by anything, that agree as byte strings come from the same code point -/
theorem utf8cp_prefix {c d : Nat} {a b x y : Bytes} (hc : utf8cp c = some a) (hd : utf8cp d = some b)
    (h : a ++ x = b ++ y) : c = d ∧ x = y := by
  unfold utf8cp at hc hd
  split at hc
  · split at hd
    · simp at hc hd; subst hc; subst hd; simp at h; omega
    · split at hd
      · simp at hc hd; subst hc; subst hd; simp at h; omega
      · split at hd
        · simp at hd
        · split at hd
          · simp at hc hd; subst hc; subst hd; simp at h; omega
          · split at hd
            · simp at hc hd; subst hc; subst hd; simp at h; omega
            · simp at hd
  · split at hc
    · split at hd
      · simp at hc hd; subst hc; subst hd; simp at h; omega
      · split at hd
        · simp at hc hd; subst hc; subst hd; simp at h
          refine ⟨by omega, h.2.2⟩
        · split at hd
          · simp at hd
          · split at hd
            · simp at hc hd; subst hc; subst hd; simp at h; omega
            · split at hd
              · simp at hc hd; subst hc; subst hd; simp at h; omega
              · simp at hd
    · split at hc
      · simp at hc
      · split at hc
        · split at hd
          · simp at hc hd; subst hc; subst hd; simp at h; omega
          · split at hd
            · simp at hc hd; subst hc; subst hd; simp at h; omega
            · split at hd
              · simp at hd
              · split at hd
                · simp at hc hd; subst hc; subst hd; simp at h
                  refine ⟨by omega, h.2.2.2⟩
                · split at hd
                  · simp at hc hd; subst hc; subst hd; simp at h; omega
                  · simp at hd
        · split at hc
          · split at hd
            · simp at hc hd; subst hc; subst hd; simp at h; omega
            · split at hd
              · simp at hc hd; subst hc; subst hd; simp at h; omega
              · split at hd
                · simp at hd
                · split at hd
                  · simp at hc hd; subst hc; subst hd; simp at h; omega
                  · split at hd
                    · simp at hc hd; subst hc; subst hd; simp at h
                      refine ⟨by omega, h.2.2.2.2⟩
                    · simp at hd
          · simp at hc

/-- **strict UTF-8 is injective** (on the strings it encodes at all) -/
theorem utf8enc_inj : ∀ (s t : PyStr) (b : Bytes), utf8enc s = some b → utf8enc t = some b → s = t := by
  intro s
  induction s with
  | nil =>
    intro t b hs ht
    cases t with
    | nil => rfl
    | cons d ds =>
      simp only [utf8enc, Option.some.injEq] at hs
      subst hs
      simp only [utf8enc] at ht
      cases hd : utf8cp d with
      | none => simp [hd] at ht
      | some bd =>
        cases hds : utf8enc ds with
        | none => simp [hd, hds] at ht
        | some bds =>
          simp [hd, hds] at ht
          have := utf8cp_prefix (x := bds) (y := bds) hd hd rfl
          unfold utf8cp at hd
          repeat' split at hd
          all_goals simp at hd
          all_goals (subst hd; simp at ht)
  | cons c cs ih =>
    intro t b hs ht
    cases t with
    | nil =>
      simp only [utf8enc, Option.some.injEq] at ht
      subst ht
      simp only [utf8enc] at hs
      cases hc : utf8cp c with
      | none => simp [hc] at hs
      | some bc =>
        cases hcs : utf8enc cs with
        | none => simp [hc, hcs] at hs
        | some bcs =>
          simp [hc, hcs] at hs
          unfold utf8cp at hc
          repeat' split at hc
          all_goals simp at hc
          all_goals (subst hc; simp at hs)
    | cons d ds =>
      simp only [utf8enc] at hs ht
      cases hc : utf8cp c with
      | none => simp [hc] at hs
      | some bc =>
        cases hcs : utf8enc cs with
        | none => simp [hc, hcs] at hs
        | some bcs =>
          cases hd : utf8cp d with
          | none => simp [hd] at ht
          | some bd =>
            cases hds : utf8enc ds with
            | none => simp [hd, hds] at ht
            | some bds =>
              simp [hc, hcs] at hs
              simp [hd, hds] at ht
              obtain ⟨e1, e2⟩ := utf8cp_prefix hc hd (hs.trans ht.symm)
              subst e1; subst e2
              rw [ih ds bcs hcs hds]

theorem toBytes_of_encodable {C : Crypto} (I : C.Ideal) {u : PyStr} (h : encodable u = true) :
    ∃ b, toBytes C u = some b :=
  utf8enc_of_encodable (by rw [I.nfc_encodable]; exact h)

theorem toBytes_none {C : Crypto} (I : C.Ideal) {u : PyStr} (h : encodable u = false) : toBytes C u = none :=
  utf8enc_none_of_not_encodable (by rw [I.nfc_encodable]; exact h)

/-- `to_bytes` identifies exactly the NFC-equal strings (among those it accepts) -/
theorem toBytes_eq_iff {C : Crypto} (a b : PyStr) (x y : Bytes)
    (ha : toBytes C a = some x) (hb : toBytes C b = some y) :
    x = y ↔ C.nfc a = C.nfc b := by
  constructor
  · intro h; subst h; exact utf8enc_inj _ _ _ ha hb
  · intro h
    unfold toBytes at ha hb
    rw [h, hb] at ha
    exact (Option.some.inj ha).symm

/-! ## one side of a two-party run -/

/-- the PAKE message (mailbox body) a client with this configuration and code publishes; `none` = it
    publishes none (`to_bytes` raised inside `build_pake`: `set_code` failed with UnicodeEncodeError) -/
def pakeOf (C : Crypto) (cfg : Cfg) (code : PyStr) : Option Bytes :=
  match toBytes C code, toBytes C cfg.appid with
  | some pw, some idS => some (myPake C cfg pw idS)
  | _, _ => none

/-- One side of a two-party run: it learns its code and the peer's PAKE message, in either order
    (`codeFirst = false` is the `input_code` / slow-typist path through Key.S01).  A peer whose code
    was refused publishes no PAKE message: then this side only ever learns its own code. -/
def sideRun (C : Crypto) (cfg : Cfg) (code : PyStr) (peer : Cfg) (peerCode : PyStr) (codeFirst : Bool) : Res :=
  match pakeOf C peer peerCode with
  | none => run C cfg [.code code] init
  | some body =>
    let m : Msg := ⟨peer.side, "pake", body⟩
    if codeFirst then run C cfg [.code code, .rx m] init else run C cfg [.rx m, .code code] init

theorem pakeOf_some (C : Crypto) (cfg : Cfg) (code : PyStr) (pw idS : Bytes)
    (hc : toBytes C code = some pw) (ha : toBytes C cfg.appid = some idS) :
    pakeOf C cfg code = some (myPake C cfg pw idS) := by
  simp [pakeOf, hc, ha]

theorem pakeOf_none (C : Crypto) (cfg : Cfg) (code : PyStr)
    (h : toBytes C code = none ∨ toBytes C cfg.appid = none) : pakeOf C cfg code = none := by
  unfold pakeOf
  rcases h with h | h
  · rw [h]
  · rw [h]; cases toBytes C code <;> rfl

/-- both arrival orders, both sides encodable, the element accepted: the explicit end state -/
theorem sideRun_eq (C : Crypto) (a b : Cfg) (ca cb : PyStr) (pwa ida pwb idb ka : Bytes)
    (h1 : toBytes C ca = some pwa) (h2 : toBytes C a.appid = some ida)
    (h3 : toBytes C cb = some pwb) (h4 : toBytes C b.appid = some idb)
    (hk : C.pakeFinish pwa ida a.rnd (C.pakeStart pwb idb b.rnd) = some ka) (o : Bool) :
    sideRun C a ca b cb o
      = (if o then stKey C a ca pwa ida ka
         else { stKey C a ca pwa ida ka with stash := some (myPake C b pwb idb) }, none) := by
  unfold sideRun
  rw [pakeOf_some C b cb pwb idb h3 h4]
  cases o
  · simp only [Bool.false_eq_true, if_false, run, seqM, envStep, rxPake_init, myPake,
      gotCode_stashed C a ca pwa ida _ ka h1 h2 hk]
  · simp only [if_true, run, seqM, envStep, gotCode_init C a ca pwa ida h1 h2, myPake,
      rxPake_stCode C a ca pwa ida b.side _ ka hk]

/-- four encodable strings: their `to_bytes` values -/
theorem four_bytes {C : Crypto} (I : C.Ideal) {ca cb aa ab : PyStr}
    (hca : encodable ca = true) (haa : encodable aa = true) (hcb : encodable cb = true) (hab : encodable ab = true) :
    ∃ pwa ida pwb idb, toBytes C ca = some pwa ∧ toBytes C aa = some ida ∧
      toBytes C cb = some pwb ∧ toBytes C ab = some idb := by
  obtain ⟨pwa, h1⟩ := toBytes_of_encodable I hca
  obtain ⟨ida, h2⟩ := toBytes_of_encodable I haa
  obtain ⟨pwb, h3⟩ := toBytes_of_encodable I hcb
  obtain ⟨idb, h4⟩ := toBytes_of_encodable I hab
  exact ⟨pwa, ida, pwb, idb, h1, h2, h3, h4⟩

/-! ## the driver's wire format for `PyStr` loses nothing -/

theorem pyOfBytes_wireCp (c : Nat) (hc : c < 0x110000) (rest : Bytes) :
    pyOfBytes (wireCp c ++ rest) = (pyOfBytes rest).map (c :: ·) := by
  unfold wireCp
  by_cases h1 : c < 0x80
  · simp only [h1, if_true, List.cons_append, List.nil_append]; rw [pyOfBytes.eq_def]; simp [h1]
  by_cases h2 : c < 0x800
  · have a : ¬ (0xC0 + c / 64 < 0x80) := by omega
    have b : 0xC0 ≤ 0xC0 + c / 64 ∧ 0xC0 + c / 64 < 0xE0 := by omega
    have d : isCont (0x80 + c % 64) = true := by simp [isCont]; omega
    have e : c / 64 * 64 + c % 64 = c := by omega
    simp only [h1, h2, if_true, if_false, List.cons_append, List.nil_append]; rw [pyOfBytes.eq_def]; simp [a, b, d, e]
  by_cases h3 : c < 0x10000
  · have a : ¬ (0xE0 + c / 4096 < 0x80) := by omega
    have b : ¬ (0xC0 ≤ 0xE0 + c / 4096 ∧ 0xE0 + c / 4096 < 0xE0) := by omega
    have b' : 0xE0 ≤ 0xE0 + c / 4096 ∧ 0xE0 + c / 4096 < 0xF0 := by omega
    have d1 : isCont (0x80 + c / 64 % 64) = true := by simp [isCont]; omega
    have d2 : isCont (0x80 + c % 64) = true := by simp [isCont]; omega
    have e : c / 4096 * 4096 + c / 64 % 64 * 64 + c % 64 = c := by omega
    simp only [h1, h2, h3, if_true, if_false, List.cons_append, List.nil_append]; rw [pyOfBytes.eq_def]; simp [a, b, b', d1, d2, e]
  · have a : ¬ (0xF0 + c / 262144 % 8 < 0x80) := by omega
    have b : ¬ (0xC0 ≤ 0xF0 + c / 262144 % 8 ∧ 0xF0 + c / 262144 % 8 < 0xE0) := by omega
    have b' : ¬ (0xE0 ≤ 0xF0 + c / 262144 % 8 ∧ 0xF0 + c / 262144 % 8 < 0xF0) := by omega
    have b'' : 0xF0 ≤ 0xF0 + c / 262144 % 8 ∧ 0xF0 + c / 262144 % 8 < 0xF8 := by omega
    have d1 : isCont (0x80 + c / 4096 % 64) = true := by simp [isCont]; omega
    have d2 : isCont (0x80 + c / 64 % 64) = true := by simp [isCont]; omega
    have d3 : isCont (0x80 + c % 64) = true := by simp [isCont]; omega
    have e : c / 262144 % 8 * 262144 + c / 4096 % 64 * 4096 + c / 64 % 64 * 64 + c % 64 = c := by omega
    simp only [h1, h2, h3, if_true, if_false, List.cons_append, List.nil_append]; rw [pyOfBytes.eq_def]; simp [a, b, b', b'', d1, d2, d3, e]

/-- the wire format loses nothing: every `str` (surrogates included) comes back as it was written -/
theorem wire_roundtrip (s : PyStr) (h : ∀ c ∈ s, c < 0x110000) : pyOfBytes (s.flatMap wireCp) = some s := by
  induction s with
  | nil => simp [pyOfBytes]
  | cons c cs ih =>
    simp only [List.flatMap_cons]
    rw [pyOfBytes_wireCp c (h c (by simp)), ih (fun x hx => h x (by simp [hx]))]
    rfl
end WV.C01
