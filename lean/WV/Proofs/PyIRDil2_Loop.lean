import WV.Proofs.PyIRDil2

set_option linter.unusedSimpArgs false
set_option linter.unusedVariables false

/-!
The producer branch of `Outbound.resumeProducing` (`while not self._paused:` … `p = self._get_next_unpaused_producer()` …
`p.resumeProducing()`) against the C15 model's call-stack semantics (`C15.run`, `loopStep`, `nextTurn`), for every number of
paused producers; producers' `resumeProducing()` are recorded calls that do not call back (empty scripts in the model).
-/
namespace WV.Proofs.PyIRDil2
open WV WV.PyIR WV.Gen.PyIRDil WV.Proofs.PyIRC03 WV.Proofs.PyIRDil

/-! ## the model side: `run` on a configuration inside the loop -/

theorem run_done (c : C15.Cfg) (h : c.stack = []) : C15.run c = c := by
  rw [C15.run]; simp [h]

theorem run_step (c : C15.Cfg) (h : c.stack ≠ []) : C15.run c = C15.run (C15.step c) := by
  conv => lhs; rw [C15.run]
  simp [h]

/-- the configuration after one producer was given its (empty) turn -/
def turned (c : C15.Cfg) (p : Nat) (rest : List Nat) : C15.Cfg :=
  { c with o := { c.o with allp := rest ++ [p], pausedSet := C15.sDel p c.o.pausedSet,
                           unpausedSet := C15.sAdd p c.o.unpausedSet },
           log := .resume p :: c.log }

structure InLoop (c : C15.Cfg) : Prop where
  stack : c.stack = [.loop]
  scripts : c.scripts = []
  unsent : c.o.unsent = []
  paused : c.o.paused = false

theorem InLoop.turned {c : C15.Cfg} (hc : InLoop c) (p : Nat) (rest : List Nat) : InLoop (turned c p rest) :=
  ⟨hc.stack, hc.scripts, hc.unsent, hc.paused⟩

theorem run_loop_bad {c : C15.Cfg} (hc : InLoop c) (hck : C15.checkInv c.o = false) :
    C15.run c = { c with stack := [], log := .exc .assertion :: c.log } := by
  rw [run_step c (by simp [hc.stack]), C15.step, hc.stack]
  simp only [C15.loopStep, hc.paused, hc.unsent, hck]
  rw [run_done] <;> simp [C15.Cfg.raiseLoop, hc.stack, C15.unwind]

theorem run_loop_end {c : C15.Cfg} (hc : InLoop c) (hck : C15.checkInv c.o = true) (he : c.o.pausedSet.isEmpty = true) :
    C15.run c = { c with stack := [] } := by
  rw [run_step c (by simp [hc.stack]), C15.step, hc.stack]
  simp only [C15.loopStep, hc.paused, hc.unsent, hck, he]
  rw [run_done] <;> simp

theorem run_loop_index {c : C15.Cfg} (hc : InLoop c) (hck : C15.checkInv c.o = true) (he : c.o.pausedSet.isEmpty = false)
    (hal : c.o.allp = []) : C15.run c = { c with stack := [], log := .exc .index :: c.log } := by
  rw [run_step c (by simp [hc.stack]), C15.step, hc.stack]
  simp only [C15.loopStep, hc.paused, hc.unsent, hck, he, hal]
  rw [run_done] <;> simp [C15.Cfg.raiseLoop, hc.stack, C15.unwind]

theorem run_loop_notpaused {c : C15.Cfg} (hc : InLoop c) (hck : C15.checkInv c.o = true) (he : c.o.pausedSet.isEmpty = false)
    (p : Nat) (rest : List Nat) (hal : c.o.allp = p :: rest) (hin : p ∉ c.o.pausedSet) :
    C15.run c = { c with o := { c.o with allp := rest ++ [p] }, stack := [], log := .exc .assertion :: c.log } := by
  rw [run_step c (by simp [hc.stack]), C15.step, hc.stack]
  simp only [C15.loopStep, hc.paused, hc.unsent, hck, he, hal, C15.nextTurn, hin]
  rw [run_done] <;> simp [C15.Cfg.raiseLoop, hc.stack, C15.unwind]

theorem run_loop_turn {c : C15.Cfg} (hc : InLoop c) (hck : C15.checkInv c.o = true) (he : c.o.pausedSet.isEmpty = false)
    (p : Nat) (rest : List Nat) (hal : c.o.allp = p :: rest) (hin : p ∈ c.o.pausedSet) :
    C15.run c = C15.run (turned c p rest) := by
  rw [run_step c (by simp [hc.stack]), C15.step, hc.stack]
  simp only [C15.loopStep, hc.paused, hc.unsent, hck, he, hal, C15.nextTurn, hin]
  by_cases hpl : p ∈ c.o.pulls
  · simp [C15.giveTurn, hpl, turned, hc.paused, hc.unsent]
  · simp only [C15.giveTurn, hpl, hc.scripts]
    rw [run_step _ (by simp), C15.step]
    simp [turned, hc.stack, hc.paused, hc.unsent, hc.scripts]

/-! ## the interpreter side -/

/-- the body of the `while not self._paused:` loop, taken from the generated method -/
def resumeLoopBody : List Stmt :=
  match m_Outbound_resumeProducing.2 with
  | [_, _, .whileBC _ b] => b
  | _ => []

/-- its condition -/
def resumeCond : Expr :=
  match m_Outbound_resumeProducing.2 with
  | [_, _, .whileBC c _] => c
  | _ => .bool false

def flowOf (evs : List C15.Ev) : Flow :=
  match evs.filterMap exnOf with
  | [] => .norm
  | e :: _ => .exc e.name

theorem sDel_length_lt' {x : Nat} {l : List Nat} (h : x ∈ l) : (C15.sDel x l).length < l.length :=
  C15.sDel_length_lt h

/-- one evaluation of the loop condition and body: either the loop ends where the model's `run` ends, or one producer
    was resumed and the loop goes on from the model's next configuration -/
theorem resumeIter (cls : Nat → String) (f : Nat) (env : Env) (hra : env.raises = fun _ => none)
    (hre : env.reenter = fun _ => []) (c : C15.Cfg) (h L : Store) (cs : List Call) (F : Nat) (hc : InLoop c)
    (R : RelProd cls h c.o) (hu : h.get "_queued_unsent" = some (.list [])) :
    (∃ (h' L' : Store) (evs : List C15.Ev),
        whileLoopBC (fun s => evalE env s resumeCond)
            (execB env (callM env tbl_Outbound (f + 2)) (f + 3) resumeLoopBody) (F + 1) ⟨h, L, cs⟩ =
          (⟨h', L', cs ++ evs.filterMap (callOf cls)⟩, flowOf evs) ∧
        RelProd cls h' (C15.run c).o ∧ (C15.run c).log = evs.reverse ++ c.log) ∨
    (∃ (p : Nat) (rest : List Nat) (h2 L2 : Store), c.o.allp = p :: rest ∧ p ∈ c.o.pausedSet ∧
        whileLoopBC (fun s => evalE env s resumeCond)
            (execB env (callM env tbl_Outbound (f + 2)) (f + 3) resumeLoopBody) (F + 1) ⟨h, L, cs⟩ =
          whileLoopBC (fun s => evalE env s resumeCond)
            (execB env (callM env tbl_Outbound (f + 2)) (f + 3) resumeLoopBody) F ⟨h2, L2, cs ++ [mkResume cls p]⟩ ∧
        RelProd cls h2 (turned c p rest).o ∧ h2.get "_queued_unsent" = some (.list []) ∧
        C15.run c = C15.run (turned c p rest)) := by
  obtain ⟨h1, hgn, R1, hsame⟩ := getNext_callM cls f env h c.o R cs
  have hp := R.paused
  rw [hc.paused] at hp
  cases hck : C15.checkInv c.o with
  | false =>
    left
    simp [getNextRes, hck] at hgn R1
    refine ⟨h1, L, [.exc .assertion], ?_, ?_, ?_⟩
    · simp only [whileLoopBC]
      dil2_nc [resumeLoopBody, resumeCond, m_Outbound_resumeProducing, hp, hu, hgn]
      fin_evs
    · rw [run_loop_bad hc hck]; exact R1
    · rw [run_loop_bad hc hck]; simp
  | true =>
    cases he : c.o.pausedSet.isEmpty with
    | true =>
      left
      simp [getNextRes, hck, he] at hgn R1
      refine ⟨h1, L.set "p" .none, [], ?_, ?_, ?_⟩
      · simp only [whileLoopBC]
        dil2_nc [resumeLoopBody, resumeCond, m_Outbound_resumeProducing, hp, hu, hgn]
        fin_evs
      · rw [run_loop_end hc hck he]; exact R1
      · rw [run_loop_end hc hck he]; simp
    | false =>
      cases hal : c.o.allp with
      | nil =>
        left
        simp [getNextRes, hck, he, hal] at hgn R1
        refine ⟨h1, L, [.exc .index], ?_, ?_, ?_⟩
        · simp only [whileLoopBC]
          dil2_nc [resumeLoopBody, resumeCond, m_Outbound_resumeProducing, hp, hu, hgn]
          fin_evs
        · rw [run_loop_index hc hck he hal]; simpa [hal] using R1
        · rw [run_loop_index hc hck he hal]; simp
      | cons p rest =>
        by_cases hin : p ∈ c.o.pausedSet
        · right
          simp [getNextRes, hck, he, hal, hin] at hgn R1
          obtain ⟨hp1, hall1, ⟨vp1, hvp1, lp1, rfl, hmp1⟩, ⟨vu1, hvu1, lu1, rfl, hmu1⟩, hscp1⟩ := R1
          simp only at hp1 hall1 hmp1 hmu1 hscp1
          have hin' : p ∈ lp1 := (hmp1 p).2 hin
          have hu1 : h1.get "_queued_unsent" = some (.list []) := by rw [hsame _ (by decide)]; exact hu
          refine ⟨p, rest, (h1.set "_paused_producers" (.set ((C15.sDel p lp1).map (encP cls)))).set "_unpaused_producers"
              (.set (if p ∈ lu1 then lu1.map (encP cls) else lu1.map (encP cls) ++ [.ref (cls p) p])),
            L.set "p" (.ref (cls p) p), rfl, hin, ?_, ?_, ?_, run_loop_turn hc hck he p rest hal hin⟩
          · conv => lhs; simp only [whileLoopBC]
            dil2_nc [resumeLoopBody, resumeCond, m_Outbound_resumeProducing, hp, hu, hgn, encP, hvp1, hvu1, memKeys_P, setDel_P, hin', hra, hre,
              mkResume]
            try rfl
          · refine ⟨?_, ?_, ⟨_, ?_, SetRel.del (kf := encP cls) hmp1 p⟩, ⟨_, ?_, SetRel.add (keyEnc_P cls) hmu1 p⟩, ?_⟩ <;>
              simp [get_set, turned, hp1, hall1, hscp1, encP]
          · simp [get_set, hu1]
        · left
          simp [getNextRes, hck, he, hal, hin] at hgn R1
          refine ⟨h1, L, [.exc .assertion], ?_, ?_, ?_⟩
          · simp only [whileLoopBC]
            dil2_nc [resumeLoopBody, resumeCond, m_Outbound_resumeProducing, hp, hu, hgn]
            fin_evs
          · rw [run_loop_notpaused hc hck he p rest hal hin]; exact R1
          · rw [run_loop_notpaused hc hck he p rest hal hin]; simp

/-- the loop, for every number of paused producers: it ends where the model's `run` ends -/
theorem resumeLoop (cls : Nat → String) (f : Nat) (env : Env) (hra : env.raises = fun _ => none)
    (hre : env.reenter = fun _ => []) :
    ∀ (n : Nat) (c : C15.Cfg) (h L : Store) (cs : List Call) (F : Nat), InLoop c → c.o.pausedSet.length ≤ n → n + 1 ≤ F →
      RelProd cls h c.o → h.get "_queued_unsent" = some (.list []) →
      ∃ (h' L' : Store) (evs : List C15.Ev),
        whileLoopBC (fun s => evalE env s resumeCond)
            (execB env (callM env tbl_Outbound (f + 2)) (f + 3) resumeLoopBody) F ⟨h, L, cs⟩ =
          (⟨h', L', cs ++ evs.filterMap (callOf cls)⟩, flowOf evs) ∧
        RelProd cls h' (C15.run c).o ∧ (C15.run c).log = evs.reverse ++ c.log := by
  intro n
  induction n with
  | zero =>
    intro c h L cs F hc hn hF R hu
    obtain ⟨F', rfl⟩ : ∃ F', F = F' + 1 := ⟨F - 1, by omega⟩
    rcases resumeIter cls f env hra hre c h L cs F' hc R hu with hterm | ⟨p, rest, h2, L2, hal, hin, e, R2, hu2, hrun⟩
    · exact hterm
    · have : c.o.pausedSet = [] := List.eq_nil_of_length_eq_zero (by omega)
      rw [this] at hin; cases hin
  | succ n ih =>
    intro c h L cs F hc hn hF R hu
    obtain ⟨F', rfl⟩ : ∃ F', F = F' + 1 := ⟨F - 1, by omega⟩
    rcases resumeIter cls f env hra hre c h L cs F' hc R hu with hterm | ⟨p, rest, h2, L2, hal, hin, e, R2, hu2, hrun⟩
    · exact hterm
    · have hlen : (turned c p rest).o.pausedSet.length ≤ n := by
        have := sDel_length_lt' hin
        simp only [turned]; omega
      obtain ⟨h', L', evs, e2, R', hl⟩ := ih (turned c p rest) h2 L2 (cs ++ [mkResume cls p]) F' (hc.turned p rest) hlen
        (by omega) R2 hu2
      refine ⟨h', L', .resume p :: evs, ?_, ?_, ?_⟩
      · have hfl : flowOf (.resume p :: evs) = flowOf evs := by
          unfold flowOf; rw [List.filterMap_cons]; rfl
        rw [e, e2, hfl]; simp [callOf]
      · rw [hrun]; exact R'
      · rw [hrun, hl]; simp [turned]

theorem resume_shape : m_Outbound_resumeProducing =
    ([], [.ite (.not (.attr "_paused")) [.ret none] [], .setAttr "_paused" (.bool false), .whileBC resumeCond resumeLoopBody]) := rfl

/-- `resumeProducing()` with registered producers whose `resumeProducing()` does not call back, nothing queued for
    replay: as a sibling call from any point -/
theorem resume_callM (cls : Nat → String) (f : Nat) (env : Env) (hra : env.raises = fun _ => none)
    (hre : env.reenter = fun _ => []) (c : C15.Cfg) (h : Store) (cs : List Call)
    (hst : c.stack = []) (hsc : c.scripts = []) (hun : c.o.unsent = [])
    (R : RelProd cls h c.o) (hu : h.get "_queued_unsent" = some (.list [])) (hf : c.o.pausedSet.length + 1 ≤ f + 3) :
    ∃ (h' : Store) (evs : List C15.Ev),
      callM env tbl_Outbound (f + 4) "resumeProducing" [] h cs = (h', cs ++ evs.filterMap (callOf cls), resOf evs) ∧
      RelProd cls h' (C15.run (C15.resumeProducing c)).o ∧ (C15.run (C15.resumeProducing c)).log = evs.reverse ++ c.log := by
  have R' := R
  obtain ⟨hp, hall, ⟨vp, hvp, lp, rfl, hmp⟩, ⟨vu, hvu, lu, rfl, hmu⟩, hscp⟩ := R
  cases hps : c.o.paused with
  | false =>
    rw [hps] at hp
    have e1 : C15.run (C15.resumeProducing c) = c := by
      rw [run_done] <;> simp [C15.resumeProducing, hps, hst]
    rw [e1]
    refine ⟨h, [], ?_, R', by simp⟩
    rw [callM]
    dil2_nc [tbl_Outbound, resume_shape, hp]
    fin_evs
  | true =>
    rw [hps] at hp
    have hc : InLoop { c with o := { c.o with paused := false }, stack := [.loop] } := ⟨rfl, hsc, hun, rfl⟩
    have R1 : RelProd cls (h.set "_paused" (.bool false)) { c.o with paused := false } := by
      refine ⟨?_, ?_, ⟨_, ?_, ⟨lp, rfl, hmp⟩⟩, ⟨_, ?_, ⟨lu, rfl, hmu⟩⟩, ?_⟩ <;> simp [get_set, *]
    obtain ⟨h', L', evs, e, hR, hl⟩ := resumeLoop cls (f + 1) env hra hre c.o.pausedSet.length _ (h.set "_paused" (.bool false)) []
      cs (f + 4) hc (Nat.le_refl _) (by omega) R1 (by simp [get_set, hu])
    have e1 : C15.resumeProducing c = { c with o := { c.o with paused := false }, stack := [.loop] } := by
      simp [C15.resumeProducing, hps, hst]
    rw [e1]
    refine ⟨h', evs, ?_, hR, hl⟩
    rw [callM]
    dil2_nc [tbl_Outbound, resume_shape, hp, e]
    unfold flowOf resOf
    cases evs.filterMap exnOf <;> simp

end WV.Proofs.PyIRDil2
