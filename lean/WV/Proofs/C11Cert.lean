import WV.Proofs.C11

/-!
The finite certificates of C11, evaluated.  Two bounded environments of the same `WV.C11.step`, both recomputed
from the GENERATED Manager / Connector / DCP / TrafficTimer tables on every build:

* `absK` — at most 2 links at a time, both orders of the side strings, every network with at least one
  direction of dialling: 72 942 reachable states;
* `absS` — at most 1 link at a time, every such network, plus silent loss of either direction, the leader's
  ping interval timer, Ping/Pong/Ack on the wire and one application record per side that is re-sent on every
  new connection: 253 466 reachable states.

* `absR` — one side configured with the transit relay, direct dialling in no direction or only by the other side, at
  most 2 links at a time, relay attempts may stay in flight: 311 129 reachable states.

Far beyond `decide +kernel` (≈10³ states × 25 events in minutes, DESIGN §4), so these seven evaluations, and
nothing else, use `native_decide` (≈ 100 s with the precompiled WVExec library).  It adds `Lean.ofReduceBool` /
`Lean.trustCompiler` to the axioms of the theorems that use them (reported per theorem in the evidence).  The
lifting to all runs (`Cert.cert_sound`, `Cert.converge_sound`) is ordinary kernel-checked induction.
-/
namespace WV.C11.Certs
open WV.C11 WV.C11.Cert

/-- the reachable set of the bounded environment `p`, if the search was exhaustive (the frontier became empty
    below `STATE_LIMIT`); else nothing: every certificate then fails at once -/
def RP (p : Abs) : List Sys :=
  let r := reachableP p 100000
  if r.2 then r.1.toList else []

def R : List Sys := RP absK
def RS : List Sys := RP absS
def RR : List Sys := RP absR

/-- `absK`: closed under every enabled event, every enabled step safe -/
theorem cert : certList absK R = true := by native_decide

/-- `absK`: backward fixpoint of cooperative convergence covers the whole reachable set -/
theorem certConverge : convergeCert absK 120 R = true := by native_decide

/-- in every state of the certificate at least one direction of dialling works -/
theorem reach_flags : ∀ t ∈ R, (t.ra || t.rb) = true := by native_decide

/-- `absS` (one link at a time, with silent loss, the ping timer and records that are re-sent): the same two -/
theorem certS : certList absS RS = true := by native_decide

theorem certConvergeS : convergeCert absS 200 RS = true := by native_decide

/-- `absR` (one side configured with the transit relay; direct dialling in no direction or only by the other side): the same two -/
theorem certR : certList absR RR = true := by native_decide

theorem certConvergeR : convergeCert absR 200 RR = true := by native_decide

theorem reach_mem (s : Sys) (hr : Reach s) : s ∈ R := (cert_sound cert s hr).1

theorem reach_safe (s : Sys) (hr : Reach s) (e : Event) (he : enabledK s e = true) : safeStep s e = true :=
  (cert_sound cert s hr).2 e he

theorem reach_converges (s : Sys) (hr : Reach s) : CanConverge s :=
  converge_sound certConverge s (reach_mem s hr)

theorem reachS_safe (s : Sys) (hr : ReachP absS s) (e : Event) (he : enabledP absS s e = true) : safeStep s e = true :=
  (cert_sound certS s hr).2 e he

theorem reachS_converges (s : Sys) (hr : ReachP absS s) : CanConvergeP absS s :=
  converge_sound certConvergeS s ((cert_sound certS s hr).1)

theorem reachR_safe (s : Sys) (hr : ReachP absR s) (e : Event) (he : enabledP absR s e = true) : safeStep s e = true :=
  (cert_sound certR s hr).2 e he

theorem reachR_converges (s : Sys) (hr : ReachP absR s) : CanConvergeP absR s :=
  converge_sound certConvergeR s ((cert_sound certR s hr).1)

end WV.C11.Certs
