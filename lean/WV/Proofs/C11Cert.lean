import WV.Proofs.C11

/-!
The finite certificates of C11, evaluated.  The reachable set of the two-sided abstraction
(`WV.C11.reachable`, recomputed from the GENERATED Manager / Connector / DCP / TrafficTimer tables on
every build) has 50 942 states × 24 events — far beyond `decide +kernel` (≈10³ states × 25 events in
minutes, DESIGN §4) — so these three evaluations, and nothing else, use `native_decide`.  It adds
`Lean.ofReduceBool` / `Lean.trustCompiler` to the axioms of the theorems that use them (reported per
theorem in the evidence).  The lifting to all runs (`Cert.cert_sound`, `Cert.converge_sound`) is
ordinary kernel-checked induction.
-/
namespace WV.C11.Certs
open WV.C11 WV.C11.Cert

/-- the reachable set, if the search was exhaustive (the frontier became empty below `STATE_LIMIT`);
    else nothing: every certificate then fails at once -/
def R : List Sys :=
  let r := reachable 100000
  if r.2 then r.1.toList else []

/-- closed under every enabled event, every enabled step safe -/
theorem cert : certList R = true := by native_decide

/-- backward fixpoint of cooperative convergence covers the whole reachable set -/
theorem certConverge : convergeCert 120 R = true := by native_decide

/-- in every state of the certificate at least one direction of dialling works -/
theorem reach_flags : ∀ t ∈ R, (t.ra || t.rb) = true := by native_decide

theorem reach_mem (s : Sys) (hr : Reach s) : s ∈ R := (cert_sound cert s hr).1

theorem reach_safe (s : Sys) (hr : Reach s) (e : Event) (he : enabledK s e = true) : safeStep s e = true :=
  (cert_sound cert s hr).2 e he

theorem reach_converges (s : Sys) (hr : Reach s) : CanConverge s :=
  converge_sound certConverge s (reach_mem s hr)

end WV.C11.Certs
