import WV.Proofs.C17_Term
import WV.Proofs.C17_Mono

/-!
C17 helper lemmas, part 8: every event, every thunk, every turn and every run preserve the control
invariant.
-/
namespace WV.Proofs.C17
open WV WV.Gen WV.C17

variable {ps : String} {pend : List Thunk} {w : World}

theorem tInput_inv (h : Inv ps pend w) (htm : TimerOk w) (i : Terminator.Input) : Inv ps pend (tInput termFuel i w).1 := by
  simp only [termFuel, tInput]
  cases hts : w.ts <;> cases i <;> simp only [Terminator.table]
  all_goals first
    | exact h
    | (simp only [tOuts, andThen]
       exact inv_core_eq (InvC.tsMove (k := core w) h _ (by simp [core, hts]) (by simp [core, hts]) (by simp [emit]) (by simp [emit])) rfl)
    | skip
  · -- S_stoppingD --stoppedD--> S_stopped [B_closed]
    simp only [tOuts, andThen]
    exact inv_core_eq (InvC.tsClosed (k := core w) h hts) rfl
  · -- S_stoppingRC --stoppedRC--> S_stoppingD [stop_dilator]
    simp only [tOuts]
    -- Dilator.stop() first does whatever the tree does to the Cooperator
    obtain ⟨b, eb⟩ := stopCoop_same { w with ts := .S_stoppingD }
    have htb : TimerOk ({ w with coopStopped := b } : World) := by
      have := stopCoop_timerOk { w with ts := .S_stoppingD } htm
      rw [eb] at this
      exact this
    rw [eb]
    by_cases hm : w.hasMgr = true
    · rw [if_pos hm]
      obtain ⟨e1, e2⟩ := stopRow_inv (w := { w with coopStopped := b }) h hts hm htb
      rw [andThen_ok e1]
      exact e2
    · rw [if_neg hm]
      have hm' : w.hasMgr = false := by simpa using hm
      simp only [Terminator.table, tOuts, andThen]
      exact inv_core_eq (InvC.stopNoMgr (k := core w) h hm' hts) rfl

/-- what one call taken from the eventual queue does -/
theorem runThunk_inv (t : Thunk) (h : Inv ps (t :: pend) w) (htm : TimerOk w) : Inv ps pend (runThunk t w) := by
  cases t with
  | accept g c =>
    exact accept_inv (InvC.dropPend h (Or.inl (by simp)) (Or.inl (by simp))) htm g c
  | discard c =>
    have h' := InvC.dropPend h (Or.inl (by simp)) (Or.inl (by simp))
    exact InvC.mono (k := core w) h' (ConnsLe.modify _ _ _ (by intro z; simp)) (fun t ht => ht)
  | mgrLost => exact connectionLost_inv h htm
  | stoppedD =>
    simp only [runThunk]
    by_cases hts : w.ts = .S_stoppingD
    · simp only [termFuel, tInput, hts, Terminator.table, tOuts, andThen]
      have h' : InvC ps (Thunk.stoppedD :: pend) { core w with ts := .S_stopped, closed := w.closed + 1 } :=
        InvC.tsClosed (k := core w) h hts
      exact inv_core_eq (InvC.dropPend h' (Or.inl (by simp)) (Or.inr (by simp))) rfl
    · exact tInput_inv (InvC.dropPend h (Or.inl (by simp)) (Or.inr hts)) htm _
  | waiter id ok =>
    obtain ⟨ws, rg, e⟩ := resolveWaiter_same id ok w
    show Inv ps pend (resolveWaiter id ok w)
    rw [e]
    exact InvC.dropPend h (Or.inl (by simp)) (Or.inl (by simp))

theorem runThunks_inv (l : List Thunk) : ∀ (w : World), Inv ps (l ++ pend) w → TimerOk w → Inv ps pend (runThunks l w) := by
  induction l with
  | nil => intro w h _; exact h
  | cons t rest ih =>
    intro w h htm
    exact ih _ (runThunk_inv t h htm) ((mm_runThunk t w).2 htm)

theorem turn_inv (h : Inv ps [] w) (htm : TimerOk w) : Inv ps [] (turn w) := by
  unfold turn
  apply runThunks_inv (pend := [])
  · simp only [List.append_nil]
    exact InvC.startTurn (k := core w) h
  · exact htm

/-- the environment's promise about one event: dilation messages come from a conformant peer
    whose dilation side is `ps`, and (Boss ordering) only once the key is known -/
def okEv (ps : String) (w : World) : Ev → Prop
  | .msg m => okMsg ps w.mySide m ∧ (if w.hasMgr then w.key = true else w.pKey = true)
  | _ => True

theorem connectAs_inv (h : Inv ps [] w) (nm : Option String) : Inv ps [] (connectAs nm w) := by
  obtain ⟨ws, wn, q, mo, e, hq⟩ := connectAs_same nm w
  rw [e]
  exact InvC.mono (k := core w) h (ConnsLe.refl _) hq

theorem ttOuts_inv (os : List TrafficTimer.Output) : ∀ v : World, Inv ps [] v → Inv ps [] (ttOuts os v).1 := by
  induction os with
  | nil => intro v h; exact h
  | cons o os ih =>
    intro v h
    cases o
    · simp only [ttOuts]
      obtain ⟨t, e⟩ := beginTiming_same v
      rcases hr : beginTiming v with ⟨u, er⟩
      rw [hr] at e
      simp only at e
      subst e
      cases er with
      | none => simp only [andThen]; exact ih _ h
      | some er => exact h
    · simp only [ttOuts]
      apply ih
      unfold signalReconnect
      split
      · rename_i c _
        exact InvC.mono (k := core v) h (disconnect_core c v).1 (fun t ht => ht)
      · exact h

theorem step_inv (hps : ps < w.mySide ∨ w.mySide < ps) (h : Inv ps [] w) (htm : TimerOk w) (e : Ev) (hok : okEv ps w e) :
    Inv ps [] (step w e).1 := by
  cases e with
  | dilate =>
    simp only [step]
    have := dilate_inv hps h htm
    rcases hr : dilate w with ⟨w', e⟩
    rw [hr] at this
    cases e <;> exact this
  | key =>
    simp only [step, gotKey]
    split
    · exact InvC.setKey (k := core w) h
    · exact InvC.setPKey (k := core w) h
  | versions v =>
    simp only [step, gotVersions]
    by_cases hm : w.hasMgr = true
    · rw [if_pos hm]
      have := mgrGotVersions_inv h hm v
      rcases hr : mgrGotVersions v w with ⟨w', e⟩
      rw [hr] at this
      cases e <;> exact this
    · rw [if_neg hm]; exact h
  | msg m =>
    simp only [step, receivedDilate]
    obtain ⟨hmsg, hkey⟩ := hok
    by_cases hm : w.hasMgr = true
    · rw [if_pos hm]
      rw [if_pos hm] at hkey
      have := receivedMsg_inv hps h hm hkey m hmsg htm
      rcases hr : receivedMsg m w with ⟨w', e⟩
      rw [hr] at this
      cases e <;> exact this
    · rw [if_neg hm]
      rw [if_neg hm] at hkey
      exact InvC.pendMsg (k := core w) h m hmsg hkey
  | connect =>
    simp only [step]
    split
    · exact connectAs_inv h none
    · exact h
  | ep l name =>
    simp only [step]
    split
    · exact h
    · exact h
  | econnect k =>
    simp only [step]
    split
    · exact h
    · split
      · exact h
      · exact connectAs_inv h none
  | elisten k =>
    simp only [step]
    split
    · exact h
    · split
      · exact connectAs_inv h _
      · exact h
  | producer pull i =>
    simp only [step]
    split
    · split
      · exact h
      · have hofres : ∀ r : Res, (ofRes r).1 = r.1 := by
          intro r; obtain ⟨a, b⟩ := r; cases b <;> rfl
        rw [hofres]
        unfold registerProducer
        dsimp only
        split
        · split <;> exact h
        · exact h
    · exact h
  | term i =>
    simp only [step]
    have := tInput_inv (pend := []) h htm i
    rcases hr : tInput termFuel i w with ⟨w', e⟩
    rw [hr] at this
    cases e <;> exact this
  | turn => exact turn_inv h htm
  | expire =>
    simp only [step]
    split
    · exact h
    · split
      · exact h
      · split
        · exact h
        · rename_i st _ st' outs _
          have hofres : ∀ r : Res, (ofRes r).1 = r.1 := by
            intro r; obtain ⟨a, b⟩ := r; cases b <;> rfl
          rw [hofres]
          exact ttOuts_inv outs _ h
  | lready k =>
    simp only [step]
    split
    · exact h
    · split
      · exact h
      · exact inv_of_core h (listenerReady_core _ _)
  | inbound k =>
    simp only [step]
    split
    · exact h
    · split
      · exact h
      · exact InvC.mono (k := core w) h (ConnsLe.append _ _) (fun t ht => ht)
  | dial j =>
    simp only [step]
    split
    · exact h
    · split <;> exact h
  | dialok j =>
    simp only [step]
    split
    · exact h
    · split
      · exact h
      · exact InvC.mono (k := core w) h (ConnsLe.append _ _) (fun t ht => ht)
  | dialfail j =>
    simp only [step]
    split
    · exact h
    · split <;> exact h
  | kcm c =>
    simp only [step]
    split
    · exact h
    · rename_i x hx
      split
      · exact h
      · split
        · exact h
        · rename_i hl hst
          have hst' : x.st = DCP.State.unselected := by simpa [DCP.init] using hst
          simp only [hst', DCP.table]
          have hcont : ([DCP.Output.add_candidate] : List DCP.Output).contains DCP.Output.add_candidate = true := by decide
          simp only [hcont, ↓reduceIte]
          -- the connection is `selecting`; its Connector is told `add_candidate`
          have h1 : Inv ps [] { w with conns := w.conns.modify c fun y => { y with st := .selecting } } :=
            InvC.mono (k := core w) h (ConnsLe.modify _ _ _ (by intro z; simp)) (fun t ht => ht)
          generalize hw1 : ({ w with conns := w.conns.modify c fun y => { y with st := DCP.State.selecting } } : World) = w1 at h1 ⊢
          have hres : Inv ps [] (cInput connectionMade x.gen .add_candidate c w1).1 := by
            cases hg : w1.ctors[x.gen]? with
            | none => rw [cInput_none _ _ _ _ _ hg]; exact h1
            | some st =>
              cases st
              · have : cInput connectionMade x.gen .add_candidate c w1 = (w1, none) := by
                  simp [cInput, hg, Connector.table, cOuts, set_self _ _ _ hg]
                rw [this]; exact h1
              · have : cInput connectionMade x.gen .add_candidate c w1 =
                    ({ w1 with queue := w1.queue ++ [.accept x.gen c] }, none) := by
                  simp [cInput, hg, Connector.table, cOuts, cOut, andThen, set_self _ _ _ hg]
                rw [this]
                exact InvC.mono (k := core w1) h1 (ConnsLe.refl _) (fun t ht => List.mem_append.mpr (Or.inl ht))
              · have : cInput connectionMade x.gen .add_candidate c w1 = (w1, some .noTransition) := by
                  simp [cInput, hg, Connector.table]
                rw [this]; exact h1
          rcases hr : cInput connectionMade x.gen .add_candidate c w1 with ⟨w', e⟩
          rw [hr] at hres
          cases e <;> exact hres
  | lost c =>
    simp only [step]
    split
    · exact h
    · rename_i x hx
      split
      · exact h
      · rename_i hl
        have hl' : x.lost = false := by simpa using hl
        exact InvC.lostConn (k := core w) h c x hx hl'

theorem tOuts_mySide (k : Terminator.Output → World → Res) (hk : ∀ o v, (k o v).1.mySide = v.mySide)
    (os : List Terminator.Output) (v : World) : (tOuts k os v).1.mySide = v.mySide := by
  induction os generalizing v with
  | nil => rfl
  | cons o os ih =>
    simp only [tOuts]
    rcases hr : k o v with ⟨v', e⟩
    have := hk o v
    rw [hr] at this
    cases e with
    | none => simp only [andThen]; rw [ih v']; exact this
    | some e => exact this

theorem tInput_mySide (fuel : Nat) : ∀ (i : Terminator.Input) (v : World), (tInput fuel i v).1.mySide = v.mySide := by
  induction fuel with
  | zero => intro i v; rfl
  | succ f ih =>
    intro i v
    simp only [tInput]
    split
    · rfl
    · rw [tOuts_mySide]
      intro o u
      cases o
      · rfl
      · rfl
      · rfl
      · rfl
      · rfl
      · show ((if (stopCoop u).hasMgr = true then andThen (mInput .k_stop "" 0 (stopCoop u)) (fun w1 => (whenStopped w1, none))
                else tInput f .stoppedD (stopCoop u)).1).mySide = u.mySide
        obtain ⟨b, eb⟩ := stopCoop_same u
        rw [eb]
        show _ = ({ u with coopStopped := b } : World).mySide
        generalize ({ u with coopStopped := b } : World) = u
        split
        · rcases hr : mInput .k_stop "" 0 u with ⟨u', e⟩
          have := (keep_mInput .k_stop "" 0 u).mySide
          rw [hr] at this
          cases e with
          | none =>
            simp only [andThen, whenStopped]
            split <;> exact this
          | some e => exact this
        · exact ih _ _

theorem runThunk_mySide (t : Thunk) (v : World) : (runThunk t v).mySide = v.mySide := by
  cases t with
  | accept g c => exact (keep_logged (keep_cInput connectionMade keep_connectionMade g .accept c v)).mySide
  | discard c => rfl
  | mgrLost => exact (keep_connectionLost v).mySide
  | stoppedD => exact tInput_mySide _ _ _
  | waiter id ok =>
    obtain ⟨ws, rg, e⟩ := resolveWaiter_same id ok v
    show (resolveWaiter id ok v).mySide = v.mySide
    rw [e]

theorem runThunks_mySide (l : List Thunk) (v : World) : (runThunks l v).mySide = v.mySide := by
  induction l generalizing v with
  | nil => rfl
  | cons t rest ih => simp only [runThunks]; rw [ih, runThunk_mySide]

theorem connectAs_mySide (nm : Option String) (v : World) : (connectAs nm v).mySide = v.mySide := by
  obtain ⟨ws, wn, q, mo, e, _⟩ := connectAs_same nm v
  rw [e]

theorem ttOuts_mySide (os : List TrafficTimer.Output) : ∀ v : World, (ttOuts os v).1.mySide = v.mySide := by
  induction os with
  | nil => intro v; rfl
  | cons o os ih =>
    intro v
    cases o
    · simp only [ttOuts]
      have := (keep_beginTiming v).mySide
      rcases hr : beginTiming v with ⟨u, er⟩
      rw [hr] at this
      cases er with
      | none => simp only [andThen]; rw [ih]; exact this
      | some er => exact this
    · simp only [ttOuts]
      rw [ih]
      unfold signalReconnect
      split <;> rfl

theorem step_mySide (v : World) (e : Ev) : (step v e).1.mySide = v.mySide := by
  cases e with
  | dilate =>
    simp only [step, dilate]
    split
    · rfl
    · split
      · rfl
      · have h1 : (replayKey { v with called := true, hasMgr := true }).mySide = v.mySide := by
          unfold replayKey; split <;> rfl
        generalize replayKey { v with called := true, hasMgr := true } = u at h1
        have h2 : (replayVersions u).1.mySide = u.mySide := by
          unfold replayVersions
          split
          · exact (keep_mgrGotVersions _ _).mySide
          · rfl
        rcases hr : replayVersions u with ⟨u', e⟩
        rw [hr] at h2
        cases e with
        | some e => simp only [andThen, ofRes]; rw [h2, h1]
        | none =>
          simp only [andThen]
          have h3 : ∀ (l : List Msg) (x : World), (drainMsgs l x).1.mySide = x.mySide := by
            intro l
            induction l with
            | nil => intro x; rfl
            | cons m rest ih =>
              intro x
              simp only [drainMsgs]
              rcases hr2 : receivedMsg m { x with pMsgs := rest } with ⟨x', e⟩
              have := (keep_receivedMsg m { x with pMsgs := rest }).mySide
              rw [hr2] at this
              cases e with
              | none => simp only [andThen]; rw [ih x']; exact this
              | some e => exact this
          have := h3 u'.pMsgs u'
          rcases hr3 : drainMsgs u'.pMsgs u' with ⟨u'', e⟩
          rw [hr3] at this
          cases e <;> simp only [ofRes] <;> rw [this, h2, h1]
  | key => simp only [step, gotKey]; split <;> rfl
  | versions vv =>
    simp only [step, gotVersions]
    split
    · have := (keep_mgrGotVersions vv v).mySide
      rcases hr : mgrGotVersions vv v with ⟨u, e⟩
      rw [hr] at this
      cases e <;> exact this
    · rfl
  | msg m =>
    simp only [step, receivedDilate]
    split
    · have := (keep_receivedMsg m v).mySide
      rcases hr : receivedMsg m v with ⟨u, e⟩
      rw [hr] at this
      cases e <;> exact this
    · rfl
  | connect =>
    simp only [step]
    split
    · exact connectAs_mySide none v
    · rfl
  | ep l name => simp only [step]; split <;> rfl
  | econnect k =>
    simp only [step]
    split
    · rfl
    · split
      · rfl
      · exact connectAs_mySide none v
  | elisten k =>
    simp only [step]
    split
    · rfl
    · split
      · exact connectAs_mySide _ v
      · rfl
  | producer pull i =>
    simp only [step]
    split
    · split
      · rfl
      · have hofres : ∀ r : Res, (ofRes r).1 = r.1 := by
          intro r; obtain ⟨a, b⟩ := r; cases b <;> rfl
        rw [hofres]
        unfold registerProducer
        dsimp only
        split
        · split <;> rfl
        · rfl
    · rfl
  | term i =>
    simp only [step]
    have := tInput_mySide termFuel i v
    rcases hr : tInput termFuel i v with ⟨u, e⟩
    rw [hr] at this
    cases e <;> exact this
  | turn => simp only [step, turn]; rw [runThunks_mySide]
  | expire =>
    simp only [step]
    split
    · rfl
    · split
      · rfl
      · split
        · rfl
        · have hofres : ∀ r : Res, (ofRes r).1 = r.1 := by
            intro r; obtain ⟨a, b⟩ := r; cases b <;> rfl
          rw [hofres, ttOuts_mySide]
  | lready k =>
    simp only [step]
    split
    · rfl
    · split
      · rfl
      · exact (keep_logged (keep_cInput noMade keep_noMade _ _ _ _)).mySide
  | inbound k => simp only [step]; split <;> (try split) <;> rfl
  | dial j => simp only [step]; split <;> (try split) <;> rfl
  | dialok j => simp only [step]; split <;> (try split) <;> rfl
  | dialfail j => simp only [step]; split <;> (try split) <;> rfl
  | kcm c =>
    simp only [step]
    split
    · rfl
    · split
      · rfl
      · split
        · rfl
        · split
          · rfl
          · split
            · rename_i x _ _ _ _ st' outs _ _
              have := (keep_cInput connectionMade keep_connectionMade x.gen .add_candidate c
                { v with conns := v.conns.modify c fun y => { y with st := st' } }).mySide
              rcases hr : cInput connectionMade x.gen .add_candidate c
                { v with conns := v.conns.modify c fun y => { y with st := st' } } with ⟨u, e⟩
              rw [hr] at this
              cases e <;> exact this
            · rfl
  | lost c => simp only [step]; split <;> (try split) <;> rfl

/-- a run in which every event keeps the environment's promise -/
def okRun (ps : String) : World → List Ev → Prop
  | _, [] => True
  | w, e :: es => okEv ps w e ∧ okRun ps (step w e).1 es

theorem run_inv (es : List Ev) : ∀ (w : World), (ps < w.mySide ∨ w.mySide < ps) → Inv ps [] w → TimerOk w → okRun ps w es →
    Inv ps [] (run w es) ∧ TimerOk (run w es) := by
  induction es with
  | nil => intro w _ h htm _; exact ⟨h, htm⟩
  | cons e es ih =>
    intro w hps h htm hok
    simp only [run]
    apply ih
    · rw [step_mySide]; exact hps
    · exact step_inv hps h htm e hok.1
    · exact (mm_step w e).2 htm
    · exact hok.2

theorem run_mySide (es : List Ev) (w : World) : (run w es).mySide = w.mySide := by
  induction es generalizing w with
  | nil => rfl
  | cons e es ih => simp only [run]; rw [ih, step_mySide]

theorem init_timerOk (nl al : Bool) (my : String) : TimerOk (World.init nl al my) := by
  constructor <;> intro h <;> simp [World.init] at h

theorem init_inv (nl al : Bool) (my : String) : Inv ps [] (World.init nl al my) := by
  refine ⟨?_, ?_, ?_, ?_, ?_, ?_, ?_, ?_, ?_, ?_, ?_⟩ <;> simp [core, World.init, Manager.init, Terminator.init, active, inConn]

end WV.Proofs.C17
