import WV.Model.C07

/-! `Common._connect` at this source has the two generated properties, so `connect()` is the
list-based, exception-free `evConnectHead` all proofs are about. -/
namespace WV.Proofs.C07
open WV WV.C07

theorem connect_flags :
    Gen.Transit.connect_contenders_is_list = true ∧ Gen.Transit.connect_endpoint_errors_contained = true := by decide

theorem evConnect_eq (w : World) : evConnect w = evConnectHead w := by
  unfold evConnect
  simp [connect_flags.1, connect_flags.2]

end WV.Proofs.C07
