import WV.Model.C10

/-! Helper lemmas for the C10 property theorems: the ARQ invariant and its preservation. -/
namespace WV.Proofs.C10
open WV WV.C10

/-! ### projections of a channel -/

def dataOf : List Wire → List Rec
  | [] => []
  | .msg r :: l => r :: dataOf l
  | .ack _ :: l => dataOf l

def acksOf : List Wire → List Nat
  | [] => []
  | .msg _ :: l => acksOf l
  | .ack k :: l => k :: acksOf l

@[simp] theorem dataOf_nil : dataOf [] = [] := rfl
@[simp] theorem acksOf_nil : acksOf [] = [] := rfl
@[simp] theorem dataOf_msg (r l) : dataOf (.msg r :: l) = r :: dataOf l := rfl
@[simp] theorem dataOf_ack (k l) : dataOf (.ack k :: l) = dataOf l := rfl
@[simp] theorem acksOf_msg (r l) : acksOf (.msg r :: l) = acksOf l := rfl
@[simp] theorem acksOf_ack (k l) : acksOf (.ack k :: l) = k :: acksOf l := rfl

@[simp] theorem dataOf_append (l m : List Wire) : dataOf (l ++ m) = dataOf l ++ dataOf m := by
  induction l with
  | nil => rfl
  | cons w l ih => cases w <;> simp [ih]

@[simp] theorem acksOf_append (l m : List Wire) : acksOf (l ++ m) = acksOf l ++ acksOf m := by
  induction l with
  | nil => rfl
  | cons w l ih => cases w <;> simp [ih]

/-! ### "processing `L` from watermark `h` never meets a gap" -/

/-- every record of `L` is the built record with its seqnum, and none is more than one ahead of
    the highest seqnum seen so far (starting from the watermark `h`) -/
def NoGap (built : List Rec) : Int → List Rec → Prop
  | _, [] => True
  | h, x :: L => (x.seqnum : Int) ≤ h + 1 ∧ built[x.seqnum]? = some x ∧ NoGap built (max h x.seqnum) L

/-- the watermark after processing `L` -/
def top : Int → List Rec → Int
  | h, [] => h
  | h, x :: L => top (max h x.seqnum) L

/-- `L`, processed from `h`, has no gap and ends exactly at `n - 1` -/
def Cover (built : List Rec) (h : Int) (n : Nat) (L : List Rec) : Prop :=
  NoGap built h L ∧ top h L + 1 = n

theorem le_top (h : Int) (L : List Rec) : h ≤ top h L := by
  induction L generalizing h with
  | nil => simp [top]
  | cons x L ih => have := ih (max h x.seqnum); simp only [top]; omega

theorem top_max (h k : Int) (L : List Rec) : top (max h k) L = max (top h L) k := by
  induction L generalizing h with
  | nil => simp [top]
  | cons x L ih =>
    simp only [top]
    have e : max (max h k) (x.seqnum : Int) = max (max h x.seqnum) k := by omega
    rw [e, ih]

theorem top_append (h : Int) (L M : List Rec) : top h (L ++ M) = top (top h L) M := by
  induction L generalizing h with
  | nil => rfl
  | cons x L ih => simp [top, ih]

theorem noGap_append (b : List Rec) (h : Int) (L M : List Rec) :
    NoGap b h (L ++ M) ↔ NoGap b h L ∧ NoGap b (top h L) M := by
  induction L generalizing h with
  | nil => simp [NoGap, top]
  | cons x L ih => simp [NoGap, top, ih, and_assoc]

theorem noGap_mono (b : List Rec) (h h' : Int) (L : List Rec) (le : h ≤ h') :
    NoGap b h L → NoGap b h' L := by
  induction L generalizing h h' with
  | nil => simp [NoGap]
  | cons x L ih =>
    simp only [NoGap]
    intro ⟨h1, h2, h3⟩
    exact ⟨by omega, h2, ih _ _ (by omega) h3⟩

theorem noGap_built (b e : List Rec) (h : Int) (L : List Rec) :
    NoGap b h L → NoGap (b ++ e) h L := by
  induction L generalizing h with
  | nil => simp [NoGap]
  | cons x L ih =>
    simp only [NoGap]
    intro ⟨h1, h2, h3⟩
    refine ⟨h1, ?_, ih _ h3⟩
    have hl : x.seqnum < b.length := by
      have := List.getElem?_eq_some_iff.mp h2
      exact this.1
    rw [List.getElem?_append_left hl]; exact h2

/-- records at or below the watermark can be removed from anywhere in the stream -/
theorem top_old (h : Int) (G : List Rec) (old : ∀ x ∈ G, (x.seqnum : Int) ≤ h) : top h G = h := by
  induction G with
  | nil => rfl
  | cons x G ih =>
    have hx := old x (by simp)
    have e : max h (x.seqnum : Int) = h := by omega
    simp only [top, e]
    exact ih (fun y hy => old y (by simp [hy]))

theorem noGap_drop_old (b : List Rec) (h : Int) (L1 G L2 : List Rec)
    (old : ∀ x ∈ G, (x.seqnum : Int) ≤ h) :
    NoGap b h (L1 ++ (G ++ L2)) → NoGap b h (L1 ++ L2) ∧ top h (L1 ++ (G ++ L2)) = top h (L1 ++ L2) := by
  intro H
  have ht : top (top h L1) G = top h L1 :=
    top_old _ G (fun x hx => by have := old x hx; have := le_top h L1; omega)
  rw [noGap_append, noGap_append] at H
  refine ⟨?_, ?_⟩
  · rw [noGap_append]; refine ⟨H.1, ?_⟩; have := H.2.2; rwa [ht] at this
  · rw [top_append, top_append, top_append, ht]

theorem cover_drop_old (b : List Rec) (h : Int) (n : Nat) (L1 G L2 : List Rec)
    (old : ∀ x ∈ G, (x.seqnum : Int) ≤ h) :
    Cover b h n (L1 ++ (G ++ L2)) → Cover b h n (L1 ++ L2) := by
  intro ⟨H1, H2⟩
  have := noGap_drop_old b h L1 G L2 old H1
  exact ⟨this.1, by rw [← this.2]; exact H2⟩

theorem cover_built (b e : List Rec) (h : Int) (n : Nat) (L : List Rec) :
    Cover b h n L → Cover (b ++ e) h n L := fun ⟨H1, H2⟩ => ⟨noGap_built b e h L H1, H2⟩

theorem cover_advance (b : List Rec) (h h' : Int) (n : Nat) (L : List Rec) (le : h ≤ h') (hn : h' + 1 ≤ n) :
    Cover b h n L → Cover b h' n L := by
  intro ⟨H1, H2⟩
  refine ⟨noGap_mono b h h' L le H1, ?_⟩
  have e : h' = max h h' := by omega
  rw [e, top_max]; omega

theorem cover_snoc (b : List Rec) (h : Int) (n : Nat) (L : List Rec) (x : Rec)
    (hx : x.seqnum = n) (hb : b[n]? = some x) : Cover b h n L → Cover b h (n + 1) (L ++ [x]) := by
  intro ⟨H1, H2⟩
  refine ⟨?_, ?_⟩
  · rw [noGap_append]; refine ⟨H1, ?_⟩
    simp only [NoGap, hx, hb, and_true]; omega
  · rw [top_append]; simp only [top, hx]; omega

theorem noGap_top_lt (b : List Rec) (h : Int) (L : List Rec) (hb : h + 1 ≤ b.length) :
    NoGap b h L → top h L + 1 ≤ b.length := by
  induction L generalizing h with
  | nil => intro _; simpa [top] using hb
  | cons x L ih =>
    simp only [NoGap, top]
    intro ⟨_, h2, h3⟩
    have hl : x.seqnum < b.length := (List.getElem?_eq_some_iff.mp h2).1
    exact ih _ (by omega) h3

/-- what the receiver already holds (parked on its new connection) in front of a stream that covers
    everything still covers everything -/
theorem cover_prefix (b : List Rec) (h : Int) (n : Nat) (P Q : List Rec) (hn : b.length = n) (hh : h + 1 ≤ n) :
    NoGap b h P → Cover b h n Q → Cover b h n (P ++ Q) := by
  intro hP ⟨hQ1, hQ2⟩
  have h1 := le_top h P
  have h2 := noGap_top_lt b h P (by omega) hP
  refine ⟨?_, ?_⟩
  · rw [noGap_append]; exact ⟨hP, noGap_mono b h _ Q h1 hQ1⟩
  · rw [top_append]
    have e : top h P = max h (top h P) := by omega
    rw [e, top_max]; omega

/-! ### the operations, field by field -/

theorem pauseProducing_eq (s : Side) : pauseProducing s = { s with paused := true } := by
  unfold pauseProducing
  split
  · next h => cases s; simp_all
  · rfl

theorem connSend_eq (s : Side) (w : Wire) :
    connSend s w = { s with out := s.out ++ [w], paused := s.paused || decide (s.budget = 1),
                            budget := s.budget - 1 } := by
  unfold connSend
  simp only
  split
  · next h => rw [pauseProducing_eq]; cases s; simp_all
  · next h => cases s; simp_all

/-- what the replay loop does: nothing but moving a prefix of the unsent deque onto the wire; it
    stops only when paused or when the deque is empty -/
theorem drain_spec (U : List Rec) : ∀ (s : Side),
    (drain s U).queue = s.queue ∧ (drain s U).next = s.next ∧ (drain s U).conn = s.conn ∧
    (drain s U).high = s.high ∧ (drain s U).dispatched = s.dispatched ∧ (drain s U).built = s.built ∧
    acksOf (drain s U).out = acksOf s.out ∧
    dataOf (drain s U).out ++ (drain s U).unsent = dataOf s.out ++ U ∧
    ((drain s U).paused = false → (drain s U).unsent = []) ∧
    (drain s U).parked = s.parked ∧ (drain s U).l4 = s.l4 := by
  induction U with
  | nil => intro s; simp [drain]
  | cons r U ih =>
    intro s
    unfold drain
    split
    · next hp => simp [hp]
    · next hp =>
      have := ih (connSend s (.msg r))
      rw [connSend_eq] at this ⊢
      simpa using this

/-! ### the invariant of one direction (sender `s`, receiver `r`) -/

structure DirInv (s r : Side) : Prop where
  /-- `built` is the ghost history of `build_record`: `next` records, the i-th has seqnum i -/
  blen : s.built.length = s.next
  bseq : ∀ (i : Nat) (x : Rec), s.built[i]? = some x → x.seqnum = i
  hlo : -1 ≤ r.high
  hhi : r.high + 1 ≤ s.next
  /-- the receiver has dispatched exactly the records up to its watermark, in order -/
  disp : r.dispatched = s.built.take (r.high + 1).toNat
  /-- `_outbound_queue` still holds everything the receiver has not seen -/
  q : Cover s.built r.high s.next s.queue
  /-- connected: what the receiver has parked, then what is in flight, then what is still to be
      replayed, has no gap for the receiver and reaches the newest record -/
  up : s.conn = true → Cover s.built r.high s.next (dataOf r.parked ++ (dataOf s.out ++ s.unsent))
  /-- not connected: nothing is waiting in `_queued_unsent`, the stale parked / in-flight records are harmless -/
  down : s.conn = false → s.unsent = [] ∧ NoGap s.built r.high (dataOf r.parked ++ dataOf s.out) ∧ s.paused = true
  /-- every ack in flight (or parked at the sender) is at or below the receiver's watermark -/
  acks : ∀ k, (k ∈ acksOf s.parked ∨ k ∈ acksOf r.out) → (k : Int) ≤ r.high
  /-- the replay loop only stops early when paused -/
  pu : s.conn = true → s.paused = false → s.unsent = []

theorem DirInv.congr {s s' r r' : Side}
    (hs : s'.queue = s.queue ∧ s'.unsent = s.unsent ∧ s'.next = s.next ∧ s'.conn = s.conn ∧
          s'.paused = s.paused ∧ s'.built = s.built)
    (hr : r'.high = r.high ∧ r'.dispatched = r.dispatched)
    (hdata : dataOf r'.parked ++ dataOf s'.out = dataOf r.parked ++ dataOf s.out)
    (hacks : ∀ k, (k ∈ acksOf s'.parked ∨ k ∈ acksOf r'.out) → (k ∈ acksOf s.parked ∨ k ∈ acksOf r.out))
    (H : DirInv s r) : DirInv s' r' := by
  obtain ⟨a1, a2, a3, a4, a5, a6⟩ := hs
  obtain ⟨b1, b2⟩ := hr
  exact
    { blen := by rw [a6, a3]; exact H.blen
      bseq := by rw [a6]; exact H.bseq
      hlo := by rw [b1]; exact H.hlo
      hhi := by rw [b1, a3]; exact H.hhi
      disp := by rw [b1, b2, a6]; exact H.disp
      q := by rw [a6, b1, a3, a1]; exact H.q
      up := by
        rw [a4, a6, b1, a3, a2, ← List.append_assoc, hdata, List.append_assoc]; exact H.up
      down := by rw [a4, a6, b1, a2, a5, hdata]; exact H.down
      acks := by rw [b1]; exact fun k hk => H.acks k (hacks k hk)
      pu := by rw [a4, a5, a2]; exact H.pu }

theorem dirInv_init : DirInv Side.init Side.init := by
  refine ⟨rfl, ?_, ?_, ?_, rfl, ?_, ?_, ?_, ?_, ?_⟩ <;> simp [Side.init, Cover, NoGap, top]

/-! #### sender-side steps -/

theorem write_fields (s : Side) (b : Body) :
    (write s b).built = s.built ++ [⟨s.next, b⟩] ∧ (write s b).next = s.next + 1 ∧
    (write s b).queue = s.queue ++ [⟨s.next, b⟩] ∧ (write s b).conn = s.conn ∧
    (write s b).high = s.high ∧ (write s b).dispatched = s.dispatched ∧
    acksOf (write s b).out = acksOf s.out ∧
    (s.conn = true → dataOf (write s b).out ++ (write s b).unsent = (dataOf s.out ++ s.unsent) ++ [⟨s.next, b⟩]) ∧
    (s.conn = false → (write s b).out = s.out ∧ (write s b).unsent = s.unsent ∧ (write s b).paused = s.paused) ∧
    (s.unsent = [] → (write s b).unsent = []) ∧
    (s.unsent ≠ [] → (write s b).paused = s.paused) ∧
    (write s b).parked = s.parked ∧ (write s b).l4 = s.l4 := by
  unfold write queueAndSend
  by_cases hc : s.conn = true
  · by_cases hu : s.unsent = []
    · simp [hc, hu, connSend_eq]
    · simp [hc, hu]
  · simp [hc]

theorem dirInv_write {s r : Side} (H : DirInv s r) (b : Body) : DirInv (write s b) r := by
  obtain ⟨f1, f2, f3, f4, _, _, _, f8, f9, f10, f11, f12, _⟩ := write_fields s b
  have hb : (s.built ++ [(⟨s.next, b⟩ : Rec)])[s.next]? = some ⟨s.next, b⟩ := by
    rw [← H.blen]; simp
  have hhi := H.hhi
  exact
    { blen := by rw [f1, f2]; simp [H.blen]
      bseq := by
        rw [f1]; intro i x hx
        by_cases hi : i < s.built.length
        · rw [List.getElem?_append_left hi] at hx; exact H.bseq i x hx
        · have : i = s.built.length := by
            have := (List.getElem?_eq_some_iff.mp hx).1; simp at this; omega
          subst this
          simp at hx; rw [← hx]; exact H.blen.symm
      hlo := H.hlo
      hhi := by rw [f2]; omega
      disp := by
        rw [f1, List.take_append_of_le_length]; exact H.disp
        rw [H.blen]; omega
      q := by rw [f1, f2, f3]; exact cover_snoc _ _ _ _ _ rfl hb (cover_built _ _ _ _ _ H.q)
      up := by
        rw [f4]; intro hc
        rw [f1, f2, f8 hc, ← List.append_assoc]
        exact cover_snoc _ _ _ _ _ rfl hb (cover_built _ _ _ _ _ (H.up hc))
      down := by
        rw [f4]; intro hc
        obtain ⟨g1, g2, g3⟩ := f9 hc
        obtain ⟨d1, d2, d3⟩ := H.down hc
        rw [g1, g2, g3, f1]; exact ⟨d1, noGap_built _ _ _ _ d2, d3⟩
      acks := by rw [f12]; exact H.acks
      pu := by
        rw [f4]; intro hc hp
        by_cases hu : s.unsent = []
        · exact f10 hu
        · rw [f11 hu] at hp; exact absurd (H.pu hc hp) hu }

/-- `use_connection` on a side that has nothing parked any more -/
theorem use_spec {s s' : Side} (k : Nat) (hu : s.unsent = []) (hp : s.paused = true)
    (hs : useConnection s k = .ok s') :
    s'.queue = s.queue ∧ s'.next = s.next ∧ s'.conn = true ∧ s'.high = s.high ∧
    s'.dispatched = s.dispatched ∧ s'.built = s.built ∧ acksOf s'.out = [] ∧
    dataOf s'.out ++ s'.unsent = s.queue ∧ (s'.paused = false → s'.unsent = []) ∧
    s'.parked = s.parked ∧ s'.l4 = s.l4 := by
  unfold useConnection at hs
  simp only [hu, ne_eq, not_true_eq_false, ↓reduceIte, List.nil_append, Except.ok.injEq] at hs
  unfold resumeProducing at hs
  simp only [hp, Bool.not_true, Bool.false_eq_true, ↓reduceIte] at hs
  obtain ⟨d1, d2, d3, d4, d5, d6, d7, d8, d9, d10, d11⟩ :=
    drain_spec s.queue { s with conn := true, out := [], budget := k, unsent := s.queue, paused := false }
  rw [hs] at d1 d2 d3 d4 d5 d6 d7 d8 d9 d10 d11
  exact ⟨d1, d2, d3, d4, d5, d6, by simpa using d7, by simpa using d8, d9, d10, d11⟩

theorem dirInv_use {s s' r : Side} (H : DirInv s r) (hc : s.conn = false) (k : Nat)
    (hs : useConnection s k = .ok s') : DirInv s' r := by
  obtain ⟨hu, hng, hp⟩ := H.down hc
  obtain ⟨d1, d2, d3, _, _, d6, _, d8, d9, d10, _⟩ := use_spec k hu hp hs
  rw [noGap_append] at hng
  exact
    { blen := by rw [d6, d2]; exact H.blen
      bseq := by rw [d6]; exact H.bseq
      hlo := H.hlo
      hhi := by rw [d2]; exact H.hhi
      disp := by rw [d6]; exact H.disp
      q := by rw [d6, d2, d1]; exact H.q
      up := by
        intro _; rw [d6, d2, d8]
        exact cover_prefix _ _ _ _ _ H.blen H.hhi hng.1 H.q
      down := by rw [d3]; intro h; cases h
      acks := by rw [d10]; exact H.acks
      pu := fun _ hp' => d9 hp' }

theorem dirInv_lose {s s' r : Side} (H : DirInv s r) (hs : stopUsingConnection s = .ok s') : DirInv s' r := by
  unfold stopUsingConnection at hs
  split at hs
  · cases hs
  · next hc =>
    have hc : s.conn = true := by simpa using hc
    rw [pauseProducing_eq] at hs
    simp only [Except.ok.injEq] at hs
    subst hs
    have hup := (H.up hc).1
    rw [← List.append_assoc, noGap_append] at hup
    exact
      { blen := H.blen, bseq := H.bseq, hlo := H.hlo, hhi := H.hhi, disp := H.disp, q := H.q
        up := by intro h; cases h
        down := fun _ => ⟨rfl, hup.1, rfl⟩
        acks := H.acks
        pu := by intro h; cases h }

theorem lose_recv {s s' : Side} (hs : stopUsingConnection s = .ok s') :
    s'.high = s.high ∧ s'.dispatched = s.dispatched ∧ s'.out = s.out ∧ s'.parked = s.parked ∧
    s'.built = s.built ∧ s'.conn = false ∧ s'.l4 = s.l4 := by
  unfold stopUsingConnection at hs
  split at hs
  · cases hs
  · rw [pauseProducing_eq] at hs
    simp only [Except.ok.injEq] at hs
    subst hs; simp

theorem dirInv_pause {s r : Side} (H : DirInv s r) : DirInv (pauseProducing s) r := by
  rw [pauseProducing_eq]
  exact
    { blen := H.blen, bseq := H.bseq, hlo := H.hlo, hhi := H.hhi, disp := H.disp, q := H.q, up := H.up
      down := fun hc => ⟨(H.down hc).1, (H.down hc).2.1, rfl⟩
      acks := H.acks
      pu := by intro _ h; cases h }

theorem dirInv_budget {s r : Side} (H : DirInv s r) (k : Nat) : DirInv { s with budget := k } r :=
  DirInv.congr (s := s) (r := r) ⟨rfl, rfl, rfl, rfl, rfl, rfl⟩ ⟨rfl, rfl⟩ rfl (fun _ h => h) H

theorem dirInv_resume {s r : Side} (H : DirInv s r) (hc : s.conn = true) : DirInv (resumeProducing s) r := by
  unfold resumeProducing
  split
  · exact H
  · obtain ⟨d1, d2, d3, _, _, d6, _, d8, d9, d10, _⟩ := drain_spec s.unsent { s with paused := false }
    simp only at d1 d2 d3 d6 d8 d10
    exact
      { blen := by rw [d6, d2]; exact H.blen
        bseq := by rw [d6]; exact H.bseq
        hlo := H.hlo
        hhi := by rw [d2]; exact H.hhi
        disp := by rw [d6]; exact H.disp
        q := by rw [d6, d2, d1]; exact H.q
        up := by intro _; rw [d6, d2, d8]; exact H.up hc
        down := by rw [d3, hc]; intro h; cases h
        acks := by rw [d10]; exact H.acks
        pu := fun _ hp' => d9 hp' }

theorem resume_recv (s : Side) :
    (resumeProducing s).high = s.high ∧ (resumeProducing s).dispatched = s.dispatched ∧
    acksOf (resumeProducing s).out = acksOf s.out ∧ (resumeProducing s).parked = s.parked ∧
    (resumeProducing s).built = s.built ∧ (resumeProducing s).conn = s.conn ∧
    (resumeProducing s).l4 = s.l4 := by
  unfold resumeProducing
  split
  · simp
  · obtain ⟨_, _, d3, d4, d5, d6, d7, _, _, d10, d11⟩ := drain_spec s.unsent { s with paused := false }
    exact ⟨d4, d5, d7, d10, d6, d3, d11⟩

/-- an ack at or below the receiver's watermark retires only records the receiver already has -/
theorem dirInv_ack {s r : Side} (H : DirInv s r) (k : Nat) (hk : (k : Int) ≤ r.high) :
    DirInv (handleAck s k) r := by
  have old : ∀ (L : List Rec), ∀ x ∈ L.takeWhile (fun r => decide (r.seqnum ≤ k)), (x.seqnum : Int) ≤ r.high := by
    intro L x hx
    have := List.all_eq_true.mp (List.all_takeWhile (l := L) (p := fun r => decide (r.seqnum ≤ k))) x hx
    simp only [decide_eq_true_eq] at this
    omega
  have split (L : List Rec) : L = L.takeWhile (fun r => decide (r.seqnum ≤ k)) ++ L.dropWhile (fun r => decide (r.seqnum ≤ k)) :=
    (List.takeWhile_append_dropWhile).symm
  unfold handleAck
  exact
    { blen := H.blen, bseq := H.bseq, hlo := H.hlo, hhi := H.hhi, disp := H.disp
      q := by
        have h := H.q
        rw [split s.queue] at h
        simpa using cover_drop_old _ _ _ [] _ _ (old s.queue) (by simpa using h)
      up := by
        intro hc
        have h := H.up hc
        rw [split s.unsent, ← List.append_assoc] at h
        have := cover_drop_old _ _ _ _ _ _ (old s.unsent) h
        rwa [List.append_assoc] at this
      down := by
        intro hc
        obtain ⟨d1, d2, d3⟩ := H.down hc
        exact ⟨by simp [d1], d2, d3⟩
      acks := H.acks
      pu := by
        intro hc hp
        simp [H.pu hc hp] }

/-- sending an ack (as the receiver of the other direction) does not disturb this direction -/
theorem dirInv_sendAck {s r : Side} (H : DirInv s r) (k : Nat) : DirInv (sendIfConnected s (.ack k)) r := by
  unfold sendIfConnected
  split
  · next hc =>
    rw [connSend_eq]
    exact
      { blen := H.blen, bseq := H.bseq, hlo := H.hlo, hhi := H.hhi, disp := H.disp, q := H.q
        up := by simpa using H.up
        down := by intro h; simp only at h; rw [hc] at h; cases h
        acks := H.acks
        pu := by
          intro _ hp
          simp only [Bool.or_eq_false_iff] at hp
          exact H.pu hc hp.1 }
  · exact H

/-! #### receiver-side step -/

theorem gotRecord_msg_recv (r : Side) (x : Rec) :
    (gotRecord r (.msg x)).high = max r.high (x.seqnum : Int) ∧
    (gotRecord r (.msg x)).dispatched =
      (if (x.seqnum : Int) ≤ r.high then r.dispatched else r.dispatched ++ [x]) ∧
    (∀ k ∈ acksOf (gotRecord r (.msg x)).out, k ∈ acksOf r.out ∨ k = x.seqnum) ∧
    (gotRecord r (.msg x)).parked = r.parked := by
  unfold gotRecord sendIfConnected isRecordOld updateAckWatermark
  by_cases hc : r.conn = true <;> by_cases old : (x.seqnum : Int) ≤ r.high <;>
    simp [hc, old, connSend_eq]
  all_goals first
    | omega
    | exact ⟨by omega, fun k h => Or.inl h⟩
    | exact fun k h => Or.inl h

theorem gotRecord_msg_send (r : Side) (x : Rec) :
    (gotRecord r (.msg x)).queue = (sendIfConnected r (.ack x.seqnum)).queue ∧
    (gotRecord r (.msg x)).unsent = (sendIfConnected r (.ack x.seqnum)).unsent ∧
    (gotRecord r (.msg x)).next = (sendIfConnected r (.ack x.seqnum)).next ∧
    (gotRecord r (.msg x)).conn = (sendIfConnected r (.ack x.seqnum)).conn ∧
    (gotRecord r (.msg x)).paused = (sendIfConnected r (.ack x.seqnum)).paused ∧
    (gotRecord r (.msg x)).built = (sendIfConnected r (.ack x.seqnum)).built ∧
    dataOf (gotRecord r (.msg x)).out = dataOf (sendIfConnected r (.ack x.seqnum)).out ∧
    (∀ k ∈ acksOf (gotRecord r (.msg x)).parked, k ∈ acksOf (sendIfConnected r (.ack x.seqnum)).parked) := by
  unfold gotRecord updateAckWatermark
  simp only
  split <;> simp

theorem sendIfConnected_frame (s : Side) (w : Wire) :
    (sendIfConnected s w).parked = s.parked ∧ (sendIfConnected s w).built = s.built ∧
    (sendIfConnected s w).conn = s.conn := by
  unfold sendIfConnected
  split <;> simp [connSend_eq]

/-- a record that is first in line for the receiver — parked on its new connection, or the head of
    what is in flight when nothing is parked — reaches `got_record` -/
theorem dirInv_recv {s s0 r r0 : Side} (H : DirInv s r) (x : Rec)
    (hstream : dataOf r.parked ++ dataOf s.out = x :: (dataOf r0.parked ++ dataOf s0.out))
    (hs : s0.queue = s.queue ∧ s0.unsent = s.unsent ∧ s0.next = s.next ∧ s0.conn = s.conn ∧
          s0.paused = s.paused ∧ s0.built = s.built ∧ (∀ k ∈ acksOf s0.parked, k ∈ acksOf s.parked))
    (hr : r0.high = r.high ∧ r0.dispatched = r.dispatched ∧ (∀ k ∈ acksOf r0.out, k ∈ acksOf r.out)) :
    DirInv s0 (gotRecord r0 (.msg x)) := by
  obtain ⟨a1, a2, a3, a4, a5, a6, a8⟩ := hs
  obtain ⟨b1, b2, b3⟩ := hr
  obtain ⟨g1, g2, g3, g4⟩ := gotRecord_msg_recv r0 x
  rw [b1] at g1
  rw [b1, b2] at g2
  have hx : (x.seqnum : Int) ≤ r.high + 1 ∧ s.built[x.seqnum]? = some x ∧
      NoGap s.built (max r.high x.seqnum) (dataOf r0.parked ++ dataOf s0.out) := by
    cases hc : s.conn
    · have := (H.down hc).2.1; rw [hstream] at this; exact this
    · have := (H.up hc).1
      rw [← List.append_assoc, hstream] at this
      simp only [List.cons_append, NoGap] at this
      rw [noGap_append] at this
      exact ⟨this.1, this.2.1, this.2.2.1⟩
  have hlt : x.seqnum < s.next := by
    rw [← H.blen]; exact (List.getElem?_eq_some_iff.mp hx.2.1).1
  have hlo := H.hlo
  have hhi := H.hhi
  exact
    { blen := by rw [a6, a3]; exact H.blen
      bseq := by rw [a6]; exact H.bseq
      hlo := by rw [g1]; omega
      hhi := by rw [g1, a3]; omega
      disp := by
        rw [g1, g2, a6]
        by_cases old : (x.seqnum : Int) ≤ r.high
        · have e : max r.high (x.seqnum : Int) = r.high := by omega
          rw [if_pos old, e]; exact H.disp
        · have e : (max r.high (x.seqnum : Int) + 1).toNat = (r.high + 1).toNat + 1 := by omega
          have e2 : (r.high + 1).toNat = x.seqnum := by omega
          rw [if_neg old, e, List.take_add_one, e2, hx.2.1, ← e2, ← H.disp]; rfl
      q := by rw [g1, a6, a3, a1]; exact cover_advance _ _ _ _ _ (by omega) (by omega) H.q
      up := by
        rw [a4]; intro hc
        rw [g1, g4, a6, a3, a2]
        have h := H.up hc
        rw [← List.append_assoc, hstream] at h
        refine ⟨?_, ?_⟩
        · have := h.1; simp only [List.cons_append, NoGap] at this
          rw [List.append_assoc] at this; exact this.2.2
        · have := h.2; simp only [List.cons_append, top] at this
          rw [List.append_assoc] at this; exact this
      down := by
        rw [a4]; intro hc
        rw [g1, g4, a6, a2, a5]
        exact ⟨(H.down hc).1, hx.2.2, (H.down hc).2.2⟩
      acks := by
        intro k hk
        rw [g1]
        rcases hk with hk | hk
        · have := H.acks k (Or.inl (a8 k hk)); omega
        · rcases g3 k hk with h | h
          · have := H.acks k (Or.inr (b3 k h)); omega
          · subst h; omega
      pu := by rw [a4, a5, a2]; exact H.pu }


/-! ### the two-sided world -/

theorem gotRecord_frame (s : Side) (m : Wire) :
    (gotRecord s m).conn = s.conn ∧ (gotRecord s m).parked = s.parked ∧ (gotRecord s m).built = s.built := by
  cases m with
  | ack k => simp [gotRecord, handleAck]
  | msg x =>
    obtain ⟨_, _, _, f4, _, f6, _, _⟩ := gotRecord_msg_send s x
    obtain ⟨g1, g2, g3⟩ := sendIfConnected_frame s (.ack x.seqnum)
    exact ⟨by rw [f4, g3], (gotRecord_msg_recv s x).2.2.2, by rw [f6, g2]⟩

/-- both directions survive when the oldest parked record is handed to `got_record` -/
theorem pair_unpark {a b : Side} (Hab : DirInv a b) (Hba : DirInv b a) (m : Wire) (rest : List Wire)
    (hp : a.parked = m :: rest) :
    DirInv (gotRecord { a with parked := rest } m) b ∧ DirInv b (gotRecord { a with parked := rest } m) := by
  cases m with
  | ack k =>
    have hk : (k : Int) ≤ b.high := Hab.acks k (Or.inl (by rw [hp]; simp))
    have Hab0 : DirInv { a with parked := rest } b :=
      DirInv.congr (s := a) (r := b) ⟨rfl, rfl, rfl, rfl, rfl, rfl⟩ ⟨rfl, rfl⟩ rfl
        (by intro j hj; rcases hj with hj | hj
            · exact Or.inl (by rw [hp]; simp [hj])
            · exact Or.inr hj) Hab
    exact ⟨dirInv_ack Hab0 k hk,
      DirInv.congr (s := b) (r := a) ⟨rfl, rfl, rfl, rfl, rfl, rfl⟩ ⟨rfl, rfl⟩
        (by show dataOf rest ++ dataOf b.out = dataOf a.parked ++ dataOf b.out; rw [hp]; rfl)
        (fun _ h => h) Hba⟩
  | msg x =>
    have Hab0 : DirInv { a with parked := rest } b :=
      DirInv.congr (s := a) (r := b) ⟨rfl, rfl, rfl, rfl, rfl, rfl⟩ ⟨rfl, rfl⟩ rfl
        (by intro j hj; rcases hj with hj | hj
            · exact Or.inl (by rw [hp]; simpa using hj)
            · exact Or.inr hj) Hab
    obtain ⟨f1, f2, f3, f4, f5, f6, f7, f8⟩ := gotRecord_msg_send { a with parked := rest } x
    refine ⟨DirInv.congr (s := sendIfConnected { a with parked := rest } (.ack x.seqnum)) (r := b)
        ⟨f1, f2, f3, f4, f5, f6⟩ ⟨rfl, rfl⟩ (by rw [f7])
        (by intro j hj; rcases hj with hj | hj
            · exact Or.inl (f8 j hj)
            · exact Or.inr hj) (dirInv_sendAck Hab0 x.seqnum), ?_⟩
    exact dirInv_recv Hba x (by rw [hp]; rfl) ⟨rfl, rfl, rfl, rfl, rfl, rfl, fun _ h => h⟩ ⟨rfl, rfl, fun _ h => h⟩

theorem processInboundQueue_pair (L : List Wire) : ∀ {a b : Side}, DirInv a b → DirInv b a → a.parked = L →
    DirInv (processInboundQueue a L) b ∧ DirInv b (processInboundQueue a L) := by
  induction L with
  | nil =>
    intro a b Hab Hba hp
    simp only [processInboundQueue]
    exact ⟨DirInv.congr (s := a) (r := b) ⟨rfl, rfl, rfl, rfl, rfl, rfl⟩ ⟨rfl, rfl⟩ rfl
              (by intro j hj; rcases hj with hj | hj
                  · simp at hj
                  · exact Or.inr hj) Hab,
           DirInv.congr (s := b) (r := a) ⟨rfl, rfl, rfl, rfl, rfl, rfl⟩ ⟨rfl, rfl⟩
              (by show dataOf [] ++ dataOf b.out = dataOf a.parked ++ dataOf b.out; rw [hp]) (fun _ h => h) Hba⟩
  | cons m rest ih =>
    intro a b Hab Hba hp
    obtain ⟨h1, h2⟩ := pair_unpark Hab Hba m rest hp
    simp only [processInboundQueue]
    exact ih h1 h2 (gotRecord_frame _ m).2.1

theorem processInboundQueue_frame (L : List Wire) : ∀ (a : Side),
    (processInboundQueue a L).conn = a.conn ∧ (processInboundQueue a L).parked = [] ∧
    (processInboundQueue a L).built = a.built := by
  induction L with
  | nil => intro a; simp [processInboundQueue]
  | cons m rest ih =>
    intro a
    simp only [processInboundQueue]
    obtain ⟨i1, i2, i3⟩ := ih (gotRecord { a with parked := rest } m)
    obtain ⟨g1, _, g3⟩ := gotRecord_frame { a with parked := rest } m
    exact ⟨by rw [i1, g1], i2, by rw [i3, g3]⟩

/-- the invariant: both directions are instances of the same one-direction invariant, and a
    connected side has nothing parked -/
def WInv (w : World) : Prop :=
  DirInv w.a w.b ∧ DirInv w.b w.a ∧ (w.a.conn = true → w.a.parked = []) ∧ (w.b.conn = true → w.b.parked = [])

theorem wInv_init : WInv World.init := ⟨dirInv_init, dirInv_init, fun _ => rfl, fun _ => rfl⟩

theorem wInv_swap {w : World} (H : WInv w) : WInv w.swap := ⟨H.2.1, H.1, H.2.2.2, H.2.2.1⟩

theorem stepA_inv {w w' : World} {act : Act} (H : WInv w) (hs : stepA w act = .ok w') : WInv w' := by
  obtain ⟨Hab, Hba, Pa, Pb⟩ := H
  cases act with
  | write b =>
    simp only [stepA, Except.ok.injEq] at hs
    subst hs
    obtain ⟨_, _, _, f4, f5, f6, f7, _, _, _, _, f12, _⟩ := write_fields w.a b
    exact ⟨dirInv_write Hab b,
      DirInv.congr (s := w.b) (r := w.a) ⟨rfl, rfl, rfl, rfl, rfl, rfl⟩ ⟨f5, f6⟩ (by rw [f12])
        (by rw [f7]; exact fun _ h => h) Hba,
      by rw [f4, f12]; exact Pa, Pb⟩
  | use k =>
    simp only [stepA] at hs
    split at hs
    · cases hs
    · next hc =>
      have hc : w.a.conn = false := by simpa using hc
      cases hu : useConnection (processInboundQueue w.a w.a.parked) k with
      | error e => rw [hu] at hs; cases hs
      | ok a' =>
        rw [hu] at hs
        simp only [Except.map, Except.ok.injEq] at hs
        subst hs
        obtain ⟨Q1, Q2⟩ := processInboundQueue_pair w.a.parked Hab Hba rfl
        obtain ⟨p1, p2, _⟩ := processInboundQueue_frame w.a.parked w.a
        have hc' : (processInboundQueue w.a w.a.parked).conn = false := by rw [p1, hc]
        obtain ⟨du, _, dp⟩ := Q1.down hc'
        obtain ⟨_, _, _, r1, r2, _, r3, _, _, r10, _⟩ := use_spec k du dp hu
        exact ⟨dirInv_use Q1 hc' k hu,
          DirInv.congr (s := w.b) (r := processInboundQueue w.a w.a.parked) ⟨rfl, rfl, rfl, rfl, rfl, rfl⟩
            ⟨r1, r2⟩ (by rw [r10])
            (by rw [r3]; intro j hj; rcases hj with hj | hj
                · exact Or.inl hj
                · cases hj) Q2,
          fun _ => by rw [r10, p2], Pb⟩
  | lose =>
    simp only [stepA] at hs
    cases hu : stopUsingConnection w.a with
    | error e => rw [hu] at hs; cases hs
    | ok a' =>
      rw [hu] at hs
      simp only [Except.map, Except.ok.injEq] at hs
      subst hs
      obtain ⟨r1, r2, r3, r4, _, r6, _⟩ := lose_recv hu
      exact ⟨dirInv_lose Hab hu,
        DirInv.congr (s := w.b) (r := w.a) ⟨rfl, rfl, rfl, rfl, rfl, rfl⟩ ⟨r1, r2⟩ (by rw [r4])
          (by rw [r3]; exact fun _ h => h) Hba,
        (by rw [r6]; intro h; cases h), Pb⟩
  | pause =>
    simp only [stepA] at hs
    split at hs
    · simp only [Except.ok.injEq] at hs
      subst hs
      refine ⟨dirInv_pause Hab, ?_, ?_, Pb⟩
      · rw [pauseProducing_eq]
        exact DirInv.congr (s := w.b) (r := w.a) ⟨rfl, rfl, rfl, rfl, rfl, rfl⟩ ⟨rfl, rfl⟩ rfl (fun _ h => h) Hba
      · rw [pauseProducing_eq]; exact Pa
    · cases hs
  | resume k =>
    simp only [stepA] at hs
    split at hs
    · next hc =>
      simp only [Except.ok.injEq] at hs
      subst hs
      obtain ⟨r1, r2, r3, r4, _, r6, _⟩ := resume_recv { w.a with budget := k }
      exact ⟨dirInv_resume (dirInv_budget Hab k) hc,
        DirInv.congr (s := w.b) (r := w.a) ⟨rfl, rfl, rfl, rfl, rfl, rfl⟩ ⟨r1, r2⟩ (by rw [r4])
          (by rw [r3]; exact fun _ h => h) Hba,
        by rw [r6, r4]; exact Pa, Pb⟩
    · cases hs
  | deliver =>
    simp only [stepA] at hs
    split at hs
    · cases hs
    · next hpk =>
      have hpk : w.a.parked = [] := by simpa using hpk
      split at hs
      · cases hs
      · next m rest hout =>
        simp only [Except.ok.injEq] at hs
        subst hs
        obtain ⟨g1, g2, _⟩ := gotRecord_frame w.a m
        refine ⟨?_, ?_, by rw [g1, g2]; exact Pa, Pb⟩
        · cases m with
          | ack k =>
            have hk : (k : Int) ≤ w.b.high := Hab.acks k (Or.inr (by rw [hout]; simp))
            exact DirInv.congr (s := handleAck w.a k) (r := w.b) ⟨rfl, rfl, rfl, rfl, rfl, rfl⟩ ⟨rfl, rfl⟩ rfl
                  (by intro j hj; rcases hj with hj | hj
                      · exact Or.inl hj
                      · exact Or.inr (by rw [hout]; simp [hj])) (dirInv_ack Hab k hk)
          | msg x =>
            obtain ⟨f1, f2, f3, f4, f5, f6, f7, f8⟩ := gotRecord_msg_send w.a x
            exact DirInv.congr (s := sendIfConnected w.a (.ack x.seqnum)) (r := w.b)
                  ⟨f1, f2, f3, f4, f5, f6⟩ ⟨rfl, rfl⟩ (by rw [f7])
                  (by intro j hj; rcases hj with hj | hj
                      · exact Or.inl (f8 j hj)
                      · exact Or.inr (by rw [hout]; simpa using hj)) (dirInv_sendAck Hab x.seqnum)
        · cases m with
          | ack k =>
            exact DirInv.congr (s := w.b) (r := w.a) ⟨rfl, rfl, rfl, rfl, rfl, rfl⟩ ⟨rfl, rfl⟩
                  (by show dataOf w.a.parked ++ dataOf rest = dataOf w.a.parked ++ dataOf w.b.out; rw [hout]; rfl)
                  (fun _ h => h) Hba
          | msg x =>
            exact dirInv_recv Hba x (by rw [hout, hpk]; rfl) ⟨rfl, rfl, rfl, rfl, rfl, rfl, fun _ h => h⟩
                  ⟨rfl, rfl, fun _ h => h⟩
  | park =>
    simp only [stepA] at hs
    split at hs
    · cases hs
    · next hc =>
      have hc : w.a.conn = false := by simpa using hc
      split at hs
      · cases hs
      · next m rest hout =>
        simp only [Except.ok.injEq] at hs
        subst hs
        refine ⟨?_, ?_, (by intro h; simp only at h; rw [hc] at h; cases h), Pb⟩
        · exact DirInv.congr (s := w.a) (r := w.b) ⟨rfl, rfl, rfl, rfl, rfl, rfl⟩ ⟨rfl, rfl⟩ rfl
            (by intro j hj; simp only [acksOf_append] at hj
                rcases hj with hj | hj
                · rcases List.mem_append.mp hj with hj | hj
                  · exact Or.inl hj
                  · exact Or.inr (by rw [hout]; cases m <;> simp_all)
                · exact Or.inr (by rw [hout]; cases m <;> simp_all)) Hab
        · exact DirInv.congr (s := w.b) (r := w.a) ⟨rfl, rfl, rfl, rfl, rfl, rfl⟩ ⟨rfl, rfl⟩
            (by show dataOf (w.a.parked ++ [m]) ++ dataOf rest = dataOf w.a.parked ++ dataOf w.b.out
                rw [hout]; cases m <;> simp)
            (fun _ h => h) Hba
  | unpark =>
    simp only [stepA] at hs
    split at hs
    · cases hs
    · next hc =>
      have hc : w.a.conn = false := by simpa using hc
      split at hs
      · cases hs
      · next m rest hp =>
        simp only [Except.ok.injEq] at hs
        subst hs
        obtain ⟨h1, h2⟩ := pair_unpark Hab Hba m rest hp
        obtain ⟨g1, _, _⟩ := gotRecord_frame { w.a with parked := rest } m
        exact ⟨h1, h2, (by intro h; rw [g1] at h; simp only at h; rw [hc] at h; cases h), Pb⟩
  | listen n =>
    simp only [stepA] at hs
    split at hs
    · cases hs
    · simp only [Except.ok.injEq] at hs
      subst hs
      exact ⟨DirInv.congr (s := w.a) (r := w.b) ⟨rfl, rfl, rfl, rfl, rfl, rfl⟩ ⟨rfl, rfl⟩ rfl (fun _ h => h) Hab,
             DirInv.congr (s := w.b) (r := w.a) ⟨rfl, rfl, rfl, rfl, rfl, rfl⟩ ⟨rfl, rfl⟩ rfl (fun _ h => h) Hba,
             Pa, Pb⟩

theorem step_inv {w w' : World} {e : Event} (H : WInv w) (hs : step w e = .ok w') : WInv w' := by
  obtain ⟨x, act⟩ := e
  cases x with
  | A => exact stepA_inv H hs
  | B =>
    simp only [step] at hs
    cases hu : stepA w.swap act with
    | error e => rw [hu] at hs; cases hs
    | ok w1 =>
      rw [hu] at hs
      simp only [Except.map, Except.ok.injEq] at hs
      subst hs
      exact wInv_swap (stepA_inv (wInv_swap H) hu)

theorem run_inv {w w' : World} (evs : List Event) (H : WInv w) (hs : run w evs = .ok w') : WInv w' := by
  induction evs generalizing w with
  | nil => simp only [run, Except.ok.injEq] at hs; subst hs; exact H
  | cons e es ih =>
    simp only [run] at hs
    split at hs
    · next w1 h1 => exact ih (step_inv H h1) hs
    · cases hs

/-! ### `built` is exactly what the schedule issued -/

theorem drain_built (U : List Rec) (s : Side) : (drain s U).built = s.built := (drain_spec U s).2.2.2.2.2.1

theorem use_built {s s' : Side} (k : Nat) (hs : useConnection s k = .ok s') : s'.built = s.built := by
  unfold useConnection at hs
  by_cases hu : s.unsent = []
  · simp only [hu, ne_eq, not_true_eq_false, ↓reduceIte, List.nil_append, Except.ok.injEq] at hs
    subst hs
    unfold resumeProducing
    split <;> simp [drain_built]
  · simp [hu] at hs

def actWrites : Act → List Body
  | .write b => [b]
  | _ => []

theorem stepA_built {w w' : World} {act : Act} (hs : stepA w act = .ok w') :
    w'.a.built.map (·.body) = w.a.built.map (·.body) ++ actWrites act ∧
    w'.b.built = w.b.built := by
  cases act with
  | write b =>
    simp only [stepA, Except.ok.injEq] at hs
    subst hs
    simp [(write_fields w.a b).1, actWrites]
  | use k =>
    simp only [stepA] at hs
    split at hs
    · cases hs
    · cases hu : useConnection (processInboundQueue w.a w.a.parked) k with
      | error e => rw [hu] at hs; cases hs
      | ok a' =>
        rw [hu] at hs
        simp only [Except.map, Except.ok.injEq] at hs
        subst hs
        simp [use_built k hu, actWrites, (processInboundQueue_frame w.a.parked w.a).2.2]
  | lose =>
    simp only [stepA] at hs
    cases hu : stopUsingConnection w.a with
    | error e => rw [hu] at hs; cases hs
    | ok a' =>
      rw [hu] at hs
      simp only [Except.map, Except.ok.injEq] at hs
      subst hs
      simp [(lose_recv hu).2.2.2.2.1, actWrites]
  | pause =>
    simp only [stepA] at hs
    split at hs
    · simp only [Except.ok.injEq] at hs
      subst hs; simp [pauseProducing_eq, actWrites]
    · cases hs
  | resume k =>
    simp only [stepA] at hs
    split at hs
    · simp only [Except.ok.injEq] at hs
      subst hs
      simp [(resume_recv { w.a with budget := k }).2.2.2.2.1, actWrites]
    · cases hs
  | deliver =>
    simp only [stepA] at hs
    split at hs
    · cases hs
    · split at hs
      · cases hs
      · next m rest hout =>
        simp only [Except.ok.injEq] at hs
        subst hs
        simp [(gotRecord_frame w.a m).2.2, actWrites]
  | park =>
    simp only [stepA] at hs
    split at hs
    · cases hs
    · split at hs
      · cases hs
      · simp only [Except.ok.injEq] at hs
        subst hs; simp [actWrites]
  | unpark =>
    simp only [stepA] at hs
    split at hs
    · cases hs
    · split at hs
      · cases hs
      · next m rest hp =>
        simp only [Except.ok.injEq] at hs
        subst hs
        simp [(gotRecord_frame { w.a with parked := rest } m).2.2, actWrites]
  | listen n =>
    simp only [stepA] at hs
    split at hs
    · cases hs
    · simp only [Except.ok.injEq] at hs
      subst hs; simp [actWrites, listen]

theorem step_built {w w' : World} {e : Event} (hs : step w e = .ok w') :
    w'.a.built.map (·.body) = w.a.built.map (·.body) ++ issued .A [e] ∧
    w'.b.built.map (·.body) = w.b.built.map (·.body) ++ issued .B [e] := by
  obtain ⟨x, act⟩ := e
  cases x with
  | A =>
    obtain ⟨h1, h2⟩ := stepA_built hs
    cases act <;> simp_all [issued, actWrites]
  | B =>
    simp only [step] at hs
    cases hu : stepA w.swap act with
    | error e => rw [hu] at hs; cases hs
    | ok w1 =>
      rw [hu] at hs
      simp only [Except.map, Except.ok.injEq] at hs
      subst hs
      obtain ⟨h1, h2⟩ := stepA_built hu
      cases act <;> simp_all [issued, World.swap, actWrites]

theorem issued_cons (x : Who) (e : Event) (es : List Event) : issued x (e :: es) = issued x [e] ++ issued x es := by
  obtain ⟨y, act⟩ := e
  cases act <;> simp [issued]
  split <;> simp

theorem run_built {w w' : World} (evs : List Event) (hs : run w evs = .ok w') :
    w'.a.built.map (·.body) = w.a.built.map (·.body) ++ issued .A evs ∧
    w'.b.built.map (·.body) = w.b.built.map (·.body) ++ issued .B evs := by
  induction evs generalizing w with
  | nil => simp only [run, Except.ok.injEq] at hs; subst hs; simp [issued]
  | cons e es ih =>
    simp only [run] at hs
    split at hs
    · next w1 h1 =>
      obtain ⟨a1, a2⟩ := step_built h1
      obtain ⟨b1, b2⟩ := ih hs
      rw [issued_cons .A, issued_cons .B, b1, b2, a1, a2]
      simp
    · cases hs

/-! ### a generation that stays up until it drains -/

theorem dataOf_eq_nil {l : List Wire} (h : ∀ r, Wire.msg r ∉ l) : dataOf l = [] := by
  induction l with
  | nil => rfl
  | cons w l ih =>
    cases w with
    | msg r => exact absurd (by simp) (h r)
    | ack k => simp only [dataOf_ack]; exact ih (fun r hr => h r (by simp [hr]))

theorem drained_all {s r : Side} (H : DirInv s r) (hc : s.conn = true) (hp : s.paused = false)
    (hd : dataOf s.out = []) (hk : dataOf r.parked = []) : r.dispatched = s.built := by
  have hu := H.pu hc hp
  have h := (H.up hc).2
  rw [hd, hu, hk] at h
  simp only [List.append_nil, top] at h
  have e : (r.high + 1).toNat = s.built.length := by rw [H.blen]; omega
  rw [H.disp, e, List.take_length]

theorem drain_budget0 (U : List Rec) : ∀ (s : Side), s.budget = 0 → s.paused = false →
    (drain s U).paused = false ∧ (drain s U).budget = 0 := by
  induction U with
  | nil => intro s hb hp; simp [drain, hb, hp]
  | cons r U ih =>
    intro s hb hp
    unfold drain
    simp only [hp, Bool.false_eq_true, ↓reduceIte]
    apply ih
    · rw [connSend_eq]; simp [hb]
    · rw [connSend_eq]; simp [hb, hp]

/-- from any state satisfying the invariant, side A can settle on a connection whose transport
    never pauses: connect if down (its Connector selects the connection, draining what is parked),
    resume if up; the peer is not touched -/
theorem settle {w : World} (H : WInv w) :
    ∃ w1, step w (.A, if w.a.conn then .resume 0 else .use 0) = .ok w1 ∧
      w1.a.conn = true ∧ w1.a.paused = false ∧ w1.b = w.b := by
  cases hc : w.a.conn
  · obtain ⟨Q1, _⟩ := processInboundQueue_pair w.a.parked H.1 H.2.1 rfl
    obtain ⟨p1, _, _⟩ := processInboundQueue_frame w.a.parked w.a
    have hc' : (processInboundQueue w.a w.a.parked).conn = false := by rw [p1, hc]
    obtain ⟨hu, _, hp⟩ := Q1.down hc'
    simp only [Bool.false_eq_true, ↓reduceIte, step, stepA, hc, useConnection, hu, ne_eq, not_true_eq_false,
      List.nil_append, Except.map, resumeProducing, hp, Bool.not_true]
    refine ⟨_, rfl, ?_, ?_, rfl⟩
    · exact (drain_spec _ _).2.2.1
    · exact (drain_budget0 _ _ rfl rfl).1
  · simp only [↓reduceIte, step, stepA, hc, resumeProducing]
    refine ⟨_, rfl, ?_, ?_, rfl⟩
    · split
      · rfl
      · rw [(drain_spec _ _).2.2.1]
    · split
      · next h => simpa using h
      · exact (drain_budget0 _ _ rfl rfl).1

/-- delivering everything A has in flight to B (which has nothing parked) always succeeds and
    leaves A's channel empty -/
theorem deliverB_run (n : Nat) : ∀ (w : World), w.a.out.length = n → w.b.parked = [] →
    ∃ w', run w (List.replicate n (.B, .deliver)) = .ok w' ∧ w'.a.out = [] ∧
      w'.a.conn = w.a.conn ∧ w'.a.paused = w.a.paused ∧ w'.b.parked = [] := by
  induction n with
  | zero =>
    intro w h hb
    exact ⟨w, rfl, List.eq_nil_of_length_eq_zero h, rfl, rfl, hb⟩
  | succ n ih =>
    intro w h hb
    cases hout : w.a.out with
    | nil => rw [hout] at h; cases h
    | cons m rest =>
      have hlen : ({ a := { w.a with out := rest }, b := gotRecord w.b m } : World).a.out.length = n := by
        rw [hout] at h; simpa using h
      have hb' : ({ a := { w.a with out := rest }, b := gotRecord w.b m } : World).b.parked = [] := by
        show (gotRecord w.b m).parked = []; rw [(gotRecord_frame w.b m).2.1, hb]
      obtain ⟨w', r1, r2, r3, r4, r5⟩ := ih _ hlen hb'
      refine ⟨w', ?_, r2, r3, r4, r5⟩
      simp only [List.replicate_succ, run, step, stepA, World.swap, hout, hb, ne_eq, not_true_eq_false,
        ↓reduceIte, Except.map]
      exact r1

/-- every enabled event succeeds: in particular `assert not self._queued_unsent` never fires -/
theorem enabledA_ok {w : World} {act : Act} (H : WInv w) (he : enabledA w act = true) :
    ∃ w', stepA w act = .ok w' := by
  cases act with
  | write b => exact ⟨_, rfl⟩
  | use k =>
    have hc : w.a.conn = false := by simpa [enabledA] using he
    obtain ⟨Q1, _⟩ := processInboundQueue_pair w.a.parked H.1 H.2.1 rfl
    obtain ⟨p1, _, _⟩ := processInboundQueue_frame w.a.parked w.a
    have hc' : (processInboundQueue w.a w.a.parked).conn = false := by rw [p1, hc]
    obtain ⟨hu, _, _⟩ := Q1.down hc'
    simp [stepA, hc, useConnection, hu, Except.map]
  | lose =>
    have hc : w.a.conn = true := by simpa [enabledA] using he
    simp [stepA, stopUsingConnection, hc, Except.map]
  | pause =>
    have hc : w.a.conn = true := by simpa [enabledA] using he
    simp [stepA, hc]
  | resume k =>
    have hc : w.a.conn = true := by simpa [enabledA] using he
    simp [stepA, hc]
  | deliver =>
    simp only [enabledA, Bool.and_eq_true, Bool.not_eq_eq_eq_not, Bool.not_true, List.isEmpty_iff] at he
    cases hout : w.b.out with
    | nil => simp [hout] at he
    | cons m rest => simp [stepA, hout, he.2]
  | park =>
    simp only [enabledA, Bool.and_eq_true, Bool.not_eq_eq_eq_not, Bool.not_true] at he
    cases hout : w.b.out with
    | nil => simp [hout] at he
    | cons m rest => simp [stepA, hout, he.1]
  | unpark =>
    simp only [enabledA, Bool.and_eq_true, Bool.not_eq_eq_eq_not, Bool.not_true, List.isEmpty_iff] at he
    cases hp : w.a.parked with
    | nil => simp [hp] at he
    | cons m rest => simp [stepA, hp, he.1]
  | listen n =>
    have hn : ¬ (n ∈ w.a.l4.factories) := by simpa [enabledA] using he
    simp [stepA, hn]

theorem enabled_ok {w : World} {e : Event} (H : WInv w) (he : enabled w e = true) :
    ∃ w', step w e = .ok w' := by
  obtain ⟨x, act⟩ := e
  cases x with
  | A => exact enabledA_ok H he
  | B =>
    obtain ⟨w1, h1⟩ := enabledA_ok (wInv_swap H) he
    exact ⟨w1.swap, by simp [step, h1, Except.map]⟩
end WV.Proofs.C10
