import WV.Model.C07
import WV.Proofs.PyIRTr

set_option linter.unusedSimpArgs false
set_option linter.unusedVariables false

/-!
Translation validation of the transit `Connection`, handshake part (PyIR, `WV.Gen.PyIRTr`) against the C07 model: lemmas.

* `pyState`: the Python strings of `Connection.state`;
* `envH`: `envT` plus what the owner (`Common`) answers — `_send_this()`, `_expect_this()`, `connection_ready(self)`,
  the two record keys — as `Env.retOfT`;
* rewriting lemmas for the sibling calls of `_dataReceived` (`_check_and_remove`, `_negotiationSuccessful`).
-/
namespace WV.Proofs.PyIRTr
open WV WV.PyIR WV.Gen.PyIRTr WV.Proofs.PyIRC03 WV.Proofs.PyIRDil

/-- the strings `Connection.state` holds -/
def pyState : C07.CState → String
  | .tooEarly => "too-early" | .relay => "relay" | .start => "start" | .handshake => "handshake"
  | .waitForDecision => "wait-for-decision" | .go => "go" | .nevermind => "nevermind"
  | .records => "records" | .hungUp => "hung up"

/-- what the owner answers -/
def retH (E : C06.Env) (cfg : C07.Cfg) (ready : C07.CState) (obj meth : String) (args : List Val) : Val :=
  match obj, meth, args with
  | "owner", "_send_this", [] => .bytes cfg.sendThis
  | "owner", "_expect_this", [] => .bytes cfg.expectThis
  | "owner", "connection_ready", [_] => .str (pyState ready)
  | "owner", "_sender_record_key", [] => .bytes (C06.senderRecordKey E cfg.isSender)
  | "owner", "_receiver_record_key", [] => .bytes (C06.receiverRecordKey E cfg.isSender)
  | _, _, _ => .none

/-- the environment of the handshake: `ready` is the state string `owner.connection_ready(self)` returns -/
def envH (E : C06.Env) (cfg : C07.Cfg) (ready : C07.CState) : Env :=
  { envT E 0 with retOfT := retH E cfg ready }

theorem envH_raises (E : C06.Env) (cfg : C07.Cfg) (r : C07.CState) : (envH E cfg r).raises = fun _ => none := rfl
theorem envH_reenter (E : C06.Env) (cfg : C07.Cfg) (r : C07.CState) : (envH E cfg r).reenter = fun _ => [] := rfl
theorem envH_ext (E : C06.Env) (cfg : C07.Cfg) (r : C07.CState) : (envH E cfg r).ext = extT E 0 := rfl
theorem envH_retOf (E : C06.Env) (cfg : C07.Cfg) (r : C07.CState) : (envH E cfg r).retOfT = retH E cfg r := rfl
theorem retH_send (E : C06.Env) (cfg : C07.Cfg) (r : C07.CState) : retH E cfg r "owner" "_send_this" [] = .bytes cfg.sendThis := rfl
theorem retH_expect (E : C06.Env) (cfg : C07.Cfg) (r : C07.CState) : retH E cfg r "owner" "_expect_this" [] = .bytes cfg.expectThis := rfl
theorem retH_ready (E : C06.Env) (cfg : C07.Cfg) (r : C07.CState) (v : Val) :
    retH E cfg r "owner" "connection_ready" [v] = .str (pyState r) := rfl
theorem retH_skey (E : C06.Env) (cfg : C07.Cfg) (r : C07.CState) :
    retH E cfg r "owner" "_sender_record_key" [] = .bytes (C06.senderRecordKey E cfg.isSender) := rfl
theorem retH_rkey (E : C06.Env) (cfg : C07.Cfg) (r : C07.CState) :
    retH E cfg r "owner" "_receiver_record_key" [] = .bytes (C06.receiverRecordKey E cfg.isSender) := rfl

macro "h_eval" "[" ts:Lean.Parser.Tactic.simpLemma,* "]" : tactic =>
  `(tactic| tr_eval_nc [envH_raises, envH_reenter, envH_ext, envH_retOf, retH_send, retH_expect, retH_ready, retH_skey,
      retH_rkey, $ts,*])

/-! ## `_check_and_remove` -/

/-- heap and result of `_check_and_remove(expected)` on the buffer `buf` -/
def carOut (h : Store) (buf expected : Bytes) : Store × Res Val :=
  match C07.checkAndRemove buf expected with
  | none => (h, .exc "BadHandshake")
  | some (false, _) => (h, .ok (.bool false))
  | some (true, rest) => (h.set "buf" (.bytes rest), .ok (.bool true))

theorem callM_check_and_remove (env : Env) (hext : env.ext = extT E did) (g : Nat) (h : Store) (buf expected : Bytes) (cs : List Call)
    (hb : h.get "buf" = some (.bytes buf)) :
    callM env tbl_Connection (g + 1) "_check_and_remove" [.bytes expected] h cs =
      ((carOut h buf expected).1, cs, (carOut h buf expected).2) := by
  by_cases h1 : (expected.take buf.length).isPrefixOf buf = true
  · by_cases h2 : buf.length < expected.length
    · tr_eval_nc [callM, tbl_Connection, m_Connection__check_and_remove, carOut, C07.checkAndRemove, hb, h1, h2, hext]
    · tr_eval_nc [callM, tbl_Connection, m_Connection__check_and_remove, carOut, C07.checkAndRemove, hb, h1, h2, hext]
  · tr_eval_nc [callM, tbl_Connection, m_Connection__check_and_remove, carOut, C07.checkAndRemove, hb, h1, hext]

/-! ## `_negotiationSuccessful` (evaluated in two halves: the kernel's checking time grows steeply with the length of a
    straight-line body) -/

theorem execB_append (env : Env) (self : SelfCall) (fuel : Nat) (a b : List Stmt) (σ : St) :
    execB env self fuel (a ++ b) σ = andThen (execB env self fuel a σ) (execB env self fuel b) := by
  induction a generalizing σ with
  | nil => simp [execB, andThen]
  | cons s r ih =>
    simp only [List.cons_append, execB]
    cases h : execS env self fuel s σ with
    | mk σ1 fl => cases fl <;> simp [andThen, ih]

def negHeap (E : C06.Env) (cfg : C07.Cfg) (h : Store) : Store :=
  ((((h.set "state" (.str "records")).set "send_box" (boxVal (C06.senderRecordKey E cfg.isSender))).set "send_nonce" (.int 0)).set
    "receive_box" (boxVal (C06.receiverRecordKey E cfg.isSender))).set "next_receive_nonce" (.int 0)

def negCalls : List Call :=
  [⟨"self", "setTimeout", [.none]⟩, ⟨"owner", "_sender_record_key", []⟩, ⟨"owner", "_receiver_record_key", []⟩]

theorem neg_first (E : C06.Env) (cfg : C07.Cfg) (r : C07.CState) (h : Store) (cs : List Call) (self : SelfCall) (f : Nat)
    (hown : h.get "owner" = some (.ref "Common" 0)) :
    ∃ l, execB (envH E cfg r) self f (m_Connection__negotiationSuccessful.2.take 8) ⟨h, [], cs⟩ =
      (⟨negHeap E cfg h, l, cs ++ negCalls⟩, .norm) := by
  h_eval [m_Connection__negotiationSuccessful, hown, negHeap, negCalls]

def negTail (dv : Val) : List Call :=
  match dv with
  | .none => []
  | _ => [⟨"$v", "callback", [dv, .obj "self" []]⟩]

def negRes (dv : Val) : Res Val :=
  match dv with
  | .none => .exc "AttributeError"
  | _ => .ok .none

theorem neg_second (E : C06.Env) (cfg : C07.Cfg) (r : C07.CState) (h : Store) (l : Store) (cs : List Call) (self : SelfCall) (f : Nat)
    (n : Nat) (dv : Val) (hdv : dv = .none ∨ dv = .ref "Deferred" n) (hnd : h.get "_negotiation_d" = some dv) :
    let w := execB (envH E cfg r) self f (m_Connection__negotiationSuccessful.2.drop 8) ⟨h, l, cs⟩
    w.1.heap = h.set "_negotiation_d" .none ∧ w.1.calls = cs ++ negTail dv ∧
      w.2 = (match dv with | .none => .exc "AttributeError" | _ => .norm) := by
  rcases hdv with rfl | rfl <;> h_eval [m_Connection__negotiationSuccessful, hnd, negTail]

/-- `_negotiationSuccessful()`: state `"records"`, timer off, both boxes from the owner's keys, both counters 0, the
    Deferred taken out of the attribute BEFORE it is fired with `self`; when it was fired before (`None.callback`)
    everything up to the call has happened and `AttributeError` leaves -/
theorem callM_negotiation (g : Nat) (E : C06.Env) (cfg : C07.Cfg) (r : C07.CState) (h : Store) (cs : List Call)
    (n : Nat) (dv : Val) (hdv : dv = .none ∨ dv = .ref "Deferred" n)
    (hown : h.get "owner" = some (.ref "Common" 0)) (hnd : h.get "_negotiation_d" = some dv) :
    callM (envH E cfg r) tbl_Connection (g + 1) "_negotiationSuccessful" [] h cs =
      ((negHeap E cfg h).set "_negotiation_d" .none, cs ++ negCalls ++ negTail dv, negRes dv) := by
  rw [callM]
  simp only [tbl_Connection, List.length_nil, if_true, bindParams, List.zip_nil_right, List.foldl_nil]
  have hsplit : m_Connection__negotiationSuccessful.2 =
      m_Connection__negotiationSuccessful.2.take 8 ++ m_Connection__negotiationSuccessful.2.drop 8 :=
    (List.take_append_drop 8 _).symm
  have hp : m_Connection__negotiationSuccessful.1 = [] := rfl
  rw [hp, hsplit, execB_append]
  simp only [List.length_nil, if_true]
  obtain ⟨l, h1⟩ := neg_first E cfg r h cs (callM (envH E cfg r) tbl_Connection g) (g + 1) hown
  rw [h1]
  simp only [andThen]
  have h2 := neg_second E cfg r (negHeap E cfg h) l (cs ++ negCalls) (callM (envH E cfg r) tbl_Connection g) (g + 1) n dv hdv
    (by simp [negHeap, get_set, hnd])
  generalize execB _ _ _ _ _ = w at h2
  obtain ⟨⟨hp', lc', cs'⟩, fl⟩ := w
  obtain ⟨e1, e2, e3⟩ := h2
  simp only at e1 e2 e3
  subst e1 e2 e3
  rcases hdv with rfl | rfl <;> simp [negRes, negTail]

/-! ## the ladder of `_dataReceived`, arm by arm -/

def outOf (cs : List Call) : List Bytes :=
  cs.filterMap fun c => match c with | ⟨"transport", "write", [.bytes b]⟩ => some b | _ => none
def lostOf (cs : List Call) : Nat :=
  (cs.filter fun c => match c with | ⟨"transport", "loseConnection", []⟩ => true | _ => false).length
def timerOff (cs : List Call) : Bool :=
  cs.any fun c => match c with | ⟨"self", "setTimeout", [.none]⟩ => true | _ => false
def firedOf (cs : List Call) : Bool :=
  cs.any fun c => match c with | ⟨"$v", "callback", [.ref "Deferred" _, .obj "self" []]⟩ => true | _ => false
def readyCalled (cs : List Call) : Bool :=
  cs.any fun c => match c with | ⟨"owner", "connection_ready", [_]⟩ => true | _ => false

/-- heap of a `Connection` during the handshake ⟷ the C07 model's `Conn` -/
structure RelH (h : Store) (c : C07.Conn) : Prop where
  state : h.get "state" = some (.str (pyState c.state))
  buf : h.get "buf" = some (.bytes c.buf)
  negd : h.get "_negotiation_d" = some (match c.negD with | .pending => .ref "Deferred" 0 | _ => .none)
  tr : h.get "transport" = some (.ref "Transport" 0)
  own : h.get "owner" = some (.ref "Common" 0)

/-- the record-layer attributes as `__init__` leaves them -/
structure FreshH (h : Store) : Prop where
  inb : h.get "_inbound_records" = some (.list [])
  wait : h.get "_waiting_reads" = some (.list [])
  cons : h.get "_consumer" = some .none
  consd : h.get "_consumer_deferred" = some .none

/-- interpreter state ⟷ model context in the middle of one `dataReceived` call that started from connection `c0` (buffer
    already extended) with `_winner = w0`; `wr` is the winner after `connection_ready` -/
structure SimC (c0 : C07.Conn) (w0 wr : Option Nat) (σ : St) (x : C07.Ctx) : Prop where
  rel : RelH σ.heap x.c
  out : x.c.out = c0.out ++ outOf σ.calls
  lost : x.c.lost = c0.lost + lostOf σ.calls
  timer : x.c.timer = if timerOff σ.calls then none else c0.timer
  fired : x.fired = if firedOf σ.calls then some none else none
  winner : x.winner = if readyCalled σ.calls then wr else w0
  frame : x.c.relayHs = c0.relayHs ∧ x.c.err = c0.err ∧ x.c.gone = c0.gone ∧ x.c.owner = c0.owner ∧ x.c.rx = c0.rx

structure Sim (E : C06.Env) (cfg : C07.Cfg) (c0 : C07.Conn) (w0 wr : Option Nat) (σ : St) (x : C07.Ctx) : Prop
    extends SimC c0 w0 wr σ x where
  nr : (x.c.state = .relay ∨ x.c.state = .start ∨ x.c.state = .handshake) → readyCalled σ.calls = false
  fr : x.c.state ≠ .records → FreshH σ.heap
  rc : x.c.state = .records → RelConn E σ.heap (C06.Conn.init cfg.isSender x.c.buf)

/-- exception class of the interpreter ⟷ the model's error, for the errors `_dataReceived` can end with (the model
    lumps the record layer's errors together as `recordError`) -/
def ExcRel (cls : String) (e : C07.Err) : Prop :=
  (e = .badHandshake ∧ cls = "BadHandshake") ∨ (e = .assertion ∧ cls = "AssertionError") ∨
  (e = .attributeError ∧ cls = "AttributeError") ∨ (e = .valueError ∧ cls = "ValueError") ∨
  (e = .recordError ∧ ∃ e6 : C06.Err, cls = e6.name)

theorem ExcRel.facts {cls : String} {e : C07.Err} (h : ExcRel cls e) :
    isPseudoExcT cls = false ∧ (cls = "BadHandshake" ↔ e = .badHandshake) ∧ (e ≠ .recordError → cls = e.name) := by
  rcases h with ⟨rfl, rfl⟩ | ⟨rfl, rfl⟩ | ⟨rfl, rfl⟩ | ⟨rfl, rfl⟩ | ⟨rfl, e6, rfl⟩
  · exact ⟨by decide, by simp, fun _ => rfl⟩
  · exact ⟨by decide, by simp, fun _ => rfl⟩
  · exact ⟨by decide, by simp, fun _ => rfl⟩
  · exact ⟨by decide, by simp, fun _ => rfl⟩
  · refine ⟨by cases e6 <;> decide, ?_, fun h => absurd rfl h⟩
    cases e6 <;> simp [C06.Err.name]

/-- outcome of a statement list ⟷ the model's `Flow` -/
def Result (E : C06.Env) (cfg : C07.Cfg) (c0 : C07.Conn) (w0 wr : Option Nat) (w : St × PyIR.Flow) (fl : C07.Flow) : Prop :=
  match fl with
  | .next x' => w.2 = .norm ∧ Sim E cfg c0 w0 wr w.1 x'
  | .ret x' => (∃ v, w.2 = .ret v) ∧ SimC c0 w0 wr w.1 x'
  | .raise e x' => (∃ cls, w.2 = .exc cls ∧ ExcRel cls e) ∧ SimC c0 w0 wr w.1 x'

theorem pyState_relay (s : C07.CState) : (pyState s = "relay") = (s = .relay) := by cases s <;> simp [pyState]
theorem pyState_start (s : C07.CState) : (pyState s = "start") = (s = .start) := by cases s <;> simp [pyState]
theorem pyState_handshake (s : C07.CState) : (pyState s = "handshake") = (s = .handshake) := by cases s <;> simp [pyState]
theorem pyState_wait (s : C07.CState) : (pyState s = "wait-for-decision") = (s = .waitForDecision) := by cases s <;> simp [pyState]
theorem pyState_go (s : C07.CState) : (pyState s = "go") = (s = .go) := by cases s <;> simp [pyState]
theorem pyState_nevermind (s : C07.CState) : (pyState s = "nevermind") = (s = .nevermind) := by cases s <;> simp [pyState]
theorem pyState_records (s : C07.CState) : (pyState s = "records") = (s = .records) := by cases s <;> simp [pyState]
theorem pyState_hungUp (s : C07.CState) : (pyState s = "hung up") = (s = .hungUp) := by cases s <;> simp [pyState]
theorem pyState_tooEarly (s : C07.CState) : (pyState s = "too-early") = (s = .tooEarly) := by cases s <;> simp [pyState]

/-- the `k`-th `if self.state == …:` of the generated `_dataReceived` (after `self.buf += data` and the assert) -/
def armStmt (k : Nat) : Stmt := ((m_Connection__dataReceived.2.drop 2)[k]?).getD .pass

macro "arm_eval" "[" ts:Lean.Parser.Tactic.simpLemma,* "]" : tactic =>
  `(tactic| h_eval [armStmt, m_Connection__dataReceived, pyState_relay, pyState_start, pyState_handshake, pyState_wait,
      pyState_go, pyState_nevermind, pyState_records, pyState_hungUp, pyState_tooEarly, C07.runArm, Result, $ts,*])


macro "simc_tac" : tactic =>
  `(tactic| (refine ⟨⟨?_, ?_, ?_, ?_, ?_⟩, ?_, ?_, ?_, ?_, ?_, ?_⟩ <;>
      first
      | assumption
      | (simp [get_set, pyState, negHeap, negCalls, outOf, lostOf, timerOff, firedOf, readyCalled, List.filterMap_append, List.filter_append,
           List.any_append, *]; done)))

theorem FreshH.set_other {h : Store} (a : String) (v : Val) (F : FreshH h) (h1 : a ≠ "_inbound_records")
    (h2 : a ≠ "_waiting_reads") (h3 : a ≠ "_consumer") (h4 : a ≠ "_consumer_deferred") : FreshH (h.set a v) := by
  obtain ⟨a1, a2, a3, a4⟩ := F
  exact ⟨by simp [get_set, h1, a1], by simp [get_set, h2, a2], by simp [get_set, h3, a3], by simp [get_set, h4, a4]⟩

macro "fresh_tac" : tactic =>
  `(tactic| (repeat (first | assumption | (apply FreshH.set_other <;> first | decide | skip))))

theorem ready_not_early (cfg : C07.Cfg) (w : Option Nat) (i : Nat) :
    (C07.connectionReady cfg w i).2 = .waitForDecision ∨ (C07.connectionReady cfg w i).2 = .nevermind ∨
      (C07.connectionReady cfg w i).2 = .go := by
  unfold C07.connectionReady
  split
  · simp
  · split <;> simp

theorem arm_handshake (E : C06.Env) (cfg : C07.Cfg) (r : C07.CState) (i g : Nat) (c0 : C07.Conn) (w0 wr : Option Nat)
    (hr : r = (C07.connectionReady cfg w0 i).2) (hwr : wr = (C07.connectionReady cfg w0 i).1)
    (σ : St) (x : C07.Ctx) (S : Sim E cfg c0 w0 wr σ x) :
    Result E cfg c0 w0 wr (execS (envH E cfg r) (callM (envH E cfg r) tbl_Connection (g + 3)) (g + 4) (armStmt 2) σ)
      (C07.runArm cfg i .handshake x) := by
  obtain ⟨⟨⟨hst, hbuf, hnd, htr, hown⟩, hout, hlost, htimer, hfired, hwin, hframe⟩, hnr, hfr, hrc⟩ := S
  obtain ⟨hp, lc, cs⟩ := σ
  simp only at hst hbuf hnd htr hown hout hlost htimer hfired hwin hnr hfr hrc
  by_cases hs : x.c.state = .handshake
  · have hF := hfr (by rw [hs]; decide)
    have hn := hnr (Or.inr (Or.inr hs))
    have hw : x.winner = w0 := by rw [hwin, hn]; simp
    cases hcr : C07.checkAndRemove x.c.buf cfg.expectThis with
    | none =>
      arm_eval [hst, hs, hbuf, hown, callM_check_and_remove (envH E cfg r) (envH_ext E cfg r) _ _ x.c.buf, carOut, hcr]
      refine ⟨by simp [ExcRel, C07.Err.name], ?_⟩
      simc_tac
    | some p =>
      obtain ⟨b, rest⟩ := p
      cases b with
      | false =>
        arm_eval [hst, hs, hbuf, hown, callM_check_and_remove (envH E cfg r) (envH_ext E cfg r) _ _ x.c.buf, carOut, hcr]
        simc_tac
      | true =>
        arm_eval [hst, hs, hbuf, hown, callM_check_and_remove (envH E cfg r) (envH_ext E cfg r) _ _ x.c.buf, carOut, hcr, hw, ← hr, ← hwr]
        have hre := ready_not_early cfg w0 i
        rw [← hr] at hre
        refine ⟨?_, ?_, ?_, ?_⟩
        · simc_tac
        · intro h; rcases hre with h' | h' | h' <;> rw [h'] at h <;> simp at h
        · intro _; fresh_tac
        · intro h; rcases hre with h' | h' | h' <;> rw [h'] at h <;> simp at h
  · arm_eval [hst, hs]
    exact ⟨⟨⟨hst, hbuf, hnd, htr, hown⟩, hout, hlost, htimer, hfired, hwin, hframe⟩, hnr, hfr, hrc⟩

theorem relConn_after_neg (E : C06.Env) (cfg : C07.Cfg) (h : Store) (rest : Bytes) (F : FreshH h)
    (htr : h.get "transport" = some (.ref "Transport" 0)) (hb : h.get "buf" = some (.bytes rest)) :
    RelConn E ((negHeap E cfg h).set "_negotiation_d" .none) (C06.Conn.init cfg.isSender rest) := by
  obtain ⟨a1, a2, a3, a4⟩ := F
  refine ⟨?_, ?_, ?_, ?_, ?_, ?_, ?_, ?_, ?_⟩ <;>
    simp [negHeap, get_set, C06.Conn.init, C06.App.init, RelCons, *]

theorem arm_wait (E : C06.Env) (cfg : C07.Cfg) (r : C07.CState) (i g : Nat) (c0 : C07.Conn) (w0 wr : Option Nat)
    (σ : St) (x : C07.Ctx) (S : Sim E cfg c0 w0 wr σ x) :
    Result E cfg c0 w0 wr (execS (envH E cfg r) (callM (envH E cfg r) tbl_Connection (g + 3)) (g + 4) (armStmt 3) σ)
      (C07.runArm cfg i .wait x) := by
  obtain ⟨⟨⟨hst, hbuf, hnd, htr, hown⟩, hout, hlost, htimer, hfired, hwin, hframe⟩, hnr, hfr, hrc⟩ := S
  obtain ⟨hp, lc, cs⟩ := σ
  simp only at hst hbuf hnd htr hown hout hlost htimer hfired hwin hnr hfr hrc
  by_cases hs : x.c.state = .waitForDecision
  · have hF := hfr (by rw [hs]; decide)
    cases hcr : C07.checkAndRemove x.c.buf [103, 111, 10] with
    | none =>
      arm_eval [hst, hs, hbuf, callM_check_and_remove (envH E cfg r) (envH_ext E cfg r) _ _ x.c.buf, carOut, hcr, Gen.Transit.GO_EXPECTED]
      refine ⟨by simp [ExcRel, C07.Err.name], ?_⟩
      simc_tac
    | some p =>
      obtain ⟨b, rest⟩ := p
      cases b with
      | false =>
        arm_eval [hst, hs, hbuf, callM_check_and_remove (envH E cfg r) (envH_ext E cfg r) _ _ x.c.buf, carOut, hcr, Gen.Transit.GO_EXPECTED]
        simc_tac
      | true =>
        cases hneg : x.c.negD with
        | pending =>
          rw [hneg] at hnd
          simp only at hnd
          arm_eval [hst, hs, hbuf, callM_check_and_remove (envH E cfg r) (envH_ext E cfg r) _ _ x.c.buf, carOut, hcr, Gen.Transit.GO_EXPECTED,
            callM_negotiation (g + 2) E cfg r _ _ 0 (.ref "Deferred" 0) (Or.inr rfl), hown, hnd, C07.negotiationSuccessful, hneg,
            negRes, negTail]
          refine ⟨?_, ?_, ?_, ?_⟩
          · simc_tac
          · intro h; simp at h
          · intro h; exact absurd rfl h
          · intro _
            exact relConn_after_neg E cfg _ rest (by fresh_tac) (by simp [get_set, htr]) (by simp [get_set])
        | ok =>
          rw [hneg] at hnd
          simp only at hnd
          arm_eval [hst, hs, hbuf, callM_check_and_remove (envH E cfg r) (envH_ext E cfg r) _ _ x.c.buf, carOut, hcr, Gen.Transit.GO_EXPECTED,
            callM_negotiation (g + 2) E cfg r _ _ 0 .none (Or.inl rfl), hown, hnd, C07.negotiationSuccessful, hneg,
            negRes, negTail]
          refine ⟨by simp [ExcRel, C07.Err.name], ?_⟩
          simc_tac
        | fail e =>
          rw [hneg] at hnd
          simp only at hnd
          arm_eval [hst, hs, hbuf, callM_check_and_remove (envH E cfg r) (envH_ext E cfg r) _ _ x.c.buf, carOut, hcr, Gen.Transit.GO_EXPECTED,
            callM_negotiation (g + 2) E cfg r _ _ 0 .none (Or.inl rfl), hown, hnd, C07.negotiationSuccessful, hneg,
            negRes, negTail]
          refine ⟨by simp [ExcRel, C07.Err.name], ?_⟩
          simc_tac
  · arm_eval [hst, hs]
    exact ⟨⟨⟨hst, hbuf, hnd, htr, hown⟩, hout, hlost, htimer, hfired, hwin, hframe⟩, hnr, hfr, hrc⟩

theorem arm_go (E : C06.Env) (cfg : C07.Cfg) (r : C07.CState) (i g : Nat) (c0 : C07.Conn) (w0 wr : Option Nat)
    (σ : St) (x : C07.Ctx) (S : Sim E cfg c0 w0 wr σ x) :
    Result E cfg c0 w0 wr (execS (envH E cfg r) (callM (envH E cfg r) tbl_Connection (g + 3)) (g + 4) (armStmt 4) σ)
      (C07.runArm cfg i .go x) := by
  obtain ⟨⟨⟨hst, hbuf, hnd, htr, hown⟩, hout, hlost, htimer, hfired, hwin, hframe⟩, hnr, hfr, hrc⟩ := S
  obtain ⟨hp, lc, cs⟩ := σ
  simp only at hst hbuf hnd htr hown hout hlost htimer hfired hwin hnr hfr hrc
  by_cases hs : x.c.state = .go
  · have hF := hfr (by rw [hs]; decide)
    cases hneg : x.c.negD with
    | pending =>
      rw [hneg] at hnd
      simp only at hnd
      arm_eval [hst, hs, hbuf, htr, Gen.Transit.GO,
        callM_negotiation (g + 2) E cfg r _ _ 0 (.ref "Deferred" 0) (Or.inr rfl), hown, hnd, C07.negotiationSuccessful, hneg,
        negRes, negTail]
      refine ⟨?_, ?_, ?_, ?_⟩
      · simc_tac
      · intro h; simp at h
      · intro h; exact absurd rfl h
      · intro _
        exact relConn_after_neg E cfg _ x.c.buf (by fresh_tac) (by simp [get_set, htr]) (by simp [get_set, hbuf])
    | ok =>
      rw [hneg] at hnd
      simp only at hnd
      arm_eval [hst, hs, hbuf, htr, Gen.Transit.GO,
        callM_negotiation (g + 2) E cfg r _ _ 0 .none (Or.inl rfl), hown, hnd, C07.negotiationSuccessful, hneg,
        negRes, negTail]
      refine ⟨by simp [ExcRel, C07.Err.name], ?_⟩
      simc_tac
    | fail e =>
      rw [hneg] at hnd
      simp only at hnd
      arm_eval [hst, hs, hbuf, htr, Gen.Transit.GO,
        callM_negotiation (g + 2) E cfg r _ _ 0 .none (Or.inl rfl), hown, hnd, C07.negotiationSuccessful, hneg,
        negRes, negTail]
      refine ⟨by simp [ExcRel, C07.Err.name], ?_⟩
      simc_tac
  · arm_eval [hst, hs]
    exact ⟨⟨⟨hst, hbuf, hnd, htr, hown⟩, hout, hlost, htimer, hfired, hwin, hframe⟩, hnr, hfr, hrc⟩

theorem arm_relay (E : C06.Env) (cfg : C07.Cfg) (r : C07.CState) (i g : Nat) (c0 : C07.Conn) (w0 wr : Option Nat)
    (σ : St) (x : C07.Ctx) (S : Sim E cfg c0 w0 wr σ x) :
    Result E cfg c0 w0 wr (execS (envH E cfg r) (callM (envH E cfg r) tbl_Connection (g + 3)) (g + 4) (armStmt 0) σ)
      (C07.runArm cfg i .relay x) := by
  obtain ⟨⟨⟨hst, hbuf, hnd, htr, hown⟩, hout, hlost, htimer, hfired, hwin, hframe⟩, hnr, hfr, hrc⟩ := S
  obtain ⟨hp, lc, cs⟩ := σ
  simp only at hst hbuf hnd htr hown hout hlost htimer hfired hwin hnr hfr hrc
  by_cases hs : x.c.state = .relay
  · have hF := hfr (by rw [hs]; decide)
    cases hcr : C07.checkAndRemove x.c.buf [111, 107, 10] with
    | none =>
      arm_eval [hst, hs, hbuf, callM_check_and_remove (envH E cfg r) (envH_ext E cfg r) _ _ x.c.buf, carOut, hcr, Gen.Transit.RELAY_OK]
      refine ⟨by simp [ExcRel, C07.Err.name], ?_⟩
      simc_tac
    | some p =>
      obtain ⟨b, rest⟩ := p
      cases b with
      | false =>
        arm_eval [hst, hs, hbuf, callM_check_and_remove (envH E cfg r) (envH_ext E cfg r) _ _ x.c.buf, carOut, hcr, Gen.Transit.RELAY_OK]
        simc_tac
      | true =>
        arm_eval [hst, hs, hbuf, callM_check_and_remove (envH E cfg r) (envH_ext E cfg r) _ _ x.c.buf, carOut, hcr, Gen.Transit.RELAY_OK]
        refine ⟨?_, ?_, ?_, ?_⟩
        · simc_tac
        · intro _; exact hnr (Or.inl hs)
        · intro _; fresh_tac
        · intro h; cases h
  · arm_eval [hst, hs]
    exact ⟨⟨⟨hst, hbuf, hnd, htr, hown⟩, hout, hlost, htimer, hfired, hwin, hframe⟩, hnr, hfr, hrc⟩

theorem arm_start (E : C06.Env) (cfg : C07.Cfg) (r : C07.CState) (i g : Nat) (c0 : C07.Conn) (w0 wr : Option Nat)
    (σ : St) (x : C07.Ctx) (S : Sim E cfg c0 w0 wr σ x) :
    Result E cfg c0 w0 wr (execS (envH E cfg r) (callM (envH E cfg r) tbl_Connection (g + 3)) (g + 4) (armStmt 1) σ)
      (C07.runArm cfg i .start x) := by
  obtain ⟨⟨⟨hst, hbuf, hnd, htr, hown⟩, hout, hlost, htimer, hfired, hwin, hframe⟩, hnr, hfr, hrc⟩ := S
  obtain ⟨hp, lc, cs⟩ := σ
  simp only at hst hbuf hnd htr hown hout hlost htimer hfired hwin hnr hfr hrc
  by_cases hs : x.c.state = .start
  · have hF := hfr (by rw [hs]; decide)
    have hn := hnr (Or.inr (Or.inl hs))
    arm_eval [hst, hs, htr, hown]
    refine ⟨?_, ?_, ?_, ?_⟩
    · simc_tac
    · intro _; simpa [readyCalled, List.any_append] using hn
    · intro _; fresh_tac
    · intro h; cases h
  · arm_eval [hst, hs]
    exact ⟨⟨⟨hst, hbuf, hnd, htr, hown⟩, hout, hlost, htimer, hfired, hwin, hframe⟩, hnr, hfr, hrc⟩

theorem arm_nevermind (E : C06.Env) (cfg : C07.Cfg) (r : C07.CState) (i g : Nat) (c0 : C07.Conn) (w0 wr : Option Nat)
    (σ : St) (x : C07.Ctx) (S : Sim E cfg c0 w0 wr σ x) :
    Result E cfg c0 w0 wr (execS (envH E cfg r) (callM (envH E cfg r) tbl_Connection (g + 3)) (g + 4) (armStmt 5) σ)
      (C07.runArm cfg i .nevermind x) := by
  obtain ⟨⟨⟨hst, hbuf, hnd, htr, hown⟩, hout, hlost, htimer, hfired, hwin, hframe⟩, hnr, hfr, hrc⟩ := S
  obtain ⟨hp, lc, cs⟩ := σ
  simp only at hst hbuf hnd htr hown hout hlost htimer hfired hwin hnr hfr hrc
  by_cases hs : x.c.state = .nevermind
  · arm_eval [hst, hs, htr, Gen.Transit.NEVERMIND]
    refine ⟨by simp [ExcRel, C07.Err.name], ?_⟩
    simc_tac
  · arm_eval [hst, hs]
    exact ⟨⟨⟨hst, hbuf, hnd, htr, hown⟩, hout, hlost, htimer, hfired, hwin, hframe⟩, hnr, hfr, hrc⟩

theorem arm_hungUp (E : C06.Env) (cfg : C07.Cfg) (r : C07.CState) (i g : Nat) (c0 : C07.Conn) (w0 wr : Option Nat)
    (σ : St) (x : C07.Ctx) (S : Sim E cfg c0 w0 wr σ x) :
    Result E cfg c0 w0 wr (execS (envH E cfg r) (callM (envH E cfg r) tbl_Connection (g + 3)) (g + 4) (armStmt 7) σ)
      (C07.runArm cfg i .hungUp x) := by
  obtain ⟨⟨⟨hst, hbuf, hnd, htr, hown⟩, hout, hlost, htimer, hfired, hwin, hframe⟩, hnr, hfr, hrc⟩ := S
  obtain ⟨hp, lc, cs⟩ := σ
  simp only at hst hbuf hnd htr hown hout hlost htimer hfired hwin hnr hfr hrc
  by_cases hs : x.c.state = .hungUp
  · arm_eval [hst, hs]
    exact ⟨⟨hst, hbuf, hnd, htr, hown⟩, hout, hlost, htimer, hfired, hwin, hframe⟩
  · arm_eval [hst, hs]
    exact ⟨⟨⟨hst, hbuf, hnd, htr, hown⟩, hout, hlost, htimer, hfired, hwin, hframe⟩, hnr, hfr, hrc⟩

theorem callM_records (E : C06.Env) (did g : Nat) (env : Env) (hext : env.ext = extT E did) (h : Store) (cs : List Call)
    (c : C06.Conn) (R : RelConn E h c) (hcn : c.app.consumer = none) (hwn : c.app.waiting = []) (hl : c.buf.length < g + 3) :
    let m := C06.dataReceivedRECORDS E (c.buf.length + 1) c
    let w := callM env tbl_Connection (g + 3) "dataReceivedRECORDS" [] h cs
    RelConn E w.1 m.1 ∧ w.2.1 = cs ∧ w.2.2 = (match m.2 with | none => .ok .none | some e => .exc e.name) ∧
      (∀ a, "buf" ≠ a → "next_receive_nonce" ≠ a → "_inbound_records" ≠ a → w.1.get a = h.get a) := by
  intro m w
  have key := records_loop E did g env hext (g + 3) ⟨h, [], cs⟩ c R hcn hwn (by show c.buf.length < g + 3; omega)
  rw [C06.fuel_mono E (g + 3) (c.buf.length + 1) c (by omega) (by omega)] at key
  obtain ⟨k1, k2, k3, _, _, k6⟩ := key
  simp only [w, m]
  rw [callM]
  simp only [tbl_Connection, dataReceivedRECORDS_shape, execB, execS, andThen, bindParams,
    List.length_nil, List.zip_nil_right, List.foldl_nil, if_true]
  generalize hw : whileLoop _ _ _ _ = ww at k1 k2 k3 k6
  obtain ⟨σ', fl⟩ := ww
  simp only at k1 k2 k3 k6
  subst k1
  cases hm2 : (C06.dataReceivedRECORDS E (c.buf.length + 1) c).2 with
  | none => simp at k2 k3 ⊢; exact ⟨k2, k3, k6⟩
  | some e => simp at k2 k3 ⊢; exact ⟨k2, k3, k6⟩

/-- what C07's abstract record layer is when C06's model is plugged in: the fresh record layer on the leftover buffer -/
def recRun (E : C06.Env) (isSender : Bool) (buf : Bytes) : C06.Conn × Option C06.Err :=
  C06.dataReceivedRECORDS E (buf.length + 1) (C06.Conn.init isSender buf)

structure CfgRec (E : C06.Env) (cfg : C07.Cfg) : Prop where
  layer : ∀ b, cfg.recLayer b =
    (match (recRun E cfg.isSender b).2 with | none => some (recRun E cfg.isSender b).1.buf | some _ => none)
  rest : ∀ b, cfg.recRest b = (recRun E cfg.isSender b).1.buf

theorem arm_records (E : C06.Env) (cfg : C07.Cfg) (CR : CfgRec E cfg) (r : C07.CState) (i g : Nat) (c0 : C07.Conn) (w0 wr : Option Nat)
    (σ : St) (x : C07.Ctx) (S : Sim E cfg c0 w0 wr σ x) (hl : x.c.buf.length < g + 3) :
    Result E cfg c0 w0 wr (execS (envH E cfg r) (callM (envH E cfg r) tbl_Connection (g + 3)) (g + 4) (armStmt 6) σ)
      (C07.runArm cfg i .records x) := by
  obtain ⟨⟨⟨hst, hbuf, hnd, htr, hown⟩, hout, hlost, htimer, hfired, hwin, hframe⟩, hnr, hfr, hrc⟩ := S
  obtain ⟨hp, lc, cs⟩ := σ
  simp only at hst hbuf hnd htr hown hout hlost htimer hfired hwin hnr hfr hrc
  by_cases hs : x.c.state = .records
  · have R := hrc hs
    have key := callM_records E 0 g (envH E cfg r) (envH_ext E cfg r) hp cs _ R rfl rfl (by simpa [C06.Conn.init] using hl)
    simp only [C06.Conn.init] at key
    generalize hcm : callM _ _ _ _ _ _ _ = w at key
    obtain ⟨h', cs', res⟩ := w
    obtain ⟨k1, k2, k3, k6⟩ := key
    simp only at k1 k2 k3 k6
    subst k2
    have hb' := k1.buf
    have hst' : h'.get "state" = some (.str (pyState x.c.state)) := by rw [k6 _ (by decide) (by decide) (by decide)]; exact hst
    have hnd' := hnd; rw [← k6 "_negotiation_d" (by decide) (by decide) (by decide)] at hnd'
    have htr' := htr; rw [← k6 "transport" (by decide) (by decide) (by decide)] at htr'
    have hown' := hown; rw [← k6 "owner" (by decide) (by decide) (by decide)] at hown'
    have hl1 := CR.layer x.c.buf
    have hl2 := CR.rest x.c.buf
    simp only [recRun, C06.Conn.init] at hl1 hl2
    cases hm : (C06.dataReceivedRECORDS E (x.c.buf.length + 1) (C06.Conn.init cfg.isSender x.c.buf)).2 with
    | none =>
      simp only [C06.Conn.init] at hm
      rw [hm] at k3 hl1
      arm_eval [hst, hs, hcm, k3, hl1]
      rw [hs] at hst'
      exact ⟨⟨hst', hb', hnd', htr', hown'⟩, hout, hlost, htimer, hfired, hwin, hframe⟩
    | some e =>
      simp only [C06.Conn.init] at hm
      rw [hm] at k3 hl1
      arm_eval [hst, hs, hcm, k3, hl1, hl2]
      rw [hs] at hst'
      exact ⟨Or.inr (Or.inr (Or.inr (Or.inr ⟨rfl, e, rfl⟩))), ⟨hst', hb', hnd', htr', hown'⟩, hout, hlost, htimer, hfired, hwin, hframe⟩
  · arm_eval [hst, hs]
    exact ⟨⟨⟨hst, hbuf, hnd, htr, hown⟩, hout, hlost, htimer, hfired, hwin, hframe⟩, hnr, hfr, hrc⟩

theorem car_len (buf e rest : Bytes) (b : Bool) (h : C07.checkAndRemove buf e = some (b, rest)) : rest.length ≤ buf.length := by
  unfold C07.checkAndRemove at h
  split at h
  · cases h
  · split at h
    · cases h; exact Nat.le_refl _
    · cases h; simp

theorem runArm_next_buf (cfg : C07.Cfg) (i : Nat) (a : C07.Arm) (x x' : C07.Ctx) (h : C07.runArm cfg i a x = .next x') :
    x'.c.buf.length ≤ x.c.buf.length := by
  cases a <;> simp only [C07.runArm] at h
  · -- relay
    split at h
    · cases hc : C07.checkAndRemove x.c.buf Gen.Transit.RELAY_OK with
      | none => rw [hc] at h; cases h
      | some p =>
        obtain ⟨b, rest⟩ := p
        rw [hc] at h
        cases b
        · cases h
        · cases h; exact car_len _ _ _ _ hc
    · cases h; exact Nat.le_refl _
  · split at h <;> cases h <;> exact Nat.le_refl _
  · split at h
    · cases hc : C07.checkAndRemove x.c.buf cfg.expectThis with
      | none => rw [hc] at h; cases h
      | some p =>
        obtain ⟨b, rest⟩ := p
        rw [hc] at h
        cases b
        · cases h
        · cases h; exact car_len _ _ _ _ hc
    · cases h; exact Nat.le_refl _
  · split at h
    · cases hc : C07.checkAndRemove x.c.buf Gen.Transit.GO_EXPECTED with
      | none => rw [hc] at h; cases h
      | some p =>
        obtain ⟨b, rest⟩ := p
        rw [hc] at h
        cases b
        · cases h
        · simp only [C07.negotiationSuccessful] at h
          split at h
          · cases h; exact car_len _ _ _ _ hc
          · cases h
    · cases h; exact Nat.le_refl _
  · split at h
    · simp only [C07.negotiationSuccessful] at h
      split at h
      · cases h; exact Nat.le_refl _
      · cases h
    · cases h; exact Nat.le_refl _
  · split at h <;> cases h <;> exact Nat.le_refl _
  · split at h
    · split at h <;> cases h
    · cases h; exact Nat.le_refl _
  · split at h <;> cases h <;> exact Nat.le_refl _

abbrev selfH (E : C06.Env) (cfg : C07.Cfg) (r : C07.CState) (g : Nat) : SelfCall := callM (envH E cfg r) tbl_Connection (g + 3)

theorem ladder_tail (E : C06.Env) (cfg : C07.Cfg) (r : C07.CState) (g : Nat) (c0 : C07.Conn) (w0 wr : Option Nat)
    (σ : St) (x : C07.Ctx) (S : Sim E cfg c0 w0 wr σ x) :
    Result E cfg c0 w0 wr (execB (envH E cfg r) (selfH E cfg r g) (g + 4) [armStmt 8, armStmt 9] σ) (.raise .valueError x) := by
  obtain ⟨⟨⟨hst, hbuf, hnd, htr, hown⟩, hout, hlost, htimer, hfired, hwin, hframe⟩, hnr, hfr, hrc⟩ := S
  obtain ⟨hp, lc, cs⟩ := σ
  simp only at hst hbuf hnd htr hown hout hlost htimer hfired hwin hnr hfr hrc
  arm_eval [hst]
  exact ⟨by simp [ExcRel, C07.Err.name], ⟨hst, hbuf, hnd, htr, hown⟩, hout, hlost, htimer, hfired, hwin, hframe⟩

theorem ladder_step (E : C06.Env) (cfg : C07.Cfg) (c0 : C07.Conn) (w0 wr : Option Nat) (i B : Nat)
    (env : Env) (self : SelfCall) (F : Nat) (s : Stmt) (rs : List Stmt) (a : C07.Arm) (ra : List (Option C07.Arm))
    (σ : St) (x : C07.Ctx) (hB : x.c.buf.length ≤ B)
    (H : Result E cfg c0 w0 wr (execS env self F s σ) (C07.runArm cfg i a x))
    (K : ∀ σ' x', Sim E cfg c0 w0 wr σ' x' → x'.c.buf.length ≤ B →
      Result E cfg c0 w0 wr (execB env self F rs σ') (C07.runArms cfg i ra x')) :
    Result E cfg c0 w0 wr (execB env self F (s :: rs) σ) (C07.runArms cfg i (some a :: ra) x) := by
  simp only [execB, C07.runArms]
  cases hfl : C07.runArm cfg i a x with
  | next x' =>
    rw [hfl] at H
    obtain ⟨h1, h2⟩ := H
    generalize execS env self F s σ = w at h1 h2
    obtain ⟨σ1, fl⟩ := w
    simp only at h1 h2
    subst h1
    simp only [andThen]
    exact K σ1 x' h2 (Nat.le_trans (runArm_next_buf cfg i a x x' hfl) hB)
  | ret x' =>
    rw [hfl] at H
    obtain ⟨⟨v, h1⟩, h2⟩ := H
    generalize execS env self F s σ = w at h1 h2
    obtain ⟨σ1, fl⟩ := w
    simp only at h1 h2
    subst h1
    simp only [andThen]
    exact ⟨⟨v, rfl⟩, h2⟩
  | raise e x' =>
    rw [hfl] at H
    obtain ⟨⟨cls, h1, h1'⟩, h2⟩ := H
    generalize execS env self F s σ = w at h1 h2
    obtain ⟨σ1, fl⟩ := w
    simp only at h1 h2
    subst h1
    simp only [andThen]
    exact ⟨⟨cls, rfl, h1'⟩, h2⟩

/-- the generated `_dataReceived` is: `self.buf += data`, the assert, the eight arms, the two fall-off statements -/
theorem dataReceived_body_shape :
    m_Connection__dataReceived.2 =
      (m_Connection__dataReceived.2.take 2) ++
        [armStmt 0, armStmt 1, armStmt 2, armStmt 3, armStmt 4, armStmt 5, armStmt 6, armStmt 7, armStmt 8, armStmt 9] := by
  rfl

theorem ladder (E : C06.Env) (cfg : C07.Cfg) (CR : CfgRec E cfg) (i g : Nat) (c0 : C07.Conn) (w0 : Option Nat)
    (σ : St) (x : C07.Ctx)
    (S : Sim E cfg c0 w0 (C07.connectionReady cfg w0 i).1 σ x) (hB : x.c.buf.length < g + 3) :
    Result E cfg c0 w0 (C07.connectionReady cfg w0 i).1
      (execB (envH E cfg (C07.connectionReady cfg w0 i).2) (selfH E cfg (C07.connectionReady cfg w0 i).2 g) (g + 4)
        [armStmt 0, armStmt 1, armStmt 2, armStmt 3, armStmt 4, armStmt 5, armStmt 6, armStmt 7, armStmt 8, armStmt 9] σ)
      (C07.runArms cfg i C07.arms x) := by
  have harms : C07.arms = [some .relay, some .start, some .handshake, some .wait, some .go, some .nevermind,
      some .records, some .hungUp] := by decide
  rw [harms]
  have hB' : x.c.buf.length ≤ g + 2 := by omega
  refine ladder_step E cfg c0 w0 _ i (g + 2) _ _ _ _ _ _ _ σ x hB' (arm_relay E cfg _ i g c0 w0 _ σ x S) ?_
  intro σ x S hB
  refine ladder_step E cfg c0 w0 _ i (g + 2) _ _ _ _ _ _ _ σ x hB (arm_start E cfg _ i g c0 w0 _ σ x S) ?_
  intro σ x S hB
  refine ladder_step E cfg c0 w0 _ i (g + 2) _ _ _ _ _ _ _ σ x hB (arm_handshake E cfg _ i g c0 w0 _ rfl rfl σ x S) ?_
  intro σ x S hB
  refine ladder_step E cfg c0 w0 _ i (g + 2) _ _ _ _ _ _ _ σ x hB (arm_wait E cfg _ i g c0 w0 _ σ x S) ?_
  intro σ x S hB
  refine ladder_step E cfg c0 w0 _ i (g + 2) _ _ _ _ _ _ _ σ x hB (arm_go E cfg _ i g c0 w0 _ σ x S) ?_
  intro σ x S hB
  refine ladder_step E cfg c0 w0 _ i (g + 2) _ _ _ _ _ _ _ σ x hB (arm_nevermind E cfg _ i g c0 w0 _ σ x S) ?_
  intro σ x S hB
  refine ladder_step E cfg c0 w0 _ i (g + 2) _ _ _ _ _ _ _ σ x hB (arm_records E cfg CR _ i g c0 w0 _ σ x S (by omega)) ?_
  intro σ x S hB
  refine ladder_step E cfg c0 w0 _ i (g + 2) _ _ _ _ _ _ _ σ x hB (arm_hungUp E cfg _ i g c0 w0 _ σ x S) ?_
  intro σ x S hB
  exact ladder_tail E cfg _ g c0 w0 _ σ x S

theorem runArms_not_next (cfg : C07.Cfg) (i : Nat) : ∀ (l : List (Option C07.Arm)) (x x' : C07.Ctx),
    C07.runArms cfg i l x ≠ .next x' := by
  intro l
  induction l with
  | nil => intro x x' h; simp [C07.runArms] at h
  | cons a rest ih =>
    intro x x' h
    cases a with
    | none => simp [C07.runArms] at h
    | some a =>
      simp only [C07.runArms] at h
      cases hf : C07.runArm cfg i a x with
      | next y => rw [hf] at h; exact ih y x' h
      | ret y => rw [hf] at h; cases h
      | raise e y => rw [hf] at h; cases h

theorem SimC.relocal {c0 : C07.Conn} {w0 wr : Option Nat} {hp l cs} (l' : Store) {x : C07.Ctx}
    (S : SimC c0 w0 wr ⟨hp, l, cs⟩ x) : SimC c0 w0 wr ⟨hp, l', cs⟩ x :=
  ⟨S.rel, S.out, S.lost, S.timer, S.fired, S.winner, S.frame⟩

/-- the connection as `_dataReceived` sees it after `self.buf += data` -/
def withData (c : C07.Conn) (data : Bytes) : C07.Conn := { c with buf := c.buf ++ data, rx := c.rx ++ data }

/-- the model's `_dataReceived` (what `dataRecv` wraps) -/
def innerFlow (cfg : C07.Cfg) (w0 : Option Nat) (i : Nat) (c : C07.Conn) (data : Bytes) : C07.Flow :=
  let x0 : C07.Ctx := { winner := w0, c := withData c data, fired := none }
  if (withData c data).state = .tooEarly then .raise .assertion x0 else C07.runArms cfg i C07.arms x0

theorem inner_agrees (E : C06.Env) (cfg : C07.Cfg) (CR : CfgRec E cfg) (i g : Nat) (c : C07.Conn) (w0 : Option Nat)
    (h : Store) (data : Bytes) (R : RelH h c) (F : FreshH h) (hs : c.state ≠ .records)
    (hlen : (c.buf ++ data).length < g + 3) :
    let rd := C07.connectionReady cfg w0 i
    let w := callM (envH E cfg rd.2) tbl_Connection (g + 4) "_dataReceived" [.bytes data] h []
    match innerFlow cfg w0 i c data with
    | .next x' => False
    | .ret x' => (∃ v, w.2.2 = .ok v) ∧ SimC (withData c data) w0 rd.1 ⟨w.1, [], w.2.1⟩ x'
    | .raise e x' => (∃ cls, w.2.2 = .exc cls ∧ ExcRel cls e) ∧ SimC (withData c data) w0 rd.1 ⟨w.1, [], w.2.1⟩ x' := by
  intro rd w
  obtain ⟨hst, hbuf, hnd, htr, hown⟩ := R
  simp only [w]
  rw [callM]
  simp only [tbl_Connection]
  have hp : m_Connection__dataReceived.1 = ["data"] := rfl
  rw [hp, dataReceived_body_shape, execB_append]
  simp only [List.length_cons, List.length_nil, if_true]
  by_cases hte : c.state = .tooEarly
  · h_eval [m_Connection__dataReceived, hbuf, hst, hte, pyState, innerFlow, withData]
    refine ⟨by simp [ExcRel, C07.Err.name], ?_⟩
    simc_tac
  · generalize hK : execB (envH E cfg rd.2) _ (g + 4)
      [armStmt 0, armStmt 1, armStmt 2, armStmt 3, armStmt 4, armStmt 5, armStmt 6, armStmt 7, armStmt 8, armStmt 9] = K
    h_eval [m_Connection__dataReceived, hbuf, hst, hte, pyState_tooEarly, innerFlow, withData]
    have S0 : Sim E cfg (withData c data) w0 rd.1
        ⟨h.set "buf" (Val.bytes (c.buf ++ data)), [("data", Val.bytes data)], []⟩
        { winner := w0, c := withData c data, fired := none } := by
      refine ⟨?_, ?_, ?_, ?_⟩
      · simp only [withData]; simc_tac
      · intro _; rfl
      · intro _; fresh_tac
      · intro hh; exact absurd hh hs
    have L := ladder E cfg CR i g (withData c data) w0 _ _ S0 (by simpa [withData] using hlen)
    rw [hK] at L
    simp only [withData] at L
    generalize K _ = w at L ⊢
    obtain ⟨⟨hp1, l1, cs1⟩, fl1⟩ := w
    cases hfl : C07.runArms cfg i C07.arms
      { winner := w0,
        c := { state := c.state, buf := c.buf ++ data, relayHs := c.relayHs, out := c.out, lost := c.lost, err := c.err,
               negD := c.negD, timer := c.timer, gone := c.gone, owner := c.owner, rx := c.rx ++ data },
        fired := none } with
    | next x' => exact absurd hfl (runArms_not_next cfg i _ _ _)
    | ret x' =>
      rw [hfl] at L
      obtain ⟨⟨v, e1⟩, S1⟩ := L
      simp only at e1
      subst e1
      exact ⟨⟨v, rfl⟩, S1.relocal []⟩
    | raise e x' =>
      rw [hfl] at L
      obtain ⟨⟨cls, e1, e2⟩, S1⟩ := L
      simp only at e1
      subst e1
      exact ⟨⟨cls, rfl, e2⟩, S1.relocal []⟩

end WV.Proofs.PyIRTr
