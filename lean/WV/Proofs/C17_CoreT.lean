import WV.Proofs.C17_Inv

/-!
C17 helper lemmas, part 4: the remaining Core-level transitions of the control invariant.
-/
namespace WV.Proofs.C17
open WV WV.Gen WV.C17

variable {ps : String} {pend : List Thunk} {k : Core}

theorem InvC.firedFalse (h : InvC ps pend k) (hs : k.ms ≠ .STOPPED) : k.fired = false := by
  cases hfd : k.fired
  · rfl
  · exact absurd (h.fired.mpr hfd) hs

/-- a consumed thunk that nothing in the invariant depends on -/
theorem InvC.dropPend {t : Thunk} (h : InvC ps (t :: pend) k)
    (h1 : t ≠ .mgrLost ∨ ¬ inConn k.ms) (h2 : t ≠ .stoppedD ∨ k.ts ≠ .S_stoppingD) : InvC ps pend k := by
  refine { h with armed := ?_, tsB := ?_ }
  · intro hi
    obtain ⟨c, x, a1, a2, a3, a4⟩ := h.armed hi
    refine ⟨c, x, a1, a2, ?_, a4⟩
    rcases a3 with a3 | a3
    · exact Or.inl a3
    · right
      rcases h1 with h1 | h1
      · simp only [List.cons_append, List.mem_cons] at a3
        rcases a3 with a3 | a3
        · exact absurd a3.symm h1
        · exact a3
      · exact absurd hi h1
  · intro ht
    obtain ⟨a, b⟩ := h.tsB ht
    refine ⟨a, ?_⟩
    rcases b with ⟨b1, b2⟩ | b
    · left
      refine ⟨b1, ?_⟩
      rcases h2 with h2 | h2
      · simp only [List.cons_append, List.mem_cons] at b2
        rcases b2 with b2 | b2
        · exact absurd b2.symm h2
        · exact b2
      · exact absurd ht h2
    · exact Or.inr b

/-- a longer list of pending thunks never hurts -/
theorem InvC.addPend {t : Thunk} (h : InvC ps pend k) : InvC ps (t :: pend) k := by
  refine { h with armed := ?_, tsB := ?_ }
  · intro hi
    obtain ⟨c, x, a1, a2, a3, a4⟩ := h.armed hi
    refine ⟨c, x, a1, a2, ?_, a4⟩
    rcases a3 with a3 | a3
    · exact Or.inl a3
    · exact Or.inr (by simp only [List.cons_append, List.mem_cons]; exact Or.inr a3)
  · intro ht
    obtain ⟨a, b⟩ := h.tsB ht
    refine ⟨a, ?_⟩
    rcases b with ⟨b1, b2⟩ | b
    · exact Or.inl ⟨b1, by simp only [List.cons_append, List.mem_cons]; exact Or.inr b2⟩
    · exact Or.inr b

/-- moving the queue into the pending list (start of a turn) -/
theorem InvC.startTurn (h : InvC ps [] k) : InvC ps k.queue { k with queue := [] } := by
  refine { h with armed := ?_, tsB := ?_ }
  · intro hi
    obtain ⟨c, x, a1, a2, a3, a4⟩ := h.armed hi
    exact ⟨c, x, a1, a2, by simpa using a3, a4⟩
  · intro ht
    obtain ⟨a, b⟩ := h.tsB ht
    exact ⟨a, by simpa using b⟩

/-- forgetting the connection outside the connected states (a stray connection_lost) -/
theorem InvC.clearConn (h : InvC ps pend k) (hn : ¬ inConn k.ms) : InvC ps pend { k with conn := none } := by
  refine { h with armed := ?_ }
  intro hi
  exact absurd hi hn

/-- CONNECTED → FLUSHING / LONELY -/
theorem InvC.toIdle (h : InvC ps pend k) (hm : k.hasMgr = true) (hs : k.ms = .CONNECTED) (s' : Manager.State)
    (hs' : s' = .FLUSHING ∨ s' = .LONELY) : InvC ps pend { k with ms := s', conn := none } := by
  obtain ⟨hr, hk⟩ := h.roleSet (by simp [active, hs])
  have hf := h.firedFalse (by simp [hs])
  refine ⟨?_, h.roleVal, ?_, ?_, ?_, ?_, ?_, ?_, ?_, ?_, h.tsC⟩
  · intro hh; simp [hm] at hh
  · intro _; exact ⟨hr, hk⟩
  · intro hh; rcases hs' with e | e <;> simp [e] at hh
  · intro hh; rcases hs' with e | e <;> simp [e] at hh
  · intro g hg
    have := (h.ctorB g hg).2
    simp [hs] at this
  · intro hh; rcases hs' with e | e <;> simp [e, inConn] at hh
  · rcases hs' with e | e <;> simp [e, hf]
  · intro _ _; rcases hs' with e | e <;> simp [e]
  · intro ht
    obtain ⟨_, b⟩ := h.tsB ht
    rcases b with ⟨b, _⟩ | ⟨b, _⟩ <;> simp [hs] at b

/-- STOPPING → STOPPED: `notify_stopped` hands every waiting `when_stopped` Deferred to the queue -/
theorem InvC.stoppingToStopped (h : InvC ps pend k) (hm : k.hasMgr = true) (hs : k.ms = .STOPPING) :
    InvC ps pend { k with ms := .STOPPED, conn := none, fired := true,
                          queue := k.queue ++ List.replicate k.stoppedObs .stoppedD, stoppedObs := 0 } := by
  refine ⟨?_, h.roleVal, ?_, ?_, ?_, ?_, ?_, ?_, ?_, ?_, h.tsC⟩
  · intro hh; simp [hm] at hh
  · intro hh; simp [active] at hh
  · intro hh; simp at hh
  · intro hh; simp at hh
  · intro g hg
    have := (h.ctorB g hg).2
    simp [hs] at this
  · intro hh; simp [inConn] at hh
  · simp
  · intro a b
    have := (h.tsA a b).1
    exact absurd hs this
  · intro ht
    obtain ⟨_, b⟩ := h.tsB ht
    refine ⟨hm, Or.inl ⟨rfl, ?_⟩⟩
    rcases b with ⟨b, _⟩ | ⟨_, b⟩
    · simp [hs] at b
    · apply List.mem_append.mpr
      right
      apply List.mem_append.mpr
      right
      exact List.mem_replicate.mpr ⟨by omega, rfl⟩

/-- the winning connection has been selected and handed to the Manager -/
theorem InvC.toConnected (h : InvC ps pend k) (hm : k.hasMgr = true) (hs : k.ms = .CONNECTING)
    (ct : List Connector.State) (hct : ∀ g : Nat, ct[g]? ≠ some Connector.State.connecting)
    (cs : List Conn) (q : List Thunk) (c : Nat) (y : Conn) (hy : cs[c]? = some y)
    (harm : (y.lost = false ∧ y.obsMgr = true) ∨ Thunk.mgrLost ∈ pend ++ q) (hq : ∀ t ∈ k.queue, t ∈ q) :
    InvC ps pend { k with ms := .CONNECTED, ctors := ct, conns := cs, conn := some c, queue := q } := by
  obtain ⟨hr, hk⟩ := h.roleSet (by simp [active, hs])
  have hf := h.firedFalse (by simp [hs])
  refine ⟨?_, h.roleVal, ?_, ?_, ?_, ?_, ?_, ?_, ?_, ?_, h.tsC⟩
  · intro hh; simp [hm] at hh
  · intro _; exact ⟨hr, hk⟩
  · intro hh; simp at hh
  · intro hh; simp at hh
  · intro g hg; exact absurd hg (hct g)
  · intro _; exact ⟨c, y, rfl, hy, harm, by simp⟩
  · simp [hf]
  · intro _ _; simp
  · intro ht
    obtain ⟨_, b⟩ := h.tsB ht
    rcases b with ⟨b, _⟩ | ⟨b, _⟩ <;> simp [hs] at b

/-- in CONNECTING the Connector picked a winner but the hand-over raised (or the Connector simply
    reached `connected`): nothing the invariant needs is lost -/
theorem InvC.ctorChanged (h : InvC ps pend k) (g : Nat) (st' : Connector.State) (hst : st' ≠ .connecting)
    (hne : k.ms = .CONNECTING → ∀ g' st, k.ctors.length = g' + 1 → k.ctors[g']? = some st → g' = g → st' ≠ .stopped)
    (cs : List Conn) (q : List Thunk) (hc : ConnsLe k.conns cs) (hq : ∀ t ∈ k.queue, t ∈ q) :
    InvC ps pend { k with ctors := k.ctors.set g st', conns := cs, queue := q } := by
  have h' := h.mono hc hq
  refine { h' with noMgr := ?_, ctor := ?_, ctorB := ?_ }
  · intro hh
    obtain ⟨a, b, c, d, e⟩ := h.noMgr hh
    exact ⟨a, by simp [b], c, d, e⟩
  · intro hms
    obtain ⟨g', st, hlen, hget, hns⟩ := h.ctor hms
    by_cases he : g' = g
    · refine ⟨g', st', by simpa using hlen, ?_, hne hms g' st hlen hget he⟩
      subst he
      simp only [List.getElem?_set]
      have : g' < k.ctors.length := by omega
      simp [this]
    · refine ⟨g', st, by simpa using hlen, ?_, hns⟩
      simp only [List.getElem?_set]
      have : ¬ g = g' := fun e => he e.symm
      simp [this, hget]
  · intro g' hg'
    simp only [List.getElem?_set] at hg'
    by_cases he : g = g'
    · simp [he] at hg'
      exact absurd hg'.2 hst
    · simp [he] at hg'
      have := h.ctorB g' hg'
      simpa using this

/-- a connection is reported lost by the network -/
theorem InvC.lostConn (h : InvC ps pend k) (c : Nat) (x : Conn) (hx : k.conns[c]? = some x) (hl : x.lost = false) :
    InvC ps pend { k with
      conns := k.conns.modify c fun y => { y with lost := true, obsDiscard := false, obsMgr := false },
      queue := k.queue ++ (if x.obsDiscard then [Thunk.discard c] else []) ++ (if x.obsMgr then [Thunk.mgrLost] else []) } := by
  refine { h with armed := ?_, tsB := ?_ }
  · intro hi
    obtain ⟨c', x', a1, a2, a3, a4⟩ := h.armed hi
    by_cases he : c = c'
    · subst he
      rw [hx] at a2
      cases a2
      refine ⟨c, { x with lost := true, obsDiscard := false, obsMgr := false }, a1, by simp [List.getElem?_modify, hx], ?_, ?_⟩
      · right
        rcases a3 with ⟨_, a3⟩ | a3
        · simp [a3]
        · rcases List.mem_append.mp a3 with a3 | a3
          · exact List.mem_append.mpr (Or.inl a3)
          · apply List.mem_append.mpr; right
            simp [a3]
      · intro _; exact Or.inr rfl
    · refine ⟨c', x', a1, by simp [List.getElem?_modify, he, a2], ?_, a4⟩
      rcases a3 with a3 | a3
      · exact Or.inl a3
      · right
        rcases List.mem_append.mp a3 with a3 | a3
        · exact List.mem_append.mpr (Or.inl a3)
        · apply List.mem_append.mpr; right
          simp [a3]
  · intro ht
    obtain ⟨a, b⟩ := h.tsB ht
    refine ⟨a, ?_⟩
    rcases b with ⟨b1, b2⟩ | b
    · left
      refine ⟨b1, ?_⟩
      rcases List.mem_append.mp b2 with b2 | b2
      · exact List.mem_append.mpr (Or.inl b2)
      · apply List.mem_append.mpr; right
        simp [b2]
    · exact Or.inr b

theorem InvC.setPMsgs (h : InvC ps pend k) (hm : k.hasMgr = true) (l : List Msg) : InvC ps pend { k with pMsgs := l } := by
  refine { h with noMgr := ?_ }
  intro hh; simp [hm] at hh

/-- `Dilator.dilate()` builds the Manager -/
theorem InvC.mkMgr (h : InvC ps pend k) : InvC ps pend { k with hasMgr := true } := by
  refine { h with noMgr := ?_, tsB := ?_ }
  · intro hh; simp at hh
  · intro ht
    exact ⟨rfl, (h.tsB ht).2⟩

theorem InvC.setKey (h : InvC ps pend k) : InvC ps pend { k with key := true } := by
  refine { h with roleSet := ?_ }
  intro ha
  exact ⟨(h.roleSet ha).1, rfl⟩

theorem InvC.setPKey (h : InvC ps pend k) : InvC ps pend { k with pKey := true } := by
  refine { h with noMgr := ?_ }
  intro hh
  obtain ⟨a, b, c, _, e⟩ := h.noMgr hh
  exact ⟨a, b, c, fun _ => rfl, e⟩

theorem InvC.pendMsg (h : InvC ps pend k) (m : Msg) (hok : okMsg ps k.mySide m) (hk : k.pKey = true) :
    InvC ps pend { k with pMsgs := k.pMsgs ++ [m] } := by
  refine { h with noMgr := ?_ }
  intro hh
  obtain ⟨a, b, c, _, e⟩ := h.noMgr hh
  refine ⟨a, b, c, fun _ => hk, ?_⟩
  intro m' hm'
  rcases List.mem_append.mp hm' with hm' | hm'
  · exact e m' hm'
  · simp at hm'; subst hm'; exact hok

/-- the Terminator moves between states that are before `stop_dilator` -/
theorem InvC.tsMove (h : InvC ps pend k) (ts' : Terminator.State) (h1 : k.ts ≠ .S_stoppingD) (h2 : k.ts ≠ .S_stopped)
    (h1' : ts' ≠ .S_stoppingD) (h2' : ts' ≠ .S_stopped) : InvC ps pend { k with ts := ts' } := by
  refine { h with tsA := ?_, tsB := ?_, tsC := ?_ }
  · intro _ _; exact h.tsA h1 h2
  · intro hh; exact absurd hh h1'
  · have := h.tsC
    simp [h2] at this
    simp [h2', this]

/-- `S_stoppingD --stoppedD--> S_stopped [B_closed]` -/
theorem InvC.tsClosed (h : InvC ps pend k) (hs : k.ts = .S_stoppingD) :
    InvC ps pend { k with ts := .S_stopped, closed := k.closed + 1 } := by
  refine { h with tsA := ?_, tsB := ?_, tsC := ?_ }
  · intro _ hh; simp at hh
  · intro hh; simp at hh
  · have := h.tsC
    simp [hs] at this
    simp [this]

/-- `Dilator.stop()` on a Manager that stops at once -/
theorem InvC.stopNow (h : InvC ps pend k) (hm : k.hasMgr = true) (hs : k.ms ≠ .STOPPED) (hts : k.ts = .S_stoppingRC)
    (ct : List Connector.State) (hct : ∀ g : Nat, ct[g]? ≠ some Connector.State.connecting)
    (cs : List Conn) (q : List Thunk) (hq : Thunk.stoppedD ∈ q) (n : Nat) (conn' : Option Nat) :
    InvC ps pend { k with ms := .STOPPED, fired := true, ctors := ct, conns := cs, queue := q, stoppedObs := n,
                          ts := .S_stoppingD, conn := conn' } := by
  refine ⟨?_, h.roleVal, ?_, ?_, ?_, ?_, ?_, ?_, ?_, ?_, ?_⟩
  · intro hh; simp [hm] at hh
  · intro hh; simp [active] at hh
  · intro hh; simp at hh
  · intro hh; simp at hh
  · intro g hg; exact absurd hg (hct g)
  · intro hh; simp [inConn] at hh
  · simp
  · intro hh; simp at hh
  · intro _; exact ⟨hm, Or.inl ⟨rfl, List.mem_append.mpr (Or.inr hq)⟩⟩
  · have := h.tsC
    simp [hts] at this
    simp [this]

/-- `Dilator.stop()` on a Manager that has to wait for its connection to go away -/
theorem InvC.stopLater (h : InvC ps pend k) (hm : k.hasMgr = true) (hs : k.ms = .CONNECTED ∨ k.ms = .ABANDONING)
    (hts : k.ts = .S_stoppingRC) (cs : List Conn) (hc : ConnsLe k.conns cs)
    (hcl : k.ms = .CONNECTED → ∀ c, k.conn = some c → ∃ y, cs[c]? = some y ∧ y.closing = true) :
    InvC ps pend { k with ms := .STOPPING, conns := cs, stoppedObs := k.stoppedObs + 1, ts := .S_stoppingD } := by
  have hact : active k.ms := by rcases hs with e | e <;> simp [active, e]
  obtain ⟨hr, hk⟩ := h.roleSet hact
  have hf := h.firedFalse (by rcases hs with e | e <;> simp [e])
  refine ⟨?_, h.roleVal, ?_, ?_, ?_, ?_, ?_, ?_, ?_, ?_, ?_⟩
  · intro hh; simp [hm] at hh
  · intro _; exact ⟨hr, hk⟩
  · intro hh; simp at hh
  · intro hh; simp at hh
  · intro g hg
    have := (h.ctorB g hg).2
    rcases hs with e | e <;> simp [e] at this
  · intro _
    obtain ⟨c, x, a1, a2, a3, a4⟩ := h.armed (by rcases hs with e | e <;> simp [inConn, e])
    obtain ⟨y, hy, e1, o1, c1⟩ := hc c x a2
    refine ⟨c, y, a1, hy, ?_, ?_⟩
    · rcases a3 with ⟨a, b⟩ | a3
      · exact Or.inl ⟨e1.trans a, o1 b⟩
      · exact Or.inr a3
    · intro _
      rcases hs with e | e
      · obtain ⟨y', hy', hyc⟩ := hcl e c a1
        rw [hy] at hy'
        cases hy'
        exact Or.inl hyc
      · rcases a4 (by simp [e]) with a4 | a4
        · exact Or.inl (c1 a4)
        · exact Or.inr (e1.trans a4)
  · simp [hf]
  · intro hh; simp at hh
  · intro _; exact ⟨hm, Or.inr ⟨rfl, by simp⟩⟩
  · have := h.tsC
    simp [hts] at this
    simp [this]

end WV.Proofs.C17
