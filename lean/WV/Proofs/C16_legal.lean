import WV.Proofs.C16

/-! C16: legal operations never raise in a state satisfying the invariant. -/
namespace WV.Proofs.C16
open WV WV.Gen WV.C16

/-- what a clock step that runs the timer in state `connected` does, by the id drawn -/
theorem expiry_connected {T : Nat} {s : St} (ht : s.traffic = some .connected) :
    (timerExpired (Cfg.real T) s).2 = (if freshNext s = true then none else some .assertionError) := by
  simp only [timerExpired, ttInput, ht, real_tbl]
  simp [TrafficTimer.table, ttOutputs, sprt_none]
  split <;> simp_all

theorem expiry_idle {T : Nat} {s : St} (ht : s.traffic = some .idle_traffic) :
    (timerExpired (Cfg.real T) s).2 = none := by
  simp [timerExpired, ttInput, ht, TrafficTimer.table, ttOutputs]

/-- a legal operation either completes or fails the one assert on the random source -/
theorem legal_res {T : Nat} {s : St} {o : Op} (hi : Inv T s) (hl : legal s o = true) :
    (step (Cfg.real T) s o).2 = none ∨
      ((step (Cfg.real T) s o).2 = some .assertionError ∧ freshNext s = false) := by
  obtain ⟨h1, h2, h3, h4, h5, h6, h7, h8, h9, h10, h11, h12, h13⟩ := hi
  cases o with
  | tick =>
    simp only [step, tick]
    cases htm : s.timer with
    | none => left; rfl
    | some d =>
      obtain ⟨hm, _, _, _⟩ := h6 d htm
      obtain ⟨c, hc, ho, htr⟩ := h4 (by simp [hm, inUse])
      have hrl : s.role = some true := by
        cases hr : s.role with
        | none => simp_all
        | some b => cases b <;> simp_all
      simp only
      split
      · rcases htr hrl with ht | ht
        · rw [expiry_connected (by exact ht)]
          by_cases hf : freshNext s = true
          · left; simp only [freshNext_eq] at hf ⊢; simp [hf]
          · right; simp only [freshNext_eq] at hf ⊢; simp [hf]
        · left; exact expiry_idle (by exact ht)
      · left; rfl
  | stall n =>
    simp only [step, stall]
    cases htm : s.timer with
    | none => left; rfl
    | some d =>
      obtain ⟨hm, _, _, _⟩ := h6 d htm
      obtain ⟨c, hc, ho, htr⟩ := h4 (by simp [hm, inUse])
      have hrl : s.role = some true := by
        cases hr : s.role with
        | none => simp_all
        | some b => cases b <;> simp_all
      simp only
      split
      · rcases htr hrl with ht | ht
        · rw [expiry_connected (by exact ht)]
          by_cases hf : freshNext s = true
          · left; simp only [freshNext_eq] at hf ⊢; simp [hf]
          · right; simp only [freshNext_eq] at hf ⊢; simp [hf]
        · left; exact expiry_idle (by exact ht)
      · left; rfl
  | pause => left; rfl
  | resume => left; rfl
  | cpause k => left; rfl
  | cresume k => left; rfl
  | rnd ids => left; rfl
  | start =>
    simp only [legal, beq_iff_eq] at hl
    left; simp [step, mgrInput, hl, Manager.table, mgrOutputs, mgrOutput]
  | please b =>
    simp only [legal, beq_iff_eq] at hl
    left; simp [step, mgrInput, hl, Manager.table, mgrOutputs, mgrOutput]
  | reconnecting =>
    simp only [legal, beq_iff_eq] at hl
    left; simp [step, mgrInput, hl, Manager.table, mgrOutputs, mgrOutput]
  | reconnect =>
    simp only [legal, Bool.or_eq_true, beq_iff_eq] at hl
    left
    rcases hl with (hl | hl) | hl
    · obtain ⟨c, hc, _, _⟩ := h4 (by simp [hl, inUse])
      simp [step, mgrInput, hl, Manager.table, mgrOutputs, mgrOutput, hc]
    · simp [step, mgrInput, hl, Manager.table, mgrOutputs, mgrOutput]
    · simp [step, mgrInput, hl, Manager.table, mgrOutputs, mgrOutput]
  | stop =>
    simp only [legal, Bool.and_eq_true, bne_iff_ne, ne_eq] at hl
    left
    cases hm : s.mgr <;> simp [hm] at hl
    all_goals try simp [step, mgrInput, hm, Manager.table, mgrOutputs, mgrOutput]
    obtain ⟨c, hc, _, _⟩ := h4 (by simp [hm, inUse])
    simp [hc]
  | pong id =>
    simp only [legal] at hl
    left
    simp only [step, gotPong]
    split
    · rename_i hany
      have hu : inUse s.mgr = true := by
        cases hu : inUse s.mgr with
        | true => rfl
        | false => have := (h5 hu).1; simp [this] at hl
      obtain ⟨c, hc, _, htr⟩ := h4 hu
      have hrl : s.role = some true := by
        apply Classical.byContradiction
        intro hne
        have := (h3 (h2 hne)).2.1
        simp [this] at hany
      rcases htr hrl with ht | ht <;> simp [ttInput, ht, TrafficTimer.table, ttOutputs]
    · rfl
  | made =>
    simp only [legal, beq_iff_eq] at hl
    obtain ⟨hc, ho, htm, htr⟩ := h5 (by simp [hl, inUse])
    simp only [step, connMade]
    by_cases hrl : s.role = some true
    · by_cases hf : freshNext s = true
      · left
        simp only [freshNext_eq] at hf
        rcases htr with ht | ht <;>
          simp [hrl, ht, ttInput, TrafficTimer.table, TrafficTimer.init, ttOutputs, sprt_none, htm, hf, pinged,
            mgrInput, hl, Manager.table, mgrOutputs]
      · right
        simp only [freshNext_eq] at hf ⊢
        rcases htr with ht | ht <;>
          simp [hrl, ht, ttInput, TrafficTimer.table, TrafficTimer.init, ttOutputs, sprt_none, htm, hf]
    · left; simp [hrl, mgrInput, hl, Manager.table, mgrOutputs]
  | lost =>
    simp only [legal, Bool.or_eq_true, Bool.and_eq_true, beq_iff_eq, bne_iff_ne, ne_eq] at hl
    have hu : inUse s.mgr = true := by
      rcases hl with (hl | hl) | hl <;> simp [hl, inUse]
    obtain ⟨c, hc, ho, htr⟩ := h4 hu
    left
    simp only [step, connLost]
    by_cases hrl : s.role = some true
    · have hm : s.mgr = .CONNECTED ∨ s.mgr = .STOPPING := by
        rcases hl with (hl | hl) | hl
        · exact Or.inl hl
        · exact Or.inr hl
        · exact absurd hrl hl.2
      rcases htr hrl with ht | ht <;> rcases hm with hm | hm <;>
        simp [ht, ttInput, TrafficTimer.table, ttOutputs, ho, hrl, mgrInput, hm, Manager.table, mgrOutputs, mgrOutput]
    · have ht := h2 hrl
      rcases hl with (hl | hl) | hl <;>
        simp [ht, ho, hrl, mgrInput, hl, Manager.table, mgrOutputs, mgrOutput]

theorem legal_ok {T : Nat} {s : St} {o : Op} (hi : Inv T s) (hl : legal s o = true)
    (hf : freshNext s = true) : (step (Cfg.real T) s o).2 = none := by
  rcases legal_res hi hl with h | ⟨_, h⟩
  · exact h
  · rw [hf] at h; cases h

end WV.Proofs.C16
