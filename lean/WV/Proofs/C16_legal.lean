import WV.Proofs.C16

/-! C16: legal operations never raise in a state satisfying the invariant. -/
namespace WV.Proofs.C16
open WV WV.Gen WV.C16

theorem legal_ok {T : Nat} {s : St} {o : Op} (hi : Inv T s) (hl : legal s o = true) :
    (step (Cfg.real T) s o).2 = none := by
  obtain ⟨h1, h2, h3, h4, h5, h6, h7, h8, h9, h10, h11, h12, h13⟩ := hi
  cases o with
  | tick =>
    simp only [step, tick]
    cases htm : s.timer with
    | none => rfl
    | some d =>
      obtain ⟨hm, _, _, _⟩ := h6 d htm
      obtain ⟨c, hc, ho, htr⟩ := h4 (by simp [hm, inUse])
      have hrl : s.role = some true := by
        cases hr : s.role with
        | none => simp_all
        | some b => cases b <;> simp_all
      simp only
      split
      · rcases htr hrl with ht | ht <;> simp [timerExpired, ttInput, ht, TrafficTimer.table]
      · rfl
  | stall n =>
    simp only [step, stall]
    cases htm : s.timer with
    | none => rfl
    | some d =>
      obtain ⟨hm, _, _, _⟩ := h6 d htm
      obtain ⟨c, hc, ho, htr⟩ := h4 (by simp [hm, inUse])
      have hrl : s.role = some true := by
        cases hr : s.role with
        | none => simp_all
        | some b => cases b <;> simp_all
      simp only
      split
      · rcases htr hrl with ht | ht <;> simp [timerExpired, ttInput, ht, TrafficTimer.table]
      · rfl
  | pause => rfl
  | resume => rfl
  | cpause k => rfl
  | cresume k => rfl
  | start =>
    simp only [legal, beq_iff_eq] at hl
    simp [step, mgrInput, hl, Manager.table, mgrOutputs, mgrOutput]
  | please b =>
    simp only [legal, beq_iff_eq] at hl
    simp [step, mgrInput, hl, Manager.table, mgrOutputs, mgrOutput]
  | reconnecting =>
    simp only [legal, beq_iff_eq] at hl
    simp [step, mgrInput, hl, Manager.table, mgrOutputs, mgrOutput]
  | reconnect =>
    simp only [legal, Bool.or_eq_true, beq_iff_eq] at hl
    rcases hl with (hl | hl) | hl
    · obtain ⟨c, hc, _, _⟩ := h4 (by simp [hl, inUse])
      simp [step, mgrInput, hl, Manager.table, mgrOutputs, mgrOutput, hc]
    · simp [step, mgrInput, hl, Manager.table, mgrOutputs, mgrOutput]
    · simp [step, mgrInput, hl, Manager.table, mgrOutputs, mgrOutput]
  | stop =>
    simp only [legal, Bool.and_eq_true, bne_iff_ne, ne_eq] at hl
    cases hm : s.mgr <;> simp [hm] at hl
    all_goals try simp [step, mgrInput, hm, Manager.table, mgrOutputs, mgrOutput]
    obtain ⟨c, hc, _, _⟩ := h4 (by simp [hm, inUse])
    simp [hc]
  | pong id =>
    simp only [legal] at hl
    simp only [step, gotPong]
    split
    · rename_i hany
      have hu : inUse s.mgr = true := by
        cases hu : inUse s.mgr with
        | true => rfl
        | false => have := (h5 hu).1; simp [this] at hl
      obtain ⟨c, hc, _, htr⟩ := h4 hu
      have hrl : s.role = some true := by
        apply Classical.byContradiction
        intro hne
        have := (h3 (h2 hne)).2.1
        simp [this] at hany
      rcases htr hrl with ht | ht <;> simp [ttInput, ht, TrafficTimer.table]
    · rfl
  | made =>
    simp only [legal, beq_iff_eq] at hl
    obtain ⟨hc, ho, htm, htr⟩ := h5 (by simp [hl, inUse])
    simp only [step, connMade]
    by_cases hrl : s.role = some true
    · rcases htr with ht | ht <;>
        simp [hrl, ht, ttInput, TrafficTimer.table, TrafficTimer.init, ttOutputs, sendPingResetTimer, sendPing, htm, ho,
          mgrInput, hl, Manager.table, mgrOutputs]
    · simp [hrl, mgrInput, hl, Manager.table, mgrOutputs]
  | lost =>
    simp only [legal, Bool.or_eq_true, Bool.and_eq_true, beq_iff_eq, bne_iff_ne, ne_eq] at hl
    have hu : inUse s.mgr = true := by
      rcases hl with (hl | hl) | hl <;> simp [hl, inUse]
    obtain ⟨c, hc, ho, htr⟩ := h4 hu
    simp only [step, connLost]
    by_cases hrl : s.role = some true
    · have hm : s.mgr = .CONNECTED ∨ s.mgr = .STOPPING := by
        rcases hl with (hl | hl) | hl
        · exact Or.inl hl
        · exact Or.inr hl
        · exact absurd hrl hl.2
      rcases htr hrl with ht | ht <;> rcases hm with hm | hm <;>
        simp [ht, ttInput, TrafficTimer.table, ttOutputs, ho, hrl, mgrInput, hm, Manager.table, mgrOutputs, mgrOutput]
    · have ht := h2 hrl
      rcases hl with (hl | hl) | hl <;>
        simp [ht, ho, hrl, mgrInput, hl, Manager.table, mgrOutputs, mgrOutput]

end WV.Proofs.C16
