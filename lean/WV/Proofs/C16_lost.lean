import WV.Proofs.C16

namespace WV.Proofs.C16
open WV WV.Gen WV.C16

theorem inv_lost {T : Nat} {s s' : St} (hi : Inv T s)
    (h : step (Cfg.real T) s .lost = (s', none)) : Inv T s' := by
  obtain ⟨h1, h2, h3, h4, h5, h6, h7, h8, h9, h10, h11, h12, h13⟩ := hi
  simp only [step, connLost, ttInput, real_tbl, mgrInput] at h
  cases htr : s.traffic with
  | none =>
    simp [htr] at h
    cases ho : s.outConn <;> simp [ho] at h
    cases hr : s.role with
    | none =>
      simp [hr] at h
      cases hm : s.mgr <;> simp [hm, Manager.table, mgrOutputs, mgrOutput] at h
      all_goals (subst h; constructor <;> simp_all [inUse])
    | some b =>
      cases b <;> simp [hr] at h
      all_goals (cases hm : s.mgr <;> simp [hm, Manager.table, mgrOutputs, mgrOutput] at h)
      all_goals (subst h; constructor <;> simp_all [inUse])
  | some st =>
    have hl : s.role = some true := by
      cases hr : s.role with
      | none => simp_all
      | some b => cases b <;> simp_all
    cases st <;> simp [htr, TrafficTimer.table, ttOutputs] at h
    all_goals (cases ho : s.outConn <;> simp [ho] at h)
    all_goals (simp [hl] at h)
    all_goals (cases hm : s.mgr <;> simp [hm, Manager.table, mgrOutputs, mgrOutput] at h)
    all_goals (subst h; constructor <;> simp_all [inUse])

end WV.Proofs.C16
