import WV.Model.Client
import WV.Proofs.PyIR_C03

/-!
Translation validation of the *control* machines of the mailbox client (PyIR) against `WV.Client.exec`, the control
model that C08 / C09 / C14 / C18 share: definitions and lemmas.

`WV.Client.exec s (.oX out) a` answers `.cont s' push` (flag changes + the ordered collaborator calls as agenda items,
each with its argument record) or `.fail s' e`.  `AgreeStep` compares that with an interpreter `Outcome`:

* the recorded calls that are *control* calls (collaborators `self._N`, `_M`, `_RC`, `_T`, `_B`, … — not the timing
  object, the SPAKE2 object, the wordlist, the status callback, the Dilator stub) carry, in order, the names
  `itemName` gives the pushed items (the naming of the skeleton obligation `WV.Props.ClientSkel`);
* the arguments the control model tracks agree (`Tracked`: moods, the phase class of `add_message`, the verdict
  handed to `W.closed`); every other argument (payloads, keys, nameplates, codes) is forgotten by the abstraction;
* the heap after the run is related to the control flags after the step by the class's relation `Rel…`;
* the exception class is `Exn.name` of the model's failure.
-/
set_option linter.unusedSimpArgs false
set_option linter.unusedVariables false

namespace WV.Proofs.PyIRClient
open WV WV.Gen WV.PyIR WV.Client WV.Gen.PyIR WV.Proofs.PyIRC03

/-- the uninterpreted environment: every external function returns the opaque term `f(args)` unless `bad` makes it
    raise; `str.startswith` and `str.split(...)[0]` keep enough meaning for the bodies that branch on them -/
def envU (bad : String → List Val → Option String) (raises : Nat → Option String) (rets : Nat → Val) : Env where
  fmtD := WV.C03.showPhase
  raises := raises
  rets := rets
  ext := fun f args =>
    match bad f args with
    | some c => .exc c
    | none =>
      match f, args with
      | "str.startswith", [.str a, .str b] => .ok (.bool (b.toList.isPrefixOf a.toList))
      | "str.split", _ => .ok (.list [.obj "str.split[0]" args])
      | "bytes_to_dict", [.bytes b] => .ok (.dict [(.str "pake_v1", .obj "pake_v1" [.bytes b])])   -- a body that has the field
      | _, _ => .ok (.obj f args)

def noBad : String → List Val → Option String := fun _ _ => none
def noRaise : Nat → Option String := fun _ => none
def noRets : Nat → Val := fun _ => .none

/-! ## names and tracked arguments -/

def moodStr : Mood → String
  | .happy => "happy" | .lonely => "lonely" | .scary => "scary" | .errory => "errory" | .unwelcome => "unwelcome"

theorem moodStr_happy : moodStr .happy = "happy" := rfl
theorem moodStr_lonely : moodStr .lonely = "lonely" := rfl
theorem moodStr_scary : moodStr .scary = "scary" := rfl
theorem moodStr_errory : moodStr .errory = "errory" := rfl
theorem moodStr_unwelcome : moodStr .unwelcome = "unwelcome" := rfl

/-- phase class of a phase name (what `Order.got_message` / `Boss.got_message` branch on) -/
def phaseC (p : String) : PhaseC :=
  if p = "pake" then .pake
  else match WV.C03.classifyPhase p with
    | .version => .version
    | .dilate _ => .dilate
    | .numeric _ => .num
    | .unknown => .other

/-- `Boss._result` / the argument of `W.closed` as the control model sees it -/
def verdictOf : Val → Option Verdict
  | .str "empty" => some .empty
  | .str "happy" => some .happy
  | .obj "LonelyError" _ => some .lonely
  | .obj "WrongPasswordError" _ => some .wrongPassword
  | .obj "ServerError" _ => some .serverError
  | .obj "WelcomeError" _ => some .welcomeError
  | .obj "ServerConnectionError" _ => some .connectionError
  | .obj "InternalError" _ => some .internalError
  | _ => none

/-- calls that are not control calls: helper objects and the Dilator stub (the model keeps only `D.stop`) -/
def ignorable (c : Call) : Bool :=
  match c.obj, c.meth with
  | "_timing", _ | "_sp", _ | "_wordlist", _ | "_evolve_wormhole_status", _ | "_start_timing", _ => true
  | "self", "_evolve_wormhole_status[peer_key]" | "self", "_evolve_wormhole_status[mailbox_connection]" => true
  | "_D", "stop" => false
  | "_D", _ => true
  | _, _ => false

def callName (c : Call) : String := c.obj ++ "." ++ c.meth

def cmdName : Cmd → String
  | .bind => "bind" | .claim => "claim" | .release => "release" | .open_ => "open" | .add _ => "add"
  | .close _ => "close" | .list => "list" | .allocate => "allocate"

def evName : AppEv → String
  | .welcome => "got_welcome" | .code => "got_code" | .key => "got_key" | .verifier => "got_verifier"
  | .versions => "got_versions" | .received => "received" | .closed _ => "closed"

/-- the collaborator call an agenda item stands for (`none`: an internal continuation).  The same naming as
    `WV.Props.ClientSkel.itemName`, repeated here so that these modules do not depend on the skeleton obligation
    (a body change that breaks the skeleton must not hide which of these theorems it breaks). -/
def itemName : Item → Option String
  | .B i => some ("_B." ++ i.name) | .N i => some ("_N." ++ i.name) | .M i => some ("_M." ++ i.name)
  | .T i => some ("_T." ++ i.name) | .C i => some ("_C." ++ i.name) | .A i => some ("_A." ++ i.name)
  | .L i => some ("_L." ++ i.name) | .I i => some ("_I." ++ i.name) | .K i => some ("_K." ++ i.name)
  | .SK i => some ("_SK." ++ i.name) | .O i => some ("_O." ++ i.name) | .R i => some ("_R." ++ i.name)
  | .S i => some ("_S." ++ i.name)
  | .tx c => some ("_RC.tx_" ++ cmdName c)
  | .rcStop => some "_RC.stop"
  | .dStop => some "_D.stop"
  | .w e => some ("_W." ++ evName e)
  | .setNameplate => some "_N.set_nameplate"
  | .skGotPake => some "_SK.got_pake"
  | .orderGot => some "_O.got_message"
  | .receiveGot => some "_R.got_message"
  | .bossGotMessage => some "_B.got_message"
  | .drainPending => some "_RC.tx_add"
  | _ => none

/-- the arguments of a call that the control model tracks, per pushed item -/
def Tracked (it : Item) (a : Arg) (args : List Val) : Prop :=
  match it with
  | .T .close => args = [.str (moodStr a.mood)]
  | .M .close => args = [.str (moodStr a.mood)]
  | .tx (.close md) => ∃ mb, args = [mb, .str (moodStr md)]
  | .M .add_message => ∃ p b, args = [.str p, b] ∧ phaseC p = a.ph
  | .tx (.add ph) => ∃ p b, args = [.str p, b] ∧ phaseC p = ph
  | .w (.closed v) => ∃ x, args = [x] ∧ verdictOf x = some v
  | _ => True

def CallIs (c : Call) (p : Item × Arg) : Prop :=
  itemName p.1 = some (callName c) ∧ Tracked p.1 p.2 c.args

def CallsAre : List Call → Agenda → Prop
  | [], [] => True
  | c :: cs, p :: ps => CallIs c p ∧ CallsAre cs ps
  | _, _ => False

/-- interpreter outcome ⟷ one step of the control model -/
def AgreeStep (Rel : Store → Ctl → Prop) (o : WV.PyIR.Outcome) (r : StepR) : Prop :=
  match r with
  | .cont s' push =>
    Rel o.heap s'.ctl ∧ CallsAre (o.calls.filter (fun c => !ignorable c)) push ∧ o.exc = none
  | .fail s' e => Rel o.heap s'.ctl ∧ o.exc = some e.name

theorem exn_assertion (w : String) : Exn.name (.assertion w) = "AssertionError" := rfl
theorem exn_attribute (w : String) : Exn.name (.attribute w) = "AttributeError" := rfl
theorem exn_keyFormat : Exn.name .keyFormat = "KeyFormatError" := rfl
theorem exn_onlyOneCode : Exn.name .onlyOneCode = "OnlyOneCodeError" := rfl
theorem exn_mustChoose : Exn.name .mustChooseNameplateFirst = "MustChooseNameplateFirstError" := rfl
theorem exn_alreadyNameplate : Exn.name .alreadyChoseNameplate = "AlreadyChoseNameplateError" := rfl
theorem exn_alreadyWords : Exn.name .alreadyChoseWords = "AlreadyChoseWordsError" := rfl

/-- symbolic evaluation for the control theorems: `pyir_eval` plus the control model's step and the naming -/
macro "ctl_eval" "[" ts:Lean.Parser.Tactic.simpLemma,* "]" : tactic =>
  `(tactic| pyir_eval [WV.Client.exec, AgreeStep, envU, noBad, noRaise, noRets, CallIs, Tracked, callName, ignorable,
      itemName, cmdName, evName, moodStr_happy, moodStr_lonely, moodStr_scary,
      moodStr_errory, moodStr_unwelcome, List.filter,
      CallsAre, exn_assertion, exn_attribute, exn_keyFormat, exn_onlyOneCode, exn_mustChoose, exn_alreadyNameplate,
      exn_alreadyWords, $ts,*])

/-! ## heap ⟷ control flags, per class -/

/-- `Nameplate._nameplate` is `None` or a non-empty string (`validate_nameplate` accepted it) -/
structure RelN (h : Store) (c : Ctl) : Prop where
  nameplate : ∃ v, h.get "_nameplate" = some v ∧
    ((v = .none ∧ c.haveNameplate = false) ∨ (∃ s, v = .str s ∧ s ≠ "" ∧ c.haveNameplate = true))
  wM : ∃ v, h.get "_M" = some v
  wI : ∃ v, h.get "_I" = some v
  wRC : ∃ v, h.get "_RC" = some v
  wT : ∃ v, h.get "_T" = some v
  wStatus : ∃ v, h.get "_evolve_wormhole_status" = some v

/-- Terminator keeps no data the control model reads; only its wiring matters -/
structure RelT (h : Store) (c : Ctl) : Prop where
  wB : ∃ v, h.get "_B" = some v
  wRC : ∃ v, h.get "_RC" = some v
  wN : ∃ v, h.get "_N" = some v
  wM : ∃ v, h.get "_M" = some v
  wD : ∃ v, h.get "_D" = some v

/-- the control model has no flag for what `Allocator.stash` keeps; `st` is that data (length, adapted wordlist) —
    carried by the relation so that "stash stores, build_and_notify reads it back" is part of the validation -/
structure RelA (st : Option (Val × Val)) (h : Store) (c : Ctl) : Prop where
  length : h.get "_length" = st.map (·.1)
  wordlist : h.get "_wordlist" = st.map (·.2)
  wRC : ∃ v, h.get "_RC" = some v
  wC : ∃ v, h.get "_C" = some v

structure RelL (h : Store) (c : Ctl) : Prop where
  wRC : ∃ v, h.get "_RC" = some v
  wI : ∃ v, h.get "_I" = some v

structure RelC (h : Store) (c : Ctl) : Prop where
  wB : ∃ v, h.get "_B" = some v
  wA : ∃ v, h.get "_A" = some v
  wN : ∃ v, h.get "_N" = some v
  wK : ∃ v, h.get "_K" = some v
  wI : ∃ v, h.get "_I" = some v

/-- `Key._pake` (exists only after `stash_pake`): its class under `kind` is the model's `stashedPake` -/
structure RelK (kind : Val → PakeKind) (h : Store) (c : Ctl) : Prop where
  pake : ∀ v, h.get "_pake" = some v → kind v = c.stashedPake
  wSK : ∃ v, h.get "_SK" = some v

/-- `_SortedKey._sp` exists iff `build_pake` ran -/
structure RelSK (h : Store) (c : Ctl) : Prop where
  sp : c.spStarted = true → ∃ v, h.get "_sp" = some v
  wB : ∃ v, h.get "_B" = some v
  wM : ∃ v, h.get "_M" = some v
  wR : ∃ v, h.get "_R" = some v
  wTiming : ∃ v, h.get "_timing" = some v
  side : ∃ v, h.get "_side" = some v
  versions : ∃ v, h.get "_versions" = some v
  appid : ∃ v, h.get "_appid" = some v

/-- Boss: the code latch, the verdict, the tx counter (an int; its value is C03's business) -/
structure RelB (h : Store) (c : Ctl) : Prop where
  latch : h.get "_did_start_code" = some (.bool c.didStartCode)
  result : ∃ v, h.get "_result" = some v ∧ verdictOf v = some c.result
  nextTx : ∃ n, h.get "_next_tx_phase" = some (.int n)
  wS : ∃ v, h.get "_S" = some v
  wW : ∃ v, h.get "_W" = some v
  wD : ∃ v, h.get "_D" = some v
  wT : ∃ v, h.get "_T" = some v
  wC : ∃ v, h.get "_C" = some v

/-- Input keeps the chosen nameplate and the wordlist; the control model only needs the wiring -/
structure RelI (h : Store) (c : Ctl) : Prop where
  wC : ∃ v, h.get "_C" = some v
  wL : ∃ v, h.get "_L" = some v
  wTiming : ∃ v, h.get "_timing" = some v

/-- Mailbox as the control model sees it: `_mailbox` known or not, `_mood` recorded or not -/
structure RelMc (h : Store) (c : Ctl) : Prop where
  mailbox : ∃ v, h.get "_mailbox" = some v ∧
    ((v = .none ∧ c.haveMailbox = false) ∨ (∃ s, v = .str s ∧ s ≠ "" ∧ c.haveMailbox = true))
  mood : h.get "_mood" = c.mood.map (fun md => Val.str (moodStr md))
  wN : ∃ v, h.get "_N" = some v
  wRC : ∃ v, h.get "_RC" = some v
  wO : ∃ v, h.get "_O" = some v
  wT : ∃ v, h.get "_T" = some v

/-- Send as the control model sees it: has a key or not (the attribute does not exist before `record_key`) -/
structure RelSc (h : Store) (c : Ctl) : Prop where
  keyYes : c.sKey = true → ∃ k, h.get "_key" = some k ∧ k.truthy = true
  keyNo : c.sKey = false → h.get "_key" = none
  side : ∃ v, h.get "_side" = some v
  wM : ∃ v, h.get "_M" = some v

/-- Receive as the control model sees it -/
structure RelRc (h : Store) (c : Ctl) : Prop where
  key : ∃ k, h.get "_key" = some k ∧
    ((k = .none ∧ c.rKey = false) ∨ (∃ kb, k = .bytes kb ∧ kb ≠ [] ∧ c.rKey = true))
  wB : ∃ v, h.get "_B" = some v
  wS : ∃ v, h.get "_S" = some v

structure RelOc (h : Store) (c : Ctl) : Prop where
  wK : ∃ v, h.get "_K" = some v
  wR : ∃ v, h.get "_R" = some v

theorem moodStr_ne (md : Mood) : moodStr md ≠ "" := by cases md <;> decide

/-- closes a relation goal field by field -/
macro "rel_fields" : tactic =>
  `(tactic| (constructor <;> first | assumption | (simp [get_set, *]; done) | (simp [get_set]; assumption)))

end WV.Proofs.PyIRClient
