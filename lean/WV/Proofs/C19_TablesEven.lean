import WV.Model.C19
/-! C19: finite facts about the generated even-word table (kernel-checked on every regeneration). -/
namespace WV.Proofs.C19
open WV.Gen
theorem even_len : Words.evenCP.length = 256 := by decide +kernel
theorem even_nodup : Words.evenCP.Nodup := by decide +kernel
theorem even_clean : ∀ w ∈ Words.evenCP, w ≠ [] ∧ 45 ∉ w ∧ 32 ∉ w := by decide +kernel
end WV.Proofs.C19
