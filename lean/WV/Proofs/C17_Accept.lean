import WV.Proofs.C17_Step

/-!
C17 helper lemmas, part 6: the `Connector.accept(c)` call of the eventual queue (selection of the
winning connection and hand-over to the Manager).
-/
namespace WV.Proofs.C17
open WV WV.Gen WV.C17

variable {ps : String} {pend : List Thunk} {w : World}

/-- `c.select(manager)`: either it raises and nothing changed, or the `connector_connection_lost`
    callback is armed on connection `c` -/
theorem dcpSelect_spec (c : Nat) (v : World) :
    ((dcpSelect c v).2 ≠ none ∧ (dcpSelect c v).1 = v) ∨
    ((dcpSelect c v).2 = none ∧ ∃ cs q, ConnsLe v.conns cs ∧ (∀ t ∈ v.queue, t ∈ q) ∧
      core (dcpSelect c v).1 = { core v with conns := cs, queue := q } ∧
      ∃ y, cs[c]? = some y ∧ ((y.lost = false ∧ y.obsMgr = true) ∨ Thunk.mgrLost ∈ q)) := by
  unfold dcpSelect
  cases hx : v.conns[c]? with
  | none => left; simp
  | some x =>
    cases hst : x.st
    · left; simp [DCP.table, hst]
    · -- selecting: the row with set_manager
      right
      simp only [DCP.table, hst]
      have hcont : ([DCP.Output.set_manager, .send_status_have_peer, .can_send_records, .process_inbound_queue] : List DCP.Output).contains
          DCP.Output.set_manager = true := by decide
      simp only [hcont, ↓reduceIte]
      cases hl : x.lost
      · simp only [Bool.false_eq_true, ↓reduceIte, true_and]
        refine ⟨_, _, ?_, fun t ht => ht, rfl, ?_⟩
        · exact ConnsLe.trans (ConnsLe.modify _ _ _ (by intro z; simp)) (ConnsLe.modify _ _ _ (by intro z; simp))
        · refine ⟨{ x with st := .selected, obsMgr := true }, ?_, Or.inl ⟨hl, rfl⟩⟩
          simp [List.getElem?_modify, hx]
      · simp only [↓reduceIte, true_and]
        refine ⟨_, _, ?_, fun t ht => List.mem_append.mpr (Or.inl ht), rfl, ?_⟩
        · exact ConnsLe.modify _ _ _ (by intro z; simp)
        · refine ⟨{ x with st := .selected }, ?_, Or.inr (by simp)⟩
          simp [List.getElem?_modify, hx]
    · left; simp [DCP.table, hst]

/-- `Manager.connector_connection_made(c)` in CONNECTING: whatever `_main_channel.fire` does, the
    Manager is CONNECTED and owns `c` -/
theorem connectionMade_spec (c : Nat) (v : World) (hms : v.ms = .CONNECTING) (htm : TimerOk v) :
    ∃ q, (∀ t ∈ v.queue, t ∈ q) ∧
      core (connectionMade c v).1 = { core v with ms := .CONNECTED, conn := some c, queue := q } := by
  unfold connectionMade
  have e1 : ∀ u : World, u.ms = .CONNECTING → mInput .connection_made "" 0 u = ({ u with ms := .CONNECTED }, none) := by
    intro u hu
    simp [mInput, hu, Manager.table, mOuts]
  obtain ⟨t0, tt0, est⟩ := startPingTimer_same v
  rw [andThen_ok (startPingTimer_ok v htm), est]
  have hms' : ({ v with timer := t0, tt := tt0 } : World).ms = .CONNECTING := hms
  rw [e1 _ hms']
  simp only [andThen]
  unfold useConnection
  generalize hU : ({ v with timer := t0, tt := tt0, ms := Manager.State.CONNECTED, conn := some c } : World) = U
  have hcs : U.coopStopped = false := by rw [← hU]; exact htm.coopRunning
  obtain ⟨op, prs, e⟩ := resumeAll_same U
  have hok := resumeAll_ok U hcs
  rcases hp : resumeAll U with ⟨x, er⟩
  rw [hp] at e hok
  simp only at e hok
  subst hok
  subst e
  simp only [andThen]
  rw [← hU]
  dsimp only
  split
  · exact ⟨v.queue, fun t ht => ht, rfl⟩
  · unfold mainFire
    dsimp only
    split
    · exact ⟨v.queue, fun t ht => ht, rfl⟩
    · exact ⟨v.queue ++ v.mainObs.map (fun i => Thunk.waiter i true),
        fun t ht => List.mem_append.mpr (Or.inl ht), rfl⟩

theorem set_none_connecting {k : Core} (h : InvC ps pend k) (g : Nat) (hlen : k.ctors.length = g + 1)
    (st' : Connector.State) (hst : st' ≠ .connecting) :
    ∀ g' : Nat, (k.ctors.set g st')[g']? ≠ some Connector.State.connecting := by
  intro g' hg'
  rw [List.getElem?_set] at hg'
  by_cases he : g = g'
  · simp [he] at hg'
    exact hst hg'.2
  · simp [he] at hg'
    have := (h.ctorB g' hg').1
    omega

theorem accept_inv (h : Inv ps pend w) (htm : TimerOk w) (g c : Nat) : Inv ps pend (logged (cInput connectionMade g .accept c w)) := by
  apply inv_core_eq (k := core (cInput connectionMade g .accept c w).1) _ (logged_core _)
  cases hg : w.ctors[g]? with
  | none => rw [cInput_none _ _ _ _ _ hg]; exact h
  | some st =>
    cases st
    · -- connected: ignored
      have : cInput connectionMade g .accept c w = (w, none) := by
        simp [cInput, hg, Connector.table, cOuts, set_self _ _ _ hg]
      rw [this]; exact h
    · -- connecting: this is the current Connector and the Manager is CONNECTING
      obtain ⟨hlen, hms⟩ := h.ctorB g hg
      have hm := hasMgr_of_ms h (by rw [show w.ms = .CONNECTING from hms]; simp)
      simp only [cInput, hg, Connector.table, cOuts, cOut]
      obtain ⟨cs, hcs, hcore⟩ := selectStops_core g c { w with ctors := w.ctors.set g .connected }
      generalize hW2 : (stopPendingConnections g (stopPendingConnectors g (stopListeners g
        { w with ctors := w.ctors.set g .connected,
                 conns := w.conns.modify c fun x => { x with tracked := false } }))) = W2 at hcore ⊢
      have htW2 : TimerOk W2 := by rw [← hW2]; exact htm
      have hct := set_none_connecting h g hlen .connected (by simp)
      -- after the stops, before select: the Connector is `connected`
      have hW2inv : InvC ps pend (core W2) := by
        rw [hcore]
        exact InvC.ctorChanged (k := core w) h g .connected (by simp) (by intros; simp) cs w.queue hcs (fun t ht => ht)
      rcases dcpSelect_spec c W2 with ⟨herr, hsame⟩ | ⟨hok, cs2, q2, hcs2, hq2, hcore2, y, hy, harm⟩
      · -- select raised
        rcases hr : dcpSelect c W2 with ⟨W3, e⟩
        rw [hr] at herr hsame
        cases e with
        | none => simp at herr
        | some e =>
          simp only [andThen]
          simp only at hsame
          rw [hsame]; exact hW2inv
      · rw [andThen_ok hok]
        have hW3ms : (dcpSelect c W2).1.ms = .CONNECTING := by
          have := congrArg Core.ms hcore2
          simp only [core] at this
          rw [this]
          have := congrArg Core.ms hcore
          simp only [core] at this
          rw [this]; exact hms
        obtain ⟨q3, hq3, hcore3⟩ := connectionMade_spec c (dcpSelect c W2).1 hW3ms ((keep_dcpSelect c W2).timerOk htW2)
        rw [andThen_pure_core, hcore3, hcore2, hcore]
        dsimp only
        refine InvC.toConnected (k := core w) h hm hms _ hct cs2 q3 c y hy ?_ ?_
        · rcases harm with harm | harm
          · exact Or.inl harm
          · right
            apply List.mem_append.mpr
            right
            apply hq3
            have := congrArg Core.queue hcore2
            simp only [core] at this
            rw [this]; exact harm
        · intro t ht
          apply hq3
          have := congrArg Core.queue hcore2
          simp only [core] at this
          rw [this]
          apply hq2
          have := congrArg Core.queue hcore
          simp only [core] at this
          rw [this]; exact ht
    · -- stopped: NoTransition
      have : cInput connectionMade g .accept c w = (w, some .noTransition) := by
        simp [cInput, hg, Connector.table]
      rw [this]; exact h

end WV.Proofs.C17
