import WV.Proofs.C19_Steps
namespace WV.Proofs.C19
open WV WV.C19 WV.Gen

/-! ### sorting keeps the elements -/

theorem mem_insertSorted {x y : Str} : ∀ {l : List Str}, y ∈ insertSorted x l ↔ y = x ∨ y ∈ l
  | [] => by simp [insertSorted]
  | z :: zs => by
    unfold insertSorted
    split
    · simp only [List.mem_cons, mem_insertSorted (l := zs)]
      constructor
      · rintro (h | h | h)
        · exact Or.inr (Or.inl h)
        · exact Or.inl h
        · exact Or.inr (Or.inr h)
      · rintro (h | h | h)
        · exact Or.inr (Or.inl h)
        · exact Or.inl h
        · exact Or.inr (Or.inr h)
    · simp

theorem mem_sortStrs {y : Str} : ∀ {l : List Str}, y ∈ sortStrs l ↔ y ∈ l
  | [] => by simp [sortStrs]
  | x :: xs => by
    have ih := mem_sortStrs (y := y) (l := xs)
    simp only [sortStrs, List.foldr_cons] at ih ⊢
    rw [mem_insertSorted, ih]
    simp

/-! ### `text.split("-", 1)` -/

theorem split_once : ∀ (t : Str), 45 ∈ t →
    t = t.takeWhile (· != 45) ++ 45 :: (t.dropWhile (· != 45)).drop 1 ∧ 45 ∉ t.takeWhile (· != 45)
  | [], h => by simp at h
  | c :: cs, h => by
    by_cases hc : c = 45
    · subst hc; simp
    · have h' : 45 ∈ cs := by
        simp at h
        rcases h with h | h
        · exact absurd h.symm hc
        · exact h
      obtain ⟨e, n⟩ := split_once cs h'
      have hb : (c != 45) = true := by simpa using hc
      simp only [List.takeWhile_cons, List.dropWhile_cons, hb, if_true]
      refine ⟨by simpa using e, ?_⟩
      simp only [List.mem_cons, not_or]
      exact ⟨fun e => hc e.symm, n⟩

theorem parseText_some {t np w : Str} (h : parseText t = some (np, w)) : t = np ++ 45 :: w ∧ 45 ∉ np := by
  unfold parseText at h
  split at h
  · next hc =>
    simp at h
    obtain ⟨rfl, rfl⟩ := h
    simpa using split_once t (by simpa using hc)
  · simp at h

theorem parseText_none {t : Str} (h : parseText t = none) : 45 ∉ t := by
  unfold parseText at h
  split at h
  · simp at h
  · next hc => simpa using hc

end WV.Proofs.C19
