import WV.Model.C17

/-!
C17 helper lemmas: fields that no Manager- or Connector-level code touches (the Dilator's own
fields, the Terminator, the configuration).
-/
namespace WV.Proofs.C17
open WV WV.Gen WV.C17

/-- a fired-but-not-cleared timer handle exists only in a tree whose expiry callback does not clear it -/
def TimerOk (w : World) : Prop :=
  (w.timer = .fired → Flags.timer_expiry_clears_handle = false) ∧
  -- and the Cooperator is stopped only by a tree whose Dilator.stop() stops it
  (w.coopStopped = true → Flags.dilator_stop_stops_cooperator = true)

/-- the three users of the handle are safe in the working tree: each either can never meet a fired handle
    (the expiry callback clears it) or asks `.active()` first.  Decided on the generated flags. -/
theorem abandonSafe : (Flags.timer_expiry_clears_handle || Flags.abandon_checks_active) = true := by decide
theorem stopUsingSafe : (Flags.timer_expiry_clears_handle || Flags.stop_using_checks_active) = true := by decide
theorem pingSafe : (Flags.timer_expiry_clears_handle || Flags.ping_timer_checks_active) = true := by decide

/-- `Dilator.stop()` of the working tree leaves the Cooperator alone -/
theorem coopSafe : Flags.dilator_stop_stops_cooperator = false := by decide

theorem TimerOk.coopRunning {w : World} (h : TimerOk w) : w.coopStopped = false := by
  cases hc : w.coopStopped
  · rfl
  · have := h.2 hc
    rw [coopSafe] at this
    cases this

structure KeepD (w w' : World) : Prop where
  hasMgr : w'.hasMgr = w.hasMgr
  key : w'.key = w.key
  mySide : w'.mySide = w.mySide
  pKey : w'.pKey = w.pKey
  pVers : w'.pVers = w.pVers
  pMsgs : w'.pMsgs = w.pMsgs
  called : w'.called = w.called
  ts : w'.ts = w.ts
  closed : w'.closed = w.closed
  noListen : w'.noListen = w.noListen
  asyncListen : w'.asyncListen = w.asyncListen
  waiters : w'.waiters = w.waiters
  mainMono : w.main = .failed → w'.main = .failed
  timerOk : TimerOk w → TimerOk w'

macro "keep_rfl" : tactic => `(tactic| exact ⟨rfl, rfl, rfl, rfl, rfl, rfl, rfl, rfl, rfl, rfl, rfl, rfl, fun h => h, fun h => h⟩)

theorem KeepD.refl (w : World) : KeepD w w := ⟨rfl, rfl, rfl, rfl, rfl, rfl, rfl, rfl, rfl, rfl, rfl, rfl, fun h => h, fun h => h⟩

theorem KeepD.trans {a b c : World} (h1 : KeepD a b) (h2 : KeepD b c) : KeepD a c :=
  ⟨h2.hasMgr.trans h1.hasMgr, h2.key.trans h1.key, h2.mySide.trans h1.mySide, h2.pKey.trans h1.pKey,
   h2.pVers.trans h1.pVers, h2.pMsgs.trans h1.pMsgs, h2.called.trans h1.called, h2.ts.trans h1.ts,
   h2.closed.trans h1.closed, h2.noListen.trans h1.noListen, h2.asyncListen.trans h1.asyncListen,
   h2.waiters.trans h1.waiters, fun h => h2.mainMono (h1.mainMono h), fun h => h2.timerOk (h1.timerOk h)⟩

theorem resolveWaiter_same (id : Nat) (ok : Bool) (w : World) :
    ∃ ws rg, resolveWaiter id ok w = { w with waiters := ws, registered := rg } := by
  unfold resolveWaiter
  split
  · exact ⟨_, _, rfl⟩
  · split
    · split <;> exact ⟨_, _, rfl⟩
    · exact ⟨_, _, rfl⟩

theorem connectAs_same (nm : Option String) (w : World) :
    ∃ ws wn q mo, connectAs nm w = { w with waiters := ws, wnames := wn, queue := q, mainObs := mo } ∧
      ∀ t ∈ w.queue, t ∈ q := by
  unfold connectAs
  dsimp only
  split
  · exact ⟨_, _, _, _, rfl, fun t ht => ht⟩
  · exact ⟨_, _, _, _, rfl, fun t ht => List.mem_append.mpr (Or.inl ht)⟩
  · exact ⟨_, _, _, _, rfl, fun t ht => List.mem_append.mpr (Or.inl ht)⟩

theorem keep_andThen {w : World} {r : Res} {f : World → Res} (h1 : KeepD w r.1) (h2 : ∀ v, KeepD v (f v).1) :
    KeepD w (andThen r f).1 := by
  obtain ⟨v, e⟩ := r
  cases e
  · exact h1.trans (h2 v)
  · exact h1

theorem keep_dcpSelect (c : Nat) (w : World) : KeepD w (dcpSelect c w).1 := by
  unfold dcpSelect
  split
  · exact KeepD.refl _
  · split
    · exact KeepD.refl _
    · dsimp only
      split
      · split <;> exact ⟨rfl, rfl, rfl, rfl, rfl, rfl, rfl, rfl, rfl, rfl, rfl, rfl, fun h => h, fun h => h⟩
      · exact ⟨rfl, rfl, rfl, rfl, rfl, rfl, rfl, rfl, rfl, rfl, rfl, rfl, fun h => h, fun h => h⟩

theorem keep_stopListeners (g : Nat) (w : World) : KeepD w (stopListeners g w) := by keep_rfl
theorem keep_stopPendingConnectors (g : Nat) (w : World) : KeepD w (stopPendingConnectors g w) := by keep_rfl
theorem keep_stopPendingConnections (g : Nat) (w : World) : KeepD w (stopPendingConnections g w) := by keep_rfl
theorem keep_breakCycles (g : Nat) (w : World) : KeepD w (breakCycles g w) := by keep_rfl

theorem keep_cOut (made : Nat → World → Res) (hm : ∀ c v, KeepD v (made c v).1) (g a : Nat) (o : Connector.Output)
    (w : World) : KeepD w (cOut made g a o w).1 := by
  cases o
  · exact ⟨rfl, rfl, rfl, rfl, rfl, rfl, rfl, rfl, rfl, rfl, rfl, rfl, fun h => h, fun h => h⟩
  · exact ⟨rfl, rfl, rfl, rfl, rfl, rfl, rfl, rfl, rfl, rfl, rfl, rfl, fun h => h, fun h => h⟩
  · simp only [cOut]
    refine keep_andThen (KeepD.trans ?_ (keep_dcpSelect _ _)) (hm a)
    refine KeepD.trans ?_ (keep_stopPendingConnections _ _)
    refine KeepD.trans ?_ (keep_stopPendingConnectors _ _)
    refine KeepD.trans ?_ (keep_stopListeners _ _)
    keep_rfl
  · simp only [cOut, stopEverything]
    refine KeepD.trans ?_ (keep_breakCycles _ _)
    refine KeepD.trans ?_ (keep_stopPendingConnections _ _)
    refine KeepD.trans ?_ (keep_stopPendingConnectors _ _)
    exact keep_stopListeners _ _
  · exact ⟨rfl, rfl, rfl, rfl, rfl, rfl, rfl, rfl, rfl, rfl, rfl, rfl, fun h => h, fun h => h⟩

theorem keep_cOuts (made : Nat → World → Res) (hm : ∀ c v, KeepD v (made c v).1) (g a : Nat)
    (os : List Connector.Output) (w : World) : KeepD w (cOuts made g a os w).1 := by
  induction os generalizing w with
  | nil => exact KeepD.refl _
  | cons o os ih => exact keep_andThen (keep_cOut made hm g a o w) (fun v => ih v)

theorem keep_cInput (made : Nat → World → Res) (hm : ∀ c v, KeepD v (made c v).1) (g : Nat) (i : Connector.Input)
    (a : Nat) (w : World) : KeepD w (cInput made g i a w).1 := by
  unfold cInput
  split
  · exact KeepD.refl _
  · split
    · exact KeepD.refl _
    · refine KeepD.trans ?_ (keep_cOuts made hm g a _ _)
      keep_rfl

theorem keep_noMade : ∀ c v, KeepD v (noMade c v).1 := fun _ v => KeepD.refl v

theorem keep_logged {w : World} {r : Res} (h : KeepD w r.1) : KeepD w (logged r) := by
  obtain ⟨v, e⟩ := r
  cases e
  · exact h
  · exact h.trans ⟨rfl, rfl, rfl, rfl, rfl, rfl, rfl, rfl, rfl, rfl, rfl, rfl, fun h => h, fun h => h⟩

theorem keep_connectorStart (g : Nat) (w : World) : KeepD w (connectorStart g w) := by
  unfold connectorStart
  split
  · exact KeepD.refl _
  · dsimp only
    split
    · refine KeepD.trans ?_ (keep_logged (keep_cInput noMade keep_noMade _ _ _ _))
      keep_rfl
    · exact ⟨rfl, rfl, rfl, rfl, rfl, rfl, rfl, rfl, rfl, rfl, rfl, rfl, fun h => h, fun h => h⟩

theorem keep_startConnecting (w : World) : KeepD w (startConnecting w).1 := by
  unfold startConnecting
  split
  · exact KeepD.refl _
  · split
    · exact KeepD.refl _
    · refine KeepD.trans ?_ (keep_connectorStart _ _)
      keep_rfl

theorem cancelTimer_same (b : Bool) (w : World) : ∃ t, (cancelTimer b w).1 = { w with timer := t } := by
  unfold cancelTimer
  split
  · split
    · exact ⟨_, rfl⟩
    · exact ⟨w.timer, rfl⟩
  · exact ⟨_, rfl⟩

theorem beginTiming_same (w : World) : ∃ t, (beginTiming w).1 = { w with timer := t } := by
  unfold beginTiming
  split
  · exact ⟨_, rfl⟩
  · split
    · exact ⟨w.timer, rfl⟩
    · exact ⟨_, rfl⟩

theorem startPingTimer_same (w : World) : ∃ t tt, (startPingTimer w).1 = { w with timer := t, tt := tt } := by
  unfold startPingTimer
  split
  · obtain ⟨t, e⟩ := beginTiming_same { w with tt := some .connected }
    exact ⟨t, _, e⟩
  · exact ⟨w.timer, w.tt, rfl⟩

/-- with a handle that is never left fired (or a user that asks `.active()` first) cancelling never raises -/
theorem cancelTimer_ok (b : Bool) (w : World) (hs : (Flags.timer_expiry_clears_handle || b) = true) (ht : TimerOk w) :
    cancelTimer b w = ({ w with timer := .none }, none) := by
  unfold cancelTimer
  split
  · rename_i hf
    have := ht.1 hf
    simp [this] at hs
    simp [hs]
  · rfl

theorem beginTiming_ok (w : World) (hs : (Flags.timer_expiry_clears_handle || Flags.ping_timer_checks_active) = true)
    (ht : TimerOk w) : beginTiming w = ({ w with timer := .pending }, none) := by
  unfold beginTiming
  split
  · rfl
  · rename_i hn
    split
    · rename_i hf
      have := ht.1 hf
      simp [this] at hs
      exact absurd hs hn
    · rfl

theorem startPingTimer_ok (w : World) (ht : TimerOk w) : (startPingTimer w).2 = none := by
  unfold startPingTimer
  split
  · rw [beginTiming_ok _ pingSafe (by exact ht)]
  · rfl

/-- `abandon_connection` with a connection: the timer is cancelled, the connection told to close -/
theorem abandon_eval (s : String) (n : Nat) (w : World) (ht : TimerOk w) (c : Nat) (hc : w.conn = some c) :
    mOut s n .abandon_connection w = (disconnect c { w with timer := .none }, none) := by
  simp only [mOut]
  rw [cancelTimer_ok _ _ abandonSafe ht]
  simp [andThen, hc]

theorem keep_cancelTimer (b : Bool) (w : World) : KeepD w (cancelTimer b w).1 := by
  unfold cancelTimer
  split
  · split
    · exact ⟨rfl, rfl, rfl, rfl, rfl, rfl, rfl, rfl, rfl, rfl, rfl, rfl, fun h => h, fun h => ⟨(fun hf => by cases hf), h.2⟩⟩
    · exact KeepD.refl _
  · exact ⟨rfl, rfl, rfl, rfl, rfl, rfl, rfl, rfl, rfl, rfl, rfl, rfl, fun h => h, fun h => ⟨(fun hf => by cases hf), h.2⟩⟩

theorem keep_beginTiming (w : World) : KeepD w (beginTiming w).1 := by
  unfold beginTiming
  split
  · exact ⟨rfl, rfl, rfl, rfl, rfl, rfl, rfl, rfl, rfl, rfl, rfl, rfl, fun h => h, fun h => ⟨(fun hf => by cases hf), h.2⟩⟩
  · split
    · exact KeepD.refl _
    · exact ⟨rfl, rfl, rfl, rfl, rfl, rfl, rfl, rfl, rfl, rfl, rfl, rfl, fun h => h, fun h => ⟨(fun hf => by cases hf), h.2⟩⟩

theorem keep_startPingTimer (w : World) : KeepD w (startPingTimer w).1 := by
  unfold startPingTimer
  split
  · refine KeepD.trans ?_ (keep_beginTiming _)
    keep_rfl
  · exact KeepD.refl _

theorem keep_mOut (s : String) (n : Nat) (o : Manager.Output) (w : World) : KeepD w (mOut s n o w).1 := by
  cases o <;> simp only [mOut]
  · -- abandon_connection
    refine keep_andThen (keep_cancelTimer _ _) ?_
    intro v
    split <;> exact ⟨rfl, rfl, rfl, rfl, rfl, rfl, rfl, rfl, rfl, rfl, rfl, rfl, fun h => h, fun h => h⟩
  · -- choose_role
    split
    · exact ⟨rfl, rfl, rfl, rfl, rfl, rfl, rfl, rfl, rfl, rfl, rfl, rfl, fun h => h, fun h => h⟩
    · split
      · exact ⟨rfl, rfl, rfl, rfl, rfl, rfl, rfl, rfl, rfl, rfl, rfl, rfl, fun h => h, fun h => h⟩
      · exact KeepD.refl _
  · -- notify_stopped
    unfold notifyStopped
    split
    · exact KeepD.refl _
    · exact ⟨rfl, rfl, rfl, rfl, rfl, rfl, rfl, rfl, rfl, rfl, rfl, rfl, fun h => h, fun h => h⟩
  · exact ⟨rfl, rfl, rfl, rfl, rfl, rfl, rfl, rfl, rfl, rfl, rfl, rfl, fun h => h, fun h => h⟩
  · exact ⟨rfl, rfl, rfl, rfl, rfl, rfl, rfl, rfl, rfl, rfl, rfl, rfl, fun h => h, fun h => h⟩
  · exact ⟨rfl, rfl, rfl, rfl, rfl, rfl, rfl, rfl, rfl, rfl, rfl, rfl, fun h => h, fun h => h⟩
  · exact KeepD.refl _
  · exact KeepD.refl _
  · exact KeepD.refl _
  · exact KeepD.refl _
  · exact keep_startConnecting w
  · exact keep_startConnecting w
  · unfold withConnector
    split
    · exact KeepD.refl _
    · exact keep_cInput noMade keep_noMade _ _ _ _
  · unfold withConnector
    split
    · exact KeepD.refl _
    · exact keep_cInput noMade keep_noMade _ _ _ _

theorem keep_mOuts (s : String) (n : Nat) (os : List Manager.Output) (w : World) : KeepD w (mOuts s n os w).1 := by
  induction os generalizing w with
  | nil => exact KeepD.refl _
  | cons o os ih => exact keep_andThen (keep_mOut s n o w) (fun v => ih v)

theorem keep_mInput (i : Manager.Input) (s : String) (n : Nat) (w : World) : KeepD w (mInput i s n w).1 := by
  unfold mInput
  split
  · exact KeepD.refl _
  · refine KeepD.trans ?_ (keep_mOuts s n _ _)
    keep_rfl

theorem pauseLoop_same (rest done : List Prod) (w : World) :
    ∃ ps, (pauseLoop done rest w).1 = { w with prods := ps } := by
  induction rest generalizing done with
  | nil => exact ⟨_, rfl⟩
  | cons p rest ih =>
    simp only [pauseLoop]
    split
    · exact ih _
    · split
      · exact ⟨_, rfl⟩
      · exact ih _

theorem resumeLoop_same (rest done : List Prod) (w : World) :
    ∃ ps, (resumeLoop done rest w).1 = { w with prods := ps } := by
  induction rest generalizing done with
  | nil => exact ⟨_, rfl⟩
  | cons p rest ih =>
    simp only [resumeLoop]
    split
    · exact ih _
    · split
      · exact ⟨_, rfl⟩
      · exact ih _

theorem pauseAll_same (w : World) : ∃ op ps, (pauseAll w).1 = { w with outPaused := op, prods := ps } := by
  unfold pauseAll
  split
  · exact ⟨w.outPaused, w.prods, rfl⟩
  · obtain ⟨ps, e⟩ := pauseLoop_same w.prods [] { w with outPaused := true }
    exact ⟨true, ps, e⟩

theorem resumeAll_same (w : World) : ∃ op ps, (resumeAll w).1 = { w with outPaused := op, prods := ps } := by
  unfold resumeAll
  split
  · exact ⟨w.outPaused, w.prods, rfl⟩
  · obtain ⟨ps, e⟩ := resumeLoop_same w.prods [] { w with outPaused := false }
    exact ⟨false, ps, e⟩

/-- with a running Cooperator pausing / resuming the producers never raises -/
theorem pauseLoop_ok (rest done : List Prod) (w : World) (h : w.coopStopped = false) : (pauseLoop done rest w).2 = none := by
  induction rest generalizing done with
  | nil => rfl
  | cons p rest ih =>
    simp only [pauseLoop, touchProducer, h, Bool.and_false, Bool.false_eq_true, ↓reduceIte]
    split <;> exact ih _

theorem resumeLoop_ok (rest done : List Prod) (w : World) (h : w.coopStopped = false) : (resumeLoop done rest w).2 = none := by
  induction rest generalizing done with
  | nil => rfl
  | cons p rest ih =>
    simp only [resumeLoop, touchProducer, h, Bool.and_false, Bool.false_eq_true, ↓reduceIte]
    split <;> exact ih _

theorem pauseAll_ok (w : World) (h : w.coopStopped = false) : (pauseAll w).2 = none := by
  unfold pauseAll
  split
  · rfl
  · exact pauseLoop_ok _ _ _ h

theorem resumeAll_ok (w : World) (h : w.coopStopped = false) : (resumeAll w).2 = none := by
  unfold resumeAll
  split
  · rfl
  · exact resumeLoop_ok _ _ _ h

theorem stopCoop_same (w : World) : ∃ b, stopCoop w = { w with coopStopped := b } := by
  unfold stopCoop
  split
  · exact ⟨true, rfl⟩
  · exact ⟨w.coopStopped, rfl⟩

theorem stopCoop_timerOk (w : World) (h : TimerOk w) : TimerOk (stopCoop w) := by
  unfold stopCoop
  split
  · rename_i hf; exact ⟨h.1, fun _ => hf⟩
  · exact h

theorem keep_pauseAll (w : World) : KeepD w (pauseAll w).1 := by
  obtain ⟨op, ps, e⟩ := pauseAll_same w
  rw [e]; keep_rfl

theorem keep_resumeAll (w : World) : KeepD w (resumeAll w).1 := by
  obtain ⟨op, ps, e⟩ := resumeAll_same w
  rw [e]; keep_rfl

theorem keep_mainFire (w : World) : KeepD w (mainFire w).1 := by
  unfold mainFire
  split
  · exact KeepD.refl _
  · rename_i hn
    have hn' : w.main = .noResult := by simpa using hn
    exact ⟨rfl, rfl, rfl, rfl, rfl, rfl, rfl, rfl, rfl, rfl, rfl, rfl, (fun h => by rw [hn'] at h; cases h), fun h => h⟩

theorem keep_connectionMade (c : Nat) (w : World) : KeepD w (connectionMade c w).1 := by
  unfold connectionMade
  refine keep_andThen (keep_startPingTimer w) ?_
  intro u
  refine keep_andThen (keep_mInput _ _ _ _) ?_
  · intro v
    unfold useConnection
    refine keep_andThen (KeepD.trans ?_ (keep_resumeAll _)) ?_
    · keep_rfl
    · intro x
      split
      · exact KeepD.refl _
      · refine KeepD.trans ?_ (keep_mainFire _)
        keep_rfl

theorem keep_connectionLost (w : World) : KeepD w (connectionLost w).1 := by
  unfold connectionLost
  dsimp only
  refine keep_andThen (KeepD.trans ?_ (keep_cancelTimer _ _)) ?_
  · keep_rfl
  · intro v
    split
    · keep_rfl
    · refine keep_andThen (KeepD.trans ?_ (keep_pauseAll _)) ?_
      · keep_rfl
      · intro x
        split
        · exact keep_mInput _ _ _ _
        · exact keep_mInput _ _ _ _

end WV.Proofs.C17
