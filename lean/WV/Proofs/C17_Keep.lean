import WV.Model.C17

/-!
C17 helper lemmas: fields that no Manager- or Connector-level code touches (the Dilator's own
fields, the Terminator, the configuration).
-/
namespace WV.Proofs.C17
open WV WV.Gen WV.C17

structure KeepD (w w' : World) : Prop where
  hasMgr : w'.hasMgr = w.hasMgr
  key : w'.key = w.key
  mySide : w'.mySide = w.mySide
  pKey : w'.pKey = w.pKey
  pVers : w'.pVers = w.pVers
  pMsgs : w'.pMsgs = w.pMsgs
  called : w'.called = w.called
  ts : w'.ts = w.ts
  closed : w'.closed = w.closed
  noListen : w'.noListen = w.noListen
  asyncListen : w'.asyncListen = w.asyncListen
  waiters : w'.waiters = w.waiters
  mainMono : w.main = .failed → w'.main = .failed

macro "keep_rfl" : tactic => `(tactic| exact ⟨rfl, rfl, rfl, rfl, rfl, rfl, rfl, rfl, rfl, rfl, rfl, rfl, fun h => h⟩)

theorem KeepD.refl (w : World) : KeepD w w := ⟨rfl, rfl, rfl, rfl, rfl, rfl, rfl, rfl, rfl, rfl, rfl, rfl, fun h => h⟩

theorem KeepD.trans {a b c : World} (h1 : KeepD a b) (h2 : KeepD b c) : KeepD a c :=
  ⟨h2.hasMgr.trans h1.hasMgr, h2.key.trans h1.key, h2.mySide.trans h1.mySide, h2.pKey.trans h1.pKey,
   h2.pVers.trans h1.pVers, h2.pMsgs.trans h1.pMsgs, h2.called.trans h1.called, h2.ts.trans h1.ts,
   h2.closed.trans h1.closed, h2.noListen.trans h1.noListen, h2.asyncListen.trans h1.asyncListen,
   h2.waiters.trans h1.waiters, fun h => h2.mainMono (h1.mainMono h)⟩

theorem resolveWaiter_same (id : Nat) (ok : Bool) (w : World) :
    ∃ ws rg, resolveWaiter id ok w = { w with waiters := ws, registered := rg } := by
  unfold resolveWaiter
  split
  · exact ⟨_, _, rfl⟩
  · split
    · split <;> exact ⟨_, _, rfl⟩
    · exact ⟨_, _, rfl⟩

theorem connectAs_same (nm : Option String) (w : World) :
    ∃ ws wn q mo, connectAs nm w = { w with waiters := ws, wnames := wn, queue := q, mainObs := mo } ∧
      ∀ t ∈ w.queue, t ∈ q := by
  unfold connectAs
  dsimp only
  split
  · exact ⟨_, _, _, _, rfl, fun t ht => ht⟩
  · exact ⟨_, _, _, _, rfl, fun t ht => List.mem_append.mpr (Or.inl ht)⟩
  · exact ⟨_, _, _, _, rfl, fun t ht => List.mem_append.mpr (Or.inl ht)⟩

theorem keep_andThen {w : World} {r : Res} {f : World → Res} (h1 : KeepD w r.1) (h2 : ∀ v, KeepD v (f v).1) :
    KeepD w (andThen r f).1 := by
  obtain ⟨v, e⟩ := r
  cases e
  · exact h1.trans (h2 v)
  · exact h1

theorem keep_dcpSelect (c : Nat) (w : World) : KeepD w (dcpSelect c w).1 := by
  unfold dcpSelect
  split
  · exact KeepD.refl _
  · split
    · exact KeepD.refl _
    · dsimp only
      split
      · split <;> exact ⟨rfl, rfl, rfl, rfl, rfl, rfl, rfl, rfl, rfl, rfl, rfl, rfl, fun h => h⟩
      · exact ⟨rfl, rfl, rfl, rfl, rfl, rfl, rfl, rfl, rfl, rfl, rfl, rfl, fun h => h⟩

theorem keep_stopListeners (g : Nat) (w : World) : KeepD w (stopListeners g w) := by keep_rfl
theorem keep_stopPendingConnectors (g : Nat) (w : World) : KeepD w (stopPendingConnectors g w) := by keep_rfl
theorem keep_stopPendingConnections (g : Nat) (w : World) : KeepD w (stopPendingConnections g w) := by keep_rfl
theorem keep_breakCycles (g : Nat) (w : World) : KeepD w (breakCycles g w) := by keep_rfl

theorem keep_cOut (made : Nat → World → Res) (hm : ∀ c v, KeepD v (made c v).1) (g a : Nat) (o : Connector.Output)
    (w : World) : KeepD w (cOut made g a o w).1 := by
  cases o
  · exact ⟨rfl, rfl, rfl, rfl, rfl, rfl, rfl, rfl, rfl, rfl, rfl, rfl, fun h => h⟩
  · exact ⟨rfl, rfl, rfl, rfl, rfl, rfl, rfl, rfl, rfl, rfl, rfl, rfl, fun h => h⟩
  · simp only [cOut]
    refine keep_andThen (KeepD.trans ?_ (keep_dcpSelect _ _)) (hm a)
    refine KeepD.trans ?_ (keep_stopPendingConnections _ _)
    refine KeepD.trans ?_ (keep_stopPendingConnectors _ _)
    refine KeepD.trans ?_ (keep_stopListeners _ _)
    keep_rfl
  · simp only [cOut, stopEverything]
    refine KeepD.trans ?_ (keep_breakCycles _ _)
    refine KeepD.trans ?_ (keep_stopPendingConnections _ _)
    refine KeepD.trans ?_ (keep_stopPendingConnectors _ _)
    exact keep_stopListeners _ _
  · exact ⟨rfl, rfl, rfl, rfl, rfl, rfl, rfl, rfl, rfl, rfl, rfl, rfl, fun h => h⟩

theorem keep_cOuts (made : Nat → World → Res) (hm : ∀ c v, KeepD v (made c v).1) (g a : Nat)
    (os : List Connector.Output) (w : World) : KeepD w (cOuts made g a os w).1 := by
  induction os generalizing w with
  | nil => exact KeepD.refl _
  | cons o os ih => exact keep_andThen (keep_cOut made hm g a o w) (fun v => ih v)

theorem keep_cInput (made : Nat → World → Res) (hm : ∀ c v, KeepD v (made c v).1) (g : Nat) (i : Connector.Input)
    (a : Nat) (w : World) : KeepD w (cInput made g i a w).1 := by
  unfold cInput
  split
  · exact KeepD.refl _
  · split
    · exact KeepD.refl _
    · refine KeepD.trans ?_ (keep_cOuts made hm g a _ _)
      keep_rfl

theorem keep_noMade : ∀ c v, KeepD v (noMade c v).1 := fun _ v => KeepD.refl v

theorem keep_logged {w : World} {r : Res} (h : KeepD w r.1) : KeepD w (logged r) := by
  obtain ⟨v, e⟩ := r
  cases e
  · exact h
  · exact h.trans ⟨rfl, rfl, rfl, rfl, rfl, rfl, rfl, rfl, rfl, rfl, rfl, rfl, fun h => h⟩

theorem keep_connectorStart (g : Nat) (w : World) : KeepD w (connectorStart g w) := by
  unfold connectorStart
  split
  · exact KeepD.refl _
  · dsimp only
    split
    · refine KeepD.trans ?_ (keep_logged (keep_cInput noMade keep_noMade _ _ _ _))
      keep_rfl
    · exact ⟨rfl, rfl, rfl, rfl, rfl, rfl, rfl, rfl, rfl, rfl, rfl, rfl, fun h => h⟩

theorem keep_startConnecting (w : World) : KeepD w (startConnecting w).1 := by
  unfold startConnecting
  split
  · exact KeepD.refl _
  · split
    · exact KeepD.refl _
    · refine KeepD.trans ?_ (keep_connectorStart _ _)
      keep_rfl

theorem keep_mOut (s : String) (n : Nat) (o : Manager.Output) (w : World) : KeepD w (mOut s n o w).1 := by
  cases o <;> simp only [mOut]
  · -- abandon_connection
    split <;> exact ⟨rfl, rfl, rfl, rfl, rfl, rfl, rfl, rfl, rfl, rfl, rfl, rfl, fun h => h⟩
  · -- choose_role
    split
    · exact ⟨rfl, rfl, rfl, rfl, rfl, rfl, rfl, rfl, rfl, rfl, rfl, rfl, fun h => h⟩
    · split
      · exact ⟨rfl, rfl, rfl, rfl, rfl, rfl, rfl, rfl, rfl, rfl, rfl, rfl, fun h => h⟩
      · exact KeepD.refl _
  · -- notify_stopped
    unfold notifyStopped
    split
    · exact KeepD.refl _
    · exact ⟨rfl, rfl, rfl, rfl, rfl, rfl, rfl, rfl, rfl, rfl, rfl, rfl, fun h => h⟩
  · exact ⟨rfl, rfl, rfl, rfl, rfl, rfl, rfl, rfl, rfl, rfl, rfl, rfl, fun h => h⟩
  · exact ⟨rfl, rfl, rfl, rfl, rfl, rfl, rfl, rfl, rfl, rfl, rfl, rfl, fun h => h⟩
  · exact ⟨rfl, rfl, rfl, rfl, rfl, rfl, rfl, rfl, rfl, rfl, rfl, rfl, fun h => h⟩
  · exact KeepD.refl _
  · exact KeepD.refl _
  · exact KeepD.refl _
  · exact KeepD.refl _
  · exact keep_startConnecting w
  · exact keep_startConnecting w
  · unfold withConnector
    split
    · exact KeepD.refl _
    · exact keep_cInput noMade keep_noMade _ _ _ _
  · unfold withConnector
    split
    · exact KeepD.refl _
    · exact keep_cInput noMade keep_noMade _ _ _ _

theorem keep_mOuts (s : String) (n : Nat) (os : List Manager.Output) (w : World) : KeepD w (mOuts s n os w).1 := by
  induction os generalizing w with
  | nil => exact KeepD.refl _
  | cons o os ih => exact keep_andThen (keep_mOut s n o w) (fun v => ih v)

theorem keep_mInput (i : Manager.Input) (s : String) (n : Nat) (w : World) : KeepD w (mInput i s n w).1 := by
  unfold mInput
  split
  · exact KeepD.refl _
  · refine KeepD.trans ?_ (keep_mOuts s n _ _)
    keep_rfl

theorem keep_mainFire (w : World) : KeepD w (mainFire w).1 := by
  unfold mainFire
  split
  · exact KeepD.refl _
  · rename_i hn
    have hn' : w.main = .noResult := by simpa using hn
    exact ⟨rfl, rfl, rfl, rfl, rfl, rfl, rfl, rfl, rfl, rfl, rfl, rfl, fun h => by rw [hn'] at h; cases h⟩

theorem keep_connectionMade (c : Nat) (w : World) : KeepD w (connectionMade c w).1 := by
  unfold connectionMade
  refine keep_andThen (KeepD.trans ?_ (keep_mInput _ _ _ _)) ?_
  · unfold startPingTimer
    split
    · keep_rfl
    · exact KeepD.refl _
  · intro v
    unfold useConnection
    dsimp only
    split
    · keep_rfl
    · refine KeepD.trans ?_ (keep_mainFire _)
      keep_rfl

theorem keep_connectionLost (w : World) : KeepD w (connectionLost w).1 := by
  unfold connectionLost
  dsimp only
  split
  · exact ⟨rfl, rfl, rfl, rfl, rfl, rfl, rfl, rfl, rfl, rfl, rfl, rfl, fun h => h⟩
  · split
    · refine KeepD.trans ?_ (keep_mInput _ _ _ _)
      keep_rfl
    · refine KeepD.trans ?_ (keep_mInput _ _ _ _)
      keep_rfl

end WV.Proofs.C17
