import WV.Model.C07
import WV.Proofs.C07_Connect

/-! `connect()` has completed by its deadline: invariants linking `_fired`, the result of
`connect()` and the `_not_forever` delayed call, preserved by every event, and the argument that
`Clock.advance` past the deadline runs that delayed call. -/
namespace WV.Proofs.C07
open WV WV.C07

/-- supervisor steps never move the clock, never restart `connect()`, and can only cancel the
    deadline call -/
structure Shr (w w' : World) : Prop where
  started : w'.started = w.started
  t0 : w'.t0 = w.t0
  now : w'.now = w.now
  dl : w'.deadline = w.deadline ∨ w'.deadline = none

def P1 (w : World) : Prop :=
  (w.fired = true → w.result ≠ .pending) ∧
  (∀ t, w.deadline = some t → w.started = true ∧ t.1 = w.t0 + Gen.Transit.CONNECT_DEADLINE_s)

def P2 (w : World) : Prop := w.started = true → w.result = .pending → w.deadline.isSome = true

structure Good (w w' : World) : Prop where
  shr : Shr w w'
  p1 : P1 w → P1 w'
  p2 : P1 w → P2 w → P2 w'

theorem Shr.refl (w : World) : Shr w w := ⟨rfl, rfl, rfl, Or.inl rfl⟩

theorem Shr.trans {a b c : World} (h1 : Shr a b) (h2 : Shr b c) : Shr a c :=
  ⟨h2.started.trans h1.started, h2.t0.trans h1.t0, h2.now.trans h1.now, by
    rcases h2.dl with h | h
    · rcases h1.dl with h' | h'
      · exact Or.inl (h.trans h')
      · exact Or.inr (h.trans h')
    · exact Or.inr h⟩

theorem Good.refl (w : World) : Good w w := ⟨Shr.refl w, id, fun _ h => h⟩

theorem Good.trans {a b c : World} (h1 : Good a b) (h2 : Good b c) : Good a c :=
  ⟨h1.shr.trans h2.shr, fun h => h2.p1 (h1.p1 h), fun h h' => h2.p2 (h1.p1 h) (h1.p2 h h')⟩

theorem Good.of_eq {w w' : World} (e1 : w'.fired = w.fired) (e2 : w'.result = w.result)
    (e3 : w'.deadline = w.deadline) (e4 : w'.started = w.started) (e5 : w'.t0 = w.t0) (e6 : w'.now = w.now) :
    Good w w' :=
  ⟨⟨e4, e5, e6, Or.inl e3⟩,
   by unfold P1; rw [e1, e2, e3, e4, e5]; exact id,
   by unfold P2; rw [e2, e3, e4]; exact fun _ h => h⟩

theorem Good.pre {w w1 w2 : World} (h : Good w1 w2) (e1 : w1.fired = w.fired) (e2 : w1.result = w.result)
    (e3 : w1.deadline = w.deadline) (e4 : w1.started = w.started) (e5 : w1.t0 = w.t0) (e6 : w1.now = w.now) :
    Good w w2 := (Good.of_eq e1 e2 e3 e4 e5 e6).trans h

theorem foldl_good {α : Type} (f : World → α → World) (hf : ∀ w a, Good w (f w a)) (l : List α) (w : World) :
    Good w (l.foldl f w) := by
  induction l generalizing w with
  | nil => exact Good.refl w
  | cons a rest ih => exact (hf w a).trans (ih (f w a))

theorem maybeDone_good (w : World) : Good w (maybeDone w) := by
  unfold maybeDone
  split
  · exact Good.refl w
  · split
    · exact Good.refl w
    · refine ⟨⟨rfl, rfl, rfl, Or.inr rfl⟩, ?_, ?_⟩
      · intro _
        refine ⟨fun _ => ?_, fun t ht => by simp at ht⟩
        simp only []
        split <;> split <;> simp
      · intro _ _ _ hp
        exfalso
        revert hp
        simp only []
        split <;> split <;> simp

theorem failCallbacks_good (w : World) (k : Nat) (e : Err) : Good w (failCallbacks w k e) := by
  unfold failCallbacks
  exact (maybeDone_good _).pre rfl rfl rfl rfl rfl rfl

theorem fireFail_good (w : World) (k : Nat) (e : Err) : Good w (fireFail w k e) := by
  unfold fireFail
  simp only []
  repeat' split
  all_goals first
    | exact (failCallbacks_good _ k e).pre rfl rfl rfl rfl rfl rfl
    | exact Good.of_eq rfl rfl rfl rfl rfl rfl

theorem cancelConnAt_good (w : World) (i : Nat) : Good w (cancelConnAt w i) := by
  unfold cancelConnAt
  repeat' split
  all_goals first
    | exact Good.refl w
    | exact Good.of_eq rfl rfl rfl rfl rfl rfl

theorem shutdown_good (w : World) : Good w (shutdown w) := by
  unfold shutdown
  exact (foldl_good cancelConnAt cancelConnAt_good _ w).trans (Good.of_eq rfl rfl rfl rfl rfl rfl)

theorem cancelContender_good (w : World) (k : Nat) : Good w (cancelContender w k) := by
  unfold cancelContender
  split
  · exact (shutdown_good w).trans (fireFail_good _ k _)
  · exact fireFail_good _ k _
  · exact fireFail_good _ k _
  · exact (cancelConnAt_good w _).trans (fireFail_good _ k _)
  · exact Good.refl w

theorem okCallbacks_good (w : World) (k i : Nat) : Good w (okCallbacks w k i) := by
  unfold okCallbacks
  exact ((foldl_good cancelContender cancelContender_good _ _).trans (maybeDone_good _)).pre rfl rfl rfl rfl rfl rfl

theorem fireOk_good (w : World) (k i : Nat) : Good w (fireOk w k i) := by
  unfold fireOk
  simp only []
  repeat' split
  all_goals first
    | exact (okCallbacks_good _ k i).pre rfl rfl rfl rfl rfl rfl
    | exact Good.of_eq rfl rfl rfl rfl rfl rfl

theorem negFired_good (w : World) (i : Nat) (r : Option Err) : Good w (negFired w i r) := by
  unfold negFired
  split
  · exact Good.refl w
  · split
    · split
      · exact Good.of_eq rfl rfl rfl rfl rfl rfl
      · simp only []
        have h1 : Good w (shutdown { w with fPending := w.fPending.erase i }) :=
          (shutdown_good _).pre rfl rfl rfl rfl rfl rfl
        split
        · split
          · exact h1.trans (fireOk_good _ _ _)
          · exact h1
        · exact h1
    · split
      · exact fireOk_good _ _ _
      · exact fireFail_good _ _ _

theorem applyCtx_good (w : World) (i : Nat) (x : Ctx) : Good w (applyCtx w i x) := by
  unfold applyCtx
  simp only []
  split
  · exact (negFired_good _ _ _).pre rfl rfl rfl rfl rfl rfl
  · exact Good.of_eq rfl rfl rfl rfl rfl rfl

theorem addConn_good (w : World) (rh : Option Bytes) (ow : Option Nat) : Good w (addConn w rh ow).1 := by
  unfold addConn
  simp only []
  cases ow <;> exact (applyCtx_good _ _ _).pre rfl rfl rfl rfl rfl rfl

theorem attach_good (w : World) (k : Nat) : Good w (attach w k) := by
  unfold attach
  split
  · exact Good.refl w
  · simp only []
    split
    · exact (okCallbacks_good _ _ _).pre rfl rfl rfl rfl rfl rfl
    · exact (failCallbacks_good _ _ _).pre rfl rfl rfl rfl rfl rfl
    · exact Good.of_eq rfl rfl rfl rfl rfl rfl

theorem evInbound_good {w : World} {p : World × Option Err} (hE : evInbound w = some p) : Good w p.1 := by
  unfold evInbound at hE
  split at hE
  · split at hE
    · cases hE; exact addConn_good _ _ _
    · cases hE; exact Good.of_eq rfl rfl rfl rfl rfl rfl
  · cases hE

theorem evConnected_good {w : World} {k : Nat} {p : World × Option Err} (hE : evConnected w k = some p) :
    Good w p.1 := by
  unfold evConnected at hE
  split at hE
  · split at hE
    · cases hE; exact addConn_good _ _ _
    · cases hE
  · cases hE

theorem evConnFail_good {w w' : World} {k : Nat} (h : evConnFail w k e = some w') : Good w w' := by
  unfold evConnFail at h
  split at h
  · cases h; exact fireFail_good _ _ _
  · cases h

theorem evData_good (w : World) (i : Nat) (d : Bytes) : Good w (evData w i d).1 := by
  unfold evData
  split
  · exact Good.refl w
  · exact applyCtx_good _ _ _

theorem evLost_good (w : World) (i : Nat) : Good w (evLost w i) := by
  unfold evLost
  split
  · exact Good.refl w
  · simp only []
    split
    · exact (negFired_good _ _ _).pre rfl rfl rfl rfl rfl rfl
    · exact Good.of_eq rfl rfl rfl rfl rfl rfl

theorem fireDeadline_dl (w : World) : (fireDeadline w).deadline = none := by
  unfold fireDeadline
  simp only []
  split
  · rfl
  · have h := (foldl_good cancelContender cancelContender_good w.remaining { w with deadline := none }).shr.dl
    have h' : (List.foldl cancelContender { w with deadline := none } w.remaining).deadline = none := by
      rcases h with h | h <;> simpa using h
    split
    · exact h'
    · exact h'

theorem fireDeadline_good (w : World) : Good w (fireDeadline w) := by
  have hs : Shr w (fireDeadline w) := by
    refine ⟨?_, ?_, ?_, Or.inr (fireDeadline_dl w)⟩
    all_goals
      unfold fireDeadline
      simp only []
      have h := (foldl_good cancelContender cancelContender_good w.remaining { w with deadline := none }).shr
      split
      · rfl
      · split
        · first | exact h.started | exact h.t0 | exact h.now
        · first | exact h.started | exact h.t0 | exact h.now
  have hp1 : P1 w → P1 (fireDeadline w) := by
    intro h
    have h1 : P1 { w with deadline := none } := ⟨h.1, fun t ht => by simp at ht⟩
    unfold fireDeadline
    simp only []
    split
    · exact h1
    · have h2 := (foldl_good cancelContender cancelContender_good w.remaining { w with deadline := none }).p1 h1
      split
      · exact h2
      · refine ⟨fun _ => by simp, fun t ht => h2.2 t ht⟩
  refine ⟨hs, hp1, ?_⟩
  intro h _ _ hp
  exfalso
  have h1 : P1 { w with deadline := none } := ⟨h.1, fun t ht => by simp at ht⟩
  revert hp
  unfold fireDeadline
  simp only []
  split
  · rename_i hf; exact h.1 hf
  · have h2 := (foldl_good cancelContender cancelContender_good w.remaining { w with deadline := none }).p1 h1
    split
    · rename_i hf; exact h2.1 hf
    · simp

theorem fireTimer_good (w : World) (t : Timer × TimerId) : Good w (fireTimer w t) := by
  unfold fireTimer
  repeat' split
  all_goals first
    | exact Good.refl w
    | exact fireDeadline_good w
    | exact Good.of_eq rfl rfl rfl rfl rfl rfl

/-! ### the invariant -/

structure K (w : World) : Prop where
  p1 : P1 w
  p2 : P2 w
  future : ∀ t, w.deadline = some t → w.now < t.1

theorem K_good {w w' : World} (h : K w) (g : Good w w') : K w' :=
  ⟨g.p1 h.p1, g.p2 h.p1 h.p2, fun t ht => by
    rw [g.shr.now]
    rcases g.shr.dl with e | e
    · rw [e] at ht; exact h.future t ht
    · rw [e] at ht; cases ht⟩

theorem deadline_pos : 0 < Gen.Transit.CONNECT_DEADLINE_s := by decide

theorem connect_tailA (w2 : World) (ks : List Nat) (s : Nat) (hP : P1 w2) (hdl : w2.deadline = none)
    (hf : (ks.foldl attach w2).fired = true) : K { (ks.foldl attach w2) with seq := s } := by
  have g := foldl_good attach attach_good ks w2
  have hd3 : (ks.foldl attach w2).deadline = none := by
    rcases g.shr.dl with e | e
    · rw [e]; exact hdl
    · exact e
  have h3 := g.p1 hP
  exact ⟨⟨h3.1, fun t ht => by simp only [hd3] at ht; cases ht⟩, fun _ hp => absurd hp (h3.1 hf),
    fun t ht => by simp only [hd3] at ht; cases ht⟩

theorem connect_tailB (w2 : World) (ks : List Nat) (s : Nat) (hP : P1 w2)
    (hst : w2.started = true) (ht0 : w2.t0 = w2.now) :
    K { (ks.foldl attach w2) with
        deadline := some ((ks.foldl attach w2).now + Gen.Transit.CONNECT_DEADLINE_s, (ks.foldl attach w2).seq),
        seq := s } := by
  have g := foldl_good attach attach_good ks w2
  have h3 := g.p1 hP
  refine ⟨⟨h3.1, ?_⟩, fun _ _ => rfl, ?_⟩
  · intro t ht
    simp only [Option.some.injEq] at ht
    subst ht
    refine ⟨?_, ?_⟩
    · simp only []; rw [g.shr.started]; exact hst
    · simp only []; rw [g.shr.now, g.shr.t0, ht0]
  · intro t ht
    simp only [Option.some.injEq] at ht
    subst ht
    simp only []
    have := deadline_pos
    omega

theorem K_evConnect {w w' : World} (h : K w) (he : evConnect w = some w') : K w' := by
  rw [evConnect_eq] at he
  unfold evConnectHead at he
  split at he
  · cases he
  · rename_i hst
    have hns : w.started = false := by simpa using hst
    have hdl : w.deadline = none := by
      cases hd : w.deadline with
      | none => rfl
      | some t => have := (h.p1.2 t hd).1; rw [hns] at this; cases this
    simp only [] at he
    split at he
    · cases he
      refine ⟨⟨fun hf => by simp, fun t ht => by simp [hdl] at ht⟩, fun _ hp => by simp at hp, fun t ht => by simp [hdl] at ht⟩
    · have hP1 : ∀ (w2 : World), w2.fired = w.fired → w2.result = w.result → w2.deadline = none → P1 w2 := by
        intro w2 e1 e2 e3
        exact ⟨by rw [e1, e2]; exact h.p1.1, fun t ht => by rw [e3] at ht; cases ht⟩
      split at he <;> cases he
      · rename_i hfired
        exact connect_tailA _ _ _ (hP1 _ rfl rfl hdl) hdl hfired
      · exact connect_tailB _ _ _ (hP1 _ rfl rfl hdl) rfl rfl


/-! ### the clock -/

theorem mem_insertSorted (a x : Timer × TimerId) (l : List (Timer × TimerId)) :
    x ∈ insertSorted a l ↔ x = a ∨ x ∈ l := by
  induction l with
  | nil => simp [insertSorted]
  | cons b rest ih =>
    unfold insertSorted
    split
    · simp
    · simp [ih]
      constructor
      · rintro (h | h | h)
        · exact Or.inr (Or.inl h)
        · exact Or.inl h
        · exact Or.inr (Or.inr h)
      · rintro (h | h | h)
        · exact Or.inr (Or.inl h)
        · exact Or.inl h
        · exact Or.inr (Or.inr h)

theorem mem_sortTimers (x : Timer × TimerId) (l : List (Timer × TimerId)) : x ∈ sortTimers l ↔ x ∈ l := by
  induction l with
  | nil => simp [sortTimers]
  | cons a rest ih => simp [sortTimers, mem_insertSorted, ih]

theorem fold_keeps_none (l : List (Timer × TimerId)) (u : World) (hu : u.deadline = none) :
    (l.foldl fireTimer u).deadline = none := by
  rcases (foldl_good fireTimer fireTimer_good l u).shr.dl with e | e
  · rw [e]; exact hu
  · exact e

/-- if the deadline call is among the due calls, it has run (or was cancelled) when they are done -/
theorem fold_fires_deadline (t : Timer) (l : List (Timer × TimerId)) (u : World)
    (hu : u.deadline = some t ∨ u.deadline = none) (hm : (t, TimerId.deadline) ∈ l) :
    (l.foldl fireTimer u).deadline = none := by
  induction l generalizing u with
  | nil => cases hm
  | cons e rest ih =>
    simp only [List.foldl_cons]
    rcases List.mem_cons.mp hm with he | he
    · apply fold_keeps_none
      rw [← he]
      unfold fireTimer
      simp only []
      split
      · exact fireDeadline_dl u
      · rcases hu with h | h
        · rename_i hne; exact absurd h hne
        · exact h
    · apply ih _ _ he
      rcases (fireTimer_good u e).shr.dl with e' | e'
      · rw [e']; exact hu
      · exact Or.inr e'

theorem K_evAdvance {w : World} (h : K w) (dt : Nat) : K (evAdvance w dt) := by
  unfold evAdvance
  simp only []
  have h1 : P1 { w with now := w.now + dt } := h.p1
  have h2 : P2 { w with now := w.now + dt } := h.p2
  have g := foldl_good fireTimer fireTimer_good
    (sortTimers ((activeTimers { w with now := w.now + dt }).filter (fun t => decide (t.1.1 ≤ w.now + dt))))
    { w with now := w.now + dt }
  refine ⟨g.p1 h1, g.p2 h1 h2, ?_⟩
  intro t ht
  rw [g.shr.now]
  show w.now + dt < t.1
  apply Nat.lt_of_not_le
  intro hle
  have hwd : w.deadline = some t := by
    rcases g.shr.dl with e | e
    · rw [e] at ht; exact ht
    · rw [e] at ht; cases ht
  have hm : (t, TimerId.deadline) ∈
      sortTimers ((activeTimers { w with now := w.now + dt }).filter (fun t => decide (t.1.1 ≤ w.now + dt))) := by
    rw [mem_sortTimers]
    simp only [List.mem_filter, decide_eq_true_eq]
    refine ⟨?_, hle⟩
    unfold activeTimers
    simp [hwd]
  have := fold_fires_deadline t _ { w with now := w.now + dt } (Or.inl hwd) hm
  rw [this] at ht; cases ht

theorem K_step {w : World} (h : K w) (e : Event) : K (step w e) := by
  cases e with
  | inbound =>
    simp only [step]
    cases hE : evInbound w with
    | none => exact h
    | some p => exact K_good h (evInbound_good hE)
  | connect =>
    simp only [step]
    split
    · cases hE : evConnect w with
      | none => exact h
      | some w' => exact K_evConnect h hE
    · exact h
  | connected k =>
    simp only [step]
    cases hE : evConnected w k with
    | none => exact h
    | some p => exact K_good h (evConnected_good hE)
  | connFail k e =>
    simp only [step]
    cases hE : evConnFail w k e with
    | none => exact h
    | some w' => exact K_good h (evConnFail_good hE)
  | data i d => exact K_good h (evData_good w i d)
  | lost i => exact K_good h (evLost_good w i)
  | advance dt => exact K_evAdvance h dt
  | setKey => exact K_good h (Good.of_eq rfl rfl rfl rfl rfl rfl)

theorem K_init (cfg : Cfg) (l : Bool) (d : Nat) (r : List Nat) : K (initWorld cfg l d r) :=
  ⟨⟨by simp [initWorld], by simp [initWorld]⟩, by simp [P2, initWorld], by simp [initWorld]⟩

theorem K_run {w : World} (h : K w) (evs : List Event) : K (run w evs) := by
  induction evs generalizing w with
  | nil => exact h
  | cons e rest ih => exact ih (K_step h e)

end WV.Proofs.C07
