import WV.Proofs.C16

namespace WV.Proofs.C16
open WV WV.Gen WV.C16

theorem tick_eq_stall (cfg : Cfg) (s : St) : step cfg s .tick = step cfg s (.stall 1) := rfl

theorem inv_stall {T n : Nat} {s s' : St} (hT : 1 ≤ T) (hi : Inv T s)
    (h : step (Cfg.real T) s (.stall n) = (s', none)) : Inv T s' := by
  obtain ⟨h1, h2, h3, h4, h5, h6, h7, h8, h9, h10, h11, h12, h13⟩ := hi
  simp only [step, stall] at h
  cases htm : s.timer with
  | none =>
    simp [htm] at h
    subst h
    constructor <;> simp_all [inUse]
    all_goals grind
  | some d =>
    obtain ⟨hm, hdr, hd, hnow⟩ := h6 d htm
    obtain ⟨c, hc, ho, htr⟩ := h4 (by simp [hm, inUse])
    have hl : s.role = some true := by
      cases hr : s.role with
      | none => simp_all
      | some b => cases b <;> simp_all
    simp only [htm] at h
    by_cases hdue : (d ≤ s.now + n)
    case pos =>
      simp only [hdue, if_true, timerExpired, ttInput, real_tbl] at h
      rcases htr hl with htr | htr
      · simp [htr, TrafficTimer.table, ttOutputs] at h
        obtain ⟨_, he⟩ := sprt_ok rfl h
        subst he
        constructor <;> simp_all [inUse, pinged]
        all_goals grind
      · simp [htr, TrafficTimer.table, ttOutputs, signalReconnect, hc] at h
        subst h
        constructor <;> simp_all [inUse]
        all_goals grind
    case neg =>
      simp [hdue] at h
      subst h
      constructor <;> simp_all [inUse]
      all_goals grind

theorem inv_tick {T : Nat} {s s' : St} (hT : 1 ≤ T) (hi : Inv T s)
    (h : step (Cfg.real T) s .tick = (s', none)) : Inv T s' :=
  inv_stall (n := 1) hT hi (by rw [← tick_eq_stall]; exact h)

end WV.Proofs.C16
