import WV.Proofs.C19_Steps
/-! C19: `xfer_util.send/receive` — helper lemmas -/
namespace WV.Proofs.C19
open WV WV.C19 WV.Gen

/-- the guard the translator read from `xfer_util.send` and `xfer_util.receive` is `code is None`
    (this is the statement a change to truthiness falsifies) -/
theorem xfer_guard_is_none : Flags.xfer_allocates_only_for_code_is_none = true := by decide

theorem xferStartOn_str (isD : Nat → Bool) (s : St) (c : Str) :
    xferStartOn isD s (.str c) = step isD s (.setCode c) := by
  simp [xferStartOn, xfer_guard_is_none]

theorem xferStartOn_none (isD : Nat → Bool) (s : St) :
    xferStartOn isD s .none = step isD s (.allocate 2) := by
  simp [xferStartOn, xfer_guard_is_none]

theorem xferStartOn_other (isD : Nat → Bool) (s : St) :
    xferStartOn isD s .other = (cleared s, some .typeError) := by
  simp [xferStartOn, xfer_guard_is_none]

theorem xferCreated_eq (isD : Nat → Bool) :
    xferCreated isD = { init with alloc := .S0B_idle_connected } := by
  simp [xferCreated, step, allocConnected, fireAlloc, init, Allocator.table, Allocator.init, runOuts]

theorem xferStart_none_out (isD : Nat → Bool) : (xferStart isD .none).1.out = [.rcTxAllocate] := by
  rw [xferStart, xferStartOn_none, xferCreated_eq]
  simp [step, init, fireCode, Code.table, Code.init, runOuts, codeOutAllocateCode, allocAllocate, fireAlloc,
    Allocator.table, allocOutAllocate, emit]

end WV.Proofs.C19
