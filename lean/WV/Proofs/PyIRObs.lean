import WV.Model.Observer
import WV.Gen.PyIRObs
import WV.Proofs.PyIR_C03

set_option linter.unusedSimpArgs false
set_option linter.unusedVariables false

/-!
Translation validation of the application-facing latches (`observer.py`, `eventual.py`, the façades of
`wormhole.py`) against `WV.Observer`, the hand-written model C18's observer theorems are about: lemmas.

How the heap of an instance is read (`Rel…`):
* a Deferred is the opaque handle `Deferred(n)` (`dfr n`); `Deferred()` allocates the next one from the
  pseudo-attribute `$deferreds` of the heap — the number of Deferreds created so far, which is the model's
  `W.regs.length` (the model numbers Deferreds in creation order) — and increments it;
* `d.callback` / `d.errback` is the value `boundmethod(Deferred(n), "callback")` (`bm`), so a scheduled call
  `self._eq.eventually(d.callback, x)` is the recorded call `_eq.eventually(bm (dfr n) "callback", x)`: the model's
  `Call ⟨n, x⟩` plus the method name, which the theorems pin as well;
* the sentinel `NoResult` is the only object of the pseudo-class `NoResult`; a `Failure` wrapping the exception given to
  `closed` / `WormholeClosed(r)` is `Failure(Exception(e))` / `Failure(WormholeClosed(r))`; a plain value is an int.
-/
namespace WV.Proofs.PyIRObs
open WV WV.PyIR WV.Gen.PyIRObs WV.Proofs.PyIRC03

theorem truthy_ref (c : String) (i : Nat) : (Val.ref c i).truthy = true := rfl

theorem isInstanceAny_obj (c : String) (fs : List Val) (clss : List String) :
    isInstanceAny (.obj c fs) clss = .ok (clss.contains c) := rfl
theorem isInstanceAny_int (n : Nat) (clss : List String) : isInstanceAny (.int n) clss = .ok false := rfl
theorem isInstanceAny_none (clss : List String) : isInstanceAny .none clss = .ok false := rfl

macro "obs_eval" "[" ts:Lean.Parser.Tactic.simpLemma,* "]" : tactic =>
  `(tactic| simp [exec, callM, execB, execS, andThen, withVal, evalE, evalEs, readAttr, readVar, bindParams, doEmit,
      forLoop, bindPat, iterElems, valIn, valAdd, valLen, valIndex, valItems, isInstance, pyEq, scalarEq,
      Val.hashable, truthy_none, truthy_bool, truthy_int, truthy_str, truthy_bytes, truthy_tuple, truthy_list,
      truthy_dict, truthy_set, truthy_obj, truthy_ref, St.setAttr, St.setLocal, St.bindOpt, Store.get,
      Store.set, Store.del, get_set, bind, Res.bind, pure, unsupported, isInstanceAny_obj, isInstanceAny_int, isInstanceAny_none, doEmitR, runReenter,
      $ts,*])

/-! ## encoders -/

def dfr (d : Nat) : Val := .obj "Deferred" [.int d]
def bm (recv : Val) (m : String) : Val := .obj "boundmethod" [recv, .str m]
def noResult : Val := .obj "NoResult" []

def encRes : Observer.Res → Val
  | .val v => .int v
  | .exc e => .obj "Failure" [.obj "Exception" [.int e]]
  | .wclosed r => .obj "Failure" [.obj "WormholeClosed" [.int r]]

def encResult : Option Observer.Res → Val
  | none => noResult
  | some r => encRes r

/-- `self._eq.eventually(d.<m>, res)` -/
def evCall (m : String) (c : Observer.Call) : Call := ⟨"_eq", "eventually", [bm (dfr c.d) m, encRes c.res]⟩

/-- the environment: nothing external is used; no collaborator fails; the k-th recorded call returns `rets k` -/
def envO (rets : Nat → Val) : Env where
  ext := fun _ _ => unsupported
  fmtD := fun _ => ""
  raises := fun _ => none
  rets := rets

/-- the same with failing collaborators -/
def envOR (rets : Nat → Val) (raises : Nat → Option String) : Env := { envO rets with raises := raises }

theorem encRes_not_noResult (r : Observer.Res) :
    isInstanceAny (encRes r) ["NoResult"] = .ok false := by
  cases r <;> simp [encRes, isInstanceAny] <;> decide

theorem encRes_isFailure (r : Observer.Res) :
    isInstanceAny (encRes r) ["Failure"] = .ok r.isFailure := by
  cases r <;> simp [encRes, isInstanceAny, Observer.Res.isFailure]

theorem encRes_truthy_of_failure (r : Observer.Res) (h : r.isFailure = true) : (encRes r).truthy = true := by
  cases r <;> simp_all [encRes, Observer.Res.isFailure, truthy_obj]

/-! ## OneShotObserver -/

/-- heap of a `OneShotObserver` ⟷ `Observer.OneShot`; `n` = number of Deferreds created so far -/
structure RelOS (h : Store) (o : Observer.OneShot) (n : Nat) : Prop where
  result : h.get "_result" = some (encResult o.result)
  observers : h.get "_observers" = some (.list (o.observers.map dfr))
  eq : ∃ i, h.get "_eq" = some (.ref "EventualQueue" i)
  ndef : h.get "$deferreds" = some (.int n)

/-- what `_maybe_call_observers` hands to the eventual queue -/
def schedOf (res : Option Observer.Res) (obs : List Nat) : List Observer.Call :=
  match res with
  | none => []
  | some r => obs.map fun d => ⟨d, r⟩

theorem scheduleAll_foldl (r : Observer.Res) (ds : List Nat) (q : Observer.EQ) :
    Observer.scheduleAll r ds q = (ds.map fun d => (⟨d, r⟩ : Observer.Call)).foldl Observer.EQ.eventually q := by
  induction ds generalizing q with
  | nil => rfl
  | cons d ds ih => simp [Observer.scheduleAll, ih]

theorem maybe_eq (o : Observer.OneShot) (q : Observer.EQ) :
    (o.maybeCallObservers q).2 = (schedOf o.result o.observers).foldl Observer.EQ.eventually q := by
  unfold Observer.OneShot.maybeCallObservers schedOf
  cases o.result <;> simp [scheduleAll_foldl]

/-- interpreter outcome ⟷ model result of one OneShotObserver method: heap, the calls handed to the eventual queue in
    order (with the bound method's name `m`), and their effect on the model's queue; no exception -/
def AgreeOS (out : Outcome) (n' : Nat) (m : String) (q : Observer.EQ) (cs : List Observer.Call)
    (r : Observer.OneShot × Observer.EQ) : Prop :=
  RelOS out.heap r.1 n' ∧ out.calls = cs.map (evCall m) ∧ r.2 = cs.foldl Observer.EQ.eventually q ∧ out.exc = none

/-- the call of one iteration of `for d in observers: self._eq.eventually(d.callback, self._result)` -/
def gEv (m : String) (res : Val) (d : Val) : Call := ⟨"_eq", "eventually", [bm d m, res]⟩

/-! ## SequenceObserver -/

def encErr : Option Observer.Res → Val
  | none => .none
  | some r => encRes r

structure RelSeq (h : Store) (s : Observer.SeqObs) (n : Nat) : Prop where
  error : h.get "_error" = some (encErr s.error)
  errFail : ∀ f, s.error = some f → f.isFailure = true
  results : h.get "_results" = some (.list (s.results.map Val.int))
  observers : h.get "_observers" = some (.list (s.observers.map dfr))
  eq : ∃ i, h.get "_eq" = some (.ref "EventualQueue" i)
  ndef : h.get "$deferreds" = some (.int n)

/-- `self._eq.eventually(d.<m>, res)` with the bound method's name per call -/
def evCallM (mc : String × Observer.Call) : Call := evCall mc.1 mc.2

/-- interpreter outcome ⟷ model result of one SequenceObserver method; `cs` = the scheduled calls with the bound
    method's name (`callback` / `errback`) -/
def AgreeSeq (out : Outcome) (n' : Nat) (q : Observer.EQ) (cs : List (String × Observer.Call))
    (r : Observer.SeqObs × Observer.EQ) : Prop :=
  RelSeq out.heap r.1 n' ∧ out.calls = cs.map evCallM ∧ r.2 = (cs.map (·.2)).foldl Observer.EQ.eventually q ∧
    out.exc = none

/-! ## EventualQueue -/

/-- the instance itself, when passed on (`self._turn` is `boundmethod(self, "_turn")`) -/
def selfV : Val := .obj "self" []

/-- one entry `(f, args, kwargs)` of `EventualQueue._calls`: the model's `Call` plus the bound method's name -/
def encEntry (mc : String × Observer.Call) : Val := .tuple [bm (dfr mc.2.d) mc.1, .tuple [encRes mc.2.res], .dict []]

/-- heap of an `EventualQueue` ⟷ `Observer.EQ`; `ms` = the bound-method names of the queued calls (the model keeps
    only Deferred and value) -/
structure RelEQ (h : Store) (ms : List String) (q : Observer.EQ) : Prop where
  calls : h.get "_calls" = some (.list ((ms.zip q.calls).map encEntry))
  len : ms.length = q.calls.length
  timer : ∃ tv, h.get "_timer" = some tv ∧ tv.truthy = q.timer
  clock : ∃ i, h.get "_clock" = some (.ref "Clock" i)

/-- `self._clock.callLater(0, self._turn)` -/
def callLaterTurn : Call := ⟨"_clock", "callLater", [.int 0, bm selfV "_turn"]⟩

/-- the call `f(*args, **kwargs)` of one `_turn` iteration, for the entry `(f, args, kwargs)` -/
def gRun : Val → Call
  | .tuple [f, a, k] => ⟨"$v", "__call__", [f, a, k]⟩
  | _ => ⟨"", "", []⟩

/-! ## decoding recorded calls back into the model's vocabulary (shows the encodings are injective; used by the
concrete runs) -/

def decRes : Val → Option Observer.Res
  | .int v => some (.val v)
  | .obj "Failure" [.obj "Exception" [.int e]] => some (.exc e)
  | .obj "Failure" [.obj "WormholeClosed" [.int r]] => some (.wclosed r)
  | _ => none

theorem decRes_encRes (r : Observer.Res) : decRes (encRes r) = some r := by cases r <;> rfl

/-- a recorded `_eq.eventually(Deferred(d).<m>, x)` as (bound method name, model call) -/
def absEv : Call → Option (String × Observer.Call)
  | ⟨"_eq", "eventually", [.obj "boundmethod" [.obj "Deferred" [.int d], .str m], v]⟩ =>
    (decRes v).map fun r => (m, ⟨d, r⟩)
  | _ => none

theorem absEv_evCall (m : String) (c : Observer.Call) : absEv (evCall m c) = some (m, c) := by
  simp [absEv, evCall, bm, dfr, decRes_encRes]

/-! ## _DeferredWormhole -/

open Observer in
/-- a call the façade makes on one of its observers (or on the Boss) -/
inductive OCall where
  | whenFired (o : OS)
  | fireIfNotFired (o : OS) (r : Observer.Res)
  | error (o : OS) (f : Observer.Res)
  | whenNextEvent
  | recvFire (r : Observer.Res)
  | bossClose
  deriving DecidableEq, Repr

/-- the attribute of `_DeferredWormhole` that holds each one-shot observer -/
def osAttr : Observer.OS → String
  | .welcome => "_welcome_observer"
  | .code => "_code_observer"
  | .key => "_key_observer"
  | .verifier => "_verifier_observer"
  | .versions => "_version_observer"
  | .closed => "_closed_observer"

def encO : OCall → Call
  | .whenFired o => ⟨osAttr o, "when_fired", []⟩
  | .fireIfNotFired o r => ⟨osAttr o, "fire_if_not_fired", [encRes r]⟩
  | .error o f => ⟨osAttr o, "error", [encRes f]⟩
  | .whenNextEvent => ⟨"_received_observer", "when_next_event", []⟩
  | .recvFire r => ⟨"_received_observer", "fire", [encRes r]⟩
  | .bossClose => ⟨"_boss", "close", []⟩

def osOfAttr : String → Option Observer.OS
  | "_welcome_observer" => some .welcome
  | "_code_observer" => some .code
  | "_key_observer" => some .key
  | "_verifier_observer" => some .verifier
  | "_version_observer" => some .versions
  | "_closed_observer" => some .closed
  | _ => none

def absO : Call → Option OCall
  | ⟨"_received_observer", "when_next_event", []⟩ => some .whenNextEvent
  | ⟨"_received_observer", "fire", [v]⟩ => (decRes v).map .recvFire
  | ⟨"_boss", "close", []⟩ => some .bossClose
  | ⟨a, "when_fired", []⟩ => (osOfAttr a).map .whenFired
  | ⟨a, "fire_if_not_fired", [v]⟩ => (osOfAttr a).bind fun o => (decRes v).map (.fireIfNotFired o)
  | ⟨a, "error", [v]⟩ => (osOfAttr a).bind fun o => (decRes v).map (.error o)
  | _ => none

theorem absO_encO (c : OCall) : absO (encO c) = some c := by
  cases c with
  | whenFired o => cases o <;> rfl
  | fireIfNotFired o r => cases o <;> simp [encO, absO, osAttr, osOfAttr, decRes_encRes]
  | error o r => cases o <;> simp [encO, absO, osAttr, osOfAttr, decRes_encRes]
  | whenNextEvent => rfl
  | recvFire r => simp [encO, absO, decRes_encRes]
  | bossClose => rfl

/-- what each of those calls does in the model `WV.Observer.W`, by the model's own observer functions (the ones
    the `oneshot_*` / `seq_*` theorems tie to the observers' bodies); `d` = the Deferred that a
    `when_fired` / `when_next_event` of this façade call allocates -/
def applyO (d : Nat) (w : Observer.W) : OCall → Observer.W
  | .whenFired o => w.setOS o ((w.os o).whenFired d w.eq)
  | .fireIfNotFired o r => w.setOS o ((w.os o).fireIfNotFired r w.eq)
  | .error o f => if h : f.isFailure = true then w.errorOS o f h else w
  | .whenNextEvent => w.setRecv (w.received.whenNextEvent d w.eq)
  | .recvFire r => w.setRecv (w.received.fire r w.eq)
  | .bossClose => { w with bossClose := w.bossClose + 1 }

def applyOs (d : Nat) (w : Observer.W) (cs : List OCall) : Observer.W := cs.foldl (applyO d) w

/-- the model's bookkeeping of an API call: the application got Deferred number `regs.length` from call `k` and will
    react with `react` -/
def register (w : Observer.W) (k : Observer.Kind) (react : List Observer.Kind) : Observer.W :=
  { w with regs := w.regs ++ [⟨k, react⟩] }

/-- heap of a `_DeferredWormhole` ⟷ `Observer.W`: the `_closed` flag; the seven observers and the Boss are wired
    (the observers' own state is related by `RelOS` / `RelSeq` on THEIR heaps) -/
structure RelW (h : Store) (w : Observer.W) : Prop where
  closed : h.get "_closed" = some (.bool w.closed)
  os : ∀ o, ∃ i, h.get (osAttr o) = some (.ref "OneShotObserver" i)
  recv : ∃ i, h.get "_received_observer" = some (.ref "SequenceObserver" i)
  boss : ∃ i, h.get "_boss" = some (.ref "Boss" i)

/-- storing `_closed = True` keeps the wiring; the model state only has to have `closed = true` -/
theorem relW_closed {h : Store} {w w' : Observer.W} (R : RelW h w) (hc : w'.closed = true) :
    RelW (h.set "_closed" (.bool true)) w' := by
  refine ⟨by simp [get_set, hc], ?_, R.recv.imp fun _ hh => by simpa [get_set] using hh,
    R.boss.imp fun _ hh => by simpa [get_set] using hh⟩
  intro o; obtain ⟨i, hi⟩ := R.os o; exact ⟨i, by cases o <;> simpa [get_set, osAttr] using hi⟩

end WV.Proofs.PyIRObs
