import WV.Proofs.C07
import WV.Proofs.C07_Connect

/-! World-level lemmas for C07: everything the supervisor (`InboundConnectionFactory`,
`_ThereCanBeOnlyOne`, `_not_forever`, the clock) does to connections is a sequence of *benign*
updates (cancel a pending negotiation, time out, deliver `connectionLost`), none of which writes a
byte or touches `_winner`. -/
namespace WV.Proofs.C07
open WV WV.C07

inductive Benign : Conn → Conn → Prop where
  | refl (a : Conn) : Benign a a
  | cancel {a b : Conn} (h : Benign a b) (hp : b.negD = .pending) : Benign a (cancelConn b)
  | timeout {a b : Conn} (h : Benign a b) : Benign a (timeoutConn b)
  | lost {a b : Conn} (h : Benign a b) : Benign a (connLost b).1

theorem Benign.trans {a b c : Conn} (h1 : Benign a b) (h2 : Benign b c) : Benign a c := by
  induction h2 with
  | refl => exact h1
  | cancel _ hp ih => exact .cancel ih hp
  | timeout _ ih => exact .timeout ih
  | lost _ ih => exact .lost ih

theorem CInv_cancel {cfg : Cfg} {w : Option Nat} {i : Nat} {c : Conn} (h : CInv cfg w i c) :
    CInv cfg w i (cancelConn c) :=
  CInv_hungUp_of h rfl rfl rfl (List.prefix_refl _) (by simp [cancelConn]) (by simp [cancelConn])

theorem CInv_timeout {cfg : Cfg} {w : Option Nat} {i : Nat} {c : Conn} (h : CInv cfg w i c) :
    CInv cfg w i (timeoutConn c) := by
  obtain ⟨shape, st_ok, relay, hs, wait, recs, go, nm, win, okS, okR, negOk⟩ := h
  refine ⟨shape, st_ok, relay, hs, wait, recs, go, ?_, win, okS, okR, negOk⟩
  intro h'
  obtain ⟨a, b, c', d, e⟩ := nm h'
  exact ⟨a, b, c', by simp [timeoutConn], e⟩

theorem connLost_fields (c : Conn) :
    (connLost c).1.state = c.state ∧ (connLost c).1.buf = c.buf ∧ (connLost c).1.relayHs = c.relayHs ∧
    (connLost c).1.out = c.out ∧ (connLost c).1.lost = c.lost ∧ (connLost c).1.rx = c.rx ∧
    (connLost c).1.owner = c.owner ∧
    ((connLost c).1.negD = c.negD ∨ (c.negD = .pending ∧ ∃ e, (connLost c).1.negD = .fail e)) := by
  unfold connLost
  cases h : c.negD <;> simp [h]

theorem CInv_lost {cfg : Cfg} {w : Option Nat} {i : Nat} {c : Conn} (h : CInv cfg w i c) :
    CInv cfg w i (connLost c).1 := by
  obtain ⟨hst, hbuf, hrel, hout, hlost, hrx, _, hneg⟩ := connLost_fields c
  obtain ⟨shape, st_ok, relay, hs, wait, recs, go, nm, win, okS, okR, negOk⟩ := h
  have hp : pre (connLost c).1 = pre c := by simp [pre, hrel]
  have ho : hsOut (connLost c).1 = hsOut c := by simp [hsOut, hrel]
  have hok : (connLost c).1.negD = .ok → c.negD = .ok := by
    intro h'; rcases hneg with h'' | ⟨_, e, h''⟩
    · rw [← h'']; exact h'
    · rw [h''] at h'; cases h'
  refine ⟨?_, ?_, ?_, ?_, ?_, ?_, ?_, ?_, ?_, ?_, ?_, ?_⟩
  · rw [hout, ho]; exact shape
  · rw [hst]; exact st_ok
  · rw [hst, hout, ho, hrel, hrx, hbuf]; exact relay
  · rw [hst, hout, ho, hp, hrx, hbuf]; exact hs
  · rw [hst, hout, ho, hp, hrx, hbuf]; exact wait
  · rw [hst]; intro h'
    have := recs h'
    rcases hneg with h'' | ⟨h'', _⟩
    · rw [h'']; exact this
    · rw [this] at h''; cases h''
  · rw [hout, ho, hp, hrx]; exact go
  · rw [hout, ho, hp, hrx, hst, hlost]; exact nm
  · rw [hout, ho]; exact win
  · rw [hout, ho]; intro h1 h2; exact okS (hok h1) h2
  · rw [hp, hrx]; intro h1 h2; exact okR (hok h1) h2
  · rw [hst]; intro h1; exact negOk (hok h1)

theorem CInv_benign {cfg : Cfg} {w : Option Nat} {i : Nat} {a b : Conn} (hb : Benign a b)
    (h : CInv cfg w i a) : CInv cfg w i b := by
  induction hb with
  | refl => exact h
  | cancel _ _ ih => exact CInv_cancel ih
  | timeout _ ih => exact CInv_timeout ih
  | lost _ ih => exact CInv_lost ih

/-- benign updates never write, never read -/
theorem Benign.keeps {a b : Conn} (hb : Benign a b) :
    b.out = a.out ∧ b.rx = a.rx ∧ b.relayHs = a.relayHs ∧ b.owner = a.owner ∧ a.lost ≤ b.lost ∧
    (b.negD = .ok ↔ a.negD = .ok) := by
  induction hb with
  | refl => simp
  | cancel _ hp ih =>
    obtain ⟨h1, h2, h3, h4, h5, h6⟩ := ih
    refine ⟨h1, h2, h3, h4, by simp [cancelConn]; omega, ?_⟩
    simp [cancelConn]; intro h; rw [h6.mpr h] at hp; cases hp
  | timeout _ ih =>
    obtain ⟨h1, h2, h3, h4, h5, h6⟩ := ih
    exact ⟨h1, h2, h3, h4, by simp [timeoutConn]; omega, h6⟩
  | @lost b _ ih =>
    obtain ⟨h1, h2, h3, h4, h5, h6⟩ := ih
    obtain ⟨_, _, hrel, hout, hlost, hrx, hown, hneg⟩ := connLost_fields b
    refine ⟨hout.trans h1, hrx.trans h2, hrel.trans h3, hown.trans h4, by rw [hlost]; exact h5, ?_⟩
    rw [← h6]
    rcases hneg with h | ⟨hp, e, h⟩
    · rw [h]
    · rw [h, hp]; simp

/-- the connections of `w'` are those of `w` after benign updates; nothing else that the
    connection-level invariant depends on has changed -/
structure Quiet (w w' : World) : Prop where
  cfg : w'.cfg = w.cfg
  winner : w'.winner = w.winner
  n : w'.n = w.n
  conns : ∀ i, (w.conns i = none ∧ w'.conns i = none) ∨
               ∃ a b, w.conns i = some a ∧ w'.conns i = some b ∧ Benign a b

theorem Quiet.refl (w : World) : Quiet w w :=
  ⟨rfl, rfl, rfl, fun i => by
    cases h : w.conns i with
    | none => exact Or.inl ⟨rfl, rfl⟩
    | some a => exact Or.inr ⟨a, a, rfl, rfl, .refl a⟩⟩

/-- a world that differs only in supervisor fields -/
theorem Quiet.of_eq {w w' : World} (h1 : w'.cfg = w.cfg) (h2 : w'.winner = w.winner) (h3 : w'.n = w.n)
    (h4 : w'.conns = w.conns) : Quiet w w' :=
  ⟨h1, h2, h3, fun i => by
    rw [h4]
    cases h : w.conns i with
    | none => exact Or.inl ⟨rfl, rfl⟩
    | some a => exact Or.inr ⟨a, a, rfl, rfl, .refl a⟩⟩

theorem Quiet.trans {w1 w2 w3 : World} (h12 : Quiet w1 w2) (h23 : Quiet w2 w3) : Quiet w1 w3 :=
  ⟨h23.cfg.trans h12.cfg, h23.winner.trans h12.winner, h23.n.trans h12.n, fun i => by
    rcases h12.conns i with ⟨a1, a2⟩ | ⟨a, b, ha, hb, hab⟩
    · rcases h23.conns i with ⟨_, b2⟩ | ⟨b', c, hb', _, _⟩
      · exact Or.inl ⟨a1, b2⟩
      · rw [a2] at hb'; cases hb'
    · rcases h23.conns i with ⟨b1, _⟩ | ⟨b', c, hb', hc, hbc⟩
      · rw [hb] at b1; cases b1
      · rw [hb] at hb'; cases hb'
        exact Or.inr ⟨a, c, ha, hc, hab.trans hbc⟩⟩

theorem Quiet.pre {w w1 w2 : World} (h : Quiet w1 w2) (e1 : w1.cfg = w.cfg) (e2 : w1.winner = w.winner)
    (e3 : w1.n = w.n) (e4 : w1.conns = w.conns) : Quiet w w2 :=
  (Quiet.of_eq e1 e2 e3 e4).trans h

theorem Quiet.setConn {w : World} {i : Nat} {a b : Conn} (ha : w.conns i = some a) (hb : Benign a b) :
    Quiet w (w.setConn i b) :=
  ⟨rfl, rfl, rfl, fun j => by
    by_cases hj : j = i
    · subst hj; exact Or.inr ⟨a, b, ha, by simp [World.setConn], hb⟩
    · cases h : w.conns j with
      | none => exact Or.inl ⟨rfl, by simp [World.setConn, hj, h]⟩
      | some c => exact Or.inr ⟨c, c, rfl, by simp [World.setConn, hj, h], .refl c⟩⟩

theorem foldl_quiet {α : Type} (f : World → α → World) (hf : ∀ w a, Quiet w (f w a)) (l : List α) (w : World) :
    Quiet w (l.foldl f w) := by
  induction l generalizing w with
  | nil => exact Quiet.refl w
  | cons a rest ih => exact (hf w a).trans (ih (f w a))

/-! ### every supervisor function is quiet -/

theorem maybeDone_quiet (w : World) : Quiet w (maybeDone w) := by
  unfold maybeDone
  split
  · exact Quiet.refl w
  · split
    · exact Quiet.refl w
    · exact Quiet.of_eq rfl rfl rfl rfl

theorem failCallbacks_quiet (w : World) (k : Nat) (e : Err) : Quiet w (failCallbacks w k e) := by
  unfold failCallbacks
  exact (maybeDone_quiet _).pre rfl rfl rfl rfl

theorem fireFail_quiet (w : World) (k : Nat) (e : Err) : Quiet w (fireFail w k e) := by
  unfold fireFail
  simp only []
  repeat' split
  all_goals first
    | exact (failCallbacks_quiet _ k e).pre rfl rfl rfl rfl
    | exact Quiet.of_eq rfl rfl rfl rfl

theorem cancelConnAt_quiet (w : World) (i : Nat) : Quiet w (cancelConnAt w i) := by
  unfold cancelConnAt
  split
  · rename_i c hc
    split
    · rename_i hp
      exact Quiet.setConn hc (.cancel (.refl c) hp)
    · exact Quiet.refl w
  · exact Quiet.refl w

theorem shutdown_quiet (w : World) : Quiet w (shutdown w) := by
  unfold shutdown
  exact (foldl_quiet cancelConnAt cancelConnAt_quiet _ w).trans (Quiet.of_eq rfl rfl rfl rfl)

theorem cancelContender_quiet (w : World) (k : Nat) : Quiet w (cancelContender w k) := by
  unfold cancelContender
  split
  · exact (shutdown_quiet w).trans (fireFail_quiet _ k _)
  · exact fireFail_quiet _ k _
  · exact fireFail_quiet _ k _
  · exact (cancelConnAt_quiet w _).trans (fireFail_quiet _ k _)
  · exact Quiet.refl w

theorem okCallbacks_quiet (w : World) (k i : Nat) : Quiet w (okCallbacks w k i) := by
  unfold okCallbacks
  exact ((foldl_quiet cancelContender cancelContender_quiet _ _).trans (maybeDone_quiet _)).pre rfl rfl rfl rfl

theorem fireOk_quiet (w : World) (k i : Nat) : Quiet w (fireOk w k i) := by
  unfold fireOk
  simp only []
  repeat' split
  all_goals first
    | exact (okCallbacks_quiet _ k i).pre rfl rfl rfl rfl
    | exact Quiet.of_eq rfl rfl rfl rfl

theorem negFired_quiet (w : World) (i : Nat) (r : Option Err) : Quiet w (negFired w i r) := by
  unfold negFired
  split
  · exact Quiet.refl w
  · split
    · split
      · exact Quiet.of_eq rfl rfl rfl rfl
      · simp only []
        have h1 : Quiet w (shutdown { w with fPending := w.fPending.erase i }) :=
          (shutdown_quiet _).pre rfl rfl rfl rfl
        split
        · split
          · exact h1.trans (fireOk_quiet _ _ _)
          · exact h1
        · exact h1
    · split
      · exact fireOk_quiet _ _ _
      · exact fireFail_quiet _ _ _

theorem attach_quiet (w : World) (k : Nat) : Quiet w (attach w k) := by
  unfold attach
  split
  · exact Quiet.refl w
  · simp only []
    split
    · exact (okCallbacks_quiet _ _ _).pre rfl rfl rfl rfl
    · exact (failCallbacks_quiet _ _ _).pre rfl rfl rfl rfl
    · exact Quiet.of_eq rfl rfl rfl rfl

theorem evConnect_quiet {w w' : World} (h : evConnect w = some w') : Quiet w w' := by
  rw [evConnect_eq] at h
  unfold evConnectHead at h
  split at h
  · cases h
  · simp only [] at h
    split at h
    · cases h; exact Quiet.of_eq rfl rfl rfl rfl
    · split at h <;> cases h
      all_goals
        refine Quiet.trans ?_ (Quiet.of_eq (w := List.foldl attach _ _) rfl rfl rfl rfl)
        exact (foldl_quiet attach attach_quiet _ _).pre rfl rfl rfl rfl

theorem evConnFail_quiet {w w' : World} {k : Nat} (h : evConnFail w k e = some w') : Quiet w w' := by
  unfold evConnFail at h
  split at h
  · cases h; exact fireFail_quiet _ _ _
  · cases h

theorem evLost_quiet (w : World) (i : Nat) : Quiet w (evLost w i) := by
  unfold evLost
  split
  · exact Quiet.refl w
  · rename_i c hc
    simp only []
    have h1 : Quiet w (w.setConn i (connLost c).1) := Quiet.setConn hc (.lost (.refl c))
    split
    · exact h1.trans (negFired_quiet _ _ _)
    · exact h1

theorem fireDeadline_quiet (w : World) : Quiet w (fireDeadline w) := by
  unfold fireDeadline
  simp only []
  split
  · exact Quiet.of_eq rfl rfl rfl rfl
  · have h1 : Quiet w (List.foldl cancelContender { w with deadline := none } w.remaining) :=
      (foldl_quiet cancelContender cancelContender_quiet _ _).pre rfl rfl rfl rfl
    split
    · exact h1
    · exact h1.trans (Quiet.of_eq rfl rfl rfl rfl)

theorem fireTimer_quiet (w : World) (t : Timer × TimerId) : Quiet w (fireTimer w t) := by
  unfold fireTimer
  split
  · split
    · rename_i c hc
      split
      · exact Quiet.setConn hc (.timeout (.refl c))
      · exact Quiet.refl w
    · exact Quiet.refl w
  · split
    · exact Quiet.of_eq rfl rfl rfl rfl
    · exact Quiet.refl w
  · split
    · exact fireDeadline_quiet w
    · exact Quiet.refl w

theorem evAdvance_quiet (w : World) (dt : Nat) : Quiet w (evAdvance w dt) := by
  unfold evAdvance
  exact (foldl_quiet fireTimer fireTimer_quiet _ _).pre rfl rfl rfl rfl

end WV.Proofs.C07
