import WV.Proofs.Cert
import WV.Model.PossibleExec

/-!
"Always possible" properties as certificates, generic in the cooperative event set, the goal and the
states the claim is made for: backward fixpoint `iter` of "a finite run of cooperative, enabled
environment events leads to a goal state", proved sound (`possible_sound`).  `WV.Closable` is the
instance for `close()`; `WV.Props.C09` uses this one for "the key exchange can always complete".
-/
namespace WV.Possible
open WV.Client WV.ClientEnv WV.Cert

/-- there is a finite run of enabled events from `coop`, starting in `s`, that ends in a `goal` state -/
inductive CanReach (coop : List Event) (goal : Sys → Bool) : Sys → Prop
  | here {s} : goal s = true → CanReach coop goal s
  | step {s} (e : Event) : e ∈ coop → enabled s e = true → CanReach coop goal (sysStep s e).1 → CanReach coop goal s

def Good (coop : List Event) (goal : Sys → Bool) (G : Std.HashSet Sys) : Prop :=
  ∀ s, G.contains s = true → CanReach coop goal s

theorem good_grow {coop goal} (L : List Sys) (G : Std.HashSet Sys) (hG : Good coop goal G) :
    Good coop goal (grow coop L G) := by
  unfold grow
  suffices h : ∀ (l : List Sys) (g : Std.HashSet Sys), Good coop goal g →
      Good coop goal (l.foldl (fun g s =>
        if g.contains s then g
        else if coop.any (fun e => enabled s e && G.contains (sysStep s e).1) then g.insert s else g) g) from
    h L G hG
  intro l
  induction l with
  | nil => intro g hg; simpa using hg
  | cons a l ih =>
    intro g hg
    simp only [List.foldl_cons]
    apply ih
    split
    · exact hg
    · split
      · rename_i hany
        intro s hs
        rw [Std.HashSet.contains_insert] at hs
        simp only [Bool.or_eq_true, beq_iff_eq] at hs
        rcases hs with rfl | hs
        · simp only [List.any_eq_true, Bool.and_eq_true] at hany
          obtain ⟨e, hmem, hen, hin⟩ := hany
          exact CanReach.step e hmem hen (hG _ hin)
        · exact hg s hs
      · exact hg

theorem good_iter {coop goal} (n : Nat) (L : List Sys) (G : Std.HashSet Sys) (hG : Good coop goal G) :
    Good coop goal (iter coop n L G) := by
  induction n generalizing G with
  | zero => simpa [iter] using hG
  | succ n ih =>
    simp only [iter]
    split
    · exact good_grow L G hG
    · exact ih _ (good_grow L G hG)

theorem good_init {coop goal} (L : List Sys) : Good coop goal (Std.HashSet.ofList (L.filter goal)) := by
  intro s hs
  have := Cert.contains_ofList hs
  simp only [List.mem_filter] at this
  exact CanReach.here this.2

theorem possible_sound {coop : List Event} {goal src : Sys → Bool} {n : Nat} {L : List Sys}
    (h : possibleCert coop goal src n L = true) :
    ∀ s, s ∈ L → src s = true → CanReach coop goal s := by
  intro s hs hc
  unfold possibleCert at h
  simp only [List.all_eq_true] at h
  have := h s hs
  simp only [hc, Bool.not_true, Bool.false_or] at this
  exact good_iter n L _ (good_init L) s this

end WV.Possible
