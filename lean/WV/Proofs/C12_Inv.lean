import WV.Proofs.C12_L2

/-! C12 helper lemmas: what one successfully handled token can change above the framer. -/
namespace WV.Proofs.C12
open WV WV.C12 WV.Gen

/-- exhaustive description of a successfully handled token, as far as the DCP machine, the
    manager and the receive nonce are concerned -/
inductive TokenEffect (cfg : L2Cfg) (u : UpSt) (t : Token) (u' : UpSt) : Prop where
  /-- relay reply, prologue or Noise handshake: nothing DCP-relevant changes -/
  | neutral (hd : u'.dcp = u.dcp) (hm : u'.toManager = u.toManager) (hq : u'.queued = u.queued)
      (hc : u'.candidate = u.candidate) (hn : u'.rxNonce = u.rxNonce)
  /-- a frame decrypted (with the current nonce) to a KCM while `unselected` -/
  | kcm (f pt : Bytes) (ht : t = .frame f) (hr : u.rcd = .want_message)
      (ho : openMessage cfg.noise u.rxNonce f = some (pt, u'.rxNonce))
      (hp : parseRecord cfg.validUtf8 pt = .ok .kcm)
      (hd : u.dcp = .unselected) (hd' : u'.dcp = .selecting)
      (hm : u'.toManager = u.toManager) (hq : u'.queued = u.queued)
  /-- a frame decrypted to a non-KCM record while `selecting`: queued -/
  | queued (f pt : Bytes) (r : Rec) (ht : t = .frame f) (hr : u.rcd = .want_message)
      (ho : openMessage cfg.noise u.rxNonce f = some (pt, u'.rxNonce))
      (hp : parseRecord cfg.validUtf8 pt = .ok r) (hk : r ≠ .kcm)
      (hd : u.dcp = .selecting) (hd' : u'.dcp = .selecting)
      (hm : u'.toManager = u.toManager) (hq : u'.queued = u.queued ++ [r]) (hc : u'.candidate = u.candidate)
  /-- a frame decrypted to a non-KCM record while `selected`: delivered to the manager -/
  | delivered (f pt : Bytes) (r : Rec) (ht : t = .frame f) (hr : u.rcd = .want_message)
      (ho : openMessage cfg.noise u.rxNonce f = some (pt, u'.rxNonce))
      (hp : parseRecord cfg.validUtf8 pt = .ok r) (hk : r ≠ .kcm)
      (hd : u.dcp = .selected) (hd' : u'.dcp = .selected)
      (hm : u'.toManager = u.toManager ++ [r]) (hq : u'.queued = u.queued) (hc : u'.candidate = u.candidate)

theorem l2Token_effect (cfg : L2Cfg) (u : UpSt) (t : Token) (u' : UpSt) (h : l2Token cfg u t = .ok u') :
    TokenEffect cfg u t u' := by
  cases t with
  | relayOK =>
    simp [l2Token] at h; subst h
    exact .neutral rfl rfl rfl rfl rfl
  | prologue =>
    simp only [l2Token] at h
    cases hrt : Record.table u.rcd .got_prologue with
    | none => simp [hrt] at h
    | some p =>
      obtain ⟨st', outs⟩ := p
      simp [hrt] at h; subst h
      exact .neutral rfl rfl rfl rfl rfl
  | frame f =>
    obtain ⟨rcd, dcp, rx, hsS, kS, q, tm, cand⟩ := u
    cases rcd with
    | no_role_set => simp [l2Token, recordGotFrame, Record.table] at h
    | want_prologue_follower => simp [l2Token, recordGotFrame, Record.table] at h
    | want_prologue_leader => simp [l2Token, recordGotFrame, Record.table] at h
    | want_handshake_follower =>
      simp only [l2Token, recordGotFrame, Record.table] at h
      by_cases hok : cfg.handshakeOK f = true
      · cases hl : cfg.leader <;> simp [hok, hl] at h <;> subst h <;>
          exact .neutral rfl rfl rfl rfl rfl
      · simp [hok] at h
    | want_handshake_leader =>
      simp only [l2Token, recordGotFrame, Record.table] at h
      by_cases hok : cfg.handshakeOK f = true
      · cases hl : cfg.leader <;> simp [hok, hl] at h <;> subst h <;>
          exact .neutral rfl rfl rfl rfl rfl
      · simp [hok] at h
    | want_message =>
      cases ho : openMessage cfg.noise rx f with
      | none =>
        simp [l2Token, recordGotFrame_message, ho] at h
      | some p =>
        obtain ⟨pt, n'⟩ := p
        cases hp : parseRecord cfg.validUtf8 pt with
        | error e => simp [l2Token, recordGotFrame_message, ho, hp] at h
        | ok r =>
          rw [l2Token_record cfg _ f pt n' r rfl ho hp] at h
          cases r with
          | kcm =>
            cases dcp <;> simp [DCP.table] at h
            subst h
            exact .kcm f pt rfl rfl ho hp rfl rfl rfl rfl
          | ping id =>
            cases dcp <;> simp [DCP.table] at h <;> subst h
            · exact .delivered f pt _ rfl rfl ho hp (by simp) rfl rfl rfl rfl rfl
            · exact .queued f pt _ rfl rfl ho hp (by simp) rfl rfl rfl rfl rfl
          | pong id =>
            cases dcp <;> simp [DCP.table] at h <;> subst h
            · exact .delivered f pt _ rfl rfl ho hp (by simp) rfl rfl rfl rfl rfl
            · exact .queued f pt _ rfl rfl ho hp (by simp) rfl rfl rfl rfl rfl
          | opn s c sub =>
            cases dcp <;> simp [DCP.table] at h <;> subst h
            · exact .delivered f pt _ rfl rfl ho hp (by simp) rfl rfl rfl rfl rfl
            · exact .queued f pt _ rfl rfl ho hp (by simp) rfl rfl rfl rfl rfl
          | data s c d =>
            cases dcp <;> simp [DCP.table] at h <;> subst h
            · exact .delivered f pt _ rfl rfl ho hp (by simp) rfl rfl rfl rfl rfl
            · exact .queued f pt _ rfl rfl ho hp (by simp) rfl rfl rfl rfl rfl
          | close s c =>
            cases dcp <;> simp [DCP.table] at h <;> subst h
            · exact .delivered f pt _ rfl rfl ho hp (by simp) rfl rfl rfl rfl rfl
            · exact .queued f pt _ rfl rfl ho hp (by simp) rfl rfl rfl rfl rfl
          | ack a =>
            cases dcp <;> simp [DCP.table] at h <;> subst h
            · exact .delivered f pt _ rfl rfl ho hp (by simp) rfl rfl rfl rfl rfl
            · exact .queued f pt _ rfl rfl ho hp (by simp) rfl rfl rfl rfl rfl

/-- the partial update a failing token leaves behind touches neither the DCP machine, nor the
    queue, nor the manager; the nonce moves only if the frame did decrypt -/
theorem l2Token_error_effect (cfg : L2Cfg) (u : UpSt) (t : Token) (e : Err) (u1 : UpSt)
    (h : l2Token cfg u t = .error (e, u1)) :
    u1.dcp = u.dcp ∧ u1.toManager = u.toManager ∧ u1.queued = u.queued ∧ u1.candidate = u.candidate ∧
      (u1.rxNonce = u.rxNonce ∨
        ∃ f pt, t = .frame f ∧ openMessage cfg.noise u.rxNonce f = some (pt, u1.rxNonce)) := by
  cases t with
  | relayOK => simp [l2Token] at h
  | prologue =>
    simp only [l2Token] at h
    cases hrt : Record.table u.rcd .got_prologue with
    | none => simp [hrt] at h; obtain ⟨_, rfl⟩ := h; exact ⟨rfl, rfl, rfl, rfl, .inl rfl⟩
    | some p => obtain ⟨st', outs⟩ := p; simp [hrt] at h
  | frame f =>
    obtain ⟨rcd, dcp, rx, hsS, kS, q, tm, cand⟩ := u
    cases rcd with
    | no_role_set =>
      simp [l2Token, recordGotFrame, Record.table] at h; obtain ⟨_, rfl⟩ := h; exact ⟨rfl, rfl, rfl, rfl, .inl rfl⟩
    | want_prologue_follower =>
      simp [l2Token, recordGotFrame, Record.table] at h; obtain ⟨_, rfl⟩ := h; exact ⟨rfl, rfl, rfl, rfl, .inl rfl⟩
    | want_prologue_leader =>
      simp [l2Token, recordGotFrame, Record.table] at h; obtain ⟨_, rfl⟩ := h; exact ⟨rfl, rfl, rfl, rfl, .inl rfl⟩
    | want_handshake_follower =>
      cases hok : cfg.handshakeOK f <;> cases hl : cfg.leader <;>
        simp [l2Token, recordGotFrame, Record.table, hok, hl] at h <;>
        (obtain ⟨_, rfl⟩ := h; exact ⟨rfl, rfl, rfl, rfl, .inl rfl⟩)
    | want_handshake_leader =>
      cases hok : cfg.handshakeOK f <;> cases hl : cfg.leader <;>
        simp [l2Token, recordGotFrame, Record.table, hok, hl] at h <;>
        (obtain ⟨_, rfl⟩ := h; exact ⟨rfl, rfl, rfl, rfl, .inl rfl⟩)
    | want_message =>
      cases ho : openMessage cfg.noise rx f with
      | none =>
        simp [l2Token, recordGotFrame_message, ho] at h
        obtain ⟨_, rfl⟩ := h; exact ⟨rfl, rfl, rfl, rfl, .inl rfl⟩
      | some p =>
        obtain ⟨pt, n'⟩ := p
        cases hp : parseRecord cfg.validUtf8 pt with
        | error e' =>
          simp [l2Token, recordGotFrame_message, ho, hp] at h
          obtain ⟨_, rfl⟩ := h; exact ⟨rfl, rfl, rfl, rfl, .inr ⟨f, pt, rfl, ho⟩⟩
        | ok r =>
          rw [l2Token_record cfg _ f pt n' r rfl ho hp] at h
          cases r <;> cases dcp <;> simp [DCP.table] at h <;>
            (obtain ⟨_, rfl⟩ := h; exact ⟨rfl, rfl, rfl, rfl, .inr ⟨f, pt, rfl, ho⟩⟩)

end WV.Proofs.C12
