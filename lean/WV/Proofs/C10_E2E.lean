import WV.Proofs.C10
import WV.Proofs.C10_L4Run

/-! C10 end to end: the L4 state of a side of the two-sided world is the L4 run over its own history
(dispatched records interleaved with its listener registrations), so the whole-run L4 theorem applies
to every reachable world; and the well-formedness / image functions only look at record bodies. -/
namespace WV.Proofs.C10
open WV WV.C10 WV.Gen

/-! ### bodies only -/

/-- the application calls of a well-behaved sender: every scid opened once, written to / closed only
    between its open and its close -/
def wfCalls : List Nat → List Nat → List Body → Bool
  | _, _, [] => true
  | opened, closed, .opn c _ :: rs => !opened.contains c && wfCalls (c :: opened) closed rs
  | opened, closed, .data c _ :: rs => opened.contains c && !closed.contains c && wfCalls opened closed rs
  | opened, closed, .close c :: rs => opened.contains c && !closed.contains c && wfCalls opened (c :: closed) rs

/-- what the peer's protocol for subchannel `c` must be told for these application calls, in order -/
def callbacks (c : Nat) : List Body → List AppEv
  | [] => []
  | .opn c' _ :: rs => if c' = c then .made :: callbacks c rs else callbacks c rs
  | .data c' d :: rs => if c' = c then .data d :: callbacks c rs else callbacks c rs
  | .close c' :: rs => if c' = c then .rclosed :: callbacks c rs else callbacks c rs

theorem wellFormed_bodies (D : List Rec) : ∀ (O C : List Nat),
    wellFormed O C D = wfCalls O C (D.map (·.body)) := by
  induction D with
  | nil => intro _ _; rfl
  | cons r D ih =>
    intro O C
    simp only [wellFormed, List.map_cons]
    cases hb : r.body <;> simp only [wfCalls, ih]

theorem expect_bodies (c : Nat) (D : List Rec) : expect c D = callbacks c (D.map (·.body)) := by
  induction D with
  | nil => rfl
  | cons r D ih =>
    simp only [expect, List.map_cons]
    cases hb : r.body <;> simp only [callbacks, ih]

theorem wfCalls_prefix : ∀ (D E : List Body) (O C : List Nat), wfCalls O C (D ++ E) = true →
    wfCalls O C D = true := by
  intro D
  induction D with
  | nil => intro _ _ _ _; rfl
  | cons b D ih =>
    intro E O C h
    cases b <;> simp only [List.cons_append, wfCalls, Bool.and_eq_true] at h ⊢ <;>
      exact ⟨h.1, ih E _ _ h.2⟩

theorem callbacks_append (c : Nat) (D E : List Body) : callbacks c (D ++ E) = callbacks c D ++ callbacks c E := by
  induction D with
  | nil => rfl
  | cons b D ih => cases b <;> simp only [List.cons_append, callbacks] <;> split <;> simp [ih]

/-! ### the L4 state of a side is the L4 run over its history -/

def Hist (s : Side) : Prop := ∃ ins, s.l4 = l4Run L4.init ins ∧ dispatchedOf ins = s.dispatched

theorem hist_init : Hist Side.init := ⟨[], rfl, rfl⟩

theorem hist_same {s s' : Side} (h1 : s'.l4 = s.l4) (h2 : s'.dispatched = s.dispatched) : Hist s → Hist s' := by
  rintro ⟨ins, a, b⟩; exact ⟨ins, by rw [h1, a], by rw [h2, b]⟩

theorem hist_snoc {s s' : Side} (i : L4In) (h1 : s'.l4 = l4Run s.l4 [i])
    (h2 : s'.dispatched = s.dispatched ++ dispatchedOf [i]) : Hist s → Hist s' := by
  rintro ⟨ins, a, b⟩
  exact ⟨ins ++ [i], by rw [h1, a, l4Run_append], by rw [h2, dispatchedOf_append, b]⟩

theorem hist_gotRecord (s : Side) (m : Wire) (H : Hist s) : Hist (gotRecord s m) := by
  cases m with
  | ack k => exact hist_same rfl rfl H
  | msg x =>
    unfold gotRecord
    simp only
    have f1 : (sendIfConnected s (.ack x.seqnum)).l4 = s.l4 := by
      unfold sendIfConnected; split <;> simp [connSend_eq]
    have f2 : (sendIfConnected s (.ack x.seqnum)).dispatched = s.dispatched := by
      unfold sendIfConnected; split <;> simp [connSend_eq]
    split
    · exact hist_same f1 f2 H
    · exact hist_snoc (.disp x) (by simp [updateAckWatermark, l4Run, f1])
        (by simp [updateAckWatermark, dispatchedOf, f2]) H

theorem hist_process (L : List Wire) : ∀ (a : Side), Hist a → Hist (processInboundQueue a L) := by
  induction L with
  | nil => intro a H; exact hist_same rfl rfl H
  | cons m rest ih =>
    intro a H
    simp only [processInboundQueue]
    exact ih _ (hist_gotRecord _ m (hist_same (s := a) rfl rfl H))

theorem use_l4 {s s' : Side} (k : Nat) (hs : useConnection s k = .ok s') :
    s'.l4 = s.l4 ∧ s'.dispatched = s.dispatched := by
  unfold useConnection at hs
  by_cases hu : s.unsent = []
  · simp only [hu, ne_eq, not_true_eq_false, ↓reduceIte, List.nil_append, Except.ok.injEq] at hs
    subst hs
    unfold resumeProducing
    split
    · exact ⟨rfl, rfl⟩
    · obtain ⟨_, _, _, _, d5, _, _, _, _, _, d11⟩ :=
        drain_spec s.queue { s with conn := true, out := [], budget := k, unsent := s.queue, paused := false }
      exact ⟨d11, d5⟩
  · simp [hu] at hs

theorem stepA_hist {w w' : World} {act : Act} (Ha : Hist w.a) (Hb : Hist w.b) (hs : stepA w act = .ok w') :
    Hist w'.a ∧ Hist w'.b := by
  cases act with
  | write b =>
    simp only [stepA, Except.ok.injEq] at hs
    subst hs
    obtain ⟨_, _, _, _, _, f6, _, _, _, _, _, _, f13⟩ := write_fields w.a b
    exact ⟨hist_same f13 f6 Ha, Hb⟩
  | use k =>
    simp only [stepA] at hs
    split at hs
    · cases hs
    · cases hu : useConnection (processInboundQueue w.a w.a.parked) k with
      | error e => rw [hu] at hs; cases hs
      | ok a' =>
        rw [hu] at hs
        simp only [Except.map, Except.ok.injEq] at hs
        subst hs
        obtain ⟨u1, u2⟩ := use_l4 k hu
        exact ⟨hist_same u1 u2 (hist_process _ _ Ha), Hb⟩
  | lose =>
    simp only [stepA] at hs
    cases hu : stopUsingConnection w.a with
    | error e => rw [hu] at hs; cases hs
    | ok a' =>
      rw [hu] at hs
      simp only [Except.map, Except.ok.injEq] at hs
      subst hs
      obtain ⟨_, r2, _, _, _, _, r7⟩ := lose_recv hu
      exact ⟨hist_same r7 r2 Ha, Hb⟩
  | pause =>
    simp only [stepA] at hs
    split at hs
    · simp only [Except.ok.injEq] at hs
      subst hs
      exact ⟨hist_same (by rw [pauseProducing_eq]) (by rw [pauseProducing_eq]) Ha, Hb⟩
    · cases hs
  | resume k =>
    simp only [stepA] at hs
    split at hs
    · simp only [Except.ok.injEq] at hs
      subst hs
      obtain ⟨_, r2, _, _, _, _, r7⟩ := resume_recv { w.a with budget := k }
      exact ⟨hist_same r7 r2 Ha, Hb⟩
    · cases hs
  | deliver =>
    simp only [stepA] at hs
    split at hs
    · cases hs
    · split at hs
      · cases hs
      · simp only [Except.ok.injEq] at hs
        subst hs
        exact ⟨hist_gotRecord _ _ Ha, hist_same rfl rfl Hb⟩
  | park =>
    simp only [stepA] at hs
    split at hs
    · cases hs
    · split at hs
      · cases hs
      · simp only [Except.ok.injEq] at hs
        subst hs
        exact ⟨hist_same rfl rfl Ha, hist_same rfl rfl Hb⟩
  | unpark =>
    simp only [stepA] at hs
    split at hs
    · cases hs
    · split at hs
      · cases hs
      · simp only [Except.ok.injEq] at hs
        subst hs
        exact ⟨hist_gotRecord _ _ (hist_same (s := w.a) rfl rfl Ha), Hb⟩
  | listen n =>
    simp only [stepA] at hs
    split at hs
    · cases hs
    · simp only [Except.ok.injEq] at hs
      subst hs
      exact ⟨hist_snoc (.listen n) (by simp [listen, l4Run]) (by simp [listen, dispatchedOf]) Ha, Hb⟩

theorem step_hist {w w' : World} {e : Event} (Ha : Hist w.a) (Hb : Hist w.b) (hs : step w e = .ok w') :
    Hist w'.a ∧ Hist w'.b := by
  obtain ⟨x, act⟩ := e
  cases x with
  | A => exact stepA_hist Ha Hb hs
  | B =>
    simp only [step] at hs
    cases hu : stepA w.swap act with
    | error e => rw [hu] at hs; cases hs
    | ok w1 =>
      rw [hu] at hs
      simp only [Except.map, Except.ok.injEq] at hs
      subst hs
      obtain ⟨h1, h2⟩ := stepA_hist (w := w.swap) Hb Ha hu
      exact ⟨h2, h1⟩

theorem run_hist {w w' : World} (evs : List Event) (Ha : Hist w.a) (Hb : Hist w.b)
    (hs : run w evs = .ok w') : Hist w'.a ∧ Hist w'.b := by
  induction evs generalizing w with
  | nil => simp only [run, Except.ok.injEq] at hs; subst hs; exact ⟨Ha, Hb⟩
  | cons e es ih =>
    simp only [run] at hs
    split at hs
    · next w1 h1 =>
      obtain ⟨a1, b1⟩ := step_hist Ha Hb h1
      exact ih a1 b1 hs
    · cases hs

/-- one direction, end to end: the receiver `r` has dispatched a prefix of the calls the sending
    application made, these calls are well-formed, and `r`'s L4 is the run over its history -/
theorem e2e_direction (r : Side) (calls : List Body) (Hh : Hist r)
    (hpre : r.dispatched.map (·.body) <+: calls) (hwf : wfCalls [] [] calls = true) :
    r.l4.fault = false ∧
    ∀ c s, findSub c r.l4.subs = some s →
      subTotal s = callbacks c (r.dispatched.map (·.body)) ∧
      s.shown <+: callbacks c calls ∧
      (s.name ∈ r.l4.factories → s.shown = callbacks c (r.dispatched.map (·.body))) := by
  obtain ⟨ins, h1, h2⟩ := Hh
  obtain ⟨E, hE⟩ := hpre
  have hwf' : wellFormed [] [] (dispatchedOf ins) = true := by
    rw [wellFormed_bodies, h2]
    exact wfCalls_prefix _ E _ _ (by rw [hE]; exact hwf)
  obtain ⟨O, C, L⟩ := l4Run_inv ins L4.init [] [] [] lInv_init hwf'
  rw [← h1, List.nil_append, h2] at L
  refine ⟨L.nofault, ?_⟩
  intro c s hs
  obtain ⟨t1, _⟩ := L.tot c s hs
  rw [expect_bodies] at t1
  refine ⟨t1, ?_, ?_⟩
  · rw [← hE, callbacks_append, ← t1]
    exact List.IsPrefix.trans (shown_prefix_total s) (List.prefix_append _ _)
  · intro hn
    have hst : s.st ≠ .unconnected := fun hu => (L.wait c s hs hu).1 hn
    rw [← t1, total_eq_shown s hst]

end WV.Proofs.C10
