import WV.Model.C06
import WV.Proofs.C06
import WV.Proofs.C06_App
import WV.Proofs.C06_Inv
import WV.Proofs.C06_Nonce
import WV.Proofs.C06_Thresh

/-! Consumer sessions inside whole runs: `FreshCid` is an invariant of every run, and an honest stream cut
    anywhere — in the middle of a frame too — by an application call continues where it stopped. -/
namespace WV.C06
open WV

/-! ## `FreshCid` is kept by every step -/

theorem freshCid_congr {a a' : App} (h1 : a'.storedDone = a.storedDone) (h2 : a'.consumer = a.consumer)
    (h3 : a'.nextCid = a.nextCid) (h : FreshCid a) : FreshCid a' := by
  unfold FreshCid
  rw [h1, h2, h3]
  exact h

theorem fireRead_cidFields (a : App) (d : Reader) (r : Bytes) :
    (fireRead a d r).1.storedDone = a.storedDone ∧ (fireRead a d r).1.consumer = a.consumer ∧
    (fireRead a d r).1.nextCid = a.nextCid := by
  unfold fireRead
  cases d.cb <;> simp [App.emit]

theorem failRead_cidFields (a : App) (d : Reader) :
    (failRead a d).storedDone = a.storedDone ∧ (failRead a d).consumer = a.consumer ∧
    (failRead a d).nextCid = a.nextCid := by
  unfold failRead
  cases d.cb <;> simp [App.emit]

theorem foldl_failRead_cidFields : ∀ (ws : List Reader) (a : App),
    (ws.foldl failRead a).storedDone = a.storedDone ∧ (ws.foldl failRead a).consumer = a.consumer ∧
    (ws.foldl failRead a).nextCid = a.nextCid := by
  intro ws
  induction ws with
  | nil => intro a; exact ⟨rfl, rfl, rfl⟩
  | cons d ds ih =>
    intro a
    obtain ⟨h1, h2, h3⟩ := failRead_cidFields a d
    obtain ⟨i1, i2, i3⟩ := ih (failRead a d)
    exact ⟨i1.trans h1, i2.trans h2, i3.trans h3⟩

theorem close_fresh (a : App) (h : FreshCid a) : FreshCid (close a) := by
  unfold close
  obtain ⟨h1, h2, h3⟩ := foldl_failRead_cidFields a.waiting ({ a with waiting := [] }.emit [.lose])
  exact freshCid_congr h1 h2 h3 h

theorem connectionLost_fresh (a : App) (h : FreshCid a) : FreshCid (connectionLost a) := by
  unfold connectionLost
  obtain ⟨h1, h2, h3⟩ := foldl_failRead_cidFields a.waiting { a with waiting := [] }
  simp only
  split
  · exact freshCid_congr (a := a) (by simpa [App.emit] using h1) (by simpa [App.emit] using h2)
      (by simpa [App.emit] using h3) h
  · exact freshCid_congr h1 h2 h3 h

theorem consumerDone_fresh (a : App) (k : Consumer) (w : Nat) (h : FreshCid a) (hk : k.cid < a.nextCid) :
    FreshCid (consumerDone a k w).1 := by
  unfold consumerDone
  cases k.cb with
  | some s => exact freshCid_congr (a := a) rfl rfl rfl h
  | none =>
    refine ⟨?_, h.2⟩
    intro p hp
    simp only [List.mem_append, List.mem_singleton] at hp
    rcases hp with hp | rfl
    · exact h.1 p hp
    · exact hk

theorem fresh_setConsumer (a : App) (k' : Consumer) (log' : List Ev) (h : FreshCid a) (hk : k'.cid < a.nextCid) :
    FreshCid { a with consumer := some k', log := log' } :=
  ⟨h.1, by intro k'' hk''; simp only [Option.some.injEq] at hk''; subst hk''; exact hk⟩

theorem writeToConsumer_fresh (a : App) (k : Consumer) (r : Bytes) (kick : Bool) (h : FreshCid a)
    (hk : k.cid < a.nextCid) : FreshCid (writeToConsumer a k r kick).1 := by
  simp only [writeToConsumer]
  split
  · split
    · refine consumerDone_fresh (disconnectConsumer _) k _ ?_ hk
      exact ⟨h.1, by intro k' hk'; simp [disconnectConsumer] at hk'⟩
    · exact fresh_setConsumer a _ _ h hk
  · exact fresh_setConsumer a _ _ h hk

theorem finishAttach_fresh (a : App) (ex : Option Nat) (fc : Bool) (s rest : List Act) (h : FreshCid a) :
    FreshCid (finishAttach a ex fc s rest).1 := by
  have h1 : FreshCid { a with consumer := some ⟨a.nextCid, 0, ex, none⟩, nextCid := a.nextCid + 1, fcConsumer := fc } :=
    ⟨fun p hp => Nat.lt_succ_of_lt (h.1 p hp),
     by intro k' hk'; simp only [Option.some.injEq] at hk'; subst hk'; exact Nat.lt_succ_self _⟩
  simp only [finishAttach]
  split
  · exact writeToConsumer_fresh _ _ _ _ h1 (Nat.lt_succ_self _)
  · exact h1

theorem attachConsumer_fresh (a : App) (ex : Option Nat) (fc : Bool) (s rest : List Act) (h : FreshCid a) :
    FreshCid (attachConsumer a ex fc s rest).1 := by
  simp only [attachConsumer]
  split
  · exact freshCid_congr (a := a) rfl rfl rfl h
  · exact finishAttach_fresh _ ex fc s rest (freshCid_congr (a := a) rfl rfl rfl h)

theorem appStep_fresh (a : App) (fr : Frame) (h : FreshCid a) : FreshCid (appStep a fr).1 := by
  cases fr with
  | deliver =>
    simp only [appStep]
    split
    · rename_i r rs d ds _ _
      obtain ⟨f1, f2, f3⟩ := fireRead_cidFields { a with inbound := rs, waiting := ds } d r
      exact freshCid_congr (a := a) f1 f2 f3 h
    · exact h
  | drain =>
    simp only [appStep]
    split
    · rename_i k r rs hk _
      exact writeToConsumer_fresh { a with inbound := rs } k r false (freshCid_congr (a := a) rfl rfl rfl h)
        (h.2 k hk)
    · exact h
  | script acts =>
    cases acts with
    | nil => exact h
    | cons act rest =>
      cases act with
      | read s => exact freshCid_congr (a := a) rfl rfl rfl h
      | consume ex s => exact attachConsumer_fresh a ex false s rest h
      | consumeFC ex s => exact attachConsumer_fresh a ex true s rest h
      | pause => exact freshCid_congr (a := a) rfl rfl rfl h
      | resume => exact freshCid_congr (a := a) rfl rfl rfl h
      | detach =>
        simp only [appStep]
        split
        · exact freshCid_congr (a := a) rfl rfl rfl h
        · exact ⟨h.1, by intro k' hk'; simp [disconnectConsumer] at hk'⟩
      | close => exact close_fresh a h
  | attachRead id s =>
    simp only [appStep]
    split
    · exact freshCid_congr (a := a) rfl rfl rfl h
    · exact freshCid_congr (a := a) rfl rfl rfl h
    · exact freshCid_congr (a := a) rfl rfl rfl h
  | attachCons cid s =>
    simp only [appStep]
    split
    · refine ⟨?_, h.2⟩
      intro p hp
      simp only [App.emit, List.mem_filter] at hp
      exact h.1 p hp.1
    · split
      · rename_i k hk
        split
        · refine ⟨h.1, ?_⟩
          intro k' hk'
          simp only [Option.some.injEq] at hk'
          subst hk'
          exact h.2 k hk
        · exact h
      · exact h

theorem runAgenda_fresh : ∀ (fuel : Nat) (a : App) (ag : List Frame), FreshCid a → FreshCid (runAgenda fuel a ag).1 := by
  intro fuel
  induction fuel with
  | zero => intro a ag h; exact h
  | succ f ih =>
    intro a ag h
    cases ag with
    | nil => exact h
    | cons fr ag =>
      simp only [runAgenda]
      have := appStep_fresh a fr h
      cases hs : appStep a fr with
      | mk a' fs =>
        rw [hs] at this
        exact ih a' (fs ++ ag) this

theorem settle_fresh (a : App) (ag : List Frame) (h : FreshCid a) : FreshCid (settle a ag) :=
  runAgenda_fresh _ a ag h

theorem recordReceived_fresh (a : App) (r : Bytes) (h : FreshCid a) : FreshCid (recordReceived a r) := by
  unfold recordReceived
  cases hc : a.consumer with
  | some k =>
    simp only
    have := writeToConsumer_fresh a k r false h (h.2 k hc)
    cases hw : writeToConsumer a k r false with
    | mk a1 fs =>
      rw [hw] at this
      exact settle_fresh a1 fs this
  | none =>
    simp only
    exact settle_fresh _ _ (freshCid_congr (a := a) rfl hc.symm rfl h)

theorem appCall_fresh (a : App) (acts : List Act) (h : FreshCid a) : FreshCid (appCall a acts) :=
  settle_fresh a _ h

theorem init_fresh : FreshCid App.init := by
  refine ⟨?_, ?_⟩
  · intro p hp; simp [App.init] at hp
  · intro k hk; simp [App.init] at hk

/-- every state a run reaches: the next `connectConsumer` gets a number nothing is stored under -/
theorem run_fresh (E : Env) : ∀ (ops : List Op) (c : Conn), FreshCid c.app → FreshCid (run E c ops).app := by
  intro ops
  induction ops with
  | nil => intro c h; exact h
  | cons op ops ih =>
    intro c h
    apply ih
    cases op with
    | data d =>
      exact dataReceived_appInv E FreshCid recordReceived_fresh
        (fun a ha => freshCid_congr (a := a) rfl rfl rfl ha) c d h
    | call acts => exact appCall_fresh c.app acts h
    | lost => exact connectionLost_fresh c.app h

/-! ## an attached consumer is always strictly below its count -/

/-- `_consumer_bytes_written < _consumer_bytes_expected` whenever a consumer with a count is attached and the
    connection's code is not in the middle of `_writeToConsumer` -/
def BelowCount (a : App) : Prop := ∀ k N, a.consumer = some k → k.expected = some N → k.written < N

theorem belowCount_congr {a a' : App} (h2 : a'.consumer = a.consumer) (h : BelowCount a) : BelowCount a' := by
  unfold BelowCount
  rw [h2]
  exact h

theorem belowCount_none {a : App} (h : a.consumer = none) : BelowCount a := by
  intro k N hk; rw [h] at hk; simp at hk

theorem writeToConsumer_belowCount (a : App) (k : Consumer) (r : Bytes) (kick : Bool) :
    BelowCount (writeToConsumer a k r kick).1 := by
  simp only [writeToConsumer]
  split
  · rename_i n hn
    split
    · apply belowCount_none
      rw [(consumerDone_spec _ k _).2.2.1]
      rfl
    · rename_i hlt
      intro k' N hk' hN
      simp only [Option.some.injEq] at hk'
      subst hk'
      simp only at hN
      rw [hn] at hN
      cases hN
      simp only
      omega
  · rename_i hn
    intro k' N hk' hN
    simp only [Option.some.injEq] at hk'
    subst hk'
    simp only at hN
    rw [hn] at hN
    cases hN

theorem finishAttach_belowCount (a : App) (ex : Option Nat) (fc : Bool) (s rest : List Act) :
    BelowCount (finishAttach a ex fc s rest).1 := by
  simp only [finishAttach]
  split
  · exact writeToConsumer_belowCount _ _ _ _
  · rename_i h0
    intro k' N hk' hN
    simp only [Option.some.injEq] at hk'
    subst hk'
    simp only at hN ⊢
    subst hN
    cases N with
    | zero => exact absurd rfl h0
    | succ n => omega

theorem appStep_belowCount (a : App) (fr : Frame) (h : BelowCount a) : BelowCount (appStep a fr).1 := by
  cases fr with
  | deliver =>
    simp only [appStep]
    split
    · rename_i r rs d ds _ _
      exact belowCount_congr (a := a) (fireRead_cidFields { a with inbound := rs, waiting := ds } d r).2.1 h
    · exact h
  | drain =>
    simp only [appStep]
    split
    · exact writeToConsumer_belowCount _ _ _ _
    · exact h
  | script acts =>
    cases acts with
    | nil => exact h
    | cons act rest =>
      cases act with
      | read s => exact belowCount_congr (a := a) rfl h
      | consume ex s =>
        simp only [appStep, attachConsumer]
        split
        · exact belowCount_congr (a := a) rfl h
        · exact finishAttach_belowCount _ _ _ _ _
      | consumeFC ex s =>
        simp only [appStep, attachConsumer]
        split
        · exact belowCount_congr (a := a) rfl h
        · exact finishAttach_belowCount _ _ _ _ _
      | pause => exact belowCount_congr (a := a) rfl h
      | resume => exact belowCount_congr (a := a) rfl h
      | detach =>
        simp only [appStep]
        split
        · exact belowCount_congr (a := a) rfl h
        · exact belowCount_none rfl
      | close => exact belowCount_congr (a := a) (close_spec a).2.2.1 h
  | attachRead id s =>
    simp only [appStep]
    split
    · exact belowCount_congr (a := a) rfl h
    · exact belowCount_congr (a := a) rfl h
    · exact belowCount_congr (a := a) rfl h
  | attachCons cid s =>
    simp only [appStep]
    split
    · exact belowCount_congr (a := a) rfl h
    · split
      · rename_i k hk
        split
        · intro k' N hk' hN
          simp only [Option.some.injEq] at hk'
          subst hk'
          exact h k N hk hN
        · exact h
      · exact h

theorem runAgenda_belowCount : ∀ (fuel : Nat) (a : App) (ag : List Frame), BelowCount a →
    BelowCount (runAgenda fuel a ag).1 := by
  intro fuel
  induction fuel with
  | zero => intro a ag h; exact h
  | succ f ih =>
    intro a ag h
    cases ag with
    | nil => exact h
    | cons fr ag =>
      simp only [runAgenda]
      have := appStep_belowCount a fr h
      cases hs : appStep a fr with
      | mk a' fs =>
        rw [hs] at this
        exact ih a' (fs ++ ag) this

theorem recordReceived_belowCount (a : App) (r : Bytes) (_h : BelowCount a) : BelowCount (recordReceived a r) := by
  unfold recordReceived
  cases hc : a.consumer with
  | some k =>
    simp only
    have := writeToConsumer_belowCount a k r false
    cases hw : writeToConsumer a k r false with
    | mk a1 fs =>
      rw [hw] at this
      exact runAgenda_belowCount _ a1 fs this
  | none =>
    simp only
    exact runAgenda_belowCount _ _ _ (belowCount_none rfl)

theorem run_belowCount (E : Env) : ∀ (ops : List Op) (c : Conn), BelowCount c.app → BelowCount (run E c ops).app := by
  intro ops
  induction ops with
  | nil => intro c h; exact h
  | cons op ops ih =>
    intro c h
    apply ih
    cases op with
    | data d =>
      exact dataReceived_appInv E BelowCount recordReceived_belowCount
        (fun a ha => belowCount_congr (a := a) rfl ha) c d h
    | call acts => exact runAgenda_belowCount _ c.app _ h
    | lost => exact belowCount_congr (a := c.app) (connectionLost_fields c.app).2.2.1 h

/-! ## an honest stream cut anywhere -/

theorem frame_length (b : Bytes) : (frame b).length = 4 + b.length := by
  simp [frame, beFixed_length]

/-- a proper prefix of a frame (and of whatever follows it) is not a complete frame: the loop waits -/
theorem parseFrame_partial (b tail p : Bytes) (hb : b.length < 256 ^ 4) (hp : p <+: frame b ++ tail)
    (hlt : p.length < (frame b).length) : parseFrame p = none := by
  rw [frame_length] at hlt
  unfold parseFrame
  by_cases h4 : p.length < 4
  · rw [if_pos h4]
  · rw [if_neg h4]
    obtain ⟨t, ht⟩ := hp
    have htake : p.take 4 = beFixed 4 b.length := by
      have h1 : (p ++ t).take 4 = p.take 4 := List.take_append_of_le_length (by omega)
      rw [← h1, ht, frame, List.append_assoc, List.take_append_of_le_length (by simp [beFixed_length])]
      rw [List.take_of_length_le (by simp [beFixed_length])]
    simp only [htake, beDecode_beFixed_lt hb]
    rw [if_pos (by omega)]

theorem wireOf_append (E : Env) (key : Bytes) : ∀ (l l' : List Bytes) (i : Nat),
    wireOf E key i (l ++ l') = wireOf E key i l ++ wireOf E key (i + l.length) l' := by
  intro l
  induction l with
  | nil => intro l' i; simp [wireOf]
  | cons r l ih =>
    intro l' i
    simp only [List.cons_append, wireOf, ih l' (i + 1), List.append_assoc, List.length_cons]
    have : i + 1 + l.length = i + (l.length + 1) := by omega
    rw [this]

/-- wherever an honest stream is cut, what came before the cut is a number of complete frames and the beginning of
    the next one -/
theorem wire_prefix_split (E : Env) (key : Bytes) (hlen : ∀ n m, (E.box.enc key n m).length = m.length + 16) :
    ∀ (rs : List Bytes) (i : Nat) (p t : Bytes), SizesOK rs → p ++ t = wireOf E key i rs →
    ∃ m tail, m ≤ rs.length ∧ p = wireOf E key i (rs.take m) ++ tail ∧ parseFrame tail = none ∧
      tail ++ t = wireOf E key (i + m) (rs.drop m) := by
  intro rs
  induction rs with
  | nil =>
    intro i p t _ h
    simp only [wireOf, List.append_eq_nil_iff] at h
    refine ⟨0, [], Nat.le_refl _, by simp [wireOf, h.1], by simp [parseFrame], by simp [wireOf, h.2]⟩
  | cons r rs ih =>
    intro i p t hsz h
    rw [wireOf_cons] at h
    have hbl : (blob E key i r).length < 256 ^ 4 := by
      rw [blob_length, hlen]
      have := hsz r (by simp)
      omega
    by_cases hlt : p.length < (frame (blob E key i r)).length
    · refine ⟨0, p, Nat.zero_le _, by simp [wireOf], ?_, by simpa [wireOf_cons] using h⟩
      exact parseFrame_partial _ _ p hbl ⟨t, h⟩ hlt
    · obtain ⟨p', hp', hW⟩ : ∃ p', p = frame (blob E key i r) ++ p' ∧ p' ++ t = wireOf E key (i + 1) rs := by
        rcases List.append_eq_append_iff.mp h with ⟨a', h1, h2⟩ | ⟨c', h1, h2⟩
        · have : a' = [] := by
            have hl := congrArg List.length h1
            simp only [List.length_append] at hl
            exact List.eq_nil_of_length_eq_zero (by omega)
          subst this
          exact ⟨[], by simpa using h1.symm, by simpa using h2⟩
        · exact ⟨c', h1, h2.symm⟩
      obtain ⟨m, tail, hm, e1, e2, e3⟩ := ih (i + 1) p' t (fun x hx => hsz x (by simp [hx])) hW
      refine ⟨m + 1, tail, by simp; omega, ?_, e2, ?_⟩
      · rw [hp', e1, List.take_succ_cons, wireOf_cons, List.append_assoc]
      · rw [e3, List.drop_succ_cons]
        have : i + 1 + m = i + (m + 1) := by omega
        rw [this]

theorem wireOf_ne_nil_parse (E : Env) (key : Bytes) (hlen : ∀ n m, (E.box.enc key n m).length = m.length + 16)
    (i : Nat) (rs : List Bytes) (tail : Bytes) (hsz : SizesOK rs) (hne : rs ≠ []) :
    parseFrame (wireOf E key i rs ++ tail) ≠ none := by
  cases rs with
  | nil => exact absurd rfl hne
  | cons r rs =>
    have hbl : (blob E key i r).length < 256 ^ 4 := by
      rw [blob_length, hlen]
      have := hsz r (by simp)
      omega
    rw [wireOf_cons, List.append_assoc, parseFrame_frame _ _ hbl]
    simp

/-- the honest frames of `rest` (numbered from `i`) and the beginning `tail` of a further frame arrive, in any chunks,
    at a connection that stands at counter `i` with an incomplete frame in its buffer: exactly `rest` is handed to
    `recordReceived`, `tail` waits in the buffer -/
theorem feed_honest_gen (E : Env) (c : Conn) (rest : List Bytes) (i : Nat) (tail : Bytes) (cs : List Bytes)
    (hst : c.state = .records) (hn : c.nextReceiveNonce = i) (hcount : i + rest.length ≤ 256 ^ 24) (hsz : SizesOK rest)
    (hlen : ∀ n m, (E.box.enc (receiverRecordKey E c.isSender) n m).length = m.length + 16)
    (hopen : ∀ j (h : j < rest.length), E.box.dec (receiverRecordKey E c.isSender) (beFixed 24 (i + j))
        (E.box.enc (receiverRecordKey E c.isSender) (beFixed 24 (i + j)) rest[j]) = some rest[j])
    (hbuf : parseFrame c.buf = none) (htail : parseFrame tail = none)
    (hwire : c.buf ++ cs.flatten = wireOf E (receiverRecordKey E c.isSender) i rest ++ tail) :
    feed E c cs = { c with buf := tail, nextReceiveNonce := i + rest.length, app := rest.foldl recordReceived c.app } := by
  cases cs with
  | nil =>
    simp only [List.flatten_nil, List.append_nil] at hwire
    have hr : rest = [] := by
      by_cases h : rest = []
      · exact h
      · exfalso
        have := wireOf_ne_nil_parse E _ hlen i rest tail hsz h
        rw [← hwire] at this
        exact this hbuf
    subst hr
    simp only [wireOf, List.nil_append] at hwire
    cases c
    simp only at hwire hn
    subst hwire hn
    rfl
  | cons x cs =>
    rw [feed_cons_eq, dataReceived_records E hst]
    have hb : ({ c with buf := c.buf ++ (x ++ cs.flatten) } : Conn) =
        { c with buf := wireOf E (receiverRecordKey E c.isSender) i rest ++ tail } := by
      rw [← hwire]; simp
    rw [hb, rx_honest E tail rest i c hn hcount hsz hlen hopen, rx_unfold]
    simp only [htail]

/-- **an honest stream, interrupted anywhere by anything the application does, goes on where it stopped.**
    The bytes of `rs` arrive in the chunks of `ops0` (interleaved with any application activity) and then `cs`; the
    cut between them may fall anywhere, inside a frame too.  After `ops0` the connection is alive, has accepted the
    first `m` records (they are what the application has been handed or finds queued), its application side satisfies
    the invariants, and whatever application state `a1` is put in its place, the chunks `cs` hand exactly the remaining
    records `rs.drop m`, in order, to `recordReceived`. -/
theorem honest_split (E : Env) (b : Bool) (rs : List Bytes) (hcount : rs.length ≤ 256 ^ 24) (hsz : SizesOK rs)
    (hid : IdealFor E.box (senderRecordKey E b) rs) (ops0 : List Op) (cs : List Bytes)
    (hdata : (dataOf ops0 ++ cs).flatten = (sendMany E (Conn.init b) rs).1.app.wire) :
    ∃ m, m ≤ rs.length ∧ (run E (Conn.init (!b)) ops0).state = .records ∧
      (run E (Conn.init (!b)) ops0).nextReceiveNonce = m ∧
      (run E (Conn.init (!b)) ops0).app.surfaced = rs.take m ∧
      ConsInv (run E (Conn.init (!b)) ops0).app ∧ FreshCid (run E (Conn.init (!b)) ops0).app ∧
      ∀ a1 : App, feed E { run E (Conn.init (!b)) ops0 with app := a1 } cs =
        { run E (Conn.init (!b)) ops0 with buf := [], nextReceiveNonce := rs.length,
                                            app := (rs.drop m).foldl recordReceived a1 } := by
  have hkey : receiverRecordKey E (!b) = senderRecordKey E b := (sendKey_eq_peer_recvKey E b).symm
  have hid' : IdealFor E.box (receiverRecordKey E (!b)) rs := by rw [hkey]; exact hid
  rw [(sender_wire_core E b rs hcount hsz hid).2.1, List.flatten_append, ← hkey] at hdata
  obtain ⟨m, tail, hm, e1, e2, e3⟩ := wire_prefix_split E (receiverRecordKey E (!b)) (fun n k => hid'.len_enc n k)
    rs 0 (dataOf ops0).flatten cs.flatten hsz hdata
  rw [Nat.zero_add] at e3
  have hopen1 : ∀ j (h : j < (rs.take m).length), E.box.dec (receiverRecordKey E (!b)) (beFixed 24 (0 + j))
      (E.box.enc (receiverRecordKey E (!b)) (beFixed 24 (0 + j)) (rs.take m)[j]) = some (rs.take m)[j] := by
    intro j hj
    have hj' : j < rs.length := by simp at hj; omega
    have h2 : (rs.take m)[j] = rs[j] := by simp [List.getElem_take]
    rw [h2, Nat.zero_add]
    exact hid'.opens j hj'
  have hopen2 : ∀ j (h : j < (rs.drop m).length), E.box.dec (receiverRecordKey E (!b)) (beFixed 24 (m + j))
      (E.box.enc (receiverRecordKey E (!b)) (beFixed 24 (m + j)) (rs.drop m)[j]) = some (rs.drop m)[j] := by
    intro j hj
    have hj' : m + j < rs.length := by simp at hj; omega
    have h2 : (rs.drop m)[j] = rs[m + j] := by simp [List.getElem_drop]
    rw [h2]
    exact hid'.opens (m + j) hj'
  have hlt : (rs.take m).length = m := by simp; omega
  -- the wire side after `ops0`
  have hfeed := feed_honest_gen E (Conn.init (!b)) (rs.take m) 0 tail (dataOf ops0) rfl rfl (by rw [hlt]; omega)
    (fun r hr => hsz r (List.mem_of_mem_take hr)) (fun n k => hid'.len_enc n k) hopen1
    (by simp [Conn.init, parseFrame]) e2 (by simpa [Conn.init] using e1)
  obtain ⟨a2, hw0⟩ := run_wire E ops0 (Conn.init (!b)) (Conn.init (!b)).app
  have hw : run E (Conn.init (!b)) ops0 = { feed E (Conn.init (!b)) (dataOf ops0) with app := a2 } := hw0
  rw [hfeed, hlt, Nat.zero_add] at hw
  have hinv := run_inv E rs (!b) hcount hid'.onlyHonest ops0 (Conn.init (!b)) rfl (init_inv rs (!b) [])
  have hfr := run_fresh E ops0 (Conn.init (!b)) init_fresh
  have hst : (run E (Conn.init (!b)) ops0).state = .records := by rw [hw]; rfl
  have hrn : (run E (Conn.init (!b)) ops0).nextReceiveNonce = m := by rw [hw]
  refine ⟨m, hm, hst, hrn, ?_, hinv.2.2, hfr, ?_⟩
  · have hl := hinv.2.1 hst
    rw [hrn] at hl
    have := List.prefix_iff_eq_take.mp hinv.1
    rw [hl] at this
    exact this
  · intro a1
    have hdl : (rs.drop m).length = rs.length - m := by simp
    have := feed_honest_gen E { run E (Conn.init (!b)) ops0 with app := a1 } (rs.drop m) m [] cs hst hrn
      (by rw [hdl]; omega) (fun r hr => hsz r (List.mem_of_mem_drop hr))
      (by rw [hw]; exact fun n k => hid'.len_enc n k) (by rw [hw]; exact hopen2)
      (by rw [hw]; exact e2) (by simp [parseFrame])
      (by rw [hw]; simpa [Conn.init] using e3)
    rw [this, hdl]
    have : m + (rs.length - m) = rs.length := by omega
    rw [this]

end WV.C06
