import WV.Proofs.C17_Msg
import WV.Proofs.C17_CoreT
import WV.Proofs.C17_Keep

/-!
C17 helper lemmas, part 5: every event and every thunk of the eventual queue preserves the control
invariant (for a conformant peer).
-/
namespace WV.Proofs.C17
open WV WV.Gen WV.C17

variable {ps : String} {pend : List Thunk} {w : World}

theorem inv_of_core {v : World} (h : Inv ps pend w) (e : core v = core w) : Inv ps pend v := by
  show InvC ps pend (core v)
  rw [e]; exact h

/-- the environment's promise about one dilation message -/
def okMsgW (ps : String) (w : World) (m : Msg) : Prop := okMsg ps w.mySide m

theorem receivedMsg_inv (hps : ps < w.mySide ∨ w.mySide < ps) (h : Inv ps pend w) (hm : w.hasMgr = true)
    (hk : w.key = true) (m : Msg) (hok : okMsg ps w.mySide m) (ht : TimerOk w) : Inv ps pend (receivedMsg m w).1 := by
  cases m with
  | please s =>
    simp only [okMsg] at hok
    subst hok
    exact please_inv hps h hm hk
  | hints n => exact inv_of_core h (hints_core n w)
  | reconnect => exact reconnect_inv hok h hm ht
  | reconnecting => exact reconnecting_inv h hm
  | unknown => exact h

theorem keep_receivedMsg (m : Msg) (w : World) : KeepD w (receivedMsg m w).1 := by
  cases m <;> simp only [receivedMsg]
  · exact keep_mInput _ _ _ _
  · exact keep_mInput _ _ _ _
  · exact keep_mInput _ _ _ _
  · exact keep_mInput _ _ _ _
  · keep_rfl

theorem mgrGotVersions_inv (h : Inv ps pend w) (hm : w.hasMgr = true) (v : Vers) :
    Inv ps pend (mgrGotVersions v w).1 := by
  unfold mgrGotVersions
  split
  · exact h
  unfold mgrGotVersionsWith
  dsimp only
  apply start_inv
  · split
    · exact InvC.mono (k := core w) h (ConnsLe.refl _) (fun t ht => List.mem_append.mpr (Or.inl ht))
    · exact h
  · split <;> exact hm

theorem keep_mgrGotVersions (v : Vers) (w : World) : KeepD w (mgrGotVersions v w).1 := by
  unfold mgrGotVersions
  split
  · exact KeepD.refl _
  unfold mgrGotVersionsWith
  dsimp only
  refine KeepD.trans ?_ (keep_mInput _ _ _ _)
  split
  · exact ⟨rfl, rfl, rfl, rfl, rfl, rfl, rfl, rfl, rfl, rfl, rfl, rfl, fun _ => rfl, fun h => h⟩
  · keep_rfl

theorem drainMsgs_inv (l : List Msg) : ∀ (w : World), (ps < w.mySide ∨ w.mySide < ps) → Inv ps pend w → w.hasMgr = true →
    (l ≠ [] → w.key = true) → (∀ m ∈ l, okMsg ps w.mySide m) → TimerOk w → Inv ps pend (drainMsgs l w).1 := by
  induction l with
  | nil => intro w _ h hm _ _ _; exact InvC.setPMsgs (k := core w) h hm []
  | cons m rest ih =>
    intro w hps h hm hk hok ht
    simp only [drainMsgs]
    have hk' : w.key = true := hk (by simp)
    have h1 : Inv ps pend (receivedMsg m { w with pMsgs := rest }).1 :=
      receivedMsg_inv (w := { w with pMsgs := rest }) hps (InvC.setPMsgs (k := core w) h hm rest) hm hk' m (hok m (by simp)) ht
    have hkeep := keep_receivedMsg m { w with pMsgs := rest }
    rcases hr : receivedMsg m { w with pMsgs := rest } with ⟨w2, e⟩
    rw [hr] at h1 hkeep
    cases e with
    | some e => exact h1
    | none =>
      simp only [andThen]
      apply ih w2
      · rw [hkeep.mySide]; exact hps
      · exact h1
      · rw [hkeep.hasMgr]; exact hm
      · intro _; rw [hkeep.key]; exact hk'
      · intro m' hm'; rw [hkeep.mySide]; exact hok m' (by simp [hm'])
      · exact hkeep.timerOk ht

theorem dilate_inv (hps : ps < w.mySide ∨ w.mySide < ps) (h : Inv ps pend w) (ht : TimerOk w) : Inv ps pend (dilate w).1 := by
  unfold dilate
  split
  · exact h
  · dsimp only
    split
    · exact h
    · rename_i hcalled hmgr
      have hmf : w.hasMgr = false := by simpa using hmgr
      obtain ⟨n1, n2, n3, n4, n5⟩ := h.noMgr hmf
      -- the fresh Manager, with the pending key replayed
      have h2 : Inv ps pend (replayKey { w with called := true, hasMgr := true }) := by
        unfold replayKey
        split
        · exact InvC.setKey (k := core { w with called := true, hasMgr := true }) (InvC.mkMgr (k := core w) h)
        · exact InvC.mkMgr (k := core w) h
      generalize hw2 : replayKey { w with called := true, hasMgr := true } = w2 at h2 ⊢
      have e1 : w2.hasMgr = true := by rw [← hw2]; unfold replayKey; split <;> rfl
      have e2 : w2.mySide = w.mySide := by rw [← hw2]; unfold replayKey; split <;> rfl
      have e3 : w2.pMsgs = w.pMsgs := by rw [← hw2]; unfold replayKey; split <;> rfl
      have e5 : w.pKey = true → w2.key = true := by intro hk; rw [← hw2]; simp [replayKey, hk]
      have e6 : TimerOk w2 := by rw [← hw2]; unfold replayKey; split <;> exact ht
      -- versions replay
      have h3 : Inv ps pend (replayVersions w2).1 := by
        unfold replayVersions
        split
        · exact mgrGotVersions_inv h2 e1 _
        · exact h2
      have k3 : KeepD w2 (replayVersions w2).1 := by
        unfold replayVersions
        split
        · exact keep_mgrGotVersions _ _
        · exact KeepD.refl _
      rcases hr : replayVersions w2 with ⟨w3, e⟩
      rw [hr] at h3 k3
      cases e with
      | some e => exact h3
      | none =>
        simp only [andThen]
        apply drainMsgs_inv
        · rw [k3.mySide, e2]; exact hps
        · exact h3
        · rw [k3.hasMgr]; exact e1
        · intro hne
          rw [k3.key]
          apply e5
          apply n4
          rw [k3.pMsgs, e3] at hne
          exact hne
        · intro m hm
          rw [k3.pMsgs, e3] at hm
          rw [k3.mySide, e2]
          exact n5 m hm
        · exact k3.timerOk e6


theorem inv_core_eq {v : World} {k : Core} (hk : InvC ps pend k) (e : core v = k) : Inv ps pend v := by
  show InvC ps pend (core v)
  rw [e]; exact hk

theorem hasMgr_of_ms (h : Inv ps pend w) (hs : w.ms ≠ .WAITING) : w.hasMgr = true := by
  cases hm : w.hasMgr
  · exact absurd (h.noMgr hm).1 hs
  · rfl

/-- the world `_stop_using_connection` leaves (when cancelling the timer does not raise) -/
abbrev lostWorld (w : World) (op : Bool) (ps : List Prod) : World :=
  { w with tt := w.tt.map fun _ => TrafficTimer.State.no_connection, timer := .none, conn := none,
           outPaused := op, prods := ps }

/-- with a timer handle that is safe to cancel and a running Cooperator, `_stop_using_connection`
    raises nothing: the connection is forgotten, the producers are paused, the machine is told -/
theorem connectionLost_eq (w : World) (ht : TimerOk w) :
    ∃ op prs, connectionLost w = (if w.conn.isNone then (lostWorld w w.outPaused w.prods, some .attribute) else
      if w.role = some true then mInput .connection_lost_leader "" 0 (lostWorld w op prs)
      else mInput .connection_lost_follower "" 0 (lostWorld w op prs)) := by
  unfold connectionLost
  dsimp only
  rw [cancelTimer_ok _ _ stopUsingSafe (by exact ht)]
  simp only [andThen]
  by_cases hc : w.conn.isNone = true
  · exact ⟨w.outPaused, w.prods, by simp only [hc, ↓reduceIte]⟩
  · simp only [hc, Bool.false_eq_true, ↓reduceIte]
    generalize hW : ({ w with tt := w.tt.map fun _ => TrafficTimer.State.no_connection, timer := Timer.none, conn := none } : World) = W
    have hcs : W.coopStopped = false := by rw [← hW]; exact ht.coopRunning
    obtain ⟨op, prs, e⟩ := pauseAll_same W
    refine ⟨op, prs, ?_⟩
    have hok := pauseAll_ok W hcs
    rcases hp : pauseAll W with ⟨x, er⟩
    rw [hp] at e hok
    simp only at e hok
    subst hok
    subst e
    rw [← hW]

/-- the `manager.connector_connection_lost()` callback runs -/
theorem connectionLost_inv (h : Inv ps (Thunk.mgrLost :: pend) w) (ht : TimerOk w) : Inv ps pend (connectionLost w).1 := by
  obtain ⟨op, prs, heq⟩ := connectionLost_eq w ht
  rw [heq]
  simp only [lostWorld]
  cases hc : w.conn with
  | none =>
    simp only [Option.isNone_none, ↓reduceIte]
    have hn : ¬ inConn w.ms := by
      intro hi
      obtain ⟨c, _, a1, _⟩ := h.armed hi
      have : w.conn = some c := a1
      simp [hc] at this
    have h' := InvC.dropPend h (Or.inr hn) (Or.inl (by simp))
    exact InvC.clearConn (k := core w) h' hn
  | some c =>
    simp only [Option.isNone_some, Bool.false_eq_true, ↓reduceIte]
    have hdrop : ∀ {k : Core}, InvC ps (Thunk.mgrLost :: pend) k → ¬ inConn k.ms → InvC ps pend k :=
      fun hk hn => InvC.dropPend hk (Or.inr hn) (Or.inl (by simp))
    by_cases hrole : w.role = some true
    · rw [if_pos hrole]
      unfold mInput
      cases hms : w.ms <;> simp only [Manager.table]
      · -- ABANDONING with the leader role: excluded by the invariant
        have := h.aband hms
        rw [show (core w).role = w.role from rfl, hrole] at this
        simp at this
      · -- CONNECTED → FLUSHING
        have hm := hasMgr_of_ms h (by simp [hms])
        exact inv_core_eq (hdrop (InvC.toIdle (k := core w) h hm hms .FLUSHING (Or.inl rfl)) (by simp [inConn])) rfl
      · exact inv_core_eq (hdrop (InvC.clearConn (k := core w) h (by simp [core, hms, inConn])) (by simp [core, hms, inConn]))
          (by simp [core, hms])
      · exact inv_core_eq (hdrop (InvC.clearConn (k := core w) h (by simp [core, hms, inConn])) (by simp [core, hms, inConn]))
          (by simp [core, hms])
      · exact inv_core_eq (hdrop (InvC.clearConn (k := core w) h (by simp [core, hms, inConn])) (by simp [core, hms, inConn]))
          (by simp [core, hms])
      · exact inv_core_eq (hdrop (InvC.clearConn (k := core w) h (by simp [core, hms, inConn])) (by simp [core, hms, inConn]))
          (by simp [core, hms])
      · -- STOPPING → STOPPED
        have hm := hasMgr_of_ms h (by simp [hms])
        have hf : w.fired = false := InvC.firedFalse (k := core w) h (by simp [core, hms])
        simp only [mOuts, mOut, notifyStopped, hf, Bool.false_eq_true, ↓reduceIte, andThen]
        exact inv_core_eq (hdrop (InvC.stoppingToStopped (k := core w) h hm hms) (by simp [inConn])) rfl
      · exact inv_core_eq (hdrop (InvC.clearConn (k := core w) h (by simp [core, hms, inConn])) (by simp [core, hms, inConn]))
          (by simp [core, hms])
      · exact inv_core_eq (hdrop (InvC.clearConn (k := core w) h (by simp [core, hms, inConn])) (by simp [core, hms, inConn]))
          (by simp [core, hms])
    · rw [if_neg hrole]
      unfold mInput
      cases hms : w.ms <;> simp only [Manager.table]
      · -- ABANDONING → CONNECTING with a new Connector
        have hm := hasMgr_of_ms h (by simp [hms])
        obtain ⟨hr, hk⟩ := h.roleSet (by simp [core, hms, active])
        have hnc : ∀ g : Nat, w.ctors[g]? ≠ some Connector.State.connecting := by
          intro g hg
          have := (h.ctorB g hg).2
          simp [core, hms] at this
        show InvC ps pend (core _)
        rw [reconTail_core { w with tt := w.tt.map fun _ => TrafficTimer.State.no_connection, timer := .none, conn := none, outPaused := op, prods := prs, ms := .CONNECTING } hr hk]
        exact hdrop (InvC.toConnecting (k := core w) h hm (by simp [core, hms]) (by simp [core, hms]) w.role hr h.roleVal hk
          w.ctors hnc w.conns none) (by simp [inConn, core])
      · -- CONNECTED → LONELY
        have hm := hasMgr_of_ms h (by simp [hms])
        exact inv_core_eq (hdrop (InvC.toIdle (k := core w) h hm hms .LONELY (Or.inr rfl)) (by simp [inConn])) rfl
      · exact inv_core_eq (hdrop (InvC.clearConn (k := core w) h (by simp [core, hms, inConn])) (by simp [core, hms, inConn]))
          (by simp [core, hms])
      · exact inv_core_eq (hdrop (InvC.clearConn (k := core w) h (by simp [core, hms, inConn])) (by simp [core, hms, inConn]))
          (by simp [core, hms])
      · exact inv_core_eq (hdrop (InvC.clearConn (k := core w) h (by simp [core, hms, inConn])) (by simp [core, hms, inConn]))
          (by simp [core, hms])
      · exact inv_core_eq (hdrop (InvC.clearConn (k := core w) h (by simp [core, hms, inConn])) (by simp [core, hms, inConn]))
          (by simp [core, hms])
      · -- STOPPING → STOPPED
        have hm := hasMgr_of_ms h (by simp [hms])
        have hf : w.fired = false := InvC.firedFalse (k := core w) h (by simp [core, hms])
        simp only [mOuts, mOut, notifyStopped, hf, Bool.false_eq_true, ↓reduceIte, andThen]
        exact inv_core_eq (hdrop (InvC.stoppingToStopped (k := core w) h hm hms) (by simp [inConn])) rfl
      · exact inv_core_eq (hdrop (InvC.clearConn (k := core w) h (by simp [core, hms, inConn])) (by simp [core, hms, inConn]))
          (by simp [core, hms])
      · exact inv_core_eq (hdrop (InvC.clearConn (k := core w) h (by simp [core, hms, inConn])) (by simp [core, hms, inConn]))
          (by simp [core, hms])

end WV.Proofs.C17
