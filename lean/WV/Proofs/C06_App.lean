import WV.Model.C06

/-! The application side of `transit.Connection` with re-entrant callbacks: every step of the call
    stack moves the head of the inbound queue to whoever is next (FIFO), never touches anything else;
    the call stack always runs empty within `potential` steps; and when it is empty no consumer is
    attached while records are queued. -/
namespace WV.C06
open WV

/-! ## one step: the records handed out, the queue, the consumer -/

/-- while a consumer is attached nothing is queued (it was drained when the consumer was attached) -/
def ConsInv (a : App) : Prop := a.consumer.isSome = true → a.inbound = []

/-- mid-stack version: a consumer can be attached over a non-empty queue only while the
    `connectConsumer()` that attached it is still draining -/
def DrainInv (a : App) (ag : List Frame) : Prop :=
  a.consumer.isSome = true → a.inbound ≠ [] → Frame.drain ∈ ag

theorem delivered_emit (a : App) (evs : List Ev) :
    (a.emit evs).delivered = a.delivered ++ evs.filterMap Ev.payload := by
  simp [App.emit, App.delivered, List.filterMap_append]

theorem writeEvents_cw (a : App) (r : Bytes) (kick : Bool) :
    (writeEvents a r kick).filterMap Ev.cw = if kick then [] else [r] := by
  cases kick <;> cases h : a.fcConsumer <;> simp [writeEvents, h, Ev.cw]

theorem writeEvents_done (a : App) (r : Bytes) (kick : Bool) : (writeEvents a r kick).filterMap Ev.doneVal = [] := by
  cases kick <;> cases h : a.fcConsumer <;> simp [writeEvents, h, Ev.doneVal]

theorem consumerDone_spec (a : App) (k : Consumer) (w : Nat) :
    (consumerDone a k w).1.delivered = a.delivered ∧ (consumerDone a k w).1.inbound = a.inbound ∧
    (consumerDone a k w).1.consumer = a.consumer ∧ (consumerDone a k w).1.waiting = a.waiting := by
  unfold consumerDone
  cases k.cb <;> simp [App.delivered, App.emit, List.filterMap_append, Ev.payload]

theorem writeToConsumer_aux (a1 : App) (k : Consumer) (w : Nat) (ex : Option Nat) :
    (match ex with
      | some n => if w ≥ n then consumerDone (disconnectConsumer a1) k w else (a1, [])
      | none => (a1, [])).1.delivered = a1.delivered ∧
    (match ex with
      | some n => if w ≥ n then consumerDone (disconnectConsumer a1) k w else (a1, [])
      | none => (a1, [])).1.inbound = a1.inbound ∧
    (match ex with
      | some n => if w ≥ n then consumerDone (disconnectConsumer a1) k w else (a1, [])
      | none => (a1, [])).1.waiting = a1.waiting := by
  cases ex with
  | none => exact ⟨rfl, rfl, rfl⟩
  | some n =>
    simp only
    split
    · obtain ⟨h1, h2, _, h4⟩ := consumerDone_spec (disconnectConsumer a1) k w
      rw [h1, h2, h4]
      simp [App.delivered, disconnectConsumer, List.filterMap_append, Ev.payload]
    · exact ⟨rfl, rfl, rfl⟩

theorem writeToConsumer_spec (a : App) (k : Consumer) (r : Bytes) (kick : Bool) :
    (writeToConsumer a k r kick).1.delivered = a.delivered ++ (if kick then [] else [r]) ∧
    (writeToConsumer a k r kick).1.inbound = a.inbound ∧
    (writeToConsumer a k r kick).1.waiting = a.waiting := by
  simp only [writeToConsumer]
  obtain ⟨h1, h2, h3⟩ := writeToConsumer_aux
    { a with consumer := some { k with written := k.written + r.length },
             log := a.log ++ writeEvents a r kick } k (k.written + r.length) k.expected
  refine ⟨h1.trans ?_, h2.trans rfl, h3.trans rfl⟩
  cases kick <;> cases a.fcConsumer <;> simp [App.delivered, List.filterMap_append, Ev.payload, writeEvents]

theorem fireRead_spec (a : App) (d : Reader) (r : Bytes) :
    (fireRead a d r).1.delivered = a.delivered ++ [r] ∧ (fireRead a d r).1.inbound = a.inbound ∧
    (fireRead a d r).1.consumer = a.consumer ∧ (fireRead a d r).1.waiting = a.waiting := by
  unfold fireRead
  cases d.cb <;> simp [App.delivered, App.emit, List.filterMap_append, Ev.payload]

theorem failRead_spec (a : App) (d : Reader) :
    (failRead a d).delivered = a.delivered ∧ (failRead a d).inbound = a.inbound ∧
    (failRead a d).consumer = a.consumer ∧ (failRead a d).waiting = a.waiting := by
  unfold failRead
  cases d.cb <;> simp [App.delivered, App.emit, List.filterMap_append, Ev.payload]

theorem foldl_failRead_spec : ∀ (ws : List Reader) (a : App),
    (ws.foldl failRead a).delivered = a.delivered ∧ (ws.foldl failRead a).inbound = a.inbound ∧
    (ws.foldl failRead a).consumer = a.consumer ∧ (ws.foldl failRead a).waiting = a.waiting := by
  intro ws
  induction ws with
  | nil => intro a; exact ⟨rfl, rfl, rfl, rfl⟩
  | cons d ds ih =>
    intro a
    obtain ⟨h1, h2, h3, h4⟩ := failRead_spec a d
    obtain ⟨i1, i2, i3, i4⟩ := ih (failRead a d)
    exact ⟨i1.trans h1, i2.trans h2, i3.trans h3, i4.trans h4⟩

theorem close_spec (a : App) :
    (close a).delivered = a.delivered ∧ (close a).inbound = a.inbound ∧ (close a).consumer = a.consumer ∧
    (close a).waiting = [] := by
  unfold close
  obtain ⟨h1, h2, h3, h4⟩ := foldl_failRead_spec a.waiting ({ a with waiting := [] }.emit [.lose])
  refine ⟨h1.trans ?_, h2, h3, h4⟩
  simp [App.delivered, App.emit, List.filterMap_append, Ev.payload]

theorem connectionLost_fields (a : App) :
    (connectionLost a).delivered = a.delivered ∧ (connectionLost a).inbound = a.inbound ∧
    (connectionLost a).consumer = a.consumer ∧ (connectionLost a).waiting = [] := by
  unfold connectionLost
  obtain ⟨h1, h2, h3, h4⟩ := foldl_failRead_spec a.waiting { a with waiting := [] }
  simp only
  split
  · refine ⟨?_, h2, h3, h4⟩
    rw [delivered_emit, h1]; simp [Ev.payload, App.delivered]
  · exact ⟨h1, h2, h3, h4⟩

theorem finishAttach_spec (a : App) (ex : Option Nat) (fc : Bool) (s rest : List Act) (ag : List Frame) :
    (finishAttach a ex fc s rest).1.surfaced = a.surfaced ∧
    DrainInv (finishAttach a ex fc s rest).1 ((finishAttach a ex fc s rest).2 ++ ag) := by
  simp only [finishAttach]
  split
  · refine ⟨?_, fun _ _ => by simp⟩
    obtain ⟨w1, w2, _⟩ := writeToConsumer_spec
      { a with consumer := some { cid := a.nextCid, written := 0, expected := ex, cb := none },
               nextCid := a.nextCid + 1, fcConsumer := fc }
      { cid := a.nextCid, written := 0, expected := ex, cb := none } [] true
    rw [App.surfaced, App.surfaced, w1, w2]
    simp [App.delivered]
  · refine ⟨?_, fun _ _ => by simp⟩
    simp [App.surfaced, App.delivered]

theorem attachConsumer_spec (a : App) (ex : Option Nat) (fc : Bool) (s rest : List Act) (ag : List Frame)
    (hJ : DrainInv a (Frame.script (Act.consume ex s :: rest) :: ag) ∨
          DrainInv a (Frame.script (Act.consumeFC ex s :: rest) :: ag)) :
    (attachConsumer a ex fc s rest).1.surfaced = a.surfaced ∧
    DrainInv (attachConsumer a ex fc s rest).1 ((attachConsumer a ex fc s rest).2 ++ ag) := by
  have hJ' : DrainInv a ag := by
    intro hc hne
    rcases hJ with h | h
    · have := h hc hne; simpa using this
    · have := h hc hne; simpa using this
  simp only [attachConsumer]
  split
  · exact ⟨by simp [App.surfaced, App.delivered, App.emit, List.filterMap_append, Ev.payload], hJ'⟩
  · obtain ⟨f1, f2⟩ := finishAttach_spec { a with log := a.log ++ [.reg] } ex fc s rest ag
    refine ⟨f1.trans ?_, f2⟩
    simp [App.surfaced, App.delivered, List.filterMap_append, Ev.payload]

/-- what one step of the call stack does to the three things the order of delivery depends on -/
theorem appStep_spec (a : App) (fr : Frame) (ag : List Frame) (hJ : DrainInv a (fr :: ag)) :
    (appStep a fr).1.surfaced = a.surfaced ∧ DrainInv (appStep a fr).1 ((appStep a fr).2 ++ ag) := by
  cases fr with
  | deliver =>
    simp only [appStep]
    split
    · rename_i r rs d ds hi hw
      obtain ⟨f1, f2, f3, _⟩ := fireRead_spec { a with inbound := rs, waiting := ds } d r
      cases hf : fireRead { a with inbound := rs, waiting := ds } d r with
      | mk a' fs =>
        rw [hf] at f1 f2 f3
        simp only at f1 f2 f3 ⊢
        refine ⟨?_, ?_⟩
        · rw [App.surfaced, App.surfaced, f1, f2, hi]; simp [App.delivered]
        · intro hc hne
          have h1 : a.consumer.isSome = true := by rw [← f3]; exact hc
          have := hJ h1 (by rw [hi]; simp)
          simp at this
          simp [this]
    · refine ⟨by first | rfl | trivial, ?_⟩
      intro hc hne
      have := hJ hc hne
      simpa using this
  | drain =>
    simp only [appStep]
    split
    · rename_i k r rs hk hi
      obtain ⟨w1, w2, _⟩ := writeToConsumer_spec { a with inbound := rs } k r false
      cases hf : writeToConsumer { a with inbound := rs } k r false with
      | mk a' fs =>
        rw [hf] at w1 w2
        simp only at w1 w2 ⊢
        refine ⟨?_, ?_⟩
        · rw [App.surfaced, App.surfaced, w1, w2, hi]; simp [App.delivered]
        · intro _ _; simp
    · rename_i hno
      refine ⟨by first | rfl | trivial, ?_⟩
      intro hc hne
      exfalso
      cases hk : a.consumer with
      | none => simp [hk] at hc
      | some k =>
        cases hi : a.inbound with
        | nil => exact hne hi
        | cons r rs => exact hno k r rs hk hi
  | script acts =>
    cases acts with
    | nil =>
      simp only [appStep]
      refine ⟨by first | rfl | trivial, ?_⟩
      intro hc hne
      have := hJ hc hne
      simpa using this
    | cons act rest =>
      cases act with
      | read s =>
        simp only [appStep]
        refine ⟨by first | rfl | trivial, ?_⟩
        intro hc hne
        have := hJ hc hne
        simp at this
        simp [this]
      | consume ex s => exact attachConsumer_spec a ex false s rest ag (.inl hJ)
      | consumeFC ex s => exact attachConsumer_spec a ex true s rest ag (.inr hJ)
      | pause =>
        simp only [appStep]
        refine ⟨by simp [App.surfaced, App.delivered, App.emit, List.filterMap_append, Ev.payload], ?_⟩
        intro hc hne
        have := hJ hc hne
        simp at this
        simp [this]
      | resume =>
        simp only [appStep]
        refine ⟨by simp [App.surfaced, App.delivered, App.emit, List.filterMap_append, Ev.payload], ?_⟩
        intro hc hne
        have := hJ hc hne
        simp at this
        simp [this]
      | detach =>
        simp only [appStep]
        split
        · refine ⟨by simp [App.surfaced, App.delivered, App.emit, List.filterMap_append, Ev.payload], ?_⟩
          intro hc hne
          have := hJ hc hne
          simpa using this
        · refine ⟨by simp [App.surfaced, App.delivered, disconnectConsumer, List.filterMap_append, Ev.payload], ?_⟩
          intro hc; simp [disconnectConsumer] at hc
      | close =>
        simp only [appStep]
        obtain ⟨c1, c2, c3, _⟩ := close_spec a
        refine ⟨by simp [App.surfaced, c1, c2], ?_⟩
        intro hc hne
        rw [c3] at hc
        rw [c2] at hne
        have := hJ hc hne
        simp at this
        simp [this]
  | attachRead id s =>
    simp only [appStep]
    split
    · refine ⟨by simp [App.surfaced, App.delivered, App.emit, List.filterMap_append, Ev.payload], ?_⟩
      intro hc hne
      have := hJ hc hne
      simp at this
      simp [this]
    · refine ⟨by simp [App.surfaced, App.delivered, App.emit, List.filterMap_append, Ev.payload], ?_⟩
      intro hc hne
      have := hJ hc hne
      simpa using this
    · refine ⟨by first | rfl | trivial, ?_⟩
      intro hc hne
      have := hJ hc hne
      simpa using this
  | attachCons cid s =>
    simp only [appStep]
    split
    · refine ⟨by simp [App.surfaced, App.delivered, App.emit, List.filterMap_append, Ev.payload], ?_⟩
      intro hc hne
      have := hJ hc hne
      simp at this
      simp [this]
    · split
      · rename_i k hk
        split
        · refine ⟨by first | rfl | trivial, ?_⟩
          intro _ hne
          have := hJ (by simp [hk]) hne
          simpa using this
        · refine ⟨by first | rfl | trivial, ?_⟩
          intro hc hne
          have := hJ hc hne
          simpa using this
      · refine ⟨by first | rfl | trivial, ?_⟩
        intro hc hne
        have := hJ hc hne
        simpa using this

/-- the whole run of the call stack: records leave the queue only from its head, to whoever is next -/
theorem runAgenda_spec : ∀ (fuel : Nat) (a : App) (ag : List Frame), DrainInv a ag →
    (runAgenda fuel a ag).1.surfaced = a.surfaced ∧
    DrainInv (runAgenda fuel a ag).1 (runAgenda fuel a ag).2 := by
  intro fuel
  induction fuel with
  | zero => intro a ag h; exact ⟨rfl, h⟩
  | succ f ih =>
    intro a ag h
    cases ag with
    | nil => exact ⟨rfl, h⟩
    | cons fr ag =>
      simp only [runAgenda]
      obtain ⟨s1, s2⟩ := appStep_spec a fr ag h
      cases hs : appStep a fr with
      | mk a' fs =>
        rw [hs] at s1 s2
        simp only at s1 s2 ⊢
        obtain ⟨i1, i2⟩ := ih a' (fs ++ ag) s2
        exact ⟨i1.trans s1, i2⟩

/-! ## the call stack always runs empty: `potential` strictly decreases -/

theorem agendaWeight_append (fs ag : List Frame) : agendaWeight (fs ++ ag) = agendaWeight fs + agendaWeight ag := by
  simp [agendaWeight, List.map_append, List.sum_append]

theorem agendaWeight_cons (fr : Frame) (ag : List Frame) : agendaWeight (fr :: ag) = fr.weight + agendaWeight ag := by
  simp [agendaWeight]

def waitWeight (ws : List Reader) : Nat := (ws.map (fun d => szOpt d.cb)).sum

theorem potential_eq (a : App) (ag : List Frame) :
    potential a ag = 2 * a.inbound.length + waitWeight a.waiting + consumerWeight a.consumer + agendaWeight ag := rfl

theorem consumerDone_weight (a : App) (k : Consumer) (w : Nat) :
    agendaWeight (consumerDone a k w).2 ≤ 1 + szOpt k.cb := by
  unfold consumerDone
  cases k.cb <;> simp [agendaWeight, Frame.weight, szOpt]

theorem writeToConsumer_weight_aux (a1 : App) (k k' : Consumer) (w : Nat) (ex : Option Nat)
    (h1 : a1.consumer = some k') (hk : k'.cb = k.cb) :
    consumerWeight (match ex with
      | some n => if w ≥ n then consumerDone (disconnectConsumer a1) k w else (a1, [])
      | none => (a1, [])).1.consumer +
    agendaWeight (match ex with
      | some n => if w ≥ n then consumerDone (disconnectConsumer a1) k w else (a1, [])
      | none => (a1, [])).2 ≤ 1 + szOpt k.cb := by
  cases ex with
  | none => simp [h1, consumerWeight, hk, agendaWeight]
  | some n =>
    simp only
    split
    · have h3 := (consumerDone_spec (disconnectConsumer a1) k w).2.2.1
      have h4 := consumerDone_weight (disconnectConsumer a1) k w
      rw [h3]
      simp [disconnectConsumer, consumerWeight]
      exact h4
    · simp [h1, consumerWeight, hk, agendaWeight]

theorem writeToConsumer_weight (a : App) (k : Consumer) (r : Bytes) (kick : Bool) :
    consumerWeight (writeToConsumer a k r kick).1.consumer + agendaWeight (writeToConsumer a k r kick).2
      ≤ 1 + szOpt k.cb :=
  writeToConsumer_weight_aux
    { a with consumer := some { k with written := k.written + r.length },
             log := a.log ++ writeEvents a r kick } k { k with written := k.written + r.length }
    (k.written + r.length) k.expected rfl rfl

theorem fireRead_weight (a : App) (d : Reader) (r : Bytes) : agendaWeight (fireRead a d r).2 ≤ 1 + szOpt d.cb := by
  unfold fireRead
  cases d.cb <;> simp [agendaWeight, Frame.weight, szOpt]

theorem attachFirst_weight (id : Nat) (s : List Act) : ∀ ws : List Reader,
    waitWeight (attachFirst id s ws) ≤ waitWeight ws + szList s := by
  intro ws
  induction ws with
  | nil => simp [attachFirst, waitWeight]
  | cons d ds ih =>
    simp only [attachFirst]
    split
    · simp [waitWeight, szOpt]; omega
    · simp [waitWeight] at ih ⊢; omega

theorem szList_cons (x : Act) (xs : List Act) : szList (x :: xs) = x.sz + szList xs := by
  simp [szList]

theorem finishAttach_decreases (a : App) (ex : Option Nat) (fc : Bool) (s rest : List Act) (ag : List Frame)
    (hnone : a.consumer = none) :
    potential (finishAttach a ex fc s rest).1 ((finishAttach a ex fc s rest).2 ++ ag) + 1 <
      potential a ag + (1 + (5 + szList s + szList rest)) + 1 := by
  simp only [potential_eq, agendaWeight_append]
  simp only [finishAttach]
  split
  · obtain ⟨_, w2, w3⟩ := writeToConsumer_spec
      { a with consumer := some { cid := a.nextCid, written := 0, expected := ex, cb := none },
               nextCid := a.nextCid + 1, fcConsumer := fc }
      { cid := a.nextCid, written := 0, expected := ex, cb := none } [] true
    have w5 := writeToConsumer_weight
      { a with consumer := some { cid := a.nextCid, written := 0, expected := ex, cb := none },
               nextCid := a.nextCid + 1, fcConsumer := fc }
      { cid := a.nextCid, written := 0, expected := ex, cb := none } [] true
    simp only at w2 w3 w5 ⊢
    rw [w2, w3, hnone, agendaWeight_append]
    simp [agendaWeight, Frame.weight, consumerWeight, szOpt] at w5 ⊢
    omega
  · simp [hnone, agendaWeight, Frame.weight, consumerWeight, szOpt]
    omega

theorem attachConsumer_decreases (a : App) (ex : Option Nat) (fc : Bool) (s rest : List Act) (ag : List Frame) :
    potential (attachConsumer a ex fc s rest).1 ((attachConsumer a ex fc s rest).2 ++ ag) + 1 <
      potential a ag + (1 + (5 + szList s + szList rest)) + 1 := by
  simp only [attachConsumer]
  split
  · simp [potential_eq, App.emit, agendaWeight]; omega
  · rename_i hnone
    have := finishAttach_decreases { a with log := a.log ++ [.reg] } ex fc s rest ag hnone
    simpa [potential_eq] using this

/-- every step of the call stack makes `potential` smaller -/
theorem appStep_decreases (a : App) (fr : Frame) (ag : List Frame) :
    potential (appStep a fr).1 ((appStep a fr).2 ++ ag) < potential a (fr :: ag) := by
  simp only [potential_eq, agendaWeight_append, agendaWeight_cons]
  cases fr with
  | deliver =>
    simp only [appStep]
    split
    · rename_i r rs d ds hi hw
      obtain ⟨_, f2, f3, f4⟩ := fireRead_spec { a with inbound := rs, waiting := ds } d r
      have f5 := fireRead_weight { a with inbound := rs, waiting := ds } d r
      cases hf : fireRead { a with inbound := rs, waiting := ds } d r with
      | mk a' fs =>
        rw [hf] at f2 f3 f4 f5
        simp only at f2 f3 f4 f5 ⊢
        rw [f2, f3, f4, hi, hw, agendaWeight_append]
        simp [waitWeight, agendaWeight, Frame.weight] at f5 ⊢
        omega
    · simp [Frame.weight, agendaWeight]
  | drain =>
    simp only [appStep]
    split
    · rename_i k r rs hk hi
      obtain ⟨_, w2, w3⟩ := writeToConsumer_spec { a with inbound := rs } k r false
      have w5 := writeToConsumer_weight { a with inbound := rs } k r false
      cases hf : writeToConsumer { a with inbound := rs } k r false with
      | mk a' fs =>
        rw [hf] at w2 w3 w5
        simp only at w2 w3 w5 ⊢
        rw [w2, w3, hi, hk, agendaWeight_append]
        simp [agendaWeight, Frame.weight, consumerWeight] at w5 ⊢
        omega
    · simp [Frame.weight, agendaWeight]
  | script acts =>
    cases acts with
    | nil => simp [appStep, Frame.weight, agendaWeight, szList]
    | cons act rest =>
      cases act with
      | read s =>
        simp [appStep, Frame.weight, agendaWeight, szList_cons, Act.sz, waitWeight, szOpt]
        omega
      | consume ex s =>
        have := attachConsumer_decreases a ex false s rest ag
        simp only [potential_eq, agendaWeight_append, appStep, Frame.weight, szList_cons, Act.sz] at this ⊢
        omega
      | consumeFC ex s =>
        have := attachConsumer_decreases a ex true s rest ag
        simp only [potential_eq, agendaWeight_append, appStep, Frame.weight, szList_cons, Act.sz] at this ⊢
        omega
      | pause =>
        simp [appStep, App.emit, Frame.weight, agendaWeight, szList_cons, Act.sz]
      | resume =>
        simp [appStep, App.emit, Frame.weight, agendaWeight, szList_cons, Act.sz]
      | detach =>
        simp only [appStep]
        split
        · simp [App.emit, Frame.weight, agendaWeight] <;> omega
        · simp [disconnectConsumer, agendaWeight, Frame.weight, consumerWeight, szList_cons, Act.sz]
          omega
      | close =>
        simp only [appStep]
        obtain ⟨_, c2, c3, c4⟩ := close_spec a
        rw [c2, c3, c4]
        simp [agendaWeight, Frame.weight, szList_cons, Act.sz, waitWeight]
        omega
  | attachRead id s =>
    simp only [appStep]
    split
    · simp [App.emit, agendaWeight, Frame.weight] <;> omega
    · simp [App.emit, agendaWeight, Frame.weight] <;> omega
    · have := attachFirst_weight id s a.waiting
      simp [agendaWeight, Frame.weight]
      omega
  | attachCons cid s =>
    simp only [appStep]
    split
    · simp [App.emit, agendaWeight, Frame.weight] <;> omega
    · split
      · rename_i k hk
        split
        · simp [hk, consumerWeight, szOpt, agendaWeight, Frame.weight]
          omega
        · simp [agendaWeight, Frame.weight] <;> omega
      · simp [agendaWeight, Frame.weight] <;> omega

/-- **fuel sufficiency**: `potential a ag` steps empty the call stack `ag`, whatever the scripts do -/
theorem runAgenda_empties : ∀ (fuel : Nat) (a : App) (ag : List Frame), potential a ag ≤ fuel →
    (runAgenda fuel a ag).2 = [] := by
  intro fuel
  induction fuel with
  | zero =>
    intro a ag h
    cases ag with
    | nil => rfl
    | cons fr ag =>
      have := appStep_decreases a fr ag
      omega
  | succ f ih =>
    intro a ag h
    cases ag with
    | nil => rfl
    | cons fr ag =>
      simp only [runAgenda]
      have hd := appStep_decreases a fr ag
      cases hs : appStep a fr with
      | mk a' fs =>
        rw [hs] at hd
        simp only at hd ⊢
        exact ih a' (fs ++ ag) (by omega)

/-- more fuel than needed changes nothing -/
theorem runAgenda_more : ∀ (fuel g : Nat) (a : App) (ag : List Frame), potential a ag ≤ fuel → fuel ≤ g →
    runAgenda g a ag = runAgenda fuel a ag := by
  intro fuel
  induction fuel with
  | zero =>
    intro g a ag h _
    cases ag with
    | nil => cases g <;> rfl
    | cons fr ag =>
      have := appStep_decreases a fr ag
      omega
  | succ f ih =>
    intro g a ag h hg
    cases g with
    | zero => omega
    | succ g =>
      cases ag with
      | nil => rfl
      | cons fr ag =>
        simp only [runAgenda]
        have hd := appStep_decreases a fr ag
        cases hs : appStep a fr with
        | mk a' fs =>
          rw [hs] at hd
          simp only at hd ⊢
          exact ih g a' (fs ++ ag) (by omega) (by omega)

/-! ## the top-level API calls -/

theorem settle_spec (a : App) (ag : List Frame) (h : DrainInv a ag) :
    (settle a ag).surfaced = a.surfaced ∧ ConsInv (settle a ag) := by
  unfold settle
  obtain ⟨s1, s2⟩ := runAgenda_spec (potential a ag) a ag h
  have he := runAgenda_empties (potential a ag) a ag (Nat.le_refl _)
  refine ⟨s1, ?_⟩
  intro hc
  rw [he] at s2
  cases hi : (runAgenda (potential a ag) a ag).1.inbound with
  | nil => rfl
  | cons r rs =>
    have := s2 hc (by rw [hi]; simp)
    simp at this

theorem drainInv_of_consInv (a : App) (ag : List Frame) (h : ConsInv a) : DrainInv a ag := by
  intro hc hne
  exact absurd (h hc) hne

theorem recordReceived_spec (a : App) (r : Bytes) (h : ConsInv a) :
    (recordReceived a r).surfaced = a.surfaced ++ [r] ∧ ConsInv (recordReceived a r) := by
  unfold recordReceived
  cases hc : a.consumer with
  | some k =>
    simp only
    have h0 : a.inbound = [] := h (by simp [hc])
    obtain ⟨w1, w2, _⟩ := writeToConsumer_spec a k r false
    cases hw : writeToConsumer a k r false with
    | mk a1 fs =>
      rw [hw] at w1 w2
      simp only at w1 w2 ⊢
      obtain ⟨s1, s2⟩ := settle_spec a1 fs (by intro _ hne; rw [w2, h0] at hne; exact absurd rfl hne)
      refine ⟨?_, s2⟩
      rw [s1, App.surfaced, App.surfaced, w1, w2, h0]
      simp
  | none =>
    simp only
    obtain ⟨s1, s2⟩ := settle_spec { a with inbound := a.inbound ++ [r] } [.deliver]
      (by intro hs; simp [hc] at hs)
    simp only [hc] at s1 s2
    refine ⟨?_, s2⟩
    rw [s1]; simp [App.surfaced, App.delivered]

theorem appCall_spec (a : App) (acts : List Act) (h : ConsInv a) :
    (appCall a acts).surfaced = a.surfaced ∧ ConsInv (appCall a acts) :=
  settle_spec a _ (drainInv_of_consInv a _ h)

theorem connectionLost_spec (a : App) (h : ConsInv a) :
    (connectionLost a).surfaced = a.surfaced ∧ ConsInv (connectionLost a) ∧ (connectionLost a).waiting = [] := by
  obtain ⟨h1, h2, h3, h4⟩ := connectionLost_fields a
  refine ⟨by rw [App.surfaced, App.surfaced, h1, h2], ?_, h4⟩
  intro hc
  rw [h3] at hc
  rw [h2]
  exact h hc

theorem foldl_recordReceived_spec : ∀ (rs : List Bytes) (a : App), ConsInv a →
    (rs.foldl recordReceived a).surfaced = a.surfaced ++ rs ∧ ConsInv (rs.foldl recordReceived a) := by
  intro rs
  induction rs with
  | nil => intro a h; simp [h]
  | cons r rs ih =>
    intro a h
    obtain ⟨s1, s2⟩ := recordReceived_spec a r h
    obtain ⟨i1, i2⟩ := ih (recordReceived a r) s2
    simp only [List.foldl_cons]
    exact ⟨by rw [i1, s1]; simp, i2⟩

/-! ## `connectionLost` fails whatever is pending -/

theorem failRead_mem (a : App) (d : Reader) :
    (∀ e ∈ a.log, e ∈ (failRead a d).log) ∧ (∀ p ∈ a.storedReads, p ∈ (failRead a d).storedReads) ∧
    (d.cb.isSome = true → Ev.failed d.id ∈ (failRead a d).log) ∧
    (d.cb = none → (d.id, none) ∈ (failRead a d).storedReads) := by
  unfold failRead
  cases hd : d.cb with
  | none => simp; intro x y h; exact Or.inl h
  | some s => simp [App.emit]; intro e h; exact Or.inl h

theorem foldl_failRead_mem : ∀ (ws : List Reader) (a : App),
    (∀ e ∈ a.log, e ∈ (ws.foldl failRead a).log) ∧
    (∀ p ∈ a.storedReads, p ∈ (ws.foldl failRead a).storedReads) ∧
    (∀ d ∈ ws, (d.cb.isSome = true → Ev.failed d.id ∈ (ws.foldl failRead a).log) ∧
      (d.cb = none → (d.id, none) ∈ (ws.foldl failRead a).storedReads)) := by
  intro ws
  induction ws with
  | nil => intro a; simp
  | cons d ds ih =>
    intro a
    obtain ⟨f1, f2, f3, f4⟩ := failRead_mem a d
    obtain ⟨i1, i2, i3⟩ := ih (failRead a d)
    simp only [List.foldl_cons]
    refine ⟨fun e he => i1 e (f1 e he), fun p hp => i2 p (f2 p hp), ?_⟩
    intro d' hd'
    rcases List.mem_cons.mp hd' with rfl | hmem
    · exact ⟨fun h => i1 _ (f3 h), fun h => i2 _ (f4 h)⟩
    · exact i3 d' hmem

theorem connectionLost_fails_all (a : App) :
    (connectionLost a).waiting = [] ∧
    (∀ d ∈ a.waiting, (d.cb.isSome = true → Ev.failed d.id ∈ (connectionLost a).log) ∧
        (d.cb = none → (d.id, none) ∈ (connectionLost a).storedReads)) ∧
    ((∃ cid w n cb, a.consumer = some ⟨cid, w, some n, cb⟩) → Ev.cfail ∈ (connectionLost a).log) := by
  refine ⟨(connectionLost_fields a).2.2.2, ?_, ?_⟩
  · obtain ⟨_, _, i3⟩ := foldl_failRead_mem a.waiting { a with waiting := [] }
    intro d hd
    obtain ⟨g1, g2⟩ := i3 d hd
    unfold connectionLost
    simp only
    split
    · exact ⟨fun h => by simp [App.emit, g1 h], fun h => by simpa [App.emit] using g2 h⟩
    · exact ⟨g1, g2⟩
  · rintro ⟨cid, w, n, cb, hc⟩
    have h3 := (foldl_failRead_spec a.waiting { a with waiting := [] }).2.2.1
    unfold connectionLost
    simp only
    split
    · simp [App.emit]
    · rename_i hno
      exfalso
      exact hno cid w n cb (by rw [h3]; exact hc)

end WV.C06
