import WV.Proofs.C07_Inv
import WV.Proofs.C07_Port
import WV.Proofs.C07_Connect

/-! `connect()` returns only a connection whose negotiation succeeded: the value a contender
Deferred fires with, `_first_success`, and the result of `connect()` are always connections with
`_negotiation_d` fired by `callback`. -/
namespace WV.Proofs.C07
open WV WV.C07

def okc (w : World) (i : Nat) : Prop := ∃ c, w.conns i = some c ∧ c.negD = .ok

theorem okc_quiet {w w' : World} (q : Quiet w w') {i : Nat} (h : okc w i) : okc w' i := by
  obtain ⟨c, hc, hok⟩ := h
  rcases q.conns i with ⟨hn, _⟩ | ⟨a, b, ha, hb, hab⟩
  · rw [hn] at hc; cases hc
  · rw [ha] at hc; cases hc
    exact ⟨b, hb, hab.keeps.2.2.2.2.2.mpr hok⟩

structure RS (w : World) : Prop where
  r1 : ∀ k i, phC w.cont k = some (.done none i) → okc w i
  r2 : ∀ i, w.firstSuccess = some i → okc w i
  r3 : ∀ i, w.result = .ok i → okc w i

theorem RS.of {w w' : World} (h : RS w) (q : ∀ i, okc w i → okc w' i) (e1 : w'.cont = w.cont)
    (e2 : w'.firstSuccess = w.firstSuccess) (e3 : w'.result = w.result) : RS w' :=
  ⟨fun k i hk => q i (h.r1 k i (e1 ▸ hk)), fun i hi => q i (h.r2 i (e2 ▸ hi)), fun i hi => q i (h.r3 i (e3 ▸ hi))⟩

theorem RS.ofQ {w w' : World} (h : RS w) (q : Quiet w w') (e1 : w'.cont = w.cont)
    (e2 : w'.firstSuccess = w.firstSuccess) (e3 : w'.result = w.result) : RS w' :=
  h.of (fun _ => okc_quiet q) e1 e2 e3

theorem foldl_RS {α : Type} (f : World → α → World) (hf : ∀ w a, RS w → RS (f w a)) (l : List α)
    (w : World) (h : RS w) : RS (l.foldl f w) := by
  induction l generalizing w with
  | nil => exact h
  | cons a rest ih => exact ih _ (hf w a h)

theorem maybeDone_RS (w : World) (h : RS w) : RS (maybeDone w) := by
  unfold maybeDone
  split
  · exact h
  · split
    · exact h
    · refine ⟨h.r1, h.r2, ?_⟩
      intro i hi
      simp only [] at hi
      split at hi
      · split at hi
        · rename_i j hj
          cases hi
          exact h.r2 _ hj
        · cases hi
      · split at hi <;> cases hi

theorem failCallbacks_RS (w : World) (k : Nat) (e : Err) (h : RS w) : RS (failCallbacks w k e) := by
  unfold failCallbacks
  exact maybeDone_RS _ (h.of (fun _ x => x) rfl rfl rfl)

theorem RS_setPhase {w : World} (k : Nat) {p : Phase} (po : Bool) (h : RS w) (hp : ∀ i, p ≠ .done none i) :
    RS { w with cont := setPhase w.cont k p, portOpen := po } := by
  refine ⟨?_, h.r2, h.r3⟩
  intro k' i hk
  simp only [phC_setPhase] at hk
  by_cases hkk : k = k'
  · subst hkk
    simp only [if_true] at hk
    cases hc : w.cont[k]? with
    | none => rw [hc] at hk; cases hk
    | some c => rw [hc] at hk; simp at hk; exact absurd hk (hp i)
  · simp only [hkk, if_false] at hk; exact h.r1 k' i hk

theorem RS_setDoneOk {w : World} (k i : Nat) (po : Bool) (h : RS w) (hok : okc w i) :
    RS { w with cont := setPhase w.cont k (.done none i), portOpen := po } := by
  refine ⟨?_, h.r2, h.r3⟩
  intro k' j hk
  simp only [phC_setPhase] at hk
  by_cases hkk : k = k'
  · subst hkk
    simp only [if_true] at hk
    cases hc : w.cont[k]? with
    | none => rw [hc] at hk; cases hk
    | some c => rw [hc] at hk; simp at hk; subst hk; exact hok
  · simp only [hkk, if_false] at hk; exact h.r1 k' j hk

theorem fireFail_RS (w : World) (k : Nat) (e : Err) (h : RS w) : RS (fireFail w k e) := by
  unfold fireFail
  simp only []
  have h1 := RS_setPhase k (p := .done (some e) 0)
    (w.portOpen && !(isListener w.cont k && Gen.Transit.listener_stop_on_errback)) h (by intro i; simp)
  repeat' split
  all_goals first
    | exact failCallbacks_RS _ k e h1
    | exact h1

theorem cancelConnAt_RS (w : World) (i : Nat) (h : RS w) : RS (cancelConnAt w i) := by
  have e1 : (cancelConnAt w i).cont = w.cont := by
    unfold cancelConnAt; repeat' split
    all_goals rfl
  have e2 : (cancelConnAt w i).firstSuccess = w.firstSuccess := by
    unfold cancelConnAt; repeat' split
    all_goals rfl
  have e3 : (cancelConnAt w i).result = w.result := by
    unfold cancelConnAt; repeat' split
    all_goals rfl
  exact h.ofQ (cancelConnAt_quiet w i) e1 e2 e3

theorem shutdown_RS (w : World) (h : RS w) : RS (shutdown w) := by
  unfold shutdown
  exact (foldl_RS cancelConnAt cancelConnAt_RS _ w h).of (fun _ x => x) rfl rfl rfl

theorem cancelContender_RS (w : World) (k : Nat) (h : RS w) : RS (cancelContender w k) := by
  unfold cancelContender
  split
  · exact fireFail_RS _ k _ (shutdown_RS w h)
  · exact fireFail_RS _ k _ h
  · exact fireFail_RS _ k _ h
  · exact fireFail_RS _ k _ (cancelConnAt_RS w _ h)
  · exact h

theorem foldl_cancelContender_okc (l : List Nat) (w : World) {i : Nat} (h : okc w i) :
    okc (l.foldl cancelContender w) i :=
  okc_quiet (foldl_quiet cancelContender cancelContender_quiet l w) h

theorem okCallbacks_RS (w : World) (k i : Nat) (h : RS w) (hok : okc w i) : RS (okCallbacks w k i) := by
  unfold okCallbacks
  apply maybeDone_RS
  apply foldl_RS cancelContender cancelContender_RS
  exact ⟨h.r1, fun j hj => by simp only [Option.some.injEq] at hj; subst hj; exact hok, h.r3⟩

theorem fireOk_RS (w : World) (k i : Nat) (h : RS w) (hok : okc w i) : RS (fireOk w k i) := by
  unfold fireOk
  simp only []
  have h1 := RS_setDoneOk k i
    (w.portOpen && !(isListener w.cont k && Gen.Transit.listener_stop_on_callback)) h hok
  repeat' split
  all_goals first
    | exact okCallbacks_RS _ k i h1 hok
    | exact h1

theorem negFired_RS (w : World) (i : Nat) (r : Option Err) (h : RS w) (hok : r = none → okc w i) :
    RS (negFired w i r) := by
  unfold negFired
  split
  · exact h
  · split
    · have h0 : RS { w with fPending := w.fPending.erase i } := h.of (fun _ x => x) rfl rfl rfl
      split
      · exact h0
      · simp only []
        have h1 := shutdown_RS _ h0
        have hok1 : okc (shutdown { w with fPending := w.fPending.erase i }) i :=
          okc_quiet (shutdown_quiet _) (by obtain ⟨c, hc, ho⟩ := hok rfl; exact ⟨c, hc, ho⟩)
        split
        · split
          · exact fireOk_RS _ _ _ h1 hok1
          · exact h1
        · exact h1
    · split
      · exact fireOk_RS _ _ _ h (hok rfl)
      · exact fireFail_RS _ _ _ h

/-- install the outcome of a `dataReceived`/`startNegotiation` on connection `i` -/
theorem applyCtx_RS (w : World) (i : Nat) (x : Ctx) (h : RS w)
    (hkeep : ∀ c, w.conns i = some c → c.negD = .ok → x.c.negD = .ok)
    (hfire : x.fired = some none → x.c.negD = .ok) : RS (applyCtx w i x) := by
  have hq : ∀ j, okc w j → okc { (w.setConn i x.c) with winner := x.winner } j := by
    intro j ⟨c, hc, ho⟩
    by_cases hji : j = i
    · subst hji; exact ⟨x.c, by simp [World.setConn], hkeep c hc ho⟩
    · exact ⟨c, by simp [World.setConn, hji, hc], ho⟩
  have h1 : RS { (w.setConn i x.c) with winner := x.winner } := h.of hq rfl rfl rfl
  unfold applyCtx
  simp only []
  split
  · rename_i r hf
    apply negFired_RS _ _ _ h1
    intro hr; subst hr
    exact ⟨x.c, by simp [World.setConn], hfire hf⟩
  · exact h1

theorem evData_RS {w : World} (hI : WInv w) (h : RS w) (i : Nat) (d : Bytes) : RS (evData w i d).1 := by
  unfold evData
  split
  · exact h
  · rename_i c hc
    have ht := dataRecv_ok (cfg := w.cfg) (w0 := w.winner) (i := i) d (hI.conns i c hc)
    apply applyCtx_RS _ _ _ h
    · intro c' hc' hok
      rw [hc] at hc'; cases hc'
      cases hf : (dataRecv w.cfg w.winner i c d).1.fired with
      | none => rw [ht.keep hf]; exact hok
      | some r =>
        cases r with
        | none => exact (ht.firedOk hf).1
        | some e => exact absurd hf (ht.firedNo e)
    · intro hf; exact (ht.firedOk hf).1

theorem startNeg_fire {cfg : Cfg} {w0 : Option Nat} {i : Nat} (rh : Option Bytes) (ow : Option Nat) (t : Timer)
    (hw : w0 ≠ some i) :
    (startNegotiation cfg w0 i (newConn rh ow t)).1.fired = some none →
      (startNegotiation cfg w0 i (newConn rh ow t)).1.c.negD = .ok := by
  unfold startNegotiation
  cases rh with
  | some y =>
    have hc : CInv cfg w0 i { newConn (some y) ow t with out := (newConn (some y) ow t).out ++ [y], state := CState.relay } :=
      CInv_Y (by simp [hsOut, newConn]) hw (by simp [newConn]) (by simp)
        (by intro _; simp [relay_ok_len, newConn])
    have ht := dataRecv_ok (cfg := cfg) (w0 := w0) (i := i) [] hc
    exact fun hf => (ht.firedOk hf).1
  | none =>
    have ht := dataRecv_start (cfg := cfg) (w0 := w0) (i := i)
      (c := { newConn none ow t with state := CState.start }) []
      rfl (by simp [hsOut, newConn]) hw (by simp [pre, newConn]) (by simp [newConn])
    exact fun hf => (ht.firedOk hf).1

theorem addConn_RS {w : World} (hI : WInv w) (h : RS w) (rh : Option Bytes) (ow : Option Nat) :
    RS (addConn w rh ow).1 := by
  have hw : w.winner ≠ some w.n := by
    intro hh; have := hI.winner _ hh; omega
  have hfree := hI.bound w.n (Nat.le_refl _)
  have hf := startNeg_fire (cfg := w.cfg) (w0 := w.winner) (i := w.n) rh ow (w.now + Gen.Transit.TIMEOUT_s, w.seq) hw
  cases ow with
  | none =>
    unfold addConn
    simp only []
    refine applyCtx_RS _ _ _ ?_ ?_ hf
    · exact h.of (fun _ x => x) rfl rfl rfl
    · intro c hc; simp only [] at hc; rw [hfree] at hc; cases hc
  | some k =>
    unfold addConn
    simp only []
    refine applyCtx_RS _ _ _ ?_ ?_ hf
    · have := RS_setPhase k (p := .negotiating w.n) w.portOpen h (by intro i; simp)
      exact this.of (fun _ x => x) rfl rfl rfl
    · intro c hc; simp only [] at hc; rw [hfree] at hc; cases hc

theorem attach_RS (w : World) (k : Nat) (h : RS w) : RS (attach w k) := by
  unfold attach
  split
  · exact h
  · rename_i c hc
    have h1 : RS { w with cont := w.cont.modify k fun c => { c with attached := true } } :=
      ⟨fun k' i hk => h.r1 k' i (by simpa only [phC_attach] using hk), h.r2, h.r3⟩
    simp only []
    split
    · rename_i i hp
      apply okCallbacks_RS _ _ _ h1
      exact h.r1 k i (by unfold phC; rw [hc]; simp [hp])
    · exact failCallbacks_RS _ _ _ h1
    · exact h1

/-- `_connect` turns idle contenders into connecting / delayed ones and nothing else -/
theorem startContenders_get2 (now : Nat) (hd : Bool) (all : List Contender) :
    ∀ (l : List Contender) (seq j : Nat) (c' : Contender), (startContenders now seq hd all l).1[j]? = some c' →
      ∃ c, l[j]? = some c ∧ (c'.phase = c.phase ∨ c'.phase = .connecting ∨ ∃ t, c'.phase = .delayed t) := by
  intro l
  induction l with
  | nil => intro seq j c' h; simp [startContenders] at h
  | cons c rest ih =>
    intro seq j c' h
    unfold startContenders at h
    cases j with
    | zero =>
      split at h
      · simp at h; subst h; exact ⟨c, rfl, Or.inr (Or.inl rfl)⟩
      · simp at h; subst h; exact ⟨c, rfl, Or.inr (Or.inr ⟨_, rfl⟩)⟩
      · simp at h; subst h; exact ⟨c, rfl, Or.inl rfl⟩
    | succ j =>
      split at h
      · simp at h; simpa using ih seq j c' h
      · simp at h; simpa using ih (seq + 1) j c' h
      · simp at h; simpa using ih seq j c' h

theorem evConnect_RS {w w' : World} (h : RS w) (he : evConnect w = some w') : RS w' := by
  rw [evConnect_eq] at he
  unfold evConnectHead at he
  split at he
  · cases he
  · simp only [] at he
    have hbase : ∀ (w2 : World),
        w2.cont = (startContenders w.now w.seq (w.cont.any fun c => decide (c.kind = Kind.direct)) w.cont w.cont).1 →
        w2.conns = w.conns → w2.firstSuccess = w.firstSuccess → (w2.result = w.result ∨ ∃ e, w2.result = .fail e) →
        RS w2 := by
      intro w2 e1 e2 e3 e4
      have hq : ∀ i, okc w i → okc w2 i := by intro i ⟨c, hc, ho⟩; exact ⟨c, by rw [e2]; exact hc, ho⟩
      refine ⟨?_, fun i hi => hq i (h.r2 i (e3 ▸ hi)), ?_⟩
      · intro k i hk
        rw [e1] at hk
        unfold phC at hk
        cases hc' : (startContenders w.now w.seq (w.cont.any fun c => decide (c.kind = Kind.direct)) w.cont w.cont).1[k]? with
        | none => rw [hc'] at hk; cases hk
        | some c' =>
          rw [hc'] at hk
          simp at hk
          obtain ⟨c, hc, hp⟩ := startContenders_get2 _ _ _ _ _ k c' hc'
          rcases hp with hp | hp | ⟨t, hp⟩
          · exact hq i (h.r1 k i (by unfold phC; rw [hc]; simp [← hp, hk]))
          · rw [hp] at hk; cases hk
          · rw [hp] at hk; cases hk
      · intro i hi
        rcases e4 with e | ⟨e, e'⟩
        · exact hq i (h.r3 i (e ▸ hi))
        · rw [e'] at hi; cases hi
    split at he
    · cases he; exact hbase _ rfl rfl rfl (Or.inr ⟨_, rfl⟩)
    · split at he <;> cases he
      all_goals
        refine RS.of (w := List.foldl attach _ _) ?_ (fun _ x => x) rfl rfl rfl
        exact foldl_RS attach attach_RS _ _ (hbase _ rfl rfl rfl (Or.inl rfl))

theorem fireDeadline_RS (w : World) (h : RS w) : RS (fireDeadline w) := by
  unfold fireDeadline
  simp only []
  split
  · exact h.of (fun _ x => x) rfl rfl rfl
  · have h1 := foldl_RS cancelContender cancelContender_RS w.remaining { w with deadline := none }
      (h.of (fun _ x => x) rfl rfl rfl)
    split
    · exact h1
    · exact ⟨h1.r1, h1.r2, by intro i hi; simp at hi⟩

theorem fireTimer_RS (w : World) (t : Timer × TimerId) (h : RS w) : RS (fireTimer w t) := by
  unfold fireTimer
  split
  · split
    · rename_i c hc
      split
      · exact h.ofQ (Quiet.setConn hc (.timeout (.refl c))) rfl rfl rfl
      · exact h
    · exact h
  · rename_i k _
    split
    · have := RS_setPhase k (p := .connecting) w.portOpen h (by intro i; simp)
      exact this.of (fun _ x => x) rfl rfl rfl
    · exact h
  · split
    · exact fireDeadline_RS w h
    · exact h

theorem evLost_RS (w : World) (i : Nat) (h : RS w) : RS (evLost w i) := by
  unfold evLost
  split
  · exact h
  · rename_i c hc
    have h1 : RS (w.setConn i (connLost c).1) := h.ofQ (Quiet.setConn hc (.lost (.refl c))) rfl rfl rfl
    simp only []
    split
    · exact negFired_RS _ _ _ h1 (by intro hr; cases hr)
    · exact h1

theorem evInbound_RS {w : World} (hI : WInv w) (h : RS w) {p : World × Option Err} (hE : evInbound w = some p) :
    RS p.1 := by
  unfold evInbound at hE
  split at hE
  · split at hE
    · cases hE; exact addConn_RS hI h _ _
    · cases hE
      unfold addOrphan
      refine h.of ?_ rfl rfl rfl
      intro j ⟨c, hc, ho⟩
      have hj : j ≠ w.n := by
        intro e; subst e; rw [hI.bound w.n (Nat.le_refl _)] at hc; cases hc
      exact ⟨c, by simp [World.setConn, hj, hc], ho⟩
  · cases hE

theorem evConnected_RS {w : World} (hI : WInv w) (h : RS w) {k : Nat} {p : World × Option Err}
    (hE : evConnected w k = some p) : RS p.1 := by
  unfold evConnected at hE
  split at hE
  · split at hE
    · cases hE; exact addConn_RS hI h _ _
    · cases hE
  · cases hE

theorem step_RS {w : World} (hI : WInv w) (h : RS w) (e : Event) : RS (step w e) := by
  cases e with
  | inbound =>
    simp only [step]
    cases hE : evInbound w with
    | none => exact h
    | some p => exact evInbound_RS hI h hE
  | connect =>
    simp only [step]
    split
    · cases hE : evConnect w with
      | none => exact h
      | some w' => exact evConnect_RS h hE
    · exact h
  | connected k =>
    simp only [step]
    cases hE : evConnected w k with
    | none => exact h
    | some p => exact evConnected_RS hI h hE
  | connFail k e =>
    simp only [step]
    cases hE : evConnFail w k e with
    | none => exact h
    | some w' =>
      unfold evConnFail at hE
      split at hE
      · cases hE; exact fireFail_RS _ _ _ h
      · cases hE
  | data i d => exact evData_RS hI h i d
  | lost i => exact evLost_RS w i h
  | advance dt =>
    simp only [step, evAdvance]
    exact foldl_RS fireTimer fireTimer_RS _ _ (h.of (fun _ x => x) rfl rfl rfl)
  | setKey => exact h.of (fun _ x => x) rfl rfl rfl

theorem RS_init (cfg : Cfg) (l : Bool) (d : Nat) (r : List Nat) : RS (initWorld cfg l d r) := by
  refine ⟨?_, by intro i h; simp [initWorld] at h, by intro i h; simp [initWorld] at h⟩
  intro k i hk
  exfalso
  unfold phC at hk
  simp only [initWorld] at hk
  cases hc : ((if l = true then [({ kind := Kind.listener, phase := Phase.listening, attached := false } : Contender)] else []) ++
      List.replicate d { kind := Kind.direct, phase := Phase.idle, attached := false } ++
      List.map (fun p => { kind := Kind.relay p, phase := Phase.idle, attached := false }) r)[k]? with
  | none => rw [hc] at hk; cases hk
  | some c =>
    rw [hc] at hk
    have hm := List.mem_of_getElem? hc
    simp only [List.mem_append, List.mem_replicate, List.mem_map] at hm
    rcases hm with (hm | ⟨_, hm⟩) | ⟨p, _, hm⟩
    · cases l <;> simp at hm; subst hm; simp at hk
    · subst hm; simp at hk
    · subst hm; simp at hk

theorem run_RS {w : World} (hI : WInv w) (h : RS w) (evs : List Event) : RS (run w evs) := by
  induction evs generalizing w with
  | nil => exact h
  | cons e rest ih => exact ih (WInv_step hI e) (step_RS hI h e)

end WV.Proofs.C07
