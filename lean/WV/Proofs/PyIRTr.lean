import WV.Model.C06
import WV.Gen.PyIRTr
import WV.Proofs.PyIR_Dil
import WV.Proofs.C06
import WV.Proofs.C06_Cons
import WV.Proofs.C06_Thresh

set_option linter.unusedSimpArgs false
set_option linter.unusedVariables false

/-!
Translation validation of the transit `Connection` (PyIR, `WV.Gen.PyIRTr`) against the C06 model: lemmas.

* `envT E did`: the environment — `SecretBox(key)` / `.encrypt` / `.decrypt` are the model's `Box` (ideal AEAD interface)
  with PyNaCl's wrapper (`secretBoxDecrypt`), `int(hexlify(b), 16)` is `beDecode` (ValueError on `b""`),
  `unhexlify(f"{n:0{2w}x}")` is `beFixed w n` (binascii.Error when the hex text gets one digit too long),
  `defer.Deferred()` is the fresh handle `did`, message texts are opaque strings;
* `RelConn E h c`: heap ⟷ `C06.Conn` (record-layer attributes, queues, consumer);
* `absTCall`: recorded calls ⟷ `C06.Ev`.
-/
namespace WV.Proofs.PyIRTr
open WV WV.PyIR WV.Gen.PyIRTr WV.Proofs.PyIRC03 WV.Proofs.PyIRDil

/-- a `SecretBox(key)` object -/
def boxVal (k : Bytes) : Val := .obj "SecretBox" [.bytes k]

/-- the name the translator gives to an f-string: `f"…"` -/
def isFStr (f : String) : Bool := match f.toList with | 'f' :: '"' :: _ => true | _ => false

def extT (E : C06.Env) (did : Nat) (f : String) (args : List Val) : Res Val :=
  if isFStr f then .ok (.str "") else           -- message texts are opaque
  match f, args with
  | "be_decode", [.bytes b] => if b.isEmpty then .exc "ValueError" else .ok (.int (C06.beDecode b))
  | "be_fixed", [.int n, .int w] =>
    if n < 256 ^ w then .ok (.bytes (C06.beFixed w n))
    else if n < 16 * 256 ^ w then .exc "Error"          -- odd-length hex text: binascii.Error
    else unsupported
  | "SecretBox", [.bytes k] => .ok (boxVal k)
  | "SecretBox.encrypt", [.obj "SecretBox" [.bytes k], .bytes m, .bytes n] => .ok (.bytes (n ++ E.box.enc k n m))
  | "SecretBox.decrypt", [.obj "SecretBox" [.bytes k], .bytes e] =>
    match C06.secretBoxDecrypt E.box k e with
    | .ok p => .ok (.bytes p)
    | .error x => .exc x.name
  | "str%", _ => .ok (.str "")
  | "defer.Deferred", [] => .ok (.ref "Deferred" did)
  | _, _ => unsupported

/-- the environment of the transit models -/
def envT (E : C06.Env) (did : Nat := 0) : Env where
  fmtD := fun n => toString n
  raises := fun _ => none
  ext := extT E did

theorem envT_raises (E : C06.Env) (did : Nat) : (envT E did).raises = fun _ => none := rfl
theorem envT_reenter (E : C06.Env) (did : Nat) : (envT E did).reenter = fun _ => [] := rfl
theorem envT_ext (E : C06.Env) (did : Nat) : (envT E did).ext = extT E did := rfl

theorem ext_be_decode (E : C06.Env) (did : Nat) (b : Bytes) :
    extT E did "be_decode" [.bytes b] = if b.isEmpty then .exc "ValueError" else .ok (.int (C06.beDecode b)) := rfl
theorem ext_be_fixed (E : C06.Env) (did : Nat) (n w : Nat) :
    extT E did "be_fixed" [.int n, .int w] =
      if n < 256 ^ w then .ok (.bytes (C06.beFixed w n)) else if n < 16 * 256 ^ w then .exc "Error" else unsupported := rfl
theorem ext_box (E : C06.Env) (did : Nat) (k : Bytes) : extT E did "SecretBox" [.bytes k] = .ok (boxVal k) := rfl
theorem ext_encrypt (E : C06.Env) (did : Nat) (k m n : Bytes) :
    extT E did "SecretBox.encrypt" [boxVal k, .bytes m, .bytes n] = .ok (.bytes (n ++ E.box.enc k n m)) := rfl
theorem ext_decrypt (E : C06.Env) (did : Nat) (k e : Bytes) :
    extT E did "SecretBox.decrypt" [boxVal k, .bytes e] =
      match C06.secretBoxDecrypt E.box k e with
      | .ok p => .ok (.bytes p)
      | .error x => .exc x.name := rfl
theorem ext_strmod (E : C06.Env) (did : Nat) (args : List Val) : extT E did "str%" args = .ok (.str "") := by
  unfold extT
  rw [if_neg (by decide)]
  split <;> simp_all
theorem ext_fstr (E : C06.Env) (did : Nat) (f : String) (args : List Val) (hf : isFStr f = true) :
    extT E did f args = .ok (.str "") := by
  simp [extT, hf]
theorem ext_deferred (E : C06.Env) (did : Nat) : extT E did "defer.Deferred" [] = .ok (.ref "Deferred" did) := rfl

/-! ## the relation -/

/-- the consumer attributes: `_consumer`, `_consumer_bytes_written`, `_consumer_bytes_expected`, `_consumer_deferred` -/
def encExpected : Option Nat → Val
  | none => .none
  | some n => .int n

def RelCons (h : Store) : Option C06.Consumer → Prop
  | none => h.get "_consumer" = some .none ∧ h.get "_consumer_deferred" = some .none
  | some k =>
    h.get "_consumer" = some (.ref "Consumer" k.cid) ∧
    h.get "_consumer_bytes_written" = some (.int k.written) ∧
    h.get "_consumer_bytes_expected" = some (encExpected k.expected) ∧
    h.get "_consumer_deferred" = some (match k.expected with | none => .none | some _ => .ref "ConsumerDeferred" k.cid)

def encReader (d : C06.Reader) : Val := .ref "Deferred" d.id

/-- heap of a `Connection` in state `"records"` ⟷ the C06 model's `Conn` -/
structure RelConn (E : C06.Env) (h : Store) (c : C06.Conn) : Prop where
  buf : h.get "buf" = some (.bytes c.buf)
  sn : h.get "send_nonce" = some (.int c.sendNonce)
  rn : h.get "next_receive_nonce" = some (.int c.nextReceiveNonce)
  sbox : h.get "send_box" = some (boxVal (C06.senderRecordKey E c.isSender))
  rbox : h.get "receive_box" = some (boxVal (C06.receiverRecordKey E c.isSender))
  tr : h.get "transport" = some (.ref "Transport" 0)
  inb : h.get "_inbound_records" = some (.list (c.app.inbound.map Val.bytes))
  wait : h.get "_waiting_reads" = some (.list (c.app.waiting.map encReader))
  cons : RelCons h c.app.consumer

/-- the recorded calls the C06 model keeps as events -/
def absTCall : Call → Option C06.Ev
  | ⟨"transport", "write", [.bytes b]⟩ => some (.tx b)
  | ⟨"transport", "loseConnection", []⟩ => some .lose
  | ⟨"transport", "pauseProducing", []⟩ => some .tpause
  | ⟨"transport", "resumeProducing", []⟩ => some .tresume
  | ⟨"$v", "callback", [.ref "Deferred" id, .bytes r]⟩ => some (.assigned id r)
  | ⟨"_consumer", "write", [.bytes r]⟩ => some (.cwrite r)
  | ⟨"_consumer", "unregisterProducer", []⟩ => some .unreg
  | _ => none

theorem pow_256_24 : (256 : Nat) ^ 24 = 6277101735386680763835789423207666416102355444464034512896 := by decide
theorem pow_256_4 : (256 : Nat) ^ 4 = 4294967296 := by decide

macro "tr_eval" "[" ts:Lean.Parser.Tactic.simpLemma,* "]" : tactic =>
  `(tactic| simp [exec, callM, execB, execS, andThen, withVal, evalE, evalEs, readAttr, readVar, bindParams, doEmit,
      forLoop, bindPat, iterElems, valIn, valAdd, valLen, valIndex, valItems, isInstance, pyEq, scalarEq,
      Val.hashable, truthy_none, truthy_bool, truthy_int, truthy_str, truthy_bytes, truthy_tuple, truthy_list,
      truthy_dict, truthy_set, truthy_obj, truthy_ref, truthy_nint, St.setAttr, St.setLocal, St.bindOpt, Store.get,
      Store.set, Store.del, get_set, bind, Res.bind, pure, unsupported,
      valLe, valMax, valField, isInstanceAny, setElems, valGetD, starElems, doEmitR, runReenter, Val.toInt?, Val.ofInt,
      valSliceT, valStartswithT, isPseudoExcT, envT_raises, envT_reenter, envT_ext, ext_be_decode, ext_be_fixed, ext_box,
      ext_encrypt, ext_decrypt, ext_strmod, ext_deferred, ext_fstr, isFStr, tbl_Connection,
      $ts,*])

/-- attributes other than the four consumer attributes do not touch `RelCons` -/
theorem RelCons.set_other {h : Store} {k : Option C06.Consumer} (a : String) (v : Val) (hc : RelCons h k)
    (h1 : a ≠ "_consumer") (h2 : a ≠ "_consumer_bytes_written") (h3 : a ≠ "_consumer_bytes_expected")
    (h4 : a ≠ "_consumer_deferred") : RelCons (h.set a v) k := by
  cases k with
  | none => simpa [RelCons, get_set, h1, h4] using hc
  | some k => simpa [RelCons, get_set, h1, h2, h3, h4] using hc

/-- rebuild `RelConn` after symbolic evaluation: every field is a heap lookup through `Store.set`s -/
macro "rel_conn" : tactic =>
  `(tactic| (refine ⟨?_, ?_, ?_, ?_, ?_, ?_, ?_, ?_, ?_⟩ <;>
      first
      | (simp [get_set, *]; done)
      | (repeat (first | assumption | (apply RelCons.set_other <;> first | decide | skip)))))

/-! ## sibling calls of the record loop, as rewriting lemmas (any call list, any fuel above the constant) -/

/-- what `_decrypt_record(enc)` leaves: heap and result -/
def decOut (E : C06.Env) (isSender : Bool) (rn : Nat) (h : Store) (enc : Bytes) : Store × Res Val :=
  if (enc.take 24).isEmpty then (h, .exc "ValueError")
  else if C06.beDecode (enc.take 24) ≠ rn then (h, .exc "BadNonce")
  else (h.set "next_receive_nonce" (.int (rn + 1)),
        match C06.secretBoxDecrypt E.box (C06.receiverRecordKey E isSender) enc with
        | .ok p => .ok (.bytes p)
        | .error x => .exc x.name)

theorem callM_decrypt (g : Nat) (E : C06.Env) (did : Nat) (env : Env) (hext : env.ext = extT E did)
    (isSender : Bool) (rn : Nat) (h : Store) (enc : Bytes)
    (cs : List Call) (hrn : h.get "next_receive_nonce" = some (.int rn))
    (hrb : h.get "receive_box" = some (boxVal (C06.receiverRecordKey E isSender))) :
    callM env tbl_Connection (g + 1) "_decrypt_record" [.bytes enc] h cs =
      ((decOut E isSender rn h enc).1, cs, (decOut E isSender rn h enc).2) := by
  by_cases h1 : (enc.take 24).isEmpty = true
  · tr_eval [m_Connection__decrypt_record, decOut, h1, hext]
  · by_cases h2 : C06.beDecode (enc.take 24) = rn
    · cases h3 : C06.secretBoxDecrypt E.box (C06.receiverRecordKey E isSender) enc <;>
        tr_eval [m_Connection__decrypt_record, decOut, h1, h2, h3, hrn, hrb, hext]
    · tr_eval [m_Connection__decrypt_record, decOut, h1, h2, hrn, hext]

/-- `recordReceived(record)` with no consumer and nobody waiting: the record is queued, `_deliverRecords` finds nothing
    to do -/
theorem callM_recordReceived_idle (g : Nat) (env : Env) (h : Store) (v : Val) (q : List Val) (cs : List Call)
    (hc : h.get "_consumer" = some .none) (hq : h.get "_inbound_records" = some (.list q))
    (hw : h.get "_waiting_reads" = some (.list [])) :
    callM env tbl_Connection (g + 2) "recordReceived" [v] h cs =
      (h.set "_inbound_records" (.list (q ++ [v])), cs, .ok .none) := by
  tr_eval [m_Connection_recordReceived, m_Connection__deliverRecords, whileLoop, hc, hq, hw]

/-- the body of the `while True:` of `dataReceivedRECORDS`, taken from the generated method -/
def recordsLoopBody : List Stmt :=
  match m_Connection_dataReceivedRECORDS.2 with
  | [.while _ b] => b
  | _ => []

/-- … which has exactly this outer shape -/
theorem dataReceivedRECORDS_shape : m_Connection_dataReceivedRECORDS = ([], [.while (.bool true) recordsLoopBody]) := rfl

/-! ## the `while True:` of `dataReceivedRECORDS`, for every number of complete records in the buffer -/

macro "tr_eval_nc" "[" ts:Lean.Parser.Tactic.simpLemma,* "]" : tactic =>
  `(tactic| simp [execB, execS, andThen, withVal, evalE, evalEs, readAttr, readVar, bindParams, doEmit,
      forLoop, bindPat, iterElems, valIn, valAdd, valLen, valIndex, valItems, isInstance, pyEq, scalarEq,
      Val.hashable, truthy_none, truthy_bool, truthy_int, truthy_str, truthy_bytes, truthy_tuple, truthy_list,
      truthy_dict, truthy_set, truthy_obj, truthy_ref, truthy_nint, St.setAttr, St.setLocal, St.bindOpt, Store.get,
      Store.set, Store.del, get_set, bind, Res.bind, pure, unsupported,
      valLe, valMax, valField, isInstanceAny, setElems, valGetD, starElems, doEmitR, runReenter, Val.toInt?, Val.ofInt,
      valSliceT, valStartswithT, isPseudoExcT, envT_raises, envT_reenter, envT_ext, ext_be_decode, ext_be_fixed, ext_box,
      ext_encrypt, ext_decrypt, ext_strmod, ext_deferred, ext_fstr, isFStr,
      $ts,*])

theorem drop4_take (l : Bytes) (n : Nat) : List.drop 4 (List.take (4 + n) l) = List.take n (List.drop 4 l) := by
  rw [List.drop_take]; simp

theorem records_loop (E : C06.Env) (did g : Nat) (env : Env) (hext : env.ext = extT E did) : ∀ (k : Nat) (σ : St) (c : C06.Conn),
    RelConn E σ.heap c → c.app.consumer = none → c.app.waiting = [] → c.buf.length < k →
    let w := whileLoop (fun s => evalE env s (.bool true))
        (execB env (callM env tbl_Connection (g + 2)) (g + 3) recordsLoopBody) k σ
    let m := C06.dataReceivedRECORDS E k c
    w.2 = (match m.2 with | none => .ret .none | some e => .exc e.name) ∧
      RelConn E w.1.heap m.1 ∧ w.1.calls = σ.calls ∧ m.1.app.consumer = none ∧ m.1.app.waiting = [] ∧
      (∀ a, "buf" ≠ a → "next_receive_nonce" ≠ a → "_inbound_records" ≠ a → w.1.heap.get a = σ.heap.get a) := by
  intro k
  induction k with
  | zero => intro σ c _ _ _ hk; omega
  | succ k ih =>
    intro σ c R hcn hwn hk
    obtain ⟨hb, hsn, hrn, hsb, hrb, htr, hin, hw, hc⟩ := R
    obtain ⟨hp, lc, cs⟩ := σ
    simp only at hb hsn hrn hsb hrb htr hin hw hc
    rw [hcn] at hc
    rw [hwn] at hw
    obtain ⟨hc1, hc2⟩ := hc
    have hR : RelConn E hp c := ⟨hb, hsn, hrn, hsb, hrb, htr, by rw [hin], by rw [hwn]; exact hw, by rw [hcn]; exact ⟨hc1, hc2⟩⟩
    simp only [whileLoop]
    generalize hrest : whileLoop _ _ k = rest at ih ⊢
    by_cases h1 : c.buf.length < 4
    · tr_eval_nc [recordsLoopBody, m_Connection_dataReceivedRECORDS, hext, hb, h1, C06.dataReceivedRECORDS, C06.parseFrame, hcn, hwn]
      exact hR
    · have h1e : (c.buf.take 4).isEmpty = false := by
        cases hcb : c.buf with
        | nil => simp [hcb] at h1
        | cons x r => rfl
      by_cases h2 : c.buf.length < 4 + C06.beDecode (c.buf.take 4)
      · tr_eval_nc [recordsLoopBody, m_Connection_dataReceivedRECORDS, hext, hb, h1, h1e, h2, C06.dataReceivedRECORDS, C06.parseFrame, hcn, hwn]
        exact hR
      · generalize hlen : C06.beDecode (c.buf.take 4) = len at h2
        have hcons := hR.cons
        by_cases h3 : (((c.buf.drop 4).take len).take 24).isEmpty = true
        · tr_eval_nc [recordsLoopBody, m_Connection_dataReceivedRECORDS, hb, h1, h1e, h2, hlen, drop4_take,
            callM_decrypt _ E did env hext c.isSender c.nextReceiveNonce, hext, hrn, hrb, decOut, h3, C06.decryptRecord, Gen.C06.NONCE_SIZE,
            C06.Err.name, hcn, hwn, C06.dataReceivedRECORDS, C06.parseFrame]
          refine ⟨by rel_conn, fun a q1 q2 q3 => by simp [get_set, q1, q2, q3]⟩
        · by_cases h4 : C06.beDecode (((c.buf.drop 4).take len).take 24) = c.nextReceiveNonce
          · cases h5 : C06.secretBoxDecrypt E.box (C06.receiverRecordKey E c.isSender) ((c.buf.drop 4).take len) with
            | error e =>
              tr_eval_nc [recordsLoopBody, m_Connection_dataReceivedRECORDS, hb, h1, h1e, h2, hlen, drop4_take,
                callM_decrypt _ E did env hext c.isSender c.nextReceiveNonce, hext, hrn, hrb, decOut, h3, h4, h5, C06.decryptRecord, Gen.C06.NONCE_SIZE,
                C06.Err.name, hcn, hwn, C06.dataReceivedRECORDS, C06.parseFrame]
              refine ⟨by rel_conn, fun a q1 q2 q3 => by simp [get_set, q1, q2, q3]⟩
            | ok r =>
              tr_eval_nc [recordsLoopBody, m_Connection_dataReceivedRECORDS, hb, h1, h1e, h2, hlen, drop4_take,
                callM_decrypt _ E did env hext c.isSender c.nextReceiveNonce, hext, hrn, hrb, decOut, h3, h4, h5, C06.decryptRecord, Gen.C06.NONCE_SIZE,
                hcn, hwn, C06.dataReceivedRECORDS, C06.parseFrame,
                callM_recordReceived_idle _ env _ _ (c.app.inbound.map Val.bytes), hc1, hin, hw]
              rw [C06.recordReceived_idle c.app r hcn hwn]
              generalize hσ1 : ({ heap := _, locals := _, calls := cs } : St) = σ1
              have hh : σ1.heap = ((hp.set "buf" (Val.bytes (List.drop (4 + len) c.buf))).set "next_receive_nonce"
                    (Val.int (c.nextReceiveNonce + 1))).set "_inbound_records"
                      (Val.list (List.map Val.bytes c.app.inbound ++ [Val.bytes r])) := by rw [← hσ1]
              have hcs : σ1.calls = cs := by rw [← hσ1]
              obtain ⟨k1, k2, k3, k4, k5, k6⟩ := ih σ1 { c with buf := c.buf.drop (4 + len), nextReceiveNonce := c.nextReceiveNonce + 1, app := { c.app with inbound := c.app.inbound ++ [r] } } (by
                  rw [hh]
                  refine ⟨?_, ?_, ?_, ?_, ?_, ?_, ?_, ?_, ?_⟩ <;> try (simp [get_set, *]; done)
                  simp only [hcn]
                  exact ⟨by simp [get_set, *], by simp [get_set, *]⟩) hcn hwn (by simp only [List.length_drop]; omega)
              exact ⟨k1, k2, by rw [k3, hcs], k4, k5, fun a q1 q2 q3 => by rw [k6 a q1 q2 q3, hh]; simp [get_set, q1, q2, q3]⟩
          · tr_eval_nc [recordsLoopBody, m_Connection_dataReceivedRECORDS, hb, h1, h1e, h2, hlen, drop4_take,
              callM_decrypt _ E did env hext c.isSender c.nextReceiveNonce, hext, hrn, hrb, decOut, h3, h4, C06.decryptRecord, Gen.C06.NONCE_SIZE,
              C06.Err.name, hcn, hwn, C06.dataReceivedRECORDS, C06.parseFrame]
            refine ⟨by rel_conn, fun a q1 q2 q3 => by simp [get_set, q1, q2, q3]⟩

/-! ## consumer mode, `close`, `connectionLost` -/

/-- the calls of `_writeToConsumer(record)` on consumer `k` -/
def wtcCalls (k : C06.Consumer) (r : Bytes) : List Call :=
  ⟨"_consumer", "write", [.bytes r]⟩ ::
    (match k.expected with
     | some n => if k.written + r.length ≥ n then
         [⟨"_consumer", "unregisterProducer", []⟩,
          ⟨"$v", "callback", [.ref "ConsumerDeferred" k.cid, .int (k.written + r.length)]⟩]
       else []
     | none => [])

theorem callM_writeToConsumer (fuel : Nat) (E : C06.Env) (h : Store) (c : C06.Conn) (R : RelConn E h c)
    (k : C06.Consumer) (hk : c.app.consumer = some k) (hcb : k.cb = none) (hfc : c.app.fcConsumer = false) (r : Bytes)
    (cs : List Call) :
    let o := callM (envT E) tbl_Connection (fuel + 2) "_writeToConsumer" [.bytes r] h cs
    let a' := (C06.writeToConsumer c.app k r false).1
    RelConn E o.1 { c with app := a' } ∧ (C06.writeToConsumer c.app k r false).2 = [] ∧
      o.2.1 = cs ++ wtcCalls k r ∧ o.2.2 = .ok .none := by
  obtain ⟨hb, hsn, hrn, hsb, hrb, htr, hin, hw, hc⟩ := R
  obtain ⟨cid, written, expected, cb⟩ := k
  simp only at hcb
  subst hcb
  rw [hk] at hc
  obtain ⟨hc1, hc2, hc3, hc4⟩ := hc
  simp only at hc1 hc2 hc3 hc4
  intro o a'
  simp only [o, a']
  cases expected with
  | none =>
    simp only [encExpected] at hc3 hc4
    tr_eval [m_Connection__writeToConsumer, hc1, hc2, hc3, C06.writeToConsumer, C06.writeEvents, hfc, wtcCalls]
    refine ⟨?_, ?_, ?_, ?_, ?_, ?_, ?_, ?_, ?_⟩ <;> simp [get_set, RelCons, encExpected, *]
  | some n =>
    simp only [encExpected] at hc3 hc4
    by_cases hge : written + r.length ≥ n
    · have hge' : (n : Int) ≤ (written : Int) + (r.length : Int) := by omega
      tr_eval [m_Connection__writeToConsumer, m_Connection_disconnectConsumer, hc1, hc2, hc3, hc4, C06.writeToConsumer,
        C06.writeEvents, hfc, wtcCalls, hge, hge', C06.consumerDone, C06.disconnectConsumer]
      refine ⟨?_, ?_, ?_, ?_, ?_, ?_, ?_, ?_, ?_⟩ <;> simp [get_set, RelCons, encExpected, *]
    · have hge' : ¬ (n : Int) ≤ (written : Int) + (r.length : Int) := by omega
      tr_eval [m_Connection__writeToConsumer, hc1, hc2, hc3, hc4, C06.writeToConsumer, C06.writeEvents, hfc, wtcCalls, hge, hge']
      refine ⟨?_, ?_, ?_, ?_, ?_, ?_, ?_, ?_, ?_⟩ <;> simp [get_set, RelCons, encExpected, *]


/-- the call `d.errback(error.ConnectionClosed())` on the read Deferred of reader `d` -/
def errCall (d : C06.Reader) : Call := ⟨"$v", "errback", [encReader d, .obj "ConnectionClosed" []]⟩

def errCond : Expr := .attr "_waiting_reads"
def errBody : List Stmt :=
  [.popleft (some "d") "_waiting_reads", .emitV (.var "d") "errback" [(.construct "ConnectionClosed" [])]]

/-- `while self._waiting_reads: d = popleft(); d.errback(ConnectionClosed())` for every number of waiting reads: each is
    failed, oldest first, the deque ends empty, nothing else is touched -/
theorem errback_loop (env : Env) (hra : env.raises = fun _ => none) (hre : env.reenter = fun _ => []) (self : SelfCall) (f : Nat) :
    ∀ (ws : List C06.Reader) (k : Nat) (h l : Store) (cs : List Call),
      h.get "_waiting_reads" = some (.list (ws.map encReader)) → ws.length < k →
      let w := whileLoop (fun s => evalE env s errCond) (execB env self f errBody) k ⟨h, l, cs⟩
      w.2 = .norm ∧ w.1.calls = cs ++ ws.map errCall ∧ w.1.heap.get "_waiting_reads" = some (.list []) ∧
        (∀ a, "_waiting_reads" ≠ a → w.1.heap.get a = h.get a) := by
  intro ws
  induction ws with
  | nil =>
    intro k h l cs hw hk
    obtain ⟨k, rfl⟩ : ∃ k', k = k' + 1 := ⟨k - 1, by omega⟩
    tr_eval_nc [whileLoop, errCond, hw]
  | cons d rest ih =>
    intro k h l cs hw hk
    obtain ⟨k, rfl⟩ : ∃ k', k = k' + 1 := ⟨k - 1, by omega⟩
    simp only [whileLoop]
    generalize hrest : whileLoop _ _ k = R at ih ⊢
    tr_eval_nc [errCond, errBody, hw, encReader, hra, hre]
    subst hrest
    obtain ⟨i1, i2, i3, i4⟩ := ih k (h.set "_waiting_reads" (Val.list (List.map encReader rest))) (l.set "d" (Val.ref "Deferred" d.id))
      (cs ++ [errCall d]) (by simp [get_set]) (by simp at hk; omega)
    simp only [errCall, encReader] at i1 i2 i3 i4 ⊢
    refine ⟨i1, ?_, i3, fun a ha => ?_⟩
    · rw [i2]; simp
    · rw [i4 a ha]; simp [get_set, ha]

theorem foldl_failRead_fields : ∀ (ws : List C06.Reader) (a : C06.App),
    (ws.foldl C06.failRead a).inbound = a.inbound ∧ (ws.foldl C06.failRead a).waiting = a.waiting ∧
    (ws.foldl C06.failRead a).consumer = a.consumer := by
  intro ws
  induction ws with
  | nil => intro a; exact ⟨rfl, rfl, rfl⟩
  | cons d rest ih =>
    intro a
    simp only [List.foldl_cons]
    obtain ⟨i1, i2, i3⟩ := ih (C06.failRead a d)
    rw [i1, i2, i3]
    unfold C06.failRead
    cases d.cb <;> simp [C06.App.emit]

theorem close_shape : m_Connection_close = ([], [.emitA "transport" "loseConnection" [], .while errCond errBody]) := rfl

def lostTail : List Stmt :=
  match m_Connection_connectionLost.2 with
  | _ :: _ :: t => t
  | _ => []

theorem connectionLost_shape : m_Connection_connectionLost =
    (["reason"], .emitG "self" "setTimeout" [.none] :: .while errCond errBody :: lostTail) := rfl


/-! ## `_deliverRecords` -/

def dlvCond : Expr := .and (.attr "_inbound_records") (.attr "_waiting_reads")
def dlvBody : List Stmt :=
  [.popleft (some "r") "_inbound_records", .popleft (some "d") "_waiting_reads", .emitV (.var "d") "callback" [(.var "r")]]

theorem deliver_shape : m_Connection__deliverRecords = ([], [.while dlvCond dlvBody]) := rfl

theorem settle_deliver_step (a : C06.App) (r : Bytes) (rs : List Bytes) (d : C06.Reader) (ds : List C06.Reader)
    (hi : a.inbound = r :: rs) (hw : a.waiting = d :: ds) (hcb : d.cb = none) :
    C06.settle a [.deliver] =
      C06.settle { a with inbound := rs, waiting := ds, log := a.log ++ [.assigned d.id r],
                          storedReads := a.storedReads ++ [(d.id, some r)] } [.deliver] := by
  rw [C06.settle_step]
  simp [C06.appStep, hi, hw, C06.fireRead, hcb, C06.App.emit]

theorem settle_deliver_noinb (a : C06.App) (hi : a.inbound = []) : C06.settle a [.deliver] = a := by
  rw [C06.settle_step]
  simp [C06.appStep, hi, C06.settle_nil]

theorem deliver_loop (env : Env) (hra : env.raises = fun _ => none) (hre : env.reenter = fun _ => []) (self : SelfCall) (f : Nat) :
    ∀ (inb : List Bytes) (ws : List C06.Reader) (k : Nat) (h l : Store) (cs : List Call) (a : C06.App),
      a.inbound = inb → a.waiting = ws → (∀ d ∈ ws, d.cb = none) →
      h.get "_inbound_records" = some (.list (inb.map Val.bytes)) →
      h.get "_waiting_reads" = some (.list (ws.map encReader)) → inb.length < k →
      let w := whileLoop (fun s => evalE env s dlvCond) (execB env self f dlvBody) k ⟨h, l, cs⟩
      let m := C06.settle a [.deliver]
      w.2 = .norm ∧ w.1.heap.get "_inbound_records" = some (.list (m.inbound.map Val.bytes)) ∧
        w.1.heap.get "_waiting_reads" = some (.list (m.waiting.map encReader)) ∧
        (∀ x, "_inbound_records" ≠ x → "_waiting_reads" ≠ x → w.1.heap.get x = h.get x) ∧
        (∃ evs, m.log = a.log ++ evs ∧ w.1.calls.map absTCall = cs.map absTCall ++ evs.map some) ∧
        m.consumer = a.consumer := by
  intro inb
  induction inb with
  | nil =>
    intro ws k h l cs a hi hw hcb hhi hhw hk
    obtain ⟨k, rfl⟩ : ∃ k', k = k' + 1 := ⟨k - 1, by omega⟩
    rw [settle_deliver_noinb a hi]
    tr_eval_nc [whileLoop, dlvCond, hhi, hhw, hi, hw]
  | cons r rs ih =>
    intro ws k h l cs a hi hw hcb hhi hhw hk
    obtain ⟨k, rfl⟩ : ∃ k', k = k' + 1 := ⟨k - 1, by omega⟩
    cases ws with
    | nil =>
      rw [C06.settle_deliver_idle a hw]
      tr_eval_nc [whileLoop, dlvCond, hhi, hhw, hi, hw]
    | cons d ds =>
      have hd : d.cb = none := hcb d (by simp)
      rw [settle_deliver_step a r rs d ds hi hw hd]
      simp only [whileLoop]
      generalize hrest : whileLoop _ _ k = R
      tr_eval_nc [dlvCond, dlvBody, hhi, hhw, encReader, hra, hre]
      subst hrest
      obtain ⟨i1, i2, i3, i4, ⟨evs, i5, i5'⟩, i6⟩ := ih ds k
        ((h.set "_inbound_records" (Val.list (List.map Val.bytes rs))).set "_waiting_reads" (Val.list (List.map encReader ds)))
        ((l.set "r" (Val.bytes r)).set "d" (Val.ref "Deferred" d.id))
        (cs ++ [⟨"$v", "callback", [Val.ref "Deferred" d.id, Val.bytes r]⟩])
        { a with inbound := rs, waiting := ds, log := a.log ++ [.assigned d.id r],
                 storedReads := a.storedReads ++ [(d.id, some r)] } rfl rfl (fun x hx => hcb x (by simp [hx]))
        (by simp [get_set]) (by simp [get_set]) (by simp at hk; omega)
      simp only [encReader] at i1 i2 i3 i4 i5 i5' i6 ⊢
      refine ⟨i1, i2, i3, fun x x1 x2 => ?_, ⟨.assigned d.id r :: evs, ?_, ?_⟩, i6⟩
      · rw [i4 x x1 x2]; simp [get_set, x1, x2]
      · rw [i5]; simp
      · rw [i5']; simp [absTCall]



end WV.Proofs.PyIRTr
