import WV.Proofs.C12_Framer

/-! C12 helper lemmas: the `add_and_parse` loop with its consumer (`pump`): fuel sufficiency,
    a fuel-free unfolding (`run`), append/chunking lemmas. -/
namespace WV.Proofs.C12
open WV WV.C12 WV.Gen

variable {U : Type}

theorem pump_succ (cfg : FramerCfg) (h : U → Token → Except (Err × U) U) (f : Nat) (fr : FramerSt) (u : U) :
    pump cfg h (f + 1) fr u =
      match parseTurn cfg fr with
      | .error e => (fr, u, some e)
      | .ok none => (fr, u, none)
      | .ok (some (fr', none)) => pump cfg h f fr' u
      | .ok (some (fr', some t)) =>
        match h u t with
        | .ok u' => pump cfg h f fr' u'
        | .error (e, u1) => (fr', u1, some e) := rfl

/-- one more unit of fuel changes nothing once the fuel exceeds the measure -/
theorem pump_fuel_succ (cfg : FramerCfg) (h : U → Token → Except (Err × U) U) :
    ∀ (f : Nat) (fr : FramerSt) (u : U), mu fr < f → pump cfg h f fr u = pump cfg h (f + 1) fr u := by
  intro f
  induction f with
  | zero => intro fr u hm; omega
  | succ f ih =>
    intro fr u hm
    rw [pump_succ cfg h (f + 1), pump_succ cfg h f]
    cases hp : parseTurn cfg fr with
    | error e => rfl
    | ok o =>
      cases o with
      | none => rfl
      | some p =>
        obtain ⟨fr', t⟩ := p
        have hd := parseTurn_decreases hp
        cases t with
        | none => exact ih fr' u (by omega)
        | some t =>
          simp only
          cases h u t with
          | error e => rfl
          | ok u' => exact ih fr' u' (by omega)

theorem pump_fuel_add (cfg : FramerCfg) (h : U → Token → Except (Err × U) U) (f k : Nat) (fr : FramerSt) (u : U)
    (hm : mu fr < f) : pump cfg h f fr u = pump cfg h (f + k) fr u := by
  induction k with
  | zero => rfl
  | succ k ih => rw [ih, ← Nat.add_assoc]; exact pump_fuel_succ cfg h (f + k) fr u (by omega)

/-- the loop run to completion -/
def run (cfg : FramerCfg) (h : U → Token → Except (Err × U) U) (fr : FramerSt) (u : U) : FramerSt × U × Option Err :=
  pump cfg h (mu fr + 1) fr u

/-- fuel sufficiency: any fuel above the measure gives the completed run -/
theorem pump_eq_run (cfg : FramerCfg) (h : U → Token → Except (Err × U) U) (f : Nat) (fr : FramerSt) (u : U)
    (hm : mu fr < f) : pump cfg h f fr u = run cfg h fr u := by
  unfold run
  obtain ⟨k, rfl⟩ : ∃ k, f = mu fr + 1 + k := ⟨f - (mu fr + 1), by omega⟩
  exact (pump_fuel_add cfg h (mu fr + 1) k fr u (by omega)).symm

theorem run_unfold (cfg : FramerCfg) (h : U → Token → Except (Err × U) U) (fr : FramerSt) (u : U) :
    run cfg h fr u =
      match parseTurn cfg fr with
      | .error e => (fr, u, some e)
      | .ok none => (fr, u, none)
      | .ok (some (fr', none)) => run cfg h fr' u
      | .ok (some (fr', some t)) =>
        match h u t with
        | .ok u' => run cfg h fr' u'
        | .error (e, u1) => (fr', u1, some e) := by
  conv => lhs; unfold run
  rw [pump_succ]
  cases hp : parseTurn cfg fr with
  | error e => rfl
  | ok o =>
    cases o with
    | none => rfl
    | some p =>
      obtain ⟨fr', t⟩ := p
      have hd := parseTurn_decreases hp
      cases t with
      | none => exact pump_eq_run cfg h _ fr' u hd
      | some t =>
        simp only
        cases h u t with
        | error e => rfl
        | ok u' => exact pump_eq_run cfg h _ fr' u' hd

theorem pumpData_eq_run (cfg : FramerCfg) (h : U → Token → Except (Err × U) U) (fr : FramerSt) (u : U) (d : Bytes) :
    pumpData cfg h fr u d = run cfg h (addBuf fr d) u := by
  unfold pumpData
  exact pump_eq_run cfg h _ (addBuf fr d) u (mu_le _)

/-- strong induction principle along the loop -/
theorem run_induction {motive : FramerSt → U → Prop} (cfg : FramerCfg) (h : U → Token → Except (Err × U) U)
    (step : ∀ fr u,
      (∀ fr', parseTurn cfg fr = .ok (some (fr', none)) → motive fr' u) →
      (∀ fr' t u', parseTurn cfg fr = .ok (some (fr', some t)) → h u t = .ok u' → motive fr' u') →
      motive fr u) :
    ∀ fr u, motive fr u := by
  have : ∀ n fr u, mu fr < n → motive fr u := by
    intro n
    induction n with
    | zero => intro fr u hm; omega
    | succ n ih =>
      intro fr u hm
      apply step
      · intro fr' hp; exact ih fr' u (by have := parseTurn_decreases hp; omega)
      · intro fr' t u' hp _; exact ih fr' u' (by have := parseTurn_decreases hp; omega)
  intro fr u
  exact this (mu fr + 1) fr u (by omega)

/-- when the loop ends without an exception, the framer is waiting for more bytes -/
theorem run_idle (cfg : FramerCfg) (h : U → Token → Except (Err × U) U) :
    ∀ fr u fr' u', run cfg h fr u = (fr', u', none) → parseTurn cfg fr' = .ok none := by
  intro fr u
  refine run_induction (motive := fun fr u => ∀ fr' u', run cfg h fr u = (fr', u', none) → parseTurn cfg fr' = .ok none)
    cfg h ?_ fr u
  intro fr u ih1 ih2 fr' u' hr
  rw [run_unfold] at hr
  cases hp : parseTurn cfg fr with
  | error e => simp [hp] at hr
  | ok o =>
    cases o with
    | none => simp [hp] at hr; rw [← hr.1]; exact hp
    | some p =>
      obtain ⟨fr1, t⟩ := p
      cases t with
      | none => simp only [hp] at hr; exact ih1 fr1 hp fr' u' hr
      | some t =>
        simp only [hp] at hr
        cases hh : h u t with
        | error e => simp [hh] at hr
        | ok u1 => simp only [hh] at hr; exact ih2 fr1 t u1 hp hh fr' u' hr

theorem run_of_idle (cfg : FramerCfg) (h : U → Token → Except (Err × U) U) (fr : FramerSt) (u : U)
    (hi : parseTurn cfg fr = .ok none) : run cfg h fr u = (fr, u, none) := by
  rw [run_unfold, hi]

/-- result of a run when `d` more bytes are in the buffer from the start: identical up to the
    point where the shorter run stops; an exception is the same exception -/
def thenMore (cfg : FramerCfg) (h : U → Token → Except (Err × U) U) (d : Bytes) :
    FramerSt × U × Option Err → FramerSt × U × Option Err
  | (fr, u, some e) => (addBuf fr d, u, some e)
  | (fr, u, none) => run cfg h (addBuf fr d) u

theorem run_append (cfg : FramerCfg) (h : U → Token → Except (Err × U) U) (d : Bytes) :
    ∀ fr u, run cfg h (addBuf fr d) u = thenMore cfg h d (run cfg h fr u) := by
  refine run_induction cfg h ?_
  intro fr u ih1 ih2
  rw [run_unfold cfg h fr u]
  cases hp : parseTurn cfg fr with
  | error e =>
    rw [run_unfold, parseTurn_append_error d hp]; rfl
  | ok o =>
    cases o with
    | none => rfl
    | some p =>
      obtain ⟨fr1, t⟩ := p
      rw [run_unfold, parseTurn_append_some d hp]
      cases t with
      | none => exact ih1 fr1 hp
      | some t =>
        simp only
        cases hh : h u t with
        | error e => rfl
        | ok u1 => exact ih2 fr1 t u1 hp hh

/-- how the one-shot result relates to the chunked one: equal, except that after an exception
    the one-shot buffer also holds the bytes of the chunks that were never delivered -/
def padErr (rest : Bytes) : FramerSt × U × Option Err → FramerSt × U × Option Err
  | (fr, u, some e) => (addBuf fr rest, u, some e)
  | r => r

/-- feeding chunk by chunk = feeding the concatenation at once -/
theorem feed_flatten (cfg : FramerCfg) (h : U → Token → Except (Err × U) U) :
    ∀ (cs : List Bytes) (fr : FramerSt) (u : U), (cs = [] → parseTurn cfg fr = .ok none) →
      ∃ rest, pumpData cfg h fr u cs.flatten = padErr rest (feed cfg h fr u cs) := by
  intro cs
  induction cs with
  | nil =>
    intro fr u hi
    refine ⟨[], ?_⟩
    rw [pumpData_eq_run]
    simp [feed, padErr, run_of_idle cfg h fr u (hi rfl)]
  | cons c cs ih =>
    intro fr u _
    rw [pumpData_eq_run]
    simp only [List.flatten_cons, feed]
    rw [← addBuf_addBuf, run_append, pumpData_eq_run]
    rcases hr : run cfg h (addBuf fr c) u with ⟨fr1, u1, e⟩
    cases e with
    | some e => exact ⟨cs.flatten, rfl⟩
    | none =>
      simp only [thenMore]
      have hidle := run_idle cfg h _ _ _ _ hr
      obtain ⟨rest, hrest⟩ := ih fr1 u1 (fun _ => hidle)
      rw [pumpData_eq_run] at hrest
      exact ⟨rest, hrest⟩

end WV.Proofs.C12
